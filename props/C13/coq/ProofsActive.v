(* C13 — proofs about the active TokenList (Append / GetValByTID / FieldTIDs) and the provider
   pattern.Search receives for a field of an active fraction. *)
From Coq Require Import List Bool Arith NArith ZArith Lia ZifyN ZifyNat.
Import ListNotations.
From C13 Require Import Model ModelBlock.

Lemma bytes_eqb_eq : forall a b, bytes_eqb a b = true <-> a = b.
Proof.
  induction a as [|x a IH]; destruct b as [|y b]; simpl; split; try discriminate; auto.
  - intros H. apply andb_true_iff in H as [H1 H2]. apply N.eqb_eq in H1. apply IH in H2. congruence.
  - intros H. inversion H; subst. rewrite N.eqb_refl. simpl. now apply IH.
Qed.

Lemma bytes_eqb_spec a b : reflect (a = b) (bytes_eqb a b).
Proof. destruct (bytes_eqb a b) eqn:E; constructor; [now apply bytes_eqb_eq|]. intros H. apply bytes_eqb_eq in H. congruence. Qed.

Lemma memb_in t l : memb t l = true <-> In t l.
Proof.
  unfold memb. rewrite existsb_exists. split.
  - intros (x & Hx & E). apply bytes_eqb_eq in E. now subst.
  - intros H. exists t. split; auto. now apply bytes_eqb_eq.
Qed.

Lemma aget_aupd {V} (d : V) k g f : forall m,
  aget d f (aupd d k g m) = if bytes_eqb k f then g (aget d f m) else aget d f m.
Proof.
  induction m as [|[k' v] r IH]; simpl.
  - destruct (bytes_eqb_spec k f); reflexivity.
  - destruct (bytes_eqb_spec k' k) as [->|NE]; simpl.
    + destruct (bytes_eqb_spec k f); reflexivity.
    + rewrite IH. destruct (bytes_eqb_spec k' f) as [->|]; [|reflexivity].
      destruct (bytes_eqb_spec k f); [congruence|reflexivity].
Qed.

Lemma fill_fields_aget f : forall news tid m,
  aget [] f (fill_fields tid news m) = aget [] f m ++ ftids f tid news.
Proof.
  induction news as [|it news IH]; intros tid m; simpl.
  - now rewrite app_nil_r.
  - rewrite IH, aget_aupd. destruct (bytes_eqb (field_of it) f); [now rewrite <- app_assoc|reflexivity].
Qed.

Lemma ftids_app f : forall a tid b,
  ftids f tid (a ++ b) = ftids f tid a ++ ftids f (tid + Z.of_nat (length a))%Z b.
Proof.
  induction a as [|x a IH]; intros tid b; simpl.
  - now replace (tid + 0)%Z with tid by lia.
  - rewrite IH. replace (tid + 1 + Z.of_nat (length a))%Z with (tid + Z.pos (Pos.of_succ_nat (length a)))%Z by lia.
    destruct (bytes_eqb (field_of x) f); reflexivity.
Qed.

Lemma ftids_range f : forall toks tid id, In id (ftids f tid toks) -> (tid <= id < tid + Z.of_nat (length toks))%Z.
Proof.
  induction toks as [|t toks IH]; intros tid id H; simpl in *; [contradiction|].
  destruct (bytes_eqb (field_of t) f).
  - destruct H as [<-|H]; [lia|]. apply IH in H. lia.
  - apply IH in H. lia.
Qed.

Section Active.
  Variable hash : bytes -> nat.
  Variable fl : bytes -> nat.      (* field length of a token: the same token is always split the same way *)
  Definition it (t : bytes) : bytes * nat := (t, fl t).
  Definition val (t : bytes) : bytes := value_of (it t).

  Definition fresh_toks (known : list bytes) (arrival : list nat) (batch : list bytes) : list bytes :=
    flat_map (fun k => filter (fun t => Nat.eqb (hash t) k && negb (memb t known)) batch) arrival.

  Lemma filter_map_it (p : bytes * nat -> bool) : forall l, filter p (map it l) = map it (filter (fun t => p (it t)) l).
  Proof. induction l as [|x l IH]; simpl; auto. destruct (p (it x)); simpl; now rewrite IH. Qed.

  Lemma flat_map_map {A B C} (g : B -> C) (h : A -> list B) : forall l, flat_map (fun k => map g (h k)) l = map g (flat_map h l).
  Proof. induction l; simpl; auto. now rewrite map_app, IHl. Qed.

  Lemma news_eq known arrival batch :
    flat_map (fun k => filter (fun i => Nat.eqb (hash (fst i)) k && negb (memb (fst i) known)) (map it batch)) arrival
    = map it (fresh_toks known arrival batch).
  Proof.
    unfold fresh_toks. rewrite <- flat_map_map. apply flat_map_ext. intros k. now rewrite filter_map_it.
  Qed.

  Lemma fresh_in known arrival batch t : (forall x, In x batch -> In (hash x) arrival) ->
    (In t (fresh_toks known arrival batch) <-> In t batch /\ ~ In t known).
  Proof.
    intros Hc. unfold fresh_toks. rewrite in_flat_map. split.
    - intros (k & _ & H). apply filter_In in H as [Hb H]. apply andb_true_iff in H as [_ H].
      split; auto. intros Hk. apply memb_in in Hk. rewrite Hk in H. discriminate.
    - intros [Hb Hk]. exists (hash t). split; [now apply Hc|]. apply filter_In. split; auto.
      rewrite Nat.eqb_refl. simpl. destruct (memb t known) eqn:E; [|reflexivity]. apply memb_in in E. contradiction.
  Qed.

  Lemma nodup_app {A} (a b : list A) : NoDup a -> NoDup b -> (forall x, In x a -> ~ In x b) -> NoDup (a ++ b).
  Proof.
    induction a as [|x a IH]; intros Ha Hb Hd; simpl; auto. inversion Ha; subst. constructor.
    - intros H. apply in_app_or in H as [H|H]; [contradiction|]. apply (Hd x); simpl; auto.
    - apply IH; auto. intros y Hy. apply Hd. now right.
  Qed.

  Lemma nodup_filter {A} (p : A -> bool) l : NoDup l -> NoDup (filter p l).
  Proof.
    induction 1; simpl; [constructor|]. destruct (p x); auto. constructor; auto.
    intros Hx. apply filter_In in Hx as [Hx _]. contradiction.
  Qed.

  Lemma fresh_nodup known batch : NoDup batch -> forall arrival, NoDup arrival ->
    NoDup (fresh_toks known arrival batch).
  Proof.
    intros Hb. induction arrival as [|k arrival IH]; intros Ha; [constructor|].
    inversion Ha; subst. unfold fresh_toks in *. simpl. apply nodup_app.
    - now apply nodup_filter.
    - now apply IH.
    - intros x Hx Hy. apply filter_In in Hx as [_ Hx]. apply andb_true_iff in Hx as [Hx _]. apply Nat.eqb_eq in Hx.
      apply in_flat_map in Hy as (k' & Hk' & Hy). apply filter_In in Hy as [_ Hy].
      apply andb_true_iff in Hy as [Hy _]. apply Nat.eqb_eq in Hy. congruence.
  Qed.

  (* state invariant *)
  Definition AInv (st : tlist) : Prop :=
    NoDup (tl_known st) /\
    tl_vals st = [] :: map val (tl_known st) /\
    forall f, aget [] f (tl_fields st) = ftids f 1 (map it (tl_known st)).

  Definition batch_ok (ab : list nat * list bytes) : Prop :=
    NoDup (fst ab) /\ (forall t, In t (snd ab) -> In (hash t) (fst ab)) /\ NoDup (snd ab).

  Lemma append_inv st ab : AInv st -> batch_ok ab ->
    let st' := tl_append hash (fst ab) st (map it (snd ab)) in
    AInv st' /\ forall t, In t (tl_known st') <-> In t (tl_known st) \/ In t (snd ab).
  Proof.
    intros (I1 & I2 & I3) (B1 & B2 & B3). destruct ab as [arrival batch]. cbn [fst snd] in *.
    cbv zeta. unfold tl_append. rewrite news_eq. cbn [tl_known tl_vals tl_fields].
    set (nt := fresh_toks (tl_known st) arrival batch).
    assert (Efst : forall l, map fst (map it l) = l) by (induction l; simpl; congruence).
    rewrite Efst.
    pose proof (fresh_in (tl_known st) arrival batch) as FI. fold nt in FI.
    unfold AInv. cbn [tl_known tl_vals tl_fields].
    split; [split; [|split]|].
    - apply nodup_app; auto.
      + now apply fresh_nodup.
      + intros x Hx Hn. apply FI in Hn; auto. tauto.
    - rewrite I2, map_app, map_map. reflexivity.
    - intros f. rewrite fill_fields_aget, I3, map_app, ftids_app. f_equal. f_equal.
      rewrite I2. cbn [length]. rewrite !map_length. lia.
    - intros t. rewrite in_app_iff, FI by auto.
      destruct (in_dec (list_eq_dec N.eq_dec) t (tl_known st)); tauto.
  Qed.

  Definition hist_items (hist : list (list nat * list bytes)) : list (list nat * list (bytes * nat)) :=
    map (fun ab => (fst ab, map it (snd ab))) hist.

  Lemma run_inv : forall hist st, AInv st -> Forall batch_ok hist ->
    let st' := tl_run hash st (hist_items hist) in
    AInv st' /\ forall t, In t (tl_known st') <-> In t (tl_known st) \/ exists ab, In ab hist /\ In t (snd ab).
  Proof.
    induction hist as [|ab hist IH]; intros st I HF; cbv zeta.
    - simpl. split; auto. intros t. split; [auto|]. intros [H|(ab & [] & _)]; auto.
    - inversion HF as [|? ? Hab HF']; subst. simpl.
      destruct (append_inv st ab I Hab) as [I' S']. cbv zeta in *.
      destruct (IH _ I' HF') as [I'' S'']. cbv zeta in *. split; [exact I''|].
      intros t. rewrite S'', S'. split.
      + intros [[H|H]|(ab' & H1 & H2)]; auto.
        * right. exists ab. simpl. auto.
        * right. exists ab'. simpl. auto.
      + intros [H|(ab' & [<-|H1] & H2)]; auto. right. exists ab'. auto.
  Qed.

  Lemma dict_eq f : forall toks pre,
    map (fun id => nth (Z.to_nat id) (pre ++ map val toks) []) (ftids f (Z.of_nat (length pre)) (map it toks))
    = map val (filter (fun t => bytes_eqb (field_of (it t)) f) toks).
  Proof.
    induction toks as [|t toks IH]; intros pre; simpl; auto.
    specialize (IH (pre ++ [val t])). rewrite <- app_assoc in IH. simpl in IH.
    replace (Z.of_nat (length (pre ++ [val t]))) with (Z.of_nat (length pre) + 1)%Z in IH
      by (rewrite app_length; simpl; lia).
    destruct (bytes_eqb (field_of (it t)) f); simpl; [|exact IH].
    rewrite IH. f_equal. rewrite Nat2Z.id, app_nth2, Nat.sub_diag by lia. reflexivity.
  Qed.

  Theorem active_exact (hist : list (list nat * list bytes)) : Forall batch_ok hist ->
    let st := tl_run hash tl_empty (hist_items hist) in
    let toks := tl_known st in
    NoDup toks /\
    (forall t, In t toks <-> exists ab, In ab hist /\ In t (snd ab)) /\
    tl_vals st = [] :: map val toks /\
    (forall tid, (1 <= tid <= Z.of_nat (length toks))%Z ->
       tl_get_val st tid = Some (val (nth (Z.to_nat (tid - 1)) toks []))) /\
    (forall f, aget [] f (tl_fields st) = ftids f 1 (map it toks)) /\
    (forall f, ap_dict st f = map val (filter (fun t => bytes_eqb (field_of (it t)) f) toks)) /\
    (forall f tid, (1 <= tid <= ap_last_tid st f)%Z -> ap_get_token st f tid = Some (tok 1 (ap_dict st f) tid)).
  Proof.
    intros HF. cbv zeta.
    assert (I0 : AInv tl_empty).
    { split; [constructor|]. split; [reflexivity|]. intros f. reflexivity. }
    destruct (run_inv hist tl_empty I0 HF) as [(I1 & I2 & I3) Sx]. cbv zeta in *.
    set (st := tl_run hash tl_empty (hist_items hist)) in *.
    split; [exact I1|]. split.
    { intros t. rewrite Sx. simpl. tauto. }
    split; [exact I2|]. split.
    { intros tid Ht. unfold tl_get_val. destruct (Z.ltb_spec tid 0); [lia|]. rewrite I2.
      replace (Z.to_nat tid) with (S (Z.to_nat (tid - 1))) by lia. simpl.
      apply map_nth_error. apply nth_error_nth'. lia. }
    split; [exact I3|].
    assert (D : forall f, ap_dict st f = map val (filter (fun t => bytes_eqb (field_of (it t)) f) (tl_known st))).
    { intros f. unfold ap_dict. rewrite I3, I2. exact (dict_eq f (tl_known st) [[]]). }
    split; [exact D|].
    intros f tid Ht. unfold ap_get_token, ap_last_tid in *.
    destruct (Z.ltb_spec tid 1); [lia|].
    set (tids := aget [] f (tl_fields st)) in *.
    rewrite (nth_error_nth' tids 0%Z) by lia.
    assert (Hin : In (nth (Z.to_nat (tid - 1)) tids 0%Z) tids) by (apply nth_In; lia).
    unfold tids in Hin at 2. rewrite I3 in Hin. apply ftids_range in Hin. rewrite map_length in Hin.
    unfold tl_get_val. destruct (Z.ltb_spec (nth (Z.to_nat (tid - 1)) tids 0%Z) 0); [lia|].
    assert (E : nth_error (tl_vals st) (Z.to_nat (nth (Z.to_nat (tid - 1)) tids 0%Z)) =
                Some (nth (Z.to_nat (nth (Z.to_nat (tid - 1)) tids 0%Z)) (tl_vals st) [])).
    { apply nth_error_nth'. rewrite I2. cbn [length]. rewrite map_length. lia. }
    rewrite E.
    f_equal. unfold tok, ap_dict. fold tids.
    set (g := fun id : Z => nth (Z.to_nat id) (tl_vals st) []).
    change (g (nth (Z.to_nat (tid - 1)) tids 0%Z) = nth (Z.to_nat (tid - 1)) (map g tids) []).
    rewrite (nth_indep (map g tids) [] (g 0%Z)) by (rewrite map_length; lia).
    symmetry. apply map_nth.
  Qed.
End Active.
