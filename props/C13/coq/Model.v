(* C13 — executable model of token matching (pattern/pattern.go, pattern/substring.go,
   util.BinSearchInRange, frac/token/table.go:SelectEntries, frac/token/provider.go) and the
   glob / interval specification it is compared with. NO proofs in this file.

   Conventions: a byte string is a list of N; TIDs and Go ints are Z (no machine-width wrap:
   FirstTID >= 1 in every provider of the code base, see check.py ASSUME); every function that
   needs fuel returns None = OutOfFuel (and nothing else is ever reported as None). *)
From Coq Require Import List Bool Arith NArith ZArith.
Import ListNotations.

Definition bytes := list N.

(* ------------------------------------------------------------------ terms and the glob spec *)

(* parser.Term: TermText with data / TermSymbol "*" *)
Inductive term := TText (s : bytes) | TStar.

(* [strip_prefix p t] = Some r  iff  t = p ++ r *)
Fixpoint strip_prefix (p t : bytes) : option bytes :=
  match p with
  | [] => Some t
  | c :: p' => match t with
               | [] => None
               | d :: t' => if N.eqb c d then strip_prefix p' t' else None
               end
  end.

(* SPEC: the usual recursive definition of glob matching; '*' = any (possibly empty) string *)
Fixpoint glob (ts : list term) (t : bytes) {struct ts} : bool :=
  match ts with
  | [] => match t with [] => true | _ => false end
  | TText s :: r => match strip_prefix s t with Some t' => glob r t' | None => false end
  | TStar :: r =>
      (fix star (t : bytes) : bool :=
         glob r t || match t with [] => false | _ :: t' => star t' end) t
  end.

(* Term lists the parsers build (parseSeqQLKeyword / the legacy term builder): text runs
   separated by '*': non-empty list, no two adjacent text terms, no empty text term — except that
   the empty value is the single empty literal [TText []]. *)
Fixpoint wf_from (prev_text : bool) (ts : list term) : bool :=
  match ts with
  | [] => true
  | TText s :: r => negb prev_text && negb (match s with [] => true | _ => false end) && wf_from true r
  | TStar :: r => wf_from false r
  end.
Definition wf (ts : list term) : bool :=
  match ts with
  | [] => false
  | [TText _] => true
  | _ => wf_from false ts
  end.

(* ------------------------------------------------------------------ byte order *)

(* bytes.Compare / Go string comparison *)
Fixpoint bcmp (a b : bytes) : comparison :=
  match a, b with
  | [], [] => Eq
  | [], _ :: _ => Lt
  | _ :: _, [] => Gt
  | x :: a', y :: b' => match N.compare x y with Eq => bcmp a' b' | c => c end
  end.
Definition beqb (a b : bytes) : bool := match bcmp a b with Eq => true | _ => false end.
Definition bltb (a b : bytes) : bool := match bcmp a b with Lt => true | _ => false end.
Definition bleb (a b : bytes) : bool := match bcmp a b with Gt => false | _ => true end.

(* ------------------------------------------------------------------ substring.go *)

(* inner loop  for cur > 0 && b != val[cur] { cur = prefFunc[cur-1] } *)
Fixpoint fallback (fuel : nat) (pf : list nat) (p : bytes) (cur : nat) (b : N) : option nat :=
  match fuel with
  | O => None
  | S f => if (0 <? cur) && negb (N.eqb b (nth cur p 0%N))
           then fallback f pf p (nth (cur - 1) pf 0) b
           else Some cur
  end.

(* loop body shared by calcPrefFunc and findSubstring: fall back, then advance on a match *)
Definition kstep (pf : list nat) (p : bytes) (cur : nat) (b : N) : option nat :=
  match fallback (S cur) pf p cur b with
  | None => None
  | Some c => Some (if N.eqb b (nth c p 0%N) then S c else c)
  end.

(* calcPrefFunc: table built left to right; entry 0 is 0 *)
Fixpoint pref_loop (p rest : bytes) (cur : nat) (pf : list nat) : option (list nat) :=
  match rest with
  | [] => Some pf
  | b :: r => match kstep pf p cur b with
              | None => None
              | Some c => pref_loop p r c (pf ++ [c])
              end
  end.
Definition pref_func (p : bytes) : option (list nat) := pref_loop p (tl p) 0 [0].

Inductive kres := KEnd (e : nat) | KNone | KFuel.

(* findSubstring: end index of the first position where the whole pattern is matched, or -1.
   (newSubstringPattern panics on an empty pattern: the parsers never build an empty text term
   inside a wildcard pattern; the model is only used on non-empty patterns.) *)
Fixpoint find_loop (pf : list nat) (p s : bytes) (i cur : nat) : kres :=
  match s with
  | [] => KNone
  | b :: s' => match kstep pf p cur b with
               | None => KFuel
               | Some c => if c =? length p then KEnd (S i) else find_loop pf p s' (S i) c
               end
  end.
Definition find_substring (s p : bytes) : kres :=
  match pref_func p with
  | None => KFuel
  | Some pf => find_loop pf p s 0 0
  end.

(* findSequence: number of patterns found one after the other *)
Fixpoint find_sequence (s : bytes) (ms : list bytes) : option nat :=
  match ms with
  | [] => Some 0
  | m :: r => match find_substring s m with
              | KFuel => None
              | KNone => Some 0
              | KEnd e => option_map S (find_sequence (skipn e s) r)
              end
  end.

(* ------------------------------------------------------------------ wildcardSearch / literalSearch *)

Record wsearch := { w_prefix : bytes; w_suffix : bytes; w_middle : list bytes }.

Definition texts (ts : list term) : list bytes :=
  flat_map (fun t => match t with TText s => [s] | TStar => [] end) ts.

(* newWildcardSearch: terms[0] / terms[len-1] if text, text terms among terms[1 .. len-2] *)
Definition new_wildcard (ts : list term) : wsearch :=
  {| w_prefix := match ts with TText p :: _ => p | _ => [] end;
     w_suffix := match last ts TStar with TText s => s | TStar => [] end;
     w_middle := texts (removelast (tl ts)) |}.

Definition middle_len (w : wsearch) : nat := fold_right (fun m n => length m + n) 0 (w_middle w).

Definition check_prefix (narrowed : bool) (w : wsearch) (v : bytes) : bool :=
  if narrowed || (length (w_prefix w) =? 0) then true
  else if length v <? length (w_prefix w) then false
  else beqb (w_prefix w) (firstn (length (w_prefix w)) v).

(* nat subtraction truncates where Go's int goes negative; both make the guard true there
   because the suffix (resp. middle) is non-empty *)
Definition check_suffix (w : wsearch) (v : bytes) : bool :=
  if length (w_suffix w) =? 0 then true
  else if length v - length (w_prefix w) <? length (w_suffix w) then false
  else beqb (skipn (length v - length (w_suffix w)) v) (w_suffix w).

Definition check_middle (w : wsearch) (v : bytes) : option bool :=
  if length (w_middle w) =? 0 then Some true
  else if length v - length (w_prefix w) - length (w_suffix w) <? middle_len w then Some false
  else match find_sequence
               (firstn (length v - length (w_suffix w) - length (w_prefix w))
                       (skipn (length (w_prefix w)) v)) (w_middle w) with
       | None => None
       | Some k => Some (k =? length (w_middle w))
       end.

Definition wild_check (narrowed : bool) (w : wsearch) (v : bytes) : option bool :=
  if check_prefix narrowed w v then
    if check_suffix w v then check_middle w v else Some false
  else Some false.

Definition lit_check (narrowed : bool) (value v : bytes) : bool :=
  if narrowed then length value =? length v else beqb value v.

(* ------------------------------------------------------------------ ranges *)

(* parser.Range: an end is None when its term is a symbol ('*'), else the text *)
Record rng := { r_from : option bytes; r_to : option bytes; r_incf : bool; r_inct : bool }.

(* order-preserving integer key of a finite float64 (supplied by the ParseFloat oracle):
   key(MaxFloat64) *)
Definition maxkey : Z := 9218868437227405311%Z.

Section Range.
  (* the oracle: Some key iff strconv.ParseFloat succeeds with a finite value *)
  Variable parse : bytes -> option Z.

  (* NewRangeNumberSearch: (from, includeFrom, to, includeTo) or None (= nil: text search) *)
  Definition num_search (r : rng) : option (Z * bool * Z * bool) :=
    match (match r_from r with
           | None => Some ((- maxkey)%Z, true)
           | Some s => match parse s with Some k => Some (k, r_incf r) | None => None end
           end) with
    | None => None
    | Some (f, incf) =>
        match (match r_to r with
               | None => Some (maxkey, true)
               | Some s => match parse s with Some k => Some (k, r_inct r) | None => None end
               end) with
        | None => None
        | Some (t, inct) => Some (f, incf, t, inct)
        end
    end.

  Definition num_check (f : Z) (incf : bool) (t : Z) (inct : bool) (v : bytes) : bool :=
    match parse v with
    | None => false
    | Some k => (if incf then (f <=? k)%Z else (f <? k)%Z) && (if inct then (k <=? t)%Z else (k <? t)%Z)
    end.

  Definition text_check (r : rng) (v : bytes) : bool :=
    (match r_from r with
     | None => true
     | Some f => if r_incf r then bleb f v else bltb f v
     end) &&
    (match r_to r with
     | None => true
     | Some t => if r_inct r then bleb v t else bltb v t
     end).

  Definition range_check (r : rng) (v : bytes) : bool :=
    match num_search r with
    | Some (f, incf, t, inct) => num_check f incf t inct v
    | None => text_check r v
    end.

  (* SPEC: interval semantics *)
  Definition end_is_num (e : option bytes) : bool :=
    match e with None => true | Some s => match parse s with Some _ => true | None => false end end.
  Definition range_spec (r : rng) (v : bytes) : bool :=
    if end_is_num (r_from r) && end_is_num (r_to r) then
      match parse v with
      | None => false
      | Some k =>
          (match r_from r with
           | None => true
           | Some s => match parse s with
                       | Some f => if r_incf r then (f <=? k)%Z else (f <? k)%Z
                       | None => false end
           end) &&
          (match r_to r with
           | None => true
           | Some s => match parse s with
                       | Some t => if r_inct r then (k <=? t)%Z else (k <? t)%Z
                       | None => false end
           end)
      end
    else text_check r v.
End Range.

(* ------------------------------------------------------------------ sort.Search / BinSearchInRange *)

Fixpoint bsearch (fuel : nat) (f : Z -> bool) (i j : Z) : option Z :=
  match fuel with
  | O => None
  | S k => if (i <? j)%Z then
             let h := ((i + j) / 2)%Z in
             if f h then bsearch k f i h else bsearch k f (h + 1)%Z j
           else Some i
  end.
Definition sort_search (n : Z) (f : Z -> bool) : option Z := bsearch (S (Z.to_nat n)) f 0%Z n.
Definition bin_search_in_range (from to : Z) (fn : Z -> bool) : option Z :=
  option_map (Z.add from) (sort_search (to - from + 1)%Z (fun i => fn (from + i)%Z)).

(* ------------------------------------------------------------------ providers and Search *)

Inductive query := QLit (ts : list term) | QRange (r : rng).

(* a provider: FirstTID = first, tokens dict (LastTID = first + |dict| - 1) *)
Definition tok (first : Z) (dict : list bytes) (tid : Z) : bytes :=
  nth (Z.to_nat (tid - first)) dict [].
Definition last_tid (first : Z) (dict : list bytes) : Z := (first + Z.of_nat (length dict) - 1)%Z.

Definition cut (s : bytes) (l : nat) : bytes := firstn l s.

(* literalSearch.Narrow *)
Definition lit_narrow (first : Z) (dict : list bytes) (value : bytes) : option (Z * Z) :=
  let last := last_tid first dict in
  match bin_search_in_range first last (fun tid => bleb value (tok first dict tid)) with
  | None => None
  | Some f => if (f <=? last)%Z && beqb (tok first dict f) value then Some (f, f) else Some (f, (f - 1)%Z)
  end.

(* wildcardSearch.Narrow *)
Definition wild_narrow (first : Z) (dict : list bytes) (prefix : bytes) : option (Z * Z) :=
  let last := last_tid first dict in
  let l := length prefix in
  match bin_search_in_range first last (fun tid => bleb prefix (cut (tok first dict tid) l)) with
  | None => None
  | Some f =>
      match bin_search_in_range f last (fun tid => bltb prefix (cut (tok first dict tid) l)) with
      | None => None
      | Some e => Some (f, (e - 1)%Z)
      end
  end.

(* loop of Search: tid from sfirst while tid <= slast *)
Fixpoint scan (chk : bytes -> option bool) (tid : Z) (l : list bytes) : option (list Z) :=
  match l with
  | [] => Some []
  | v :: r => match chk v, scan chk (tid + 1)%Z r with
              | Some true, Some o => Some (tid :: o)
              | Some false, Some o => Some o
              | _, _ => None
              end
  end.
Definition scan_range (first : Z) (dict : list bytes) (sfirst slast : Z) (chk : bytes -> option bool) :=
  scan chk sfirst (firstn (Z.to_nat (slast - sfirst + 1)) (skipn (Z.to_nat (sfirst - first)) dict)).

Definition is_literal (ts : list term) : option bytes :=
  match ts with [TText s] => Some s | _ => None end.

(* pattern.Search (newSearcher + loop) *)
Definition search (parse : bytes -> option Z) (ordered : bool) (first : Z) (dict : list bytes) (q : query)
  : option (list Z) :=
  let last := last_tid first dict in
  match q with
  | QLit ts =>
      match is_literal ts with
      | Some value =>
          if ordered then
            match lit_narrow first dict value with
            | None => None
            | Some (f, l) => scan_range first dict f l (fun v => Some (lit_check true value v))
            end
          else scan_range first dict first last (fun v => Some (lit_check false value v))
      | None =>
          let w := new_wildcard ts in
          if ordered then
            match wild_narrow first dict (w_prefix w) with
            | None => None
            | Some (f, l) => scan_range first dict f l (wild_check true w)
            end
          else scan_range first dict first last (wild_check false w)
      end
  | QRange r => scan_range first dict first last (fun v => Some (range_check parse r v))
  end.

(* SPEC: scanning every token with the glob / interval semantics *)
Definition spec_match (parse : bytes -> option Z) (q : query) (v : bytes) : bool :=
  match q with QLit ts => glob ts v | QRange r => range_spec parse r v end.
Fixpoint spec_scan (m : bytes -> bool) (tid : Z) (l : list bytes) : list Z :=
  match l with
  | [] => []
  | v :: r => if m v then tid :: spec_scan m (tid + 1)%Z r else spec_scan m (tid + 1)%Z r
  end.

(* ------------------------------------------------------------------ token table *)

(* Table.SelectEntries on one field: minval = FieldData.MinVal, maxvals = MaxVal of every entry;
   result = slice bounds [l, r) into the entries *)
Definition select_entries (minval : bytes) (maxvals : list bytes) (hint : bytes) : option (Z * Z) :=
  let n := Z.of_nat (length maxvals) in
  let hl := length hint in
  let mv i := nth (Z.to_nat i) maxvals [] in
  match hint with
  | [] => Some (0%Z, n)
  | _ =>
      if bltb hint (cut minval hl) then Some (0%Z, 0%Z)
      else match sort_search (n - 1)%Z (fun i => bltb hint (cut (mv i) hl)) with
           | None => None
           | Some r0 =>
               let r := (1 + r0)%Z in
               match sort_search r (fun i => bleb hint (cut (mv i) hl)) with
               | None => None
               | Some l => Some (l, r)
               end
           end
  end.

(* parser.GetHint *)
Definition hint_of (q : query) : bytes :=
  match q with QLit (TText s :: _) => s | _ => [] end.

(* sealedTokenIndex.GetTIDsByTokenExpr on one field whose tokens (TIDs first, first+1, ...) are
   split into the entries [entries] (each a non-empty block of consecutive tokens) *)
Definition sealed_search (parse : bytes -> option Z) (first : Z) (entries : list (list bytes)) (q : query)
  : option (list Z) :=
  let minval := hd [] (hd [] entries) in
  let maxvals := map (fun e => last e []) entries in
  match select_entries minval maxvals (hint_of q) with
  | None => None
  | Some (l, r) =>
      let sel := firstn (Z.to_nat (r - l)) (skipn (Z.to_nat l) entries) in
      match sel with
      | [] => Some []
      | _ => search parse true (first + Z.of_nat (length (concat (firstn (Z.to_nat l) entries))))%Z
                    (concat sel) q
      end
  end.

(* oracle given as an association list (numeric strings only) *)
Fixpoint bytes_eqb (a b : bytes) : bool :=
  match a, b with
  | [], [] => true
  | x :: a', y :: b' => N.eqb x y && bytes_eqb a' b'
  | _, _ => false
  end.
Fixpoint lookup (keys : list (bytes * Z)) (s : bytes) : option Z :=
  match keys with
  | [] => None
  | (k, v) :: r => if bytes_eqb k s then Some v else lookup r s
  end.
