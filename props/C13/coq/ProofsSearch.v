(* C13 — byte order, binary search, ranges, narrowing, token-table entry selection. *)
From Coq Require Import List Bool Arith NArith ZArith Lia Sorting.Sorted.
Import ListNotations.
From C13 Require Import Model ProofsGlob ProofsKmp ProofsWild.

(* ------------------------------------------------------------------ ranges *)

Section RangeProofs.
  Variable parse : bytes -> option Z.
  (* every finite float64 lies between -MaxFloat64 and MaxFloat64 *)
  Hypothesis parse_bounded : forall s k, parse s = Some k -> (- maxkey <= k <= maxkey)%Z.

  Theorem range_check_spec r v : range_check parse r v = range_spec parse r v.
  Proof.
    unfold range_check, range_spec, num_search, end_is_num, num_check.
    remember maxkey as M eqn:EM.
    destruct (r_from r) as [f|]; destruct (r_to r) as [t|]; simpl.
    - destruct (parse f) as [kf|]; simpl; [|reflexivity].
      destruct (parse t) as [kt|]; simpl; reflexivity.
    - destruct (parse f) as [kf|]; simpl; [|reflexivity].
      destruct (parse v) as [k|] eqn:Ev; [|reflexivity].
      apply parse_bounded in Ev. try rewrite <- EM in Ev. replace (k <=? M)%Z with true by (symmetry; apply Z.leb_le; lia).
      reflexivity.
    - destruct (parse t) as [kt|]; simpl; [|reflexivity].
      destruct (parse v) as [k|] eqn:Ev; [|reflexivity].
      apply parse_bounded in Ev. try rewrite <- EM in Ev. replace (- M <=? k)%Z with true by (symmetry; apply Z.leb_le; lia).
      reflexivity.
    - destruct (parse v) as [k|] eqn:Ev; [|reflexivity].
      apply parse_bounded in Ev. try rewrite <- EM in Ev.
      replace (- M <=? k)%Z with true by (symmetry; apply Z.leb_le; lia).
      replace (k <=? M)%Z with true by (symmetry; apply Z.leb_le; lia). reflexivity.
  Qed.
End RangeProofs.

(* ------------------------------------------------------------------ byte order is a total order *)

Lemma bleb_nil b : bleb [] b = true.
Proof. destruct b; reflexivity. Qed.

Lemma bleb_cons x a y b :
  bleb (x :: a) (y :: b) = true <-> (x < y)%N \/ (x = y /\ bleb a b = true).
Proof.
  unfold bleb. simpl. destruct (N.compare_spec x y) as [->|L|L].
  - split; [intros H; right; split; [reflexivity | exact H] | intros [H|[_ H]]; [lia | exact H]].
  - split; [now left | reflexivity].
  - split; [discriminate | intros [H|[H _]]; lia].
Qed.

Lemma bleb_trans a : forall b c, bleb a b = true -> bleb b c = true -> bleb a c = true.
Proof.
  induction a as [|x a IH]; intros b c H1 H2; [apply bleb_nil|].
  destruct b as [|y b]; [discriminate|]. destruct c as [|z c]; [discriminate|].
  apply bleb_cons in H1. apply bleb_cons in H2. apply bleb_cons.
  destruct H1 as [H1|[-> H1]]; destruct H2 as [H2|[-> H2]]; try (left; lia).
  right. split; [reflexivity | eauto].
Qed.

Lemma bcmp_antisym a : forall b, bcmp b a = CompOpp (bcmp a b).
Proof.
  induction a as [|x a IH]; intros [|y b]; simpl; try reflexivity.
  rewrite (N.compare_antisym x y). destruct (N.compare x y); simpl; auto.
Qed.

Lemma bltb_not_le a b : bltb a b = negb (bleb b a).
Proof. unfold bltb, bleb. rewrite (bcmp_antisym a b). destruct (bcmp a b); reflexivity. Qed.

Lemma bleb_total a b : bleb a b = true \/ bleb b a = true.
Proof. unfold bleb. rewrite (bcmp_antisym a b). destruct (bcmp a b); auto. Qed.

Lemma bltb_le a b : bltb a b = true -> bleb a b = true.
Proof. unfold bltb, bleb. destruct (bcmp a b); auto; discriminate. Qed.

Lemma ble_antisym a b : bleb a b = true -> bleb b a = true -> a = b.
Proof.
  unfold bleb. rewrite (bcmp_antisym a b). intros H1 H2. apply bcmp_eq.
  destruct (bcmp a b); auto; discriminate.
Qed.

Lemma bleb_refl a : bleb a a = true.
Proof. unfold bleb. replace (bcmp a a) with Eq; [reflexivity|]. symmetry. now apply bcmp_eq. Qed.

Lemma blt_le_trans a b c : bltb a b = true -> bleb b c = true -> bltb a c = true.
Proof.
  intros H1 H2. rewrite bltb_not_le in *. apply negb_true_iff in H1. apply negb_true_iff.
  destruct (bleb c a) eqn:E; [|reflexivity]. rewrite (bleb_trans b c a H2 E) in H1. discriminate.
Qed.

Lemma ble_lt_trans a b c : bleb a b = true -> bltb b c = true -> bltb a c = true.
Proof.
  intros H1 H2. rewrite bltb_not_le in *. apply negb_true_iff in H2. apply negb_true_iff.
  destruct (bleb c a) eqn:E; [|reflexivity]. rewrite (bleb_trans c a b E H1) in H2. discriminate.
Qed.

Lemma bltb_irrefl a : bltb a a = false.
Proof. rewrite bltb_not_le, bleb_refl. reflexivity. Qed.

Lemma cut_mono l : forall a b, bleb a b = true -> bleb (cut a l) (cut b l) = true.
Proof.
  unfold cut. induction l as [|l IH]; intros a b H; simpl; [reflexivity|].
  destruct a as [|x a]; [apply bleb_nil|]. destruct b as [|y b]; [discriminate|].
  apply bleb_cons in H. apply bleb_cons. destruct H as [H|[-> H]]; [now left | right; split; auto].
Qed.

Lemma cut_prefix p v : cut v (length p) = p <-> exists r, v = p ++ r.
Proof.
  unfold cut. split.
  - intros H. exists (skipn (length p) v). rewrite <- H at 1. now rewrite firstn_skipn.
  - intros (r & ->). rewrite firstn_app, Nat.sub_diag, firstn_all. simpl. now rewrite app_nil_r.
Qed.

(* ------------------------------------------------------------------ sort.Search *)

Lemma bsearch_spec fuel : forall f i j,
  (i <= j)%Z -> (Z.to_nat (j - i) < fuel)%nat ->
  (forall a b, (i <= a <= b)%Z -> (b < j)%Z -> f a = true -> f b = true) ->
  exists r, bsearch fuel f i j = Some r /\ (i <= r <= j)%Z /\
            (forall a, (i <= a < r)%Z -> f a = false) /\ (forall a, (r <= a < j)%Z -> f a = true).
Proof.
  induction fuel as [|fuel IH]; intros f i j Lij Hf Hm; [lia|].
  simpl. destruct (Z.ltb_spec i j) as [L|L].
  2:{ exists i. split; [reflexivity|]. split; [lia|]. split; intros; lia. }
  set (h := ((i + j) / 2)%Z).
  assert (Hh : (i <= h < j)%Z).
  { unfold h. split; [apply Z.div_le_lower_bound | apply Z.div_lt_upper_bound]; lia. }
  destruct (f h) eqn:Efh.
  - destruct (IH f i h) as (r & E & B & Lo & Hi); try lia.
    { intros a b Hab Hb. apply Hm; lia. }
    exists r. split; [exact E|]. split; [lia|]. split; [exact Lo|].
    intros a Ha. destruct (Z.ltb_spec a h); [apply Hi; lia|]. apply (Hm h a); auto; lia.
  - destruct (IH f (h + 1)%Z j) as (r & E & B & Lo & Hi); try lia.
    { intros a b Hab Hb. apply Hm; lia. }
    exists r. split; [exact E|]. split; [lia|]. split; [|exact Hi].
    intros a Ha. destruct (Z.ltb_spec h a); [apply Lo; lia|].
    destruct (f a) eqn:Efa; [|reflexivity]. rewrite (Hm a h) in Efh; auto; try lia. 
  Qed.

Lemma bin_search_spec from to fn :
  (from <= to + 1)%Z ->
  (forall a b, (from <= a <= b)%Z -> (b <= to)%Z -> fn a = true -> fn b = true) ->
  exists r, bin_search_in_range from to fn = Some r /\ (from <= r <= to + 1)%Z /\
            (forall a, (from <= a < r)%Z -> fn a = false) /\ (forall a, (r <= a <= to)%Z -> fn a = true).
Proof.
  intros L Hm. unfold bin_search_in_range, sort_search.
  destruct (bsearch_spec (S (Z.to_nat (to - from + 1))) (fun i => fn (from + i)%Z) 0 (to - from + 1))
    as (r & E & B & Lo & Hi); try lia.
  { intros a b Hab Hb. apply Hm; lia. }
  rewrite E. exists (from + r)%Z. split; [reflexivity|]. split; [lia|]. split.
  - intros a Ha. replace a with (from + (a - from))%Z by lia. apply Lo. lia.
  - intros a Ha. replace a with (from + (a - from))%Z by lia. apply Hi. lia.
Qed.

(* ------------------------------------------------------------------ the Search loop *)

Lemma spec_scan_false m : forall l tid,
  (forall i, i < length l -> m (nth i l []) = false) -> spec_scan m tid l = [].
Proof.
  induction l as [|v l IH]; intros tid H; simpl; [reflexivity|].
  pose proof (H 0 ltac:(simpl; lia)) as X. simpl in X. rewrite X. apply IH. intros i Hi. apply (H (S i)). simpl. lia.
Qed.

Lemma scan_sub chk m : forall dict first a b,
  (forall i, i < a -> i < length dict -> m (nth i dict []) = false) ->
  (forall i, a + b <= i -> i < length dict -> m (nth i dict []) = false) ->
  (forall i, a <= i < a + b -> i < length dict -> chk (nth i dict []) = Some (m (nth i dict []))) ->
  scan chk (first + Z.of_nat a)%Z (firstn b (skipn a dict)) = Some (spec_scan m first dict).
Proof.
  induction dict as [|v d IH]; intros first a b H1 H2 H3.
  - rewrite skipn_nil, firstn_nil. reflexivity.
  - destruct a as [|a].
    + destruct b as [|b].
      * rewrite spec_scan_false; [reflexivity|].
        intros i Hi. apply H2; [lia | exact Hi].
      * simpl. pose proof (H3 0 ltac:(lia) ltac:(simpl; lia)) as X. simpl in X. rewrite X.
        specialize (IH (first + 1)%Z 0 b). simpl in IH. rewrite Z.add_0_r in *.
        rewrite IH.
        -- destruct (m v); reflexivity.
        -- intros i Hi. lia.
        -- intros i Hi Hl. apply (H2 (S i)); simpl; lia.
        -- intros i Hi Hl. apply (H3 (S i)); simpl; lia.
    + simpl. pose proof (H1 0 ltac:(lia) ltac:(simpl; lia)) as X. simpl in X. rewrite X.
      replace (first + Z.pos (Pos.of_succ_nat a))%Z with ((first + 1) + Z.of_nat a)%Z by lia.
      apply IH.
      * intros i Hi Hl. apply (H1 (S i)); simpl; lia.
      * intros i Hi Hl. apply (H2 (S i)); simpl; lia.
      * intros i Hi Hl. apply (H3 (S i)); simpl; lia.
Qed.

Lemma tok_idx first dict i : tok first dict (first + Z.of_nat i) = nth i dict [].
Proof. unfold tok. f_equal. lia. Qed.

Lemma scan_range_sub chk m first dict sf sl :
  (first <= sf)%Z -> (sf <= sl + 1)%Z -> (sl <= last_tid first dict)%Z ->
  (forall tid, (first <= tid < sf)%Z -> m (tok first dict tid) = false) ->
  (forall tid, (sl < tid <= last_tid first dict)%Z -> m (tok first dict tid) = false) ->
  (forall tid, (sf <= tid <= sl)%Z -> chk (tok first dict tid) = Some (m (tok first dict tid))) ->
  scan_range first dict sf sl chk = Some (spec_scan m first dict).
Proof.
  intros L1 L2 L3 H1 H2 H3. unfold scan_range, last_tid in *. unfold bytes in *.
  replace sf with (first + Z.of_nat (Z.to_nat (sf - first)))%Z at 1 by lia.
  apply scan_sub.
  - intros i Hi Hl. rewrite <- (tok_idx first). apply H1. lia.
  - intros i Hi Hl. rewrite <- (tok_idx first). apply H2. lia.
  - intros i Hi Hl. rewrite <- (tok_idx first). apply H3. lia.
Qed.

Definition wfq (q : query) : Prop := match q with QLit ts => wf ts = true | QRange _ => True end.

Definition lt_bytes (a b : bytes) : Prop := bltb a b = true.

Lemma sorted_idx dict : StronglySorted lt_bytes dict ->
  forall i j, i < j -> j < length dict -> bltb (nth i dict []) (nth j dict []) = true.
Proof.
  induction 1 as [|a l HS IH HF]; intros i j Hij Hj; simpl in Hj; [lia|].
  destruct j as [|j]; [lia|]. destruct i as [|i]; simpl.
  - rewrite Forall_forall in HF. apply HF. apply nth_In. lia.
  - apply IH; lia.
Qed.

Lemma tok_sorted first dict : StronglySorted lt_bytes dict ->
  forall a b, (first <= a)%Z -> (a < b)%Z -> (b <= last_tid first dict)%Z ->
  bltb (tok first dict a) (tok first dict b) = true.
Proof.
  intros HS a b L1 L2 L3. unfold tok, last_tid in *. apply sorted_idx; auto; lia.
Qed.

Lemma tok_sorted_le first dict : StronglySorted lt_bytes dict ->
  forall a b, (first <= a)%Z -> (a <= b)%Z -> (b <= last_tid first dict)%Z ->
  bleb (tok first dict a) (tok first dict b) = true.
Proof.
  intros HS a b L1 L2 L3. destruct (Z.eq_dec a b) as [->|N]; [apply bleb_refl|].
  apply bltb_le. apply tok_sorted; auto; lia.
Qed.

Section SearchProofs.
  Variable parse : bytes -> option Z.
  Hypothesis parse_bounded : forall s k, parse s = Some k -> (- maxkey <= k <= maxkey)%Z.

  Lemma is_literal_some ts s : is_literal ts = Some s -> ts = [TText s].
  Proof. destruct ts as [|[x|] [|? ?]]; simpl; intros H; inversion H; reflexivity. Qed.

  (* unordered provider (active fraction): Search returns exactly the tokens the spec accepts *)
  Theorem search_unordered first dict q : wfq q ->
    search parse false first dict q = Some (spec_scan (spec_match parse q) first dict).
  Proof.
    intros W. unfold search. destruct q as [ts|r]; cbn [wfq] in *;
      [change (spec_match parse (QLit ts)) with (glob ts)
      |change (spec_match parse (QRange r)) with (range_spec parse r)].
    - destruct (is_literal ts) as [value|] eqn:El.
      + apply is_literal_some in El. subst ts.
        apply scan_range_sub; unfold last_tid; try lia.
        intros tid _. now rewrite lit_check_glob.
      + apply scan_range_sub; unfold last_tid; try lia.
        intros tid _. apply wild_check_glob; auto. discriminate.
    - apply scan_range_sub; unfold last_tid; try lia.
      intros tid _. now rewrite range_check_spec.
  Qed.

  (* ordered provider (sealed dictionary): narrowing by binary search changes nothing *)
  Theorem search_ordered first dict q : wfq q -> StronglySorted lt_bytes dict ->
    search parse true first dict q = Some (spec_scan (spec_match parse q) first dict).
  Proof.
    intros W HS. unfold search. destruct q as [ts|r]; cbn [wfq] in *;
      [change (spec_match parse (QLit ts)) with (glob ts)
      |change (spec_match parse (QRange r)) with (range_spec parse r)].
    2:{ apply scan_range_sub; unfold last_tid; try lia.
        intros tid _. now rewrite range_check_spec. }
    set (last := last_tid first dict).
    destruct (is_literal ts) as [value|] eqn:El.
    - apply is_literal_some in El. subst ts. cbn [spec_match]. unfold lit_narrow. fold last.
      destruct (bin_search_spec first last (fun tid => bleb value (tok first dict tid)))
        as (f & -> & Bf & Lo & Hi).
      { unfold last, last_tid. lia. }
      { intros a b Hab Hb Ha. eapply bleb_trans; [exact Ha|]. apply tok_sorted_le; auto; lia. }
      assert (Hneq : forall tid, (first <= tid < f)%Z -> glob [TText value] (tok first dict tid) = false).
      { intros tid Ht. rewrite <- lit_check_glob. simpl. specialize (Lo tid Ht). simpl in Lo.
        destruct (beqb value (tok first dict tid)) eqn:E; [|reflexivity].
        apply beqb_true in E. rewrite <- E, bleb_refl in Lo. discriminate. }
      destruct ((f <=? last)%Z && beqb (tok first dict f) value) eqn:Efound.
      + apply andb_true_iff in Efound as (Lf & Ef). apply Z.leb_le in Lf. apply beqb_true in Ef.
        apply scan_range_sub; fold last; try lia; auto.
        * intros tid Ht. rewrite <- lit_check_glob. simpl.
          destruct (beqb value (tok first dict tid)) eqn:E; [|reflexivity].
          apply beqb_true in E. pose proof (tok_sorted first dict HS f tid) as X.
          rewrite Ef, <- E, bltb_irrefl in X. symmetry. apply X; fold last; lia.
        * intros tid Ht. assert (tid = f) by lia. subst tid. rewrite <- lit_check_glob, Ef. simpl.
          now rewrite Nat.eqb_refl, (proj2 (beqb_true value value) eq_refl).
      + apply scan_range_sub; fold last; try lia; auto.
        * intros tid Ht. rewrite <- lit_check_glob. simpl.
          destruct (beqb value (tok first dict tid)) eqn:E; [|reflexivity].
          apply beqb_true in E. exfalso.
          assert (Lf : (f <= last)%Z) by lia.
          destruct (Z.eq_dec tid f) as [->|N].
          -- rewrite <- E in Efound. rewrite (proj2 (beqb_true value value) eq_refl) in Efound.
             rewrite andb_true_r in Efound. apply Z.leb_gt in Efound. lia.
          -- assert (X : bltb (tok first dict f) (tok first dict tid) = true).
             { apply tok_sorted; auto; try lia; fold last; lia. }
             assert (Hf : bleb value (tok first dict f) = true) by (apply Hi; lia).
             pose proof (ble_lt_trans _ _ _ Hf X) as Y. rewrite <- E in Y.
             rewrite bltb_irrefl in Y. discriminate.
    - assert (Lit : is_literal ts = None) by exact El.
      set (w := new_wildcard ts). unfold wild_narrow. fold last.
      set (p := w_prefix w).
      assert (cmono : forall a b, (first <= a <= b)%Z -> (b <= last)%Z ->
                bleb (cut (tok first dict a) (length p)) (cut (tok first dict b) (length p)) = true).
      { intros a b Hab Hb. apply cut_mono. apply tok_sorted_le; auto; lia. }
      destruct (bin_search_spec first last (fun tid => bleb p (cut (tok first dict tid) (length p))))
        as (f & Ef & Bf & Lo & Hi).
      { unfold last, last_tid. lia. }
      { intros a b Hab Hb Ha. eapply bleb_trans; [exact Ha|]. apply cmono; lia. }
      rewrite Ef.
      destruct (bin_search_spec f last (fun tid => bltb p (cut (tok first dict tid) (length p))))
        as (e & Ee & Be & Lo2 & Hi2).
      { lia. }
      { intros a b Hab Hb Ha. eapply blt_le_trans; [exact Ha|]. apply cmono; lia. }
      rewrite Ee.
      assert (Hpre : forall tid, glob ts (tok first dict tid) = true ->
                cut (tok first dict tid) (length p) = p).
      { intros tid G. apply (glob_has_prefix ts _ W Lit) in G. apply cut_prefix. exact G. }
      apply scan_range_sub; fold last; try lia.
      + intros tid Ht. destruct (glob ts (tok first dict tid)) eqn:G; [|reflexivity].
        apply Hpre in G. specialize (Lo tid Ht). simpl in Lo. rewrite G, bleb_refl in Lo. discriminate.
      + intros tid Ht. destruct (glob ts (tok first dict tid)) eqn:G; [|reflexivity].
        apply Hpre in G. specialize (Hi2 tid ltac:(lia)). simpl in Hi2.
        rewrite G, bltb_irrefl in Hi2. discriminate.
      + intros tid Ht. apply wild_check_glob; auto. intros _. apply cut_prefix. fold w. fold p.
        symmetry. apply ble_antisym.
        * apply Hi. lia.
        * specialize (Lo2 tid ltac:(lia)). simpl in Lo2. rewrite bltb_not_le in Lo2.
          now apply negb_false_iff in Lo2.
  Qed.
End SearchProofs.

Lemma narrow_equiv parse
  (PB : forall s k, parse s = Some k -> (- maxkey <= k <= maxkey)%Z) first dict q :
  wfq q -> StronglySorted lt_bytes dict ->
  search parse true first dict q = search parse false first dict q /\
  search parse true first dict q = Some (spec_scan (spec_match parse q) first dict).
Proof.
  intros W HS. rewrite (search_ordered parse PB first dict q W HS).
  rewrite (search_unordered parse PB first dict q W). auto.
Qed.

Lemma check_is_glob ts v : wf ts = true ->
  match is_literal ts with
  | Some s => lit_check false s v = glob ts v
  | None => wild_check false (new_wildcard ts) v = Some (glob ts v)
  end.
Proof.
  intros W. destruct (is_literal ts) as [s|] eqn:E.
  - destruct ts as [|[x|] [|? ?]]; simpl in E; inversion E; subst. apply lit_check_glob.
  - apply wild_check_glob; auto. discriminate.
Qed.

(* an oracle given as a table of bounded keys satisfies the oracle hypothesis *)
Lemma lookup_bounded keys :
  Forall (fun kv : bytes * Z => (- maxkey <= snd kv <= maxkey)%Z) keys ->
  forall s k, lookup keys s = Some k -> (- maxkey <= k <= maxkey)%Z.
Proof.
  induction 1 as [|[s0 k0] l H HF IH]; intros s k; simpl; [discriminate|].
  destruct (bytes_eqb s0 s); [intros E; inversion E; subst; exact H | apply IH].
Qed.
