(* C13 — the executable glob specification means what a glob means (declarative reading). *)
From Coq Require Import List Bool Arith NArith ZArith Lia.
Import ListNotations.
From C13 Require Import Model.

(* declarative meaning of a term list: texts are themselves, each '*' is any string *)
Inductive Matches : list term -> bytes -> Prop :=
| MNil : Matches [] []
| MText s r t : Matches r t -> Matches (TText s :: r) (s ++ t)
| MStar u r t : Matches r t -> Matches (TStar :: r) (u ++ t).

Lemma strip_prefix_some p t r : strip_prefix p t = Some r <-> t = p ++ r.
Proof.
  revert t. induction p as [|c p IH]; intros t; simpl.
  - split; intros H; [now inversion H | now subst].
  - destruct t as [|d t]; [split; [discriminate | intros H; discriminate]|].
    destruct (N.eqb_spec c d) as [->|ne].
    + rewrite IH. split; intros H; [now subst | now inversion H].
    + split; [discriminate | intros H; inversion H; congruence].
Qed.

Lemma strip_prefix_app p r : strip_prefix p (p ++ r) = Some r.
Proof. now apply strip_prefix_some. Qed.

Lemma strip_prefix_none p t : strip_prefix p t = None <-> forall r, t <> p ++ r.
Proof.
  split.
  - intros H r E. apply strip_prefix_some in E. congruence.
  - intros H. destruct (strip_prefix p t) eqn:E; [|reflexivity].
    apply strip_prefix_some in E. now apply H in E.
Qed.

Fixpoint star (g : bytes -> bool) (t : bytes) : bool :=
  g t || match t with [] => false | _ :: t' => star g t' end.

Lemma glob_star r t : glob (TStar :: r) t = star (glob r) t.
Proof. simpl. induction t as [|c t IH]; simpl; [reflexivity|]. now rewrite IH. Qed.

Lemma star_true g t : star g t = true <-> exists u v, t = u ++ v /\ g v = true.
Proof.
  induction t as [|c t IH]; simpl.
  - rewrite orb_false_r. split.
    + intros H. now exists [], [].
    + intros (u & v & E & H). symmetry in E. apply app_eq_nil in E as [-> ->]. exact H.
  - rewrite orb_true_iff, IH. split.
    + intros [H | (u & v & -> & H)].
      * now exists [], (c :: t).
      * now exists (c :: u), v.
    + intros (u & v & E & H). destruct u as [|d u]; simpl in E.
      * left. now subst.
      * right. inversion E; subst. now exists u, v.
Qed.

Theorem glob_matches ts t : glob ts t = true <-> Matches ts t.
Proof.
  revert t. induction ts as [|a ts IH]; intros t.
  - simpl. destruct t; split; intros H; try constructor; try discriminate; inversion H.
  - destruct a as [s|].
    + simpl. destruct (strip_prefix s t) as [t'|] eqn:E.
      * apply strip_prefix_some in E. subst. rewrite IH. split.
        -- now constructor.
        -- intros H. inversion H; subst. apply app_inv_head in H3. now subst.
      * split; [discriminate|]. intros H. inversion H; subst.
        rewrite strip_prefix_app in E. discriminate.
    + rewrite glob_star, star_true. split.
      * intros (u & v & -> & H). constructor. now apply IH.
      * intros H. inversion H; subst. exists u, t0. split; [reflexivity|]. now apply IH.
Qed.
