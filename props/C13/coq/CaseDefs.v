(* C13 — shape of the generated cases and the two executable verdicts. No proofs. *)
From VLib Require Import CaseLib.
From Coq Require Import ZArith.
From C13 Require Import Model.

Definition zlist_eqb := list_eqb Z.eqb.
Definition blist_eqb := list_eqb bytes_eqb.

(* SPEC for findSubstring: end of the leftmost occurrence, by trying every start position *)
Fixpoint naive_find (p s : bytes) (i : nat) : option nat :=
  match strip_prefix p s with
  | Some _ => Some (i + length p)
  | None => match s with [] => None | _ :: s' => naive_find p s' (S i) end
  end.

(* SPEC for findSequence: leftmost-greedy is optimal, so the number of patterns that can be
   placed one after the other is what the greedy count must equal; checked here through glob:
   k patterns found  <->  "*p1*...*pk*" matches and (k = all or "*p1*..*pk+1*" does not) *)
Definition star_seq (ps : list bytes) : list term :=
  TStar :: flat_map (fun p => [TText p; TStar]) ps.

Inductive case :=
(* findSubstring(s, p) = impl (-1 = not found); p non-empty *)
| CKmp (s p : bytes) (impl : Z)
(* findSequence(s, ps) = impl *)
| CSeq (s : bytes) (ps : list bytes) (impl : Z)
(* pattern.Search over a provider with FirstTID first and tokens dict (sorted and duplicate-free
   when ordered); keys = ParseFloat oracle for every numeric string involved; per query the TIDs
   returned *)
| CSearch (ordered : bool) (first : Z) (keys : list (bytes * Z)) (dict : list bytes)
          (qs : list (query * list Z))
(* Table.SelectEntries + token.Provider + pattern.Search over one field split into entries *)
| CSealed (first : Z) (keys : list (bytes * Z)) (entries : list (list bytes))
          (qs : list (query * list Z))
(* real fraction holding exactly [tokens] (sorted, distinct) in one field: values returned by
   GetTIDsByTokenExpr of the active fraction and, after sealing, of the sealed one (sorted) *)
| CFrac (keys : list (bytes * Z)) (tokens : list bytes)
        (qs : list (query * (list bytes * list bytes))).

Definition kres_eqb (k : kres) (impl : Z) : bool :=
  match k with
  | KEnd e => Z.eqb (Z.of_nat e) impl
  | KNone => Z.eqb impl (-1)
  | KFuel => false
  end.

Definition opt_zlist_eqb (m : option (list Z)) (impl : list Z) : bool :=
  match m with Some l => zlist_eqb l impl | None => false end.

Definition vals_of (first : Z) (dict : list bytes) (tids : list Z) : list bytes :=
  map (tok first dict) tids.

(* the supplied oracle satisfies the hypothesis of the theorems (keys of finite floats) *)
Definition keys_ok (keys : list (bytes * Z)) : bool :=
  forallb (fun kv => Z.leb (- maxkey) (snd kv) && Z.leb (snd kv) maxkey) keys.

(* model output = implementation output *)
Definition case_agrees (c : case) : bool :=
  match c with
  | CKmp s p impl => kres_eqb (find_substring s p) impl
  | CSeq s ps impl =>
      match find_sequence s ps with Some k => Z.eqb (Z.of_nat k) impl | None => false end
  | CSearch ordered first keys dict qs =>
      keys_ok keys &&
      forallb (fun qi => opt_zlist_eqb (search (lookup keys) ordered first dict (fst qi)) (snd qi)) qs
  | CSealed first keys entries qs =>
      keys_ok keys &&
      forallb (fun qi => opt_zlist_eqb (sealed_search (lookup keys) first entries (fst qi)) (snd qi)) qs
  | CFrac keys tokens qs =>
      forallb (fun qi =>
                 match search (lookup keys) false 1 tokens (fst qi),
                       sealed_search (lookup keys) 1 [tokens] (fst qi) with
                 | Some a, Some s => blist_eqb (vals_of 1 tokens a) (fst (snd qi))
                                     && blist_eqb (vals_of 1 tokens s) (snd (snd qi))
                 | _, _ => false
                 end) qs
  end.

(* implementation output satisfies the property (independent of the model's algorithms) *)
Definition case_spec_ok (c : case) : bool :=
  match c with
  | CKmp s p impl =>
      match naive_find p s 0 with
      | Some e => Z.eqb (Z.of_nat e) impl
      | None => Z.eqb impl (-1)
      end
  | CSeq s ps impl =>
      let k := Z.to_nat impl in
      Z.leb 0 impl && Nat.leb k (length ps)
      && glob (star_seq (firstn k ps)) s
      && (Nat.eqb k (length ps) || negb (glob (star_seq (firstn (S k) ps)) s))
  | CSearch _ first keys dict qs =>
      forallb (fun qi => zlist_eqb (spec_scan (spec_match (lookup keys) (fst qi)) first dict) (snd qi)) qs
  | CSealed first keys entries qs =>
      forallb (fun qi => zlist_eqb (spec_scan (spec_match (lookup keys) (fst qi)) first (concat entries))
                                   (snd qi)) qs
  | CFrac keys tokens qs =>
      forallb (fun qi =>
                 let want := filter (spec_match (lookup keys) (fst qi)) tokens in
                 blist_eqb want (fst (snd qi)) && blist_eqb want (snd (snd qi))) qs
  end.

Definition diff_indices (l : list case) : list nat := bad_indices (fun c => negb (case_agrees c)) l.
Definition specfail_indices (l : list case) : list nat := bad_indices (fun c => negb (case_spec_ok c)) l.
