(* C13 — shape of the generated cases and the two executable verdicts. No proofs. *)
From VLib Require Import CaseLib.
From Coq Require Import List Bool Arith NArith ZArith.
Import ListNotations.
From C13 Require Import Model ModelBlock.

Definition zlist_eqb := list_eqb Z.eqb.
Definition blist_eqb := list_eqb bytes_eqb.

(* SPEC for findSubstring: end of the leftmost occurrence, by trying every start position *)
Fixpoint naive_find (p s : bytes) (i : nat) : option nat :=
  match strip_prefix p s with
  | Some _ => Some (i + length p)
  | None => match s with [] => None | _ :: s' => naive_find p s' (S i) end
  end.

(* SPEC for findSequence: leftmost-greedy is optimal, so the number of patterns that can be
   placed one after the other is what the greedy count must equal; checked here through glob:
   k patterns found  <->  "*p1*...*pk*" matches and (k = all or "*p1*..*pk+1*" does not) *)
Definition star_seq (ps : list bytes) : list term :=
  TStar :: flat_map (fun p => [TText p; TStar]) ps.

Inductive case :=
(* findSubstring(s, p) = impl (-1 = not found); p non-empty *)
| CKmp (s p : bytes) (impl : Z)
(* findSequence(s, ps) = impl *)
| CSeq (s : bytes) (ps : list bytes) (impl : Z)
(* pattern.Search over a provider with FirstTID first and tokens dict (sorted and duplicate-free
   when ordered); keys = ParseFloat oracle for every numeric string involved; per query the TIDs
   returned *)
| CSearch (ordered : bool) (first : Z) (keys : list (bytes * Z)) (dict : list bytes)
          (qs : list (query * list Z))
(* Table.SelectEntries + token.Provider + pattern.Search over one field split into entries *)
| CSealed (first : Z) (keys : list (bytes * Z)) (entries : list (list bytes))
          (qs : list (query * list Z))
(* real fraction holding exactly [tokens] (sorted, distinct) in one field: values returned by
   GetTIDsByTokenExpr of the active fraction and, after sealing, of the sealed one (sorted) *)
| CFrac (keys : list (bytes * Z)) (tokens : list bytes)
        (qs : list (query * (list bytes * list bytes)))
(* physical token block: data = real DiskTokensBlock.pack of every group, concatenated; real
   Block.unpack(data) = res (0 ok, 1 error, 2 panic) with the offsets array; vals = real
   GetValByTID for every token of every group (entry of group k: StartIndex = tokens before,
   StartTID = tid0 + tokens before) *)
| CBlock (groups : list (list bytes)) (tid0 : Z) (data : bytes) (res : Z) (offsets : bytes)
         (vals : list (option bytes))
(* real Block.unpack on arbitrary (malformed / truncated) bytes *)
| CUnpackRaw (data : bytes) (res : Z) (offsets : bytes)
(* real token.Provider over [entries] reading the physical blocks [disk] (index, bytes):
   FirstTID/LastTID = ft/lt, GetToken call sequence with results. first/dict = the field's
   dictionary as the harness generated it (TID first = dict[0]); eft/elt = the TID range the
   harness selected *)
| CProvider (entries : list tentry) (disk : list (Z * bytes)) (first : Z) (dict : list bytes)
            (eft elt ft lt : Z) (calls : list (Z * bytes))
(* real TokenList -> getTokensBlocksGenerator -> writeTokensBlocks: fields = (name, fieldSize,
   sorted tokens) in field order; blocks pushed by the generator; table entries in push order;
   physical blocks from index b0 *)
| CWriter (fields : list (bytes * N * list bytes)) (b0 : Z) (blocks : list dblock)
          (table : list (bytes * tentry)) (disk : list bytes)
          (* real SelectEntries + Provider + Search over that table for field qf *)
          (qf : bytes) (qs : list (query * list Z))
(* real TokenList: hash = worker of every token, hist = per Append (arrival order of the workers,
   (token, field length) items); vals = tidToVal, fields = FieldTIDs, sizes = fieldSizes, prov =
   per field (FirstTID, LastTID, Ordered) and GetToken(1..LastTID) of the active provider *)
| CActive (hash : list (bytes * nat)) (hist : list (list nat * list (bytes * nat)))
          (vals : list bytes) (fields : list (bytes * list Z)) (sizes : list (bytes * N))
          (prov : list (bytes * (Z * Z * bool) * list (option bytes)))
(* real TokenList.FindPattern racing with an Append: pre = Append history before (one worker),
   sched = the order of the Append's two publication steps and the search's two snapshot reads
   that the driver forced (by parking the search on fieldsMu / tidMu); before/after = the field's
   values in TID order before / after that Append; impl = values found (None = panic or error) *)
| CActiveRace (hash : list (bytes * nat)) (pre : list (list nat * list (bytes * nat))) (sched : list rev)
              (f : bytes) (q : query) (before after : list bytes) (impl : option (list bytes))
(* ONE sealed data provider / TableLoader, token table evicted and reloaded before every lookup:
   lens = block lengths of the index file, cursors = loader cursor after each reload, tokens = the
   field's dictionary, qs = lookups with the values returned *)
| CReload (lens : list N) (cursors : list Z) (tokens : list bytes) (qs : list (query * list bytes)).

Definition obytes_eqb := option_eqb bytes_eqb.

Definition tentry_eqb (a b : tentry) : bool :=
  Z.eqb (e_start_index a) (e_start_index b) && Z.eqb (e_start_tid a) (e_start_tid b) &&
  Z.eqb (e_block_index a) (e_block_index b) && Z.eqb (e_val_count a) (e_val_count b) &&
  bytes_eqb (e_min_val a) (e_min_val b) && bytes_eqb (e_max_val a) (e_max_val b).
Definition dblock_eqb (a b : dblock) : bool :=
  bytes_eqb (d_field a) (d_field b) && Bool.eqb (d_start a) (d_start b) && N.eqb (d_total a) (d_total b) &&
  Z.eqb (d_start_tid a) (d_start_tid b) && blist_eqb (d_tokens a) (d_tokens b).

Definition group_entry (tid0 : Z) (before : nat) (n : nat) : tentry :=
  {| e_start_index := Z.of_nat before; e_start_tid := tid0 + Z.of_nat before; e_block_index := 0;
     e_val_count := Z.of_nat n; e_min_val := []; e_max_val := [] |}.

(* model GetValByTID for every token of every group *)
Fixpoint block_vals (data offs : bytes) (tid0 : Z) (before : nat) (groups : list (list bytes)) : list (option bytes) :=
  match groups with
  | [] => []
  | g :: r =>
      map (fun j => get_val W32 (group_entry tid0 before (length g)) data offs
                            (tid0 + Z.of_nat before + Z.of_nat j)) (seq 0 (length g))
      ++ block_vals data offs tid0 (before + length g) r
  end.

(* independent reading of a block: 4-byte little-endian fields decoded positionally *)
Definition le32 (d : bytes) : N :=
  (nth 0 d 0 + 256 * nth 1 d 0 + 65536 * nth 2 d 0 + 16777216 * nth 3 d 0)%N.
Fixpoint naive_records (fuel : nat) (d : bytes) : option (list bytes) :=
  match fuel with
  | O => None
  | S f =>
      match d with
      | [] => Some []
      | _ => if length d <? 4 then None
             else let l := le32 d in
                  let r := skipn 4 d in
                  if (l =? 4294967295)%N then naive_records f r
                  else if (N.of_nat (length r) <? l)%N then None   (* compared in N: l may be garbage *)
                  else option_map (cons (firstn (N.to_nat l) r)) (naive_records f (skipn (N.to_nat l) r))
      end
  end.
Definition records (d : bytes) : option (list bytes) := naive_records (S (length d)) d.

(* every 4-byte entry of the offsets array names a record inside data *)
Fixpoint offsets_in_range (fuel : nat) (data offs : bytes) : bool :=
  match fuel with
  | O => false
  | S f =>
      match offs with
      | [] => true
      | _ => if length offs <? 4 then false
             else let o := le32 offs in      (* compared in N: an offset may be garbage *)
                  if (N.of_nat (length data) <? o + 4)%N then false
                  else (o + 4 + le32 (skipn (N.to_nat o) data) <=? N.of_nat (length data))%N &&
                       offsets_in_range f data (skipn 4 offs)
      end
  end.

(* independent walk over arbitrary bytes: 0 = ends cleanly, 1 = a length field exceeds the rest,
   2 = a remainder of 1..3 bytes is reached *)
Fixpoint naive_outcome (fuel : nat) (d : bytes) : Z :=
  match fuel with
  | O => (-1)%Z
  | S f =>
      match d with
      | [] => 0%Z
      | _ => if length d <? 4 then 2%Z
             else let l := le32 d in
                  let r := skipn 4 d in
                  if (l =? 4294967295)%N then naive_outcome f r
                  else if (N.of_nat (length r) <? l)%N then 1%Z
                  else naive_outcome f (skipn (N.to_nat l) r)
      end
  end.

Definition zget {V} (d : V) (k : Z) (m : list (Z * V)) : V :=
  match find (fun p => Z.eqb (fst p) k) m with Some p => snd p | None => d end.

Fixpoint dedup (l : list (bytes * nat)) : list (bytes * nat) :=
  match l with
  | [] => []
  | x :: r => if existsb (fun y => bytes_eqb (fst x) (fst y)) r then dedup r else x :: dedup r
  end.
Fixpoint nodupb (l : list bytes) : bool :=
  match l with [] => true | x :: r => negb (memb x r) && nodupb r end.
Definition nat_list_eqb := list_eqb Nat.eqb.

Definition kres_eqb (k : kres) (impl : Z) : bool :=
  match k with
  | KEnd e => Z.eqb (Z.of_nat e) impl
  | KNone => Z.eqb impl (-1)
  | KFuel => false
  end.

Definition opt_zlist_eqb (m : option (list Z)) (impl : list Z) : bool :=
  match m with Some l => zlist_eqb l impl | None => false end.

Definition vals_of (first : Z) (dict : list bytes) (tids : list Z) : list bytes :=
  map (tok first dict) tids.

(* the supplied oracle satisfies the hypothesis of the theorems (keys of finite floats) *)
Definition keys_ok (keys : list (bytes * Z)) : bool :=
  forallb (fun kv => Z.leb (- maxkey) (snd kv) && Z.leb (snd kv) maxkey) keys.

(* model output = implementation output *)
Definition case_agrees (c : case) : bool :=
  match c with
  | CKmp s p impl => kres_eqb (find_substring s p) impl
  | CSeq s ps impl =>
      match find_sequence s ps with Some k => Z.eqb (Z.of_nat k) impl | None => false end
  | CSearch ordered first keys dict qs =>
      keys_ok keys &&
      forallb (fun qi => opt_zlist_eqb (search (lookup keys) ordered first dict (fst qi)) (snd qi)) qs
  | CSealed first keys entries qs =>
      keys_ok keys &&
      forallb (fun qi => opt_zlist_eqb (sealed_search (lookup keys) first entries (fst qi)) (snd qi)) qs
  | CFrac keys tokens qs =>
      forallb (fun qi =>
                 match search (lookup keys) false 1 tokens (fst qi),
                       sealed_search (lookup keys) 1 [tokens] (fst qi) with
                 | Some a, Some s => blist_eqb (vals_of 1 tokens a) (fst (snd qi))
                                     && blist_eqb (vals_of 1 tokens s) (snd (snd qi))
                 | _, _ => false
                 end) qs
  | CBlock groups tid0 data res offsets vals =>
      bytes_eqb data (concat (map (pack_tokens W32) groups)) &&
      match unpack W32 data with
      | UOk o => Z.eqb res 0 && bytes_eqb o offsets &&
                 list_eqb obytes_eqb (block_vals data o tid0 0 groups) vals
      | UErr => Z.eqb res 1
      | UPanic => Z.eqb res 2
      | UFuel => false
      end
  | CUnpackRaw data res offsets =>
      match unpack W32 data with
      | UOk o => Z.eqb res 0 && bytes_eqb o offsets
      | UErr => Z.eqb res 1
      | UPanic => Z.eqb res 2
      | UFuel => false
      end
  | CProvider entries disk first dict eft elt ft lt calls =>
      Z.eqb ft (first_tid entries) && Z.eqb lt (last_tid_p entries) &&
      match get_tokens W32 (fun i => zget [] i disk) entries p_init (map fst calls) with
      | Some (vs, _) => blist_eqb vs (map snd calls)
      | None => false
      end
  | CWriter fields b0 blocks table disk qf qs =>
      match gen_blocks 16384 fields 1 with
      | Some bl => list_eqb dblock_eqb bl blocks
      | None => false
      end &&
      (let st := write_blocks W32 16384 b0 blocks in
       list_eqb (pair_eqb bytes_eqb tentry_eqb) (ws_table st) table && blist_eqb (ws_done st) disk) &&
      forallb (fun qi => opt_zlist_eqb (sealed_search_bytes (lookup []) W32 16384 b0 fields qf (fst qi)) (snd qi)) qs
  | CActive hash hist vals fields sizes prov =>
      let st := tl_run (hash_of hash) tl_empty hist in
      blist_eqb (tl_vals st) vals &&
      Nat.eqb (length (tl_fields st)) (length fields) &&
      forallb (fun fi => zlist_eqb (aget [] (fst fi) (tl_fields st)) (snd fi)) fields &&
      Nat.eqb (length (tl_sizes st)) (length sizes) &&
      forallb (fun fi => N.eqb (aget 0%N (fst fi) (tl_sizes st)) (snd fi)) sizes &&
      forallb (fun p => match p with
                        | (f, (ft, lt, ord), toks) =>
                            Z.eqb ft 1 && Z.eqb lt (ap_last_tid st f) && negb ord &&
                            Z.eqb lt (Z.of_nat (length toks)) &&
                            list_eqb obytes_eqb (map (fun i => ap_get_token st f (Z.of_nat i)) (seq 1 (length toks))) toks
                        end) prov
  | CActiveRace hash pre sched f q before after impl =>
      let st0 := {| c_tl := tl_run (hash_of hash) tl_empty pre; c_pending := [] |} in
      option_eqb blist_eqb (race_find (lookup []) (hash_of hash) st0 sched f q) impl
  | CReload lens cursors tokens qs =>
      forallb (fun c => match tl_load lens 0 with
                        | Some (_, stop) => Z.eqb c (Z.of_nat stop)
                        | None => false
                        end) cursors &&
      (* the loader model is stateless in its cursor: the same answer from the cursor a load left *)
      match tl_lookups lens 0 None (map (fun _ => true) qs) with
      | r :: rest => forallb (fun x => match r, x with
                                       | Some (a, b), Some (c, d) => Nat.eqb a c && Nat.eqb b d
                                       | _, _ => false end) rest
      | [] => true
      end &&
      forallb (fun qi => match sealed_search (lookup []) 1 [tokens] (fst qi) with
                         | Some s => blist_eqb (vals_of 1 tokens s) (snd qi)
                         | None => false
                         end) qs
  end.

(* implementation output satisfies the property (independent of the model's algorithms) *)
Definition case_spec_ok (c : case) : bool :=
  match c with
  | CKmp s p impl =>
      match naive_find p s 0 with
      | Some e => Z.eqb (Z.of_nat e) impl
      | None => Z.eqb impl (-1)
      end
  | CSeq s ps impl =>
      let k := Z.to_nat impl in
      Z.leb 0 impl && Nat.leb k (length ps)
      && glob (star_seq (firstn k ps)) s
      && (Nat.eqb k (length ps) || negb (glob (star_seq (firstn (S k) ps)) s))
  | CSearch _ first keys dict qs =>
      forallb (fun qi => zlist_eqb (spec_scan (spec_match (lookup keys) (fst qi)) first dict) (snd qi)) qs
  | CSealed first keys entries qs =>
      forallb (fun qi => zlist_eqb (spec_scan (spec_match (lookup keys) (fst qi)) first (concat entries))
                                   (snd qi)) qs
  | CFrac keys tokens qs =>
      forallb (fun qi =>
                 let want := filter (spec_match (lookup keys) (fst qi)) tokens in
                 blist_eqb want (fst (snd qi)) && blist_eqb want (snd (snd qi))) qs
  (* unpack succeeds and the value returned for every TID is the token the harness put there *)
  | CBlock groups tid0 data res offsets vals =>
      Z.eqb res 0 && list_eqb obytes_eqb vals (map Some (concat groups))
  (* the outcome is the one an independent walk over the bytes gives; Ok: every recorded offset (and
     the record it names) lies inside the block. Outcome 2 (panic on a 1..3-byte remainder) is a
     documented OBSERVATION about corrupted bytes, outside the property's quantifier: accepted exactly
     where the independent walk reaches such a remainder, a panic anywhere else fails here *)
  | CUnpackRaw data res offsets =>
      Z.eqb res (naive_outcome (S (length data)) data) &&
      (if Z.eqb res 0 then offsets_in_range (S (length offsets)) data offsets else true)
  (* value returned for TID t = the t-th token of the dictionary the harness generated *)
  | CProvider entries disk first dict eft elt ft lt calls =>
      Z.eqb ft eft && Z.eqb lt elt &&
      forallb (fun c => Z.leb eft (fst c) && Z.leb (fst c) elt && bytes_eqb (snd c) (tok first dict (fst c))) calls
  (* blocks partition the fields' tokens in order without an empty block; every table entry
     names a physical block whose records (read independently) hold the block's tokens at
     StartIndex, with StartTID = 1 + number of tokens before and MaxVal = the last token *)
  | CWriter fields b0 blocks table disk qf qs =>
      (* the TIDs returned for a query on field qf = scan of the field's tokens (TIDs in
         dictionary order after the fields before it) *)
      (fix scanf (fs : list (bytes * N * list bytes)) (first : Z) : bool :=
         match fs with
         | [] => forallb (fun qi => match snd qi with [] => true | _ => false end) qs
         | (f, _, toks) :: r =>
             if bytes_eqb f qf
             then forallb (fun qi => zlist_eqb (spec_scan (spec_match (lookup []) (fst qi)) first toks) (snd qi)) qs
             else scanf r (first + Z.of_nat (length toks))%Z
         end) fields 1%Z &&
      blist_eqb (concat (map d_tokens blocks)) (concat (map (fun x => snd x) fields)) &&
      forallb (fun b => negb (Nat.eqb (length (d_tokens b)) 0)) blocks &&
      Nat.eqb (length table) (length blocks) &&
      (fix go (tb : list (bytes * tentry)) (bl : list dblock) (before : nat) : bool :=
         match tb, bl with
         | (f, e) :: tb', b :: bl' =>
             bytes_eqb f (d_field b) &&
             Z.eqb (e_start_tid e) (1 + Z.of_nat before) && Z.eqb (d_start_tid b) (1 + Z.of_nat before) &&
             Z.eqb (e_val_count e) (Z.of_nat (length (d_tokens b))) &&
             bytes_eqb (e_max_val e) (last (d_tokens b) []) &&
             Z.leb b0 (e_block_index e) && Z.leb 0 (e_start_index e) &&
             Z.ltb (e_block_index e - b0) (Z.of_nat (length disk)) &&
             Z.leb (e_start_index e) (Z.of_nat (length (nth (Z.to_nat (e_block_index e - b0)) disk []))) &&
             match records (nth (Z.to_nat (e_block_index e - b0)) disk []) with
             | Some recs => blist_eqb (firstn (length (d_tokens b)) (skipn (Z.to_nat (e_start_index e)) recs))
                                      (d_tokens b)
             | None => false
             end &&
             go tb' bl' (before + length (d_tokens b))
         | [], [] => true
         | _, _ => false
         end) table blocks 0
  (* every distinct token appended has exactly one TID; the TIDs of a field are exactly the
     field's distinct tokens; the provider of a field hands out, for 1..LastTID, the values of the
     field's TIDs in order; FirstTID = 1, LastTID = number of TIDs, Ordered = false *)
  | CActive hash hist vals fields sizes prov =>
      let all := dedup (flat_map (fun ab => snd ab) hist) in
      Nat.eqb (length vals) (S (length all)) &&
      Nat.eqb (length (flat_map (fun fi => snd fi) fields)) (length all) &&
      forallb (fun fi =>
                 let want := map value_of (filter (fun it => bytes_eqb (field_of it) (fst fi)) all) in
                 let got := map (fun tid => nth (Z.to_nat tid) vals []) (snd fi) in
                 forallb (fun tid => Z.ltb 0 tid && Z.ltb tid (Z.of_nat (length vals))) (snd fi) &&
                 Nat.eqb (length got) (length want) && nodupb got && forallb (fun v => memb v want) got) fields &&
      forallb (fun it => existsb (fun fi => bytes_eqb (fst fi) (field_of it)) fields) all &&
      forallb (fun p => match p with
                        | (f, (ft, lt, ord), toks) =>
                            let tids := aget [] f fields in
                            Z.eqb ft 1 && Z.eqb lt (Z.of_nat (length tids)) && negb ord &&
                            list_eqb obytes_eqb toks (map (fun tid => Some (nth (Z.to_nat tid) vals [])) tids)
                        end) prov &&
      Nat.eqb (length prov) (length fields)
  (* no panic, and the token set found = the scan of the field's tokens published before the
     Append, or of those published after it *)
  | CActiveRace hash pre sched f q before after impl =>
      match impl with
      | None => false
      | Some vals => blist_eqb vals (filter (spec_match (lookup []) q) before) ||
                     blist_eqb vals (filter (spec_match (lookup []) q) after)
      end
  (* every lookup, whatever was evicted before it, returns the scan of the dictionary *)
  | CReload lens cursors tokens qs =>
      Nat.leb 2 (length qs) &&
      forallb (fun qi => blist_eqb (filter (spec_match (lookup []) (fst qi)) tokens) (snd qi)) qs
  end.

Definition diff_indices (l : list case) : list nat := bad_indices (fun c => negb (case_agrees c)) l.
Definition specfail_indices (l : list case) : list nat := bad_indices (fun c => negb (case_spec_ok c)) l.
