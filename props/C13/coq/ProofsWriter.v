(* C13 — proofs about the token block generator and writeTokensBlocks: every table entry the
   writer emits points into a physical block in which Block.unpack + GetValByTID recover exactly
   the entry's tokens. *)
From Coq Require Import List Bool Arith NArith ZArith Lia ZifyN ZifyNat.
Import ListNotations.
From C13 Require Import Model ModelBlock ProofsSearch ProofsBlock ProofsProvider.

Definition packs (w : nat) (gs : list (list bytes)) : bytes := concat (map (pack_tokens w) gs).

Lemma packs_app w a b : packs w (a ++ b) = packs w a ++ packs w b.
Proof. unfold packs. now rewrite map_app, concat_app. Qed.

Lemma Forall2_imp {A B} (R1 R2 : A -> B -> Prop) : (forall a b, R1 a b -> R2 a b) ->
  forall la lb, Forall2 R1 la lb -> Forall2 R2 la lb.
Proof. intros H. induction 1; constructor; auto. Qed.

Definition toks_ok (w : nat) (T : list bytes) : Prop := Forall (len_ok w) T.

(* entry e (emitted for a block with tokens T) lies in physical block k = BlockIndex - b0 of
   done ++ [cur], at StartIndex tokens from the start of that block *)
Definition placed (w : nat) (b0 : Z) (done : list bytes) (cur : bytes) (e : tentry) (T : list bytes) : Prop :=
  let k := (e_block_index e - b0)%Z in
  (0 <= k <= zlen done)%Z /\ located w (nth (Z.to_nat k) (done ++ [cur]) []) (e_start_index e) T.

Definition entry_rel (fe : bytes * tentry) (b : dblock) : Prop :=
  fst fe = d_field b /\ e_start_tid (snd fe) = d_start_tid b /\
  e_val_count (snd fe) = zlen (d_tokens b) /\ e_max_val (snd fe) = last (d_tokens b) [].

Definition Inv (w : nat) (b0 : Z) (st : wstate) (bs : list dblock) : Prop :=
  (exists gs, ws_cur st = packs w gs /\ ws_start st = zlen (concat gs) /\ Forall (toks_ok w) gs) /\
  Forall2 (fun fe b => entry_rel fe b /\ placed w b0 (ws_done st) (ws_cur st) (snd fe) (d_tokens b))
          (ws_table st) bs.

Lemma located_app w P si T T' : located w P si T -> toks_ok w T' -> located w (P ++ pack_tokens w T') si T.
Proof.
  intros (gs1 & gs2 & EP & Es & HL) HT. exists gs1, (gs2 ++ [T']). split; [|split; auto].
  - rewrite EP. rewrite map_app, concat_app. simpl. now rewrite !app_nil_r, <- !app_assoc.
  - rewrite !app_assoc. apply Forall_app. split; [now rewrite <- !app_assoc|]. constructor; auto.
Qed.

Lemma placed_append w b0 done cur e T T' :
  placed w b0 done cur e T -> toks_ok w T' -> placed w b0 done (cur ++ pack_tokens w T') e T.
Proof.
  intros [K L] HT. split; [exact K|]. cbv zeta in *.
  set (k := Z.to_nat (e_block_index e - b0)) in *.
  destruct (Nat.lt_ge_cases k (length done)) as [Lt|Ge].
  - rewrite app_nth1 in * by lia. exact L.
  - assert (k = length done) by (unfold zlen in K; lia).
    rewrite app_nth2 in * by lia. replace (k - length done) with 0 in * by lia. simpl in *.
    now apply located_app.
Qed.

Lemma placed_flush w b0 done cur e T :
  placed w b0 done cur e T -> placed w b0 (done ++ [cur]) [] e T.
Proof.
  intros [K L]. split.
  - unfold zlen in *. rewrite app_length. simpl. lia.
  - cbv zeta in *. rewrite app_nth1; [exact L|]. unfold zlen in K. rewrite app_length. simpl. lia.
Qed.

Lemma inv_flush0 w b0 st bs : Inv w b0 st bs -> Inv w b0 (ws_reset (ws_flush st)) bs.
Proof.
  intros [(gs & Ec & Es & Hg) HF]. unfold ws_flush.
  destruct (ws_cur st) as [|c0 cur'] eqn:Ecur.
  - split.
    + exists []. cbn. rewrite Ecur. repeat split; auto.
    + cbn. rewrite Ecur. exact HF.
  - split.
    + exists []. cbn. repeat split; auto.
    + cbn. revert HF. apply Forall2_imp. intros fe b [R Pl]. split; [exact R|].
      now apply placed_flush.
Qed.

Lemma with_min_fields e m :
  e_start_index (with_min e m) = e_start_index e /\ e_start_tid (with_min e m) = e_start_tid e /\
  e_block_index (with_min e m) = e_block_index e /\ e_val_count (with_min e m) = e_val_count e /\
  e_max_val (with_min e m) = e_max_val e.
Proof. repeat split. Qed.

Lemma inv_push w b0 reg st bs b :
  Inv w b0 st bs -> toks_ok w (d_tokens b) -> Inv w b0 (ws_push w reg b0 st b) (bs ++ [b]).
Proof.
  intros I HT. unfold ws_push.
  set (st1 := if d_start b && (reg <? d_total b)%N then ws_reset (ws_flush st) else st).
  assert (I1 : Inv w b0 st1 bs).
  { unfold st1. destruct (d_start b && (reg <? d_total b)%N); [now apply inv_flush0|exact I]. }
  clearbody st1. clear I st. destruct I1 as [(gs & Ec & Es & Hg) HF].
  set (e0 := create_entry b (ws_start st1) (b0 + Z.of_nat (length (ws_done st1)))).
  set (e := if has_field (ws_table st1) (d_field b) then e0 else with_min e0 (hd [] (d_tokens b))).
  assert (Ee : e_start_index e = ws_start st1 /\ e_start_tid e = d_start_tid b /\
               e_block_index e = (b0 + Z.of_nat (length (ws_done st1)))%Z /\
               e_val_count e = zlen (d_tokens b) /\ e_max_val e = last (d_tokens b) []).
  { unfold e. destruct (has_field _ _); repeat split. }
  destruct Ee as (E1 & E2 & E3 & E4 & E5). clearbody e. clear e0.
  set (st2 := {| ws_start := (ws_start st1 + Z.of_nat (length (d_tokens b)))%Z;
                 ws_cur := ws_cur st1 ++ pack_tokens w (d_tokens b);
                 ws_done := ws_done st1; ws_table := ws_table st1 ++ [(d_field b, e)] |}).
  assert (I2 : Inv w b0 st2 (bs ++ [b])).
  { split.
    - exists (gs ++ [d_tokens b]). cbn. split; [|split].
      + rewrite Ec, packs_app. unfold packs at 3. simpl. now rewrite app_nil_r.
      + rewrite Es. unfold zlen. rewrite concat_app, app_length. simpl. rewrite app_nil_r. lia.
      + apply Forall_app. split; auto.
    - cbn. apply Forall2_app.
      + revert HF. apply Forall2_imp. intros fe b' [R Pl]. split; [exact R|]. now apply placed_append.
      + constructor; [|constructor]. split.
        * repeat split; auto.
        * cbn. split; cbv zeta; rewrite E3.
          -- unfold zlen. lia.
          -- replace (Z.to_nat (b0 + Z.of_nat (length (ws_done st1)) - b0)) with (length (ws_done st1)) by lia.
             rewrite app_nth2 by lia. rewrite Nat.sub_diag. simpl.
             exists gs, []. split; [|split].
             ++ rewrite Ec. unfold packs. simpl. now rewrite app_nil_r.
             ++ rewrite E1, Es. reflexivity.
             ++ apply Forall_app. split; [exact Hg|]. constructor; [exact HT|constructor]. }
  clearbody st2.
  destruct (reg <? blen (ws_cur st1 ++ pack_tokens w (d_tokens b)))%N; [now apply inv_flush0|exact I2].
Qed.

Lemma inv_fold w b0 reg : forall more st bs,
  Inv w b0 st bs -> Forall (fun b => toks_ok w (d_tokens b)) more ->
  Inv w b0 (fold_left (ws_push w reg b0) more st) (bs ++ more).
Proof.
  induction more as [|b more IH]; intros st bs I HF.
  - now rewrite app_nil_r.
  - inversion HF; subst. simpl. replace (bs ++ b :: more) with ((bs ++ [b]) ++ more) by now rewrite <- app_assoc.
    apply IH; auto. now apply inv_push.
Qed.

Lemma located_nonempty w (Hw : 1 <= w) P si T : located w P si T -> P <> [].
Proof.
  intros (gs1 & gs2 & EP & _) E. subst P. apply app_eq_nil in E as [_ E]. apply app_eq_nil in E as [E _].
  now apply (pack_nonempty w T Hw).
Qed.

(* the final state: every entry points into a written physical block *)
Definition placed_final (w : nat) (b0 : Z) (done : list bytes) (e : tentry) (T : list bytes) : Prop :=
  let k := (e_block_index e - b0)%Z in
  (0 <= k < zlen done)%Z /\ located w (nth (Z.to_nat k) done []) (e_start_index e) T.

Theorem writer_spec w (Hw : 1 <= w) reg b0 blocks :
  Forall (fun b => toks_ok w (d_tokens b)) blocks ->
  let st := write_blocks w reg b0 blocks in
  Forall2 (fun fe b => entry_rel fe b /\ placed_final w b0 (ws_done st) (snd fe) (d_tokens b))
          (ws_table st) blocks.
Proof.
  intros HF. cbv zeta. unfold write_blocks.
  assert (I0 : Inv w b0 ws_init []).
  { split; [exists []; cbn; repeat split; auto|constructor]. }
  pose proof (inv_fold w b0 reg blocks ws_init [] I0 HF) as [_ I]. simpl in I.
  set (st := fold_left (ws_push w reg b0) blocks ws_init) in *. clearbody st.
  unfold ws_flush. destruct (ws_cur st) as [|c0 cur'] eqn:Ecur.
  - revert I. apply Forall2_imp. intros fe b [R [K L]]. split; [exact R|]. cbv zeta in *.
    destruct (Z.eq_dec (e_block_index (snd fe) - b0) (zlen (ws_done st))) as [E|NE].
    + exfalso. rewrite E in L. unfold zlen in L. rewrite Nat2Z.id, app_nth2, Nat.sub_diag in L by lia.
      simpl in L. now apply (located_nonempty w Hw) in L.
    + split; [lia|]. rewrite app_nth1 in L; [exact L|unfold zlen in *; lia].
  - cbn. revert I. apply Forall2_imp. intros fe b [R [K L]]. split; [exact R|]. cbv zeta in *. split.
    + unfold zlen in *. rewrite app_length. simpl. lia.
    + exact L.
Qed.

(* ------------------------------------------------------------------ the generator *)

Lemma chunks_spec bs (Hb : 1 <= bs) : forall fuel l, length l <= fuel ->
  exists cs, chunks fuel bs l = Some cs /\ concat cs = l /\ Forall (fun c => c <> []) cs.
Proof.
  induction fuel as [|fuel IH]; intros l Hl.
  - destruct l; [|simpl in Hl; lia]. exists []. simpl. auto.
  - destruct l as [|x l']; [exists []; simpl; auto|].
    cbn [chunks]. set (l := x :: l') in *.
    destruct (IH (skipn bs l)) as (cs & E & Ec & Hn).
    { rewrite skipn_length. assert (length l = S (length l')) by reflexivity. lia. }
    rewrite E. exists (firstn bs l :: cs). split; [reflexivity|]. split.
    + simpl. rewrite Ec. apply firstn_skipn.
    + constructor; auto. destruct bs; [lia|]. unfold l. simpl. discriminate.
Qed.

Lemma block_size_pos reg total n : 1 <= block_size reg total n.
Proof. unfold block_size. lia. Qed.

(* consecutive StartTIDs, no empty block *)
Fixpoint tids_from (cur : Z) (bl : list dblock) : Prop :=
  match bl with
  | [] => True
  | b :: r => d_start_tid b = cur /\ d_tokens b <> [] /\ tids_from (cur + zlen (d_tokens b))%Z r
  end.

Lemma tids_from_app a : forall cur b,
  tids_from cur (a ++ b) <-> tids_from cur a /\ tids_from (cur + zlen (concat (map d_tokens a)))%Z b.
Proof.
  induction a as [|x a IH]; intros cur b; simpl.
  - replace (cur + zlen (@nil bytes))%Z with cur by (unfold zlen; simpl; lia). tauto.
  - rewrite IH. unfold zlen. rewrite app_length.
    replace (cur + Z.of_nat (length (d_tokens x)) + Z.of_nat (length (concat (map d_tokens a))))%Z
      with (cur + Z.of_nat (length (d_tokens x) + length (concat (map d_tokens a))))%Z by lia.
    tauto.
Qed.

Lemma gen_field_spec f total : forall cs cur first bl cur',
  gen_field f total cur first cs = (bl, cur') -> Forall (fun c => c <> []) cs ->
  map d_tokens bl = cs /\ tids_from cur bl /\ cur' = (cur + zlen (concat cs))%Z /\
  Forall (fun b => d_field b = f) bl.
Proof.
  induction cs as [|c cs IH]; intros cur first bl cur' E Hn.
  - simpl in E. inversion E; subst. simpl. unfold zlen. simpl. repeat split; auto; lia.
  - simpl in E. destruct (gen_field f total (cur + Z.of_nat (length c)) false cs) as [bl1 c1] eqn:Eg.
    inversion E; subst. inversion Hn; subst.
    destruct (IH _ _ _ _ Eg) as (M & T & C & Fd); auto.
    simpl. repeat split; auto.
    + now rewrite M.
    + unfold zlen in *. rewrite app_length. lia.
Qed.

Definition field_tokens (fields : list (bytes * N * list bytes)) : list bytes :=
  concat (map (fun x => snd x) fields).

Lemma gen_blocks_spec reg : forall fields cur,
  exists bl, gen_blocks reg fields cur = Some bl /\
    concat (map d_tokens bl) = field_tokens fields /\ tids_from cur bl.
Proof.
  induction fields as [|[[f total] toks] fields IH]; intros cur.
  - exists []. simpl. auto.
  - cbn [gen_blocks].
    destruct (chunks_spec (block_size reg total (length toks)) (block_size_pos _ _ _) (length toks) toks (le_n _))
      as (cs & Ec & Ecc & Hn).
    rewrite Ec. destruct (gen_field f total cur true cs) as [bl1 cur1] eqn:Eg.
    destruct (gen_field_spec _ _ _ _ _ _ _ Eg Hn) as (M & T & C & _).
    destruct (IH cur1) as (bl2 & E2 & Ect & T2). rewrite E2.
    exists (bl1 ++ bl2). split; [reflexivity|]. split.
    + rewrite map_app, concat_app, M, Ecc, Ect. reflexivity.
    + apply tids_from_app. split; auto. rewrite M, Ecc. rewrite C, Ecc in T2. exact T2.
Qed.

Lemma tids_from_split : forall A cur b B, tids_from cur (A ++ b :: B) ->
  d_start_tid b = (cur + zlen (concat (map d_tokens A)))%Z /\ d_tokens b <> [].
Proof. intros A cur b B H. apply tids_from_app in H as [_ H]. simpl in H. tauto. Qed.

Lemma Forall2_split_r {A B} (R : A -> B -> Prop) : forall la lb, Forall2 R la lb ->
  forall a, In a la -> exists X b Y, lb = X ++ b :: Y /\ R a b.
Proof.
  induction 1; intros a Ha; [contradiction|]. destruct Ha as [<-|Ha].
  - exists [], y, l'. auto.
  - destruct (IHForall2 a Ha) as (X & b & Y & -> & Rr). exists (y :: X), b, Y. auto.
Qed.

(* C13_block_unpack_exact *)
Theorem block_unpack_exact w (Hw : 1 <= w) reg b0 fields :
  Forall (fun x => toks_ok w (snd x)) fields ->
  exists blocks, gen_blocks reg fields 1 = Some blocks /\
  let st := write_blocks w reg b0 blocks in
  let dict := field_tokens fields in
  Forall (fun P => (blen P < 256 ^ N.of_nat w)%N) (ws_done st) ->
  forall fe, In fe (ws_table st) ->
    let e := snd fe in
    let P := disk_of b0 (ws_done st) (e_block_index e) in
    (1 <= e_start_tid e)%Z /\ (1 <= e_val_count e)%Z /\ (get_last_tid e <= zlen dict)%Z /\
    exists offs, unpack w P = UOk offs /\
      forall tid, in_entry e tid -> get_val w e P offs tid = Some (nth (Z.to_nat (tid - 1)) dict []).
Proof.
  intros HT. destruct (gen_blocks_spec reg fields 1) as (blocks & Eg & Ec & Tf).
  exists blocks. split; [exact Eg|]. cbv zeta. intros HP fe Hin.
  assert (HB : Forall (fun b => toks_ok w (d_tokens b)) blocks).
  { apply Forall_forall. intros b Hb. apply Forall_forall. intros t Ht.
    assert (It : In t (field_tokens fields)).
    { rewrite <- Ec. apply in_concat. exists (d_tokens b). split; [now apply in_map|exact Ht]. }
    unfold field_tokens in It. apply in_concat in It as (T & HTin & HtT).
    apply in_map_iff in HTin as (x & <- & Hx).
    rewrite Forall_forall in HT. specialize (HT x Hx). unfold toks_ok in HT. rewrite Forall_forall in HT. auto. }
  pose proof (writer_spec w Hw reg b0 blocks HB) as WS. cbv zeta in WS.
  destruct (Forall2_split_r _ _ _ WS fe Hin) as (X & b & Y & Eb & (Rf & Rt & Rc & Rm) & [K L]).
  cbv zeta in K, L. rewrite Eb in Tf. destruct (tids_from_split _ _ _ _ Tf) as [Est Hne].
  set (e := snd fe) in *.
  set (pre := concat (map d_tokens X)) in *.
  assert (Ed : field_tokens fields = pre ++ d_tokens b ++ concat (map d_tokens Y)).
  { rewrite <- Ec, Eb, map_app, concat_app. reflexivity. }
  assert (Lb : 1 <= length (d_tokens b)) by (destruct (d_tokens b); [congruence|simpl; lia]).
  split; [unfold zlen in *; lia|]. split; [unfold zlen in *; lia|]. split.
  { unfold get_last_tid. rewrite Ed. unfold zlen in *. rewrite !app_length. lia. }
  assert (EP : disk_of b0 (ws_done (write_blocks w reg b0 blocks)) (e_block_index e) =
               nth (Z.to_nat (e_block_index e - b0)) (ws_done (write_blocks w reg b0 blocks)) []).
  { unfold disk_of. destruct (Z.ltb_spec (e_block_index e) b0); [lia|reflexivity]. }
  rewrite EP.
  destruct (located_block w Hw _ _ _ L) as (offs & Eu & Hg).
  { rewrite Forall_forall in HP. apply HP. apply nth_In. unfold zlen in K. lia. }
  exists offs. split; [exact Eu|]. intros tid [T1 T2]. unfold get_last_tid in T2.
  specialize (Hg e (Z.to_nat (tid - e_start_tid e)) eq_refl ltac:(unfold zlen in *; lia)).
  replace (e_start_tid e + Z.of_nat (Z.to_nat (tid - e_start_tid e)))%Z with tid in Hg by lia.
  rewrite Hg. f_equal. rewrite Ed.
  rewrite app_nth2 by (unfold zlen in *; lia). rewrite app_nth1 by (unfold zlen in *; lia).
  f_equal. unfold zlen in *. lia.
Qed.

(* ------------------------------------------------------------------ Search over the byte-level provider *)

Lemma zseq_range : forall n from, Forall (fun t => (from <= t < from + Z.of_nat n)%Z) (zseq from n).
Proof.
  induction n as [|n IH]; intros from; simpl; constructor; [lia|].
  specialize (IH (from + 1)%Z). revert IH. apply Forall_impl. intros t Ht. lia.
Qed.

Lemma map_tok_zseq first : forall dict pre,
  map (tok first (pre ++ dict)) (zseq (first + Z.of_nat (length pre)) (length dict)) = dict.
Proof.
  induction dict as [|x dict IH]; intros pre; simpl; auto. f_equal.
  - rewrite tok_idx. rewrite app_nth2, Nat.sub_diag by lia. reflexivity.
  - specialize (IH (pre ++ [x])). rewrite <- app_assoc in IH. simpl in IH.
    rewrite app_length in IH. simpl in IH.
    replace (first + Z.of_nat (length pre + 1))%Z with (first + Z.of_nat (length pre) + 1)%Z in IH by lia.
    exact IH.
Qed.

(* what the provider hands out for FirstTID..LastTID is the dictionary it serves *)
Lemma provider_dict_spec w disk sel first dict :
  cover sel -> first_tid sel = first -> last_tid_p sel = last_tid first dict ->
  serves w disk sel (tok first dict) -> provider_dict w disk sel = Some dict.
Proof.
  intros C Ef El S. unfold provider_dict. rewrite Ef, El. unfold last_tid.
  replace (Z.to_nat (first + Z.of_nat (length dict) - 1 - first + 1)) with (length dict) by lia.
  destruct (provider_get_tokens w disk sel (tok first dict) C S (zseq first (length dict)) p_init)
    as (st' & E & _).
  { apply pvalid_init. apply C. }
  { rewrite Ef, El. unfold last_tid. generalize (zseq_range (length dict) first).
    apply Forall_impl. intros t Ht. lia. }
  rewrite E. simpl. f_equal. pose proof (map_tok_zseq first dict []) as M. simpl in M.
  replace (first + 0)%Z with first in M by lia. exact M.
Qed.

Theorem sealed_bytes_partial parse
  (PB : forall s k, parse s = Some k -> (- maxkey <= k <= maxkey)%Z) w disk sel first dict q :
  wfq q -> Sorted.StronglySorted lt_bytes dict ->
  cover sel -> first_tid sel = first -> last_tid_p sel = last_tid first dict ->
  serves w disk sel (tok first dict) ->
  match provider_dict w disk sel with
  | Some d => search parse true (first_tid sel) d q
  | None => None
  end = Some (spec_scan (spec_match parse q) first dict).
Proof.
  intros W HS C Ef El S. rewrite (provider_dict_spec w disk sel first dict C Ef El S), Ef.
  now destruct (narrow_equiv parse PB first dict q W HS) as [_ E].
Qed.
