(* C13 — wildcardSearch.check / literalSearch.check decide exactly the glob. *)
From Coq Require Import List Bool Arith NArith ZArith Lia.
Import ListNotations.
From C13 Require Import Model ProofsGlob ProofsKmp.

(* ------------------------------------------------------------------ byte equality *)

Lemma bcmp_eq a b : bcmp a b = Eq <-> a = b.
Proof.
  revert b. induction a as [|x a IH]; intros [|y b]; simpl; try (split; [discriminate|congruence]);
    try tauto.
  destruct (N.compare_spec x y) as [->|L|L].
  - rewrite IH. split; congruence.
  - split; [discriminate|]. intros H. inversion H. lia.
  - split; [discriminate|]. intros H. inversion H. lia.
Qed.

Lemma beqb_true a b : beqb a b = true <-> a = b.
Proof.
  unfold beqb. rewrite <- bcmp_eq. destruct (bcmp a b); split; congruence.
Qed.

(* ------------------------------------------------------------------ findSequence is greedy-optimal *)

(* the patterns occur one after the other, in order, without overlap *)
Fixpoint SeqM (ms : list bytes) (t : bytes) : Prop :=
  match ms with
  | [] => True
  | m :: r => exists g w, t = g ++ m ++ w /\ SeqM r w
  end.

Lemma SeqM_prepend ms x t : SeqM ms t -> SeqM ms (x ++ t).
Proof.
  destruct ms as [|m r]; simpl; [trivial|].
  intros (g & w & -> & H). exists (x ++ g), w. split; [now rewrite <- app_assoc | exact H].
Qed.

Lemma SeqM_len ms t : SeqM ms t -> fold_right (fun m n => length m + n) 0 ms <= length t.
Proof.
  revert t. induction ms as [|m r IH]; intros t; simpl; [lia|].
  intros (g & w & -> & H). apply IH in H. rewrite !app_length. lia.
Qed.

Lemma skipn_app_len {A} (u w : list A) : skipn (length u) (u ++ w) = w.
Proof. induction u; simpl; auto. Qed.

Lemma find_sequence_spec ms : (forall m, In m ms -> m <> []) ->
  forall s, exists k, find_sequence s ms = Some k /\ (k = length ms <-> SeqM ms s).
Proof.
  induction ms as [|m r IH]; intros Hne s.
  - exists 0. simpl. tauto.
  - simpl. pose proof (find_substring_leftmost s m (Hne m (or_introl eq_refl))) as H.
    destruct (find_substring s m) as [e| |].
    + destruct H as ((u & w & Es & Ee) & Hmin).
      destruct (IH (fun x Hx => Hne x (or_intror Hx)) (skipn e s)) as (k & Ek & Hk).
      rewrite Ek. exists (S k). split; [reflexivity|].
      assert (Esk : skipn e s = w).
      { subst e s. rewrite app_assoc, <- app_length. apply skipn_app_len. }
      rewrite Esk in Hk. split.
      * intros E. exists u, w. split; [exact Es|]. apply Hk. lia.
      * intros (g & w' & Es' & Hw'). f_equal. apply Hk.
        assert (Hle : e <= length g + length m) by (apply Hmin; now exists g, w').
        assert (Ex : exists x, w = x ++ w').
        { rewrite Es in Es'. rewrite !app_assoc in Es'.
          eapply app_suffix_cmp; [exact Es'|].
          apply (f_equal (@length N)) in Es'. rewrite !app_length in Es'. lia. }
        destruct Ex as (x & ->). now apply SeqM_prepend.
    + exists 0. split; [reflexivity|]. split; [discriminate|].
      intros (g & w & Es & _). exfalso. apply (H (length g + length m)). now exists g, w.
    + contradiction.
Qed.

(* ------------------------------------------------------------------ shape of well-formed term lists *)

(* starts with '*', ends with '*', text terms non-empty and never adjacent *)
Inductive inner : list term -> Prop :=
| in_star : inner [TStar]
| in_ss ts : inner ts -> inner (TStar :: ts)
| in_st m ts : m <> [] -> inner ts -> inner (TStar :: TText m :: ts).

Definition opt_text (l : list term) : Prop := l = [] \/ exists s, s <> [] /\ l = [TText s].

Lemma wf_star_decomp n : forall ts, length ts <= n -> wf_from false (TStar :: ts) = true ->
  exists I S, TStar :: ts = I ++ S /\ inner I /\ opt_text S.
Proof.
  induction n as [|n IH]; intros ts L H.
  - destruct ts; [|simpl in L; lia]. exists [TStar], []. repeat split; [constructor | now left].
  - destruct ts as [|[m|] r].
    + exists [TStar], []. repeat split; [constructor | now left].
    + simpl in H. destruct m as [|c m]; [discriminate|]. simpl in H.
      destruct r as [|[m2|] r2].
      * exists [TStar], [TText (c :: m)]. repeat split; [constructor|]. right. eexists; split; [|reflexivity]. discriminate.
      * simpl in H. discriminate.
      * destruct (IH r2) as (I & S & E & HI & HS); [simpl in L; lia | exact H |].
        exists (TStar :: TText (c :: m) :: I), S. rewrite E. repeat split; auto.
        constructor; [discriminate | exact HI].
    + destruct (IH r) as (I & S & E & HI & HS); [simpl in L; lia | exact H |].
      exists (TStar :: I), S. rewrite E. repeat split; auto. now constructor.
Qed.

Lemma wf_decomp ts : wf ts = true -> is_literal ts = None ->
  exists P I S, ts = P ++ I ++ S /\ opt_text P /\ inner I /\ opt_text S.
Proof.
  intros W L. destruct ts as [|[p|] r]; [discriminate| |].
  - destruct r as [|t r]; [discriminate|]. unfold wf in W.
    simpl in W. destruct p as [|c p]; [discriminate|]. simpl in W.
    destruct t as [m|]; [simpl in W; discriminate|].
    destruct (wf_star_decomp (length r) r (le_n _) W) as (I & S & E & HI & HS).
    exists [TText (c :: p)], I, S. simpl. rewrite E. repeat split; auto.
    right. eexists; split; [|reflexivity]. discriminate.
  - assert (W' : wf_from false (TStar :: r) = true) by (destruct r; exact W).
    destruct (wf_star_decomp (length r) r (le_n _) W') as (I & S & E & HI & HS).
    exists [], I, S. simpl. repeat split; auto. now left.
Qed.

Lemma inner_hd I : inner I -> exists I', I = TStar :: I' /\ texts I' = texts I.
Proof. intros H. inversion H; subst; eexists; split; reflexivity. Qed.

Lemma texts_app a b : texts (a ++ b) = texts a ++ texts b.
Proof. unfold texts. now rewrite flat_map_app. Qed.

Lemma inner_last I : inner I -> exists I', I = I' ++ [TStar] /\ texts I' = texts I.
Proof.
  induction 1 as [|ts H (I' & E & T)|m ts Hm H (I' & E & T)].
  - now exists [].
  - exists (TStar :: I'). rewrite E at 1. split; [reflexivity|]. simpl. exact T.
  - exists (TStar :: TText m :: I'). rewrite E at 1. split; [reflexivity|]. simpl. now rewrite T.
Qed.

Lemma inner_texts_ne I : inner I -> forall m, In m (texts I) -> m <> [].
Proof.
  induction 1; simpl; intros x Hx; try contradiction; auto.
  destruct Hx as [<-|Hx]; auto.
Qed.

Definition text_of (l : list term) : bytes := match l with TText s :: _ => s | _ => [] end.

Lemma new_wildcard_decomp P I S : opt_text P -> inner I -> opt_text S ->
  new_wildcard (P ++ I ++ S) = {| w_prefix := text_of P; w_suffix := text_of S; w_middle := texts I |}.
Proof.
  intros HP HI HS. unfold new_wildcard.
  destruct (inner_hd I HI) as (Ih & EIh & Th).
  destruct (inner_last I HI) as (Il & EIl & Tl).
  f_equal.
  - destruct HP as [->|(p & _ & ->)]; [subst I|]; reflexivity.
  - destruct HS as [->|(s & _ & ->)].
    + rewrite app_nil_r, EIl, app_assoc. now rewrite last_last.
    + rewrite app_assoc. now rewrite last_last.
  - rewrite <- Tl. destruct HS as [->|(s & _ & ->)].
    + rewrite app_nil_r. destruct HP as [->|(p & _ & ->)]; simpl.
      * rewrite EIl. destruct Il as [|x Il]; simpl; [reflexivity|].
        rewrite removelast_last.
        assert (x = TStar) by (rewrite EIh in EIl; simpl in EIl; congruence). now subst x.
      * rewrite EIl, removelast_last. reflexivity.
    + destruct HP as [->|(p & _ & ->)]; simpl.
      * rewrite EIh. simpl. rewrite removelast_last. congruence.
      * rewrite removelast_last. congruence.
Qed.

(* ------------------------------------------------------------------ declarative reading of a term list *)

Lemma Matches_text_front p r v : Matches (TText p :: r) v <-> exists v', v = p ++ v' /\ Matches r v'.
Proof.
  split.
  - intros H. inversion H; subst. eauto.
  - intros (v' & -> & H). now constructor.
Qed.

Lemma Matches_star_front r v : Matches (TStar :: r) v <-> exists u t, v = u ++ t /\ Matches r t.
Proof.
  split.
  - intros H. inversion H; subst. eauto.
  - intros (u & t & -> & H). now constructor.
Qed.

Lemma Matches_nil v : Matches [] v <-> v = [].
Proof. split; [intros H; now inversion H | intros ->; constructor]. Qed.

Lemma Matches_text_end ts s : forall v, Matches (ts ++ [TText s]) v <-> exists v', v = v' ++ s /\ Matches ts v'.
Proof.
  induction ts as [|a ts IH]; intros v; simpl.
  - rewrite Matches_text_front. split.
    + intros (v' & -> & H). apply Matches_nil in H. subst. exists []. split; [now rewrite app_nil_r | constructor].
    + intros (v' & -> & H). apply Matches_nil in H. subst. exists []. split; [now rewrite app_nil_r | constructor].
  - destruct a as [p|].
    + rewrite Matches_text_front. split.
      * intros (v1 & -> & H). apply IH in H as (v' & -> & H'). exists (p ++ v').
        split; [now rewrite app_assoc | now constructor].
      * intros (v' & -> & H). apply Matches_text_front in H as (v1 & -> & H).
        exists (v1 ++ s). split; [now rewrite app_assoc|]. apply IH. eauto.
    + rewrite Matches_star_front. split.
      * intros (u & t & -> & H). apply IH in H as (v' & -> & H'). exists (u ++ v').
        split; [now rewrite app_assoc | now constructor].
      * intros (v' & -> & H). apply Matches_star_front in H as (u & t & -> & H).
        exists u, (t ++ s). split; [now rewrite app_assoc|]. apply IH. eauto.
Qed.

Lemma inner_matches I : inner I -> forall v, Matches I v <-> SeqM (texts I) v.
Proof.
  induction 1 as [|ts H IH|m ts Hm H IH]; intros v; simpl.
  - split; [trivial|]. intros _. apply Matches_star_front. exists v, []. split; [now rewrite app_nil_r | constructor].
  - rewrite Matches_star_front. split.
    + intros (u & t & -> & HM). apply SeqM_prepend. now apply IH.
    + intros HS. exists [], v. split; [reflexivity|]. now apply IH.
  - rewrite Matches_star_front. split.
    + intros (u & t & -> & HM). apply Matches_text_front in HM as (t' & -> & HM).
      exists u, t'. split; [reflexivity|]. now apply IH.
    + intros (g & w & -> & HS). exists g, (m ++ w). split; [reflexivity|]. constructor. now apply IH.
Qed.

Lemma opt_text_matches_front P r v : opt_text P ->
  (Matches (P ++ r) v <-> exists v', v = text_of P ++ v' /\ Matches r v').
Proof.
  intros [->|(p & _ & ->)]; simpl.
  - split; [eauto|]. now intros (v' & -> & H).
  - apply Matches_text_front.
Qed.

Lemma opt_text_matches_end S r v : opt_text S ->
  (Matches (r ++ S) v <-> exists v', v = v' ++ text_of S /\ Matches r v').
Proof.
  intros [->|(p & _ & ->)]; simpl.
  - rewrite app_nil_r. split.
    + intros H. exists v. now rewrite app_nil_r.
    + intros (v' & -> & H). now rewrite app_nil_r.
  - apply Matches_text_end.
Qed.

Lemma decomp_matches P I S v : opt_text P -> inner I -> opt_text S ->
  (Matches (P ++ I ++ S) v <->
   exists mid, v = text_of P ++ mid ++ text_of S /\ SeqM (texts I) mid).
Proof.
  intros HP HI HS. rewrite (opt_text_matches_front P _ v HP). split.
  - intros (v' & -> & H). apply (opt_text_matches_end S I v' HS) in H as (mid & -> & H).
    exists mid. split; [reflexivity|]. now apply inner_matches.
  - intros (mid & -> & H). exists (mid ++ text_of S). split; [reflexivity|].
    apply (opt_text_matches_end S I _ HS). exists mid. split; [reflexivity|]. now apply inner_matches.
Qed.

(* ------------------------------------------------------------------ wildcardSearch.check *)

Lemma check_prefix_spec w v :
  check_prefix false w v = true <-> exists r, v = w_prefix w ++ r.
Proof.
  unfold check_prefix. simpl. destruct (Nat.eqb_spec (length (w_prefix w)) 0) as [E|E].
  - apply length_zero_iff_nil in E. rewrite E. split; [now exists v | trivial].
  - destruct (Nat.ltb_spec (length v) (length (w_prefix w))) as [L|L].
    + split; [discriminate|]. intros (r & ->). rewrite app_length in L. lia.
    + rewrite beqb_true. split.
      * intros H. exists (skipn (length (w_prefix w)) v). rewrite H at 1. now rewrite firstn_skipn.
      * intros (r & ->). rewrite firstn_app, Nat.sub_diag, firstn_all. simpl. now rewrite app_nil_r.
Qed.

Lemma check_suffix_spec w r :
  check_suffix w (w_prefix w ++ r) = true <-> exists mid, r = mid ++ w_suffix w.
Proof.
  unfold check_suffix. destruct (Nat.eqb_spec (length (w_suffix w)) 0) as [E|E].
  - apply length_zero_iff_nil in E. rewrite E. split; [|trivial]. exists r. now rewrite app_nil_r.
  - rewrite app_length. replace (length (w_prefix w) + length r - length (w_prefix w)) with (length r) by lia.
    destruct (Nat.ltb_spec (length r) (length (w_suffix w))) as [L|L].
    + split; [discriminate|]. intros (mid & ->). rewrite app_length in L. lia.
    + rewrite beqb_true.
      replace (length (w_prefix w) + length r - length (w_suffix w))
        with (length (w_prefix w) + (length r - length (w_suffix w))) by lia.
      rewrite skipn_app, skipn_all2 by lia. simpl.
      replace (length (w_prefix w) + (length r - length (w_suffix w)) - length (w_prefix w))
        with (length r - length (w_suffix w)) by lia.
      split.
      * intros H. exists (firstn (length r - length (w_suffix w)) r). rewrite <- H at 2. now rewrite firstn_skipn.
      * intros (mid & ->). rewrite app_length.
        replace (length mid + length (w_suffix w) - length (w_suffix w)) with (length mid) by lia.
        apply skipn_app_len.
Qed.

Lemma check_middle_spec w mid : (forall m, In m (w_middle w) -> m <> []) ->
  exists b, check_middle w (w_prefix w ++ mid ++ w_suffix w) = Some b /\
            (b = true <-> SeqM (w_middle w) mid).
Proof.
  intros Hne. unfold check_middle.
  destruct (Nat.eqb_spec (length (w_middle w)) 0) as [E|E].
  - exists true. split; [reflexivity|]. apply length_zero_iff_nil in E. rewrite E. simpl. tauto.
  - rewrite !app_length.
    replace (length (w_prefix w) + (length mid + length (w_suffix w)) - length (w_prefix w) - length (w_suffix w))
      with (length mid) by lia.
    replace (length (w_prefix w) + (length mid + length (w_suffix w)) - length (w_suffix w) - length (w_prefix w))
      with (length mid) by lia.
    destruct (Nat.ltb_spec (length mid) (middle_len w)) as [L|L].
    + exists false. split; [reflexivity|]. split; [discriminate|].
      intros H. apply SeqM_len in H. unfold middle_len in L. lia.
    + rewrite skipn_app_len. rewrite firstn_app, Nat.sub_diag, firstn_all. simpl. rewrite app_nil_r.
      destruct (find_sequence_spec (w_middle w) Hne mid) as (k & -> & Hk).
      eexists. split; [reflexivity|]. rewrite Nat.eqb_eq. exact Hk.
Qed.

Lemma wild_check_spec narrowed w v : (forall m, In m (w_middle w) -> m <> []) ->
  (narrowed = true -> exists r, v = w_prefix w ++ r) ->
  exists b, wild_check narrowed w v = Some b /\
            (b = true <-> exists mid, v = w_prefix w ++ mid ++ w_suffix w /\ SeqM (w_middle w) mid).
Proof.
  intros Hne Hn. unfold wild_check.
  assert (Hp : check_prefix narrowed w v = true <-> exists r, v = w_prefix w ++ r).
  { destruct narrowed; [|apply check_prefix_spec]. unfold check_prefix. simpl. split; auto. }
  destruct (check_prefix narrowed w v).
  2:{ exists false. split; [reflexivity|]. split; [discriminate|].
      intros (mid & -> & _). assert (false = true); [|discriminate]. apply Hp. eauto. }
  destruct Hp as [Hp _]. destruct (Hp eq_refl) as (r & ->).
  pose proof (check_suffix_spec w r) as Hs.
  destruct (check_suffix w (w_prefix w ++ r)).
  2:{ exists false. split; [reflexivity|]. split; [discriminate|].
      intros (mid & E & _). apply app_inv_head in E. subst r.
      assert (false = true); [|discriminate]. apply Hs. eauto. }
  destruct Hs as [Hs _]. destruct (Hs eq_refl) as (mid & ->).
  destruct (check_middle_spec w mid Hne) as (b & -> & Hb).
  exists b. split; [reflexivity|]. rewrite Hb. split.
  - intros H. now exists mid.
  - intros (mid' & E & H). apply app_inv_head in E. apply app_inv_tail in E. now subst.
Qed.

Lemma bool_iff_eq (a b : bool) : (a = true <-> b = true) -> a = b.
Proof. destruct a, b; intros [H1 H2]; auto; try (symmetry; now auto). Qed.

(* wildcardSearch.check (narrowed or not) is the glob, for every non-literal well-formed list *)
Theorem wild_check_glob narrowed ts v : wf ts = true -> is_literal ts = None ->
  (narrowed = true -> exists r, v = w_prefix (new_wildcard ts) ++ r) ->
  wild_check narrowed (new_wildcard ts) v = Some (glob ts v).
Proof.
  intros W L Hn. destruct (wf_decomp ts W L) as (P & I & S & -> & HP & HI & HS).
  rewrite new_wildcard_decomp in * by assumption.
  destruct (wild_check_spec narrowed {| w_prefix := text_of P; w_suffix := text_of S; w_middle := texts I |}
              v (inner_texts_ne I HI) Hn) as (b & -> & Hb).
  f_equal. apply bool_iff_eq. rewrite Hb, glob_matches. symmetry. simpl.
  now apply decomp_matches.
Qed.

(* literalSearch.check (not narrowed) is the glob of a single text term *)
Theorem lit_check_glob s v : lit_check false s v = glob [TText s] v.
Proof.
  apply bool_iff_eq. unfold lit_check. rewrite beqb_true, glob_matches. split.
  - intros <-. pose proof (MText s [] [] MNil) as X. now rewrite app_nil_r in X.
  - intros H. apply Matches_text_front in H as (v' & -> & H). apply Matches_nil in H. subst.
    now rewrite app_nil_r.
Qed.

(* the prefix the narrowing uses really is a prefix of everything the glob accepts *)
Lemma glob_has_prefix ts v : wf ts = true -> is_literal ts = None -> glob ts v = true ->
  exists r, v = w_prefix (new_wildcard ts) ++ r.
Proof.
  intros W L G. destruct (wf_decomp ts W L) as (P & I & S & -> & HP & HI & HS).
  rewrite new_wildcard_decomp by assumption. simpl.
  apply glob_matches in G. apply (decomp_matches P I S v HP HI HS) in G as (mid & -> & _). eauto.
Qed.
