(* C13 — proofs about the packed token block: enc/dec, Block.unpack, GetValByTID. *)
From Coq Require Import List Bool Arith NArith ZArith Lia ZifyN ZifyNat.
Import ListNotations.
From C13 Require Import Model ModelBlock.

Lemma firstn_app_exact {A} (a b : list A) : firstn (length a) (a ++ b) = a.
Proof. rewrite firstn_app, Nat.sub_diag, firstn_all. simpl. apply app_nil_r. Qed.
Lemma skipn_app_exact {A} (a b : list A) : skipn (length a) (a ++ b) = b.
Proof. rewrite skipn_app, Nat.sub_diag, skipn_all. reflexivity. Qed.

(* ------------------------------------------------------------------ enc / dec *)

Lemma enc_length w : forall n, length (enc w n) = w.
Proof. induction w; intros; simpl; auto. Qed.

Lemma firstn_enc w n r : firstn w (enc w n ++ r) = enc w n.
Proof. rewrite <- (enc_length w n) at 1. apply firstn_app_exact. Qed.
Lemma skipn_enc w n r : skipn w (enc w n ++ r) = r.
Proof. rewrite <- (enc_length w n) at 1. apply skipn_app_exact. Qed.

Lemma to_nat_blen (x : bytes) : N.to_nat (blen x) = length x.
Proof. unfold blen. apply Nat2N.id. Qed.

Lemma pow256_succ w : (256 ^ N.of_nat (S w) = 256 * 256 ^ N.of_nat w)%N.
Proof. rewrite Nat2N.inj_succ. apply N.pow_succ_r'. Qed.

Lemma dec_enc w : forall n, (n < 256 ^ N.of_nat w)%N -> dec (enc w n) = n.
Proof.
  induction w as [|w IH]; intros n H.
  - simpl in *. lia.
  - rewrite pow256_succ in H. cbn [enc dec]. rewrite IH.
    + pose proof (N.div_mod n 256). lia.
    + apply N.div_lt_upper_bound; lia.
Qed.

Lemma pow256_pos w : (0 < 256 ^ N.of_nat w)%N.
Proof. apply N.neq_0_lt_0. apply N.pow_nonzero. discriminate. Qed.

Lemma maxv_lt w : (maxv w < 256 ^ N.of_nat w)%N.
Proof. unfold maxv. pose proof (pow256_pos w). lia. Qed.

Lemma pack_nonempty w toks : 1 <= w -> pack_tokens w toks <> [].
Proof.
  intros Hw E. apply (f_equal (@length _)) in E. unfold pack_tokens in E.
  rewrite app_length, enc_length in E. simpl in E. lia.
Qed.

(* ------------------------------------------------------------------ items: records and separators *)

Fixpoint render (w : nat) (items : list (option bytes)) : bytes :=
  match items with
  | [] => []
  | None :: r => enc w (maxv w) ++ render w r
  | Some t :: r => (enc w (blen t) ++ t) ++ render w r
  end.
Fixpoint somes (items : list (option bytes)) : list bytes :=
  match items with [] => [] | None :: r => somes r | Some t :: r => t :: somes r end.
Fixpoint offs_of (w : nat) (o : N) (items : list (option bytes)) : list N :=
  match items with
  | [] => []
  | None :: r => offs_of w (o + N.of_nat w)%N r
  | Some t :: r => o :: offs_of w (o + N.of_nat w + blen t)%N r
  end.
Definition items_of (groups : list (list bytes)) : list (option bytes) :=
  flat_map (fun g => map Some g ++ [None]) groups.

Lemma render_app w a : forall b, render w (a ++ b) = render w a ++ render w b.
Proof. induction a as [|[t|] a IH]; intros; simpl; auto; rewrite IH, ?app_assoc; reflexivity. Qed.

Lemma render_group w g : render w (map Some g ++ [None]) = pack_tokens w g.
Proof.
  unfold pack_tokens. induction g as [|t g IH]; simpl.
  - now rewrite app_nil_r.
  - rewrite IH. now rewrite !app_assoc.
Qed.

Lemma render_items w groups : render w (items_of groups) = concat (map (pack_tokens w) groups).
Proof.
  induction groups as [|g gs IH]; simpl; auto.
  unfold items_of in *. simpl. now rewrite render_app, render_group, IH.
Qed.

Lemma somes_app a : forall b, somes (a ++ b) = somes a ++ somes b.
Proof. induction a as [|[t|] a IH]; intros; simpl; auto. now rewrite IH. Qed.

Lemma somes_items groups : somes (items_of groups) = concat groups.
Proof.
  induction groups as [|g gs IH]; simpl; auto.
  unfold items_of in *. simpl. rewrite !somes_app, IH. f_equal.
  induction g; simpl; auto. now f_equal.
Qed.

Definition len_ok (w : nat) (t : bytes) : Prop := (blen t < maxv w)%N.

Lemma walk_step w f data o acc : data <> [] ->
  walk w (S f) data o acc =
  if length data <? w then UPanic
  else let l := dec (firstn w data) in
       let data1 := skipn w data in
       let offset1 := (o + N.of_nat w)%N in
       if (l =? maxv w)%N then walk w f data1 offset1 acc
       else if (blen data1 <? l)%N then UErr
       else walk w f (skipn (N.to_nat l) data1) (offset1 + l)%N (acc ++ enc w (offset1 - N.of_nat w)%N).
Proof. destruct data; [congruence|reflexivity]. Qed.

Lemma len_nonempty {A} (l : list A) : 1 <= length l -> l <> [].
Proof. destruct l; simpl; [lia|discriminate]. Qed.

(* the walk over a rendered item list never fails and records the offset of every record *)
Lemma walk_render w (Hw : 1 <= w) : forall items fuel o acc,
  Forall (len_ok w) (somes items) -> length (render w items) < fuel ->
  walk w fuel (render w items) o acc = UOk (acc ++ flat_map (enc w) (offs_of w o items)).
Proof.
  induction items as [|[t|] items IH]; intros fuel o acc HL Hf.
  - destruct fuel; [simpl in Hf; lia|]. simpl. now rewrite app_nil_r.
  - destruct fuel; [simpl in Hf; lia|].
    cbn [render somes] in *. inversion HL as [|? ? Ht HL']; subst.
    rewrite walk_step by (apply len_nonempty; rewrite !app_length, enc_length; lia). cbv zeta.
    destruct (Nat.ltb_spec (length ((enc w (blen t) ++ t) ++ render w items)) w) as [L|_].
    { rewrite !app_length, enc_length in L. lia. }
    rewrite <- !app_assoc.
    rewrite firstn_enc, skipn_enc.
    assert (Hb : (blen t < 256 ^ N.of_nat w)%N) by (unfold len_ok in Ht; pose proof (maxv_lt w); lia).
    rewrite dec_enc by exact Hb.
    destruct (N.eqb_spec (blen t) (maxv w)) as [E|_]; [unfold len_ok in Ht; lia|].
    destruct (N.ltb_spec (blen (t ++ render w items)) (blen t)) as [L|_].
    { unfold blen in L. rewrite app_length in L. lia. }
    rewrite to_nat_blen, skipn_app_exact.
    rewrite IH; auto.
    + cbn [offs_of flat_map]. rewrite <- !app_assoc.
      replace (o + N.of_nat w - N.of_nat w)%N with o by lia. reflexivity.
    + rewrite !app_length, enc_length in Hf. simpl in Hf. lia.
  - destruct fuel; [simpl in Hf; lia|].
    cbn [render somes] in *.
    rewrite walk_step by (apply len_nonempty; rewrite !app_length, enc_length; lia). cbv zeta.
    destruct (Nat.ltb_spec (length (enc w (maxv w) ++ render w items)) w) as [L|_].
    { rewrite !app_length, enc_length in L. lia. }
    rewrite firstn_enc, skipn_enc.
    rewrite dec_enc by apply maxv_lt. rewrite N.eqb_refl.
    rewrite IH; auto.
    rewrite !app_length, enc_length in Hf. lia.
Qed.

(* record of token t at byte offset off of P *)
Definition rec_at (w : nat) (P : bytes) (off : N) (t : bytes) : Prop :=
  exists pre post, P = pre ++ enc w (blen t) ++ t ++ post /\ blen pre = off.

Lemma offs_rec w : forall items pre post,
  Forall2 (rec_at w (pre ++ render w items ++ post)) (offs_of w (blen pre) items) (somes items).
Proof.
  induction items as [|[t|] items IH]; intros pre post; cbn [offs_of somes render].
  - constructor.
  - constructor.
    + exists pre, (render w items ++ post). split; [now rewrite <- !app_assoc|reflexivity].
    + specialize (IH (pre ++ enc w (blen t) ++ t) post).
      replace (blen (pre ++ enc w (blen t) ++ t)) with (blen pre + N.of_nat w + blen t)%N in IH.
      2:{ unfold blen. rewrite !app_length, enc_length. lia. }
      rewrite <- !app_assoc in *. exact IH.
  - specialize (IH (pre ++ enc w (maxv w)) post).
    replace (blen (pre ++ enc w (maxv w))) with (blen pre + N.of_nat w)%N in IH.
    2:{ unfold blen. rewrite !app_length, enc_length. lia. }
    rewrite <- !app_assoc in *. exact IH.
Qed.

Lemma skipn_flat_enc w : forall offs i,
  skipn (i * w) (flat_map (enc w) offs) = flat_map (enc w) (skipn i offs).
Proof.
  induction offs as [|o offs IH]; intros i.
  - now rewrite !skipn_nil.
  - destruct i; [reflexivity|]. cbn [flat_map skipn Nat.mul].
    replace (w + i * w) with (length (enc w o) + i * w) by now rewrite enc_length.
    rewrite skipn_app. rewrite skipn_all2 by lia. simpl.
    replace (length (enc w o) + i * w - length (enc w o)) with (i * w) by lia. apply IH.
Qed.

Lemma flat_enc_length w offs : length (flat_map (enc w) offs) = length offs * w.
Proof. induction offs; simpl; auto. rewrite app_length, enc_length, IHoffs. lia. Qed.

(* GetValByTID on a block whose offsets array holds, at the token's index, the offset of the
   token's record *)
Lemma get_val_rec w e P offs tid t i :
  index_in_block e tid = Z.of_nat i ->
  i < length offs ->
  (nth i offs 0 < 256 ^ N.of_nat w)%N -> (blen t < 256 ^ N.of_nat w)%N ->
  rec_at w P (nth i offs 0%N) t ->
  get_val w e P (flat_map (enc w) offs) tid = Some t.
Proof.
  intros Hi Li Ho Ht (pre & post & EP & Epre).
  unfold get_val. rewrite Hi.
  destruct (Z.ltb_spec (Z.of_nat i) 0); [lia|].
  destruct (Z.ltb_spec (Z.of_nat (length (flat_map (enc w) offs))) (Z.of_nat i * Z.of_nat w)) as [L0|_].
  { rewrite flat_enc_length in L0. nia. }
  rewrite Nat2Z.id.
  unfold slice_from. rewrite flat_enc_length.
  destruct (Nat.ltb_spec (length offs * w) (i * w)) as [L|_]; [nia|].
  rewrite skipn_flat_enc.
  destruct (skipn i offs) as [|o rest] eqn:Es.
  { apply (f_equal (@length _)) in Es. rewrite skipn_length in Es. simpl in Es. lia. }
  assert (Eo : o = nth i offs 0%N).
  { rewrite <- (firstn_skipn i offs) at 1. rewrite app_nth2; rewrite firstn_length_le by lia; [|lia].
    rewrite Nat.sub_diag, Es. reflexivity. }
  subst o. cbn [flat_map]. unfold rdw. rewrite app_length, enc_length.
  destruct (Nat.ltb_spec (w + length (flat_map (enc w) rest)) w); [lia|].
  rewrite firstn_enc, dec_enc by exact Ho.
  rewrite <- Epre. rewrite to_nat_blen. rewrite EP.
  destruct (Nat.ltb_spec (length (pre ++ enc w (blen t) ++ t ++ post)) (length pre)) as [L|_].
  { rewrite app_length in L. lia. }
  rewrite skipn_app_exact. rewrite !app_length, enc_length.
  destruct (Nat.ltb_spec (w + (length t + length post)) w); [lia|].
  rewrite firstn_enc, dec_enc by exact Ht.
  destruct (N.ltb_spec (blen (pre ++ enc w (blen t) ++ t ++ post)) (blen pre + N.of_nat w + blen t)) as [L|_].
  { unfold blen in L. rewrite !app_length, enc_length in L. lia. }
  f_equal. replace (N.to_nat (blen pre + N.of_nat w)) with (length (pre ++ enc w (blen t))).
  2:{ unfold blen. rewrite app_length, enc_length. lia. }
  rewrite app_assoc, skipn_app_exact. rewrite to_nat_blen. apply firstn_app_exact.
Qed.

(* ------------------------------------------------------------------ a block of groups *)

Lemma Forall2_nth {A B} (R : A -> B -> Prop) da db : forall la lb, Forall2 R la lb ->
  forall i, i < length lb -> i < length la /\ R (nth i la da) (nth i lb db).
Proof.
  induction 1; intros i Hi; [simpl in Hi; lia|].
  destruct i; simpl; [split; [lia|assumption]|].
  simpl in Hi. destruct (IHForall2 i) as [L Rr]; [lia|]. split; [lia|exact Rr].
Qed.

Lemma rec_at_bound w P off t : rec_at w P off t -> (off + N.of_nat w + blen t <= blen P)%N.
Proof.
  intros (pre & post & -> & <-). unfold blen. rewrite !app_length, enc_length. lia.
Qed.

(* physical block = packed groups; StartIndex = number of tokens in the groups before T *)
Definition located (w : nat) (P : bytes) (si : Z) (T : list bytes) : Prop :=
  exists gs1 gs2, P = concat (map (pack_tokens w) gs1) ++ pack_tokens w T ++ concat (map (pack_tokens w) gs2) /\
                  si = Z.of_nat (length (concat gs1)) /\
                  Forall (Forall (len_ok w)) (gs1 ++ [T] ++ gs2).

Lemma located_block w (Hw : 1 <= w) P si T :
  located w P si T -> (blen P < 256 ^ N.of_nat w)%N ->
  exists offs, unpack w P = UOk offs /\
    forall e j, e_start_index e = si -> j < length T ->
      get_val w e P offs (e_start_tid e + Z.of_nat j) = Some (nth j T []).
Proof.
  intros (gs1 & gs2 & EP & Esi & HL) HP.
  set (groups := gs1 ++ [T] ++ gs2) in *.
  assert (EP' : P = render w (items_of groups)).
  { rewrite render_items. unfold groups. rewrite !map_app, !concat_app. simpl. now rewrite app_nil_r. }
  assert (HLs : Forall (len_ok w) (somes (items_of groups))).
  { rewrite somes_items. apply Forall_concat. exact HL. }
  exists (flat_map (enc w) (offs_of w 0 (items_of groups))). split.
  - unfold unpack. rewrite EP' at 2. rewrite walk_render; auto. rewrite <- EP'. lia.
  - intros e j Ee Hj.
    pose proof (offs_rec w (items_of groups) [] []) as HR.
    simpl in HR. rewrite app_nil_r, <- EP' in HR. change (blen []) with 0%N in HR.
    set (i := length (concat gs1) + j).
    assert (Ei : nth i (somes (items_of groups)) [] = nth j T []).
    { rewrite somes_items. unfold groups. rewrite !concat_app. simpl. rewrite app_nil_r.
      unfold i. rewrite app_nth2 by lia. replace (length (concat gs1) + j - length (concat gs1)) with j by lia.
      now rewrite app_nth1 by lia. }
    assert (Li : i < length (somes (items_of groups))).
    { rewrite somes_items. unfold groups. rewrite !concat_app, !app_length. simpl.
      rewrite app_nil_r. unfold i. lia. }
    destruct (Forall2_nth _ 0%N [] _ _ HR i Li) as [Lo Rr]. assert (Rr2 : rec_at w P (nth i (offs_of w 0 (items_of groups)) 0%N) (nth j T [])) by (rewrite <- Ei; exact Rr). clear Rr. rename Rr2 into Rr.
    pose proof (rec_at_bound _ _ _ _ Rr) as Bd.
    apply (get_val_rec w e P _ _ _ i); auto.
    + unfold index_in_block. rewrite Ee, Esi. unfold i. lia.
    + lia.
    + lia.
Qed.
