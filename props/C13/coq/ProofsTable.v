(* C13 — Table.SelectEntries never drops an entry that holds a token carrying the hint. *)
From Coq Require Import List Bool Arith NArith ZArith Lia Sorting.Sorted.
Import ListNotations.
From C13 Require Import Model ProofsGlob ProofsKmp ProofsWild ProofsSearch.

Lemma sorted_app_lt (a b : list bytes) : StronglySorted lt_bytes (a ++ b) ->
  forall x y, In x a -> In y b -> lt_bytes x y.
Proof.
  induction a as [|v a IH]; intros HS x y Hx Hy; [contradiction|].
  simpl in HS. inversion HS as [|? ? HS' HF]; subst. destruct Hx as [<-|Hx].
  - rewrite Forall_forall in HF. apply HF. apply in_or_app. now right.
  - now apply IH.
Qed.

Lemma sorted_app_l (a b : list bytes) : StronglySorted lt_bytes (a ++ b) -> StronglySorted lt_bytes a.
Proof.
  induction a as [|v a IH]; intros HS; [constructor|].
  simpl in HS. inversion HS as [|? ? HS' HF]; subst. constructor; [now apply IH|].
  rewrite Forall_forall in *. intros x Hx. apply HF. apply in_or_app. now left.
Qed.

Lemma sorted_app_r (a b : list bytes) : StronglySorted lt_bytes (a ++ b) -> StronglySorted lt_bytes b.
Proof.
  induction a as [|v a IH]; intros HS; [exact HS|].
  simpl in HS. inversion HS; subst. now apply IH.
Qed.

Lemma sorted_last_max (e : list bytes) : StronglySorted lt_bytes e ->
  forall x, In x e -> bleb x (last e []) = true.
Proof.
  induction 1 as [|v e HS IH HF]; intros x Hx; [contradiction|].
  destruct e as [|w e].
  - destruct Hx as [<-|[]]. apply bleb_refl.
  - change (last (v :: w :: e) []) with (last (w :: e) []).
    destruct Hx as [<-|Hx]; [|now apply IH].
    apply bltb_le. rewrite Forall_forall in HF. apply HF.
    clear. revert w. induction e as [|u e IH]; intros w; [now left|]. right. apply IH.
Qed.

Lemma sorted_hd_min (e : list bytes) : StronglySorted lt_bytes e ->
  forall x, In x e -> bleb (hd [] e) x = true.
Proof.
  intros HS x Hx. destruct e as [|v e]; [contradiction|]. simpl.
  destruct Hx as [<-|Hx]; [apply bleb_refl|].
  inversion HS as [|? ? _ HF]; subst. rewrite Forall_forall in HF. apply bltb_le. now apply HF.
Qed.

Lemma last_in (e : list bytes) : e <> [] -> In (last e []) e.
Proof.
  induction e as [|v e IH]; intros H; [congruence|].
  destruct e as [|w e]; [now left|]. right. apply IH. discriminate.
Qed.

Lemma cross_sorted (entries : list (list bytes)) : StronglySorted lt_bytes (concat entries) ->
  forall i j x y, i < j -> j < length entries ->
    In x (nth i entries []) -> In y (nth j entries []) -> lt_bytes x y.
Proof.
  induction entries as [|e es IH]; intros HS i j x y Hij Hj Hx Hy; simpl in Hj; [lia|].
  simpl in HS. destruct j as [|j]; [lia|]. destruct i as [|i]; simpl in *.
  - apply (sorted_app_lt e (concat es) HS); auto.
    apply in_concat. exists (nth j es []). split; [apply nth_In; lia | exact Hy].
  - apply (IH (sorted_app_r _ _ HS) i j); auto; lia.
Qed.

Lemma entry_sorted (entries : list (list bytes)) : StronglySorted lt_bytes (concat entries) ->
  forall i, i < length entries -> StronglySorted lt_bytes (nth i entries []).
Proof.
  induction entries as [|e es IH]; intros HS i Hi; simpl in Hi; [lia|].
  simpl in HS. destruct i as [|i]; simpl.
  - now apply sorted_app_l in HS.
  - apply IH; [now apply sorted_app_r in HS | lia].
Qed.

Ltac blia := unfold bytes in *; lia.

Theorem select_entries_complete entries hint :
  entries <> [] -> Forall (fun e => e <> []) entries -> StronglySorted lt_bytes (concat entries) ->
  exists l r, select_entries (hd [] (hd [] entries)) (map (fun e => last e []) entries) hint = Some (l, r) /\
    (0 <= l)%Z /\ (r <= Z.of_nat (length entries))%Z /\
    forall i t, i < length entries -> In t (nth i entries []) -> (exists x, t = hint ++ x) ->
      (l <= Z.of_nat i < r)%Z.
Proof.
  intros Hne Hall HS. unfold select_entries. rewrite map_length. unfold bytes in *.
  set (n := Z.of_nat (length entries)).
  destruct hint as [|h0 hint'] eqn:Eh.
  { exists 0%Z, n. split; [reflexivity|]. split; [blia|]. split; [blia|]. intros. unfold n. blia. }
  rewrite <- Eh. set (hl := length hint).
  set (mv := fun i : Z => nth (Z.to_nat i) (map (fun e => last e []) entries) []).
  assert (Hmv : forall i, mv (Z.of_nat i) = last (nth i entries []) []).
  { intros i. unfold mv. rewrite Nat2Z.id.
    exact (map_nth (fun e : list bytes => last e []) entries [] i). }
  assert (Hnth : forall i, i < length entries -> nth i entries [] <> []).
  { intros i Hi. rewrite Forall_forall in Hall. apply Hall. now apply nth_In. }
  assert (Hmax : forall i t, i < length entries -> In t (nth i entries []) -> bleb t (mv (Z.of_nat i)) = true).
  { intros i t Hi Ht. rewrite Hmv. apply sorted_last_max; auto. now apply entry_sorted. }
  assert (Hmono : forall a b, (0 <= a <= b)%Z -> (b < n)%Z -> bleb (cut (mv a) hl) (cut (mv b) hl) = true).
  { intros a b Hab Hb. apply cut_mono. destruct (Z.eq_dec a b) as [->|Nab]; [apply bleb_refl|].
    apply bltb_le. replace a with (Z.of_nat (Z.to_nat a)) by blia. replace b with (Z.of_nat (Z.to_nat b)) by blia.
    rewrite !Hmv. apply (cross_sorted entries HS (Z.to_nat a) (Z.to_nat b)); try (unfold n in *; blia);
      apply last_in; apply Hnth; unfold n in *; blia. }
  assert (Hcut : forall t, (exists x, t = hint ++ x) -> cut t hl = hint).
  { intros t Ht. apply cut_prefix. exact Ht. }
  assert (Ln : (1 <= n)%Z). { unfold n. destruct entries; [congruence | simpl; blia]. }
  destruct (bltb hint (cut (hd [] (hd [] entries)) hl)) eqn:Emin.
  { exists 0%Z, 0%Z. split; [reflexivity|]. split; [blia|]. split; [blia|].
    intros i t Hi Ht Hp. exfalso. apply Hcut in Hp.
    assert (Hle : bleb (hd [] (hd [] entries)) t = true).
    { destruct i as [|i].
      - destruct entries as [|e es]; [congruence|]. simpl in *. apply sorted_hd_min; auto.
        now apply sorted_app_l in HS.
      - apply bltb_le. apply (cross_sorted entries HS 0 (S i)); auto; try blia.
        destruct entries as [|e es]; [congruence|]. simpl. destruct e; [|now left].
        exfalso. apply (Hnth 0); simpl; [blia | reflexivity]. }
    apply (cut_mono hl) in Hle. rewrite Hp in Hle.
    pose proof (blt_le_trans _ _ _ Emin Hle) as X. rewrite bltb_irrefl in X. discriminate. }
  unfold sort_search. fold n.
  match goal with |- context [bsearch ?fu ?f 0%Z (n - 1)%Z] => destruct (bsearch_spec fu f 0 (n - 1)) as (r0 & -> & Br & Lo & Hi) end; try blia.
  { intros a b Hab Hb Ha. eapply blt_le_trans; [exact Ha|]. apply (Hmono a b); blia. }
  match goal with |- context [bsearch ?fu ?f 0%Z (1 + r0)%Z] => destruct (bsearch_spec fu f 0 (1 + r0)) as (l & -> & Bl & Lo2 & Hi2) end; try blia.
  { intros a b Hab Hb Ha. eapply bleb_trans; [exact Ha|]. apply (Hmono a b); blia. }
  exists l, (1 + r0)%Z. split; [reflexivity|]. split; [blia|]. split; [blia|].
  intros i t Hi' Ht Hp. apply Hcut in Hp. split.
  - destruct (Z.ltb_spec (Z.of_nat i) l) as [L|L]; [exfalso|blia].
    specialize (Lo2 (Z.of_nat i) ltac:(blia)). simpl in Lo2.
    pose proof (Hmax i t Hi' Ht) as X. apply (cut_mono hl) in X. rewrite Hp in X.
    unfold mv in X. congruence.
  - destruct (Z.ltb_spec (Z.of_nat i) (1 + r0)) as [L|L]; [blia|exfalso].
    assert (Lr : (r0 < n - 1)%Z) by (unfold n; blia).
    specialize (Hi r0 ltac:(blia)). simpl in Hi.
    assert (X : lt_bytes (mv r0) t).
    { replace r0 with (Z.of_nat (Z.to_nat r0)) by blia. rewrite Hmv.
      apply (cross_sorted entries HS (Z.to_nat r0) i); auto; try blia.
      apply last_in, Hnth. blia. }
    apply bltb_le in X. apply (cut_mono hl) in X. rewrite Hp in X.
    fold (mv r0) in Hi.
    pose proof (blt_le_trans _ _ _ Hi X) as Y. rewrite bltb_irrefl in Y. discriminate.
Qed.
