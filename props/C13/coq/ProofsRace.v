(* C13 — a search against concurrent Appends (two-step publication, two snapshot reads) and token
   table reloads through one TableLoader. *)
From Coq Require Import List Bool Arith NArith ZArith Lia ZifyN ZifyNat.
Import ListNotations.
From C13 Require Import Model ModelBlock ProofsSearch ProofsActive.

Definition vlen (st : cstate) : Z := Z.of_nat (length (tl_vals (c_tl st))).

(* every published or pending TID is covered by tidToVal *)
Definition CInv (st : cstate) : Prop :=
  (forall f id, In id (aget [] f (tl_fields (c_tl st))) -> (0 <= id < vlen st)%Z) /\
  Forall (fun p => (0 <= fst p)%Z /\ (fst p + Z.of_nat (length (snd p)) <= vlen st)%Z) (c_pending st).

Definition c_init : cstate := {| c_tl := tl_empty; c_pending := [] |}.

Lemma cinv_init : CInv c_init.
Proof. split; [intros f id []|constructor]. Qed.

Lemma forall_remove_nth {A} (P : A -> Prop) : forall k l, Forall P l -> Forall P (remove_nth k l).
Proof.
  induction k; intros l H; destruct l; simpl; auto; inversion H; subst; auto.
Qed.

Lemma cstep_inv hash st e : CInv st ->
  CInv (cstep hash st e) /\ exists extra, tl_vals (c_tl (cstep hash st e)) = tl_vals (c_tl st) ++ extra.
Proof.
  intros [I1 I2]. destruct e as [arrival items|k]; cbn [cstep].
  - set (news := flat_map _ arrival). split; [|eexists; reflexivity]. split.
    + intros f id H. cbn in H. specialize (I1 f id H). unfold vlen in *. cbn.
      rewrite app_length. lia.
    + cbn. apply Forall_app. split.
      * revert I2. apply Forall_impl. intros p [A B]. split; auto. unfold vlen in *. cbn.
        rewrite app_length. lia.
      * constructor; [|constructor]. cbn. unfold vlen. cbn. rewrite app_length, map_length. lia.
  - destruct (nth_error (c_pending st) k) as [[tid news]|] eqn:En.
    2:{ split; [split; auto|]. exists []. now rewrite app_nil_r. }
    split; [|exists []; cbn; now rewrite app_nil_r].
    pose proof (nth_error_In _ _ En) as Hin. rewrite Forall_forall in I2.
    destruct (I2 _ Hin) as [A B]. cbn in A, B.
    split.
    + intros f id H. cbn in H. rewrite fill_fields_aget in H. apply in_app_or in H as [H|H].
      * exact (I1 f id H).
      * apply ftids_range in H. unfold vlen in *. cbn. lia.
    + cbn. apply forall_remove_nth. apply Forall_forall. exact I2.
Qed.

Lemma crun_inv hash : forall evs st, CInv st ->
  CInv (crun hash st evs) /\ exists extra, tl_vals (c_tl (crun hash st evs)) = tl_vals (c_tl st) ++ extra.
Proof.
  induction evs as [|e evs IH]; intros st I.
  - simpl. split; auto. exists []. now rewrite app_nil_r.
  - change (crun hash st (e :: evs)) with (crun hash (cstep hash st e) evs).
    destruct (cstep_inv hash st e I) as [I' (x1 & E1)].
    destruct (IH _ I') as [I'' (x2 & E2)]. split; auto.
    exists (x1 ++ x2). rewrite E2, E1. now rewrite app_assoc.
Qed.

(* Append is its two published steps, one after the other *)
Lemma append_is_two_steps hash arrival t items :
  c_tl (cstep hash (cstep hash {| c_tl := t; c_pending := [] |} (WCreate arrival items)) (WFill 0))
  = tl_append hash arrival t items.
Proof. reflexivity. Qed.

Lemma snap_dict_spec vals : forall tids, (forall id, In id tids -> (0 <= id < Z.of_nat (length vals))%Z) ->
  snap_dict tids vals = Some (map (fun id => nth (Z.to_nat id) vals []) tids).
Proof.
  induction tids as [|id tids IH]; intros H; [reflexivity|].
  cbn [snap_dict map]. specialize (IH (fun x Hx => H x (or_intror Hx))).
  unfold snap_dict in IH. rewrite IH.
  destruct (H id (or_introl eq_refl)). destruct (Z.ltb_spec id 0); [lia|].
  rewrite (nth_error_nth' vals []) by lia. reflexivity.
Qed.

(* C13_active_snapshot_consistent *)
Theorem snapshot_consistent parse
  (PB : forall s k, parse s = Some k -> (- maxkey <= k <= maxkey)%Z) hash pre mid f :
  let st1 := crun hash c_init pre in          (* when the TID list is read *)
  let st2 := crun hash st1 mid in             (* when the value slice is read *)
  let tids := aget [] f (tl_fields (c_tl st1)) in
  let vals := tl_vals (c_tl st2) in
  let dict1 := ap_dict (c_tl st1) f in        (* the field's tokens published when the TID list was read *)
  (forall id, In id tids -> (0 <= id < Z.of_nat (length vals))%Z) /\
  snap_dict tids vals = Some dict1 /\
  (forall i, (1 <= i <= Z.of_nat (length tids))%Z -> snap_get tids vals i = Some (tok 1 dict1 i)) /\
  (forall q, wfq q -> search parse false 1 dict1 q = Some (spec_scan (spec_match parse q) 1 dict1)).
Proof.
  cbv zeta.
  destruct (crun_inv hash pre c_init cinv_init) as [I1 _].
  set (st1 := crun hash c_init pre) in *.
  destruct (crun_inv hash mid st1 I1) as [_ (extra & E)].
  set (st2 := crun hash st1 mid) in *.
  assert (R : forall id, In id (aget [] f (tl_fields (c_tl st1))) ->
                         (0 <= id < Z.of_nat (length (tl_vals (c_tl st1))))%Z).
  { intros id H. exact (proj1 I1 f id H). }
  assert (R2 : forall id, In id (aget [] f (tl_fields (c_tl st1))) ->
                          (0 <= id < Z.of_nat (length (tl_vals (c_tl st2))))%Z).
  { intros id H. specialize (R id H). rewrite E, app_length. lia. }
  assert (D : snap_dict (aget [] f (tl_fields (c_tl st1))) (tl_vals (c_tl st2)) = Some (ap_dict (c_tl st1) f)).
  { rewrite snap_dict_spec by exact R2. f_equal. unfold ap_dict. apply map_ext_in.
    intros id H. specialize (R id H). rewrite E. apply app_nth1. lia. }
  split; [exact R2|]. split; [exact D|]. split.
  - intros i Hi. unfold snap_get. destruct (Z.ltb_spec i 1); [lia|].
    set (tids := aget [] f (tl_fields (c_tl st1))) in *.
    rewrite (nth_error_nth' tids 0%Z) by lia.
    assert (Hin : In (nth (Z.to_nat (i - 1)) tids 0%Z) tids) by (apply nth_In; lia).
    pose proof (R _ Hin) as B1. pose proof (R2 _ Hin) as B2.
    destruct (Z.ltb_spec (nth (Z.to_nat (i - 1)) tids 0%Z) 0); [lia|].
    rewrite (nth_error_nth' (tl_vals (c_tl st2)) []) by lia. f_equal.
    unfold tok, ap_dict. fold tids.
    set (g := fun id : Z => nth (Z.to_nat id) (tl_vals (c_tl st1)) []).
    rewrite (nth_indep (map g tids) [] (g 0%Z)) by (rewrite map_length; lia).
    rewrite map_nth. unfold g. rewrite E. apply app_nth1. lia.
  - intros q W. now apply search_unordered.
Qed.

(* ------------------------------------------------------------------ TableLoader *)

(* C13_table_reload_idempotent: load() does not depend on the cursor an earlier load left, so every
   lookup - whatever was evicted before it - sees the table a fresh loader's first load returns *)
Theorem table_reload_idempotent lens :
  (forall c1 c2, tl_load lens c1 = tl_load lens c2) /\
  forall t, tl_load lens 0 = Some t ->
    forall evict cursor cached, (cached = None \/ cached = Some t) ->
      Forall (fun r => r = Some t) (tl_lookups lens cursor cached evict).
Proof.
  split; [reflexivity|]. intros [start stop] E.
  induction evict as [|ev evict IH]; intros cursor cached Hc; [constructor|].
  cbn [tl_lookups].
  assert (El : tl_load lens cursor = Some (start, stop)) by exact E.
  destruct (if ev then None else cached) as [t|] eqn:Et.
  - assert (t = (start, stop)).
    { destruct ev; [discriminate|]. destruct Hc as [->| ->]; [discriminate|]. now inversion Et. }
    subst t. constructor; auto.
  - rewrite El. constructor; auto.
Qed.
