(* C13 — the end-to-end byte-level statement: generator -> writeTokensBlocks -> per-field slicing by
   SelectEntries -> Provider over the packed blocks -> narrowed Search = scan of the field's tokens. *)
From Coq Require Import List Bool Arith NArith ZArith Lia ZifyN ZifyNat Sorting.Sorted.
Import ListNotations.
From C13 Require Import Model ModelBlock ProofsSearch ProofsTable ProofsSealed ProofsBlock ProofsProvider
     ProofsWriter ProofsActive.

Lemma entry_at_cons e es i : (1 <= i)%Z -> entry_at (e :: es) i = entry_at es (i - 1).
Proof.
  intros H. unfold entry_at. replace (Z.to_nat i) with (S (Z.to_nat (i - 1))) by lia. reflexivity.
Qed.

Lemma zlen_app {A} (a b : list A) : zlen (a ++ b) = (zlen a + zlen b)%Z.
Proof. unfold zlen. rewrite app_length. lia. Qed.
Lemma zlen_cons {A} (x : A) l : zlen (x :: l) = (1 + zlen l)%Z.
Proof. unfold zlen. simpl length. lia. Qed.

Section Aligned.
  Variables (w : nat) (disk : Z -> bytes).

  (* table entries es describe the chunks cs of one field, TIDs from s, and the blocks serve them *)
  Inductive aligned : Z -> list tentry -> list (list bytes) -> Prop :=
  | al_nil s : aligned s [] []
  | al_cons s e c es cs :
      c <> [] -> e_start_tid e = s -> e_val_count e = zlen c -> e_max_val e = last c [] ->
      (exists offs, unpack w (disk (e_block_index e)) = UOk offs /\
         forall j, j < length c ->
           get_val w e (disk (e_block_index e)) offs (s + Z.of_nat j) = Some (nth j c [])) ->
      aligned (s + zlen c) es cs -> aligned s (e :: es) (c :: cs).

  Lemma al_len s es cs : aligned s es cs -> length es = length cs.
  Proof. induction 1; simpl; auto. Qed.

  Lemma al_max s es cs : aligned s es cs -> map e_max_val es = map (fun c => last c []) cs.
  Proof. induction 1; simpl; auto. now f_equal. Qed.

  Lemma al_skipn : forall l s es cs, aligned s es cs ->
    aligned (s + zlen (concat (firstn l cs))) (skipn l es) (skipn l cs).
  Proof.
    induction l as [|l IH]; intros s es cs H.
    - simpl. replace (s + zlen (@nil bytes))%Z with s by (unfold zlen; simpl; lia). exact H.
    - destruct H as [s|s e c es cs H1 H2 H3 H4 H5 H6]; [simpl; constructor|].
      simpl. rewrite zlen_app, Z.add_assoc. now apply IH.
  Qed.

  Lemma al_firstn : forall k s es cs, aligned s es cs -> aligned s (firstn k es) (firstn k cs).
  Proof.
    induction k as [|k IH]; intros s es cs H; [simpl; constructor|].
    destruct H as [s|s e c es cs H1 H2 H3 H4 H5 H6]; simpl; [constructor|].
    constructor; auto.
  Qed.

  Lemma al_props : forall s es cs, aligned s es cs ->
    forall i, (0 <= i < zlen es)%Z ->
      let e := entry_at es i in
      (s <= e_start_tid e)%Z /\ (get_last_tid e < s + zlen (concat cs))%Z /\ (1 <= e_val_count e)%Z /\
      ((i + 1 < zlen es)%Z -> e_start_tid (entry_at es (i + 1)) = (get_last_tid e + 1)%Z) /\
      exists offs, unpack w (disk (e_block_index e)) = UOk offs /\
        forall tid, in_entry e tid ->
          get_val w e (disk (e_block_index e)) offs tid = Some (tok s (concat cs) tid).
  Proof.
    induction 1 as [s|s e c es cs Hc Hs Hv Hm Hg Hal IH]; intros i Hi; cbv zeta.
    - exfalso. unfold zlen in Hi. simpl in Hi. lia.
    - assert (Lc : (1 <= zlen c)%Z) by (unfold zlen; destruct c; [congruence|simpl; lia]).
      assert (Lcc : (0 <= zlen (concat cs))%Z) by (unfold zlen; lia).
      rewrite zlen_cons in Hi. simpl concat. rewrite zlen_app. unfold bytes in *.
      destruct (Z.eq_dec i 0) as [->|NZ].
      + change (entry_at (e :: es) 0) with e. unfold get_last_tid. rewrite Hs, Hv.
        split; [lia|]. split; [lia|]. split; [lia|]. split.
        * intros H1. rewrite entry_at_cons by lia. change (0 + 1 - 1)%Z with 0%Z.
          destruct Hal as [s'|s' e' c' es' cs' _ Hs' _ _ _ _].
          { exfalso. unfold zlen in H1. simpl in H1. lia. }
          change (entry_at (e' :: es') 0) with e'. lia.
        * destruct Hg as (offs & Eu & Hg). exists offs. split; [exact Eu|].
          intros tid [T1 T2]. unfold get_last_tid in T2. rewrite Hs in T1. rewrite Hs, Hv in T2.
          specialize (Hg (Z.to_nat (tid - s)) ltac:(unfold zlen in *; lia)).
          replace (s + Z.of_nat (Z.to_nat (tid - s)))%Z with tid in Hg by lia.
          rewrite Hg. f_equal. unfold tok. rewrite app_nth1 by (unfold zlen in *; lia). reflexivity.
      + rewrite entry_at_cons by lia.
        destruct (IH (i - 1)%Z ltac:(lia)) as (A & B & C & D & offs & Eu & Hg2). cbv zeta in *.
        split; [lia|]. split; [lia|]. split; [exact C|]. split.
        * intros H1. rewrite entry_at_cons by lia. replace (i + 1 - 1)%Z with (i - 1 + 1)%Z by lia.
          apply D. rewrite zlen_cons in H1. lia.
        * exists offs. split; [exact Eu|]. intros tid Ht. rewrite (Hg2 tid Ht). f_equal.
          destruct Ht as [T1 _]. unfold tok. rewrite app_nth2 by (unfold zlen in *; lia).
          f_equal. unfold zlen in *. lia.
  Qed.

  Lemma al_last : forall s es cs, aligned s es cs -> es <> [] ->
    get_last_tid (entry_at es (zlen es - 1)) = (s + zlen (concat cs) - 1)%Z.
  Proof.
    induction 1 as [s|s e c es cs Hc Hs Hv Hm Hg Hal IH]; intros Hne; [congruence|].
    rewrite zlen_cons. simpl concat. rewrite zlen_app.
    destruct es as [|e2 es].
    - assert (Ecs : cs = []) by (inversion Hal; reflexivity). rewrite Ecs. change (zlen (@nil tentry)) with 0%Z. change (1 + 0 - 1)%Z with 0%Z.
      change (entry_at [e] 0) with e. unfold get_last_tid. rewrite Hs, Hv. unfold zlen, bytes in *. simpl length. lia.
    - rewrite entry_at_cons by (rewrite zlen_cons; unfold zlen; lia).
      replace (1 + zlen (e2 :: es) - 1 - 1)%Z with (zlen (e2 :: es) - 1)%Z by lia.
      rewrite IH by discriminate. unfold bytes in *. lia.
  Qed.

  Lemma al_cover_serves s es cs : aligned s es cs -> es <> [] ->
    cover es /\ first_tid es = s /\ last_tid_p es = last_tid s (concat cs) /\
    serves w disk es (tok s (concat cs)).
  Proof.
    intros H Hne. split; [|split; [|split]].
    - split; [exact Hne|]. intros i Hi. destruct (al_props s es cs H i Hi) as (_ & _ & C & D & _). auto.
    - destruct H; [congruence|]. assumption.
    - unfold last_tid_p. fold (zlen es). rewrite (al_last s es cs H Hne). unfold last_tid, zlen. lia.
    - intros i Hi. destruct (al_props s es cs H i Hi) as (_ & _ & _ & _ & G). exact G.
  Qed.
End Aligned.

(* ------------------------------------------------------------------ from the writer's entries to [aligned] *)

Lemma al_of_writer w (Hw : 1 <= w) b0 done :
  Forall (fun P => (blen P < 256 ^ N.of_nat w)%N) done ->
  forall tb bf,
    Forall2 (fun fe b => entry_rel fe b /\ placed_final w b0 done (snd fe) (d_tokens b)) tb bf ->
    forall s, tids_from s bf -> aligned w (disk_of b0 done) s (map snd tb) (map d_tokens bf).
Proof.
  intros HP tb bf F. induction F as [|fe b tb bf [R [K L]] F IH]; intros s T; simpl; [constructor|].
  destruct T as (Ts & Tn & Tr). destruct R as (Rf & Rt & Rc & Rm). cbv zeta in K, L.
  constructor; auto.
  - congruence.
  - assert (EP : disk_of b0 done (e_block_index (snd fe)) =
                 nth (Z.to_nat (e_block_index (snd fe) - b0)) done []).
    { unfold disk_of. destruct (Z.ltb_spec (e_block_index (snd fe)) b0); [lia|reflexivity]. }
    rewrite EP. destruct (located_block w Hw _ _ _ L) as (offs & Eu & Hg).
    { rewrite Forall_forall in HP. apply HP. apply nth_In. unfold zlen in K. lia. }
    exists offs. split; [exact Eu|]. intros j Hj.
    replace s with (e_start_tid (snd fe)) by congruence. now apply Hg.
Qed.

(* ------------------------------------------------------------------ the generator, per field *)

Definition fname (x : bytes * N * list bytes) : bytes := fst (fst x).

Lemma Forall2_filter {A B} (R : A -> B -> Prop) p q : (forall a b, R a b -> p a = q b) ->
  forall la lb, Forall2 R la lb -> Forall2 R (filter p la) (filter q lb).
Proof.
  intros H. induction 1 as [|a b la lb Rab F IH]; simpl; [constructor|].
  rewrite (H _ _ Rab). destruct (q b); auto.
Qed.

Lemma filter_none {A} p (l : list A) : Forall (fun x => p x = false) l -> filter p l = [].
Proof. induction 1; simpl; auto. now rewrite H. Qed.
Lemma filter_all {A} p (l : list A) : Forall (fun x => p x = true) l -> filter p l = l.
Proof. induction 1; simpl; auto. rewrite H. now f_equal. Qed.

Lemma gen_blocks_fields reg : forall fields cur bl, gen_blocks reg fields cur = Some bl ->
  Forall (fun b => In (d_field b) (map fname fields)) bl.
Proof.
  induction fields as [|[[f total] toks] fields IH]; intros cur bl E.
  - simpl in E. inversion E. constructor.
  - cbn [gen_blocks] in E.
    destruct (chunks (length toks) (block_size reg total (length toks)) toks) as [cs|] eqn:Ec; [|discriminate].
    destruct (chunks_spec (block_size reg total (length toks)) (block_size_pos _ _ _) (length toks) toks (le_n _))
      as (cs' & Ec' & _ & Hn). rewrite Ec in Ec'. inversion Ec'; subst cs'.
    destruct (gen_field f total cur true cs) as [bl1 cur1] eqn:Eg.
    destruct (gen_field_spec _ _ _ _ _ _ _ Eg Hn) as (_ & _ & _ & Fd).
    destruct (gen_blocks reg fields cur1) as [bl2|] eqn:E2; [|discriminate]. inversion E; subst bl.
    apply Forall_app. split.
    + revert Fd. apply Forall_impl. intros b Hb. left. symmetry. exact Hb.
    + specialize (IH _ _ E2). revert IH. apply Forall_impl. intros b Hb. right. exact Hb.
Qed.

Lemma gen_blocks_split reg : forall pre f total toks post cur,
  exists bp bf bq cs, gen_blocks reg (pre ++ (f, total, toks) :: post) cur = Some (bp ++ bf ++ bq) /\
    Forall (fun b => In (d_field b) (map fname pre)) bp /\ Forall (fun b => d_field b = f) bf /\
    Forall (fun b => In (d_field b) (map fname post)) bq /\
    map d_tokens bf = cs /\ concat cs = toks /\ Forall (fun c => c <> []) cs /\
    tids_from (cur + zlen (field_tokens pre)) bf.
Proof.
  induction pre as [|[[f0 t0] k0] pre IH]; intros f total toks post cur.
  - cbn [app gen_blocks].
    destruct (chunks_spec (block_size reg total (length toks)) (block_size_pos _ _ _) (length toks) toks (le_n _))
      as (cs & Ec & Ecc & Hn). rewrite Ec.
    destruct (gen_field f total cur true cs) as [bl1 cur1] eqn:Eg.
    destruct (gen_field_spec _ _ _ _ _ _ _ Eg Hn) as (M & T & _ & Fd).
    destruct (gen_blocks_spec reg post cur1) as (bl2 & E2 & _ & _). rewrite E2.
    exists [], bl1, bl2, cs. split; [reflexivity|]. split; [constructor|]. split; [exact Fd|].
    split; [exact (gen_blocks_fields reg post cur1 bl2 E2)|]. split; [exact M|]. split; [exact Ecc|].
    split; [exact Hn|]. unfold field_tokens, zlen. simpl. replace (cur + 0)%Z with cur by lia. exact T.
  - cbn [app gen_blocks].
    destruct (chunks_spec (block_size reg t0 (length k0)) (block_size_pos _ _ _) (length k0) k0 (le_n _))
      as (cs0 & Ec & Ecc & Hn). rewrite Ec.
    destruct (gen_field f0 t0 cur true cs0) as [bl0 cur0] eqn:Eg.
    destruct (gen_field_spec _ _ _ _ _ _ _ Eg Hn) as (_ & _ & C & Fd).
    destruct (IH f total toks post cur0) as (bp & bf & bq & cs & E & Fp & Ff & Fq & M & Ecs & Hcs & T).
    rewrite E. exists (bl0 ++ bp), bf, bq, cs. split; [now rewrite <- app_assoc|].
    split.
    { apply Forall_app. split.
      - revert Fd. apply Forall_impl. intros b Hb. left. symmetry. exact Hb.
      - revert Fp. apply Forall_impl. intros b Hb. right. exact Hb. }
    split; [exact Ff|]. split; [exact Fq|]. split; [exact M|]. split; [exact Ecs|]. split; [exact Hcs|].
    replace (cur + zlen (field_tokens (((f0, t0), k0) :: pre)))%Z with (cur0 + zlen (field_tokens pre))%Z; [exact T|].
    rewrite C, Ecc. unfold field_tokens. simpl. rewrite zlen_app. unfold bytes. lia.
Qed.

(* ------------------------------------------------------------------ MinVal of a field's first entry *)

Definition first_min (tbl : list (bytes * tentry)) (f : bytes) : option bytes :=
  option_map (fun p => e_min_val (snd p)) (find (fun p => bytes_eqb (fst p) f) tbl).
Definition first_tok (bs : list dblock) (f : bytes) : option bytes :=
  option_map (fun b => hd [] (d_tokens b)) (find (fun b => bytes_eqb (d_field b) f) bs).

Lemma find_app {A} p (a b : list A) :
  find p (a ++ b) = match find p a with Some x => Some x | None => find p b end.
Proof. induction a as [|x a IH]; simpl; auto. destruct (p x); auto. Qed.

Lemma has_field_find tbl f :
  has_field tbl f = match find (fun p => bytes_eqb (fst p) f) tbl with Some _ => true | None => false end.
Proof. unfold has_field. induction tbl as [|x tbl IH]; simpl; auto. destruct (bytes_eqb (fst x) f); auto. Qed.

Lemma flush0_table st : ws_table (ws_reset (ws_flush st)) = ws_table st.
Proof. unfold ws_flush. destruct (ws_cur st); reflexivity. Qed.
Lemma flush_table st : ws_table (ws_flush st) = ws_table st.
Proof. unfold ws_flush. destruct (ws_cur st); reflexivity. Qed.

Lemma ws_push_table w reg b0 st b : exists e,
  ws_table (ws_push w reg b0 st b) = ws_table st ++ [(d_field b, e)] /\
  e_min_val e = if has_field (ws_table st) (d_field b) then [] else hd [] (d_tokens b).
Proof.
  unfold ws_push.
  set (st1 := if d_start b && (reg <? d_total b)%N then ws_reset (ws_flush st) else st).
  assert (E1 : ws_table st1 = ws_table st).
  { unfold st1. destruct (d_start b && (reg <? d_total b)%N); [apply flush0_table|reflexivity]. }
  clearbody st1.
  set (e := if has_field (ws_table st1) (d_field b) then _ else _).
  exists e. split.
  - destruct (reg <? blen (ws_cur st1 ++ pack_tokens w (d_tokens b)))%N; [rewrite flush0_table|]; cbn; now rewrite E1.
  - unfold e. rewrite E1. destruct (has_field (ws_table st) (d_field b)); reflexivity.
Qed.

Definition MInv (st : wstate) (bs : list dblock) : Prop := forall f, first_min (ws_table st) f = first_tok bs f.

Lemma minv_push w reg b0 st bs b : MInv st bs -> MInv (ws_push w reg b0 st b) (bs ++ [b]).
Proof.
  intros I f. destruct (ws_push_table w reg b0 st b) as (e & Et & Em). specialize (I f).
  unfold first_min, first_tok in *. rewrite Et, !find_app.
  destruct (find (fun p => bytes_eqb (fst p) f) (ws_table st)) as [p|] eqn:Ef;
    destruct (find (fun b => bytes_eqb (d_field b) f) bs) as [b'|] eqn:Eb; simpl in I; try discriminate.
  - exact I.
  - simpl. destruct (bytes_eqb_spec (d_field b) f) as [E|NE]; [|reflexivity]. simpl. f_equal.
    rewrite Em, has_field_find, E, Ef. reflexivity.
Qed.

Lemma minv_fold w reg b0 : forall more st bs, MInv st bs -> MInv (fold_left (ws_push w reg b0) more st) (bs ++ more).
Proof.
  induction more as [|b more IH]; intros st bs I; simpl; [now rewrite app_nil_r|].
  replace (bs ++ b :: more) with ((bs ++ [b]) ++ more) by now rewrite <- app_assoc.
  apply IH. now apply minv_push.
Qed.

Lemma minv_write w reg b0 blocks : MInv (write_blocks w reg b0 blocks) blocks.
Proof.
  intros f. unfold write_blocks, first_min. rewrite flush_table.
  exact (minv_fold w reg b0 blocks ws_init [] (fun _ => eq_refl) f).
Qed.

Lemma filter_find {A} p (l : list A) x r : filter p l = x :: r -> find p l = Some x.
Proof.
  induction l as [|y l IH]; simpl; [discriminate|]. destruct (p y); [now inversion 1|exact IH].
Qed.

(* ------------------------------------------------------------------ C13_sealed_equals_scan_bytes *)

Theorem sealed_equals_scan_bytes parse
  (PB : forall s k, parse s = Some k -> (- maxkey <= k <= maxkey)%Z)
  w (Hw : 1 <= w) reg b0 pre f total toks post q :
  let fields := pre ++ (f, total, toks) :: post in
  wfq q ->
  ~ In f (map fname pre) -> ~ In f (map fname post) ->
  Forall (fun x => toks_ok w (snd x)) fields ->
  StronglySorted lt_bytes toks ->
  (forall blocks, gen_blocks reg fields 1 = Some blocks ->
     Forall (fun P => (blen P < 256 ^ N.of_nat w)%N) (ws_done (write_blocks w reg b0 blocks))) ->
  sealed_search_bytes parse w reg b0 fields f q
  = Some (spec_scan (spec_match parse q) (1 + zlen (field_tokens pre)) toks).
Proof.
  intros fields W Np Nq HT HS HP.
  destruct (gen_blocks_split reg pre f total toks post 1)
    as (bp & bf & bq & cs & Eg & Fp & Ff & Fq & M & Ecs & Hcs & T).
  fold fields in Eg. unfold sealed_search_bytes. rewrite Eg.
  set (blocks := bp ++ bf ++ bq) in *.
  set (st := write_blocks w reg b0 blocks).
  specialize (HP blocks Eg). fold st in HP.
  assert (HB : Forall (fun b => toks_ok w (d_tokens b)) blocks).
  { destruct (gen_blocks_spec reg fields 1) as (bl & E' & Ec & _). rewrite Eg in E'. inversion E'; subst bl.
    apply Forall_forall. intros b Hb. apply Forall_forall. intros t Ht.
    assert (It : In t (field_tokens fields)).
    { rewrite <- Ec. apply in_concat. exists (d_tokens b). split; [now apply in_map|exact Ht]. }
    unfold field_tokens in It. apply in_concat in It as (T0 & HTin & HtT).
    apply in_map_iff in HTin as (x & <- & Hx).
    rewrite Forall_forall in HT. specialize (HT x Hx). unfold toks_ok in HT. rewrite Forall_forall in HT. auto. }
  pose proof (writer_spec w Hw reg b0 blocks HB) as WS. cbv zeta in WS. fold st in WS.
  unfold entries_of.
  set (pf := fun p : bytes * tentry => bytes_eqb (fst p) f).
  set (qf := fun b : dblock => bytes_eqb (d_field b) f).
  assert (WF := Forall2_filter _ pf qf (fun a b (R : entry_rel a b /\ _) =>
                  f_equal (fun x => bytes_eqb x f) (proj1 (proj1 R))) _ _ WS).
  assert (Eq : filter qf blocks = bf).
  { unfold blocks. rewrite !filter_app.
    rewrite (filter_none qf bp), (filter_all qf bf), (filter_none qf bq); [now rewrite app_nil_r| | |].
    - revert Fq. apply Forall_impl. intros b Hb. unfold qf. destruct (bytes_eqb_spec (d_field b) f); congruence.
    - revert Ff. apply Forall_impl. intros b Hb. unfold qf. rewrite Hb. destruct (bytes_eqb_spec f f); congruence.
    - revert Fp. apply Forall_impl. intros b Hb. unfold qf. destruct (bytes_eqb_spec (d_field b) f); congruence. }
  rewrite Eq in WF.
  set (tbf := filter pf (ws_table st)) in *.
  set (s := (1 + zlen (field_tokens pre))%Z) in *.
  assert (AL : aligned w (disk_of b0 (ws_done st)) s (map snd tbf) (map d_tokens bf)).
  { apply al_of_writer; auto. }
  rewrite M in AL. rewrite <- Ecs.
  destruct cs as [|c1 cs'].
  { inversion AL as [s0 E1 E2 E3|]. reflexivity. }
  destruct (map snd tbf) as [|e1 es'] eqn:Ees; [inversion AL|].
  (* MinVal of the first entry, MaxVals *)
  assert (Emin : e_min_val e1 = hd [] c1).
  { destruct tbf as [|p1 tr] eqn:Et; [discriminate|]. simpl in Ees. inversion Ees as [[E1 E2]].
    destruct bf as [|b1 br]; [discriminate|]. simpl in M. inversion M as [[M1 M2]].
    assert (F1 : find pf (ws_table st) = Some p1) by (apply (filter_find pf _ _ _ Et)).
    assert (F2 : find qf blocks = Some b1) by (apply (filter_find qf _ _ _ Eq)).
    pose proof (minv_write w reg b0 blocks f) as MW. fold st in MW. unfold first_min, first_tok in MW.
    change (fun p : bytes * tentry => bytes_eqb (fst p) f) with pf in MW.
    change (fun b : dblock => bytes_eqb (d_field b) f) with qf in MW.
    rewrite F1, F2 in MW. simpl in MW. inversion MW as [MW1]. first [exact MW1 | congruence]. }
  pose proof (al_max _ _ _ _ _ AL) as Emax.
  rewrite Emin, Emax.
  pose proof (sealed_equals_scan parse PB s (c1 :: cs') q W ltac:(discriminate) Hcs
                ltac:(rewrite Ecs; exact HS)) as SE.
  unfold sealed_search in SE. cbn [hd] in SE.
  destruct (select_entries (hd [] c1) (map (fun e => last e []) (c1 :: cs')) (hint_of q)) as [[l r]|] eqn:Es;
    [|exact SE].
  cbv zeta in SE.
  pose proof (al_firstn _ _ (Z.to_nat (r - l)) _ _ _ (al_skipn _ _ (Z.to_nat l) _ _ _ AL)) as AL2.
  destruct (firstn (Z.to_nat (r - l)) (skipn (Z.to_nat l) (c1 :: cs'))) as [|d ds] eqn:Esel.
  - apply al_len in AL2. destruct (firstn (Z.to_nat (r - l)) (skipn (Z.to_nat l) (e1 :: es'))); [exact SE|discriminate].
  - destruct (firstn (Z.to_nat (r - l)) (skipn (Z.to_nat l) (e1 :: es'))) as [|x xs] eqn:Ese.
    { apply al_len in AL2. discriminate. }
    destruct (al_cover_serves _ _ _ _ _ AL2 ltac:(discriminate)) as (C & Ef & El & S).
    rewrite (provider_dict_spec w _ _ _ _ C Ef El S), Ef. exact SE.
Qed.
