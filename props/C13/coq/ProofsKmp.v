(* placeholder, filled below *)
