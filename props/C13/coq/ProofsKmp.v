(* C13 — findSubstring (prefix function + matcher of pattern/substring.go) returns the end of the
   leftmost occurrence. *)
From Coq Require Import List Bool Arith NArith ZArith Lia.
Import ListNotations.
From C13 Require Import Model.

Lemma app_suffix_cmp {A} (u1 a u2 b : list A) :
  u1 ++ a = u2 ++ b -> length b <= length a -> exists w, a = w ++ b.
Proof.
  revert u2. induction u1 as [|x u1 IH]; intros u2 E L; simpl in E.
  - now exists u2.
  - destruct u2 as [|y u2]; simpl in E.
    + exfalso. apply (f_equal (@length A)) in E. simpl in E. rewrite app_length in E. lia.
    + inversion E. eapply IH; eauto.
Qed.

Lemma snoc_app {A} (d : list A) b r : (d ++ [b]) ++ r = d ++ b :: r.
Proof. now rewrite <- app_assoc. Qed.

Lemma firstn_snoc_len {A} (d : list A) b r : firstn (S (length d)) (d ++ b :: r) = d ++ [b].
Proof. induction d as [|x d IH]; simpl; [reflexivity|]. f_equal. exact IH. Qed.

Lemma firstn_S_nth (p : bytes) k : k < length p -> firstn (S k) p = firstn k p ++ [nth k p 0%N].
Proof.
  revert k. induction p as [|c p IH]; intros k L; simpl in L; [lia|].
  destruct k; simpl; [reflexivity|]. f_equal. apply IH. lia.
Qed.

Section Kmp.
  Variable p : bytes.

  (* the k-prefix of the pattern is a suffix of s *)
  Definition IsSuf (k : nat) (s : bytes) : Prop := k <= length p /\ exists u, s = u ++ firstn k p.
  (* k is the longest such *)
  Definition Lps (k : nat) (s : bytes) : Prop := IsSuf k s /\ forall k', IsSuf k' s -> k' <= k.
  (* the first n table entries are right: entry j = longest proper border of the (j+1)-prefix *)
  Definition TableOK (pf : list nat) (n : nat) : Prop :=
    forall j, j < n -> Lps (nth j pf 0) (firstn j (tl p)).

  Lemma IsSuf_len k s : IsSuf k s -> k <= length s.
  Proof.
    intros (L & u & ->). rewrite app_length, firstn_length_le by exact L. lia.
  Qed.

  Lemma IsSuf_0 s : IsSuf 0 s.
  Proof. split; [lia|]. exists s. simpl. now rewrite app_nil_r. Qed.

  Lemma firstn_tl cur : 1 <= cur -> cur <= length p ->
    firstn cur p = hd 0%N p :: firstn (cur - 1) (tl p).
  Proof.
    intros H1 H2. destruct p as [|c q]; simpl in *; [lia|].
    destruct cur; [lia|]. simpl. now rewrite Nat.sub_0_r.
  Qed.

  (* an m-border of the cur-prefix that is a suffix of s *)
  Lemma IsSuf_trans m cur s : 1 <= cur -> cur <= length p ->
    IsSuf m (firstn (cur - 1) (tl p)) -> IsSuf cur s -> IsSuf m s.
  Proof.
    intros H1 H2 (Lm & u' & E') (_ & u & ->). split; [exact Lm|].
    rewrite (firstn_tl cur H1 H2), E'.
    exists (u ++ hd 0%N p :: u'). now rewrite <- app_assoc.
  Qed.

  Lemma IsSuf_shorter k cur s : k < cur -> IsSuf k s -> IsSuf cur s ->
    IsSuf k (firstn (cur - 1) (tl p)).
  Proof.
    intros Lt (Lk & u2 & E2) (Lc & u1 & E1). split; [exact Lk|].
    rewrite E1 in E2. apply app_suffix_cmp in E2.
    2:{ rewrite !firstn_length_le by lia. lia. }
    destruct E2 as (w & E). rewrite (firstn_tl cur) in E by lia.
    destruct w as [|x w]; simpl in E.
    - exfalso. apply (f_equal (@length N)) in E. simpl in E.
      rewrite !firstn_length_le in E; try lia.
      destruct p; simpl in *; lia.
    - inversion E. now exists w.
  Qed.

  Lemma fallback_spec fuel : forall pf cur b s,
    cur < fuel -> cur < length p -> TableOK pf cur -> IsSuf cur s ->
    exists c, fallback fuel pf p cur b = Some c /\ c <= cur /\ IsSuf c s /\
              (c = 0 \/ nth c p 0%N = b) /\
              forall k, k <= cur -> IsSuf k s -> nth k p 0%N = b -> k <= c.
  Proof.
    induction fuel as [|fuel IH]; intros pf cur b s Hf Hp Ht Hs; [lia|].
    simpl. destruct (0 <? cur) eqn:Epos; simpl.
    2:{ apply Nat.ltb_ge in Epos. exists cur. split; [reflexivity|]. split; [lia|].
        split; [exact Hs|]. split; [left; lia|]. intros; assumption. }
    apply Nat.ltb_lt in Epos.
    destruct (N.eqb_spec b (nth cur p 0%N)) as [Eb|Nb]; simpl.
    { exists cur. split; [reflexivity|]. split; [lia|]. split; [exact Hs|].
      split; [right; now symmetry|]. intros; assumption. }
    set (m := nth (cur - 1) pf 0).
    assert (Hm : Lps m (firstn (cur - 1) (tl p))) by (apply Ht; lia).
    destruct Hm as (Hm1 & Hm2).
    assert (Lm : m <= cur - 1).
    { apply IsSuf_len in Hm1. rewrite firstn_length in Hm1. lia. }
    destruct (IH pf m b s) as (c & Ec & Lc & Sc & Dc & Mc); try lia.
    - intros j Hj. apply Ht. lia.
    - eapply IsSuf_trans; eauto; lia.
    - exists c. split; [exact Ec|]. split; [lia|]. split; [exact Sc|]. split; [exact Dc|].
      intros k Hk Sk Ek. apply Mc; auto.
      assert (k <> cur) by (intros ->; congruence).
      apply Hm2. apply IsSuf_shorter with (s := s); auto. lia.
  Qed.

  Lemma IsSuf_snoc k s b : IsSuf (S k) (s ++ [b]) <-> S k <= length p /\ IsSuf k s /\ nth k p 0%N = b.
  Proof.
    split.
    - intros (L & u & E). rewrite firstn_S_nth in E by lia.
      rewrite app_assoc in E. apply app_inj_tail in E as [E1 E2].
      split; [exact L|]. split; [|now symmetry]. split; [lia|]. now exists u.
    - intros (L & (_ & u & ->) & <-). split; [exact L|]. exists u.
      rewrite firstn_S_nth by lia. now rewrite app_assoc.
  Qed.

  Lemma kstep_spec pf cur b s :
    cur < length p -> TableOK pf cur -> Lps cur s ->
    exists c, kstep pf p cur b = Some c /\ Lps c (s ++ [b]).
  Proof.
    intros Hp Ht (Hs & Hmax). unfold kstep.
    destruct (fallback_spec (S cur) pf cur b s) as (c0 & E & Lc & Sc & Dc & Mc); auto.
    rewrite E. eexists. split; [reflexivity|].
    destruct (N.eqb_spec b (nth c0 p 0%N)) as [Eb|Nb].
    - split.
      + apply IsSuf_snoc. split; [lia|]. split; [exact Sc | now symmetry].
      + intros k' Hk'. destruct k' as [|k]; [lia|].
        apply IsSuf_snoc in Hk' as (L & Sk & Ek).
        specialize (Hmax k Sk). specialize (Mc k Hmax Sk Ek). lia.
    - assert (c0 = 0) by (destruct Dc; [assumption | congruence]). subst c0.
      split; [apply IsSuf_0|].
      intros k' Hk'. destruct k' as [|k]; [lia|]. exfalso.
      apply IsSuf_snoc in Hk' as (L & Sk & Ek).
      specialize (Hmax k Sk). specialize (Mc k Hmax Sk Ek).
      assert (k = 0) by lia. subst k. congruence.
  Qed.

  Lemma TableOK_weaken pf n m : m <= n -> TableOK pf n -> TableOK pf m.
  Proof. intros L H j Hj. apply H. lia. Qed.

  Lemma pref_loop_spec : forall rest done cur pf,
    tl p = done ++ rest -> length pf = S (length done) -> TableOK pf (S (length done)) ->
    cur = nth (length done) pf 0 ->
    exists pf', pref_loop p rest cur pf = Some pf' /\ TableOK pf' (length p).
  Proof.
    induction rest as [|b rest IH]; intros done cur pf Et Lp Ht Ec.
    - simpl. exists pf. split; [reflexivity|].
      rewrite app_nil_r in Et. destruct p as [|c q] eqn:Ep.
      + intros j Hj. simpl in Hj. lia.
      + simpl in Et. subst q. exact Ht.
    - simpl.
      assert (Lt : length (tl p) = length done + S (length rest)).
      { rewrite Et, app_length. reflexivity. }
      assert (Lpp : length p = S (length (tl p))).
      { destruct p; simpl in *; [lia | reflexivity]. }
      assert (Hcur : Lps cur done).
      { subst cur. specialize (Ht (length done) (Nat.lt_succ_diag_r _)).
        rewrite Et, firstn_app, Nat.sub_diag, firstn_all in Ht. simpl in Ht.
        now rewrite app_nil_r in Ht. }
      assert (Lcur : cur <= length done) by (apply IsSuf_len, Hcur).
      destruct (kstep_spec pf cur b done) as (c & Ek & Hc); auto; try lia.
      { eapply TableOK_weaken; [|exact Ht]. lia. }
      rewrite Ek.
      apply (IH (done ++ [b]) c (pf ++ [c])).
      + now rewrite snoc_app.
      + rewrite !app_length. simpl. lia.
      + intros j Hj. rewrite app_length in Hj. simpl in Hj.
        destruct (Nat.eq_dec j (S (length done))) as [->|Nj].
        * rewrite <- Lp, nth_middle. 
          replace (firstn (length pf) (tl p)) with (done ++ [b]); [exact Hc|].
          rewrite Et, Lp. now rewrite firstn_snoc_len.
        * rewrite app_nth1 by lia. apply Ht. lia.
      + rewrite app_length. simpl. rewrite Nat.add_1_r, <- Lp. now rewrite nth_middle.
  Qed.

  Lemma pref_func_spec : p <> [] -> exists pf, pref_func p = Some pf /\ TableOK pf (length p).
  Proof.
    intros Np. unfold pref_func. apply (pref_loop_spec (tl p) [] 0 [0]); auto.
    intros j Hj. assert (j = 0) by (simpl in Hj; lia). subst j. simpl.
    split; [apply IsSuf_0|]. intros k' Hk'. apply IsSuf_len in Hk'. simpl in Hk'. lia.
  Qed.

  (* an occurrence of p in t ending at index e *)
  Definition EndsAt (t : bytes) (e : nat) : Prop :=
    exists u w, t = u ++ p ++ w /\ e = length u + length p.

  Lemma find_loop_spec pf t : p <> [] -> TableOK pf (length p) ->
    forall s done cur, t = done ++ s -> Lps cur done -> cur < length p ->
      (forall e', EndsAt t e' -> length done < e') ->
      match find_loop pf p s (length done) cur with
      | KEnd e => EndsAt t e /\ forall e', EndsAt t e' -> e <= e'
      | KNone => forall e', ~ EndsAt t e'
      | KFuel => False
      end.
  Proof.
    intros Np Ht. induction s as [|b s IH]; intros done cur Et Hc Lc Hno.
    - simpl. intros e' He'. specialize (Hno e' He'). destruct He' as (u & w & E & ->).
      rewrite app_nil_r in Et. subst t. apply (f_equal (@length N)) in E.
      rewrite !app_length in E. lia.
    - simpl. destruct (kstep_spec pf cur b done) as (c & Ek & Hc'); auto.
      { eapply TableOK_weaken; [|exact Ht]. lia. }
      rewrite Ek. destruct (Nat.eqb_spec c (length p)) as [->|Nc].
      + destruct Hc' as ((_ & u & E) & _). rewrite firstn_all in E. split.
        * exists u, s. split.
          -- rewrite Et. rewrite <- (snoc_app done b s).
             rewrite E. now rewrite <- app_assoc.
          -- apply (f_equal (@length N)) in E. rewrite !app_length in E. simpl in E. lia.
        * intros e' He'. specialize (Hno e' He'). lia.
      + assert (Lc' : c < length p) by (destruct Hc' as ((L & _) & _); lia).
        replace (S (length done)) with (length (done ++ [b])) by (rewrite app_length; simpl; lia).
        apply IH; auto.
        * now rewrite snoc_app.
        * intros e' He'. pose proof (Hno e' He') as H1. rewrite app_length. simpl.
          destruct (Nat.eq_dec e' (S (length done))) as [->|]; [exfalso|lia].
          destruct He' as (u & w & E & El).
          assert (Ed : done ++ [b] = u ++ p).
          { rewrite Et in E. rewrite <- (snoc_app done b s) in E.
            rewrite app_assoc in E. apply (f_equal (firstn (length (done ++ [b])))) in E.
            rewrite firstn_app, Nat.sub_diag, firstn_all in E. simpl in E. rewrite app_nil_r in E.
            rewrite E. rewrite firstn_app.
            replace (length (done ++ [b]) - length (u ++ p)) with 0 by (rewrite !app_length; simpl; lia).
            simpl. rewrite app_nil_r. apply firstn_all2. rewrite !app_length. simpl. lia. }
          destruct Hc' as (_ & Hmax). specialize (Hmax (length p)).
          assert (IsSuf (length p) (done ++ [b])).
          { split; [lia|]. exists u. now rewrite firstn_all. }
          apply Hmax in H. lia.
  Qed.
End Kmp.

Theorem find_substring_leftmost s p : p <> [] ->
  match find_substring s p with
  | KEnd e => EndsAt p s e /\ forall e', EndsAt p s e' -> e <= e'
  | KNone => forall e', ~ EndsAt p s e'
  | KFuel => False
  end.
Proof.
  intros Np. unfold find_substring.
  destruct (pref_func_spec p Np) as (pf & -> & Ht).
  apply (find_loop_spec p pf s Np Ht s [] 0); auto.
  - split; [apply IsSuf_0|]. intros k' Hk'. apply IsSuf_len in Hk'. simpl in Hk'. lia.
  - destruct p; [congruence | simpl; lia].
  - intros e' (u & w & _ & ->). destruct p; [congruence | simpl; lia].
Qed.
