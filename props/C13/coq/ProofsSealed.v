(* C13 — sealed GetTIDsByTokenExpr (SelectEntries + Provider + narrowed Search) = full scan. *)
From Coq Require Import List Bool Arith NArith ZArith Lia Sorting.Sorted.
Import ListNotations.
From C13 Require Import Model ProofsGlob ProofsKmp ProofsWild ProofsSearch.
From C13 Require Import ProofsTable.

Lemma spec_scan_app m : forall (X Y : list bytes) tid,
  spec_scan m tid (X ++ Y) = spec_scan m tid X ++ spec_scan m (tid + Z.of_nat (length X))%Z Y.
Proof.
  induction X as [|v X IH]; intros Y tid; simpl.
  - now rewrite Z.add_0_r.
  - rewrite IH. replace (tid + 1 + Z.of_nat (length X))%Z with (tid + Z.pos (Pos.of_succ_nat (length X)))%Z by lia.
    destruct (m v); reflexivity.
Qed.

Lemma spec_scan_none m : forall (X : list bytes) tid, (forall t, In t X -> m t = false) -> spec_scan m tid X = [].
Proof.
  induction X as [|v X IH]; intros tid H; simpl; [reflexivity|].
  rewrite (H v (or_introl eq_refl)). apply IH. intros t Ht. apply H. now right.
Qed.

Lemma in_concat_firstn (entries : list (list bytes)) : forall k t, In t (concat (firstn k entries)) ->
  exists i, i < k /\ i < length entries /\ In t (nth i entries []).
Proof.
  induction entries as [|e es IH]; intros k t H.
  - rewrite firstn_nil in H. contradiction.
  - destruct k as [|k]; [contradiction|]. simpl in H. apply in_app_or in H as [H|H].
    + exists 0. simpl. repeat split; try lia. exact H.
    + apply IH in H as (i & L1 & L2 & Hi). exists (S i). simpl. repeat split; try lia. exact Hi.
Qed.

Lemma in_concat_skipn (entries : list (list bytes)) : forall k t, In t (concat (skipn k entries)) ->
  exists i, k <= i /\ i < length entries /\ In t (nth i entries []).
Proof.
  induction entries as [|e es IH]; intros k t H.
  - rewrite skipn_nil in H. contradiction.
  - destruct k as [|k].
    + simpl in H. apply in_app_or in H as [H|H].
      * exists 0. simpl. repeat split; try lia. exact H.
      * apply (IH 0) in H as (i & L1 & L2 & Hi). exists (S i). simpl. repeat split; try lia. exact Hi.
    + simpl in H. apply IH in H as (i & L1 & L2 & Hi). exists (S i). simpl. repeat split; try lia. exact Hi.
Qed.

Lemma skipn_skipn' {A} : forall l k (xs : list A), skipn k (skipn l xs) = skipn (l + k) xs.
Proof.
  induction l as [|l IH]; intros k xs; [reflexivity|].
  destruct xs as [|x xs]; simpl; [now rewrite skipn_nil | apply IH].
Qed.

Lemma match_has_hint parse q t : wfq q -> spec_match parse q t = true -> exists x, t = hint_of q ++ x.
Proof.
  intros W H. destruct q as [ts|r]; [|now exists t]. simpl in W, H.
  destruct (is_literal ts) as [s|] eqn:E.
  - destruct ts as [|[x|] [|? ?]]; simpl in E; inversion E; subst. simpl.
    rewrite <- lit_check_glob in H. simpl in H. apply beqb_true in H. subst. exists []. now rewrite app_nil_r.
  - apply (glob_has_prefix ts t W E) in H. destruct ts as [|[s|] r]; exact H.
Qed.

Theorem sealed_equals_scan parse
  (PB : forall s k, parse s = Some k -> (- maxkey <= k <= maxkey)%Z) first entries q :
  wfq q -> entries <> [] -> Forall (fun e => e <> []) entries ->
  StronglySorted lt_bytes (concat entries) ->
  sealed_search parse first entries q = Some (spec_scan (spec_match parse q) first (concat entries)).
Proof.
  intros W Hne Hall HS. unfold sealed_search.
  destruct (select_entries_complete entries (hint_of q) Hne Hall HS) as (l & r & -> & L0 & Lr & Hsel).
  set (m := spec_match parse q).
  set (l' := Z.to_nat l). set (k := Z.to_nat (r - l)).
  assert (Ee : entries = firstn l' entries ++ firstn k (skipn l' entries) ++ skipn k (skipn l' entries)).
  { now rewrite !firstn_skipn. }
  set (A := firstn l' entries) in *. set (B := firstn k (skipn l' entries)) in *.
  set (C := skipn k (skipn l' entries)) in *.
  assert (Hin : forall i t, i < length entries -> In t (nth i entries []) -> m t = true -> (l <= Z.of_nat i < r)%Z).
  { intros i t Hi Ht Hm. apply (Hsel i t Hi Ht). now apply (match_has_hint parse q t W). }
  assert (HA : forall t, In t (concat A) -> m t = false).
  { intros t Ht. apply in_concat_firstn in Ht as (i & L1 & L2 & Hi).
    destruct (m t) eqn:Em; [|reflexivity]. specialize (Hin i t L2 Hi Em). unfold l' in L1. lia. }
  assert (HC : forall t, In t (concat C) -> m t = false).
  { intros t Ht. unfold C in Ht. rewrite skipn_skipn' in Ht.
    apply in_concat_skipn in Ht as (i & L1 & L2 & Hi).
    destruct (m t) eqn:Em; [|reflexivity]. specialize (Hin i t L2 Hi Em). unfold k, l' in L1. lia. }
  assert (Escan : spec_scan m first (concat entries) =
                  spec_scan m (first + Z.of_nat (length (concat A)))%Z (concat B)).
  { rewrite Ee at 1. rewrite !concat_app, !spec_scan_app.
    rewrite (spec_scan_none m (concat A)) by exact HA.
    rewrite (spec_scan_none m (concat C)) by exact HC. now rewrite app_nil_r. }
  rewrite Escan. clearbody A B C. destruct B as [|b0 B'] eqn:EB; [reflexivity|]. rewrite <- EB in *.
  apply search_ordered; auto.
  rewrite Ee, !concat_app in HS. apply sorted_app_r in HS. now apply sorted_app_l in HS.
Qed.
