(* C13 — proofs about Block.unpack on arbitrary bytes and about token.Provider. *)
From Coq Require Import List Bool Arith NArith ZArith Lia ZifyN ZifyNat.
Import ListNotations.
From C13 Require Import Model ModelBlock ProofsSearch ProofsBlock.

(* ------------------------------------------------------------------ unpack on arbitrary bytes *)

Lemma skipn_skipn2 {A} : forall a b (l : list A), skipn a (skipn b l) = skipn (b + a) l.
Proof. induction b; intros l; simpl; auto. destruct l; [now rewrite !skipn_nil|apply IHb]. Qed.

(* offset o names a record that lies inside P: its length field and its payload *)
Definition in_range (w : nat) (P : bytes) (o : N) : Prop :=
  (o + N.of_nat w + dec (firstn w (skipn (N.to_nat o) P)) <= blen P)%N.

Lemma walk_total w (Hw : 1 <= w) : forall fuel data pre acc,
  length data < fuel ->
  match walk w fuel data (blen pre) acc with
  | UOk offs => exists os, offs = acc ++ flat_map (enc w) os /\ Forall (in_range w (pre ++ data)) os
  | UErr => True
  | UPanic => exists p sfx, pre ++ data = p ++ sfx /\ 0 < length sfx < w
  | UFuel => False
  end.
Proof.
  induction fuel as [|fuel IH]; intros data pre acc Hf; [lia|].
  destruct data as [|d0 data'] eqn:Ed.
  { simpl. exists []. simpl. rewrite app_nil_r. split; [reflexivity|constructor]. }
  rewrite <- Ed in *. rewrite walk_step by (subst; discriminate). cbv zeta.
  destruct (Nat.ltb_spec (length data) w) as [L|L].
  { subst data. exists pre, (d0 :: data'). split; [reflexivity|]. simpl in *. lia. }
  clear Ed d0 data'.
  assert (Esplit : data = firstn w data ++ skipn w data) by now rewrite firstn_skipn.
  assert (Lf : length (firstn w data) = w) by (rewrite firstn_length; lia).
  destruct (N.eqb_spec (dec (firstn w data)) (maxv w)) as [E|NE].
  - specialize (IH (skipn w data) (pre ++ firstn w data) acc).
    replace (blen (pre ++ firstn w data)) with (blen pre + N.of_nat w)%N in IH
      by (unfold blen; rewrite app_length, Lf; lia).
    rewrite <- app_assoc, <- Esplit in IH. apply IH. rewrite skipn_length. lia.
  - destruct (N.ltb_spec (blen (skipn w data)) (dec (firstn w data))) as [L2|L2]; [exact I|].
    set (l := dec (firstn w data)) in *.
    set (k := w + N.to_nat l).
    assert (Lk : k <= length data).
    { unfold k, blen in *. rewrite skipn_length in L2. lia. }
    specialize (IH (skipn (N.to_nat l) (skipn w data)) (pre ++ firstn k data)
                   (acc ++ enc w (blen pre + N.of_nat w - N.of_nat w)%N)).
    replace (blen (pre ++ firstn k data)) with (blen pre + N.of_nat w + l)%N in IH.
    2:{ unfold blen. rewrite app_length, firstn_length. unfold k. lia. }
    assert (Esk : skipn (N.to_nat l) (skipn w data) = skipn k data).
    { unfold k. now rewrite skipn_skipn2. }
    rewrite Esk in *. rewrite <- app_assoc, firstn_skipn in IH.
    assert (Hfuel : length (skipn k data) < fuel) by (rewrite skipn_length; unfold k; lia).
    specialize (IH Hfuel).
    destruct (walk w fuel (skipn k data) (blen pre + N.of_nat w + l) _) as [offs| | |]; auto.
    destruct IH as (os & -> & HF).
    exists (blen pre :: os). split.
    + cbn [flat_map]. rewrite <- app_assoc. do 2 f_equal. f_equal. lia.
    + constructor; [|exact HF].
      unfold in_range. rewrite to_nat_blen, skipn_app_exact. fold l.
      unfold blen in *. rewrite app_length. lia.
Qed.

Lemma unpack_total w (Hw : 1 <= w) data :
  match unpack w data with
  | UOk offs => exists os, offs = flat_map (enc w) os /\ Forall (in_range w data) os
  | UErr => True
  | UPanic => exists p sfx, data = p ++ sfx /\ 0 < length sfx < w
  | UFuel => False
  end.
Proof.
  unfold unpack. pose proof (walk_total w Hw (S (length data)) data [] [] ltac:(lia)) as H.
  exact H.
Qed.

(* ------------------------------------------------------------------ Provider *)

Definition zlen {A} (l : list A) : Z := Z.of_nat (length l).

(* "continuous monotonic sequence of token table entries", every entry holding a token *)
Definition cover (entries : list tentry) : Prop :=
  entries <> [] /\
  forall i, (0 <= i < zlen entries)%Z ->
    (1 <= e_val_count (entry_at entries i))%Z /\
    ((i + 1 < zlen entries)%Z ->
     e_start_tid (entry_at entries (i + 1)) = (get_last_tid (entry_at entries i) + 1)%Z).

Lemma cover_len entries : cover entries -> (1 <= zlen entries)%Z.
Proof. intros [H _]. unfold zlen. destruct entries; [congruence|simpl; lia]. Qed.

Lemma last_step entries : cover entries -> forall i, (0 <= i)%Z -> (i + 1 < zlen entries)%Z ->
  (get_last_tid (entry_at entries i) < get_last_tid (entry_at entries (i + 1)))%Z.
Proof.
  intros [_ H] i H0 H1. destruct (H i ltac:(lia)) as [_ E]. destruct (H (i + 1)%Z ltac:(lia)) as [C _].
  specialize (E H1). unfold get_last_tid in *. lia.
Qed.

Lemma last_mono entries : cover entries -> forall k i, (0 <= i)%Z -> (i + Z.of_nat k < zlen entries)%Z ->
  (get_last_tid (entry_at entries i) <= get_last_tid (entry_at entries (i + Z.of_nat k)))%Z.
Proof.
  intros C. induction k as [|k IH]; intros i H0 H1.
  - replace (i + Z.of_nat 0)%Z with i by lia. lia.
  - specialize (IH i H0 ltac:(lia)).
    pose proof (last_step entries C (i + Z.of_nat k)%Z ltac:(lia) ltac:(lia)) as St.
    replace (i + Z.of_nat (S k))%Z with (i + Z.of_nat k + 1)%Z by lia. lia.
Qed.

Definition in_entry (e : tentry) (tid : Z) : Prop := (e_start_tid e <= tid <= get_last_tid e)%Z.

Lemma check_tid_spec e tid : check_tid_in_block e tid = true <-> in_entry e tid.
Proof.
  unfold check_tid_in_block, in_entry.
  destruct (Z.ltb_spec tid (e_start_tid e)); [split; [discriminate|lia]|].
  destruct (Z.ltb_spec (get_last_tid e) tid); split; try discriminate; try lia; auto.
Qed.

(* findBlock: for a TID inside the cover and any valid cached index it returns the index of the
   entry that holds the TID *)
Lemma find_block_spec entries cur tid : cover entries ->
  (-1 <= cur < zlen entries)%Z ->
  (first_tid entries <= tid <= last_tid_p entries)%Z ->
  exists i, find_block entries cur tid = Some i /\ (0 <= i < zlen entries)%Z /\
            in_entry (entry_at entries i) tid.
Proof.
  intros C Hc Ht. unfold find_block.
  destruct ((0 <=? cur)%Z && check_tid_in_block (entry_at entries cur) tid) eqn:Ef.
  - apply andb_true_iff in Ef as [E1 E2]. apply Z.leb_le in E1. apply check_tid_spec in E2.
    exists cur. split; [reflexivity|]. split; [lia|exact E2].
  - clear Ef. pose proof (cover_len entries C) as Ln. fold (zlen entries).
    unfold sort_search.
    destruct (bsearch_spec (S (Z.to_nat (zlen entries)))
                (fun i => (tid <=? get_last_tid (entry_at entries i))%Z) 0 (zlen entries))
      as (r & E & B & Lo & Hi); try lia.
    { intros a b Hab Hb Ha. apply Z.leb_le in Ha. apply Z.leb_le.
      pose proof (last_mono entries C (Z.to_nat (b - a)) a ltac:(lia)) as M.
      replace (a + Z.of_nat (Z.to_nat (b - a)))%Z with b in M by lia. specialize (M ltac:(lia)). lia. }
    exists r. split; [exact E|].
    assert (Rlt : (r < zlen entries)%Z).
    { destruct (Z.eq_dec r (zlen entries)) as [->|]; [|lia].
      specialize (Lo (zlen entries - 1)%Z ltac:(lia)). apply Z.leb_gt in Lo.
      unfold last_tid_p in Ht. fold (zlen entries) in Ht. lia. }
    split; [lia|]. unfold in_entry. split.
    + destruct (Z.eq_dec r 0) as [->|NZ]; [unfold first_tid in Ht; lia|].
      specialize (Lo (r - 1)%Z ltac:(lia)). apply Z.leb_gt in Lo.
      destruct C as [_ C]. destruct (C (r - 1)%Z ltac:(lia)) as [_ E2].
      replace (r - 1 + 1)%Z with r in E2 by lia. rewrite E2 by lia. lia.
    + specialize (Hi r ltac:(lia)). now apply Z.leb_le in Hi.
Qed.

(* the blocks on [disk] serve the token sequence [tokf]: every entry's block unpacks and
   GetValByTID returns the token of every TID of the entry *)
Definition serves (w : nat) (disk : Z -> bytes) (entries : list tentry) (tokf : Z -> bytes) : Prop :=
  forall i, (0 <= i < zlen entries)%Z ->
    let e := entry_at entries i in
    exists offs, unpack w (disk (e_block_index e)) = UOk offs /\
      forall tid, in_entry e tid -> get_val w e (disk (e_block_index e)) offs tid = Some (tokf tid).

(* provider state invariant: nothing loaded yet, or the cached block is the loaded block of the
   cached index *)
Definition pvalid (w : nat) (disk : Z -> bytes) (entries : list tentry) (st : pstate) : Prop :=
  (-1 <= fst st < zlen entries)%Z /\
  ((0 <= fst st)%Z -> snd st = load w disk (entry_at entries (fst st)) /\ snd st <> None).

Lemma get_token_spec w disk entries tokf st tid :
  cover entries -> serves w disk entries tokf -> pvalid w disk entries st ->
  (first_tid entries <= tid <= last_tid_p entries)%Z ->
  exists st', get_token w disk entries st tid = Some (tokf tid, st') /\ pvalid w disk entries st'.
Proof.
  intros C S [V1 V2] Ht.
  destruct (find_block_spec entries (fst st) tid C V1 Ht) as (i & Ef & Hi & Hin).
  unfold get_token. rewrite Ef.
  destruct (S i Hi) as (offs & Eu & Hg). cbv zeta in *.
  assert (El : load w disk (entry_at entries i) = Some (entry_at entries i, disk (e_block_index (entry_at entries i)), offs)).
  { unfold load. now rewrite Eu. }
  destruct (Z.eqb_spec i (fst st)) as [E|NE].
  - subst i. destruct (V2 ltac:(lia)) as [Es _]. rewrite Es, El. rewrite (Hg tid Hin).
    exists st. split; [reflexivity|]. split; auto.
  - destruct (Z.leb_spec (Z.of_nat (length entries)) i) as [L|_]; [unfold zlen in Hi; lia|].
    rewrite El. cbn [snd]. rewrite (Hg tid Hin).
    eexists. split; [reflexivity|]. split; cbn [fst snd]; [lia|].
    intros _. rewrite El. split; [reflexivity|discriminate].
Qed.

Theorem provider_get_tokens w disk entries tokf :
  cover entries -> serves w disk entries tokf ->
  forall tids st, pvalid w disk entries st ->
    Forall (fun tid => (first_tid entries <= tid <= last_tid_p entries)%Z) tids ->
    exists st', get_tokens w disk entries st tids = Some (map tokf tids, st') /\ pvalid w disk entries st'.
Proof.
  intros C S. induction tids as [|t tids IH]; intros st V HF.
  - exists st. split; [reflexivity|exact V].
  - inversion HF as [|? ? Ht HF']; subst.
    destruct (get_token_spec w disk entries tokf st t C S V Ht) as (st1 & E1 & V1).
    destruct (IH st1 V1 HF') as (st2 & E2 & V2).
    exists st2. split; [|exact V2]. cbn [get_tokens map]. now rewrite E1, E2.
Qed.

Lemma pvalid_init w disk entries : entries <> [] -> pvalid w disk entries p_init.
Proof.
  intros H. split; cbn [fst snd p_init].
  - unfold zlen. destruct entries; [congruence|simpl; lia].
  - lia.
Qed.
