(* C13 — the end-to-end byte-level statement: generator -> writeTokensBlocks -> per-field slicing by
   SelectEntries -> Provider over the packed blocks -> narrowed Search = scan of the field's tokens. *)
From Coq Require Import List Bool Arith NArith ZArith Lia ZifyN ZifyNat Sorting.Sorted.
Import ListNotations.
From C13 Require Import Model ModelBlock ProofsSearch ProofsTable ProofsSealed ProofsBlock ProofsProvider
     ProofsWriter ProofsActive.

Lemma entry_at_cons e es i : (1 <= i)%Z -> entry_at (e :: es) i = entry_at es (i - 1).
Proof.
  intros H. unfold entry_at. replace (Z.to_nat i) with (S (Z.to_nat (i - 1))) by lia. reflexivity.
Qed.

Lemma zlen_app {A} (a b : list A) : zlen (a ++ b) = (zlen a + zlen b)%Z.
Proof. unfold zlen. rewrite app_length. lia. Qed.
Lemma zlen_cons {A} (x : A) l : zlen (x :: l) = (1 + zlen l)%Z.
Proof. unfold zlen. simpl length. lia. Qed.

Section Aligned.
  Variables (w : nat) (disk : Z -> bytes).

  (* table entries es describe the chunks cs of one field, TIDs from s, and the blocks serve them *)
  Inductive aligned : Z -> list tentry -> list (list bytes) -> Prop :=
  | al_nil s : aligned s [] []
  | al_cons s e c es cs :
      c <> [] -> e_start_tid e = s -> e_val_count e = zlen c -> e_max_val e = last c [] ->
      (exists offs, unpack w (disk (e_block_index e)) = UOk offs /\
         forall j, j < length c ->
           get_val w e (disk (e_block_index e)) offs (s + Z.of_nat j) = Some (nth j c [])) ->
      aligned (s + zlen c) es cs -> aligned s (e :: es) (c :: cs).

  Lemma al_len s es cs : aligned s es cs -> length es = length cs.
  Proof. induction 1; simpl; auto. Qed.

  Lemma al_max s es cs : aligned s es cs -> map e_max_val es = map (fun c => last c []) cs.
  Proof. induction 1; simpl; auto. now f_equal. Qed.

  Lemma al_skipn : forall l s es cs, aligned s es cs ->
    aligned (s + zlen (concat (firstn l cs))) (skipn l es) (skipn l cs).
  Proof.
    induction l as [|l IH]; intros s es cs H.
    - simpl. replace (s + zlen (@nil bytes))%Z with s by (unfold zlen; simpl; lia). exact H.
    - destruct H as [s|s e c es cs H1 H2 H3 H4 H5 H6]; [simpl; constructor|].
      simpl. rewrite zlen_app, Z.add_assoc. now apply IH.
  Qed.

  Lemma al_firstn : forall k s es cs, aligned s es cs -> aligned s (firstn k es) (firstn k cs).
  Proof.
    induction k as [|k IH]; intros s es cs H; [simpl; constructor|].
    destruct H as [s|s e c es cs H1 H2 H3 H4 H5 H6]; simpl; [constructor|].
    constructor; auto.
  Qed.

  Lemma al_props : forall s es cs, aligned s es cs ->
    forall i, (0 <= i < zlen es)%Z ->
      let e := entry_at es i in
      (s <= e_start_tid e)%Z /\ (get_last_tid e < s + zlen (concat cs))%Z /\ (1 <= e_val_count e)%Z /\
      ((i + 1 < zlen es)%Z -> e_start_tid (entry_at es (i + 1)) = (get_last_tid e + 1)%Z) /\
      exists offs, unpack w (disk (e_block_index e)) = UOk offs /\
        forall tid, in_entry e tid ->
          get_val w e (disk (e_block_index e)) offs tid = Some (tok s (concat cs) tid).
  Proof.
    induction 1 as [s|s e c es cs Hc Hs Hv Hm Hg Hal IH]; intros i Hi; cbv zeta.
    - exfalso. unfold zlen in Hi. simpl in Hi. lia.
    - assert (Lc : (1 <= zlen c)%Z) by (unfold zlen; destruct c; [congruence|simpl; lia]).
      assert (Lcc : (0 <= zlen (concat cs))%Z) by (unfold zlen; lia).
      rewrite zlen_cons in Hi. simpl concat. rewrite zlen_app. unfold bytes in *.
      destruct (Z.eq_dec i 0) as [->|NZ].
      + change (entry_at (e :: es) 0) with e. unfold get_last_tid. rewrite Hs, Hv.
        split; [lia|]. split; [lia|]. split; [lia|]. split.
        * intros H1. rewrite entry_at_cons by lia. change (0 + 1 - 1)%Z with 0%Z.
          destruct Hal as [s'|s' e' c' es' cs' _ Hs' _ _ _ _].
          { exfalso. unfold zlen in H1. simpl in H1. lia. }
          change (entry_at (e' :: es') 0) with e'. lia.
        * destruct Hg as (offs & Eu & Hg). exists offs. split; [exact Eu|].
          intros tid [T1 T2]. unfold get_last_tid in T2. rewrite Hs in T1. rewrite Hs, Hv in T2.
          specialize (Hg (Z.to_nat (tid - s)) ltac:(unfold zlen in *; lia)).
          replace (s + Z.of_nat (Z.to_nat (tid - s)))%Z with tid in Hg by lia.
          rewrite Hg. f_equal. unfold tok. rewrite app_nth1 by (unfold zlen in *; lia). reflexivity.
      + rewrite entry_at_cons by lia.
        destruct (IH (i - 1)%Z ltac:(lia)) as (A & B & C & D & offs & Eu & Hg). cbv zeta in *.
        split; [lia|]. split; [lia|]. split; [exact C|]. split.
        * intros H1. rewrite entry_at_cons by lia. replace (i + 1 - 1)%Z with (i - 1 + 1)%Z by lia.
          apply D. rewrite zlen_cons in H1. lia.
        * exists offs. split; [exact Eu|]. intros tid Ht. rewrite (Hg tid Ht). f_equal.
          destruct Ht as [T1 _]. unfold tok. rewrite app_nth2 by (unfold zlen in *; lia).
          f_equal. unfold zlen in *. lia.
  Qed.

  Lemma al_last : forall s es cs, aligned s es cs -> es <> [] ->
    get_last_tid (entry_at es (zlen es - 1)) = (s + zlen (concat cs) - 1)%Z.
  Proof.
    induction 1 as [s|s e c es cs Hc Hs Hv Hm Hg Hal IH]; intros Hne; [congruence|].
    rewrite zlen_cons. simpl concat. rewrite zlen_app.
    destruct es as [|e2 es].
    - inversion Hal; subst. change (zlen (@nil tentry)) with 0%Z. change (1 + 0 - 1)%Z with 0%Z.
      change (entry_at [e] 0) with e. unfold get_last_tid. rewrite Hs, Hv. unfold zlen. simpl. lia.
    - rewrite entry_at_cons by (rewrite zlen_cons; unfold zlen; lia).
      replace (1 + zlen (e2 :: es) - 1 - 1)%Z with (zlen (e2 :: es) - 1)%Z by lia.
      rewrite IH by discriminate. lia.
  Qed.

  Lemma al_cover_serves s es cs : aligned s es cs -> es <> [] ->
    cover es /\ first_tid es = s /\ last_tid_p es = last_tid s (concat cs) /\
    serves w disk es (tok s (concat cs)).
  Proof.
    intros H Hne. split; [|split; [|split]].
    - split; [exact Hne|]. intros i Hi. destruct (al_props s es cs H i Hi) as (_ & _ & C & D & _). auto.
    - destruct H; [congruence|]. assumption.
    - unfold last_tid_p. fold (zlen es). rewrite (al_last s es cs H Hne). unfold last_tid, zlen. lia.
    - intros i Hi. destruct (al_props s es cs H i Hi) as (_ & _ & _ & _ & G). exact G.
  Qed.
End Aligned.
