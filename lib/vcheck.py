"""Shared machinery for the per-property checks (see DESIGN.md section 1).

One check run =
  1. regenerate props/<id>/coq/Consts.v from the Go sources (optional, per property)
  2. proof gate: full .vo build of coq/lib and props/<id>/coq, forbidden-word scan,
     Print Assumptions of every theorem in Props.v
  3. build the Go harness from the current working tree of the repository (-tags verif)
  4. run the implementation on generated inputs; the harness writes the cases as Coq terms
  5. evaluate the model and the spec checker on those cases inside Coq (vm_compute)
  6. decide, write evidence, print VIOLATION / KNOWN-FINDING lines

Only the python standard library is used.
"""
import fcntl
import glob
import hashlib
import json
import os
import re
import shutil
import subprocess
import sys
import tempfile
import time
from concurrent.futures import ThreadPoolExecutor

ROOT = os.path.dirname(os.path.dirname(os.path.abspath(__file__)))
REPO = os.environ.get("VERIF_REPO", "/repo")
BUILD = os.environ.get("VERIF_BUILD", os.path.join(ROOT, ".build"))
EVIDENCE_DIR = os.environ.get("VERIF_EVIDENCE_DIR", os.path.join(ROOT, "evidence"))
REPLAY_DIR = os.environ.get("VERIF_REPLAY_DIR", os.path.join(ROOT, "replays"))
KNOWN_FILE = os.path.join(ROOT, "known_findings.txt")
NCPU = os.cpu_count() or 4

FORBIDDEN = re.compile(
    r"\b(Admitted|admit|Axiom|Axioms|Parameter|Parameters|Conjecture|Conjectures|"
    r"Hypothesis|Hypotheses|Variable|Variables|Abort)\b|Unset\s+Guard|bypass_check|"
    r"type-in-type|impredicative-set|Admit\s+Obligations|native_compute|Unset\s+Positivity|"
    r"Unset\s+Universe")
# Variable/Hypothesis are allowed inside a Section only; checked separately.
SECTION_OK = re.compile(r"\b(Variable|Variables|Hypothesis|Hypotheses)\b")

ALLOWED_AXIOMS = {
    # standard-library axioms that a tactic may bring in; each is named in evidence when used
    "functional_extensionality_dep",
    "Eqdep.Eq_rect_eq.eq_rect_eq",
    "eq_rect_eq",
    "JMeq_eq",
    "JMeq.JMeq_eq",
    "classic",
    "Classical_Prop.classic",
    "proof_irrelevance",
    "ProofIrrelevance.proof_irrelevance",
    "propositional_extensionality",
    # the standard library's real-number axioms (Flocq theorems about float64 mention R; C06 only)
    "ClassicalDedekindReals.sig_forall_dec",
    "ClassicalDedekindReals.sig_not_dec",
    "FunctionalExtensionality.functional_extensionality_dep",
}


def goenv():
    env = dict(os.environ)
    env["GOFLAGS"] = "-mod=mod"
    env["GOPROXY"] = "off"
    env.pop("GOTOOLCHAIN", None)
    env.pop("GOSUMDB", None)
    env.pop("GOWORK", None)
    env["GOWORK"] = "off"
    return env


def log(*a):
    print("[check]", *a, file=sys.stderr, flush=True)


def run(cmd, cwd=None, timeout=None, env=None, stdin=None):
    """Run a command, return (rc, stdout+stderr). rc=124 on timeout."""
    try:
        p = subprocess.run(cmd, cwd=cwd, env=env, input=stdin, stdout=subprocess.PIPE,
                           stderr=subprocess.STDOUT, timeout=timeout, text=True,
                           errors="replace")
        return p.returncode, p.stdout
    except subprocess.TimeoutExpired as e:
        out = e.stdout or ""
        if isinstance(out, bytes):
            out = out.decode("utf-8", "replace")
        return 124, out + "\n[timeout]"


class Lock:
    def __init__(self, name):
        os.makedirs(BUILD, exist_ok=True)
        self.path = os.path.join(BUILD, name + ".lock")

    def __enter__(self):
        self.f = open(self.path, "w")
        fcntl.flock(self.f, fcntl.LOCK_EX)
        return self

    def __exit__(self, *a):
        fcntl.flock(self.f, fcntl.LOCK_UN)
        self.f.close()


class Slot:
    """System-wide bound on concurrently running coqc case evaluations (several checks may run at
    the same time on one machine; each coqc needs a few hundred MB)."""
    N = int(os.environ.get("VERIF_COQ_SLOTS", str(NCPU)))

    def __enter__(self):
        d = os.path.join(tempfile.gettempdir(), "verif-coq-slots")
        os.makedirs(d, exist_ok=True)
        import random
        while True:
            order = list(range(self.N))
            random.shuffle(order)
            for i in order:
                f = open(os.path.join(d, "slot-%d" % i), "w")
                try:
                    fcntl.flock(f, fcntl.LOCK_EX | fcntl.LOCK_NB)
                    self.f = f
                    return self
                except OSError:
                    f.close()
            time.sleep(0.2)

    def __exit__(self, *a):
        fcntl.flock(self.f, fcntl.LOCK_UN)
        self.f.close()


# ----------------------------------------------------------------------------- Coq

# A run against a scratch copy of the repository (VERIF_REPO, used only for mutation experiments) must not
# write regenerated files (Consts.v, Gen.v) or build output into /verif/props: it works on a mirror of the
# Coq sources under the build directory. The registered commands (VERIF_REPO unset) use /verif/props itself.
SCRATCH_COQ = os.path.realpath(REPO) != "/repo"
_mirrored = set()


def _coq_root():
    return os.path.join(BUILD, "coqsrc") if SCRATCH_COQ else ROOT


def _mirror(rel):
    if not SCRATCH_COQ or rel in _mirrored:
        return
    src, dst = os.path.join(ROOT, rel), os.path.join(_coq_root(), rel)
    os.makedirs(dst, exist_ok=True)
    subprocess.run(["rsync", "-a", "--delete", src + "/", dst + "/"], check=True)
    _mirrored.add(rel)


def coq_lib_dir():
    _mirror(os.path.join("coq", "lib"))
    return os.path.join(_coq_root(), "coq", "lib")


def coq_dir(prop):
    _mirror(os.path.join("props", prop, "coq"))
    return os.path.join(_coq_root(), "props", prop, "coq")


def coq_args(prop):
    return ["-Q", coq_lib_dir(), "VLib", "-Q", coq_dir(prop), prop]


def scan_forbidden(dirs):
    """Return list of 'file:line: text' for forbidden vernacular (outside comments)."""
    bad = []
    for d in dirs:
        for f in sorted(glob.glob(os.path.join(d, "*.v"))):
            src = open(f, encoding="utf-8", errors="replace").read()
            src = strip_comments(src)
            depth = 0
            for i, line in enumerate(src.split("\n"), 1):
                if re.match(r"\s*Section\b", line):
                    depth += 1
                if re.match(r"\s*End\b", line) and depth > 0:
                    depth -= 1
                m = FORBIDDEN.search(line)
                if m:
                    if SECTION_OK.fullmatch(m.group(0)) and depth > 0:
                        continue
                    bad.append("%s:%d: %s" % (f, i, line.strip()))
    return bad


def strip_comments(src):
    out = []
    depth = 0
    i = 0
    n = len(src)
    instr = False
    while i < n:
        c = src[i]
        if depth == 0 and c == '"':
            instr = not instr
            out.append(c)
            i += 1
            continue
        if not instr and src.startswith("(*", i):
            depth += 1
            i += 2
            continue
        if not instr and depth > 0 and src.startswith("*)", i):
            depth -= 1
            i += 2
            continue
        if depth == 0:
            out.append(c)
        elif c == "\n":
            out.append(c)
        i += 1
    return "".join(out)


def ensure_makefile(d):
    mk = os.path.join(d, "Makefile.coq")
    cp = os.path.join(d, "_CoqProject")
    if (not os.path.exists(mk)) or os.path.getmtime(mk) < os.path.getmtime(cp):
        rc, out = run(["coq_makefile", "-f", "_CoqProject", "-o", "Makefile.coq"], cwd=d, timeout=120)
        if rc != 0:
            raise RuntimeError("coq_makefile failed in %s: %s" % (d, out))


def make_coq(d, timeout=1500):
    ensure_makefile(d)
    rc, out = run(["make", "-f", "Makefile.coq", "-j%d" % NCPU], cwd=d, timeout=timeout)
    return rc, out


def build_coq(prop, timeout=1500):
    """Full .vo build of the shared library and the property's project."""
    with Lock("coq-lib"):
        rc, out = make_coq(coq_lib_dir(), timeout)
    if rc != 0:
        return rc, out
    with Lock("coq-" + prop):
        rc2, out2 = make_coq(coq_dir(prop), timeout)
    return rc2, out + out2


THM_RE = re.compile(r"^\s*(Theorem|Example)\s+([A-Za-z0-9_']+)", re.M)


def props_theorems(prop):
    src = strip_comments(open(os.path.join(coq_dir(prop), "Props.v")).read())
    thms = [m.group(2) for m in THM_RE.finditer(src) if m.group(1) == "Theorem"]
    exs = [m.group(2) for m in THM_RE.finditer(src) if m.group(1) == "Example"]
    return thms, exs


def print_assumptions(prop, timeout=600):
    """Re-compile Props.v alone (cheap: it only contains `exact lemma`) to capture the
    Print Assumptions output of every property theorem. Returns dict thm -> list of axioms
    (empty list = closed under the global context) or None when the file does not compile."""
    d = coq_dir(prop)
    tmp = tempfile.mkdtemp(prefix="verif-pa-")
    try:
        shutil.copy(os.path.join(d, "Props.v"), os.path.join(tmp, "PropsPA.v"))
        rc, out = run(["coqc"] + coq_args(prop) + ["-Q", tmp, "PA", os.path.join(tmp, "PropsPA.v")],
                      cwd=tmp, timeout=timeout)
    finally:
        shutil.rmtree(tmp, ignore_errors=True)
    if rc != 0:
        return None, out
    # output is a sequence of blocks, one per Print Assumptions, in file order
    src = strip_comments(open(os.path.join(d, "Props.v")).read())
    order = re.findall(r"Print\s+Assumptions\s+([A-Za-z0-9_'.]+)\s*\.", src)
    blocks = []
    cur = None
    for line in out.split("\n"):
        if line.startswith("Closed under the global context"):
            blocks.append([])
            cur = None
        elif line.startswith("Axioms:"):
            cur = []
            blocks.append(cur)
        elif cur is not None:
            m = re.match(r"^([A-Za-z0-9_'.]+)\s*:", line)
            if m:
                cur.append(m.group(1))
    res = {}
    for name, b in zip(order, blocks):
        res[name] = b
    if len(order) != len(blocks):
        return None, "Print Assumptions blocks (%d) != commands (%d)\n%s" % (len(blocks), len(order), out)
    return res, out


def _enclosing_lemma(prop, fname, line):
    """Name the lemma in which a build error occurred and the Props.v theorem(s) closed by it, e.g.
    ' (in lemma gen_Less_refines, theorem C05_gen_Less_refines)'. Best effort; '' when unknown."""
    try:
        path = os.path.join(coq_dir(prop), os.path.basename(fname))
        lines = open(path, encoding="utf-8", errors="replace").read().split("\n")[:int(line)]
        name = None
        for l in reversed(lines):
            mm = re.match(r"\s*(Lemma|Theorem|Corollary|Example|Fact|Remark|Definition|Fixpoint)\s+([A-Za-z0-9_']+)", l)
            if mm:
                name = mm.group(2)
                break
        if not name:
            return ""
        src = strip_comments(open(os.path.join(coq_dir(prop), "Props.v")).read())
        thms = re.findall(r"Theorem\s+([A-Za-z0-9_']+)[^.]*?(?:\.[^.]*?)*?Proof\.\s*exact\s+\(?%s\b" % re.escape(name), src)
        thms = [t for t in re.findall(r"Theorem\s+([A-Za-z0-9_']+)\b(?:(?!Theorem\s).)*?Proof\.\s*exact\s+\(?%s\b" % re.escape(name), src, re.S)]
        return " (in lemma %s%s)" % (name, (", theorem " + ", ".join(thms[:3])) if thms else "")
    except Exception:
        return ""


def proof_gate(prop):
    """Returns dict(ok, obligations, discharged, theorems, axioms, failures, log)."""
    res = {"ok": False, "obligations": 0, "discharged": 0, "theorems": [], "axioms": [],
           "failures": [], "log": ""}
    thms, exs = props_theorems(prop)
    res["theorems"] = thms
    res["examples"] = exs
    res["obligations"] = len(thms)
    bad = scan_forbidden([coq_lib_dir(), coq_dir(prop)])
    if bad:
        res["failures"].append("forbidden vernacular: " + "; ".join(bad[:5]))
        return res
    rc, out = build_coq(prop)
    res["log"] = out[-4000:]
    if rc != 0:
        m = re.findall(r'File "([^"]+)", line (\d+)', out)
        where = ("%s:%s" % m[-1]) if m else "?"
        res["failures"].append("coq build failed at %s%s" % (where, _enclosing_lemma(prop, *m[-1]) if m else ""))
        res["failed_file"] = m[-1][0] if m else None
        return res
    pa, paout = print_assumptions(prop)
    if pa is None:
        res["failures"].append("Props.v does not compile: " + paout[-800:])
        return res
    axioms = set()
    for t in thms:
        if t not in pa:
            res["failures"].append("no Print Assumptions for theorem %s" % t)
            continue
        extra = [a for a in pa[t] if a.split(".")[-1] not in {x.split(".")[-1] for x in ALLOWED_AXIOMS}]
        if extra:
            res["failures"].append("theorem %s depends on non-allowed axioms %s" % (t, extra))
            continue
        axioms.update(pa[t])
        res["discharged"] += 1
    res["axioms"] = sorted(axioms)
    res["ok"] = not res["failures"] and res["discharged"] == res["obligations"] and res["obligations"] > 0
    return res


def eval_cases(prop, case_files, timeout=1200):
    """Compile every generated cases_*.v (each prints `DIFFS = [..]` and `SPECFAILS = [..]`
    through `Eval vm_compute`) in parallel. Returns (diffs, specfails, errors) where diffs and
    specfails are lists of (file, index)."""
    diffs, specfails, errors = [], [], []

    def one(f):
        d = os.path.dirname(f)
        with Slot():
            rc, out = run(["coqc"] + coq_args(prop) + ["-Q", d, "Cases", f], cwd=d, timeout=timeout)
        return f, rc, out

    with ThreadPoolExecutor(max_workers=NCPU) as ex:
        for f, rc, out in ex.map(one, case_files):
            if rc != 0:
                errors.append((f, out[-1500:]))
                continue
            got = parse_eval_lists(out)
            if len(got) < 2:
                errors.append((f, "could not parse coqc output: " + out[-1500:]))
                continue
            for i in got[0]:
                diffs.append((f, i))
            for i in got[1]:
                specfails.append((f, i))
    return diffs, specfails, errors


def parse_eval_lists(out):
    """Parse the outputs of successive `Eval vm_compute in (... : list nat/N)`:
    each looks like `     = [1; 2]%nat\n     : list nat` (possibly wrapped) or `= []`."""
    res = []
    for m in re.finditer(r"=\s*(\[[^\]]*\]|nil)", out):
        body = m.group(1)
        res.append([int(x) for x in re.findall(r"\d+", body)])
    return res


# ----------------------------------------------------------------------------- Go harness

def harness_src():
    """Directory of the harness module wired to REPO (a copy when VERIF_REPO is overridden)."""
    src = os.path.join(ROOT, "harness")
    if REPO == "/repo":
        return src
    dst = os.path.join(BUILD, "harness-" + hashlib.sha1(REPO.encode()).hexdigest()[:10])
    if os.path.exists(dst):
        shutil.rmtree(dst)
    shutil.copytree(src, dst)
    gm = open(os.path.join(dst, "go.mod")).read().replace("=> /repo", "=> " + REPO)
    open(os.path.join(dst, "go.mod"), "w").write(gm)
    return dst


def build_harness(prop, timeout=900, race=False):
    """go build -tags verif ./cmd/h<prop> against the repository's current working tree."""
    src = harness_src()
    shutil.copy(os.path.join(REPO, "go.sum"), os.path.join(src, "go.sum"))
    outdir = os.path.join(BUILD, "bin" if REPO == "/repo" else "bin-" + hashlib.sha1(REPO.encode()).hexdigest()[:10])
    os.makedirs(outdir, exist_ok=True)
    exe = os.path.join(outdir, "h" + prop + ("-race" if race else ""))
    cmd = ["go", "build", "-tags", "verif"] + (["-race"] if race else []) + ["-o", exe, "./cmd/h" + prop]
    rc, out = run(cmd, cwd=src, timeout=timeout, env=goenv())
    if rc != 0:
        return None, out
    return exe, out


# ----------------------------------------------------------------------------- findings

def load_known():
    known, fixed = [], []
    if os.path.exists(KNOWN_FILE):
        for line in open(KNOWN_FILE):
            line = line.strip()
            if not line or line.startswith("#"):
                continue
            m = re.match(r"known:\s*property=(\S+)\s+fingerprint=(\S+)\s+(.*)", line)
            if m:
                known.append({"property": m.group(1), "fingerprint": m.group(2), "what": m.group(3)})
                continue
            m = re.match(r"fixed:\s*property=(\S+)\s+(\S+)\s+(.*)", line)
            if m:
                fixed.append({"property": m.group(1), "commit": m.group(2), "what": m.group(3)})
    return known, fixed


class Run:
    """Bookkeeping of one check run: timing, evidence, violations."""

    def __init__(self, prop, tier, seed):
        self.prop, self.tier, self.seed = prop, tier, seed
        self.t0 = time.time()
        self.violations = []     # dicts: fingerprint, what, replay(dict), found_input(bool)
        self.known_hits = []
        self.coverage = {}
        self.assumptions = []
        self.workdir = tempfile.mkdtemp(prefix="verif-run-%s-" % prop,
                                        dir=os.environ.get("TMPDIR", "/tmp"))

    def cleanup(self):
        if not os.environ.get("VERIF_KEEP"):
            shutil.rmtree(self.workdir, ignore_errors=True)

    def violation(self, fingerprint, what, replay, found_input=True):
        self.violations.append({"fingerprint": fingerprint, "what": what, "replay": replay,
                                "found_input": found_input})

    def finish(self, gate):
        """Classify violations against known_findings.txt, write replays + evidence,
        print the protocol lines, return the exit status."""
        known, _fixed = load_known()
        unknown = []
        for v in self.violations:
            k = [x for x in known if x["property"] == self.prop and x["fingerprint"] == v["fingerprint"]]
            if k:
                if v["fingerprint"] not in [h["fingerprint"] for h in self.known_hits]:
                    self.known_hits.append({"fingerprint": v["fingerprint"], "what": k[0]["what"]})
            else:
                unknown.append(v)
        for h in self.known_hits:
            print("KNOWN-FINDING: property=%s %s [%s]" % (self.prop, h["what"], h["fingerprint"]))
        os.makedirs(REPLAY_DIR, exist_ok=True)
        seen = set()
        lines = []
        for v in unknown:
            if v["fingerprint"] in seen:
                continue
            seen.add(v["fingerprint"])
            body = json.dumps({"property": self.prop, "seed": self.seed, "tier": self.tier,
                               "fingerprint": v["fingerprint"], "what": v["what"],
                               "found_input": v["found_input"], "replay": v["replay"]},
                              indent=1, sort_keys=True, default=str)
            h = hashlib.sha1(body.encode()).hexdigest()[:10]
            path = os.path.join(REPLAY_DIR, "%s-%s.json" % (self.prop, h))
            open(path, "w").write(body + "\n")
            line = "VIOLATION property=%s replay=%s" % (self.prop, path)
            if not v["found_input"]:
                line += " no-failing-input-found"
            lines.append(line)
        cov = dict(self.coverage)
        cov.setdefault("obligations", gate.get("obligations", 0))
        cov.setdefault("discharged", gate.get("discharged", 0))
        cov.setdefault("checker_cmd",
                       "make -C coq/lib && make -C props/%s/coq (coq_makefile, full .vo build, coqc 8.16.1)"
                       " + coqc Props.v for Print Assumptions" % self.prop)
        cov.setdefault("trusted_base", [])
        cov["theorems"] = gate.get("theorems", [])
        cov["nonvacuity_examples"] = gate.get("examples", [])
        cov["axioms_used"] = gate.get("axioms", [])
        cov["proof_gate_failures"] = gate.get("failures", [])
        cov["known_findings_hit"] = self.known_hits
        ev = {"property_id": self.prop, "tier": self.tier, "seed": self.seed, "level": "proof",
              "coverage": cov, "assumptions": self.assumptions,
              "wall_s": round(time.time() - self.t0, 2), "violations": len(lines)}
        os.makedirs(EVIDENCE_DIR, exist_ok=True)
        tmp = os.path.join(EVIDENCE_DIR, self.prop + ".json.tmp")
        open(tmp, "w").write(json.dumps(ev, indent=1, sort_keys=True, default=str) + "\n")
        os.replace(tmp, os.path.join(EVIDENCE_DIR, self.prop + ".json"))
        for l in lines:
            print(l)
        sys.stdout.flush()
        self.cleanup()
        return 1 if lines else 0


def parse_args(argv):
    import argparse
    ap = argparse.ArgumentParser()
    ap.add_argument("--tier", default=os.environ.get("VERIF_TIER", "quick"), choices=["quick", "thorough"])
    ap.add_argument("--seed", type=int, default=int(os.environ.get("VERIF_SEED", "1")))
    ap.add_argument("--replay", default=None)
    return ap.parse_args(argv)


def standard_check(prop, argv, harness_args, trusted_base, assumptions, rule,
                   coqchk=False, consts=False, harness_timeout=1500, post=None, gen=False):
    """The common shape of a check (DESIGN 1.1/1.2).

    harness_args(tier, seed, outdir) -> argv for the Go harness; the harness writes into outdir:
       cases_*.v     Coq case files (each evaluates DIFFS and SPECFAILS index lists)
       cases.jsonl   one JSON object per case: {"file","index","class","nontrivial","input","impl"}
       stats.json    {"evaluations":..,"distribution":{..}}
    """
    a = parse_args(argv)
    r = Run(prop, a.tier, a.seed)
    r.assumptions = assumptions
    r.coverage["trusted_base"] = trusted_base
    r.coverage["rule"] = rule
    try:
        return _standard_check(prop, a, r, harness_args, coqchk, consts, harness_timeout, post, gen)
    except Exception as e:  # machinery failure: report as such, non-zero, no VIOLATION line
        import traceback
        traceback.print_exc()
        log("check machinery failed:", e)
        r.cleanup()
        return 2


def _standard_check(prop, a, r, harness_args, coqchk, consts, harness_timeout, post, gen=False):
    exe, out = build_harness(prop)
    if exe is None:
        log(out[-3000:])
        log("harness build failed")
        # Does the repository itself (guard off) still build? If not, nothing can be decided (status 2).
        rc0, out0 = run(["go", "build", "./..."], cwd=REPO, timeout=900, env=goenv())
        if rc0 != 0:
            r.coverage["explanation"] = "the repository does not build"
            log(out0[-2000:])
            r.cleanup()
            return 2
        # The repository builds but the driver (export files / API used by the correspondence run) does not:
        # the tie between model and code is broken, the property is no longer shown to hold.
        gate = proof_gate(prop)
        r.violation("corr:harness-build",
                    "correspondence %s: the implementation driver no longer builds against the repository "
                    "(an interface the correspondence run relies on changed)" % prop,
                    {"correspondence": "corr:%s/harness-build" % prop, "build_output_tail": out[-2500:]},
                    found_input=False)
        r.coverage["explanation"] = "harness build failed; repository builds"
        return r.finish(gate)
    if consts:
        regen_consts(prop, exe)
    gen_failure = regen_gen(prop) if gen else None
    gate = proof_gate(prop)
    if gen_failure:
        # the translator could not regenerate Gen.v from the current sources (unsupported construct after a
        # refactoring, function not found): the proofs were checked against a stale Gen.v, so the gate is red
        gate["ok"] = False
        gate["failures"].insert(0, gen_failure)
    if not gate["ok"]:
        log("proof gate RED:", gate["failures"])
    outdir = os.path.join(r.workdir, "cases")
    os.makedirs(outdir)
    if a.replay:
        hargs = ["-replay", a.replay, "-out", outdir]
    else:
        hargs = harness_args(a.tier, a.seed, outdir)
    t0 = time.time()
    rc, hout = run([exe] + hargs, cwd=r.workdir, timeout=harness_timeout, env=goenv())
    log("harness rc=%d in %.1fs" % (rc, time.time() - t0))
    if rc != 0:
        log(hout[-3000:])
        r.violation("harness-crash", "the implementation driver exited with status %d" % rc,
                    {"harness_output_tail": hout[-3000:], "args": hargs}, found_input=True)
        return r.finish(gate)
    stats = json.load(open(os.path.join(outdir, "stats.json")))
    cases = [json.loads(l) for l in open(os.path.join(outdir, "cases.jsonl"))]
    byfile = {}
    for c in cases:
        byfile[(c["file"], c["index"])] = c
    files = sorted(glob.glob(os.path.join(outdir, "cases_*.v")))
    t0 = time.time()
    diffs, specfails, errors = ([], [], [])
    if gate["ok"] or os.path.exists(os.path.join(coq_dir(prop), "CaseDefs.vo")):
        diffs, specfails, errors = eval_cases(prop, files)
    else:
        errors = [("build", "model does not build")]
    log("model evaluation of %d cases in %d files: %.1fs; diffs=%d specfails=%d errors=%d" % (
        len(cases), len(files), time.time() - t0, len(diffs), len(specfails), len(errors)))
    if errors and gate["ok"]:
        log(errors[0][1])
        raise RuntimeError("case evaluation failed: %s" % errors[0][0])

    def case_of(f, i):
        return byfile.get((os.path.basename(f), i), {"file": os.path.basename(f), "index": i})

    # spec failures: concrete failing inputs
    for f, i in specfails:
        c = case_of(f, i)
        r.violation(c.get("class", "spec"), "implementation output violates the specification: %s" %
                    c.get("class", ""), {"case": c}, found_input=True)
    sf = set(specfails)
    only_diff = [(f, i) for f, i in diffs if (f, i) not in sf]
    # spec failures of a recorded known finding must not hide a broken correspondence / proof elsewhere
    known_fps = {k["fingerprint"] for k in load_known()[0] if k["property"] == prop}
    specfails_all = specfails
    specfails = [x for x in specfails if case_of(*x).get("class", "spec") not in known_fps]
    direct = os.path.exists(os.path.join(outdir, "violations.jsonl")) and \
        os.path.getsize(os.path.join(outdir, "violations.jsonl")) > 0
    if (only_diff or not gate["ok"]) and not specfails and not direct and not a.replay \
            and os.path.exists(os.path.join(coq_dir(prop), "CaseDefs.vo")):
        # DESIGN 1.2: the correspondence (or a proof) broke but nothing explored so far violates
        # the spec: search fresh generated inputs for a concrete failing one (spec checker only)
        extra = 3 if a.tier == "quick" else 8
        for k in range(1, extra + 1):
            od = os.path.join(r.workdir, "search%d" % k)
            os.makedirs(od)
            rc2, _ = run([exe] + harness_args(a.tier, a.seed + 7919 * k, od), cwd=r.workdir,
                         timeout=harness_timeout, env=goenv())
            if rc2 != 0:
                break
            fs2 = sorted(glob.glob(os.path.join(od, "cases_*.v")))
            _d2, s2, e2 = eval_cases(prop, fs2)
            r.coverage["spec_search_rounds"] = k
            vp2 = os.path.join(od, "violations.jsonl")
            if os.path.exists(vp2) and os.path.getsize(vp2) > 0:
                for l in open(vp2):
                    v = json.loads(l)
                    r.violation(v["fingerprint"], v["what"], {"input": v.get("input"), "seed": a.seed + 7919 * k},
                                found_input=True)
                specfails = specfails or [("search", -1)]
                break
            if s2:
                c2 = {}
                for l in open(os.path.join(od, "cases.jsonl")):
                    c = json.loads(l)
                    if (c["file"], c["index"]) == (os.path.basename(s2[0][0]), s2[0][1]):
                        c2 = c
                        break
                r.violation(c2.get("class", "spec"), "implementation output violates the specification "
                            "(found by the spec-only search, seed %d): %s" % (a.seed + 7919 * k, c2.get("class", "")),
                            {"case": c2, "seed": a.seed + 7919 * k}, found_input=True)
                specfails = specfails or [("search", -1)]
                break
    if only_diff and not specfails:
        c = case_of(*only_diff[0])
        r.violation("corr:" + c.get("class", "model"),
                    "correspondence %s/model no longer checks (implementation differs from the model "
                    "on %d cases; none of the explored cases violates the spec checker)" % (prop, len(only_diff)),
                    {"correspondence": "corr:%s/%s" % (prop, c.get("class", "")), "first_disagreeing_case": c,
                     "disagreements": len(only_diff)}, found_input=False)
    if not gate["ok"] and not specfails:
        r.violation("thm:" + ";".join(gate["failures"])[:60],
                    "proof gate red: " + "; ".join(gate["failures"]),
                    {"theorem_or_obligation": gate["failures"], "log_tail": gate["log"][-1500:]},
                    found_input=False)
    vpath = os.path.join(outdir, "violations.jsonl")
    if os.path.exists(vpath):
        for l in open(vpath):
            v = json.loads(l)
            r.violation(v["fingerprint"], v["what"], {"input": v.get("input")}, found_input=True)
    if post:
        post(r, a, outdir, cases, stats)
    ntr = {json.dumps(c.get("input"), sort_keys=True) for c in cases if c.get("nontrivial")}
    r.coverage["evaluations"] = stats.get("evaluations", len(cases))
    r.coverage["distinct_nontrivial"] = len(ntr)
    r.coverage["traces_validated_against_impl"] = len(cases)
    r.coverage["disagreements_model_vs_impl"] = len(diffs)
    r.coverage["spec_failures"] = len(specfails_all)
    r.coverage["distribution"] = stats.get("distribution", {})
    r.coverage["exhaustive"] = bool(stats.get("exhaustive", False))
    step = max(1, len(cases) // 5)
    r.coverage["samples"] = [{k: c.get(k) for k in ("class", "input", "impl")} for c in cases[::step][:6]]
    if coqchk and a.tier == "thorough":
        rc, out = run_coqchk(prop)
        r.coverage["coqchk"] = out[-1500:]
        if rc != 0:
            r.violation("thm:coqchk", "coqchk rejected the compiled development", {"log": out[-3000:]},
                        found_input=False)
    return r.finish(gate)


def regen_consts(prop, exe):
    """Ask the harness (which imports the repository) to print Consts.v; rewrite it only when it
    changed so that make re-checks every proof depending on it."""
    rc, out = run([exe, "-consts"], timeout=120, env=goenv())
    if rc != 0:
        raise RuntimeError("harness -consts failed: " + out[-1000:])
    path = os.path.join(coq_dir(prop), "Consts.v")
    old = open(path).read() if os.path.exists(path) else None
    if old != out:
        with Lock("coq-" + prop):
            open(path, "w").write(out)
        log("Consts.v regenerated (changed)")


def build_go2coq(timeout=600):
    """go build ./cmd/go2coq (standard library only) from the harness module; binary under the build dir."""
    outdir = os.path.join(BUILD, "bin" if REPO == "/repo" else "bin-" + hashlib.sha1(REPO.encode()).hexdigest()[:10])
    os.makedirs(outdir, exist_ok=True)
    exe = os.path.join(outdir, "go2coq")
    with Lock("go2coq"):
        tmp = exe + ".tmp%d" % os.getpid()
        rc, out = run(["go", "build", "-o", tmp, "./cmd/go2coq"], cwd=os.path.join(ROOT, "harness"),
                      timeout=timeout, env=goenv())
        if rc != 0:
            return None, out
        os.replace(tmp, exe)
    return exe, out


def regen_gen(prop):
    """Regenerate props/<prop>/coq/Gen.v from the Go sources of REPO with the translator
    (harness/cmd/go2coq, spec props/<prop>/gen.json); the file is rewritten only when its text changed so
    that make re-checks every proof depending on it. Returns None, or a failure text `gen:<prop>/<func>: ...`
    (the caller turns it into a red proof gate; it never raises for a translation failure)."""
    spec = os.path.join(ROOT, "props", prop, "gen.json")
    exe, out = build_go2coq()
    if exe is None:
        raise RuntimeError("go2coq does not build: " + out[-1500:])
    tmpd = tempfile.mkdtemp(prefix="verif-gen-")
    try:
        tmp = os.path.join(tmpd, "Gen.v")
        rc, out = run([exe, "-repo", REPO, "-spec", spec, "-out", tmp], timeout=120, env=goenv())
        if rc != 0:
            m = re.search(r"FAILED func=(\S*?): (.*)", out)
            func, msg = (m.group(1), m.group(2)) if m else ("?", out.strip()[-300:])
            log("go2coq failed:", out.strip()[-600:])
            return "gen:%s/%s: the translator cannot regenerate the Gallina definition from the source: %s" % (
                prop, func, msg[:300])
        new = open(tmp).read()
    finally:
        shutil.rmtree(tmpd, ignore_errors=True)
    path = os.path.join(coq_dir(prop), "Gen.v")
    old = open(path).read() if os.path.exists(path) else None
    if old != new:
        with Lock("coq-" + prop):
            open(path, "w").write(new)
        log("Gen.v regenerated (changed)")
    return None


def run_coqchk(prop, timeout=3000):
    d = coq_dir(prop)
    mods = ["%s.Props" % prop]
    return run(["coqchk", "-silent", "-o"] + coq_args(prop) + mods, cwd=d, timeout=timeout)
