// Package rng is the single source of randomness of the harness: splitmix64, so that a
// run is replayable from VERIF_SEED alone.
package rng

type R struct{ s uint64 }

func New(seed uint64) *R { return &R{s: seed*0x9E3779B97F4A7C15 + 0x1234567} }

func (r *R) U64() uint64 {
	r.s += 0x9E3779B97F4A7C15
	z := r.s
	z = (z ^ (z >> 30)) * 0xBF58476D1CE4E5B9
	z = (z ^ (z >> 27)) * 0x94D049BB133111EB
	return z ^ (z >> 31)
}

// Intn returns a value in [0,n). n must be > 0.
func (r *R) Intn(n int) int { return int(r.U64() % uint64(n)) }

// Range returns a value in [lo,hi].
func (r *R) Range(lo, hi int) int { return lo + r.Intn(hi-lo+1) }

func (r *R) Bool() bool { return r.U64()&1 == 1 }

// Chance is true with probability num/den.
func (r *R) Chance(num, den int) bool { return r.Intn(den) < num }

// Fork derives an independent generator (for parallel workers) deterministically.
func (r *R) Fork() *R { return New(r.U64()) }

func Pick[T any](r *R, xs []T) T { return xs[r.Intn(len(xs))] }

func Shuffle[T any](r *R, xs []T) {
	for i := len(xs) - 1; i > 0; i-- {
		j := r.Intn(i + 1)
		xs[i], xs[j] = xs[j], xs[i]
	}
}
