// Package crashfs observes the file-system operations a child process really issues below one
// directory (through strace) and rebuilds from that log every intermediate state of the
// directory: the state after the first k operations, the (k+1)-th write torn at any byte
// length, and power-loss variants in which a file is cut back to any length not smaller than
// what was last fsynced. It is the crash-state builder of DESIGN.md section 2/4: no hook in the
// write, seal or delete paths of seq-db is needed, and a removed fsync or a reordered rename
// shows up in the log itself.
//
// Model: names -> inodes (a rename moves the inode, a write through an fd opened before the
// rename still lands in it); operations take effect in the order in which their system calls
// completed; create/rename/unlink are atomic and durable in issue order (directory entries are
// never lost); written data is durable up to the length recorded at the last fsync of the file.
package crashfs

import (
	"bufio"
	"bytes"
	"fmt"
	"os"
	"os/exec"
	"path/filepath"
	"regexp"
	"sort"
	"strconv"
	"strings"
)

type Kind int

const (
	Create   Kind = iota // a new name bound to a new empty inode (or truncation of an existing one with O_TRUNC)
	Write                // Data written at Off of inode Ino
	Fsync                // file data of Ino durable up to its current length
	Rename               // Path -> Path2
	Unlink               // name Path removed
	Truncate             // Ino resized to Off
	FsyncDir             // fsync on a directory
	Mkdir                // directory Path created
	Mark                 // the child wrote a line starting with "@@" to its stdout/stderr: Text (without "@@")
)

func (k Kind) String() string {
	return [...]string{"create", "write", "fsync", "rename", "unlink", "truncate", "fsyncdir", "mkdir", "mark"}[k]
}

// Op is one observed operation. Paths are relative to the traced root.
type Op struct {
	Kind  Kind
	Ino   int
	Path  string // name involved (for Write/Fsync/Truncate: the name the inode had when the fd was opened)
	Path2 string
	Off   int64
	Data  []byte
	Text  string
	Trunc bool // Create on an existing name with O_TRUNC
}

func (o Op) String() string {
	switch o.Kind {
	case Write:
		return fmt.Sprintf("write %s off=%d len=%d", o.Path, o.Off, len(o.Data))
	case Rename:
		return fmt.Sprintf("rename %s -> %s", o.Path, o.Path2)
	case Truncate:
		return fmt.Sprintf("truncate %s to %d", o.Path, o.Off)
	case Mark:
		return "mark " + o.Text
	}
	return o.Kind.String() + " " + o.Path
}

type File struct {
	Data   []byte
	Synced int // bytes known durable (length at the last fsync; 0 for a file never fsynced)
}

// State of the directory: names -> inode numbers, inode numbers -> contents.
type State struct {
	Names  map[string]int
	Inodes map[int]*File
	Dirs   map[string]bool
	next   int
}

func NewState() *State {
	return &State{Names: map[string]int{}, Inodes: map[int]*File{}, Dirs: map[string]bool{}, next: 1}
}

// Snapshot reads the directory as it is now (every file counts as fully durable).
func Snapshot(root string) (*State, error) {
	s := NewState()
	err := filepath.Walk(root, func(p string, info os.FileInfo, err error) error {
		if err != nil {
			return err
		}
		rel, _ := filepath.Rel(root, p)
		if rel == "." {
			return nil
		}
		if info.IsDir() {
			s.Dirs[rel] = true
			return nil
		}
		if !info.Mode().IsRegular() {
			return nil
		}
		b, err := os.ReadFile(p)
		if err != nil {
			return err
		}
		s.Names[rel] = s.next
		s.Inodes[s.next] = &File{Data: b, Synced: len(b)}
		s.next++
		return nil
	})
	return s, err
}

func (s *State) Clone() *State {
	c := &State{Names: make(map[string]int, len(s.Names)), Inodes: make(map[int]*File, len(s.Inodes)),
		Dirs: make(map[string]bool, len(s.Dirs)), next: s.next}
	for k, v := range s.Names {
		c.Names[k] = v
	}
	for k, v := range s.Dirs {
		c.Dirs[k] = v
	}
	for k, v := range s.Inodes {
		c.Inodes[k] = &File{Data: append([]byte(nil), v.Data...), Synced: v.Synced}
	}
	return c
}

// Apply executes one operation completely.
func (s *State) Apply(o Op) { s.apply(o, -1) }

// ApplyTorn executes a Write cut to its first n bytes (n <= len(o.Data)); other kinds are applied whole.
func (s *State) ApplyTorn(o Op, n int) { s.apply(o, n) }

func (s *State) apply(o Op, torn int) {
	switch o.Kind {
	case Create:
		if ino, ok := s.Names[o.Path]; ok && o.Trunc {
			if f := s.Inodes[ino]; f != nil {
				f.Data = f.Data[:0]
				f.Synced = 0
			}
			return
		}
		s.Names[o.Path] = o.Ino
		s.Inodes[o.Ino] = &File{}
		if o.Ino >= s.next {
			s.next = o.Ino + 1
		}
	case Write:
		f := s.Inodes[o.Ino]
		if f == nil {
			return
		}
		d := o.Data
		if torn >= 0 && torn < len(d) {
			d = d[:torn]
		}
		end := int(o.Off) + len(d)
		if end > len(f.Data) {
			f.Data = append(f.Data, make([]byte, end-len(f.Data))...)
		}
		copy(f.Data[o.Off:], d)
	case Fsync:
		if f := s.Inodes[o.Ino]; f != nil {
			f.Synced = len(f.Data)
		}
	case Rename:
		if s.Dirs[o.Path] {
			// directory rename: move every name below it
			delete(s.Dirs, o.Path)
			s.Dirs[o.Path2] = true
			for n, ino := range s.Names {
				if strings.HasPrefix(n, o.Path+"/") {
					delete(s.Names, n)
					s.Names[o.Path2+n[len(o.Path):]] = ino
				}
			}
			return
		}
		ino, ok := s.Names[o.Path]
		if !ok {
			return
		}
		delete(s.Names, o.Path)
		s.Names[o.Path2] = ino
	case Unlink:
		delete(s.Names, o.Path)
		delete(s.Dirs, o.Path)
	case Truncate:
		f := s.Inodes[o.Ino]
		if f == nil {
			return
		}
		if int(o.Off) <= len(f.Data) {
			f.Data = f.Data[:o.Off]
		} else {
			f.Data = append(f.Data, make([]byte, int(o.Off)-len(f.Data))...)
		}
		if f.Synced > len(f.Data) {
			f.Synced = len(f.Data)
		}
	case Mkdir:
		s.Dirs[o.Path] = true
	}
}

// PowerLoss cuts every file to keep(path, synced, length) bytes, clamped to [synced, length].
func (s *State) PowerLoss(keep func(path string, synced, length int) int) {
	for name, ino := range s.Names {
		f := s.Inodes[ino]
		if f == nil {
			continue
		}
		k := keep(name, f.Synced, len(f.Data))
		if k < f.Synced {
			k = f.Synced
		}
		if k > len(f.Data) {
			k = len(f.Data)
		}
		f.Data = f.Data[:k]
	}
}

// Files returns name -> contents.
func (s *State) Files() map[string][]byte {
	out := map[string][]byte{}
	for n, ino := range s.Names {
		if f := s.Inodes[ino]; f != nil {
			out[n] = f.Data
		}
	}
	return out
}

// FileNames returns the sorted names.
func (s *State) FileNames() []string {
	var out []string
	for n := range s.Names {
		out = append(out, n)
	}
	sort.Strings(out)
	return out
}

// Materialize writes the state into dir (created; must be empty or absent).
func (s *State) Materialize(dir string) error {
	if err := os.MkdirAll(dir, 0o755); err != nil {
		return err
	}
	for d := range s.Dirs {
		if err := os.MkdirAll(filepath.Join(dir, d), 0o755); err != nil {
			return err
		}
	}
	for n, b := range s.Files() {
		p := filepath.Join(dir, n)
		if err := os.MkdirAll(filepath.Dir(p), 0o755); err != nil {
			return err
		}
		if err := os.WriteFile(p, b, 0o644); err != nil {
			return err
		}
	}
	return nil
}

// Trace is the observed history of one child run.
type Trace struct {
	Root string
	Init *State
	Ops  []Op
}

// StateAt returns the state after the first k operations.
func (t *Trace) StateAt(k int) *State {
	s := t.Init.Clone()
	for i := 0; i < k && i < len(t.Ops); i++ {
		s.Apply(t.Ops[i])
	}
	return s
}

// Verify compares the state after all operations with the directory as it is on disk now. A
// mismatch means the log was not understood completely; callers must then not trust crash states.
func (t *Trace) Verify() error {
	want, err := Snapshot(t.Root)
	if err != nil {
		return err
	}
	got := t.StateAt(len(t.Ops)).Files()
	w := want.Files()
	for n, b := range w {
		g, ok := got[n]
		if !ok {
			return fmt.Errorf("crashfs: file %s on disk (%d bytes) but not in the rebuilt state", n, len(b))
		}
		if !bytes.Equal(g, b) {
			return fmt.Errorf("crashfs: file %s differs: disk %d bytes, rebuilt %d bytes", n, len(b), len(g))
		}
	}
	for n := range got {
		if _, ok := w[n]; !ok {
			return fmt.Errorf("crashfs: file %s in the rebuilt state but not on disk", n)
		}
	}
	return nil
}

const traced = "openat,open,creat,write,pwrite64,writev,pwritev,fsync,fdatasync,sync_file_range,rename,renameat,renameat2," +
	"unlink,unlinkat,rmdir,ftruncate,truncate,close,mkdir,mkdirat,lseek,dup,dup2,dup3,link,linkat,symlink,symlinkat,fallocate,copy_file_range,sendfile,mmap"

// Run executes cmd under strace and returns the operations below root (absolute path). cmd.Path/Args
// are wrapped; Stdin/Stdout/Stderr/Env/Dir are used as set by the caller. Run returns after the child
// exited; the child's exit error (if any) is returned as childErr, the trace is valid regardless.
func Run(root string, cmd *exec.Cmd) (t *Trace, childErr error, err error) {
	tr, err := Start(root, cmd)
	if err != nil {
		return nil, nil, err
	}
	childErr = tr.Cmd.Wait()
	t, err = tr.Finish()
	return t, childErr, err
}

// Running is a traced child that has been started.
type Running struct {
	Cmd  *exec.Cmd
	root string
	init *State
	log  string
}

// Start launches cmd under strace. The caller talks to the child through the pipes it set up,
// waits for it (r.Cmd.Wait or r.Cmd.Process.Kill + Wait) and then calls Finish.
func Start(root string, cmd *exec.Cmd) (*Running, error) {
	root, err := filepath.Abs(root)
	if err != nil {
		return nil, err
	}
	if r, err := filepath.EvalSymlinks(root); err == nil {
		root = r
	}
	init, err := Snapshot(root)
	if err != nil {
		return nil, err
	}
	lf, err := os.CreateTemp("", "verif-strace-*.log")
	if err != nil {
		return nil, err
	}
	lf.Close()
	args := append([]string{"-f", "-y", "-xx", "-s", "1073741823", "-e", "trace=" + traced, "-e", "signal=none",
		"-o", lf.Name(), "--"}, cmd.Args...)
	st, err := exec.LookPath("strace")
	if err != nil {
		return nil, err
	}
	cmd.Path = st
	cmd.Args = append([]string{"strace"}, args...)
	if err := cmd.Start(); err != nil {
		os.Remove(lf.Name())
		return nil, err
	}
	return &Running{Cmd: cmd, root: root, init: init, log: lf.Name()}, nil
}

// Finish parses the log (the child must have exited) and removes it.
func (r *Running) Finish() (*Trace, error) {
	if os.Getenv("VERIF_KEEP_STRACE") == "" {
		defer os.Remove(r.log)
	}
	f, err := os.Open(r.log)
	if err != nil {
		return nil, err
	}
	defer f.Close()
	ops, err := parse(bufio.NewReaderSize(f, 1<<20), r.root, r.init)
	if err != nil {
		return nil, err
	}
	return &Trace{Root: r.root, Init: r.init, Ops: ops}, nil
}

var retRe = regexp.MustCompile(`\)\s+= `)

type fdEntry struct {
	ino   int
	off   int64
	app   bool
	dir   bool
	path  string // relative name at open time ("" when outside the root)
	inner bool   // refers to something below the root
	std   bool   // stdout/stderr-like (pipe or terminal): candidate for marks
}

type parser struct {
	root    string
	st      *State // running state (to know sizes for O_APPEND and existing names)
	fds     map[int]*fdEntry
	ops     []Op
	pending map[string]string
	markBuf map[int][]byte
}

func parse(r *bufio.Reader, root string, init *State) ([]Op, error) {
	p := &parser{root: root, st: init.Clone(), fds: map[int]*fdEntry{}, pending: map[string]string{}, markBuf: map[int][]byte{}}
	for {
		line, err := r.ReadString('\n')
		if len(line) > 0 {
			if e := p.line(strings.TrimRight(line, "\n")); e != nil {
				return nil, e
			}
		}
		if err != nil {
			break
		}
	}
	return p.ops, nil
}

func (p *parser) emit(o Op) {
	p.st.Apply(o)
	p.ops = append(p.ops, o)
}

func (p *parser) line(l string) error {
	sp := strings.IndexByte(l, ' ')
	if sp < 0 {
		return nil
	}
	pid := l[:sp]
	rest := strings.TrimLeft(l[sp:], " ")
	if strings.HasPrefix(rest, "---") || strings.HasPrefix(rest, "+++") {
		return nil
	}
	if strings.HasSuffix(rest, "<unfinished ...>") {
		p.pending[pid] = strings.TrimSuffix(rest, "<unfinished ...>")
		return nil
	}
	if strings.HasPrefix(rest, "<... ") {
		i := strings.Index(rest, "resumed>")
		if i < 0 {
			return nil
		}
		pre, ok := p.pending[pid]
		if !ok {
			return nil
		}
		delete(p.pending, pid)
		rest = pre + rest[i+len("resumed>"):]
	}
	return p.call(rest)
}

// unhex decodes a strace -xx string body (\xNN sequences; anything else is copied).
func unhex(s string) []byte {
	out := make([]byte, 0, len(s)/4)
	for i := 0; i < len(s); {
		if s[i] == '\\' && i+3 < len(s) && s[i+1] == 'x' {
			v, err := strconv.ParseUint(s[i+2:i+4], 16, 8)
			if err == nil {
				out = append(out, byte(v))
				i += 4
				continue
			}
		}
		out = append(out, s[i])
		i++
	}
	return out
}

// splitArgs splits the argument list at top-level commas (quotes, <>, [], {} nest).
func splitArgs(s string) []string {
	var out []string
	depth := 0
	inq := false
	start := 0
	for i := 0; i < len(s); i++ {
		c := s[i]
		if inq {
			if c == '\\' {
				i++
			} else if c == '"' {
				inq = false
			}
			continue
		}
		switch c {
		case '"':
			inq = true
		case '<', '[', '{', '(':
			depth++
		case '>', ']', '}', ')':
			depth--
		case ',':
			if depth == 0 {
				out = append(out, strings.TrimSpace(s[start:i]))
				start = i + 1
			}
		}
	}
	if start < len(s) {
		out = append(out, strings.TrimSpace(s[start:]))
	}
	return out
}

// fdArg parses "12<\x2f...>" into (12, "/...").
func fdArg(a string) (int, string) {
	i := strings.IndexByte(a, '<')
	if i < 0 {
		n, err := strconv.Atoi(a)
		if err != nil {
			return -1, ""
		}
		return n, ""
	}
	n, err := strconv.Atoi(a[:i])
	if err != nil {
		if a[:i] == "AT_FDCWD" {
			n = -100
		} else {
			return -1, ""
		}
	}
	j := strings.LastIndexByte(a, '>')
	if j < i {
		j = len(a)
	}
	return n, string(unhex(a[i+1 : j]))
}

func strArg(a string) (string, bool) {
	a = strings.TrimSuffix(a, "...")
	if len(a) < 2 || a[0] != '"' || a[len(a)-1] != '"' {
		return "", false
	}
	return string(unhex(a[1 : len(a)-1])), true
}

func (p *parser) rel(abs string) (string, bool) {
	abs = strings.TrimSuffix(abs, " (deleted)")
	if abs == p.root {
		return ".", true
	}
	if strings.HasPrefix(abs, p.root+"/") {
		return abs[len(p.root)+1:], true
	}
	return "", false
}

func (p *parser) resolve(dirArg, path string) string {
	if filepath.IsAbs(path) {
		return filepath.Clean(path)
	}
	_, base := fdArg(dirArg)
	if base == "" {
		return filepath.Clean(path)
	}
	return filepath.Join(base, path)
}

func (p *parser) call(c string) error {
	po := strings.IndexByte(c, '(')
	if po < 0 {
		return nil
	}
	name := c[:po]
	// "...) = ret": strace pads short calls with spaces before the "="
	loc := retRe.FindAllStringIndex(c, -1)
	if len(loc) == 0 {
		return fmt.Errorf("crashfs: cannot find the return value in strace line %.80q", c)
	}
	eq, eqEnd := loc[len(loc)-1][0], loc[len(loc)-1][1]
	if eq < po {
		return nil
	}
	argstr := strings.TrimSpace(c[po+1 : eq])
	retstr := strings.TrimSpace(c[eqEnd:])
	args := splitArgs(argstr)
	retTok := retstr
	if i := strings.IndexAny(retTok, " "); i >= 0 {
		retTok = retTok[:i]
	}
	failed := strings.HasPrefix(retTok, "-1") || retTok == "?"
	switch name {
	case "openat", "open", "creat":
		if failed {
			return nil
		}
		fd, abs := fdArg(retTok)
		if fd < 0 {
			return nil
		}
		var flags string
		var pathArg string
		switch name {
		case "openat":
			if len(args) < 3 {
				return nil
			}
			s, _ := strArg(args[1])
			pathArg = p.resolve(args[0], s)
			flags = args[2]
		case "open":
			if len(args) < 2 {
				return nil
			}
			s, _ := strArg(args[0])
			pathArg = filepath.Clean(s)
			flags = args[1]
		case "creat":
			s, _ := strArg(args[0])
			pathArg = filepath.Clean(s)
			flags = "O_CREAT|O_WRONLY|O_TRUNC"
		}
		if abs == "" {
			abs = pathArg
		}
		rel, inner := p.rel(abs)
		e := &fdEntry{inner: inner, path: rel}
		p.fds[fd] = e
		if !inner {
			e.std = false
			return nil
		}
		if strings.Contains(flags, "O_DIRECTORY") || p.st.Dirs[rel] || rel == "." {
			e.dir = true
			return nil
		}
		if fi, err := os.Stat(abs); err == nil && fi.IsDir() {
			e.dir = true
			return nil
		}
		ino, exists := p.st.Names[rel]
		if !exists {
			// new file (O_CREAT) — or a file we never saw being created (then treat it as created here)
			ino = p.st.next
			p.emit(Op{Kind: Create, Ino: ino, Path: rel})
		} else if strings.Contains(flags, "O_TRUNC") {
			p.emit(Op{Kind: Create, Ino: ino, Path: rel, Trunc: true})
		}
		e.ino = ino
		e.app = strings.Contains(flags, "O_APPEND")
		return nil
	case "close":
		if len(args) >= 1 {
			fd, _ := fdArg(args[0])
			delete(p.fds, fd)
		}
		return nil
	case "dup", "dup2", "dup3":
		if failed || len(args) < 1 {
			return nil
		}
		ofd, _ := fdArg(args[0])
		nfd, _ := fdArg(retTok)
		if e, ok := p.fds[ofd]; ok {
			p.fds[nfd] = e
		}
		return nil
	case "lseek":
		if failed || len(args) < 1 {
			return nil
		}
		fd, _ := fdArg(args[0])
		if e, ok := p.fds[fd]; ok && e.inner {
			if v, err := strconv.ParseInt(retTok, 10, 64); err == nil {
				e.off = v
			}
		}
		return nil
	case "write", "pwrite64":
		if len(args) < 3 {
			return nil
		}
		fd, abs := fdArg(args[0])
		e, known := p.fds[fd]
		if !known || !e.inner {
			// not below the root: maybe a mark on stdout/stderr (pipes, terminals, files elsewhere)
			if name == "write" && !failed {
				if _, inner := p.rel(abs); !inner {
					if data, ok := strArg(args[1]); ok {
						p.marks(fd, []byte(data))
					}
				}
			}
			return nil
		}
		if failed {
			return nil
		}
		n, err := strconv.ParseInt(retTok, 10, 64)
		if err != nil {
			return fmt.Errorf("crashfs: cannot parse return of %s: %q", name, retstr)
		}
		ds, ok := strArg(args[1])
		if !ok {
			return fmt.Errorf("crashfs: cannot parse data of %s on %s", name, e.path)
		}
		data := []byte(ds)
		if int64(len(data)) < n {
			return fmt.Errorf("crashfs: %s on %s wrote %d bytes but the log holds %d", name, e.path, n, len(data))
		}
		data = data[:n]
		var off int64
		if name == "pwrite64" {
			if len(args) < 4 {
				return nil
			}
			off, err = strconv.ParseInt(args[3], 10, 64)
			if err != nil {
				return fmt.Errorf("crashfs: pwrite64 offset %q", args[3])
			}
		} else {
			if e.app {
				if f := p.st.Inodes[e.ino]; f != nil {
					e.off = int64(len(f.Data))
				}
			}
			off = e.off
			e.off += n
		}
		p.emit(Op{Kind: Write, Ino: e.ino, Path: e.path, Off: off, Data: data})
		return nil
	case "writev", "pwritev", "copy_file_range", "sendfile", "fallocate", "link", "linkat", "symlink", "symlinkat", "truncate", "sync_file_range":
		// not used by seq-db on files below its data directory; refuse to guess if one shows up there
		if failed {
			return nil
		}
		if len(args) >= 1 {
			fd, abs := fdArg(args[0])
			if e, ok := p.fds[fd]; ok && e.inner && (name == "writev" || name == "pwritev" || name == "fallocate" || name == "sync_file_range") {
				return fmt.Errorf("crashfs: unsupported %s on %s", name, e.path)
			}
			_ = abs
		}
		if name == "copy_file_range" || name == "sendfile" {
			for _, a := range args {
				fd, _ := fdArg(a)
				if e, ok := p.fds[fd]; ok && e.inner && !e.dir && strings.Contains(a, "<") {
					_ = e
				}
			}
		}
		if name == "truncate" || name == "link" || name == "linkat" || name == "symlink" || name == "symlinkat" {
			for _, a := range args {
				if s, ok := strArg(a); ok {
					if _, inner := p.rel(filepath.Clean(s)); inner {
						return fmt.Errorf("crashfs: unsupported %s on %s", name, s)
					}
				}
			}
		}
		return nil
	case "mmap":
		// a shared writable mapping of a file below the root would bypass write(): refuse
		if failed || len(args) < 5 {
			return nil
		}
		if strings.Contains(args[3], "MAP_SHARED") && strings.Contains(args[2], "PROT_WRITE") {
			fd, _ := fdArg(args[4])
			if e, ok := p.fds[fd]; ok && e.inner {
				return fmt.Errorf("crashfs: writable shared mmap of %s", e.path)
			}
		}
		return nil
	case "fsync", "fdatasync":
		if failed || len(args) < 1 {
			return nil
		}
		fd, _ := fdArg(args[0])
		e, ok := p.fds[fd]
		if !ok || !e.inner {
			return nil
		}
		if e.dir {
			p.emit(Op{Kind: FsyncDir, Path: e.path})
		} else {
			p.emit(Op{Kind: Fsync, Ino: e.ino, Path: e.path})
		}
		return nil
	case "ftruncate":
		if failed || len(args) < 2 {
			return nil
		}
		fd, _ := fdArg(args[0])
		e, ok := p.fds[fd]
		if !ok || !e.inner {
			return nil
		}
		n, err := strconv.ParseInt(args[1], 10, 64)
		if err != nil {
			return fmt.Errorf("crashfs: ftruncate length %q", args[1])
		}
		p.emit(Op{Kind: Truncate, Ino: e.ino, Path: e.path, Off: n})
		return nil
	case "rename", "renameat", "renameat2":
		if failed {
			return nil
		}
		var a, b string
		if name == "rename" {
			if len(args) < 2 {
				return nil
			}
			s1, _ := strArg(args[0])
			s2, _ := strArg(args[1])
			a, b = filepath.Clean(s1), filepath.Clean(s2)
		} else {
			if len(args) < 4 {
				return nil
			}
			s1, _ := strArg(args[1])
			s2, _ := strArg(args[3])
			a, b = p.resolve(args[0], s1), p.resolve(args[2], s2)
		}
		ra, ina := p.rel(a)
		rb, inb := p.rel(b)
		switch {
		case ina && inb:
			p.emit(Op{Kind: Rename, Path: ra, Path2: rb})
		case ina:
			p.emit(Op{Kind: Unlink, Path: ra})
		case inb:
			return fmt.Errorf("crashfs: rename from outside the root into %s", rb)
		}
		return nil
	case "unlink", "unlinkat", "rmdir":
		if failed {
			return nil
		}
		var a string
		if name == "unlinkat" {
			if len(args) < 2 {
				return nil
			}
			s, _ := strArg(args[1])
			a = p.resolve(args[0], s)
		} else {
			s, _ := strArg(args[0])
			a = filepath.Clean(s)
		}
		if r, in := p.rel(a); in {
			p.emit(Op{Kind: Unlink, Path: r})
		}
		return nil
	case "mkdir", "mkdirat":
		if failed {
			return nil
		}
		var a string
		if name == "mkdirat" {
			if len(args) < 2 {
				return nil
			}
			s, _ := strArg(args[1])
			a = p.resolve(args[0], s)
		} else {
			s, _ := strArg(args[0])
			a = filepath.Clean(s)
		}
		if r, in := p.rel(a); in {
			p.emit(Op{Kind: Mkdir, Path: r})
		}
		return nil
	}
	return nil
}

// marks collects lines starting with "@@" written to a descriptor outside the root.
func (p *parser) marks(fd int, data []byte) {
	buf := append(p.markBuf[fd], data...)
	for {
		i := bytes.IndexByte(buf, '\n')
		if i < 0 {
			break
		}
		line := string(buf[:i])
		buf = buf[i+1:]
		if strings.HasPrefix(line, "@@") {
			p.ops = append(p.ops, Op{Kind: Mark, Text: strings.TrimPrefix(line, "@@")})
		}
	}
	if len(buf) > 1<<16 {
		buf = nil
	}
	p.markBuf[fd] = buf
}
