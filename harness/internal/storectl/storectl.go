// Package storectl runs the real store code in a child process that the driver controls over
// stdin/stdout (one JSON object per line), optionally under crashfs (strace) so that every
// intermediate state of the data directory can be rebuilt. A child that dies (logger.Fatal,
// panic, kill) is observed by the parent as such — this is how start-up failures and crashes
// of background goroutines become visible to a check instead of taking the driver down.
//
// A harness binary calls storectl.MaybeChild() first thing in main(); the parent side starts
// the same executable again with the argument "-storectl-child".
//
// Built-in operations (FracManager level, through harness/internal/fracbuild):
//
//	open   {dir, frac_size, total_size, cache_size, skip_sort_docs}   -> {fracs}
//	bulk   {docs:[{mid,rid,body_hex,tokens}]}                         -> {} (answer = acknowledgement)
//	seal   {}                                                         -> {fracs}
//	search {text, token_field..., from, to, limit, reverse, total}   -> {ids:[[mid,rid]...], total}
//	fetch  {ids:[[mid,rid]...]}                                       -> {docs_hex:[...]}
//	fracs  {}                                                         -> {fracs:[{name,docs,from,to,sealed}]}
//	exit   {}
//
// Drivers may register further operations with Register before calling MaybeChild.
// Every answer line is written as "@@" + JSON, so crashfs records it as a Mark between the file
// operations (position of an acknowledgement relative to the fsyncs).
package storectl

import (
	"bufio"
	"encoding/hex"
	"encoding/json"
	"errors"
	"fmt"
	"io"
	"os"
	"os/exec"
	"path/filepath"
	"strings"
	"sync"
	"syscall"
	"time"

	"github.com/ozontech/seq-db/fracmanager"
	"github.com/ozontech/seq-db/seq"

	"verif/harness/internal/crashfs"
	"verif/harness/internal/fracbuild"
)

const childFlag = "-storectl-child"

type Doc struct {
	MID     uint64   `json:"mid"`
	RID     uint64   `json:"rid"`
	BodyHex string   `json:"body_hex"`
	Tokens  []string `json:"tokens"`
}

type FracInfo struct {
	Name   string `json:"name"`
	Docs   uint32 `json:"docs"`
	From   uint64 `json:"from"`
	To     uint64 `json:"to"`
	Sealed bool   `json:"sealed"`
}

type Req struct {
	Op           string          `json:"op"`
	Dir          string          `json:"dir,omitempty"`
	FracSize     uint64          `json:"frac_size,omitempty"`
	TotalSize    uint64          `json:"total_size,omitempty"`
	CacheSize    uint64          `json:"cache_size,omitempty"`
	SkipSortDocs bool            `json:"skip_sort_docs,omitempty"`
	Docs         []Doc           `json:"docs,omitempty"`
	Text         string          `json:"text,omitempty"`
	Fields       []string        `json:"fields,omitempty"` // keyword-mapped field names for the query
	From         uint64          `json:"from,omitempty"`
	To           uint64          `json:"to,omitempty"`
	Limit        int             `json:"limit,omitempty"`
	Reverse      bool            `json:"reverse,omitempty"`
	WithTotal    bool            `json:"total,omitempty"`
	IDs          [][2]uint64     `json:"ids,omitempty"`
	Extra        json.RawMessage `json:"extra,omitempty"`
}

type Resp struct {
	OK      bool            `json:"ok"`
	Err     string          `json:"err,omitempty"`
	Fracs   []FracInfo      `json:"fracs,omitempty"`
	IDs     [][2]uint64     `json:"ids,omitempty"`
	Total   uint64          `json:"total,omitempty"`
	DocsHex []string        `json:"docs_hex,omitempty"`
	Extra   json.RawMessage `json:"extra,omitempty"`
}

// Handler of a driver-specific operation, executed in the child.
type Handler func(c *Child, r Req) (Resp, error)

var handlers = map[string]Handler{}

func Register(op string, h Handler) { handlers[op] = h }

// Child is the state inside the child process.
type Child struct {
	FM  *fracmanager.FracManager
	Dir string
}

// MaybeChild turns the process into a controlled child when it was started as one.
func MaybeChild() {
	if len(os.Args) < 2 || os.Args[1] != childFlag {
		return
	}
	c := &Child{}
	in := bufio.NewReaderSize(os.Stdin, 1<<20)
	out := bufio.NewWriter(os.Stdout)
	for {
		line, err := in.ReadBytes('\n')
		if len(line) == 0 && err != nil {
			os.Exit(0)
		}
		var r Req
		if e := json.Unmarshal(line, &r); e != nil {
			fmt.Fprintf(out, "@@%s\n", mustJSON(Resp{Err: "bad request: " + e.Error()}))
			out.Flush()
			continue
		}
		if r.Op == "exit" {
			fmt.Fprintf(out, "@@%s\n", mustJSON(Resp{OK: true}))
			out.Flush()
			os.Exit(0)
		}
		resp, e := c.handle(r)
		if e != nil {
			resp = Resp{Err: e.Error()}
		} else {
			resp.OK = true
		}
		fmt.Fprintf(out, "@@%s\n", mustJSON(resp))
		out.Flush()
	}
}

func mustJSON(v any) string {
	b, err := json.Marshal(v)
	if err != nil {
		panic(err)
	}
	return string(b)
}

func (c *Child) fracs() []FracInfo {
	var out []FracInfo
	if c.FM == nil {
		return out
	}
	for _, f := range c.FM.GetAllFracs() {
		i := f.Info()
		_, statErr := os.Stat(i.Path + ".index")
		out = append(out, FracInfo{Name: filepath.Base(i.Path), Docs: i.DocsTotal, From: uint64(i.From), To: uint64(i.To), Sealed: statErr == nil})
	}
	return out
}

func (c *Child) handle(r Req) (Resp, error) {
	if h, ok := handlers[r.Op]; ok {
		return h(c, r)
	}
	switch r.Op {
	case "open":
		fm, err := fracbuild.NewFM(r.Dir, func(cfg *fracmanager.Config) {
			if r.FracSize > 0 {
				cfg.FracSize = r.FracSize
			}
			if r.TotalSize > 0 {
				cfg.TotalSize = r.TotalSize
			}
			if r.CacheSize > 0 {
				cfg.CacheSize = r.CacheSize
			}
			cfg.Fraction.SkipSortDocs = r.SkipSortDocs
		})
		if err != nil {
			return Resp{}, err
		}
		c.FM, c.Dir = fm, r.Dir
		return Resp{Fracs: c.fracs()}, nil
	case "bulk":
		docs := make([]fracbuild.Doc, len(r.Docs))
		for i, d := range r.Docs {
			b, err := hex.DecodeString(d.BodyHex)
			if err != nil {
				return Resp{}, err
			}
			docs[i] = fracbuild.Doc{MID: d.MID, RID: d.RID, Body: b, Tokens: d.Tokens}
		}
		return Resp{}, fracbuild.Append(c.FM, docs)
	case "seal":
		fracbuild.Seal(c.FM)
		return Resp{Fracs: c.fracs()}, nil
	case "fracs":
		return Resp{Fracs: c.fracs()}, nil
	case "search":
		m := seq.Mapping{}
		for _, f := range r.Fields {
			m[f] = seq.NewSingleType(seq.TokenizerTypeKeyword, "", 0)
		}
		qpr, err := fracbuild.Search(fracbuild.Fracs(c.FM), fracbuild.Query{Text: r.Text, Mapping: m, From: r.From, To: r.To,
			Limit: r.Limit, Reverse: r.Reverse, WithTotal: r.WithTotal}, 0)
		if err != nil {
			return Resp{}, err
		}
		resp := Resp{Total: qpr.Total}
		for _, id := range qpr.IDs {
			resp.IDs = append(resp.IDs, [2]uint64{uint64(id.ID.MID), uint64(id.ID.RID)})
		}
		return resp, nil
	case "fetch":
		ids := make([]seq.ID, len(r.IDs))
		for i, p := range r.IDs {
			ids[i] = seq.ID{MID: seq.MID(p[0]), RID: seq.RID(p[1])}
		}
		docs, err := fracbuild.Fetch(fracbuild.Fracs(c.FM), ids)
		if err != nil {
			return Resp{}, err
		}
		resp := Resp{}
		for _, d := range docs {
			resp.DocsHex = append(resp.DocsHex, hex.EncodeToString(d))
		}
		return resp, nil
	}
	return Resp{}, fmt.Errorf("unknown op %q", r.Op)
}

// ---------------------------------------------------------------------------------------------
// parent side

// Store is a handle on a running child.
type Store struct {
	cmd     *exec.Cmd
	run     *crashfs.Running
	in      io.WriteCloser
	out     *bufio.Reader
	stderr  *tailBuf
	done    chan struct{}
	waitErr error
	Timeout time.Duration // per call (default 120 s); a child that does not answer in time is killed
}

type tailBuf struct {
	mu sync.Mutex
	b  []byte
}

func (t *tailBuf) Write(p []byte) (int, error) {
	t.mu.Lock()
	defer t.mu.Unlock()
	t.b = append(t.b, p...)
	if len(t.b) > 1<<16 {
		t.b = t.b[len(t.b)-(1<<15):]
	}
	return len(p), nil
}

func (t *tailBuf) String() string {
	t.mu.Lock()
	defer t.mu.Unlock()
	return string(t.b)
}

// ErrDied is returned by Call when the child exited instead of answering.
var ErrDied = errors.New("storectl: child died")

// Start launches a child of the current executable. With traceRoot != "" the child runs under
// crashfs and Close returns the trace of everything it did below traceRoot.
func Start(traceRoot string) (*Store, error) {
	exe, err := os.Executable()
	if err != nil {
		return nil, err
	}
	cmd := exec.Command(exe, childFlag)
	cmd.Env = append(os.Environ(), "GOMAXPROCS=4")
	cmd.SysProcAttr = &syscall.SysProcAttr{Setpgid: true} // strace + child in one group, so Kill reaches the child
	s := &Store{cmd: cmd, stderr: &tailBuf{}, done: make(chan struct{}), Timeout: 120 * time.Second}
	cmd.Stderr = s.stderr
	if s.in, err = cmd.StdinPipe(); err != nil {
		return nil, err
	}
	outp, err := cmd.StdoutPipe()
	if err != nil {
		return nil, err
	}
	s.out = bufio.NewReaderSize(outp, 1<<20)
	if traceRoot != "" {
		if s.run, err = crashfs.Start(traceRoot, cmd); err != nil {
			return nil, err
		}
	} else if err = cmd.Start(); err != nil {
		return nil, err
	}
	return s, nil
}

// Call sends one request and waits for the answer. If the child exits first, the error wraps
// ErrDied and carries the exit status and the tail of its stderr (Fatal message, panic trace).
func (s *Store) Call(r Req) (Resp, error) {
	b, _ := json.Marshal(r)
	if _, err := s.in.Write(append(b, '\n')); err != nil {
		return Resp{}, s.died(err)
	}
	type res struct {
		line string
		err  error
	}
	ch := make(chan res, 1)
	go func() {
		for {
			line, err := s.out.ReadString('\n')
			if strings.HasPrefix(line, "@@") {
				ch <- res{line: line[2:]}
				return
			}
			if err != nil {
				ch <- res{err: err}
				return
			}
		}
	}()
	select {
	case x := <-ch:
		if x.err != nil {
			return Resp{}, s.died(x.err)
		}
		var resp Resp
		if err := json.Unmarshal([]byte(x.line), &resp); err != nil {
			return Resp{}, err
		}
		if !resp.OK {
			return resp, errors.New(resp.Err)
		}
		return resp, nil
	case <-time.After(s.Timeout):
		s.kill()
		return Resp{}, fmt.Errorf("storectl: no answer to %s within %s (child killed): %w", r.Op, s.Timeout, ErrDied)
	}
}

func (s *Store) wait() error {
	select {
	case <-s.done:
	default:
		s.waitErr = s.cmd.Wait()
		close(s.done)
	}
	return s.waitErr
}

func (s *Store) died(cause error) error {
	werr := s.wait()
	tail := s.stderr.String()
	if len(tail) > 1500 {
		tail = tail[len(tail)-1500:]
	}
	return fmt.Errorf("%w: %v (exit: %v) stderr tail: %s", ErrDied, cause, werr, tail)
}

// Stderr returns the tail of what the child wrote to stderr so far.
func (s *Store) Stderr() string { return s.stderr.String() }

// Kill terminates the child at once (SIGKILL), as a crash.
func (s *Store) Kill() { s.kill() }

func (s *Store) kill() {
	if s.cmd.Process != nil {
		syscall.Kill(-s.cmd.Process.Pid, syscall.SIGKILL)
		s.cmd.Process.Kill()
	}
}

// Close asks the child to exit (or reaps a dead one) and returns the trace when traced.
func (s *Store) Close() (*crashfs.Trace, error) {
	select {
	case <-s.done:
	default:
		b, _ := json.Marshal(Req{Op: "exit"})
		s.in.Write(append(b, '\n'))
		s.in.Close()
		t := time.AfterFunc(30*time.Second, func() { s.kill() })
		s.wait()
		t.Stop()
	}
	if s.run == nil {
		return nil, nil
	}
	return s.run.Finish()
}
