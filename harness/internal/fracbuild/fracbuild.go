// Package fracbuild builds real fractions of seq-db for the correspondence drivers: documents
// go through the real append path (frac.DocProvider -> FracManager.Append -> active indexer),
// sealing through FracManager.SealForcedForTests (rotate + seal), searching through
// fracmanager.Searcher and fetching through fracmanager.Fetcher.
package fracbuild

import (
	"context"
	"fmt"
	"os"
	"strings"

	"github.com/ozontech/seq-db/frac"
	"github.com/ozontech/seq-db/frac/processor"
	"github.com/ozontech/seq-db/fracmanager"
	"github.com/ozontech/seq-db/parser"
	"github.com/ozontech/seq-db/seq"
)

// Doc is one document as the store receives it from the proxy: ID, body bytes, and its tokens
// ("field:value"). The `_all_:` token every document carries is added by Append.
type Doc struct {
	MID, RID uint64
	Body     []byte
	Tokens   []string
}

func (d Doc) ID() seq.ID { return seq.ID{MID: seq.MID(d.MID), RID: seq.RID(d.RID)} }

// NewFM creates a FracManager on dir (created if missing) and loads whatever is there.
// Background maintenance is NOT started: rotation/sealing happen only when the driver asks.
func NewFM(dir string, mod func(*fracmanager.Config)) (*fracmanager.FracManager, error) {
	if err := os.MkdirAll(dir, 0o755); err != nil {
		return nil, err
	}
	cfg := &fracmanager.Config{
		DataDir:      dir,
		FracSize:     1 << 40,
		TotalSize:    1 << 42,
		CacheSize:    1 << 28,
		ShouldReplay: true,
	}
	if mod != nil {
		mod(cfg)
	}
	fm := fracmanager.NewFracManager(cfg)
	if err := fm.Load(context.Background()); err != nil {
		return nil, err
	}
	return fm, nil
}

// Tokens converts "field:value" strings (value may contain ':') to seq.Tokens, copying bytes.
func Tokens(ts []string) []seq.Token {
	out := make([]seq.Token, 0, len(ts)+1)
	for _, s := range ts {
		i := strings.IndexByte(s, ':')
		if i < 0 {
			panic("fracbuild: token without ':' " + s)
		}
		out = append(out, seq.Token{Field: []byte(s[:i]), Val: []byte(s[i+1:])})
	}
	return out
}

// Append sends the documents as ONE bulk and waits until the index workers are idle.
func Append(fm *fracmanager.FracManager, docs []Doc) error {
	if len(docs) == 0 {
		return nil
	}
	dp := frac.NewDocProvider()
	for _, d := range docs {
		toks := Tokens(d.Tokens)
		toks = append(toks, seq.Token{Field: []byte(seq.TokenAll), Val: []byte{}})
		dp.Append(append([]byte{}, d.Body...), nil, d.ID(), toks)
	}
	docsBlock, metas := dp.Provide()
	if err := fm.Append(context.Background(), docsBlock, metas); err != nil {
		return err
	}
	fm.WaitIdle()
	return nil
}

// Close waits for the writers; FracManager.Stop must NOT be called on a manager that was never
// Start()ed (it dereferences the nil stop function). Files stay on disk for a later NewFM.
func Close(fm *fracmanager.FracManager) { fm.WaitIdle() }

// Seal rotates the active fraction and seals the previous one (when it holds documents).
func Seal(fm *fracmanager.FracManager) { fm.SealForcedForTests() }

// Fracs returns the fractions that hold documents (the trailing empty active one is dropped).
func Fracs(fm *fracmanager.FracManager) fracmanager.List {
	var out fracmanager.List
	for _, f := range fm.GetAllFracs() {
		if f.Info().DocsTotal > 0 {
			out = append(out, f)
		}
	}
	return out
}

// Query is a search request in source form.
type Query struct {
	Text      string // SeqQL
	Mapping   seq.Mapping
	From, To  uint64
	Limit     int
	Reverse   bool // true = ascending (oldest first)
	WithTotal bool
	Hist      uint64
	AggQ      []processor.AggQuery
}

func (q Query) Params() (processor.SearchParams, error) {
	ast, err := parser.ParseSeqQL(q.Text, q.Mapping)
	if err != nil {
		return processor.SearchParams{}, fmt.Errorf("parse %q: %w", q.Text, err)
	}
	order := seq.DocsOrderDesc
	if q.Reverse {
		order = seq.DocsOrderAsc
	}
	return processor.SearchParams{AST: ast.Root, AggQ: q.AggQ, HistInterval: q.Hist, From: seq.MID(q.From),
		To: seq.MID(q.To), Limit: q.Limit, WithTotal: q.WithTotal, Order: order}, nil
}

// Search runs the query over the given fractions with a Searcher (fractionsPerIteration 0 = all).
func Search(fracs fracmanager.List, q Query, fractionsPerIteration int) (*seq.QPR, error) {
	p, err := q.Params()
	if err != nil {
		return nil, err
	}
	s := fracmanager.NewSearcher(4, fracmanager.SearcherCfg{FractionsPerIteration: fractionsPerIteration})
	return s.SearchDocs(context.Background(), fracs, p)
}

// Fetch returns one entry per requested ID (empty = not found).
func Fetch(fracs fracmanager.List, ids []seq.ID) ([][]byte, error) {
	src := make([]seq.IDSource, len(ids))
	for i, id := range ids {
		src[i] = seq.IDSource{ID: id}
	}
	return fracmanager.NewFetcher(4).FetchDocs(context.Background(), fracs, src)
}
