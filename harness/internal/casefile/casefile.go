// Package casefile writes what a harness run produced in the form lib/vcheck.py expects:
//
//	cases_NNN.v   Coq files; each defines `cases : list case` (constructors from the
//	              property's CaseDefs.v) and evaluates, with vm_compute inside Coq,
//	              `diff_indices cases` (model output <> implementation output) and
//	              `specfail_indices cases` (implementation output violates the spec checker)
//	cases.jsonl   one JSON object per case (human readable; replay + evidence samples)
//	violations.jsonl  violations the driver observed directly (panic, hang, crash ...)
//	stats.json    counts and input distribution
package casefile

import (
	"bufio"
	"encoding/json"
	"fmt"
	"os"
	"path/filepath"
	"sort"
	"strings"
)

type Case struct {
	File       string `json:"file"`
	Index      int    `json:"index"`
	Class      string `json:"class"`
	Nontrivial bool   `json:"nontrivial"`
	Input      any    `json:"input"`
	Impl       any    `json:"impl"`
}

type Violation struct {
	Fingerprint string `json:"fingerprint"`
	What        string `json:"what"`
	Input       any    `json:"input"`
}

type Writer struct {
	dir      string
	prop     string
	perFile  int
	imports  string
	cur      []string
	nfile    int
	jsonl    *bufio.Writer
	jf       *os.File
	vf       *os.File
	Dist     map[string]int
	Total    int
	Exhaust  bool
	Extra    map[string]any
	nviol    int
	violSeen map[string]int
	extraEvals int
}

// New creates a writer. imports is the Coq header, e.g. "From C12 Require Import Model CaseDefs."
func New(dir, prop, imports string, perFile int) (*Writer, error) {
	if err := os.MkdirAll(dir, 0o755); err != nil {
		return nil, err
	}
	jf, err := os.Create(filepath.Join(dir, "cases.jsonl"))
	if err != nil {
		return nil, err
	}
	vf, err := os.Create(filepath.Join(dir, "violations.jsonl"))
	if err != nil {
		return nil, err
	}
	return &Writer{dir: dir, prop: prop, perFile: perFile, imports: imports, jf: jf, vf: vf,
		jsonl: bufio.NewWriter(jf), Dist: map[string]int{}, Extra: map[string]any{},
		violSeen: map[string]int{}}, nil
}

// Add appends one case: coqTerm is a term of type `case`.
func (w *Writer) Add(coqTerm, class string, nontrivial bool, input, impl any) {
	c := Case{File: fmt.Sprintf("cases_%03d.v", w.nfile), Index: len(w.cur), Class: class,
		Nontrivial: nontrivial, Input: input, Impl: impl}
	b, _ := json.Marshal(c)
	w.jsonl.Write(b)
	w.jsonl.WriteByte('\n')
	w.cur = append(w.cur, coqTerm)
	w.Dist["class:"+class]++
	w.Total++
	if len(w.cur) >= w.perFile {
		w.flush()
	}
}

// Evals adds evaluations that are not model cases (e.g. fuzz inputs only checked for totality).
func (w *Writer) Evals(n int) { w.extraEvals += n }

// Count bumps a distribution counter.
func (w *Writer) Count(key string) { w.Dist[key]++ }

// Violate records a violation observed directly on the implementation (at most 20 per
// fingerprint are written out).
func (w *Writer) Violate(fingerprint, what string, input any) {
	w.violSeen[fingerprint]++
	w.nviol++
	if w.violSeen[fingerprint] > 20 {
		return
	}
	b, _ := json.Marshal(Violation{fingerprint, what, input})
	w.vf.Write(append(b, '\n'))
}

func (w *Writer) flush() {
	if len(w.cur) == 0 {
		return
	}
	var sb strings.Builder
	sb.WriteString(w.imports)
	sb.WriteString("\nDefinition cases : list case := [\n")
	for i, c := range w.cur {
		if i > 0 {
			sb.WriteString(";\n")
		}
		sb.WriteString("  ")
		sb.WriteString(c)
	}
	sb.WriteString("\n].\n")
	sb.WriteString("Eval vm_compute in (diff_indices cases).\n")
	sb.WriteString("Eval vm_compute in (specfail_indices cases).\n")
	name := filepath.Join(w.dir, fmt.Sprintf("cases_%03d.v", w.nfile))
	if err := os.WriteFile(name, []byte(sb.String()), 0o644); err != nil {
		panic(err)
	}
	w.nfile++
	w.cur = nil
}

func (w *Writer) Close() error {
	w.flush()
	w.jsonl.Flush()
	w.jf.Close()
	w.vf.Close()
	keys := make([]string, 0, len(w.Dist))
	for k := range w.Dist {
		keys = append(keys, k)
	}
	sort.Strings(keys)
	st := map[string]any{"evaluations": w.Total + w.extraEvals, "distribution": w.Dist, "exhaustive": w.Exhaust,
		"direct_violations": w.nviol, "extra": w.Extra}
	b, _ := json.MarshalIndent(st, "", " ")
	return os.WriteFile(filepath.Join(w.dir, "stats.json"), b, 0o644)
}

// NatList renders a []int as a Coq list of nat.
func NatList(xs []int) string {
	parts := make([]string, len(xs))
	for i, x := range xs {
		parts[i] = fmt.Sprint(x)
	}
	return "[" + strings.Join(parts, "; ") + "]"
}

// NList renders numbers as a Coq list of N.
func NList[T ~int | ~int64 | ~uint64 | ~uint32 | ~uint8 | ~uint16 | ~int32](xs []T) string {
	parts := make([]string, len(xs))
	for i, x := range xs {
		parts[i] = fmt.Sprint(x)
	}
	return "[" + strings.Join(parts, "; ") + "]%N"
}

// Bytes renders a byte string as a Coq list of N.
func Bytes(b []byte) string { return NList(b) }

func Bool(b bool) string {
	if b {
		return "true"
	}
	return "false"
}
