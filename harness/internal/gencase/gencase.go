// Package gencase renders the gen-<func> correspondence cases that validate the Go-to-Gallina
// translator (harness/cmd/go2coq): the REAL Go function is called on boundary and generated arguments,
// the result (or the fact that it panicked) is recorded, and `case_agrees` evaluates the GENERATED
// definition (props/Cxx/coq/Gen.v) inside Coq on the same arguments (constructor
// `CGen (fn : N) (args : list (list Z)) (impl : gres)` of the property's CaseDefs.v, dispatch in GenCase.v).
package gencase

import (
	"fmt"
	"strings"

	"verif/harness/internal/rng"
)

// Arg is one argument: a scalar is a one-element list, a slice the list of its elements (decimal text).
type Arg = []string

type Item struct {
	Class string
	Coq   string
	Input any
	Impl  any
}

func U(x uint64) string { return fmt.Sprint(x) }
func I(x int64) string  { return fmt.Sprint(x) }
func B(b bool) string {
	if b {
		return "1"
	}
	return "0"
}
func S(xs ...string) Arg { return xs }
func Bytes(b []byte) Arg {
	r := make(Arg, len(b))
	for i, x := range b {
		r[i] = fmt.Sprint(x)
	}
	return r
}
func Ints(xs []int) Arg {
	r := make(Arg, len(xs))
	for i, x := range xs {
		r[i] = fmt.Sprint(x)
	}
	return r
}

func zlist(xs []string) string {
	p := make([]string, len(xs))
	for i, x := range xs {
		if strings.HasPrefix(x, "-") {
			p[i] = "(" + x + ")%Z"
		} else {
			p[i] = x + "%Z"
		}
	}
	return "[" + strings.Join(p, "; ") + "]"
}

// Case calls f (which calls the real function and renders its results) under recover.
func Case(class string, fn int, args []Arg, f func() []string) Item {
	var res []string
	panicked := func() (p bool) {
		defer func() {
			if r := recover(); r != nil {
				p = true
			}
		}()
		res = f()
		return false
	}()
	as := make([]string, len(args))
	for i, a := range args {
		as[i] = zlist(a)
	}
	impl := "GPanic"
	var implJ any = "panic"
	if !panicked {
		impl = "(GVal " + zlist(res) + ")"
		implJ = res
	}
	return Item{Class: class,
		Coq:   fmt.Sprintf("CGen %d%%N ([%s] : list (list Z)) %s", fn, strings.Join(as, "; "), impl),
		Input: map[string]any{"fn": fn, "args": args}, Impl: implJ}
}

var u64b = []uint64{0, 1, 2, 7, 8, 9, 255, 256, 1<<30 - 1, 1 << 30, 1<<30 + 1, 1<<31 - 1, 1 << 31, 1<<31 + 1, 1<<32 - 1, 1 << 32, 1<<32 + 1,
	1 << 62, 1<<63 - 1, 1 << 63, 1<<63 + 1, 1<<64 - 2, 1<<64 - 1}

// U64 picks a boundary value, a neighbour of one, or a random value of random magnitude.
func U64(r *rng.R) uint64 {
	switch r.Intn(4) {
	case 0:
		return rng.Pick(r, u64b)
	case 1:
		return rng.Pick(r, u64b) + uint64(r.Intn(5)) - 2
	case 2:
		return r.U64() >> uint(r.Intn(64))
	}
	return r.U64()
}

// I64 likewise for signed values (both signs, the int64 ends).
func I64(r *rng.R) int64 {
	switch r.Intn(6) {
	case 0:
		return rng.Pick(r, []int64{0, 1, -1, 2, -2, 1<<31 - 1, 1 << 31, -(1 << 31), -(1 << 31) - 1, 1<<32 - 1, 1 << 32, 1<<32 + 1, -(1 << 32),
			1<<63 - 1, -(1 << 63), -(1 << 63) + 1, 1<<63 - 2})
	case 1:
		return -int64(r.U64() >> uint(1+r.Intn(63)))
	}
	return int64(U64(r))
}

func U32(r *rng.R) uint32 {
	if r.Bool() {
		return rng.Pick(r, []uint32{0, 1, 2, 1<<31 - 1, 1 << 31, 1<<31 + 1, 1<<32 - 2, 1<<32 - 1})
	}
	return uint32(r.U64() >> uint(32+r.Intn(32)))
}

// Small picks a small signed value around 0 (indices, sizes), occasionally a huge one.
func Small(r *rng.R, hi int) int {
	switch r.Intn(8) {
	case 0:
		return -1 - r.Intn(3)
	case 1:
		return int(I64(r))
	}
	return r.Intn(hi + 1)
}
