// hC12 — correspondence driver for property C12 (query parsing is total and
// meaning-preserving). Runs the real parsers of /repo on generated inputs and writes the
// observations as Coq cases (see props/C12/coq/CaseDefs.v).
package main

import (
	"encoding/hex"
	"encoding/json"
	"flag"
	"fmt"
	"os"
	"strconv"
	"strings"
	"time"

	"github.com/ozontech/seq-db/parser"
	"github.com/ozontech/seq-db/seq"

	"verif/harness/internal/casefile"
	"verif/harness/internal/rng"
)

// ---------------------------------------------------------------- expressions

type expr struct {
	kind string // atom in text not and or
	n    int
	ns   []int
	a, b *expr
}

func (e *expr) coq() string {
	switch e.kind {
	case "atom":
		return fmt.Sprintf("(EAtom %d)", e.n)
	case "in":
		return fmt.Sprintf("(EIn %d %s)", e.n, casefile.NatList(e.ns))
	case "text":
		return fmt.Sprintf("(EText %d %s)", e.n, casefile.NatList(e.ns))
	case "not":
		return "(ENot " + e.a.coq() + ")"
	case "and":
		return "(EAnd " + e.a.coq() + " " + e.b.coq() + ")"
	default:
		return "(EOr " + e.a.coq() + " " + e.b.coq() + ")"
	}
}

func (e *expr) hasNotAndBinary() (bool, bool) {
	switch e.kind {
	case "not":
		_, b := e.a.hasNotAndBinary()
		return true, b
	case "and", "or":
		n1, _ := e.a.hasNotAndBinary()
		n2, _ := e.b.hasNotAndBinary()
		return n1 || n2, true
	}
	return false, false
}

type tok struct {
	kind string // atom in text and or not lp rp
	n    int
	ns   []int
}

func tokCoq(ts []tok) string {
	parts := make([]string, len(ts))
	for i, t := range ts {
		switch t.kind {
		case "atom":
			parts[i] = fmt.Sprintf("TAtom %d", t.n)
		case "in":
			parts[i] = "TIn " + casefile.NatList(t.ns)
		case "text":
			parts[i] = "TText " + casefile.NatList(t.ns)
		case "and":
			parts[i] = "TAnd"
		case "or":
			parts[i] = "TOr"
		case "not":
			parts[i] = "TNot"
		case "lp":
			parts[i] = "TLP"
		case "pipe":
			parts[i] = "TPipe"
		default:
			parts[i] = "TRP"
		}
	}
	return "[" + strings.Join(parts, "; ") + "]"
}

func paren(ts []tok) []tok {
	out := []tok{{kind: "lp"}}
	out = append(out, ts...)
	return append(out, tok{kind: "rp"})
}

func leafTok(e *expr) []tok {
	switch e.kind {
	case "atom":
		return []tok{{kind: "atom", n: e.n}}
	case "in":
		return []tok{{kind: "in", ns: append([]int{e.n}, e.ns...)}}
	default:
		return []tok{{kind: "text", ns: append([]int{e.n}, e.ns...)}}
	}
}

func renderFull(e *expr) []tok {
	switch e.kind {
	case "not":
		return paren(append([]tok{{kind: "not"}}, renderFull(e.a)...))
	case "and":
		return paren(append(append(renderFull(e.a), tok{kind: "and"}), renderFull(e.b)...))
	case "or":
		return paren(append(append(renderFull(e.a), tok{kind: "or"}), renderFull(e.b)...))
	}
	return leafTok(e)
}

func render(lvl int, e *expr) []tok {
	switch e.kind {
	case "not":
		return append([]tok{{kind: "not"}}, render(2, e.a)...)
	case "and":
		s := append(append(render(1, e.a), tok{kind: "and"}), render(2, e.b)...)
		if lvl <= 1 {
			return s
		}
		return paren(s)
	case "or":
		s := append(append(render(0, e.a), tok{kind: "or"}), render(1, e.b)...)
		if lvl == 0 {
			return s
		}
		return paren(s)
	}
	return leafTok(e)
}

// text of a token list; style varies keyword case and spacing (driven by r, may be nil)
func text(ts []tok, seqql bool, r *rng.R) string {
	var sb strings.Builder
	kw := func(s string) string {
		if r != nil && r.Chance(1, 3) {
			return strings.ToUpper(s)
		}
		return s
	}
	for i, t := range ts {
		if i > 0 {
			sb.WriteByte(' ')
			if r != nil && r.Chance(1, 8) {
				sb.WriteString("  ")
			}
		}
		switch t.kind {
		case "atom":
			fmt.Fprintf(&sb, "k:v%d", t.n)
		case "in":
			// only SeqQL has in(...)
			sb.WriteString("k:in(")
			for j, n := range t.ns {
				if j > 0 {
					sb.WriteString(", ")
				}
				fmt.Fprintf(&sb, "v%d", n)
			}
			sb.WriteString(")")
		case "text":
			sb.WriteString("t:\"")
			for j, n := range t.ns {
				if j > 0 {
					sb.WriteString(" ")
				}
				fmt.Fprintf(&sb, "v%d", n)
			}
			sb.WriteString("\"")
		case "and":
			sb.WriteString(kw("and"))
		case "or":
			sb.WriteString(kw("or"))
		case "not":
			sb.WriteString(kw("not"))
		case "lp":
			sb.WriteString("(")
		case "rp":
			sb.WriteString(")")
		}
	}
	return sb.String()
}

// ---------------------------------------------------------------- AST -> Coq

var mapping = seq.Mapping{
	"k": seq.NewSingleType(seq.TokenizerTypeKeyword, "", 0),
	"t": seq.NewSingleType(seq.TokenizerTypeText, "", 0),
}

func leafNum(tk parser.Token) (int, error) {
	l, ok := tk.(*parser.Literal)
	if !ok {
		return 0, fmt.Errorf("not a literal: %T", tk)
	}
	if len(l.Terms) != 1 || l.Terms[0].Kind != parser.TermText || !strings.HasPrefix(l.Terms[0].Data, "v") {
		return 0, fmt.Errorf("unexpected literal %s", l.String())
	}
	return strconv.Atoi(l.Terms[0].Data[1:])
}

func astCoq(n *parser.ASTNode) (string, error) {
	if n == nil {
		return "", fmt.Errorf("nil node")
	}
	if lg, ok := n.Value.(*parser.Logical); ok {
		var cs []string
		for _, c := range n.Children {
			s, err := astCoq(c)
			if err != nil {
				return "", err
			}
			cs = append(cs, s)
		}
		switch parser.VerifLogicalOp(lg) {
		case parser.VerifNot:
			if len(cs) != 1 {
				return "", fmt.Errorf("NOT with %d children", len(cs))
			}
			return "(NotN " + cs[0] + ")", nil
		case parser.VerifAnd:
			return "(AndN " + cs[0] + " " + cs[1] + ")", nil
		case parser.VerifOr:
			return "(OrN " + cs[0] + " " + cs[1] + ")", nil
		case parser.VerifNAnd:
			return "(NAndN " + cs[0] + " " + cs[1] + ")", nil
		}
		return "", fmt.Errorf("unknown operator")
	}
	k, err := leafNum(n.Value)
	if err != nil {
		return "", err
	}
	return fmt.Sprintf("(Leaf %d)", k), nil
}

type outcome struct {
	coq  string // res ast term
	text string
}

func runParser(seqql bool, q string) (o outcome, panicked any) {
	defer func() {
		if p := recover(); p != nil {
			panicked = p
		}
	}()
	var root *parser.ASTNode
	var err error
	if seqql {
		var res parser.SeqQLQuery
		res, err = parser.ParseSeqQL(q, mapping)
		root = res.Root
	} else {
		root, err = parser.ParseQuery(q, mapping)
	}
	if err != nil {
		return outcome{"Err", "error: " + err.Error()}, nil
	}
	s, err := astCoq(root)
	if err != nil {
		return outcome{"Err", "unrepresentable: " + err.Error()}, nil
	}
	return outcome{"(Ok " + s + ")", root.String()}, nil
}

// ---------------------------------------------------------------- generators

// all expressions with exactly `size` nodes over atoms 0..k-1
func enumerate(size, k int, memo map[int][]*expr) []*expr {
	if v, ok := memo[size]; ok {
		return v
	}
	var out []*expr
	if size == 1 {
		for i := 0; i < k; i++ {
			out = append(out, &expr{kind: "atom", n: i})
		}
	} else {
		for _, a := range enumerate(size-1, k, memo) {
			out = append(out, &expr{kind: "not", a: a})
		}
		for ls := 1; ls <= size-2; ls++ {
			for _, a := range enumerate(ls, k, memo) {
				for _, b := range enumerate(size-1-ls, k, memo) {
					out = append(out, &expr{kind: "and", a: a, b: b}, &expr{kind: "or", a: a, b: b})
				}
			}
		}
	}
	memo[size] = out
	return out
}

func randExpr(r *rng.R, depth int, seqql bool) *expr {
	if depth == 0 || r.Chance(1, 4) {
		switch c := r.Intn(6); {
		case c == 0 && seqql:
			return &expr{kind: "in", n: r.Intn(6), ns: randNs(r)}
		case c == 1:
			return &expr{kind: "text", n: r.Intn(6), ns: randNs(r)}
		}
		return &expr{kind: "atom", n: r.Intn(6)}
	}
	switch r.Intn(5) {
	case 0, 1:
		return &expr{kind: "not", a: randExpr(r, depth-1, seqql)}
	case 2, 3:
		return &expr{kind: "and", a: randExpr(r, depth-1, seqql), b: randExpr(r, depth-1, seqql)}
	}
	return &expr{kind: "or", a: randExpr(r, depth-1, seqql), b: randExpr(r, depth-1, seqql)}
}

func randNs(r *rng.R) []int {
	n := r.Intn(3)
	out := make([]int, n)
	for i := range out {
		out[i] = r.Intn(6)
	}
	return out
}

func randToks(r *rng.R, seqql bool) []tok {
	// start from a well-formed rendering and mutate it
	e := randExpr(r, r.Range(1, 4), seqql)
	var ts []tok
	if r.Bool() {
		ts = render(0, e)
	} else {
		ts = renderFull(e)
	}
	nm := r.Intn(4)
	kinds := []string{"and", "or", "not", "lp", "rp", "atom"}
	for i := 0; i < nm && len(ts) > 0; i++ {
		p := r.Intn(len(ts))
		switch r.Intn(3) {
		case 0: // delete
			ts = append(append([]tok{}, ts[:p]...), ts[p+1:]...)
		case 1: // insert
			t := tok{kind: rng.Pick(r, kinds), n: r.Intn(6)}
			ts = append(append(append([]tok{}, ts[:p]...), t), ts[p:]...)
		default: // replace
			ts = append([]tok{}, ts...)
			ts[p] = tok{kind: rng.Pick(r, kinds), n: r.Intn(6)}
		}
	}
	return ts
}

// random AST for propagateNot (no NAND: the parsers never produce one)
type tree struct {
	op   int // -1 leaf
	n    int
	l, r *tree
}

func randTree(r *rng.R, depth int) *tree {
	if depth == 0 || r.Chance(1, 4) {
		return &tree{op: -1, n: r.Intn(6)}
	}
	switch r.Intn(5) {
	case 0, 1:
		return &tree{op: parser.VerifNot, l: randTree(r, depth-1)}
	case 2, 3:
		return &tree{op: parser.VerifAnd, l: randTree(r, depth-1), r: randTree(r, depth-1)}
	}
	return &tree{op: parser.VerifOr, l: randTree(r, depth-1), r: randTree(r, depth-1)}
}

func (t *tree) coq() string {
	switch t.op {
	case -1:
		return fmt.Sprintf("(Leaf %d)", t.n)
	case parser.VerifNot:
		return "(NotN " + t.l.coq() + ")"
	case parser.VerifAnd:
		return "(AndN " + t.l.coq() + " " + t.r.coq() + ")"
	}
	return "(OrN " + t.l.coq() + " " + t.r.coq() + ")"
}

func (t *tree) node() *parser.ASTNode {
	if t.op == -1 {
		return &parser.ASTNode{Value: &parser.Literal{Field: "k", Terms: []parser.Term{{Kind: parser.TermText, Data: fmt.Sprintf("v%d", t.n)}}}}
	}
	if t.op == parser.VerifNot {
		return parser.VerifNewLogical(t.op, t.l.node())
	}
	return parser.VerifNewLogical(t.op, t.l.node(), t.r.node())
}

// ---------------------------------------------------------------- fuzz (totality on raw strings)

var fuzzMapping = seq.Mapping{
	"k":       seq.NewSingleType(seq.TokenizerTypeKeyword, "", 0),
	"t":       seq.NewSingleType(seq.TokenizerTypeText, "", 0),
	"p":       seq.NewSingleType(seq.TokenizerTypePath, "", 0),
	"e":       seq.NewSingleType(seq.TokenizerTypeExists, "", 0),
	"o":       seq.NewSingleType(seq.TokenizerTypeObject, "", 0),
	"o.x":     seq.NewSingleType(seq.TokenizerTypeKeyword, "", 0),
	"g":       seq.NewSingleType(seq.TokenizerTypeTags, "", 0),
	"n":       seq.NewSingleType(seq.TokenizerTypeNested, "", 0),
	"n.x":     seq.NewSingleType(seq.TokenizerTypeKeyword, "", 0),
	"m":       {Main: seq.MappingType{TokenizerType: seq.TokenizerTypeText}, All: []seq.MappingType{{Title: "m", TokenizerType: seq.TokenizerTypeText}, {Title: "m.keyword", TokenizerType: seq.TokenizerTypeKeyword, MaxSize: 18}}},
	"_exists_": seq.NewSingleType(seq.TokenizerTypeKeyword, "", 0),
}

var fuzzFields = []string{"k", "t", "p", "e", "o", "o.x", "g", "n", "n.x", "m", "u", "_exists_", "_all_", "`k`", "\"t\"", "k*", ""}
var fuzzValues = []string{"x", "x*", "*x", "a*b*c", "*", "\"a b\"", "'a b'", "`a b`", "\"a\\*b\"", "'it\\'s'", "\"\\u00e9\"", "\"\\", "\"unterminated", "`raw\\n`",
	"[1, 5]", "(1, 5)", "[* , 5]", "[1, *)", "[a to b]", "{1 TO 2}", "[1 TO 2}", "in(a, b)", "in(a)", "in()", "in(a,", "in(\"a b\", c*)", "\xff\xfe", "\ue000", "a\ue000b",
	"x-y_z.w", "-x", "$x", "a:b", "", "  ", "#c\n x", "x # c", "é", "ÀÉ", "a/b/c", "/a/b", "1e5", "-1.5", "\t", "\\*", "a\\ b", "\"a\\\"b\""}
var fuzzGlue = []string{" and ", " or ", " AND ", " OR ", " not ", " ", "", " | fields a, b", " | fields except a", " | ", "|", " and not ", " or not ", ")", "(", " ( ", " ) "}

var cleanFields = []string{"k", "t", "p", "o.x", "n.x", "m", "_exists_", "`k`", "\"t\""}
var cleanValues = []string{"x", "x*", "*x", "a*b*c", "*", "\"a b\"", "'a b'", "`a b`", "\"a\\*b\"", "'it\\'s'", "\"\\u00e9\"", "`raw\\n`",
	"[1, 5]", "(1, 5)", "[*, 5]", "[1, *)", "in(a, b)", "in(a)", "in(\"a b\", c*)", "x-y_z.w", "é", "ÀÉ", "a/b/c", "1e5", "abc123", "\"\"", "'a:b'", "\"(x)\""}

// cleanString: grammar-derived, (mostly) valid SeqQL; legacy syntax differs, so the legacy parser
// sees a mix of valid and invalid inputs from it
func cleanString(r *rng.R, depth int) string {
	if depth > 0 && r.Chance(1, 3) {
		switch r.Intn(3) {
		case 0:
			return "(" + cleanString(r, depth-1) + ")"
		case 1:
			return "not " + cleanString(r, depth-1)
		}
		return cleanString(r, depth-1) + rng.Pick(r, []string{" and ", " or ", " AND ", " OR "}) + cleanString(r, depth-1)
	}
	return rng.Pick(r, cleanFields) + ":" + rng.Pick(r, cleanValues)
}

func fuzzString(r *rng.R) string {
	if r.Chance(3, 5) {
		s := cleanString(r, r.Range(0, 4))
		if r.Chance(1, 6) {
			s += rng.Pick(r, []string{" | fields a, b", " | fields except a", " # comment", "\n# c\n"})
		}
		return s
	}
	var sb strings.Builder
	n := r.Range(1, 5)
	for i := 0; i < n; i++ {
		if r.Chance(1, 4) {
			sb.WriteString(rng.Pick(r, []string{"(", "not ", "NOT ", "((", "not not ", "( not "}))
		}
		sb.WriteString(rng.Pick(r, fuzzFields))
		if !r.Chance(1, 12) {
			sb.WriteString(":")
		}
		if r.Chance(1, 6) {
			sb.WriteString(" ")
		}
		sb.WriteString(rng.Pick(r, fuzzValues))
		if r.Chance(1, 4) {
			sb.WriteString(rng.Pick(r, []string{")", "))", " )"}))
		}
		if i < n-1 || r.Chance(1, 5) {
			sb.WriteString(rng.Pick(r, fuzzGlue))
		}
	}
	s := sb.String()
	// byte-level mutation
	if r.Chance(1, 3) && len(s) > 0 {
		b := []byte(s)
		for k := r.Range(1, 3); k > 0; k-- {
			p := r.Intn(len(b))
			switch r.Intn(3) {
			case 0:
				b[p] = byte(r.Intn(256))
			case 1:
				b = append(b[:p], b[p+1:]...)
			default:
				b = append(b[:p], append([]byte{"\"'`\\*()[]{}:|#, \n\xff\xee"[r.Intn(19)]}, b[p:]...)...)
			}
			if len(b) == 0 {
				break
			}
		}
		s = string(b)
	}
	return s
}

type fuzzResult struct {
	panicked any
	hung     bool
	isErr    bool
}

func guarded(f func() error) fuzzResult {
	done := make(chan fuzzResult, 1)
	go func() {
		var res fuzzResult
		defer func() {
			if p := recover(); p != nil {
				res.panicked = p
			}
			done <- res
		}()
		res.isErr = f() != nil
	}()
	select {
	case r := <-done:
		return r
	case <-time.After(10 * time.Second):
		return fuzzResult{hung: true}
	}
}

func fuzz(w *casefile.Writer, r *rng.R, n int) {
	maps := map[string]seq.Mapping{"full": fuzzMapping, "nil": nil, "empty": {}}
	for i := 0; i < n; i++ {
		s := fuzzString(r)
		for mname, m := range maps {
			m := m
			targets := map[string]func() error{
				"ParseSeqQL": func() error { _, err := parser.ParseSeqQL(s, m); return err },
				"ParseQuery": func() error { _, err := parser.ParseQuery(s, m); return err },
			}
			if mname == "full" {
				targets["ParseAggregationFilter"] = func() error { _, err := parser.ParseAggregationFilter(s); return err }
			}
			for tname, f := range targets {
				res := guarded(f)
				w.Evals(1)
				switch {
				case res.hung:
					w.Violate("hang:"+tname, tname+" does not return", map[string]any{"query": s, "query_hex": fmt.Sprintf("%x", s), "mapping": mname})
				case res.panicked != nil:
					msg := fmt.Sprint(res.panicked)
					if len(msg) > 60 {
						msg = msg[:60]
					}
					w.Violate("panic:"+tname+":"+fpOf(msg), tname+" panics: "+fmt.Sprint(res.panicked), map[string]any{"query": s, "query_hex": fmt.Sprintf("%x", s), "mapping": mname})
				case res.isErr:
					w.Count("fuzz:" + tname + ":error")
				default:
					w.Count("fuzz:" + tname + ":ok")
				}
			}
		}
	}
}

// fingerprint of a panic message: letters only, so that positions/values do not split classes
func fpOf(msg string) string {
	var sb strings.Builder
	for _, c := range msg {
		if (c >= 'a' && c <= 'z') || (c >= 'A' && c <= 'Z') {
			sb.WriteRune(c)
		} else if sb.Len() > 0 && sb.String()[sb.Len()-1] != '-' {
			sb.WriteByte('-')
		}
		if sb.Len() > 40 {
			break
		}
	}
	return sb.String()
}

// ---------------------------------------------------------------- main

func exprCase(w *casefile.Writer, e *expr, full, seqql bool, r *rng.R) {
	var ts []tok
	if full {
		ts = renderFull(e)
	} else {
		ts = render(0, e)
	}
	q := text(ts, seqql, r)
	pname := "legacy"
	if seqql {
		pname = "seqql"
	}
	o, p := runParser(seqql, q)
	if p != nil {
		w.Violate("panic:expr:"+pname, fmt.Sprintf("%s parser panics: %v", pname, p), map[string]any{"query": q})
		return
	}
	hn, hb := e.hasNotAndBinary()
	mode := "min"
	if full {
		mode = "full"
	}
	w.Add(fmt.Sprintf("CExpr %s %s %s %s", e.coq(), casefile.Bool(full), tokCoq(ts), o.coq),
		"expr-"+mode+"-"+pname, hn && hb, map[string]any{"query": q, "expr": e.coq()}, o.text)
}

// pipe sections appended to SeqQL expressions (this version knows only the `fields` pipe and
// allows at most one of them, so "several pipes" is always a parse error and is not listed)
var pipeSuffixes = []string{" | fields a", " | fields except a, b", "| fields a", " |fields `x y`, b*", "\n| fields except \"m\" # c", " | FIELDS k", " | fields t, k.x"}

// exprPipeCase: the expression followed by a pipe section must parse (SeqQL) to a query with the
// denotation of the expression alone (spec on the implementation's AST: truth table)
func exprPipeCase(w *casefile.Writer, e *expr, full bool, suffix string, r *rng.R) {
	var ts []tok
	if full {
		ts = renderFull(e)
	} else {
		ts = render(0, e)
	}
	q := text(ts, true, r) + suffix
	ts = append(append([]tok{}, ts...), tok{kind: "pipe"})
	o, p := runParser(true, q)
	if p != nil {
		w.Violate("panic:expr-pipe:seqql", fmt.Sprintf("seqql parser panics: %v", p), map[string]any{"query": q})
		return
	}
	hn, hb := e.hasNotAndBinary()
	mode := "min"
	if full {
		mode = "full"
	}
	if e.kind == "or" {
		w.Count("pipe:top-level-or")
	}
	w.Add(fmt.Sprintf("CExprPipe %s %s %s %s", e.coq(), casefile.Bool(full), tokCoq(ts), o.coq),
		"expr-pipe-"+mode+"-seqql", (hn && hb) || e.kind == "or", map[string]any{"query": q, "expr": e.coq()}, o.text)
}

func main() {
	seed := flag.Uint64("seed", 1, "")
	tier := flag.String("tier", "quick", "")
	out := flag.String("out", "", "")
	replay := flag.String("replay", "", "")
	deep := flag.Int("deep", 0, "child mode: nesting depth of the deep-nesting probe")
	deepKind := flag.String("deep-kind", "nest", "")
	deepTarget := flag.String("deep-target", "ParseQuery", "")
	deepShape := flag.String("deep-shape", "paren", "")
	flag.Parse()
	if *deep > 0 {
		deepChild(*deepKind, *deepTarget, *deepShape, *deep)
		return
	}
	if *out == "" {
		fmt.Fprintln(os.Stderr, "need -out")
		os.Exit(2)
	}
	w, err := casefile.New(*out, "C12", coqHeader(), 400)
	if err != nil {
		panic(err)
	}
	if *replay != "" {
		doReplay(w, *replay)
		if err := w.Close(); err != nil {
			panic(err)
		}
		return
	}
	r := rng.New(*seed)
	maxSize, nRand, nToks, nProp, nFuzz, nLex, nRound := 5, 600, 600, 600, 6000, 4000, 1200
	if *tier == "thorough" {
		maxSize, nRand, nToks, nProp, nFuzz, nLex, nRound = 7, 8000, 8000, 8000, 300000, 40000, 8000
	}
	// (a) exhaustive: all boolean trees up to maxSize nodes over 3 atoms, both renderings, both parsers
	memo := map[int][]*expr{}
	npipe := 0
	for size := 1; size <= maxSize; size++ {
		for _, e := range enumerate(size, 3, memo) {
			for _, full := range []bool{false, true} {
				for _, seqql := range []bool{true, false} {
					exprCase(w, e, full, seqql, nil)
				}
				exprPipeCase(w, e, full, pipeSuffixes[npipe%len(pipeSuffixes)], nil)
				npipe++
			}
		}
	}
	w.Exhaust = true
	w.Extra["exhaustive_scope"] = fmt.Sprintf("all boolean expression trees with <= %d nodes over 3 atoms x {minimal, full} parentheses x {SeqQL, legacy, SeqQL + pipe section}", maxSize)
	// (b) random deeper expressions with in(...) and multi-word text fields, random keyword case/spacing
	for i := 0; i < nRand; i++ {
		seqql := r.Bool()
		e := randExpr(r, r.Range(2, 6), seqql)
		exprCase(w, e, r.Bool(), seqql, r)
		if seqql {
			exprPipeCase(w, e, r.Bool(), rng.Pick(r, pipeSuffixes), r)
		}
	}
	// (c) arbitrary / malformed token lists
	for i := 0; i < nToks; i++ {
		seqql := r.Bool()
		ts := randToks(r, seqql)
		q := text(ts, seqql, r)
		pname := "legacy"
		if seqql {
			pname = "seqql"
		}
		o, p := runParser(seqql, q)
		if p != nil {
			w.Violate("panic:toks:"+pname, fmt.Sprintf("%s parser panics: %v", pname, p), map[string]any{"query": q})
			continue
		}
		w.Add(fmt.Sprintf("CToks %s %s", tokCoq(ts), o.coq), "toks-"+pname, strings.HasPrefix(o.coq, "(Ok"), map[string]any{"query": q}, o.text)
	}
	// (d) propagateNot directly
	for i := 0; i < nProp; i++ {
		t := randTree(r, r.Range(1, 6))
		src := t.coq()
		n, flag := parser.VerifPropagateNot(t.node())
		s, err := astCoq(n)
		if err != nil {
			w.Violate("propagate:unrepresentable", err.Error(), map[string]any{"tree": src})
			continue
		}
		w.Add(fmt.Sprintf("CProp %s %s %s", src, s, casefile.Bool(flag)), "propagate-not", strings.Contains(src, "NotN") && strings.Contains(src, "OrN"),
			map[string]any{"tree": src}, map[string]any{"node": s, "not": flag})
	}
	// (e) stage 2: raw strings through the real lexer + ParseSeqQL against the byte-level model
	lexCases(w, r, nLex)
	// (f) generated token lists rendered to text (all quote styles, comments) and lexed back
	roundCases(w, r, nRound)
	// (f2) f:in(e1,..,en) vs the written-out OR of its members as stand-alone filters (text, path,
	// keyword fields; multi-word members in every position): same selection, by truth table
	inOrCases(w, r, nRound/2)
	// (f3) range filters: the stored bounds are the terms of the plain literals of the same written
	// values (case folding, escapes, quote styles, wildcard ends), both case modes
	rangeCases(w, r, nRound/2)
	// (g) raw-string totality fuzz of all three entry points under every mapping (outcome only)
	fuzz(w, r, nFuzz)
	// (h) stage 3: raw strings through the real legacy ParseQuery / ParseAggregationFilter against
	// the rune-level model of Legacy.v (outcome and full AST with its tokens)
	legacyCases(w, r, *tier)
	// (i) nesting limit: boundary (limit-1 accepted, limit rejected) and 3,000,000 levels in a child
	// process (must be an error, process alive), both parsers, brackets and NOTs
	nestingProbe(w, *tier == "thorough")
	nestingFlat(w)
	// (j) flat chain of 10^7 operators (known finding), thorough tier only
	if *tier == "thorough" {
		flatChainProbe(w)
	}
	if err := w.Close(); err != nil {
		panic(err)
	}
}

// replay: the file is a replay JSON written by the check; re-run the stored query
func doReplay(w *casefile.Writer, path string) {
	b, err := os.ReadFile(path)
	if err != nil {
		panic(err)
	}
	var rp struct {
		Replay struct {
			Case struct {
				Class string         `json:"class"`
				Input map[string]any `json:"input"`
			} `json:"case"`
			Input map[string]any `json:"input"`
		} `json:"replay"`
		Fingerprint string `json:"fingerprint"`
	}
	if err := json.Unmarshal(b, &rp); err != nil {
		panic(err)
	}
	in := rp.Replay.Case.Input
	if in == nil {
		in = rp.Replay.Input
	}
	q, _ := in["query"].(string)
	if pr, ok := in["probe"].(string); ok {
		// nesting / flat-chain findings: re-run the probes
		if pr == "flat-chain" {
			flatChainProbe(w)
		} else if pr == "nesting-flat" {
			nestingFlat(w)
		} else {
			nestingProbe(w, false)
		}
		return
	}
	if hx, ok := in["query_hex"].(string); ok {
		if b, err := hex.DecodeString(hx); err == nil {
			q = string(b) // exact bytes (invalid UTF-8 does not survive JSON)
		}
	}
	{
		res := guarded(func() error { _, err := parser.ParseAggregationFilter(q); return err })
		w.Evals(1)
		fmt.Printf("replay ParseAggregationFilter query=%q: panic=%v hung=%v err=%v\n", q, res.panicked, res.hung, res.isErr)
		if res.panicked != nil || res.hung {
			w.Violate(rp.Fingerprint, fmt.Sprintf("replayed: panic=%v hung=%v", res.panicked, res.hung), map[string]any{"query": q, "target": "ParseAggregationFilter"})
		}
	}
	if lr, p, hung := realLex(q); true {
		fmt.Printf("replay lexer query=%q: panic=%v hung=%v ended=%v tokens=%v\n", q, p, hung, lr.ended, ltokJSON(lr.toks))
		if p != nil || hung || !lr.ended {
			w.Violate(rp.Fingerprint, fmt.Sprintf("replayed lexer: panic=%v hung=%v", p, hung), map[string]any{"query": q})
		}
	}
	for _, seqql := range []bool{true, false} {
		for mname, m := range map[string]seq.Mapping{"full": fuzzMapping, "nil": nil, "kt": mapping} {
			m := m
			res := guarded(func() error {
				if seqql {
					_, err := parser.ParseSeqQL(q, m)
					return err
				}
				_, err := parser.ParseQuery(q, m)
				return err
			})
			w.Evals(1)
			fmt.Printf("replay seqql=%v mapping=%s query=%q: panic=%v hung=%v err=%v\n", seqql, mname, q, res.panicked, res.hung, res.isErr)
			if res.panicked != nil || res.hung {
				w.Violate(rp.Fingerprint, fmt.Sprintf("replayed: panic=%v hung=%v", res.panicked, res.hung), map[string]any{"query": q, "mapping": mname})
			}
		}
	}
}
