// C12 stage 3: raw strings against the REAL legacy parser (parser.ParseQuery) and the real
// parser.ParseAggregationFilter; the Coq side (props/C12/coq/Legacy.v) parses the same bytes with
// the class / ToLower oracles and the mapping instantiated by the tables dumped here, and the two
// outcomes (error, or the AST with every Literal / Range token) are compared.
package main

import (
	"context"
	"fmt"
	"os"
	"os/exec"
	"strconv"
	"strings"
	"time"
	"unicode/utf8"

	"github.com/ozontech/seq-db/conf"
	"github.com/ozontech/seq-db/parser"
	"github.com/ozontech/seq-db/seq"

	"verif/harness/internal/casefile"
	"verif/harness/internal/rng"
)

func legTermCoq(t parser.Term) string {
	if t.Kind == parser.TermSymbol && t.Data == "*" {
		return "TmSym"
	}
	return "(TmText " + coqBytes(t.Data) + ")"
}

func legTokenCoq(tk parser.Token) (string, error) {
	switch t := tk.(type) {
	case *parser.Literal:
		parts := make([]string, len(t.Terms))
		for i, x := range t.Terms {
			parts[i] = legTermCoq(x)
		}
		return "(LLit " + coqBytes(t.Field) + " [" + strings.Join(parts, "; ") + "])", nil
	case *parser.Range:
		return fmt.Sprintf("(LRng %s %s %s %s %s)", coqBytes(t.Field), legTermCoq(t.From), legTermCoq(t.To),
			casefile.Bool(t.IncludeFrom), casefile.Bool(t.IncludeTo)), nil
	}
	return "", fmt.Errorf("unknown token %T", tk)
}

// atom number of a leaf as the generator wrote it: k:vN, t:vN .., k:[vN TO ..]
func legLeafNum(tk parser.Token) (int, bool) {
	data := ""
	switch t := tk.(type) {
	case *parser.Literal:
		if len(t.Terms) != 1 || t.Terms[0].Kind != parser.TermText {
			return 0, false
		}
		data = t.Terms[0].Data
	case *parser.Range:
		data = t.From.Data
	}
	if !strings.HasPrefix(data, "v") {
		return 0, false
	}
	n, err := strconv.Atoi(data[1:])
	return n, err == nil
}

// itreeCoq: the real AST as a Coq itree; atoms collects (token, atom number) for the leaves the
// generator can read
func itreeCoq(n *parser.ASTNode, atoms map[string]int) (string, error) {
	if n == nil {
		return "", fmt.Errorf("nil node")
	}
	lg, ok := n.Value.(*parser.Logical)
	if !ok {
		s, err := legTokenCoq(n.Value)
		if err != nil {
			return "", err
		}
		if k, ok := legLeafNum(n.Value); ok {
			atoms[s] = k
		}
		return "(ILeaf " + s + ")", nil
	}
	var cs []string
	for _, c := range n.Children {
		s, err := itreeCoq(c, atoms)
		if err != nil {
			return "", err
		}
		cs = append(cs, s)
	}
	op := parser.VerifLogicalOp(lg)
	switch {
	case op == parser.VerifNot && len(cs) == 1:
		return "(INot " + cs[0] + ")", nil
	case op == parser.VerifAnd && len(cs) == 2:
		return "(IAnd " + cs[0] + " " + cs[1] + ")", nil
	case op == parser.VerifOr && len(cs) == 2:
		return "(IOr " + cs[0] + " " + cs[1] + ")", nil
	case op == parser.VerifNAnd && len(cs) == 2:
		return "(INAnd " + cs[0] + " " + cs[1] + ")", nil
	}
	return "", fmt.Errorf("operator %d with %d children", op, len(cs))
}

func mappingOf(mname string) (m seq.Mapping, nilmap, user string) {
	nilmap, user = "false", "[]"
	switch mname {
	case "nil":
		nilmap = "true"
	case "empty":
		m = seq.Mapping{}
	default:
		m, user = fuzzMapping, "fm_full"
	}
	return
}

// legacyCase: one raw string through the real ParseQuery; e != nil: the generator's expression
func legacyCase(w *casefile.Writer, s, mname string, cfg bool, e *expr, class string) {
	m, nilmap, user := mappingOf(mname)
	in := map[string]any{"query": s, "query_hex": fmt.Sprintf("%x", s), "mapping": mname, "case_sensitive": cfg, "target": "ParseQuery"}
	old := conf.CaseSensitive
	conf.CaseSensitive = cfg
	defer func() { conf.CaseSensitive = old }()
	var root *parser.ASTNode
	res := guarded(func() error {
		r, err := parser.ParseQuery(s, m)
		root = r
		return err
	})
	w.Evals(1)
	impl, implText := "Err", "error"
	atoms := map[string]int{}
	switch {
	case res.hung:
		w.Violate("hang:ParseQuery", "ParseQuery does not return", in)
		return
	case res.panicked != nil:
		w.Violate("panic:ParseQuery:"+fpOf(fmt.Sprint(res.panicked)), fmt.Sprintf("ParseQuery panics: %v", res.panicked), in)
		return
	case !res.isErr:
		t, err := itreeCoq(root, atoms)
		if err != nil {
			w.Violate("shape:ParseQuery", err.Error(), in)
			return
		}
		impl, implText = "(Ok "+t+")", root.String()
	}
	w.Count("legacy:result:" + map[bool]string{true: "error", false: "ok"}[res.isErr])
	if !utf8.ValidString(s) {
		w.Count("legacy:invalid-utf8")
	}
	if strings.ContainsAny(s, "[{") {
		w.Count("legacy:has-range-bracket")
	}
	if strings.Contains(s, "\"") {
		w.Count("legacy:has-quote")
	}
	if strings.Contains(s, "\\") {
		w.Count("legacy:has-backslash")
	}
	oe, atomsCoq := "None", "[]"
	if e != nil {
		oe = "(Some " + e.coq() + ")"
		in["expr"] = e.coq()
		keys := make([]string, 0, len(atoms))
		for k := range atoms {
			keys = append(keys, k)
		}
		sortStrings(keys)
		parts := make([]string, len(keys))
		for i, k := range keys {
			parts[i] = fmt.Sprintf("(%s, %d)", k[len("("):len(k)-1], atoms[k])
		}
		if len(parts) > 0 {
			atomsCoq = "[" + strings.Join(parts, "; ") + "]"
		}
	}
	nontrivial := !res.isErr && (strings.ContainsAny(s, "\"\\[{*(") || strings.Contains(strings.ToLower(s), "not"))
	if e != nil {
		hn, hb := e.hasNotAndBinary()
		nontrivial = hn && hb
	}
	w.Add(fmt.Sprintf("CLegacy %s %s %s %s %s %s fm_builtin %s %s %s", coqBytes(s), classTable(s, nil), lowTable(s), casefile.Bool(cfg), nilmap, user, impl, oe, atomsCoq),
		class, nontrivial, in, implText)
}

func sortStrings(a []string) {
	for i := 1; i < len(a); i++ {
		for j := i; j > 0 && a[j] < a[j-1]; j-- {
			a[j], a[j-1] = a[j-1], a[j]
		}
	}
}

// aggCase: one raw string through the real ParseAggregationFilter
func aggCase(w *casefile.Writer, s string, cfg bool) {
	in := map[string]any{"query": s, "query_hex": fmt.Sprintf("%x", s), "case_sensitive": cfg, "target": "ParseAggregationFilter"}
	old := conf.CaseSensitive
	conf.CaseSensitive = cfg
	defer func() { conf.CaseSensitive = old }()
	var lit *parser.Literal
	res := guarded(func() error {
		l, err := parser.ParseAggregationFilter(s)
		lit = l
		return err
	})
	w.Evals(1)
	impl, implText := "Err", "error"
	switch {
	case res.hung:
		w.Violate("hang:ParseAggregationFilter", "ParseAggregationFilter does not return", in)
		return
	case res.panicked != nil:
		w.Violate("panic:ParseAggregationFilter:"+fpOf(fmt.Sprint(res.panicked)), fmt.Sprintf("ParseAggregationFilter panics: %v", res.panicked), in)
		return
	case !res.isErr && lit == nil:
		impl, implText = "(Ok None)", "nil"
	case !res.isErr:
		t, _ := legTokenCoq(lit)
		impl, implText = "(Ok (Some "+t+"))", lit.String()
	}
	switch {
	case res.isErr:
		w.Count("agg:result:error")
	case lit == nil:
		w.Count("agg:result:nil")
	default:
		w.Count("agg:result:literal")
	}
	w.Add(fmt.Sprintf("CAgg %s %s %s %s %s", coqBytes(s), classTable(s, nil), lowTable(s), casefile.Bool(cfg), impl),
		"agg-filter", !res.isErr && lit != nil, in, implText)
}

// ---------------------------------------------------------------- inputs

// hostile strings written by hand: every error site and every boundary of the legacy tokenizer
var legacySeeds = []string{
	"", " ", "k", "k:", "k :", "k: ", ":", ":v", " :v", "k::v", "k:v:", "k:v:w", "k:v", " k:v ", "\tk:v\n", "k\u00a0:\u2003v", "k:v w", "t:v w",
	"(", ")", "()", "( )", "(k:v", "k:v)", "(k:v)", "((k:v))", "(k:v))", "((k:v)", "( k:v ) ", "(k:v)(k:w)", "(k:v) k:w", "(k:v) and", "(k:v) or (", "(k:v)x",
	"not", "not ", "NOT k:v", "nOt k:v", "not not k:v", "not(k:v)", "not (k:v)", "notk:v", "not:v", "k:not", "n\u00f6t k:v", "NOT", "not not",
	"and", "or", "and k:v", "k:v and", "k:v AND k:w", "k:v And k:w", "k:v and and k:w", "k:v or or k:w", "k:v or", "k:v xor k:w", "k:v andk:w", "k:v and(k:w)", "k:v AND NOT k:w", "k:v or not not k:w",
	"k:v \u212aand k:w", "k:v \u0130nd k:w", "k:v OR\u00a0k:w", "k:a or k:b and k:c", "k:a and k:b or k:c and k:d", "k:a or k:b or k:c",
	`"`, `k:"`, `k:"a`, `k:"a"`, `k:""`, `k:"" `, `k:"a""b"`, `k:"a"b`, `k:"a" b`, `k:"a\`, `k:"a\"`, `k:"a\""`, `k:"\\"`, `k:"\*"`, `k:"*"`, `k:"**"`, `k:"a*b*"`, `k:"\a"`, `k:"\-"`, `k:"a b"`, `t:"a b"`, `t:""`, `t:"--"`, `t:"a-b c_d"`, `t:"*"`, `t:"**"`, `t:"a**b"`, `t:"\*\*"`, `"k":v`, `k":v`,
	`\`, `k:\`, `k:a\`, `k:\\`, `k:\*`, `k:\"`, `k:\:`, `k:\(\)`, `k:\[\]\{\}`, `k:\ `, `k:a\ b`, `k:\-a`, `k:\/a\/b`, `k:\a`, `k:a\b`, `k:\`+"\u00e9", `k\:v`, `\k:v`, `k:\` + "\xff",
	"*", "k:*", "k:**", "k:a*", "k:*a", "k:a*b", "k:a**b", "k:*\\*", "k:\\**", "t:*", "t:**", "t:a*b*", "t:a* b", "t:\\*", "*:v", "k*:v", "k:***",
	"k:[", "k:{", "k:[a", "k:[a ", "k:[a TO", "k:[a TO ", "k:[a TO b", "k:[a TO b]", "k:{a TO b}", "k:[a TO b}", "k:{a to b]", "k:[a To b]", "k:[a tO b] ", "k:[ a TO b ]", "k:[a TOb]", "k:[aTO b]",
	"k:[a b]", "k:[a TO b c]", "k:[a TO b)", "k:[a, b]", "k:[* TO b]", "k:[a TO *]", "k:[* TO *]", "k:[** TO b]", "k:[a* TO b]", "k:[*a TO b]", "k:[\"a b\" TO \"c\"]", "k:[\"\" TO \"\"]", "k:[\"a TO b]", "k:[\"a\"x TO b]",
	"k:[\"*\" TO b]", "k:[\"\\*\" TO b]", "k:[\"a*\" TO b]", "k:[\\- TO \\/]", "k:[a\\ b TO c]", "k:[a\\x TO c]", "k:[ TO b]", "k:[TO TO TO]", "k:[to to to]", "k:[a TO ]", "k:[a TO]", "k:[]", "k:[:", "k:[a:b TO c]", "k:[a TO b]]", "k:[a TO b] and k:v",
	"k:[A TO \u00c9]", "k:[\xff TO \xfe]", "k:]", "k:}", "k:a]", "k:a[b", "[a TO b]", "k[:v", "e:[1 TO 2]", "o:[1 TO 2]", "g:{1 TO 2}", "n:[1 TO 2]", "u:[1 TO 2]", "t:[a TO b]", "_exists_:[A TO B]", "k:[a \u212ao b]", "k:[a T\u00d6 b]",
	"k:v", "t:v", "p:/a/b", "p:\\/a\\/b", "e:v", "e:\"v\"", "e:", "o:v", "o.x:v", "g:v", "g:*", "n:v", "n.x:v", "m:v", "m:A B", "u:v", "_exists_:K", "_exists_:\u00c9", "_all_:v", "_index_:v", "_all_:*", "`k`:v", "K:v", "k.x:v", "\u00e9:v", "\xff:v", "k\xff:v",
	"k:\u00c9COLE", "k:\u0130x", "k:\u212a", "k:\u01c5", "t:\u00c9t\u00e9 \u00bd", "t:a\u00b2b", "t:\u0663", "k:\xff", "k:\xc3", "k:a\xffb", "t:a\xffb", "k:\xf0\x9f\x98\x80", "k:\xed\xa0\x80", "k:\ufffd", "t:\ufffd", "k:\ue000", "k:a\x00b", "\x00",
	"t:a-b", "t:a.b,c", "t:---", "t:-", "t:_", "t:a_b", "t:A B", "t:a\\ b", "t:\"a\\\"b\"", "t:\"A, b; C\"", "t:a\\-b", "k:a-b", "k:-", "k:a/b", "k:a,b", "k:a|b", "k:#c", "k:v # c", "k:'a b'", "k:`a`", "k:in(a,b)", "k:a | fields x",
	"k:v\n", "k:v\r\nand\tk:w", "k:v\u0085and\u2028k:w", "k:\u00a0v", "k:v\u3000", "(\u00a0k:v\u00a0)", "k:[\u00a0a\u00a0TO\u00a0b\u00a0]",
}

var legacyFrags = []string{
	`"`, `"`, `\`, `\"`, `\\`, `\*`, `*`, `*`, `\-`, `\/`, `\ `, `\x`, `\:`, `\(`, ":", ":", "(", ")", "[", "]", "{", "}", " TO ", " to ", "To", " ", " ", "\t", "\u00a0",
	"k", "t", "p", "e", "o", "g", "n", "m", "u", "o.x", "_exists_", "_all_", "k:", "t:", "k:", "t:", "p:", "m:", "a", "B1", "x_y", "v1", "\u00e9", "\u00c9", " and ", " AND ", " or ", " Or ", "not ", "NOT ",
	"\xff", "\xc3", "\xa9", "\xe2\x82", "\ue000", "\ufffd", "-", "/", ",", ".", "\u0130", "\u212a", "\u017f", "\u00bd", "\u0663", "\x00", "'", "`", "|", "#",
}

var legacyBases = []string{
	`k:v`, `k:"a b"`, `t:a b`, `t:"a-b c"`, `k:[a TO b]`, `k:{"a" to *}`, `(k:a or k:b) and not t:c`, `not (k:a*b)`, `k:a\ b\*`, `_exists_:K or m:"X y"`, `k:a and (t:b or p:/c)`,
}

const structuralChars = "():\"\\*[]{} \t-/\xff\u00a0tT"

// every structural character inserted at / replacing every position of the base strings
func structuralMutants(bases []string) []string {
	var out []string
	for _, b := range bases {
		for p := 0; p <= len(b); p++ {
			for _, c := range []string{"(", ")", ":", "\"", "\\", "*", "[", "]", "{", "}", " ", "\xff", "\u00a0", "-"} {
				out = append(out, b[:p]+c+b[p:])
				if p < len(b) {
					out = append(out, b[:p]+c+b[p+1:])
				}
			}
			if p < len(b) {
				out = append(out, b[:p]+b[p+1:], b[:p])
			}
		}
	}
	return out
}

func legacyFragString(r *rng.R) string {
	var sb strings.Builder
	for n := r.Range(1, 10); n > 0; n-- {
		sb.WriteString(rng.Pick(r, legacyFrags))
	}
	return sb.String()
}

// ---- grammar-derived legacy queries with varied leaf syntax; the generator knows the expression

func legAtom(r *rng.R, n int, cfg bool) string {
	v := fmt.Sprintf("v%d", n)
	switch r.Intn(10) {
	case 0:
		return `k:"` + v + `"`
	case 1:
		return "k :" + v
	case 2:
		return "k:\u00a0 " + v
	case 3:
		if !cfg {
			return "k:V" + v[1:]
		}
	case 4:
		return "p:" + v
	case 5:
		return fmt.Sprintf("k:[%s TO %s]", v, rng.Pick(r, []string{"*", "z", `"x y"`, v}))
	case 6:
		return fmt.Sprintf("k:{ %s to *}", v)
	case 7:
		return rng.Pick(r, []string{"t:", "m:", "o.x:", "n.x:", "_exists_:"}) + v
	case 8:
		return `t:"` + v + `"`
	}
	return "k:" + v
}

func legText(r *rng.R, ns []int) string {
	ws := make([]string, len(ns))
	for i, n := range ns {
		ws[i] = fmt.Sprintf("v%d", n)
	}
	switch r.Intn(5) {
	case 0:
		return "t:" + strings.Join(ws, `\ `)
	case 1:
		return "t:" + strings.Join(ws, "-")
	case 2:
		return `t:"` + strings.Join(ws, ", ") + `"`
	case 3:
		return `m:"` + strings.Join(ws, "  ") + ` "`
	}
	return `t:"` + strings.Join(ws, " ") + `"`
}

func legRender(r *rng.R, ts []tok, cfg bool) string {
	var sb strings.Builder
	sp := func() string {
		return rng.Pick(r, []string{" ", " ", " ", "  ", "\t", "\n", "\u00a0"})
	}
	for i, t := range ts {
		switch t.kind {
		case "atom":
			sb.WriteString(legAtom(r, t.n, cfg))
		case "text":
			sb.WriteString(legText(r, t.ns))
		case "and":
			sb.WriteString(rng.Pick(r, []string{"and", "AND", "And", "aNd"}))
		case "or":
			sb.WriteString(rng.Pick(r, []string{"or", "OR", "Or"}))
		case "not":
			sb.WriteString(rng.Pick(r, []string{"not", "NOT", "Not"}))
		case "lp":
			sb.WriteString("(")
			if r.Chance(1, 3) {
				sb.WriteString(sp())
			}
			continue
		case "rp":
			sb.WriteString(")")
		}
		if i+1 < len(ts) {
			nx := ts[i+1].kind
			// a word must be separated from the next word; brackets separate by themselves
			if nx == "rp" || (t.kind == "rp" && r.Chance(1, 2)) {
				if r.Chance(1, 4) {
					sb.WriteString(sp())
				}
				continue
			}
			if (t.kind == "and" || t.kind == "or" || t.kind == "not") && nx == "lp" && r.Chance(1, 2) {
				continue
			}
			sb.WriteString(sp())
		}
	}
	return sb.String()
}

func legacyExprCase(w *casefile.Writer, r *rng.R, e *expr) {
	var ts []tok
	if r.Bool() {
		ts = renderFull(e)
	} else {
		ts = render(0, e)
	}
	cfg := r.Chance(1, 4)
	s := legRender(r, ts, cfg)
	if r.Chance(1, 4) {
		s = rng.Pick(r, []string{" ", "\n", "\u00a0 "}) + s + rng.Pick(r, []string{" ", "\t\n", ""})
	}
	legacyCase(w, s, "full", cfg, e, "legacy-raw-expr")
}

// ---- very deep nesting: Coq-evaluated up to a few hundred levels, the real parser alone beyond
func deepStrings(n int) []string {
	return []string{
		strings.Repeat("(", n) + "k:v" + strings.Repeat(")", n),
		strings.Repeat("(", n) + "k:v" + strings.Repeat(")", n-1),
		strings.Repeat("( ", n) + "k:v" + strings.Repeat(" )", n) + ")",
		strings.Repeat("not ", n) + "k:v",
		strings.Repeat("(not ", n) + "k:v" + strings.Repeat(")", n),
		strings.Repeat("(", n),
		"k:a" + strings.Repeat(" or (k:b and not k:c", n) + strings.Repeat(")", n),
	}
}

// modelMaxNesting: parser/query_parser.go maxNestingDepth as the MODEL has it (Lexer.v:
// max_nesting_depth; every CNest case compares the two). The real constant is not imported on
// purpose: the boundary cases below probe the real limit, so a removed or changed limit shows as a
// failing input, not as a build failure.
const modelMaxNesting = 10000

func nestQuery(shape string, n int) string {
	if shape == "not" {
		return strings.Repeat("not ", n) + "k:v"
	}
	return strings.Repeat("(", n) + "k:v" + strings.Repeat(")", n)
}

func runTarget(target, q string) error {
	var err error
	if target == "ParseSeqQL" {
		_, err = parser.ParseSeqQL(q, nil)
	} else {
		_, err = parser.ParseQuery(q, nil)
	}
	return err
}

// childProbe runs one real parser call in a CHILD process (exhausting the goroutine stack is a
// fatal error that recover() cannot catch). Returns "ok", "error", "stack-overflow", "timeout" or
// "died: ...".
func childProbe(kind, target, shape string, n int, timeout time.Duration) string {
	ctx, cancel := context.WithTimeout(context.Background(), timeout)
	defer cancel()
	cmd := exec.CommandContext(ctx, os.Args[0], "-deep", strconv.Itoa(n), "-deep-kind", kind, "-deep-target", target, "-deep-shape", shape, "-out", os.TempDir())
	cmd.Env = append(os.Environ(), "LOG_LEVEL=fatal")
	out, err := cmd.CombinedOutput()
	so := string(out)
	switch {
	case ctx.Err() != nil:
		return "timeout"
	case err == nil && strings.Contains(so, "probe-result: ok"):
		return "ok"
	case err == nil && strings.Contains(so, "probe-result: error"):
		return "error"
	case strings.Contains(so, "stack overflow") || strings.Contains(so, "goroutine stack exceeds"):
		return "stack-overflow"
	}
	if len(so) > 300 {
		so = so[len(so)-300:]
	}
	return fmt.Sprintf("died: %v: %s", err, so)
}

// deepChild: executed in the child process
func deepChild(kind, target, shape string, n int) {
	var q string
	if kind == "flat" {
		q = strings.Repeat("a:b or ", n) + "a:b"
	} else {
		q = nestQuery(shape, n)
	}
	if runTarget(target, q) != nil {
		fmt.Println("probe-result: error")
	} else {
		fmt.Println("probe-result: ok")
	}
}

// nestingProbe: the permanent regression class for the nesting limit. Boundary: limit-1 brackets
// or NOTs put the leaf at level = limit (accepted), limit of them at limit+1 (error); 3,000,000 of
// them must be an error with the process alive. evalModel: the byte-level models parse the
// boundary bracket queries too (thorough tier: ~25 s per case inside Coq).
func nestingProbe(w *casefile.Writer, evalModel bool) {
	for _, target := range []string{"ParseQuery", "ParseSeqQL"} {
		for _, shape := range []string{"paren", "not"} {
			for _, n := range []int{modelMaxNesting - 1, modelMaxNesting, 3000000} {
				in := map[string]any{"probe": "nesting", "target": target, "shape": shape, "depth": n,
					"query": fmt.Sprintf("%q repeated %d times, then k:v (and the closing brackets)", map[string]string{"paren": "(", "not": "not "}[shape], n)}
				var res string
				if n <= modelMaxNesting {
					q := nestQuery(shape, n)
					r := guarded(func() error { return runTarget(target, q) })
					switch {
					case r.hung || r.panicked != nil:
						w.Violate("panic-or-hang:"+target+":nesting", fmt.Sprintf("%s on %d nested %s: panic=%v hung=%v", target, n, shape, r.panicked, r.hung), in)
						continue
					case r.isErr:
						res = "error"
					default:
						res = "ok"
					}
				} else {
					res = childProbe("nest", target, shape, n, 120*time.Second)
				}
				w.Evals(1)
				w.Count("nesting:" + target + ":" + shape + ":" + strconv.Itoa(n) + ":" + strings.SplitN(res, ":", 2)[0])
				switch res {
				case "ok", "error":
				case "stack-overflow":
					w.Violate("fatal-stack-overflow:"+target, fmt.Sprintf("%s kills the process (fatal error: stack overflow, not recoverable) on %d nested %s", target, n, shape), in)
					continue
				default:
					w.Violate("deep-probe-died:"+target, "child process: "+res, in)
					continue
				}
				eval := evalModel && shape == "paren" && n <= modelMaxNesting
				w.Add(fmt.Sprintf("CNest %s %s %d%%N %d%%N %s %s", casefile.Bool(target == "ParseSeqQL"), casefile.Bool(shape == "not"), n, modelMaxNesting, casefile.Bool(res == "ok"), casefile.Bool(eval)),
					"nesting-limit", true, in, res)
			}
		}
	}
}

// ---- flat shapes: many NOTs / brackets in total, little nesting

type flatShape struct {
	name   string
	query  string
	level  int // level of the deepest sub-expression
	leaves int
	negs   int // NOT + NAND nodes expected in the returned tree, -1 = not checked
}

func flatShapes() []flatShape {
	var out []flatShape
	excl := func(n int, and, not string) string {
		var sb strings.Builder
		sb.WriteString("k:keep")
		for i := 0; i < n; i++ {
			fmt.Fprintf(&sb, " %s %s k:v%d", and, not, i)
		}
		return sb.String()
	}
	for _, n := range []int{9998, 10000, 10050, 30000} {
		// (..((keep AND NOT v0) AND NOT v1)..): one NAND per negation
		out = append(out, flatShape{fmt.Sprintf("exclusion-list-%d", n), excl(n, "and", "not"), 2, n + 1, n})
	}
	out = append(out, flatShape{"exclusion-list-upper-10050", excl(10050, "AND", "NOT"), 2, 10051, 10050})
	{
		var sb strings.Builder
		n := 10010
		for i := 0; i < n; i++ {
			if i > 0 {
				sb.WriteString(" or ")
			}
			fmt.Fprintf(&sb, "(not k:v%d)", i)
		}
		// OR of negations = NOT of the AND chain: one NOT at the root
		out = append(out, flatShape{"or-chain-of-negated-groups-10010", sb.String(), 3, n, 1})
	}
	{
		var sb strings.Builder
		n := 10010
		for i := 0; i < n; i++ {
			if i > 0 {
				sb.WriteString(" and ")
			}
			fmt.Fprintf(&sb, "(k:v%d)", i)
		}
		out = append(out, flatShape{"and-chain-of-bracket-groups-10010", sb.String(), 2, n, 0})
	}
	{
		// mix: 4000 x  not (k:a or not k:b) and (not not k:c) or k:d  -> 16000 NOTs, 8000 bracket pairs, level 4
		var sb strings.Builder
		n := 4000
		for i := 0; i < n; i++ {
			if i > 0 {
				sb.WriteString(" or ")
			}
			fmt.Fprintf(&sb, "not (k:a%d or not k:b%d) and (not not k:c%d) or k:d%d", i, i, i, i)
		}
		out = append(out, flatShape{"mix-16000-nots-8000-brackets", sb.String(), 4, 4 * n, -1})
	}
	return out
}

func astStats(n *parser.ASTNode) (leaves, negs int) {
	// iterative: the trees are left-deep and tens of thousands of nodes high
	stack := []*parser.ASTNode{n}
	for len(stack) > 0 {
		x := stack[len(stack)-1]
		stack = stack[:len(stack)-1]
		if x == nil {
			continue
		}
		if lg, ok := x.Value.(*parser.Logical); ok {
			if op := parser.VerifLogicalOp(lg); op == parser.VerifNot || op == parser.VerifNAnd {
				negs++
			}
			stack = append(stack, x.Children...)
		} else {
			leaves++
		}
	}
	return
}

// nestingFlat: part of the nesting regression class. The limit is about NESTING: a long flat query
// must be accepted by both parsers (C12_level_is_nesting), with the complete flat tree.
func nestingFlat(w *casefile.Writer) {
	for _, sh := range flatShapes() {
		for _, target := range []string{"ParseQuery", "ParseSeqQL"} {
			sh, target := sh, target
			var root *parser.ASTNode
			var perr error
			r := guarded(func() error {
				if target == "ParseSeqQL" {
					q, err := parser.ParseSeqQL(sh.query, nil)
					root, perr = q.Root, err
				} else {
					root, perr = parser.ParseQuery(sh.query, nil)
				}
				return perr
			})
			w.Evals(1)
			pre := sh.query
			if len(pre) > 120 {
				pre = pre[:120] + " ..."
			}
			in := map[string]any{"probe": "nesting-flat", "shape": sh.name, "target": target, "query_prefix": pre, "query_len": len(sh.query), "level": sh.level}
			if r.hung || r.panicked != nil {
				w.Violate("panic-or-hang:"+target+":nesting-flat", fmt.Sprintf("%s on %s: panic=%v hung=%v", target, sh.name, r.panicked, r.hung), in)
				continue
			}
			leaves, negs := 0, 0
			impl := "error"
			if !r.isErr {
				leaves, negs = astStats(root)
				impl = fmt.Sprintf("ok: %d leaves, %d NOT/NAND nodes", leaves, negs)
			} else {
				impl = "error: " + perr.Error()
				if len(impl) > 200 {
					impl = impl[:200]
				}
			}
			expNegs := sh.negs
			if expNegs < 0 {
				expNegs = negs
			}
			w.Count("nesting-flat:" + target + ":" + sh.name + ":" + map[bool]string{true: "error", false: "ok"}[r.isErr])
			w.Add(fmt.Sprintf("CFlat %s %d%%N %d%%N %s %d%%N %d%%N %d%%N %d%%N", casefile.Bool(target == "ParseSeqQL"), sh.level, modelMaxNesting, casefile.Bool(!r.isErr), leaves, sh.leaves, negs, expNegs),
				"nesting-flat", true, in, impl)
		}
	}
}

// flatChainProbe (thorough tier only; ~2 GB, several seconds): a FLAT chain of 10^7 OR operators
// builds a left-deep AST and propagateNot recurses over it until the stack overflows. Known
// finding: one fingerprint for both parsers.
func flatChainProbe(w *casefile.Writer) {
	const n = 10000000
	for _, target := range []string{"ParseQuery", "ParseSeqQL"} {
		res := childProbe("flat", target, "", n, 300*time.Second)
		w.Evals(1)
		w.Count("flat-chain:" + target + ":" + strings.SplitN(res, ":", 2)[0])
		in := map[string]any{"probe": "flat-chain", "target": target, "operators": n, "query": fmt.Sprintf("%q repeated %d times, then a:b", "a:b or ", n)}
		switch res {
		case "ok", "error":
		case "stack-overflow":
			w.Violate("fatal-stack-overflow-flat-chain", fmt.Sprintf("%s kills the process (fatal error: stack overflow in propagateNot) on a flat chain of %d OR operators", target, n), in)
		default:
			w.Violate("flat-chain-probe-died", target+": child process: "+res, in)
		}
	}
}

func legacyCases(w *casefile.Writer, r *rng.R, tier string) {
	nFrag, nExpr, nAggFrag, stride := 1000, 400, 300, 6
	deep := []int{40, 300}
	if tier == "thorough" {
		nFrag, nExpr, nAggFrag, stride = 25000, 6000, 6000, 1
		deep = []int{40, 300, 1200}
	}
	pickMap := func() string {
		switch c := r.Intn(10); {
		case c < 2:
			return "nil"
		case c < 3:
			return "empty"
		}
		return "full"
	}
	// fixed hostile strings: under the full mapping, and a rotating second mapping / case mode
	for i, s := range legacySeeds {
		legacyCase(w, s, "full", false, nil, "legacy-raw-hostile")
		legacyCase(w, s, []string{"nil", "empty", "full"}[i%3], i%2 == 0, nil, "legacy-raw-hostile")
		aggCase(w, s, i%4 == 0)
	}
	// every structural character in every position (quick tier: every stride-th mutant, offset by seed)
	muts := structuralMutants(legacyBases)
	off := r.Intn(stride)
	for i, s := range muts {
		if i%stride != off {
			continue
		}
		legacyCase(w, s, "full", false, nil, "legacy-raw-structural")
		if i%3 == 0 {
			aggCase(w, s, false)
		}
	}
	// fragment-built and fuzz strings
	for i := 0; i < nFrag; i++ {
		s := legacyFragString(r)
		if r.Chance(1, 4) {
			s = fuzzString(r)
		}
		legacyCase(w, s, pickMap(), r.Chance(1, 5), nil, "legacy-raw-fragments")
	}
	for i := 0; i < nAggFrag; i++ {
		var s string
		switch r.Intn(4) {
		case 0:
			s = legacyFragString(r)
		case 1:
			s = rng.Pick(r, muts)
		default:
			s = rng.Pick(r, []string{"", " "}) + rng.Pick(r, fuzzFields) + rng.Pick(r, []string{":", ":", " : ", ""}) + rng.Pick(r, []string{"x", "X*", "*", "a*b", `"a b"`, `"A\"b"`, `a\ b`, "[1 TO 2]", "a b", "\u00c9", "\xff", `"`, `\`, "", "**", `"*\*"`, "a and k:b", "a)", "\u0130"}) + rng.Pick(r, []string{"", "", " ", " x"})
		}
		aggCase(w, s, r.Chance(1, 4))
	}
	// grammar-derived expressions in raw legacy syntax (spec: truth table)
	for i := 0; i < nExpr; i++ {
		legacyExprCase(w, r, randExpr(r, r.Range(1, 5), false))
	}
	// flat queries with many NOTs / brackets, small enough for the model
	for _, n := range []int{30, 120} {
		var a, b strings.Builder
		a.WriteString("k:keep")
		for i := 0; i < n; i++ {
			fmt.Fprintf(&a, " and not k:v%d", i)
			if i > 0 {
				b.WriteString(" or ")
			}
			fmt.Fprintf(&b, "(not k:v%d)", i)
		}
		legacyCase(w, a.String(), "nil", false, nil, "legacy-raw-deep")
		legacyCase(w, b.String(), "nil", false, nil, "legacy-raw-deep")
	}
	// deep nesting
	for _, n := range deep {
		for _, s := range deepStrings(n) {
			legacyCase(w, s, "nil", false, nil, "legacy-raw-deep")
		}
	}
	// far deeper than the Coq side evaluates, real parser only, under recover
	for _, s := range deepStrings(100000) {
		s := s
		res := guarded(func() error { _, err := parser.ParseQuery(s, nil); return err })
		w.Evals(1)
		if res.hung || res.panicked != nil {
			w.Violate("panic-or-hang:ParseQuery:deep", fmt.Sprintf("ParseQuery on 100000 nested brackets: panic=%v hung=%v", res.panicked, res.hung), map[string]any{"query_prefix": s[:40], "depth": 100000})
		}
		w.Count("legacy:deep-100000:" + map[bool]string{true: "error", false: "ok"}[res.isErr])
	}
}
