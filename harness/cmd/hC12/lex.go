// C12 stage 2: raw strings against the REAL SeqQL lexer (token dump through
// parser/export_verif_c12.go) and the real ParseSeqQL; the Coq side (props/C12/coq/Lexer.v)
// lexes and parses the same bytes with the class oracles instantiated by the tables dumped here.
package main

import (
	"fmt"
	"sort"
	"strings"
	"time"
	"unicode"
	"unicode/utf8"

	"github.com/ozontech/seq-db/conf"
	"github.com/ozontech/seq-db/parser"
	"github.com/ozontech/seq-db/seq"

	"verif/harness/internal/casefile"
	"verif/harness/internal/rng"
)

func coqBytes(s string) string {
	if len(s) == 0 {
		return "[]"
	}
	return casefile.Bytes([]byte(s))
}

func ltokCoq(toks []parser.VerifTok) string {
	parts := make([]string, len(toks))
	for i, t := range toks {
		parts[i] = fmt.Sprintf("T %s %s %s %s", coqBytes(t.Text), casefile.Bool(t.Quoted), casefile.Bool(t.Raw), casefile.Bool(t.Space))
	}
	return "[" + strings.Join(parts, "; ") + "]"
}

func ltokJSON(toks []parser.VerifTok) []string {
	out := make([]string, len(toks))
	for i, t := range toks {
		fl := ""
		if t.Quoted {
			fl += "q"
		}
		if t.Raw {
			fl += "r"
		}
		if t.Space {
			fl += "s"
		}
		out[i] = fmt.Sprintf("%q/%s", t.Text, fl)
	}
	return out
}

// classTable: the Unicode classes (as Go's unicode package reports them) of every rune the
// model can meet on this input: runes decoded at every byte offset of the input and of the
// concatenated token texts (composite tokens are substrings of that), plus RuneError.
func classTable(s string, toks []parser.VerifTok) string {
	seen := map[rune]bool{utf8.RuneError: true}
	add := func(x string) {
		for i := 0; i < len(x); i++ {
			r, _ := utf8.DecodeRuneInString(x[i:])
			seen[r] = true
		}
	}
	add(s)
	var sb strings.Builder
	for _, t := range toks {
		sb.WriteString(t.Text)
	}
	add(sb.String())
	rs := make([]int, 0, len(seen))
	for r := range seen {
		rs = append(rs, int(r))
	}
	sort.Ints(rs)
	parts := make([]string, len(rs))
	for i, x := range rs {
		r := rune(x)
		m := 0
		if unicode.IsSpace(r) {
			m |= 1
		}
		if unicode.IsLetter(r) {
			m |= 2
		}
		if unicode.IsDigit(r) {
			m |= 4
		}
		if unicode.IsNumber(r) {
			m |= 8
		}
		parts[i] = fmt.Sprintf("(%d, %d)", x, m)
	}
	return "[" + strings.Join(parts, "; ") + "]%N"
}

// type class of the model (Lexer.v: ftype)
func ftypeClass(t seq.TokenizerType) int {
	switch t {
	case seq.TokenizerTypeNoop:
		return 0
	case seq.TokenizerTypeKeyword, seq.TokenizerTypePath:
		return 1
	case seq.TokenizerTypeText:
		return 2
	}
	return 3
}

func mappingTable(name string, m seq.Mapping, fields []string) string {
	sort.Strings(fields)
	parts := make([]string, len(fields))
	for i, f := range fields {
		parts[i] = fmt.Sprintf("(%s, %d%%N)", coqBytes(f), ftypeClass(parser.VerifIndexType(m, f)))
	}
	return fmt.Sprintf("Definition %s : list (bytes * N) := [%s].\n", name, strings.Join(parts, "; "))
}

// coqHeader: imports plus the mapping tables, computed by the REAL indexType
func coqHeader() string {
	var full []string
	for f := range fuzzMapping {
		full = append(full, f)
	}
	return "From C12 Require Import Model Lexer Legacy CaseDefs.\n" +
		mappingTable("fm_full", fuzzMapping, full) +
		mappingTable("fm_builtin", seq.Mapping{}, parser.VerifBuiltinFields())
}

// shape of the returned AST: every leaf (literal or range) is Leaf 0
func shapeCoq(n *parser.ASTNode) (string, error) {
	if n == nil {
		return "", fmt.Errorf("nil node")
	}
	lg, ok := n.Value.(*parser.Logical)
	if !ok {
		return "(Leaf 0)", nil
	}
	var cs []string
	for _, c := range n.Children {
		s, err := shapeCoq(c)
		if err != nil {
			return "", err
		}
		cs = append(cs, s)
	}
	op := parser.VerifLogicalOp(lg)
	switch {
	case op == parser.VerifNot && len(cs) == 1:
		return "(NotN " + cs[0] + ")", nil
	case op == parser.VerifAnd && len(cs) == 2:
		return "(AndN " + cs[0] + " " + cs[1] + ")", nil
	case op == parser.VerifOr && len(cs) == 2:
		return "(OrN " + cs[0] + " " + cs[1] + ")", nil
	case op == parser.VerifNAnd && len(cs) == 2:
		return "(NAndN " + cs[0] + " " + cs[1] + ")", nil
	}
	return "", fmt.Errorf("operator %d with %d children", op, len(cs))
}

// hangs seen so far: a hung goroutine keeps spinning, so after a few of them the lexer classes stop
var lexHangs int

type lexRun struct {
	toks  []parser.VerifTok
	ended bool
}

// realLex: the real lexer under recover + watchdog
func realLex(s string) (lr lexRun, panicked any, hung bool) {
	type out struct {
		lr lexRun
		p  any
	}
	done := make(chan out, 1)
	go func() {
		var o out
		defer func() {
			if p := recover(); p != nil {
				o.p = p
			}
			done <- o
		}()
		o.lr.toks, o.lr.ended = parser.VerifLex(s, len(s)+2)
	}()
	select {
	case o := <-done:
		return o.lr, o.p, false
	case <-time.After(10 * time.Second):
		lexHangs++
		return lexRun{}, nil, true
	}
}

var lexSeeds = []string{
	"t:in(a, \"b c\")", "m:in(\"x y\", \"Connection Refused\", timed-out)", "p:in(\"/a b\", \"/c d\")",
	"k:a or k:b | fields m", "k:a and k:b or t:c | fields m", "k:a or k:b and k:c | fields except m", "(k:a or k:b) | fields m", "not k:a or k:b|fields m",
	"k:a-b c", "k:a*b c", "k:\"a\"'b' c", "k:a-b-c d and k:e", "t:a_b-c d",
	`service:"a\"`, `k:'a\'`, `k:"\`, `"`, `'`, "`", `k:"a*`, `k:"a\*`, "k:`a", `k:"a\"b"`, `k:'it\'s'`, `k:"a\"" and k:"b\"`,
	`k:"\x41\u00e9\U0001F600\101"`, `k:"\777"`, `k:"\q"`, `k:"\U99999999"`, `k:"\ud800"`, `k:"\xff"`, `k:"\x4"`, `k:'\"'`, `k:"\'"`,
	"# c\nk:v", "k:v # c", "k:v #c\n and k:w", "#", "#\n", "##\n#\nk:v", "k:v#x\n#y\nand k:w", "k:a#b", "k:\"a#b\"",
	"k:a*b", "k:*", "*", "(*)", "* and k:v", "k:\ue000", "k:a\ue000b", "k:\"a\ue000\"", "\ue000", "k:\"*\\*\"", "k:`*`",
	"\xff", "k:\xff\xfe", "k:\"\xff\"", "k:\"\xff*\"", "k:\xc3", "k:\xc3\"\xa9\"", "t:\xc3\"\xa9\"", "k:\xf0\x9f\x98", "\xed\xa0\x80:v",
	"k:a-b_c.d", "k:a\"b c\"'d'`e`", "k: \"a\"", "k :v", "k:a b", "k:$x", "k:x$", "k:-x", "k:a--b", "k:@a",
	"k:in(a, \"b c\", d*)", "t:in(\"a b\", c)", "k:in()", "k:in(a,)", "k:in(a", "k:IN (a)", "e:in(a)", "k:in a",
	"k:[1, 5]", "k:(1 to *]", "k:[\"a b\", 'c']", "k:[a*b, 1]", "k:[1 5]", "k:[1,", "e:[1,2]", "u:[1,2]", "k:[1 TO 2)", "k:[*, *]",
	"k:v | fields a, b", "k:v | field\u017f a", "k:v | FIELDS except `a b`, c", "k:v | fields a,", "k:v | fields", "k:v | fields a | fields b",
	"k:v | fields a*", "k:v|fields a", "k:v | x", "k:v | fields a |", "(k:v | fields a)", "| fields a",
	"k:v AND t:w OR NOT k:z", "k:v aNd k:w", "\"k\":v", "'t':\"a b\"", "`k`:v", "k*:v", "k:v)", "(k:v", "((k:v))", "not", "k:", "k", ":", "",
	"k:\"\"", "\"\":v", "t:\"\"", "t:\"a.b,c d\"", "t:a*b", "t:*", "t:\"\\*\"", "t:\"a*b c\"", "t:\"\ue000\"", "t:\" , \"", "t:\"a_b\"",
	"k:\u00a0v", "k:\u2003v", "k\u3000:v", "k:\u00e9", "k:\u65e5\u672c\u8a9e", "k:\u0663", "t:\"\u00bd \u00b2 x\"", "k:\u00bd", "k:\u00b2x", "\u212a:v", "k:v\x00w",
	"k:\"a\nb\"", "k:`a\nb`", "k:`a\\nb`", "o:x", "u:x", "and:x", "or:or", "not:not", "not not k:v", "k:v and", "k:v or or k:w",
	"k:\ufffd", "\ufffd", "k:\"\ufffd\"", "k:v \ufffd", "k:v\t\n\r and\u0085k:w",
}

var lexFrags = []string{
	`"`, `"`, `'`, "`", `\`, `\"`, `\'`, `\\`, `\*`, `*`, `\x41`, `\xff`, `\u00e9`, `\u12`, `\U0001F600`, `\101`, `\9`, `\n`, `\q`,
	"#", "\n", " ", " ", "\t", "\u00a0", "k", "t", ":", "k:", "t:", "k:", "a", "b1", "x_y.z", "-", "(", ")", "[", "]", ",", "|",
	" and ", " or ", "not ", "in", "to", "fields", "except", "\ue000", "\xff", "\xc3", "\xa9", "\xe2\x82", "\xf0\x9f\x98\x80",
	"\u00e9", "\u017f", "\u212a", "\u00bd", "\u0663", "\ufffd", "$", "@", "/", "{", "}", "e:", "u:", "o.x:", "m:",
}

func lexString(r *rng.R) string {
	if r.Chance(2, 5) {
		return fuzzString(r)
	}
	var sb strings.Builder
	for n := r.Range(1, 9); n > 0; n-- {
		sb.WriteString(rng.Pick(r, lexFrags))
	}
	return sb.String()
}

func lexCase(w *casefile.Writer, s string, mname string) {
	lr, p, hung := realLex(s)
	w.Evals(1)
	in := map[string]any{"query": s, "query_hex": fmt.Sprintf("%x", s), "mapping": mname}
	switch {
	case hung || (p == nil && !lr.ended):
		w.Violate("hang:lexer", "the lexer does not reach the end of the query", in)
		return
	case p != nil:
		w.Violate("panic:lexer:"+fpOf(fmt.Sprint(p)), fmt.Sprintf("lexer panics: %v", p), in)
		return
	}
	var m seq.Mapping
	nilmap, user := "false", "[]"
	switch mname {
	case "nil":
		nilmap = "true"
	case "empty":
		m = seq.Mapping{}
	default:
		m, user = fuzzMapping, "fm_full"
	}
	var root *parser.ASTNode
	res := guarded(func() error {
		q, err := parser.ParseSeqQL(s, m)
		root = q.Root
		return err
	})
	impl, implText := "Err", "error"
	switch {
	case res.hung:
		w.Violate("hang:ParseSeqQL", "ParseSeqQL does not return", in)
		return
	case res.panicked != nil:
		w.Violate("panic:ParseSeqQL:"+fpOf(fmt.Sprint(res.panicked)), fmt.Sprintf("ParseSeqQL panics: %v", res.panicked), in)
		return
	case !res.isErr:
		sh, err := shapeCoq(root)
		if err != nil {
			w.Violate("shape:ParseSeqQL", err.Error(), in)
			return
		}
		impl, implText = "(Ok "+sh+")", root.String()
	}
	quoted, comment := false, strings.Contains(s, "#")
	for _, t := range lr.toks {
		quoted = quoted || t.Quoted
	}
	w.Count("lex:result:" + map[bool]string{true: "error", false: "ok"}[res.isErr])
	if quoted {
		w.Count("lex:has-quoted-token")
	}
	if comment {
		w.Count("lex:has-hash")
	}
	if !utf8.ValidString(s) {
		w.Count("lex:invalid-utf8")
	}
	w.Add(fmt.Sprintf("CLex %s %s %s %s fm_builtin %s %s", coqBytes(s), classTable(s, lr.toks), nilmap, user, ltokCoq(lr.toks), impl),
		"lex-"+mname, len(lr.toks) >= 3 && (quoted || comment || !res.isErr), in,
		map[string]any{"tokens": ltokJSON(lr.toks), "result": implText})
}

func lexCases(w *casefile.Writer, r *rng.R, n int) {
	for _, s := range lexSeeds {
		if lexHangs >= 3 {
			return
		}
		lexCase(w, s, "full")
	}
	for i := 0; i < n && lexHangs < 3; i++ {
		mname := "full"
		switch c := r.Intn(10); {
		case c < 2:
			mname = "nil"
		case c < 3:
			mname = "empty"
		}
		lexCase(w, lexString(r), mname)
	}
}

// ---------------------------------------------------------------- round trip

type atom struct {
	text  string
	style int // 0 bare word, 1 "..", 2 '..', 3 `..`, 4 single symbol, 5 bare *
}

var rtWords = []string{"a", "abc", "x1", "a_b", "a.b", "v0", "\u00e9t\u00e9", "\u65e5\u672c", "A", "and", "or", "not", "in", "fields", "_", "42", "\u0663"}
var rtTexts = []string{"", "a", "a b", "it's", "say \"hi\"", "a*b", "*", "back\\slash", "tab\there", "new\nline", "\u00e9", "\ue000", "x\ue000y", "a#b", "(x)", "k:v", "`", "'", "\"", "\\", "\\*", "\U0001F600", "\ufffd", "a, b | c"}
var rtRaw = []string{"", "a", "a b", "a\\nb", "a*b", "\\", "\"'", "a#b\nc", "\ue000", "\u00e9", "\\*"}
// quoted source text with escape sequences -> expected token text (by the documented rules:
// Go escapes are decoded, \* is an asterisk, an invalid escape keeps its backslash)
var rtEsc = [][2]string{
	{`"a\qb"`, `a\qb`}, {`"\777"`, `\777`}, {`'\9'`, `\9`}, {`"\x4g"`, `\x4g`}, {`"\u12"`, `\u12`}, {`"tab\there"`, "tab\there"},
	{`"\x41\u00e9\101"`, "A\u00e9A"}, {`'\''`, `'`}, {`"\'"`, `\'`}, {`'\"'`, `\"`}, {`"\U0001F600"`, "\U0001F600"}, {`"\xff"`, "\u00ff"},
	{`"\ud800"`, `\ud800`}, {`"\q\q"`, `\q\q`}, {`"\\\q"`, `\\q`}, {`"\a\b\f\n\r\t\v"`, "\a\b\f\n\r\t\v"}, {`"x\"`, ""},
}

var rtSyms = []string{"(", ")", ":", ",", "|", "[", "]", "-", "$", "@", "/", "=", "\u00bd", "\u20ac"}

func quoteWith(q byte, s string) string {
	var sb strings.Builder
	sb.WriteByte(q)
	for _, r := range s {
		switch {
		case r == rune(q):
			sb.WriteByte('\\')
			sb.WriteRune(r)
		case r == '\\':
			sb.WriteString(`\\`)
		case r == '*':
			sb.WriteString(`\*`)
		case r == 0xE000:
			sb.WriteByte('*')
		default:
			sb.WriteRune(r)
		}
	}
	sb.WriteByte(q)
	return sb.String()
}

func roundCases(w *casefile.Writer, r *rng.R, n int) {
	for i := 0; i < n && lexHangs < 3; i++ {
		var sb strings.Builder
		var exp []parser.VerifTok
		space := false
		if r.Chance(1, 6) {
			sb.WriteString(" ")
			space = true
		}
		prevWord := false
		for k := r.Range(1, 7); k > 0; k-- {
			a := atom{style: r.Intn(7)}
			var src string
			t := parser.VerifTok{}
			switch a.style {
			case 0:
				a.text = rng.Pick(r, rtWords)
				src, t.Text = a.text, a.text
			case 1, 2:
				a.text = rng.Pick(r, rtTexts)
				src = quoteWith("\"'"[a.style-1], a.text)
				t.Text, t.Quoted = a.text, true
			case 3:
				a.text = rng.Pick(r, rtRaw)
				src = "`" + a.text + "`"
				t.Text, t.Quoted, t.Raw = a.text, true, true
			case 6:
				e := rng.Pick(r, rtEsc[:len(rtEsc)-1])
				src, t.Text, t.Quoted = e[0], e[1], true
			case 4:
				a.text = rng.Pick(r, rtSyms)
				src, t.Text = a.text, a.text
			default:
				src, t.Text = "*", "\ue000"
			}
			if prevWord && a.style == 0 && !space {
				sb.WriteString(" ")
				space = true
			}
			t.Space = space
			sb.WriteString(src)
			exp = append(exp, t)
			prevWord = a.style == 0
			// separator before the next atom
			space = false
			switch r.Intn(6) {
			case 0, 1:
				sb.WriteString(" ")
				space = true
			case 2:
				sb.WriteString(rng.Pick(r, []string{"\t", "\n", "  ", "\u00a0", " \r\n"}))
				space = true
			case 3:
				sb.WriteString(rng.Pick(r, []string{"#c\n", " # \"x\n", "#\n", "# a\n# b\n"}))
				space = true
			}
		}
		if r.Chance(1, 5) {
			sb.WriteString(rng.Pick(r, []string{"#", " # end", "  ", "\n"}))
		}
		s := sb.String()
		lr, p, hung := realLex(s)
		w.Evals(1)
		in := map[string]any{"query": s, "query_hex": fmt.Sprintf("%x", s), "expected": ltokJSON(exp)}
		switch {
		case hung || (p == nil && !lr.ended):
			w.Violate("hang:lexer", "the lexer does not reach the end of the query", in)
			continue
		case p != nil:
			w.Violate("panic:lexer:"+fpOf(fmt.Sprint(p)), fmt.Sprintf("lexer panics: %v", p), in)
			continue
		}
		w.Add(fmt.Sprintf("CRound %s %s %s %s", ltokCoq(exp), coqBytes(s), classTable(s, lr.toks), ltokCoq(lr.toks)),
			"lex-roundtrip", len(exp) >= 2, in, map[string]any{"tokens": ltokJSON(lr.toks)})
	}
}

// ---------------------------------------------------------------- in(..) = OR of its members

var inFields = []string{"t", "m", "t", "p", "k", "m"}
var inElems = []string{`"connection refused"`, `timed-out`, `"Mixed Case"`, `'a.b,c d'`, `x`, `"a b"`, `c*d`, `"x*y z"`, "`raw words`", `UPPER`,
	`"a_b-c"`, "\"\u00e9 \u00e8\"", `""`, `"Timed-Out now"`, `v1`, `"v1 v2"`, `"/a/b c"`, `a/b`, `"c d"`}

// fixed lists that always run: multi-word members in every position
var inFixed = [][]string{
	{"t", `"a b"`, `"c d"`}, {"t", `x`, `"connection refused"`, `timed-out`}, {"m", `"Mixed Case"`, `"Connection Refused"`},
	{"t", `a`, `"b c"`}, {"t", `"a b"`, `c`, `"d e"`}, {"p", `"/a/b c"`, `"/d e"`}, {"k", `"a b"`, `"c d"`}, {"m", `timed-out`, `Timed-Out`},
}

// numbered AST: every distinct literal (by its printed form) gets the next number
func astNumbered(n *parser.ASTNode, ids map[string]int) (string, error) {
	if n == nil {
		return "", fmt.Errorf("nil node")
	}
	lg, ok := n.Value.(*parser.Logical)
	if !ok {
		key := n.String()
		id, seen := ids[key]
		if !seen {
			id = len(ids)
			ids[key] = id
		}
		return fmt.Sprintf("(Leaf %d)", id), nil
	}
	var cs []string
	for _, c := range n.Children {
		s, err := astNumbered(c, ids)
		if err != nil {
			return "", err
		}
		cs = append(cs, s)
	}
	op := parser.VerifLogicalOp(lg)
	switch {
	case op == parser.VerifNot && len(cs) == 1:
		return "(NotN " + cs[0] + ")", nil
	case op == parser.VerifAnd && len(cs) == 2:
		return "(AndN " + cs[0] + " " + cs[1] + ")", nil
	case op == parser.VerifOr && len(cs) == 2:
		return "(OrN " + cs[0] + " " + cs[1] + ")", nil
	case op == parser.VerifNAnd && len(cs) == 2:
		return "(NAndN " + cs[0] + " " + cs[1] + ")", nil
	}
	return "", fmt.Errorf("operator %d with %d children", op, len(cs))
}

func inOrCase(w *casefile.Writer, field string, elems []string, ctx int, suffix string) {
	qin := field + ":in(" + strings.Join(elems, ", ") + ")"
	parts := make([]string, len(elems))
	for i, e := range elems {
		parts[i] = field + ":" + e
	}
	qor := strings.Join(parts, " or ")
	switch ctx {
	case 1:
		qin, qor = "not "+qin, "not ("+qor+")"
	case 2:
		qin, qor = qin+" and k:z", "("+qor+") and k:z"
	case 3:
		qin, qor = "k:z or not "+qin, "k:z or not ("+qor+")"
	}
	qin, qor = qin+suffix, qor+suffix
	in := map[string]any{"query": qin, "query_or": qor, "field": field, "members": elems}
	ids := map[string]int{}
	var out [2]string
	var txt [2]string
	for i, q := range []string{qin, qor} {
		var root *parser.ASTNode
		res := guarded(func() error {
			sq, err := parser.ParseSeqQL(q, fuzzMapping)
			root = sq.Root
			return err
		})
		w.Evals(1)
		switch {
		case res.hung:
			w.Violate("hang:ParseSeqQL", "ParseSeqQL does not return", map[string]any{"query": q})
			return
		case res.panicked != nil:
			w.Violate("panic:ParseSeqQL:"+fpOf(fmt.Sprint(res.panicked)), fmt.Sprintf("ParseSeqQL panics: %v", res.panicked), map[string]any{"query": q})
			return
		case res.isErr:
			out[i], txt[i] = "Err", "error"
		default:
			s, err := astNumbered(root, ids)
			if err != nil {
				w.Violate("shape:ParseSeqQL", err.Error(), map[string]any{"query": q})
				return
			}
			out[i], txt[i] = "(Ok "+s+")", root.String()
		}
	}
	if len(ids) > 8 {
		w.Count("in-or:skipped-more-than-8-literals")
		return
	}
	lr1, p1, h1 := realLex(qin)
	lr2, p2, h2 := realLex(qor)
	if p1 != nil || p2 != nil || h1 || h2 {
		w.Violate("panic-or-hang:lexer", "lexer fails on an in(..) query", in)
		return
	}
	multi := false
	for _, e := range elems[1:] {
		multi = multi || strings.ContainsAny(e, " -.,/")
	}
	if multi {
		w.Count("in-or:later-member-multi-word")
	}
	w.Add(fmt.Sprintf("CInOr %s %s %s fm_full fm_builtin %s %s", coqBytes(qin), coqBytes(qor),
		classTable(qin+" "+qor, append(append([]parser.VerifTok{}, lr1.toks...), lr2.toks...)), out[0], out[1]),
		"in-or-"+field, multi && out[0] != "Err", in, map[string]any{"in": txt[0], "or": txt[1]})
}

func inOrCases(w *casefile.Writer, r *rng.R, n int) {
	for _, f := range inFixed {
		for ctx := 0; ctx < 4; ctx++ {
			inOrCase(w, f[0], f[1:], ctx, "")
		}
	}
	for i := 0; i < n; i++ {
		k := r.Range(2, 4)
		elems := make([]string, k)
		for j := range elems {
			elems[j] = rng.Pick(r, inElems)
		}
		suffix := ""
		if r.Chance(1, 5) {
			suffix = rng.Pick(r, pipeSuffixes)
		}
		inOrCase(w, rng.Pick(r, inFields), elems, r.Intn(4), suffix)
	}
}

// ---------------------------------------------------------------- range bounds are normalised like literals

var rangeFields = []string{"k", "p", "t", "m", "e", "_exists_", "n.x", "o", "k", "t"}
var rangeBounds = []string{`Bob`, `'Bob'`, `"ALICE Smith"`, "`Carol`", "ÉCOLE", "\"Ünï Code\"", "ΣΑΣ", "\"İx\"", `"a\tB"`, `"\x41b"`,
	`"Été"`, `*`, `10`, `-5`, `a-B_c.D`, `"X*"`, `"*"`, `"\*Z"`, "K", "ǅ", "\"Straße\"", `MiXeD123`, `""`, `'Q R'`, "`RAW Str`", `Z`}

func termCoq(t parser.Term) string {
	if t.Kind == parser.TermSymbol {
		return "TmSym"
	}
	return "(TmText " + coqBytes(t.Data) + ")"
}

func lowTable(ss ...string) string {
	seen := map[rune]bool{}
	for _, s := range ss {
		for i := 0; i < len(s); i++ {
			r, _ := utf8.DecodeRuneInString(s[i:])
			seen[r] = true
		}
	}
	var rs []int
	for r := range seen {
		if unicode.ToLower(r) != r {
			rs = append(rs, int(r))
		}
	}
	sort.Ints(rs)
	parts := make([]string, len(rs))
	for i, x := range rs {
		parts[i] = fmt.Sprintf("(%d, %d)", x, unicode.ToLower(rune(x)))
	}
	if len(parts) == 0 {
		return "[]"
	}
	return "[" + strings.Join(parts, "; ") + "]%N"
}

func rangeCase(w *casefile.Writer, field, a, b, open, sep, cl string, cfg bool) {
	lf := field
	if field != "k" && field != "p" && field != "_exists_" && field != "n.x" {
		lf = "k"
	}
	qr := field + ":" + open + a + sep + b + cl
	qa, qb := lf+":"+a, lf+":"+b
	in := map[string]any{"query": qr, "literal_from": qa, "literal_to": qb, "case_sensitive": cfg}
	old := conf.CaseSensitive
	conf.CaseSensitive = cfg
	defer func() { conf.CaseSensitive = old }()
	var roots [3]*parser.ASTNode
	for i, q := range []string{qr, qa, qb} {
		i, q := i, q
		res := guarded(func() error {
			sq, err := parser.ParseSeqQL(q, fuzzMapping)
			if err == nil {
				roots[i] = sq.Root
			}
			return err
		})
		w.Evals(1)
		if res.hung || res.panicked != nil {
			w.Violate("panic-or-hang:ParseSeqQL:range", fmt.Sprintf("ParseSeqQL panic=%v hung=%v", res.panicked, res.hung), map[string]any{"query": q})
			return
		}
	}
	implR, txtR := "None", "error"
	if roots[0] != nil {
		if rg, ok := roots[0].Value.(*parser.Range); ok {
			implR = "(Some (" + termCoq(rg.From) + ", " + termCoq(rg.To) + "))"
			txtR = roots[0].String()
		}
	}
	lit := func(n *parser.ASTNode) (string, string) {
		if n == nil {
			return "None", "error"
		}
		l, ok := n.Value.(*parser.Literal)
		if !ok {
			return "None", "not a literal"
		}
		parts := make([]string, len(l.Terms))
		for i, t := range l.Terms {
			parts[i] = termCoq(t)
		}
		return "(Some [" + strings.Join(parts, "; ") + "])", n.String()
	}
	implA, txtA := lit(roots[1])
	implB, txtB := lit(roots[2])
	var toks []parser.VerifTok
	for _, q := range []string{qr, qa, qb} {
		lr, p, h := realLex(q)
		if p != nil || h {
			w.Violate("panic-or-hang:lexer", "lexer fails on a range query", in)
			return
		}
		toks = append(toks, lr.toks...)
	}
	all := qr + " " + qa + " " + qb
	var sb strings.Builder
	for _, t := range toks {
		sb.WriteString(t.Text)
	}
	folds := strings.ToLower(a+b) != a+b
	if folds {
		w.Count("range:bound-needs-folding")
	}
	w.Add(fmt.Sprintf("CRange %s %s %s %s %s %s %s %s %s", coqBytes(qr), coqBytes(qa), coqBytes(qb), classTable(all, toks), lowTable(all, sb.String()),
		casefile.Bool(cfg), implR, implA, implB),
		"range-bounds", folds && implR != "None", in, map[string]any{"range": txtR, "from": txtA, "to": txtB})
}

func rangeCases(w *casefile.Writer, r *rng.R, n int) {
	for _, fx := range [][3]string{{"k", "*", "'Bob'"}, {"k", "Alice", "Bob"}, {"t", `"ALICE Smith"`, "`Carol`"}, {"_exists_", "Bob", "*"}, {"p", "ÉCOLE", "Z"}, {"m", `"X*"`, "Z"}} {
		rangeCase(w, fx[0], fx[1], fx[2], "[", ", ", "]", false)
		rangeCase(w, fx[0], fx[1], fx[2], "(", " to ", ")", true)
	}
	for i := 0; i < n; i++ {
		rangeCase(w, rng.Pick(r, rangeFields), rng.Pick(r, rangeBounds), rng.Pick(r, rangeBounds),
			rng.Pick(r, []string{"[", "(", "[ "}), rng.Pick(r, []string{", ", ",", " to ", " TO ", " , "}), rng.Pick(r, []string{"]", ")", " ]"}), r.Chance(1, 4))
	}
}
