// hC02 — correspondence driver for property C02 (search returns exactly the matching documents,
// ordered, limited and counted). It drives
//   - the real merge nodes of package node over static posting lists (CNode / fold cases),
//   - real fractions (active, sealed, restarted) built by the real append path, queried through
//     frac.DataProvider.Search with queries parsed by the real SeqQL parser (CSearch cases),
//   - the real getLIDsBorders on the fraction's IDs index (CBorders cases),
//
// and writes the observations as Coq cases (props/C02/coq/CaseDefs.v).
package main

import (
	"context"
	"encoding/json"
	"flag"
	"fmt"
	"math"
	"os"
	"path/filepath"
	"regexp"
	"runtime/debug"
	"sort"
	"strconv"
	"strings"
	"sync"
	"time"

	"github.com/ozontech/seq-db/frac"
	"github.com/ozontech/seq-db/frac/processor"
	"github.com/ozontech/seq-db/node"
	"github.com/ozontech/seq-db/parser"
	"github.com/ozontech/seq-db/seq"

	"verif/harness/internal/casefile"
	"verif/harness/internal/fracbuild"
	"verif/harness/internal/rng"

	"github.com/ozontech/seq-db/logger"
	"go.uber.org/zap/zapcore"
)

// ================================================================ node trees

type ntree struct {
	Kind string   `json:"kind"` // static and or nand not
	Data []uint32 `json:"data,omitempty"`
	L    *ntree   `json:"l,omitempty"`
	R    *ntree   `json:"r,omitempty"`
	Lo   uint32   `json:"lo"`
	Hi   uint32   `json:"hi"`
}

func nlist(xs []uint32) string {
	parts := make([]string, len(xs))
	for i, x := range xs {
		parts[i] = fmt.Sprint(x)
	}
	return "[" + strings.Join(parts, "; ") + "]"
}

func (t *ntree) coq() string {
	switch t.Kind {
	case "static":
		return "(NStatic " + nlist(t.Data) + ")"
	case "and":
		return "(NAnd " + t.L.coq() + " " + t.R.coq() + ")"
	case "or":
		return "(NOr " + t.L.coq() + " " + t.R.coq() + ")"
	case "nand":
		return "(NNAnd " + t.L.coq() + " " + t.R.coq() + ")"
	}
	return fmt.Sprintf("(NNot %s %d %d)", t.L.coq(), t.Lo, t.Hi)
}

func (t *ntree) build(rev bool) node.Node {
	switch t.Kind {
	case "static":
		return node.NewStatic(t.Data, rev)
	case "and":
		return node.NewAnd(t.L.build(rev), t.R.build(rev), rev)
	case "or":
		return node.NewOr(t.L.build(rev), t.R.build(rev), rev)
	case "nand":
		return node.NewNAnd(t.L.build(rev), t.R.build(rev), rev)
	}
	return node.NewNot(t.L.build(rev), t.Lo, t.Hi, rev)
}

func (t *ntree) ops() map[string]bool {
	m := map[string]bool{}
	var walk func(*ntree)
	walk = func(x *ntree) {
		if x == nil {
			return
		}
		m[x.Kind] = true
		walk(x.L)
		walk(x.R)
	}
	walk(t)
	return m
}

// strictly ascending subset of [lo,hi]; density num/den
func randPosting(r *rng.R, lo, hi uint32) []uint32 {
	out := []uint32{}
	den := r.Range(1, 6)
	num := r.Range(0, den)
	for v := lo; v <= hi; v++ {
		if r.Chance(num, den) {
			out = append(out, v)
		}
	}
	return out
}

// shaped pairs: equal lists, disjoint interleavings, runs, one-element, empty
func shapedPosting(r *rng.R, universe uint32) []uint32 {
	switch r.Intn(6) {
	case 0:
		return []uint32{}
	case 1:
		return []uint32{uint32(r.Intn(int(universe) + 1))}
	case 2: // even / odd
		par := uint32(r.Intn(2))
		out := []uint32{}
		for v := uint32(0); v <= universe; v++ {
			if v%2 == par {
				out = append(out, v)
			}
		}
		return out
	case 3: // a run
		a := uint32(r.Intn(int(universe) + 1))
		b := a + uint32(r.Intn(int(universe-a)+1))
		out := []uint32{}
		for v := a; v <= b; v++ {
			out = append(out, v)
		}
		return out
	}
	return randPosting(r, 0, universe)
}

func randTree(r *rng.R, depth int, universe uint32, rev bool) *ntree {
	if depth == 0 || r.Chance(1, 4) {
		return &ntree{Kind: "static", Data: shapedPosting(r, universe)}
	}
	switch r.Intn(5) {
	case 0:
		return &ntree{Kind: "and", L: randTree(r, depth-1, universe, rev), R: randTree(r, depth-1, universe, rev)}
	case 1:
		return &ntree{Kind: "or", L: randTree(r, depth-1, universe, rev), R: randTree(r, depth-1, universe, rev)}
	case 2:
		return &ntree{Kind: "nand", L: randTree(r, depth-1, universe, rev), R: randTree(r, depth-1, universe, rev)}
	}
	// NOT over [lo,hi]; hi may be lo-1 (empty border, as getLIDsBorders produces it). With reverse order
	// lo = 0 would never terminate (uint32 wrap in node_range.go); unreachable in a search (minLID >= 1),
	// excluded here as in the theorem's hypothesis.
	lo := uint32(r.Intn(int(universe) + 1))
	if rev && lo == 0 {
		lo = 1
	}
	hi := lo + uint32(r.Intn(int(universe)+2))
	if r.Chance(1, 8) {
		hi = lo - 1
		if lo == 0 {
			hi = 0
		}
	}
	return &ntree{Kind: "not", L: randTree(r, depth-1, universe, rev), Lo: lo, Hi: hi}
}

// drain calls Next() until exhaustion; cap guards against a node that never ends
func drain(n node.Node, cap int) (out []uint32, diverged bool, panicked any) {
	defer func() {
		if p := recover(); p != nil {
			panicked = p
		}
	}()
	out = []uint32{}
	for {
		v, ok := n.Next()
		if !ok {
			return out, false, nil
		}
		out = append(out, v)
		if len(out) > cap {
			return out, true, nil
		}
	}
}

func nodeCase(w *casefile.Writer, t *ntree, rev bool, class string) {
	n := t.build(rev)
	out, div, p := drain(n, 100000)
	in := map[string]any{"reverse": rev, "tree": t, "tree_coq": t.coq()}
	if p != nil {
		w.Violate("node-panic", fmt.Sprintf("merge node panics: %v", p), in)
		return
	}
	if div {
		w.Violate("node-diverges", "merge node yields more than 100000 values", in)
		return
	}
	// after exhaustion Next() must keep saying "no more"
	if _, ok := n.Next(); ok {
		w.Violate("node-restarts", "Next() returns a value after it reported exhaustion", in)
		return
	}
	ops := t.ops()
	nontrivial := len(out) > 0 && (ops["and"] || ops["or"] || ops["nand"] || ops["not"])
	for k := range ops {
		w.Count("node-op:" + k)
	}
	w.Add(fmt.Sprintf("CNode %s %s %s", casefile.Bool(rev), t.coq(), nlist(out)), class, nontrivial, in, out)
}

// BuildORTree over k static lists (leaf of a wildcard): compared with the model's tree_fold
func foldCase(w *casefile.Writer, r *rng.R) {
	rev := r.Bool()
	k := r.Range(0, 9)
	universe := uint32(r.Range(3, 30))
	lists := make([][]uint32, k)
	for i := range lists {
		lists[i] = shapedPosting(r, universe)
	}
	execFold(w, rev, lists)
}

func execFold(w *casefile.Writer, rev bool, lists [][]uint32) {
	k := len(lists)
	nodes := make([]node.Node, k)
	parts := make([]string, k)
	for i := range lists {
		nodes[i] = node.NewStatic(lists[i], rev)
		parts[i] = nlist(lists[i])
	}
	out, div, p := drain(node.BuildORTree(nodes, rev), 100000)
	in := map[string]any{"reverse": rev, "lists": lists}
	if p != nil || div {
		w.Violate("ortree-panic-or-diverges", fmt.Sprintf("BuildORTree: panic=%v diverged=%v", p, div), in)
		return
	}
	w.Add(fmt.Sprintf("CFold %s [%s] %s", casefile.Bool(rev), strings.Join(parts, "; "), nlist(out)), "or-tree-fold", k >= 2 && len(out) > 0, in, out)
}

// ================================================================ TokenLIDs / inverser (unit level)

func u64list(xs []uint64) string {
	parts := make([]string, len(xs))
	for i, x := range xs {
		parts[i] = fmt.Sprint(x)
	}
	return "[" + strings.Join(parts, "; ") + "]"
}

// scripted PutLIDsInQueue / GetLIDs on a real TokenLIDs: duplicates inside a put and across puts, equal
// (MID,RID) pairs (the LID decides), merges into an already non-empty sorted list
func tokLIDsCase(w *casefile.Writer, r *rng.R) {
	n := r.Range(1, 24)
	mids, rids := make([]uint64, n+1), make([]uint64, n+1)
	mids[0], rids[0] = math.MaxUint64, math.MaxUint64
	mspan, rspan := r.Range(1, 6), r.Range(1, 4)
	for i := 1; i <= n; i++ {
		mids[i] = 1000 + uint64(r.Intn(mspan))
		rids[i] = uint64(r.Intn(rspan))
		if r.Chance(1, 6) {
			rids[i] = math.MaxUint64 - uint64(r.Intn(2))
		}
	}
	nops := r.Range(2, 9)
	ops := make([][]uint32, 0, nops+1)
	coq := make([]string, 0, nops+1)
	gets, putAfterGet := 0, false
	for i := 0; i < nops; i++ {
		if r.Chance(1, 3) {
			ops = append(ops, nil)
			coq = append(coq, "TGet")
			gets++
			continue
		}
		k := r.Range(0, 8)
		lids := make([]uint32, k)
		for j := range lids {
			lids[j] = uint32(r.Range(1, n))
			if j > 0 && r.Chance(1, 4) {
				lids[j] = lids[r.Intn(j)] // the same LID twice in one queue batch
			}
		}
		ops = append(ops, lids)
		coq = append(coq, "TPut "+nlist(lids))
		if gets > 0 && k > 0 {
			putAfterGet = true
		}
	}
	ops = append(ops, nil)
	coq = append(coq, "TGet")
	in := map[string]any{"mids": mids, "rids": rids, "ops": ops}
	execTokLIDs(w, mids, rids, ops, coq, putAfterGet, in)
}

func execTokLIDs(w *casefile.Writer, mids, rids []uint64, ops [][]uint32, coq []string, nontrivial bool, in any) {
	var out [][]uint32
	var panicked any
	func() {
		defer func() { panicked = recover() }()
		out = frac.VerifC02TokenLIDs(mids, rids, ops)
	}()
	if panicked != nil {
		w.Violate("tokenlids-panic", fmt.Sprintf("TokenLIDs panics: %v", panicked), in)
		return
	}
	parts := make([]string, len(out))
	for i, o := range out {
		parts[i] = nlist(o)
	}
	w.Add(fmt.Sprintf("CTokLIDs %s %s [%s] [%s]", u64list(mids), u64list(rids), strings.Join(coq, "; "), strings.Join(parts, "; ")),
		"token-lids", nontrivial, in, out)
}

func inverserCase(w *casefile.Writer, r *rng.R) {
	size := r.Range(1, 30)
	perm := make([]uint32, 0, size)
	for i := 1; i < size; i++ {
		if r.Chance(4, 5) {
			perm = append(perm, uint32(i))
		}
	}
	rng.Shuffle(r, perm)
	k := r.Range(0, size+3)
	unmapped := make([]uint32, k)
	for i := range unmapped {
		unmapped[i] = uint32(r.Intn(size + 3)) // 0 (system LID), unmapped LIDs and LIDs beyond the array included
	}
	lo := uint32(r.Intn(size + 1))
	hi := lo + uint32(r.Intn(size+1))
	if r.Chance(1, 8) && lo > 0 {
		hi = lo - 1
	}
	execInverser(w, perm, size, unmapped, lo, hi)
}

func execInverser(w *casefile.Writer, values []uint32, size int, unmapped []uint32, lo, hi uint32) {
	in := map[string]any{"values": values, "size": size, "unmapped": unmapped, "lo": lo, "hi": hi}
	var out []uint32
	var ln int
	var panicked any
	func() {
		defer func() { panicked = recover() }()
		out, ln = frac.VerifC02Inverser(values, size, unmapped, lo, hi)
	}()
	if panicked != nil {
		w.Violate("inverser-panic", fmt.Sprintf("inverser panics: %v", panicked), in)
		return
	}
	w.Add(fmt.Sprintf("CInverser %s %d %s %d %d %s %d", nlist(values), size, nlist(unmapped), lo, hi, nlist(out), ln),
		"inverser", len(out) > 0 && len(out) < len(unmapped), in, out)
}

// ================================================================ corpora and queries

type token struct {
	F int    `json:"f"`
	V string `json:"v"`
}

type doc struct {
	MID  uint64  `json:"mid"`
	RID  uint64  `json:"rid"`
	Toks []token `json:"toks"`
}

func (t token) coq() string {
	bs := make([]string, len(t.V))
	for i := 0; i < len(t.V); i++ {
		bs[i] = fmt.Sprint(t.V[i])
	}
	return fmt.Sprintf("(%d, [%s])", t.F, strings.Join(bs, "; "))
}

func (d doc) coq() string {
	ts := make([]string, len(d.Toks))
	for i, t := range d.Toks {
		ts[i] = t.coq()
	}
	return fmt.Sprintf("Doc %d %d [%s]", d.MID, d.RID, strings.Join(ts, "; "))
}

func corpusCoq(c []doc) string {
	ds := make([]string, len(c))
	for i, d := range c {
		ds[i] = d.coq()
	}
	return "[" + strings.Join(ds, ";\n    ") + "]"
}

const nFields = 3

var mapping = func() seq.Mapping {
	m := seq.Mapping{}
	for i := 0; i < nFields+1; i++ { // one mapped field never indexed
		m[fmt.Sprintf("f%d", i)] = seq.NewSingleType(seq.TokenizerTypeKeyword, "", 0)
	}
	return m
}()

func randValue(r *rng.R, alphabet string, maxLen int) string {
	n := r.Range(1, maxLen)
	b := make([]byte, n)
	for i := range b {
		b[i] = alphabet[r.Intn(len(alphabet))]
	}
	return string(b)
}

type corpusShape struct {
	n        int
	midBase  uint64
	midSpan  int // number of distinct MIDs
	alphabet string
	maxLen   int
	maxToks  int
	bulks    int
	inter    int      // search between bulks: 0 none, 1 all tokens, 2 tokens of the next bulk
	repeat   bool     // documents may carry the same token 2-3 times
	rich     bool     // longer values, numbers and number-like text among the values; the full leaf language in queries
	pool     []string // values present in the corpus (filled after generation), so that patterns and ranges hit
	numSpan  int      // numbers are drawn from [-20, numSpan-20)
	richLen  int      // longest text value of a rich corpus
}

var numRe = regexp.MustCompile(`^[+-]?[0-9]{1,15}$`)

// numAgrees: the model parses numbers on the decimal-integer fragment only (Model.v parse_num); a string is usable
// as a token value / range bound when the real strconv.ParseFloat (finite result) agrees with that fragment.
func numAgrees(s string) bool {
	v, err := strconv.ParseFloat(s, 64)
	goNum := err == nil && !math.IsNaN(v) && !math.IsInf(v, 0)
	return goNum == numRe.MatchString(s)
}

func richValue(r *rng.R, sh corpusShape) string {
	var v string
	switch r.Intn(6) {
	case 0:
		v = fmt.Sprint(r.Intn(max(1, sh.numSpan)) - 20)
	case 1:
		v = rng.Pick(r, []string{"007", "0", "-0", "10", "9", "100", "-3", "12", "7"})
	case 2:
		v = randValue(r, "abc", 2) + fmt.Sprint(r.Intn(10)) // x7-like: not a number
	case 3:
		v = randValue(r, sh.alphabet+"-", max(1, sh.richLen))
	default:
		v = randValue(r, sh.alphabet, max(1, sh.richLen))
	}
	if !numAgrees(v) {
		return "a"
	}
	return v
}

func genCorpus(r *rng.R, sh corpusShape) []doc {
	seen := map[[2]uint64]bool{}
	out := make([]doc, 0, sh.n)
	for len(out) < sh.n {
		d := doc{MID: sh.midBase + uint64(r.Intn(sh.midSpan))}
		switch r.Intn(4) {
		case 0:
			d.RID = uint64(r.Intn(4)) // small: many equal RIDs across MIDs, 0 included
		case 1:
			d.RID = math.MaxUint64 - uint64(r.Intn(3))
		default:
			d.RID = r.U64()
		}
		k := [2]uint64{d.MID, d.RID}
		if seen[k] || (d.MID == 0 && d.RID == 0) {
			continue
		}
		seen[k] = true
		nt := r.Range(0, sh.maxToks)
		have := map[token]bool{}
		for i := 0; i < nt; i++ {
			t := token{F: r.Intn(nFields), V: randValue(r, sh.alphabet, sh.maxLen)}
			if sh.rich && r.Chance(2, 3) {
				t.V = richValue(r, sh)
			}
			if !have[t] {
				have[t] = true
				d.Toks = append(d.Toks, t)
			}
		}
		if sh.repeat && len(d.Toks) > 0 && r.Chance(1, 3) {
			// the same token 2-3 times in one document (a repeated word): inserted at random positions
			for k := r.Range(1, 2); k > 0; k-- {
				t := d.Toks[r.Intn(len(d.Toks))]
				p := r.Intn(len(d.Toks) + 1)
				d.Toks = append(d.Toks[:p], append([]token{t}, d.Toks[p:]...)...)
			}
		}
		if d.Toks == nil {
			d.Toks = []token{}
		}
		out = append(out, d)
	}
	return out
}

// a term of a Literal: text or the star
type term struct {
	Star bool   `json:"star,omitempty"`
	Text string `json:"text,omitempty"`
}

type expr struct {
	Kind string `json:"kind"` // lit prefix suffix glob range in not and or
	F    int    `json:"f"`
	V    string `json:"v"`
	A    *expr  `json:"a,omitempty"`
	B    *expr  `json:"b,omitempty"`
	// glob: Terms; in: Alts; range: Lo/Hi (nil = unbounded `*`), IncLo/IncHi
	Terms []term   `json:"terms,omitempty"`
	Alts  [][]term `json:"alts,omitempty"`
	Lo    *string  `json:"lo,omitempty"`
	Hi    *string  `json:"hi,omitempty"`
	IncLo bool     `json:"inc_lo,omitempty"`
	IncHi bool     `json:"inc_hi,omitempty"`
}

func bytesCoq(s string) string {
	p := make([]string, len(s))
	for i := 0; i < len(s); i++ {
		p[i] = fmt.Sprint(s[i])
	}
	return "[" + strings.Join(p, "; ") + "]"
}

func termsCoq(ts []term) string {
	p := make([]string, len(ts))
	for i, t := range ts {
		if t.Star {
			p[i] = "TStar"
		} else {
			p[i] = "TText " + bytesCoq(t.Text)
		}
	}
	return "[" + strings.Join(p, "; ") + "]"
}

func termsText(ts []term) string {
	var sb strings.Builder
	for _, t := range ts {
		if t.Star {
			sb.WriteByte('*')
		} else {
			sb.WriteString(t.Text)
		}
	}
	return sb.String()
}

func boundCoq(b *string) string {
	if b == nil {
		return "RUnb"
	}
	return "(RVal " + bytesCoq(*b) + ")"
}

func boundText(b *string) string {
	if b == nil {
		return "*"
	}
	if *b == "" {
		return `""`
	}
	return *b
}

func rangeCoq(f int, lo, hi *string, il, ih bool) string {
	return fmt.Sprintf("(QLeaf (PRange %d %s %s %s %s))", f, boundCoq(lo), boundCoq(hi), casefile.Bool(il), casefile.Bool(ih))
}

func (e *expr) coq() string {
	bs := func(s string) string {
		p := make([]string, len(s))
		for i := 0; i < len(s); i++ {
			p[i] = fmt.Sprint(s[i])
		}
		return "[" + strings.Join(p, "; ") + "]"
	}
	switch e.Kind {
	case "lit":
		return fmt.Sprintf("(QLeaf (PLit %d %s))", e.F, bs(e.V))
	case "prefix":
		return fmt.Sprintf("(QLeaf (PPrefix %d %s))", e.F, bs(e.V))
	case "suffix":
		return fmt.Sprintf("(QLeaf (PSuffix %d %s))", e.F, bs(e.V))
	case "glob":
		return fmt.Sprintf("(QLeaf (PGlob %d %s))", e.F, termsCoq(e.Terms))
	case "range":
		return rangeCoq(e.F, e.Lo, e.Hi, e.IncLo, e.IncHi)
	case "in":
		p := make([]string, len(e.Alts))
		for i, a := range e.Alts {
			p[i] = termsCoq(a)
		}
		return fmt.Sprintf("(QLeaf (PIn %d [%s]))", e.F, strings.Join(p, "; "))
	case "not":
		return "(QNot " + e.A.coq() + ")"
	case "and":
		return "(QAnd " + e.A.coq() + " " + e.B.coq() + ")"
	}
	return "(QOr " + e.A.coq() + " " + e.B.coq() + ")"
}

func (e *expr) text() string {
	switch e.Kind {
	case "lit":
		return fmt.Sprintf("f%d:%s", e.F, e.V)
	case "prefix":
		return fmt.Sprintf("f%d:%s*", e.F, e.V)
	case "suffix":
		return fmt.Sprintf("f%d:*%s", e.F, e.V)
	case "glob":
		return fmt.Sprintf("f%d:%s", e.F, termsText(e.Terms))
	case "range":
		o, c := "(", ")"
		if e.IncLo {
			o = "["
		}
		if e.IncHi {
			c = "]"
		}
		return fmt.Sprintf("f%d:%s%s, %s%s", e.F, o, boundText(e.Lo), boundText(e.Hi), c)
	case "in":
		p := make([]string, len(e.Alts))
		for i, a := range e.Alts {
			p[i] = termsText(a)
		}
		return fmt.Sprintf("f%d:in(%s)", e.F, strings.Join(p, ", "))
	case "not":
		return "(not " + e.A.text() + ")"
	case "and":
		return "(" + e.A.text() + " and " + e.B.text() + ")"
	}
	return "(" + e.A.text() + " or " + e.B.text() + ")"
}

func (e *expr) has(kind string) bool {
	if e == nil {
		return false
	}
	return e.Kind == kind || e.A.has(kind) || e.B.has(kind)
}

// a value to build a pattern or a bound from: mostly one that occurs in the corpus
func poolValue(r *rng.R, sh corpusShape) string {
	if len(sh.pool) > 0 && r.Chance(3, 4) {
		return rng.Pick(r, sh.pool)
	}
	return richValue(r, sh)
}

// globTerms cuts v into pieces separated by nstars stars; empty pieces give leading / trailing / doubled stars
func globTerms(r *rng.R, v string, nstars int) []term {
	cuts := make([]int, nstars)
	for i := range cuts {
		cuts[i] = r.Intn(len(v) + 1)
	}
	sort.Ints(cuts)
	var ts []term
	prev := 0
	for _, c := range cuts {
		piece := v[prev:c]
		if r.Chance(1, 4) && len(piece) > 1 { // a star swallows part of the value
			piece = piece[:len(piece)-1]
		}
		if piece != "" {
			ts = append(ts, term{Text: piece})
		}
		ts = append(ts, term{Star: true})
		prev = c
	}
	if last := v[prev:]; last != "" {
		if r.Chance(1, 5) && len(last) > 1 {
			last = last[1:]
		}
		ts = append(ts, term{Text: last})
	}
	return ts
}

func richLeaf(r *rng.R, sh corpusShape, f int) *expr {
	switch r.Intn(10) {
	case 0: // the star alone, or two stars
		if r.Bool() {
			return &expr{Kind: "glob", F: f, Terms: []term{{Star: true}, {Star: true}}}
		}
		return &expr{Kind: "glob", F: f, Terms: []term{{Star: true}}}
	case 1: // prefix and suffix that overlap in the value they come from: p*s must not match a value shorter than |p|+|s|
		v := poolValue(r, sh)
		i := r.Range(1, len(v))
		j := r.Intn(i + 1)
		if j == len(v) {
			j = len(v) - 1
		}
		return &expr{Kind: "glob", F: f, Terms: []term{{Text: v[:i]}, {Star: true}, {Text: v[j:]}}}
	case 2, 3, 4: // 1..3 stars cut into a value
		v := poolValue(r, sh)
		ts := globTerms(r, v, r.Range(1, 3))
		return &expr{Kind: "glob", F: f, Terms: ts}
	case 5, 6, 7: // ranges
		bound := func() *string {
			switch r.Intn(7) {
			case 0:
				return nil
			case 1:
				v := fmt.Sprint(r.Range(0, 150) - 20)
				return &v
			case 2:
				v := ""
				return &v
			}
			v := poolValue(r, sh)
			return &v
		}
		e := &expr{Kind: "range", F: f, Lo: bound(), Hi: bound(), IncLo: r.Bool(), IncHi: r.Bool()}
		if r.Chance(1, 3) { // both ends numbers, often numbers that occur as values (the end itself is hit)
			a, b := r.Range(0, 150)-20, r.Range(0, 150)-20
			var nums []int
			for _, v := range sh.pool {
				if n, err := strconv.Atoi(v); err == nil && numRe.MatchString(v) {
					nums = append(nums, n)
				}
			}
			if len(nums) > 0 && r.Chance(2, 3) {
				a = rng.Pick(r, nums)
			}
			if len(nums) > 0 && r.Chance(2, 3) {
				b = rng.Pick(r, nums)
			}
			if a > b && r.Chance(3, 4) {
				a, b = b, a
			}
			sa, sb := fmt.Sprint(a), fmt.Sprint(b)
			e.Lo, e.Hi = &sa, &sb
		}
		for _, b := range []*string{e.Lo, e.Hi} {
			if b != nil && !numAgrees(*b) {
				*b = "a"
			}
		}
		return e
	default: // in-list
		n := r.Range(1, 4)
		e := &expr{Kind: "in", F: f}
		for i := 0; i < n; i++ {
			v := poolValue(r, sh)
			if r.Chance(1, 3) {
				e.Alts = append(e.Alts, globTerms(r, v, 1))
			} else {
				e.Alts = append(e.Alts, []term{{Text: v}})
			}
		}
		return e
	}
}

func (e *expr) leafKinds(out map[string]bool) {
	if e == nil {
		return
	}
	switch e.Kind {
	case "glob":
		n := 0
		for _, t := range e.Terms {
			if t.Star {
				n++
			}
		}
		out[fmt.Sprintf("leaf:glob-%d-stars", n)] = true
		if len(e.Terms) == n {
			out["leaf:stars-only"] = true
		}
		if n == 1 && len(e.Terms) == 3 {
			out["leaf:prefix*suffix"] = true
		}
		if n >= 2 && len(e.Terms) > n {
			out["leaf:glob-with-middle-or-multi"] = true
		}
	case "range":
		num := func(b *string) bool { return b == nil || numRe.MatchString(*b) }
		switch {
		case e.Lo == nil && e.Hi == nil:
			out["leaf:range-both-unbounded"] = true
		case num(e.Lo) && num(e.Hi):
			out["leaf:range-numeric"] = true
		default:
			out["leaf:range-text"] = true
		}
		if e.Lo == nil || e.Hi == nil {
			out["leaf:range-unbounded-end"] = true
		}
		if !e.IncLo || !e.IncHi {
			out["leaf:range-open-end"] = true
		}
	case "in":
		out["leaf:in-list"] = true
	case "not":
		if e.A != nil && (e.A.Kind == "in" || e.A.Kind == "range" || e.A.Kind == "glob") {
			out["leaf:not-over-"+e.A.Kind] = true
		}
	default:
		if e.A == nil {
			out["leaf:"+e.Kind] = true
		}
	}
	e.A.leafKinds(out)
	e.B.leafKinds(out)
}

func randExpr(r *rng.R, depth int, sh corpusShape) *expr {
	if depth == 0 || r.Chance(1, 4) {
		f := r.Intn(nFields)
		if r.Chance(1, 10) {
			f = nFields // mapped, but holds no token
		}
		if sh.rich && r.Chance(2, 3) {
			return richLeaf(r, sh, f)
		}
		switch r.Intn(8) {
		case 0, 2:
			l := r.Intn(2)
			v := ""
			if l > 0 {
				v = randValue(r, sh.alphabet, 1)
			}
			return &expr{Kind: "prefix", F: f, V: v}
		case 1:
			return &expr{Kind: "suffix", F: f, V: randValue(r, sh.alphabet, 1)}
		}
		if sh.rich && r.Chance(1, 2) {
			return &expr{Kind: "lit", F: f, V: poolValue(r, sh)}
		}
		return &expr{Kind: "lit", F: f, V: randValue(r, sh.alphabet, sh.maxLen)}
	}
	switch r.Intn(7) {
	case 0, 1:
		return &expr{Kind: "not", A: randExpr(r, depth-1, sh)}
	case 2, 3, 4:
		return &expr{Kind: "and", A: randExpr(r, depth-1, sh), B: randExpr(r, depth-1, sh)}
	}
	return &expr{Kind: "or", A: randExpr(r, depth-1, sh), B: randExpr(r, depth-1, sh)}
}

// real AST -> model query
func astCoq(n *parser.ASTNode) (string, error) {
	if n == nil {
		return "", fmt.Errorf("nil node")
	}
	switch v := n.Value.(type) {
	case *parser.Logical:
		cs := make([]string, len(n.Children))
		for i, c := range n.Children {
			s, err := astCoq(c)
			if err != nil {
				return "", err
			}
			cs[i] = s
		}
		op := parser.VerifLogicalOp(v)
		if (op == parser.VerifNot && len(cs) != 1) || (op != parser.VerifNot && len(cs) != 2) {
			return "", fmt.Errorf("operator with %d children", len(cs))
		}
		switch op {
		case parser.VerifNot:
			return "(QNot " + cs[0] + ")", nil
		case parser.VerifAnd:
			return "(QAnd " + cs[0] + " " + cs[1] + ")", nil
		case parser.VerifOr:
			return "(QOr " + cs[0] + " " + cs[1] + ")", nil
		case parser.VerifNAnd:
			return "(QNAnd " + cs[0] + " " + cs[1] + ")", nil
		}
		return "", fmt.Errorf("unknown operator")
	case *parser.Literal:
		var f int
		if _, err := fmt.Sscanf(v.Field, "f%d", &f); err != nil {
			return "", fmt.Errorf("field %q", v.Field)
		}
		e := &expr{F: f}
		star := func(t parser.Term) bool { return t.Kind == parser.TermSymbol && t.Data == "*" }
		text := func(t parser.Term) bool { return t.Kind == parser.TermText }
		switch {
		case len(v.Terms) == 1 && text(v.Terms[0]):
			e.Kind, e.V = "lit", v.Terms[0].Data
		case len(v.Terms) == 1 && star(v.Terms[0]):
			e.Kind, e.V = "prefix", ""
		case len(v.Terms) == 2 && text(v.Terms[0]) && star(v.Terms[1]):
			e.Kind, e.V = "prefix", v.Terms[0].Data
		case len(v.Terms) == 2 && star(v.Terms[0]) && text(v.Terms[1]):
			e.Kind, e.V = "suffix", v.Terms[1].Data
		default:
			e.Kind = "glob"
			for _, t := range v.Terms {
				switch {
				case star(t):
					e.Terms = append(e.Terms, term{Star: true})
				case text(t):
					e.Terms = append(e.Terms, term{Text: t.Data})
				default:
					return "", fmt.Errorf("literal %v", v.Terms)
				}
			}
		}
		return e.coq(), nil
	case *parser.Range:
		var f int
		if _, err := fmt.Sscanf(v.Field, "f%d", &f); err != nil {
			return "", fmt.Errorf("field %q", v.Field)
		}
		bound := func(t parser.Term) (*string, error) {
			switch {
			case t.Kind == parser.TermSymbol && t.Data == "*":
				return nil, nil
			case t.Kind == parser.TermText:
				d := t.Data
				return &d, nil
			}
			return nil, fmt.Errorf("range term %v", t)
		}
		lo, err := bound(v.From)
		if err != nil {
			return "", err
		}
		hi, err := bound(v.To)
		if err != nil {
			return "", err
		}
		return rangeCoq(f, lo, hi, v.IncludeFrom, v.IncludeTo), nil
	}
	return "", fmt.Errorf("token %T", n.Value)
}

type request struct {
	Text    string `json:"query"`
	From    uint64 `json:"from"`
	To      uint64 `json:"to"`
	Reverse bool   `json:"asc_order"`
	Limit   int    `json:"limit"`
	WT      bool   `json:"with_total"`
	Hist    uint64 `json:"hist_interval"`
	E       *expr  `json:"expr"`
}

func randRequest(r *rng.R, sh corpusShape, depthMax int) request {
	e := randExpr(r, r.Range(0, depthMax), sh)
	q := request{Text: e.text(), E: e, Reverse: r.Bool(), WT: r.Chance(1, 2)}
	lo, hi := sh.midBase, sh.midBase+uint64(sh.midSpan)-1
	pick := func() uint64 {
		switch r.Intn(6) {
		case 0:
			return 0
		case 1:
			return math.MaxUint64
		case 2:
			if lo > 0 {
				return lo - 1
			}
			return 0
		case 3:
			return hi + 1
		}
		return lo + uint64(r.Intn(sh.midSpan))
	}
	switch r.Intn(6) {
	case 0, 1:
		q.From, q.To = 0, math.MaxUint64
	case 2:
		q.From, q.To = pick(), pick()
	default:
		a, b := pick(), pick()
		if a > b {
			a, b = b, a
		}
		q.From, q.To = a, b
	}
	if r.Chance(1, 4) {
		q.Hist = rng.Pick(r, []uint64{1, 2, 3, 7, 1000, 1 << 40})
	}
	switch r.Intn(6) {
	case 0:
		q.Limit = 0
	case 1:
		q.Limit = 1
	case 2:
		q.Limit = sh.n + r.Intn(3)
	default:
		q.Limit = r.Range(1, max(2, sh.n))
	}
	return q
}

type answer struct {
	IDs   [][2]uint64 `json:"ids"`
	Total uint64      `json:"total"`
	Hist  [][2]uint64 `json:"histogram"`
}

type searchResult struct {
	coq        string
	class      string
	nontrivial bool
	input      any
	impl       any
	viol       []casefile.Violation
	counts     []string
	borders    []borderCase
	extra      []borderCase // answers of the searches between bulks (CSearch on the prefix corpus)
}

type borderCase struct {
	coq   string
	input any
	impl  any
	nontr bool
}

func idsCoq(ids [][2]uint64) string {
	p := make([]string, len(ids))
	for i, x := range ids {
		p[i] = fmt.Sprintf("(%d, %d)", x[0], x[1])
	}
	return "[" + strings.Join(p, "; ") + "]"
}

// runs one corpus: builds the fraction(s) and answers the requests
func runCorpus(r *rng.R, tmp string, idx int, sh corpusShape, nreq, depthMax int, mode string, lidCap, ipb int) (res searchResult) {
	corpus := genCorpus(r, sh)
	// arrival order: shuffled, or ascending / descending by time
	switch r.Intn(4) {
	case 0:
		sort.Slice(corpus, func(i, j int) bool { return corpus[i].MID < corpus[j].MID })
	case 1:
		sort.Slice(corpus, func(i, j int) bool { return corpus[i].MID > corpus[j].MID })
	}
	seenV := map[string]bool{}
	for _, d := range corpus {
		for _, t := range d.Toks {
			if !seenV[t.V] && len(sh.pool) < 64 {
				seenV[t.V] = true
				sh.pool = append(sh.pool, t.V)
			}
		}
	}
	reqs := make([]request, nreq)
	for i := range reqs {
		reqs[i] = randRequest(r, sh, depthMax)
	}
	// two requests aimed at the borders: a token of some document, [from,to] ending exactly at that document's MID
	// (so that minLID / maxLID fall INSIDE the token's posting list: the clipping of inverseLIDs and of the sealed
	// iterators' narrowLIDsRange is hit on both sides), both orders
	for k := 0; k < 2 && len(corpus) > 0; k++ {
		d := corpus[r.Intn(len(corpus))]
		if len(d.Toks) == 0 {
			continue
		}
		t := d.Toks[r.Intn(len(d.Toks))]
		o := corpus[r.Intn(len(corpus))]
		e := &expr{Kind: "lit", F: t.F, V: t.V}
		if sh.rich && r.Bool() {
			e = &expr{Kind: "glob", F: t.F, Terms: []term{{Text: t.V[:1]}, {Star: true}}}
		}
		q := request{Text: e.text(), E: e, Reverse: k == 1, WT: true, Limit: r.Range(1, len(corpus)+1)}
		q.From, q.To = min(o.MID, d.MID), max(o.MID, d.MID)
		if r.Bool() {
			q.Hist = 1
		}
		reqs = append(reqs, q)
	}
	nb := min(max(1, sh.bulks), max(1, len(corpus)))
	cuts := make([]int, nb)
	for b := range cuts {
		cuts[b] = len(corpus) * (b + 1) / nb
	}
	return execCorpus(tmp, idx, corpus, reqs, cuts, sh.inter, mode, lidCap, ipb)
}

// interRequest is the search issued between two bulks: it makes the active fraction merge the queued LIDs
// of the tokens it touches into their sorted lists, so that the next bulk's queue meets a NON-EMPTY list.
// inter 1: every token of the fraction (one wildcard per field); inter 2: the tokens of the next bulk.
func interRequest(inter, b int, next []doc) *request {
	var e *expr
	switch inter {
	case 1:
		e = &expr{Kind: "or", A: &expr{Kind: "prefix", F: 0}, B: &expr{Kind: "or", A: &expr{Kind: "prefix", F: 1}, B: &expr{Kind: "prefix", F: 2}}}
	case 2:
		seen := map[token]bool{}
		for _, d := range next {
			for _, t := range d.Toks {
				if !seen[t] && len(seen) < 8 {
					seen[t] = true
					l := &expr{Kind: "lit", F: t.F, V: t.V}
					if e == nil {
						e = l
					} else {
						e = &expr{Kind: "or", A: e, B: l}
					}
				}
			}
		}
	}
	if e == nil {
		return nil
	}
	q := &request{Text: e.text(), E: e, From: 0, To: math.MaxUint64, Reverse: b%2 == 1, Limit: 3, WT: true}
	if inter == 2 {
		q.Hist = 1000
	}
	return q
}

type asked struct {
	sq  string
	ans answer
}

// ask sends one request to the fraction's DataProvider.Search and renders the observation
func ask(f frac.Fraction, q request) (*asked, error, error) { return askCap(f, q, 0, nil) }

// askCap: lidCap > 0 answers through the sealed LID path built with that block capacity (frac.VerifC02SmallCapSearch)
func askCap(f frac.Fraction, q request, lidCap int, blocks *[2]int) (*asked, error, error) {
	p, err := (fracbuild.Query{Text: q.Text, Mapping: mapping, From: q.From, To: q.To, Limit: q.Limit, Reverse: q.Reverse, WithTotal: q.WT, Hist: q.Hist}).Params()
	if err != nil {
		return nil, nil, fmt.Errorf("parse: %w", err)
	}
	ast, err := astCoq(p.AST)
	if err != nil {
		return nil, nil, fmt.Errorf("ast: %w", err)
	}
	var qpr *seq.QPR
	if lidCap > 0 {
		qpr, err = smallCapGuarded(f, p, lidCap, blocks)
	} else {
		qpr, err = searchGuarded(f, p)
	}
	if err != nil {
		return nil, err, nil
	}
	a := answer{IDs: make([][2]uint64, len(qpr.IDs)), Total: qpr.Total, Hist: [][2]uint64{}}
	for i, x := range qpr.IDs {
		a.IDs[i] = [2]uint64{uint64(x.ID.MID), uint64(x.ID.RID)}
	}
	for k, v := range qpr.Histogram {
		a.Hist = append(a.Hist, [2]uint64{uint64(k), v})
	}
	sort.Slice(a.Hist, func(i, j int) bool { return a.Hist[i][0] < a.Hist[j][0] })
	sq := fmt.Sprintf("SQ %s\n       %s\n       %d %d %s %d %s %d %s %d %s", q.E.coq(), ast, q.From, q.To,
		casefile.Bool(q.Reverse), q.Limit, casefile.Bool(q.WT), q.Hist, idsCoq(a.IDs), a.Total, idsCoq(a.Hist))
	return &asked{sq: sq, ans: a}, nil, nil
}

func execCorpus(tmp string, idx int, corpus []doc, reqs []request, cuts []int, inter int, mode string, lidCap, ipb int) (res searchResult) {
	if len(cuts) == 0 || cuts[len(cuts)-1] != len(corpus) {
		cuts = append(append([]int{}, cuts...), len(corpus))
	}
	res.class = "search-" + mode
	input := map[string]any{"mode": mode, "cuts": cuts, "inter": inter, "docs": corpus, "requests": reqs, "lid_cap": lidCap, "ipb": ipb}
	if mode != "smallcap" {
		lidCap = 0
	}
	res.input = input
	fail := func(fp, what string) searchResult {
		res.viol = append(res.viol, casefile.Violation{Fingerprint: fp, What: what, Input: input})
		return res
	}
	defer func() {
		if p := recover(); p != nil {
			res.viol = append(res.viol, casefile.Violation{Fingerprint: "search-panic", What: fmt.Sprintf("panic: %v\n%s", p, debug.Stack()), Input: input})
		}
	}()

	dir := filepath.Join(tmp, fmt.Sprintf("c%05d", idx))
	defer os.RemoveAll(dir)
	fm, err := fracbuild.NewFM(dir, nil)
	if err != nil {
		return fail("harness-error", "NewFM: "+err.Error())
	}
	// an active fraction of moderate size is reported as a script (bulks and searches in their real order), so
	// that the transcribed index maintenance (TokenLIDs queues / merges, inverser) is replayed step by step
	asScript := mode == "active" && len(corpus) <= 100
	var script []string
	// several bulks: LIDs of one token arrive in several unsorted queue batches
	lo := 0
	for b, hi := range cuts {
		if hi < lo || hi > len(corpus) {
			return fail("harness-error", "bad cuts")
		}
		var docs []fracbuild.Doc
		for _, d := range corpus[lo:hi] {
			fd := fracbuild.Doc{MID: d.MID, RID: d.RID, Body: []byte(`{"x":"y"}`)}
			for _, t := range d.Toks { // a token listed twice is sent twice, as the tokenizers do for a repeated word
				fd.Tokens = append(fd.Tokens, fmt.Sprintf("f%d:%s", t.F, t.V))
			}
			docs = append(docs, fd)
		}
		if err := fracbuild.Append(fm, docs); err != nil {
			return fail("harness-error", "Append: "+err.Error())
		}
		script = append(script, "SBulk "+corpusCoq(corpus[lo:hi]))
		lo = hi
		// a search between bulks (answer checked like any other, on the documents ingested so far)
		if b+1 < len(cuts) && hi > 0 && len(fracbuild.Fracs(fm)) == 1 {
			if q := interRequest(inter, b, corpus[hi:cuts[b+1]]); q != nil {
				a, serr, herr := ask(fracbuild.Fracs(fm)[0], *q)
				switch {
				case herr != nil:
					return fail("harness-error", herr.Error())
				case serr != nil:
					res.viol = append(res.viol, casefile.Violation{Fingerprint: "search-error:" + errClass(serr), What: "Search fails: " + serr.Error(),
						Input: map[string]any{"mode": "active", "cuts": cuts[:b+1], "inter": inter, "docs": corpus[:hi], "request": q}})
				case asScript:
					script = append(script, "SAsk ("+a.sq+")")
					if len(a.ans.IDs) > 0 {
						res.counts = append(res.counts, "script:ask-between-bulks-nonempty")
					}
				case len(corpus) <= 100:
					res.extra = append(res.extra, borderCase{
						coq:   fmt.Sprintf("CSearch\n   %s\n   [%s]", corpusCoq(corpus[:hi]), a.sq),
						input: map[string]any{"mode": "active", "cuts": cuts[:b+1], "inter": inter, "docs": corpus[:hi], "requests": []request{*q}},
						impl:  []any{a.ans}, nontr: len(a.ans.IDs) > 0,
					})
				}
			}
		}
	}
	switch mode {
	case "sealed":
		fracbuild.Seal(fm)
	case "restarted":
		fracbuild.Seal(fm)
		fracbuild.Close(fm)
		if fm, err = fracbuild.NewFM(dir, nil); err != nil {
			return fail("harness-error", "reopen: "+err.Error())
		}
	}
	defer fracbuild.Close(fm)
	fracs := fracbuild.Fracs(fm)
	if len(corpus) == 0 {
		if len(fracs) != 0 {
			return fail("harness-error", "fractions for an empty corpus")
		}
		return res
	}
	if len(fracs) != 1 {
		return fail("harness-error", fmt.Sprintf("expected one fraction, got %d", len(fracs)))
	}
	f := fracs[0]

	var sqs []string
	var answers []any
	for qi, q := range reqs {
		var blk [2]int
		as, serr, herr := askCap(f, q, lidCap, &blk)
		if herr != nil {
			return fail("harness-error", herr.Error())
		}
		if serr != nil {
			res.viol = append(res.viol, casefile.Violation{Fingerprint: "search-error:" + errClass(serr), What: "Search fails: " + serr.Error(),
				Input: map[string]any{"mode": mode, "cuts": cuts, "inter": inter, "docs": corpus, "request": q, "lid_cap": lidCap, "ipb": ipb}})
			continue
		}
		if lidCap > 0 && qi == 0 {
			if blk[0] > 1 {
				res.counts = append(res.counts, "smallcap:several-lid-blocks")
			}
			if blk[1] > 0 {
				res.counts = append(res.counts, "smallcap:continued-blocks")
			}
		}
		kinds := map[string]bool{}
		q.E.leafKinds(kinds)
		for k := range kinds {
			res.counts = append(res.counts, k)
		}
		res.counts = append(res.counts, timeRangeClass(corpus, q))
		a := as.ans
		answers = append(answers, a)
		sqs = append(sqs, as.sq)
		script = append(script, "SAsk ("+as.sq+")")
		if len(a.IDs) > 0 {
			res.counts = append(res.counts, "answer:nonempty")
			if q.E.has("not") {
				res.counts = append(res.counts, "answer:nonempty-with-not")
			}
			if len(a.IDs) == q.Limit {
				res.counts = append(res.counts, "answer:cut-at-limit")
			}
		} else {
			res.counts = append(res.counts, "answer:empty")
		}
		if q.Hist > 0 {
			res.counts = append(res.counts, "request:histogram")
		}
		if q.WT {
			res.counts = append(res.counts, "request:with-total")
		}
		if q.Reverse {
			res.counts = append(res.counts, "order:asc")
		} else {
			res.counts = append(res.counts, "order:desc")
		}
		if len(a.IDs) > 0 && (q.E.has("and") || q.E.has("or") || q.E.has("not")) {
			res.nontrivial = true
		}
		// borders of the same range on the same index (a few per corpus)
		if qi < 4 {
			dp, release := f.DataProvider(context.Background())
			lo, hi, n, kind := frac.VerifC02Borders(dp, seq.MID(q.From), seq.MID(q.To))
			release()
			if kind != "" {
				res.borders = append(res.borders, borderCase{
					coq:   fmt.Sprintf("CBorders corpus_%d %d %d %d %d", idx, q.From, q.To, lo, hi),
					input: map[string]any{"mode": mode, "cuts": cuts, "inter": inter, "docs": corpus, "from": q.From, "to": q.To},
					impl:  map[string]any{"minLID": lo, "maxLID": hi, "len": n},
					nontr: hi >= lo && int(hi-lo)+1 < len(corpus),
				})
			}
		}
	}
	res.impl = answers
	switch mode {
	case "active":
		// answered through the provider: the model clamps [from,to] to Info.From/To
		res.coq = fmt.Sprintf("CActive\n   %s\n   [%s]", corpusCoq(corpus), strings.Join(sqs, ";\n    "))
	case "sealed", "restarted":
		res.coq = fmt.Sprintf("CSealed %d %d\n   %s\n   [%s]", idsPerBlock, lidBlockCap, corpusCoq(corpus), strings.Join(sqs, ";\n    "))
	case "smallcap":
		res.coq = fmt.Sprintf("CSealed %d %d\n   %s\n   [%s]", ipb, lidCap, corpusCoq(corpus), strings.Join(sqs, ";\n    "))
	default:
		res.coq = fmt.Sprintf("CSearch\n   %s\n   [%s]", corpusCoq(corpus), strings.Join(sqs, ";\n    "))
	}
	if len(sqs) == 0 {
		res.coq = ""
	}
	if asScript {
		res.class = "script-active"
		res.coq = "CScript [\n   " + strings.Join(script, ";\n   ") + "]"
	}
	// CBorders cases carry the corpus themselves
	for i := range res.borders {
		res.borders[i].coq = strings.Replace(res.borders[i].coq, fmt.Sprintf("corpus_%d", idx), "\n   "+corpusCoq(corpus)+"\n  ", 1)
	}
	return res
}

const (
	idsPerBlock = 4096  // consts.IDsPerBlock
	lidBlockCap = 65536 // consts.LIDBlockCap
)

// where the requested [from,to] lies relative to Info.From/To of the fraction
func timeRangeClass(corpus []doc, q request) string {
	lo, hi := uint64(math.MaxUint64), uint64(0)
	for _, d := range corpus {
		lo, hi = min(lo, d.MID), max(hi, d.MID)
	}
	switch {
	case q.From > q.To:
		return "timerange:inverted"
	case q.To < lo || q.From > hi:
		return "timerange:wholly-outside-info"
	case q.From <= lo && q.To >= hi:
		return "timerange:covers-info"
	case q.From < lo || q.To > hi:
		return "timerange:partly-outside-info"
	}
	return "timerange:inside-info"
}

func errClass(err error) string {
	s := err.Error()
	var sb strings.Builder
	for _, c := range s {
		if (c >= 'a' && c <= 'z') || (c >= 'A' && c <= 'Z') {
			sb.WriteRune(c)
		} else if sb.Len() > 0 && sb.String()[sb.Len()-1] != '-' {
			sb.WriteByte('-')
		}
		if sb.Len() > 40 {
			break
		}
	}
	return sb.String()
}

func smallCapGuarded(f frac.Fraction, p processor.SearchParams, lidCap int, blocks *[2]int) (*seq.QPR, error) {
	type out struct {
		q   *seq.QPR
		err error
	}
	ch := make(chan out, 1)
	go func() {
		defer func() {
			if r := recover(); r != nil {
				ch <- out{nil, fmt.Errorf("panic: %v", r)}
			}
		}()
		dp, release := f.DataProvider(context.Background())
		defer release()
		q, nb, nc, err := frac.VerifC02SmallCapSearch(dp, p, lidCap)
		if blocks != nil {
			blocks[0], blocks[1] = nb, nc
		}
		ch <- out{q, err}
	}()
	select {
	case o := <-ch:
		return o.q, o.err
	case <-time.After(60 * time.Second):
		return nil, fmt.Errorf("hang: search does not return within 60s")
	}
}

// Search with a watchdog: a merge node that never ends would hang the run
func searchGuarded(f frac.Fraction, p processor.SearchParams) (*seq.QPR, error) {
	type out struct {
		q   *seq.QPR
		err error
	}
	ch := make(chan out, 1)
	go func() {
		defer func() {
			if r := recover(); r != nil {
				ch <- out{nil, fmt.Errorf("panic: %v", r)}
			}
		}()
		dp, release := f.DataProvider(context.Background())
		defer release()
		q, err := dp.Search(p)
		ch <- out{q, err}
	}()
	select {
	case o := <-ch:
		return o.q, o.err
	case <-time.After(60 * time.Second):
		return nil, fmt.Errorf("hang: search does not return within 60s")
	}
}

// ================================================================ main

func main() {
	seed := flag.Uint64("seed", 1, "")
	tier := flag.String("tier", "quick", "")
	out := flag.String("out", "", "")
	replay := flag.String("replay", "", "")
	flag.Parse()
	if *out == "" {
		fmt.Fprintln(os.Stderr, "need -out")
		os.Exit(2)
	}
	w, err := casefile.New(*out, "C02", "From C02 Require Import Model CaseDefs.\nOpen Scope N_scope.", 60)
	if err != nil {
		panic(err)
	}
	logger.SetLevel(zapcore.FatalLevel)
	if *replay != "" {
		doReplay(w, *replay)
		if err := w.Close(); err != nil {
			panic(err)
		}
		return
	}
	r := rng.New(*seed)
	nNode, nFold, nCorpus, nBig := 1200, 200, 120, 3
	nUnit := 600
	if *tier == "thorough" {
		nNode, nFold, nCorpus, nBig = 10000, 1000, 1000, 14
		nUnit = 6000
	}

	// (a) merge nodes over static lists, both directions
	for i := 0; i < nNode; i++ {
		rev := r.Bool()
		universe := uint32(r.Range(2, 24))
		t := randTree(r, r.Range(1, 4), universe, rev)
		nodeCase(w, t, rev, "nodes")
	}
	// (b) BuildORTree
	for i := 0; i < nFold; i++ {
		foldCase(w, r)
	}

	// (b2) real TokenLIDs and inverser, unit level
	for i := 0; i < nUnit; i++ {
		tokLIDsCase(w, r)
	}
	for i := 0; i < nUnit/2; i++ {
		inverserCase(w, r)
	}
	// (b3) GetLIDs is two steps: puts of other workers INSIDE the window between "queue taken" and "merged"
	for i := 0; i < nUnit/4; i++ {
		tokLIDsWinCase(w, r)
	}

	// (c) real fractions
	tmp, err := os.MkdirTemp("", "verif-c02-")
	if err != nil {
		panic(err)
	}
	defer os.RemoveAll(tmp)
	nWin := 40
	if *tier == "thorough" {
		nWin = 400
	}
	for i := 0; i < nWin; i++ {
		execWinScenario(w, tmp, i, genWinScenario(r))
	}
	type job struct {
		r      *rng.R
		sh     corpusShape
		nreq   int
		depth  int
		mode   string
		lidCap int
		ipb    int
	}
	jobs := make([]job, 0, nCorpus+nBig)
	modes := []string{"active", "active", "sealed", "restarted"}
	for i := 0; i < nCorpus+nBig; i++ {
		sh := corpusShape{alphabet: "ab", maxLen: 2, maxToks: 7}
		big := i >= nCorpus
		switch {
		case big:
			sh.n = r.Range(300, 900)
			if *tier == "thorough" {
				sh.n = r.Range(1000, 3000)
			}
			sh.midSpan = r.Range(2, sh.n)
			sh.alphabet = "abc"
		case r.Chance(1, 5):
			sh.n = r.Range(1, 4)
			sh.midSpan = r.Range(1, 3)
		default:
			sh.n = r.Range(2, 40)
			sh.midSpan = r.Range(1, 12)
			if r.Chance(1, 3) {
				sh.alphabet = "abc"
			}
		}
		sh.bulks = r.Range(1, 4)
		sh.inter = r.Intn(3)
		sh.repeat = r.Chance(1, 2)
		switch r.Intn(5) {
		case 0:
			sh.midBase = 1 // smallest MID the ingest path accepts (DocProvider replaces MID 0 by the wall clock)
		case 1:
			sh.midBase = 2
		default:
			sh.midBase = 1_700_000_000_000 + uint64(r.Intn(1000))
		}
		nreq := 12
		if big {
			nreq = 8
		}
		mode := rng.Pick(r, modes)
		sh.rich = r.Chance(2, 3)
		sh.numSpan, sh.richLen = 150, 4
		if big {
			sh.numSpan, sh.richLen = 50, 3 // a dictionary of a few hundred tokens: the model's cost is |dictionary| x |corpus|
		}
		lidCap, ipb := 0, 1
		if !big && i%4 == 3 {
			// the sealed LID path over blocks of a SMALL capacity (real generator, Pack/unpack, Table, iterators)
			mode = "smallcap"
			lidCap = rng.Pick(r, []int{1, 1, 2, 3, 4, 5, 8, 16})
			ipb = rng.Pick(r, []int{1, 2, 3, 4, 7, 16})
			if sh.n < 6 {
				sh.n = r.Range(6, 40)
				sh.midSpan = r.Range(1, 12)
			}
		}
		if *tier == "thorough" && i >= nCorpus+nBig-2 {
			// more than consts.IDsPerBlock (4096) IDs in a sealed fraction: several ID blocks, so that the
			// MinBlockIDs shortcuts of sealedIDsIndex.LessOrEqual take part
			sh.n = r.Range(4200, 4600)
			sh.midSpan = r.Range(50, sh.n)
			mode = rng.Pick(r, []string{"sealed", "restarted"})
		}
		jobs = append(jobs, job{r: r.Fork(), sh: sh, nreq: nreq, depth: 4, mode: mode, lidCap: lidCap, ipb: ipb})
	}
	results := make([]searchResult, len(jobs))
	var wg sync.WaitGroup
	sem := make(chan struct{}, 4)
	for i := range jobs {
		wg.Add(1)
		sem <- struct{}{}
		go func(i int) {
			defer wg.Done()
			defer func() { <-sem }()
			j := jobs[i]
			results[i] = runCorpus(j.r, tmp, i, j.sh, j.nreq, j.depth, j.mode, j.lidCap, j.ipb)
		}(i)
	}
	wg.Wait()
	for i, res := range results {
		for _, v := range res.viol {
			w.Violate(v.Fingerprint, v.What, v.Input)
		}
		for _, c := range res.counts {
			w.Count(c)
		}
		if res.coq != "" {
			w.Count(fmt.Sprintf("corpus-size:%s", sizeBucket(jobs[i].sh.n)))
			w.Add(res.coq, res.class, res.nontrivial, res.input, res.impl)
			w.Evals(jobs[i].nreq - 1)
		}
		// a border case per small corpus, fewer for big ones (each carries the corpus)
		nb := len(res.borders)
		if jobs[i].sh.n > 100 {
			nb = min(nb, 1)
		}
		for _, b := range res.borders[:nb] {
			w.Add(b.coq, "borders-"+jobs[i].mode, b.nontr, b.input, b.impl)
		}
		for _, b := range res.extra {
			w.Add(b.coq, "search-active-midingest", b.nontr, b.input, b.impl)
		}
	}
	runGen(w, r.Fork(), *tier == "thorough") // gen-* classes: validation of the translated definitions (gen.go)
	if err := w.Close(); err != nil {
		panic(err)
	}
}

// replay: re-run the input stored in a replay file written by the check
func doReplay(w *casefile.Writer, path string) {
	b, err := os.ReadFile(path)
	if err != nil {
		panic(err)
	}
	var rp struct {
		Replay struct {
			Case struct {
				Class string          `json:"class"`
				Input json.RawMessage `json:"input"`
			} `json:"case"`
			Input json.RawMessage `json:"input"`
		} `json:"replay"`
		Fingerprint string `json:"fingerprint"`
	}
	if err := json.Unmarshal(b, &rp); err != nil {
		panic(err)
	}
	raw := rp.Replay.Case.Input
	if raw == nil {
		raw = rp.Replay.Input
	}
	var in struct {
		Reverse  bool                 `json:"reverse"`
		Tree     *ntree               `json:"tree"`
		Lists    [][]uint32           `json:"lists"`
		Mids     []uint64             `json:"mids"`
		Rids     []uint64             `json:"rids"`
		Ops      [][]uint32           `json:"ops"`
		Values   []uint32             `json:"values"`
		Size     int                  `json:"size"`
		Unmapped []uint32             `json:"unmapped"`
		Lo       uint32               `json:"lo"`
		Hi       uint32               `json:"hi"`
		Mode     string               `json:"mode"`
		Cuts     []int                `json:"cuts"`
		Inter    int                  `json:"inter"`
		Docs     []doc                `json:"docs"`
		Requests []request            `json:"requests"`
		Request  *request             `json:"request"`
		From     *uint64              `json:"from"`
		To       *uint64              `json:"to"`
		LidCap   int                  `json:"lid_cap"`
		Ipb      int                  `json:"ipb"`
		WinOps   []frac.VerifC02WinOp `json:"win_ops"`
		Window   *winScenario         `json:"window"`
	}
	if err := json.Unmarshal(raw, &in); err != nil {
		panic(err)
	}
	switch {
	case in.Tree != nil:
		nodeCase(w, in.Tree, in.Reverse, "nodes")
	case in.Lists != nil:
		execFold(w, in.Reverse, in.Lists)
	case in.Window != nil:
		tmp, err := os.MkdirTemp("", "verif-c02-")
		if err != nil {
			panic(err)
		}
		defer os.RemoveAll(tmp)
		execWinScenario(w, tmp, 0, *in.Window)
	case in.Mids != nil && in.WinOps != nil:
		execTokLIDsWin(w, in.Mids, in.Rids, in.WinOps)
	case in.Mids != nil:
		coq := make([]string, len(in.Ops))
		for i, o := range in.Ops {
			if o == nil {
				coq[i] = "TGet"
			} else {
				coq[i] = "TPut " + nlist(o)
			}
		}
		execTokLIDs(w, in.Mids, in.Rids, in.Ops, coq, true, map[string]any{"mids": in.Mids, "rids": in.Rids, "ops": in.Ops})
	case in.Size > 0:
		if in.Values == nil {
			in.Values = []uint32{}
		}
		execInverser(w, in.Values, in.Size, in.Unmapped, in.Lo, in.Hi)
	case in.Docs != nil:
		tmp, err := os.MkdirTemp("", "verif-c02-")
		if err != nil {
			panic(err)
		}
		defer os.RemoveAll(tmp)
		reqs := in.Requests
		if in.Request != nil {
			reqs = append(reqs, *in.Request)
		}
		if in.From != nil && in.To != nil && len(reqs) == 0 { // a borders case
			reqs = []request{{Text: "f0:*", From: *in.From, To: *in.To, Limit: 1, E: &expr{Kind: "prefix"}}}
		}
		if in.Mode == "" {
			in.Mode = "active"
		}
		if in.Mode == "smallcap" && in.LidCap <= 0 {
			in.LidCap = 1
		}
		if in.Ipb <= 0 {
			in.Ipb = 1
		}
		res := execCorpus(tmp, 0, in.Docs, reqs, in.Cuts, in.Inter, in.Mode, in.LidCap, in.Ipb)
		for _, v := range res.viol {
			w.Violate(v.Fingerprint, v.What, v.Input)
		}
		if res.coq != "" {
			w.Add(res.coq, res.class, res.nontrivial, res.input, res.impl)
		}
		for _, bc := range res.borders {
			w.Add(bc.coq, "borders-"+in.Mode, bc.nontr, bc.input, bc.impl)
		}
		for _, bc := range res.extra {
			w.Add(bc.coq, "search-active-midingest", bc.nontr, bc.input, bc.impl)
		}
	default:
		fmt.Fprintln(os.Stderr, "replay: unrecognised input")
		os.Exit(2)
	}
}

func sizeBucket(n int) string {
	switch {
	case n <= 4:
		return "1-4"
	case n <= 40:
		return "5-40"
	case n <= 1500:
		return "300-1500"
	case n <= 4096:
		return "1501-4096"
	}
	return ">4096 (several sealed ID blocks)"
}
