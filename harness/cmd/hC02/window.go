// hC02 — classes that force the window "a reader has taken a token's queue but has not merged it yet" on the real
// TokenLIDs / on a real active fraction (frac/export_verif_c02_window.go), model: props/C02/coq/ModelTxStep.v.
package main

import (
	"context"
	"fmt"
	"math"
	"os"
	"path/filepath"
	"strings"

	"github.com/ozontech/seq-db/frac"
	"github.com/ozontech/seq-db/seq"

	"verif/harness/internal/casefile"
	"verif/harness/internal/rng"
)

// ---------------------------------------------------------------- unit level

func winOpsCoq(ops []frac.VerifC02WinOp) string {
	parts := make([]string, len(ops))
	for i, o := range ops {
		switch o.Kind {
		case "put":
			parts[i] = "TPut " + nlist(o.LIDs)
		case "get":
			parts[i] = "TGet"
		default:
			ps := make([]string, len(o.Puts))
			for k, p := range o.Puts {
				ps[k] = nlist(p)
			}
			parts[i] = "TWin [" + strings.Join(ps, "; ") + "]"
		}
	}
	return "[" + strings.Join(parts, "; ") + "]"
}

// scripted Put / Get / Get-with-puts-inside-the-window on a real TokenLIDs
func tokLIDsWinCase(w *casefile.Writer, r *rng.R) {
	n := r.Range(2, 24)
	mids, rids := make([]uint64, n+1), make([]uint64, n+1)
	mids[0], rids[0] = math.MaxUint64, math.MaxUint64
	mspan, rspan := r.Range(1, 6), r.Range(1, 4)
	for i := 1; i <= n; i++ {
		mids[i] = 1000 + uint64(r.Intn(mspan))
		rids[i] = uint64(r.Intn(rspan))
	}
	lids := func(maxk int) []uint32 {
		k := r.Range(1, maxk)
		out := make([]uint32, k)
		for j := range out {
			out[j] = uint32(r.Range(1, n))
		}
		return out
	}
	nops := r.Range(2, 7)
	ops := make([]frac.VerifC02WinOp, 0, nops+2)
	ops = append(ops, frac.VerifC02WinOp{Kind: "put", LIDs: lids(6)}) // something to take
	for i := 0; i < nops; i++ {
		switch r.Intn(4) {
		case 0:
			ops = append(ops, frac.VerifC02WinOp{Kind: "get"})
		case 1:
			ops = append(ops, frac.VerifC02WinOp{Kind: "put", LIDs: lids(6)})
		default:
			np := r.Range(1, 3)
			op := frac.VerifC02WinOp{Kind: "win"}
			for k := 0; k < np; k++ {
				op.Puts = append(op.Puts, lids(4)) // short: they fit into the taken slice's array
			}
			ops = append(ops, op)
		}
	}
	ops = append(ops, frac.VerifC02WinOp{Kind: "get"})
	execTokLIDsWin(w, mids, rids, ops)
}

func execTokLIDsWin(w *casefile.Writer, mids, rids []uint64, ops []frac.VerifC02WinOp) {
	in := map[string]any{"mids": mids, "rids": rids, "win_ops": ops}
	var out [][]uint32
	var err error
	var panicked any
	func() {
		defer func() { panicked = recover() }()
		out, err = frac.VerifC02TokenLIDsWin(mids, rids, ops)
	}()
	if panicked != nil {
		w.Violate("tokenlids-panic", fmt.Sprintf("TokenLIDs panics: %v", panicked), in)
		return
	}
	if err != nil {
		w.Violate("harness-error", "VerifC02TokenLIDsWin: "+err.Error(), in)
		return
	}
	parts := make([]string, len(out))
	for i, o := range out {
		parts[i] = nlist(o)
	}
	windows := 0
	for _, o := range ops {
		if o.Kind == "win" {
			windows++
		}
	}
	w.Count("window:unit-gets-with-puts-inside")
	w.Add(fmt.Sprintf("CTokLIDs %s %s %s [%s]", u64list(mids), u64list(rids), winOpsCoq(ops), strings.Join(parts, "; ")),
		"token-lids-window", windows > 0, in, out)
}

// ---------------------------------------------------------------- system level

// winScenario: bulk 1 goes the regular way; bulk 2 is published (PutLIDsInQueue per token, then the all-token) while
// a reader sits between "queue taken" and "merged": Reader "getlids" = GetLIDs on token Tok; Reader "search" = a real
// DataProvider.Search for Tok (its getIDsIndex takes the queue of the all-token first).
type winScenario struct {
	Bulk1  []doc  `json:"bulk1"`
	Bulk2  []doc  `json:"bulk2"`
	Reader string `json:"reader"`
	Tok    token  `json:"tok"`
}

func genWinScenario(r *rng.R) winScenario {
	sh := corpusShape{n: r.Range(3, 14), midBase: 1_700_000_000_000 + uint64(r.Intn(1000)), midSpan: r.Range(1, 8),
		alphabet: "ab", maxLen: 1, maxToks: 4}
	if r.Chance(1, 3) {
		sh.midBase = 1
	}
	all := genCorpus(r, sh)
	// the token the reader is after: every document of bulk 1 and most of bulk 2 carry it
	tok := token{F: r.Intn(nFields), V: randValue(r, sh.alphabet, 1)}
	k := r.Range(1, min(6, len(all)-1))
	sc := winScenario{Bulk1: all[:len(all)-k], Bulk2: all[len(all)-k:], Tok: tok, Reader: rng.Pick(r, []string{"getlids", "getlids", "search"})}
	have := func(d doc, t token) bool {
		for _, x := range d.Toks {
			if x == t {
				return true
			}
		}
		return false
	}
	for i := range sc.Bulk1 {
		if !have(sc.Bulk1[i], tok) && (i < 2 || r.Chance(2, 3)) {
			sc.Bulk1[i].Toks = append(sc.Bulk1[i].Toks, tok)
		}
	}
	// bulk 2 may only carry tokens the fraction knows already
	known := map[token]bool{}
	for _, d := range sc.Bulk1 {
		for _, t := range d.Toks {
			known[t] = true
		}
	}
	for i := range sc.Bulk2 {
		var ts []token
		for _, t := range sc.Bulk2[i].Toks {
			if known[t] {
				ts = append(ts, t)
			}
		}
		if !have(doc{Toks: ts}, tok) && (i == 0 || r.Chance(2, 3)) {
			ts = append(ts, tok)
		}
		if ts == nil {
			ts = []token{}
		}
		sc.Bulk2[i].Toks = ts
	}
	return sc
}

func execWinScenario(w *casefile.Writer, tmp string, idx int, sc winScenario) {
	in := map[string]any{"window": sc}
	defer func() {
		if p := recover(); p != nil {
			w.Violate("search-panic", fmt.Sprintf("panic: %v", p), in)
		}
	}()
	dir := filepath.Join(tmp, fmt.Sprintf("w%05d", idx))
	if err := os.MkdirAll(dir, 0o777); err != nil {
		w.Violate("harness-error", err.Error(), in)
		return
	}
	defer os.RemoveAll(dir)
	win := frac.VerifC02WinOpen(filepath.Join(dir, "frac"))
	defer win.Close()

	ids := func(ds []doc) []seq.ID {
		out := make([]seq.ID, len(ds))
		for i, d := range ds {
			out[i] = seq.ID{MID: seq.MID(d.MID), RID: seq.RID(d.RID)}
		}
		return out
	}
	strs := make([][]string, len(sc.Bulk1))
	for i, d := range sc.Bulk1 {
		for _, t := range d.Toks {
			strs[i] = append(strs[i], fmt.Sprintf("f%d:%s", t.F, t.V))
		}
	}
	if err := win.Bulk(ids(sc.Bulk1), strs); err != nil {
		w.Violate("harness-error", "Bulk: "+err.Error(), in)
		return
	}
	pairs := make([][][2]string, len(sc.Bulk2))
	for i, d := range sc.Bulk2 {
		for _, t := range d.Toks {
			pairs[i] = append(pairs[i], [2]string{fmt.Sprintf("f%d", t.F), t.V})
		}
	}
	lit := &expr{Kind: "lit", F: sc.Tok.F, V: sc.Tok.V}
	mk := func(e *expr, rev bool) request {
		return request{Text: e.text(), E: e, From: 0, To: math.MaxUint64, Reverse: rev, Limit: 100, WT: true, Hist: 1}
	}
	var inWindow *asked
	var inErr error
	waitOn := [2]string{fmt.Sprintf("f%d", sc.Tok.F), sc.Tok.V}
	reader := func() { win.GetLIDsOf(waitOn[0], waitOn[1]) }
	if sc.Reader == "search" {
		waitOn = [2]string{"_all_", ""}
		reader = func() {
			a, serr, herr := ask(win.Active, mk(lit, false))
			inWindow = a
			if serr != nil {
				inErr = serr
			} else if herr != nil {
				inErr = herr
			}
		}
	}
	if err := win.BulkInWindow(ids(sc.Bulk2), pairs, waitOn, reader); err != nil {
		w.Violate("harness-error", "BulkInWindow: "+err.Error(), in)
		return
	}
	if inErr != nil {
		w.Violate("search-error:"+errClass(inErr), "Search inside the window fails: "+inErr.Error(), in)
		return
	}
	corpus := append(append([]doc{}, sc.Bulk1...), sc.Bulk2...)
	_ = context.Background
	// positive query, NOT query, everything; each of them a second time afterwards
	anyTok := &expr{Kind: "or", A: &expr{Kind: "prefix", F: 0}, B: &expr{Kind: "or", A: &expr{Kind: "prefix", F: 1}, B: &expr{Kind: "prefix", F: 2}}}
	var sqs []string
	var answers []any
	nonempty := false
	for round := 0; round < 2; round++ {
		for _, e := range []*expr{lit, {Kind: "not", A: lit}, anyTok} {
			a, serr, herr := ask(win.Active, mk(e, round == 1))
			if herr != nil {
				w.Violate("harness-error", herr.Error(), in)
				return
			}
			if serr != nil {
				w.Violate("search-error:"+errClass(serr), "Search fails: "+serr.Error(), in)
				return
			}
			sqs = append(sqs, a.sq)
			answers = append(answers, a.ans)
			nonempty = nonempty || len(a.ans.IDs) > 0
		}
	}
	w.Count("window:bulk-published-while-" + sc.Reader + "-holds-taken-queue")
	w.Add(fmt.Sprintf("CActive\n   %s\n   [%s]", corpusCoq(corpus), strings.Join(sqs, ";\n    ")), "window-active", nonempty, in, answers)
	w.Evals(len(sqs) - 1)
	if inWindow != nil {
		// the search that sat in the window answers over the snapshot it took: bulk 1 (Info not yet updated either)
		w.Add(fmt.Sprintf("CActive\n   %s\n   [%s]", corpusCoq(sc.Bulk1), inWindow.sq), "window-active-reader", len(inWindow.ans.IDs) > 0, in, []any{inWindow.ans})
	}
}
