package main

// gen-<func> correspondence classes: validation of the Go-to-Gallina translator (harness/cmd/go2coq).
// The REAL functions (seq.LessOrEqual / Less, util.BinSearchInRange, processor.getLIDsBorders, the inverser's
// Len / Inverse / Revert) are called on boundary and generated arguments; case_agrees evaluates the definitions
// GENERATED from their source (props/C02/coq/Gen.v) on the same arguments (constructor CGo of CaseDefs.v).

import (
	"strings"

	"github.com/ozontech/seq-db/frac"
	"github.com/ozontech/seq-db/frac/processor"
	"github.com/ozontech/seq-db/seq"
	"github.com/ozontech/seq-db/util"

	"verif/harness/internal/casefile"
	gc "verif/harness/internal/gencase"
	"verif/harness/internal/rng"
)

// genIndex is a plain IDs index over a table of (MID, RID) pairs: the index parameter of getLIDsBorders in the
// gen-getLIDsBorders class (GenCase.gen_index is its Coq twin).
type genIndex struct{ mids, rids []uint64 }

func (f genIndex) at(lid seq.LID) seq.ID {
	if int(lid) < len(f.mids) {
		return seq.ID{MID: seq.MID(f.mids[lid]), RID: seq.RID(f.rids[lid])}
	}
	return seq.ID{}
}
func (f genIndex) LessOrEqual(lid seq.LID, id seq.ID) bool { return seq.LessOrEqual(f.at(lid), id) }
func (f genIndex) GetMID(lid seq.LID) seq.MID              { return f.at(lid).MID }
func (f genIndex) GetRID(lid seq.LID) seq.RID              { return f.at(lid).RID }
func (f genIndex) Len() int                                { return len(f.mids) }

func runGen(w *casefile.Writer, r *rng.R, thorough bool) {
	n := 120
	if thorough {
		n = 1000
	}
	add := func(it gc.Item) {
		w.Add(strings.Replace(it.Coq, "CGen ", "CGo ", 1), it.Class, false, it.Input, it.Impl)
		w.Count("gen:" + it.Class)
	}
	u64s := func(xs []uint64) gc.Arg {
		a := make(gc.Arg, len(xs))
		for i, x := range xs {
			a[i] = gc.U(x)
		}
		return a
	}
	for i := 0; i < n; i++ {
		a, b := seq.ID{MID: seq.MID(gc.U64(r)), RID: seq.RID(gc.U64(r))}, seq.ID{MID: seq.MID(gc.U64(r)), RID: seq.RID(gc.U64(r))}
		if r.Bool() {
			b.MID = a.MID
		}
		if r.Chance(1, 4) {
			b.RID = a.RID
		}
		idArgs := []gc.Arg{gc.S(gc.U(uint64(a.MID))), gc.S(gc.U(uint64(a.RID))), gc.S(gc.U(uint64(b.MID))), gc.S(gc.U(uint64(b.RID)))}
		add(gc.Case("gen-LessOrEqual", 1, idArgs, func() []string { return []string{gc.B(seq.LessOrEqual(a, b))} }))
		add(gc.Case("gen-Less", 2, idArgs, func() []string { return []string{gc.B(seq.Less(a, b))} }))

		// predicate = a table of bits (monotone or not) that panics outside the table
		from := r.Intn(40) - 10
		if r.Chance(1, 6) {
			from = int(gc.I64(r) / 4)
		}
		nb := r.Intn(12)
		bits := make([]uint64, nb)
		th := r.Intn(nb + 1)
		for j := range bits {
			if j >= th {
				bits[j] = 1
			}
			if r.Chance(1, 12) {
				bits[j] ^= 1
			}
		}
		to := from + nb - 1
		switch r.Intn(8) {
		case 0:
			to = from - 1 - r.Intn(3)
		case 1:
			to++
		}
		add(gc.Case("gen-BinSearchInRange", 3, []gc.Arg{gc.S(gc.I(int64(from))), gc.S(gc.I(int64(to))), u64s(bits)},
			func() []string {
				return []string{gc.I(int64(util.BinSearchInRange(from, to, func(i int) bool { return bits[i-from] != 0 })))}
			}))

		// index = a descending (sometimes unsorted) table of IDs incl. the stub at LID 0
		nt := r.Intn(10)
		mids, rids := make([]uint64, nt), make([]uint64, nt)
		cur := uint64(1000 + r.Intn(50))
		if r.Chance(1, 8) {
			cur = 1<<64 - 1
		}
		for j := 0; j < nt; j++ {
			if j == 0 {
				mids[j], rids[j] = 1<<64-1, 1<<64-1
				continue
			}
			if step := uint64(r.Intn(4)); step <= cur {
				cur -= step
			}
			mids[j], rids[j] = cur, rng.Pick(r, []uint64{0, 1, 1<<64 - 1, r.U64()})
		}
		if r.Chance(1, 8) && nt > 2 {
			mids[1], mids[nt-1] = mids[nt-1], mids[1]
		}
		q := func() uint64 {
			switch r.Intn(5) {
			case 0:
				return gc.U64(r)
			case 1:
				return 0
			}
			return cur + uint64(r.Intn(60)) - 5
		}
		lo, hi := q(), q()
		if r.Chance(3, 4) && lo > hi {
			lo, hi = hi, lo
		}
		ix := genIndex{mids, rids}
		add(gc.Case("gen-getLIDsBorders", 4, []gc.Arg{gc.S(gc.U(lo)), gc.S(gc.U(hi)), u64s(mids), u64s(rids)},
			func() []string {
				x, y := processor.VerifC14LIDsBorders(seq.MID(lo), seq.MID(hi), ix)
				return []string{gc.U(uint64(x)), gc.U(uint64(y))}
			}))

		// inverser with arbitrary fields (consistent or not)
		nv, ni := r.Intn(8), r.Intn(10)
		values, inversion := make([]uint32, nv), make([]int, ni)
		vArg, iArg := make(gc.Arg, nv), make(gc.Arg, ni)
		for j := range values {
			values[j] = rng.Pick(r, []uint32{0, 1, uint32(r.Intn(12)), gc.U32(r)})
			vArg[j] = gc.U(uint64(values[j]))
		}
		for j := range inversion {
			inversion[j] = rng.Pick(r, []int{0, 0, 1, r.Intn(9), -1, int(gc.I64(r))})
			iArg[j] = gc.I(int64(inversion[j]))
		}
		iv := frac.NewVerifGenInverser(values, inversion)
		k := rng.Pick(r, []uint32{0, 1, uint32(ni), uint32(ni) + 1, uint32(r.Intn(ni + 1)), uint32(nv), gc.U32(r)})
		add(gc.Case("gen-inverser.Len", 5, []gc.Arg{vArg, iArg}, func() []string { return []string{gc.I(int64(iv.Len()))} }))
		add(gc.Case("gen-inverser.Inverse", 6, []gc.Arg{vArg, iArg, gc.S(gc.U(uint64(k)))}, func() []string {
			v, ok := iv.Inverse(k)
			return []string{gc.I(int64(v)), gc.B(ok)}
		}))
		add(gc.Case("gen-inverser.Revert", 7, []gc.Arg{vArg, iArg, gc.S(gc.U(uint64(k)))}, func() []string { return []string{gc.U(uint64(iv.Revert(k)))} }))
	}
}
