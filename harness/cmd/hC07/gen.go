package main

import (
	"fmt"
	"strings"

	"github.com/ozontech/seq-db/parser"

	"verif/harness/internal/rng"
)

// ---------------------------------------------------------------- Coq rendering

func idsCoq(ids [][2]uint64) string {
	p := make([]string, len(ids))
	for i, id := range ids {
		p[i] = fmt.Sprintf("(%d, %d)", id[0], id[1])
	}
	return "[" + strings.Join(p, "; ") + "]"
}

func astCoq(n *parser.ASTNode) string {
	switch v := n.Value.(type) {
	case *parser.Logical:
		cs := make([]string, len(n.Children))
		for i, c := range n.Children {
			cs[i] = astCoq(c)
		}
		switch parser.VerifLogicalOp(v) {
		case parser.VerifNot:
			return "(QNot " + cs[0] + ")"
		case parser.VerifAnd:
			return "(QAnd " + cs[0] + " " + cs[1] + ")"
		case parser.VerifOr:
			return "(QOr " + cs[0] + " " + cs[1] + ")"
		case parser.VerifNAnd:
			return "(QNand " + cs[0] + " " + cs[1] + ")"
		}
	case *parser.Literal:
		if v.Field == "k" && len(v.Terms) == 1 && len(v.Terms[0].Data) == 1 {
			return fmt.Sprintf("(QTok %d)", int(v.Terms[0].Data[0]-'a')+1)
		}
	}
	panic(fmt.Sprintf("query shape outside the model: %v", n))
}

func coqCase(e *Exec, in *Input, obs []Obs) string {
	curASTs = e.asts
	var sb strings.Builder
	if in.Opts != nil {
		fmt.Fprintf(&sb, "CSchedP %v %v [", in.Opts.SkipSortDocs, in.Opts.KeepMetaFile)
	} else {
		sb.WriteString("CSched [")
	}
	for wi, bulks := range in.Bulks {
		if wi > 0 {
			sb.WriteString("; ")
		}
		sb.WriteString("[")
		for bi, b := range bulks {
			if bi > 0 {
				sb.WriteString("; ")
			}
			sb.WriteString("[")
			for di, d := range b {
				if di > 0 {
					sb.WriteString("; ")
				}
				toks := []string{"0"}
				for _, t := range d.Toks {
					toks = append(toks, fmt.Sprint(t))
				}
				fmt.Fprintf(&sb, "mkDoc (%d, %d) [%s] %d", d.MID, d.RID, strings.Join(toks, "; "), d.Body)
			}
			sb.WriteString("]")
		}
		sb.WriteString("]")
	}
	sb.WriteString("] [")
	for i, q := range in.Queries {
		if i > 0 {
			sb.WriteString("; ")
		}
		fmt.Fprintf(&sb, "(%s, %d, %d)", astCoq(e.asts[i]), q.From, q.To)
	}
	sb.WriteString("] [")
	for i, l := range in.Labels {
		if i > 0 {
			sb.WriteString("; ")
		}
		switch l.K {
		case "W":
			fmt.Fprintf(&sb, "LW %d", l.T)
		case "Snap":
			fmt.Fprintf(&sb, "LSnap %d", l.T)
		case "SB":
			fmt.Fprintf(&sb, "LSB %d %d %d", l.T, l.J, l.Q)
		case "FB":
			fmt.Fprintf(&sb, "LFB %d %d %s", l.T, l.J, idsCoq(l.IDs))
		case "R":
			fmt.Fprintf(&sb, "LR %d", l.T)
		case "Rot":
			sb.WriteString("LRot")
		case "M":
			fmt.Fprintf(&sb, "LM %d", l.T)
		case "Sui":
			sb.WriteString("LSui")
		default:
			panic("label " + l.K)
		}
	}
	sb.WriteString("] [")
	for i, o := range obs {
		if i > 0 {
			sb.WriteString("; ")
		}
		switch o.K {
		case "hook":
			fmt.Fprintf(&sb, "OHook %d", o.H)
		case "snap":
			p := make([]string, len(o.Sts))
			for i, s := range o.Sts {
				p[i] = fmt.Sprint(s)
			}
			fmt.Fprintf(&sb, "OSnap [%s]", strings.Join(p, "; "))
		case "res":
			fmt.Fprintf(&sb, "ORes %s", idsCoq(o.IDs))
		case "fetch":
			p := make([]string, len(o.Docs))
			for i, d := range o.Docs {
				switch {
				case d == -1:
					p[i] = "None"
				case d < 0:
					p[i] = "Some 999999"
				default:
					p[i] = fmt.Sprintf("Some %d", d)
				}
			}
			fmt.Fprintf(&sb, "OFetch [%s]", strings.Join(p, "; "))
		case "err":
			sb.WriteString("OErr")
		case "done":
			sb.WriteString("ODone")
		case "unit":
			sb.WriteString("OUnit")
		default:
			sb.WriteString("ODisabled")
		}
	}
	sb.WriteString("]")
	if in.Opts != nil {
		sb.WriteString(" [")
		for i, o := range obs {
			if i > 0 {
				sb.WriteString("; ")
			}
			p := make([]string, len(o.Files))
			for k, m := range o.Files {
				p[k] = fmt.Sprint(m)
			}
			sb.WriteString("[" + strings.Join(p, "; ") + "]")
		}
		sb.WriteString("]")
		// wr: per fraction its block offsets as first seen (at seal.swapped); ps: per label, per fraction, as they are
		nfr := 0
		for _, o := range obs {
			if len(o.Offs) > nfr {
				nfr = len(o.Offs)
			}
		}
		u64s := func(l []uint64) string {
			p := make([]string, len(l))
			for i, x := range l {
				p[i] = fmt.Sprint(x)
			}
			return "[" + strings.Join(p, "; ") + "]"
		}
		wr := make([]string, nfr)
		for g := range wr {
			wr[g] = "[]"
			for _, o := range obs {
				if g < len(o.Offs) && len(o.Offs[g]) > 0 {
					wr[g] = u64s(o.Offs[g])
					break
				}
			}
		}
		sb.WriteString(" [" + strings.Join(wr, "; ") + "] [")
		for i, o := range obs {
			if i > 0 {
				sb.WriteString("; ")
			}
			p := make([]string, len(o.Offs))
			for g := range o.Offs {
				p[g] = u64s(o.Offs[g])
			}
			sb.WriteString("[" + strings.Join(p, "; ") + "]")
		}
		sb.WriteString("]")
	}
	return sb.String()
}

// ---------------------------------------------------------------- classification (evidence only)

func classify(in *Input, obs []Obs) (string, bool, []string) {
	counts := []string{}
	readerBusy := map[int]bool{}
	overlap, rot, sui, retry, sealMid := false, 0, 0, false, false
	lastW := map[int]int{}
	for i, l := range in.Labels {
		o := obs[i]
		switch l.K {
		case "SB", "FB":
			if o.K == "hook" {
				readerBusy[l.T] = true
			}
		case "R":
			if o.K != "hook" {
				delete(readerBusy, l.T)
			}
		case "W":
			if len(readerBusy) > 0 && o.K == "hook" && o.H >= 3 && o.H <= 9 {
				overlap = true
			}
			if o.K == "hook" && o.H == 1 && lastW[l.T] == 1 {
				retry = true
			}
			if o.K == "hook" {
				lastW[l.T] = o.H
			}
		case "Rot":
			rot++
		case "Sui":
			sui++
		case "M":
			if len(readerBusy) > 0 {
				sealMid = true
			}
		}
	}
	counts = append(counts, fmt.Sprintf("rotations:%d", rot))
	if in.Opts != nil {
		counts = append(counts, fmt.Sprintf("opts:skip-sort-docs=%v,keep-meta-file=%v", in.Opts.SkipSortDocs, in.Opts.KeepMetaFile))
		counts = append(counts, handoverCounts(in, obs)...)
		counts = append(counts, fmt.Sprintf("doc-block-size:%d", in.Opts.DocBlockSize))
		if n := len(obs); n > 0 {
			multi := 0
			for _, t := range obs[n-1].Offs {
				if len(t) > 1 {
					multi++
				}
			}
			counts = append(counts, fmt.Sprintf("sealed-fractions-with-several-blocks:%d", multi))
		}
	}
	if overlap {
		counts = append(counts, "reader-overlaps-index-step")
	}
	if sealMid {
		counts = append(counts, "reader-overlaps-seal-step")
	}
	if retry {
		counts = append(counts, "append-refused-and-retried")
	}
	if sui > 0 {
		counts = append(counts, "suicide")
	}
	cls := findingClass(in, obs)
	if cls == "sched" && in.Opts != nil {
		cls = optsClass(in.Opts)
	}
	return cls, overlap || sealMid || retry || sealedFetchAfterRelease(in, obs), counts
}

func optsClass(o *Opts) string {
	switch {
	case o.SkipSortDocs && o.KeepMetaFile:
		return "sched-skipsort-keepmeta"
	case o.SkipSortDocs:
		return "sched-skipsort"
	case o.KeepMetaFile:
		return "sched-keepmeta"
	}
	return "sched-files"
}

// sealedPhase replays the bookkeeping of the schedule: for every label the fraction a reader's request goes to
// and how far the seal thread of that fraction is (0 not swapped, 33 swapped, 34 released, 35 before-replace,
// 36 replaced), -1 when retention removed it.
func handoverWalk(in *Input, obs []Obs, visit func(i int, l Label, o Obs, g, phase int, found int)) {
	phase := map[int]int{}
	snaps := map[int][]int{}
	nfr, shift := 1, 0
	for i, l := range in.Labels {
		o := obs[i]
		switch l.K {
		case "Rot":
			if o.K == "unit" {
				nfr++
			}
		case "Sui":
			if o.K == "unit" {
				phase[shift] = -1
				shift++
			}
		case "M":
			if o.K == "hook" && o.H >= 33 && phase[l.T] >= 0 {
				phase[l.T] = o.H
			}
			if o.K == "done" && phase[l.T] >= 33 {
				phase[l.T] = 36
			}
		case "Snap":
			if o.K == "snap" {
				gs := []int{}
				for g := shift; g < nfr; g++ {
					gs = append(gs, g)
				}
				snaps[l.T] = gs
			}
		case "FB", "SB":
			if l.J < len(snaps[l.T]) {
				g := snaps[l.T][l.J]
				found := 0
				for _, d := range o.Docs {
					if d >= 0 {
						found++
					}
				}
				visit(i, l, o, g, phase[g], found)
			}
		}
	}
}

func sealedFetchAfterRelease(in *Input, obs []Obs) bool {
	hit := false
	handoverWalk(in, obs, func(i int, l Label, o Obs, g, phase, found int) {
		if l.K == "FB" && phase >= 34 && found > 0 {
			hit = true
		}
	})
	return hit
}

func handoverCounts(in *Input, obs []Obs) []string {
	seen := map[string]bool{}
	rotAt := []int{}
	for i, l := range in.Labels {
		if l.K == "Rot" && obs[i].K == "unit" {
			rotAt = append(rotAt, i)
		}
	}
	handoverWalk(in, obs, func(i int, l Label, o Obs, g, phase, found int) {
		if l.K != "FB" || found == 0 {
			return
		}
		switch {
		case phase == 33:
			seen["fetch-found-on-sealed:between-swap-and-release"] = true
		case phase == 34 || phase == 35:
			seen["fetch-found-on-sealed:after-release-through-proxy"] = true
		case phase == 36:
			seen["fetch-found-on-sealed:after-replace"] = true
		}
		if phase >= 34 && len(rotAt) >= 2 && i > rotAt[1] && g == 0 {
			seen["fetch-found-on-sealed:after-second-rotation"] = true
		}
	})
	out := []string{}
	for _, k := range []string{"fetch-found-on-sealed:between-swap-and-release", "fetch-found-on-sealed:after-release-through-proxy",
		"fetch-found-on-sealed:after-replace", "fetch-found-on-sealed:after-second-rotation"} {
		if seen[k] {
			out = append(out, k)
		}
	}
	return out
}

// evalAST is the meaning of a parsed query on a document's token set.
func evalAST(n *parser.ASTNode, toks map[int]bool) bool {
	switch v := n.Value.(type) {
	case *parser.Logical:
		switch parser.VerifLogicalOp(v) {
		case parser.VerifNot:
			return !evalAST(n.Children[0], toks)
		case parser.VerifAnd:
			return evalAST(n.Children[0], toks) && evalAST(n.Children[1], toks)
		case parser.VerifOr:
			return evalAST(n.Children[0], toks) || evalAST(n.Children[1], toks)
		case parser.VerifNAnd:
			return !evalAST(n.Children[0], toks) && evalAST(n.Children[1], toks)
		}
	case *parser.Literal:
		return toks[int(v.Terms[0].Data[0]-'a')+1]
	}
	return false
}

var curASTs []*parser.ASTNode

// findingClass names the case after the defect it exhibits (the fingerprint under which the check reports
// it); "sched" otherwise. The verdict itself is the Coq spec checker's, not this function's.
func findingClass(in *Input, obs []Obs) string {
	toksOf := map[[2]uint64]map[int]bool{}
	for _, bs := range in.Bulks {
		for _, b := range bs {
			for _, d := range b {
				m := map[int]bool{}
				for _, t := range d.Toks {
					m[t] = true
				}
				toksOf[[2]uint64{d.MID, d.RID}] = m
			}
		}
	}
	curQ := map[int]int{}
	for i, l := range in.Labels {
		o := obs[i]
		if l.K == "SB" {
			curQ[l.T] = l.Q
		}
		if o.K == "err" && strings.Contains(o.Msg, "index out of range") {
			return "fetch-stale-blocks-panic"
		}
		if o.K == "err" && strings.Contains(o.Msg, "nil pointer") {
			return "suicided-proxy-nil-deref"
		}
		if o.K == "res" && (l.K == "SB" || l.K == "R") {
			for _, id := range o.IDs {
				if t, ok := toksOf[id]; ok && !evalAST(curASTs[curQ[l.T]], t) {
					return "search-negation-midbulk"
				}
			}
		}
	}
	return "sched"
}

// ---------------------------------------------------------------- random schedules

func genBulks(r *rng.R) [][][]Doc {
	nw := r.Range(1, 3)
	out := make([][][]Doc, nw)
	next := 1
	var all []Doc
	for w := 0; w < nw; w++ {
		nb := r.Range(1, 2)
		for b := 0; b < nb; b++ {
			nd := r.Range(1, 3)
			var bulk []Doc
			for d := 0; d < nd; d++ {
				var toks []int
				for t := 1; t <= 3; t++ {
					if r.Chance(2, 5) {
						toks = append(toks, t)
					}
				}
				doc := Doc{MID: uint64(10 * r.Range(1, 5)), RID: uint64(next), Toks: toks, Body: next}
				if len(all) > 0 && r.Chance(1, 8) { // a retried document: same ID and tokens, sent again
					o := rng.Pick(r, all)
					dup := false
					for _, x := range bulk {
						if x.RID == o.RID {
							dup = true
						}
					}
					if !dup {
						doc = Doc{MID: o.MID, RID: o.RID, Toks: o.Toks, Body: next}
					}
				}
				next++
				bulk = append(bulk, doc)
				all = append(all, doc)
			}
			out[w] = append(out[w], bulk)
		}
	}
	return out
}

type cand struct {
	l Label
	w int
}

func runGenerated(r *rng.R, idx int) *Result {
	in := &Input{Bulks: genBulks(r), Queries: stdQueries}
	// every random schedule carries the fraction options and the file observations; half of them run with the
	// non-default SkipSortDocs (sealed fraction keeps reading through the active fraction's descriptor)
	in.Opts = &Opts{SkipSortDocs: r.Chance(1, 2), KeepMetaFile: r.Chance(1, 3)}
	if r.Chance(3, 4) { // several blocks of sorted docs per sealed fraction (every document its own block)
		in.Opts.DocBlockSize = 64
	}
	e, err := NewExec(in)
	if err != nil {
		panic(err)
	}
	var allIDs [][2]uint64
	for _, bs := range in.Bulks {
		for _, b := range bs {
			for _, d := range b {
				allIDs = append(allIDs, [2]uint64{d.MID, d.RID})
			}
		}
	}
	var seen [][2]uint64
	var labels []Label
	var obs []Obs
	do := func(l Label) {
		o := e.Step(l)
		labels = append(labels, l)
		obs = append(obs, o)
		if o.K == "res" {
			seen = append(seen, o.IDs...)
		}
	}
	ticks := r.Range(30, 110)
	maxRot, maxSui := r.Range(0, 3), r.Intn(2)
	rots, suis := 0, 0
	readersOn := r.Range(1, nReaders)
	for t := 0; t < ticks && !e.hang; t++ {
		// stale-snapshot gadget (window of 5d51c58): a fetch creates its provider on the writable fraction, THEN a
		// bulk carrying one of the requested IDs is registered and positioned, THEN the fetch continues
		if r.Chance(1, 7) {
			ri := r.Intn(readersOn)
			rd := e.rs[ri]
			var idle []int
			for w := range e.ws {
				if e.ws[w].state == 0 && e.ws[w].cur < len(in.Bulks[w]) {
					idle = append(idle, w)
				}
			}
			if !rd.inop && len(idle) > 0 {
				do(Label{K: "Snap", T: ri})
				j := len(rd.snap) - 1
				w := rng.Pick(r, idle)
				next := in.Bulks[w][e.ws[w].cur]
				ids := [][2]uint64{{next[r.Intn(len(next))].MID, next[r.Intn(len(next))].RID}}
				ids[0][1] = 0
				for _, d := range next {
					if d.MID == ids[0][0] {
						ids[0][1] = d.RID
						break
					}
				}
				if len(seen) > 0 {
					ids = append(ids, rng.Pick(r, seen))
				}
				ids = dedupIDs(ids)
				do(Label{K: "FB", T: ri, J: j, IDs: ids})
				if rd.inop { // parked at fetch.start on the active provider
					for k := 0; k < 4 && e.Enabled(Label{K: "W", T: w}) && !e.hang; k++ {
						do(Label{K: "W", T: w})
					}
					if r.Chance(2, 3) {
						do(Label{K: "R", T: ri})
					}
				}
				e.counts = append(e.counts, "gadget:stale-fetch")
				continue
			}
		}
		// GetLIDs overlap gadget: two readers of the same token on the same fraction, both parked at search.leaf,
		// continue with a forced overlap inside TokenLIDs.GetLIDs (StepPair)
		if r.Chance(1, 6) && !e.rs[0].inop && !e.rs[1].inop {
			do(Label{K: "Snap", T: 0})
			do(Label{K: "Snap", T: 1})
			if n := len(e.rs[0].snap); n > 0 && n == len(e.rs[1].snap) {
				j, q := r.Intn(n), rng.Pick(r, []int{0, 1, 7})
				for _, ri := range []int{0, 1} {
					do(Label{K: "SB", T: ri, J: j, Q: q})
					for k := 0; k < 3 && e.rs[ri].inop && e.rs[ri].at != 23 && !e.hang; k++ {
						do(Label{K: "R", T: ri})
					}
				}
				if e.rs[0].inop && e.rs[1].inop && e.rs[0].at == 23 && e.rs[1].at == 23 && !e.hang {
					oa, ob := e.StepPair(0, 1)
					labels = append(labels, Label{K: "R", T: 0, P: 1}, Label{K: "R", T: 1})
					obs = append(obs, oa, ob)
					for _, o := range []Obs{oa, ob} {
						if o.K == "res" {
							seen = append(seen, o.IDs...)
						}
					}
					e.counts = append(e.counts, "gadget:getlids-overlap")
				}
			}
		}
		// negation gadget (window of a28a3f7): a writer is parked between two queue puts, a reader runs a query with
		// NOT over the writer's fraction from start to end
		if r.Chance(1, 7) {
			ri := r.Intn(readersOn)
			rd := e.rs[ri]
			for w := range e.ws {
				if e.ws[w].state == 2 && e.ws[w].at == 7 && !rd.inop {
					do(Label{K: "Snap", T: ri})
					for j, g := range rd.snapG {
						if g == e.ws[w].g {
							do(Label{K: "SB", T: ri, J: j, Q: rng.Pick(r, []int{4, 5, 8})})
							for rd.inop && !e.hang {
								do(Label{K: "R", T: ri})
							}
						}
					}
					e.counts = append(e.counts, "gadget:negation-between-puts")
					break
				}
			}
		}
		var cs []cand
		for w := range e.ws {
			if e.Enabled(Label{K: "W", T: w}) {
				cs = append(cs, cand{Label{K: "W", T: w}, 5})
			}
		}
		for ri := 0; ri < readersOn; ri++ {
			rd := e.rs[ri]
			if rd.inop {
				cs = append(cs, cand{Label{K: "R", T: ri}, 5})
				continue
			}
			if len(rd.snap) == 0 {
				cs = append(cs, cand{Label{K: "Snap", T: ri}, 3})
				continue
			}
			cs = append(cs, cand{Label{K: "Snap", T: ri}, 1})
			cs = append(cs, cand{Label{K: "SB", T: ri, J: r.Intn(len(rd.snap)), Q: r.Intn(len(in.Queries))}, 3})
			n := r.Range(1, 3)
			var ids [][2]uint64
			for k := 0; k < n; k++ {
				switch {
				case len(seen) > 0 && r.Chance(1, 2):
					ids = append(ids, rng.Pick(r, seen))
				case r.Chance(1, 10):
					ids = append(ids, [2]uint64{uint64(10 * r.Range(1, 5)), 7777})
				default:
					ids = append(ids, rng.Pick(r, allIDs))
				}
			}
			ids = dedupIDs(ids)
			cs = append(cs, cand{Label{K: "FB", T: ri, J: r.Intn(len(rd.snap)), IDs: ids}, 2})
		}
		if rots < maxRot && e.Enabled(Label{K: "Rot"}) {
			cs = append(cs, cand{Label{K: "Rot"}, 1})
		}
		for g := 0; g < e.nfr; g++ {
			if e.Enabled(Label{K: "M", T: g}) {
				cs = append(cs, cand{Label{K: "M", T: g}, 3})
			}
		}
		if suis < maxSui && e.Enabled(Label{K: "Sui"}) {
			cs = append(cs, cand{Label{K: "Sui"}, 1})
		}
		if len(cs) == 0 {
			break
		}
		tot := 0
		for _, c := range cs {
			tot += c.w
		}
		x := r.Intn(tot)
		var pick Label
		for _, c := range cs {
			if x < c.w {
				pick = c.l
				break
			}
			x -= c.w
		}
		switch pick.K {
		case "Rot":
			rots++
		case "Sui":
			suis++
		}
		do(pick)
		// hand-over gadget: right after the swap / the release / the list replacement of fraction g a reader takes a
		// fresh list, searches the fraction (now served by the sealed provider) and fetches every ID it got, and a
		// reader that still holds an OLDER list (the proxy entry) fetches IDs returned earlier
		// after the seal of fraction g has BUILT its sealed fraction (seal.built or later): every OLDER sealed fraction
		// must still answer - a fetch of all IDs (every block) through a fresh list
		if last := obs[len(obs)-1]; pick.K == "M" && ((last.K == "hook" && last.H >= 32) || last.K == "done") && !e.hang {
			ri := r.Intn(readersOn)
			if rd := e.rs[ri]; !rd.inop {
				swept := false
				do(Label{K: "Snap", T: ri})
				for j, sg := range rd.snapG {
					if sg != pick.T && sg < len(e.sealeds) && e.sealeds[sg] != nil && !e.hang {
						do(Label{K: "FB", T: ri, J: j, IDs: dedupIDs(allIDs)})
						for rd.inop && !e.hang {
							do(Label{K: "R", T: ri})
						}
						swept = true
					}
				}
				if swept {
					e.counts = append(e.counts, "gadget:fetch-older-sealed-after-seal")
				}
			}
		}
		if last := obs[len(obs)-1]; pick.K == "M" && ((last.K == "hook" && last.H >= 33) || last.K == "done") && r.Chance(2, 3) && !e.hang {
			g := pick.T
			ri := r.Intn(readersOn)
			if rd := e.rs[ri]; !rd.inop {
				for _, other := range e.rs[:readersOn] { // stale list first
					if other != rd && !other.inop {
						for j, og := range other.snapG {
							if og == g && len(seen) > 0 {
								oi := 0
								for k := range e.rs {
									if e.rs[k] == other {
										oi = k
									}
								}
								do(Label{K: "FB", T: oi, J: j, IDs: dedupIDs(append([][2]uint64{rng.Pick(r, seen)}, seen[:min(len(seen), 3)]...))})
								for other.inop && !e.hang {
									do(Label{K: "R", T: oi})
								}
								break
							}
						}
						break
					}
				}
				do(Label{K: "Snap", T: ri})
				for j, sg := range rd.snapG {
					if sg == g {
						do(Label{K: "SB", T: ri, J: j, Q: qAll})
						for rd.inop && !e.hang {
							do(Label{K: "R", T: ri})
						}
						if got := obs[len(obs)-1]; got.K == "res" && len(got.IDs) > 0 && !e.hang {
							// half of the time the concurrent fetch below is the FIRST read of the documents (cold cache)
							if !(last.K == "hook" && last.H == 33 && r.Chance(1, 2)) {
								do(Label{K: "FB", T: ri, J: j, IDs: dedupIDs(got.IDs)})
								for rd.inop && !e.hang {
									do(Label{K: "R", T: ri})
								}
							}
							// the fetch truly concurrent with Active.Release
							if last.K == "hook" && last.H == 33 && !rd.inop && !e.hang && e.Enabled(Label{K: "M", T: g}) && r.Chance(2, 3) {
								fb := Label{K: "FB", T: ri, J: j, IDs: dedupIDs(got.IDs), P: 2}
								oa, ob := e.StepFetchDuringRelease(fb, g)
								labels = append(labels, fb, Label{K: "M", T: g})
								obs = append(obs, oa, ob)
							}
						}
					}
				}
				e.counts = append(e.counts, "gadget:fetch-after-handover-step")
			}
		}
	}
	if !e.hang {
		ls, os_ := drain(e)
		labels, obs = append(labels, ls...), append(obs, os_...)
	}
	// quiescent round: every writer finishes all its bulks, then one reader sweeps every fraction
	for !e.hang {
		progressed := false
		for w := range e.ws {
			for e.Enabled(Label{K: "W", T: w}) && !e.hang {
				do(Label{K: "W", T: w})
				progressed = true
			}
		}
		if !progressed {
			break
		}
	}
	if !e.hang {
		ls, os_ := drain(e)
		labels, obs = append(labels, ls...), append(obs, os_...)
		do(Label{K: "Snap", T: 0})
		for j := range e.rs[0].snap {
			do(Label{K: "SB", T: 0, J: j, Q: qAll})
			for e.rs[0].inop && !e.hang {
				do(Label{K: "R", T: 0})
			}
			do(Label{K: "FB", T: 0, J: j, IDs: dedupIDs(allIDs)})
			for e.rs[0].inop && !e.hang {
				do(Label{K: "R", T: 0})
			}
		}
	}
	in.Labels = labels
	return finish(e, in, obs, "sched")
}

func dedupIDs(ids [][2]uint64) [][2]uint64 {
	seen := map[[2]uint64]bool{}
	var out [][2]uint64
	for _, id := range ids {
		if !seen[id] {
			seen[id] = true
			out = append(out, id)
		}
	}
	return out
}
