package main

// Schedule executor: runs a list of labels on the REAL store code. Exactly one logical thread runs at
// any time; every other one is parked inside a verifhook schedule point (or has not been started).
// A label = "resume that thread until its next schedule point (or until its operation returns)".

import (
	"context"
	"fmt"
	"os"
	"sort"
	"strings"
	"time"

	"github.com/ozontech/seq-db/consts"
	"github.com/ozontech/seq-db/frac"
	"github.com/ozontech/seq-db/frac/processor"
	"github.com/ozontech/seq-db/fracmanager"
	"github.com/ozontech/seq-db/parser"
	"github.com/ozontech/seq-db/seq"
	"github.com/ozontech/seq-db/verifhook"

	"verif/harness/internal/fracbuild"
)

var hookCode = map[string]int{
	"proxy.append.start": 1, "append.start": 2, "append.after-docblocks": 3, "append.after-positions": 4,
	"append.after-ids": 5, "append.after-tokenlist": 6, "append.queue-put": 7, "append.after-queue": 8,
	"append.after-stats": 9, "append.done": 10,
	"search.start": 20, "search.after-mapping": 21, "search.after-ids": 22, "search.leaf": 23, "fetch.start": 24,
	"seal.readonly": 30, "seal.idle": 31, "seal.built": 32, "seal.swapped": 33, "seal.released": 34,
	"seal.before-replace": 35,
}

type Doc struct {
	MID  uint64 `json:"mid"`
	RID  uint64 `json:"rid"`
	Toks []int  `json:"toks"` // token numbers 1.. (value of field k); `_all_` (0) is added first, as the proxy does
	Body int    `json:"body"`
}

type Query struct {
	Text string `json:"text"`
	From uint64 `json:"from"`
	To   uint64 `json:"to"`
}

type Label struct {
	K   string      `json:"k"` // W Snap SB FB R Rot M Sui
	T   int         `json:"t"` // writer / reader / fraction number
	J   int         `json:"j,omitempty"`
	Q   int         `json:"q,omitempty"`
	IDs [][2]uint64 `json:"ids,omitempty"`
	P   int         `json:"p,omitempty"` // 1: this reader step and the next label (another reader's step) overlap inside GetLIDs (StepPair)
}

type Obs struct {
	K    string      `json:"k"` // hook snap res fetch err done unit disabled
	H    int         `json:"h,omitempty"`
	Sts  []int       `json:"sts,omitempty"`
	IDs  [][2]uint64 `json:"ids,omitempty"`
	Docs []int       `json:"docs,omitempty"` // body numbers; -1 = not found, -2 = bytes that are no stored document
	Msg  string      `json:"msg,omitempty"`
	// file / descriptor state of every fraction after the step (only when Input.Opts is set), one number per fraction:
	// 1 .docs descriptor open, 2 .meta, 4 .sdocs, 8 .index (from /proc/self/fd); 16 .docs exists, 32 .meta, 64 .sdocs,
	// 128 .index (stat); 256 the installed sealed fraction reads the ACTIVE fraction's descriptor, 512 its own on .sdocs
	Files []int `json:"files,omitempty"`
	// Sealed.BlocksOffsets of every fraction whose sealed form is installed (nil otherwise), as in memory after the step
	Offs [][]uint64 `json:"offs,omitempty"`
}

// Opts are the non-default fraction options (frac.Config) of a schedule; nil = default configuration, no file
// observations (the original CSched cases).
type Opts struct {
	SkipSortDocs bool `json:"skip_sort_docs"`
	KeepMetaFile bool `json:"keep_meta_file"`
	// SealParams.DocBlockSize of the store (0 = default 4 MiB: one block of sorted docs per fraction); a small value
	// gives every sealed fraction several blocks, so that its block-offset table matters
	DocBlockSize int `json:"doc_block_size,omitempty"`
}

type Input struct {
	Bulks   [][][]Doc `json:"bulks"` // per writer: its bulks, sent one after the other
	Queries []Query   `json:"queries"`
	Labels  []Label   `json:"labels"`
	Opts    *Opts     `json:"opts,omitempty"`
}

type event struct {
	hook string
	park chan struct{}
	done bool
	res  any
	err  error
	tid  int // reader number + 1 for the end of a reader's request, 0 otherwise
}

type writer struct {
	cur    int
	state  int // 0 idle, 1 parked at proxy.append.start, 2 indexing
	park   chan struct{}
	picked int
	g      int
	at     int // code of the schedule point the index worker is parked at
}

type reader struct {
	snap  fracmanager.List
	snapG []int
	inop  bool
	g     int
	holds bool
	park  chan struct{}
	fetch bool
	at    int           // code of the schedule point the request is parked at
	f     frac.Fraction // list entry the request runs on
}

type sealer struct {
	h     fracmanager.VerifC07Ref
	state int // 0 not started, 1 running, 2 finished
	at    string
	park  chan struct{}
}

type Exec struct {
	in      *Input
	dir     string
	fm      *fracmanager.FracManager
	ev      chan event
	ws      []*writer
	rs      []*reader
	seals   map[int]*sealer
	nfr     int // fractions created so far
	shift   int // fractions suicided (shifted out of the list)
	wg      map[int]int
	rl      map[int]int
	subs    map[int]int
	mapping seq.Mapping
	hang    bool
	params  []processor.SearchParams
	counts  []string
	asts    []*parser.ASTNode
	// file layer (Input.Opts != nil): per fraction its list entry, base path, active and sealed objects
	noWait  bool // StepFetchDuringRelease: start the fetch, do not wait for it
	entries []frac.Fraction
	bases   []string
	actives []*frac.Active
	sealeds []*frac.Sealed
}

const nReaders = 3

func NewExec(in *Input) (*Exec, error) {
	dir, err := os.MkdirTemp("", "verif-c07-")
	if err != nil {
		return nil, err
	}
	e := &Exec{in: in, dir: dir, ev: make(chan event, 16), seals: map[int]*sealer{}, wg: map[int]int{},
		rl: map[int]int{}, subs: map[int]int{}, nfr: 1,
		mapping: seq.Mapping{"k": seq.NewSingleType(seq.TokenizerTypeKeyword, "", 0)}}
	verifhook.Set(func(name string) {
		if _, ok := hookCode[name]; !ok {
			return // a schedule point of another property (e.g. cache.*): not a step boundary of this model
		}
		c := make(chan struct{})
		e.ev <- event{hook: name, park: c}
		<-c
	})
	fm, err := fracbuild.NewFM(dir, func(c *fracmanager.Config) {
		if in.Opts != nil {
			c.Fraction.SkipSortDocs = in.Opts.SkipSortDocs
			c.Fraction.KeepMetaFile = in.Opts.KeepMetaFile
			c.SealParams.DocBlockSize = in.Opts.DocBlockSize
		}
	})
	if err != nil {
		return nil, err
	}
	e.fm = fm
	e.noteNewFraction()
	for range in.Bulks {
		e.ws = append(e.ws, &writer{})
	}
	for i := 0; i < nReaders; i++ {
		e.rs = append(e.rs, &reader{})
	}
	for _, q := range in.Queries {
		p, err := fracbuild.Query{Text: q.Text, Mapping: e.mapping, From: q.From, To: q.To, Limit: 100000}.Params()
		if err != nil {
			return nil, err
		}
		e.params = append(e.params, p)
		e.asts = append(e.asts, p.AST)
	}
	return e, nil
}

// Close finishes nothing by itself: the caller must have drained every thread (see Drain).
func (e *Exec) Close() {
	verifhook.Set(nil)
	for _, f := range e.fm.GetAllFracs() {
		f.Suicide()
	}
	e.fm.VerifC07StopWorkers()
	os.RemoveAll(e.dir)
}

func (e *Exec) wait() (event, bool) {
	select {
	case x := <-e.ev:
		return x, true
	case <-time.After(20 * time.Second):
		e.hang = true
		return event{}, false
	}
}

func tokName(t int) string { return string(rune('a' + t - 1)) }

// bodyOf: 70-130 bytes of hardly compressible filler whose length and content depend on n, so that with a small
// DocBlockSize every document is a block of its own, the (compressed) blocks have different lengths - block starts
// differ from fraction to fraction - and a read at a foreign block offset never yields the expected bytes
func bodyOf(n int) []byte {
	x := uint64(n)*0x9E3779B97F4A7C15 + 0x1234567
	k := 50 + int(x>>7)%60
	pad := make([]byte, k)
	for i := range pad {
		x = x*6364136223846793005 + 1442695040888963407
		pad[i] = "0123456789abcdefghijklmnopqrstuvwxyzABCDEFGHIJKLMNOPQRSTUVWXYZ-_"[x>>58]
	}
	return []byte(fmt.Sprintf(`{"n":%d,"p":"%s"}`, n, pad))
}

func bodyNum(b []byte) int {
	if len(b) == 0 {
		return -1
	}
	var n int
	if _, err := fmt.Sscanf(string(b), `{"n":%d,`, &n); err != nil || string(bodyOf(n)) != string(b) {
		return -2
	}
	return n
}

func encodeBulk(b []Doc) ([]byte, []byte) {
	dp := frac.NewDocProvider()
	for _, d := range b {
		toks := []seq.Token{{Field: []byte(seq.TokenAll), Val: []byte{}}}
		for _, t := range d.Toks {
			toks = append(toks, seq.Token{Field: []byte("k"), Val: []byte(tokName(t))})
		}
		dp.Append(bodyOf(d.Body), nil, seq.ID{MID: seq.MID(d.MID), RID: seq.RID(d.RID)}, toks)
	}
	docs, metas := dp.Provide()
	return append([]byte{}, docs...), append([]byte{}, metas...)
}

func hookObs(name string) Obs {
	c, ok := hookCode[name]
	if !ok {
		return Obs{K: "err", Msg: "unknown schedule point " + name}
	}
	return Obs{K: "hook", H: c}
}

// Enabled mirrors the blocking conditions of the real code (a disabled step would block its goroutine).
func (e *Exec) Enabled(l Label) bool {
	switch l.K {
	case "W":
		if l.T < 0 || l.T >= len(e.ws) {
			return false
		}
		w := e.ws[l.T]
		return w.state != 0 || w.cur < len(e.in.Bulks[l.T])
	case "Snap":
		return l.T >= 0 && l.T < len(e.rs) && !e.rs[l.T].inop
	case "SB", "FB":
		if l.T < 0 || l.T >= len(e.rs) {
			return false
		}
		r := e.rs[l.T]
		if l.K == "SB" && (l.Q < 0 || l.Q >= len(e.params)) {
			return false
		}
		return !r.inop && l.J >= 0 && l.J < len(r.snap)
	case "R":
		return l.T >= 0 && l.T < len(e.rs) && e.rs[l.T].inop
	case "Rot":
		return e.subs[e.nfr-1] > 0
	case "M":
		s := e.seals[l.T]
		if s == nil || s.state == 2 {
			return false
		}
		if s.state == 1 && s.at == "seal.readonly" {
			return e.wg[l.T] == 0
		}
		if s.state == 1 && s.at == "seal.swapped" {
			return e.rl[l.T] == 0
		}
		return true
	case "Sui":
		g := e.shift
		if e.nfr-e.shift < 2 || e.wg[g] != 0 || e.rl[g] != 0 {
			return false
		}
		if s := e.seals[g]; s != nil && s.state == 1 && (s.at == "seal.readonly" || s.at == "seal.idle" || s.at == "seal.built") {
			return false
		}
		return true
	}
	return false
}

// Step runs one label and, for schedules with options, attaches the file / descriptor state of every fraction.
func (e *Exec) Step(l Label) Obs {
	o := e.step0(l)
	if e.in.Opts != nil && !e.hang {
		o.Files = e.fileObs()
		o.Offs = e.offsObs()
	}
	return o
}

func (e *Exec) step0(l Label) Obs {
	if !e.Enabled(l) {
		return Obs{K: "disabled"}
	}
	switch l.K {
	case "W":
		return e.stepW(l.T)
	case "Snap":
		r := e.rs[l.T]
		r.snap = e.fm.GetAllFracs()
		r.snapG = r.snapG[:0]
		var sts []int
		for i, f := range r.snap {
			r.snapG = append(r.snapG, e.shift+i)
			a, s, ro, proxy := fracmanager.VerifC07State(f)
			switch {
			case !proxy:
				sts = append(sts, 2)
			case a && !s && !ro:
				sts = append(sts, 0)
			case a && !s && ro:
				sts = append(sts, 1)
			case !a && s && ro:
				sts = append(sts, 2)
			case !a && !s:
				sts = append(sts, 3)
			default:
				sts = append(sts, 9) // impossible state of the table in proxy_frac.go
			}
		}
		return Obs{K: "snap", Sts: sts}
	case "SB":
		r := e.rs[l.T]
		f, p := r.snap[l.J], e.params[l.Q]
		r.inop, r.g, r.holds, r.fetch, r.f = true, r.snapG[l.J], false, false, f
		tid := l.T + 1
		go func() {
			defer e.recoverOp()
			qpr, err := fracmanager.NewSearcher(1, fracmanager.SearcherCfg{}).SearchDocs(context.Background(), fracmanager.List{f}, p)
			e.ev <- event{done: true, res: qpr, err: err, tid: tid}
		}()
		return e.readerWait(r)
	case "FB":
		r := e.rs[l.T]
		f := r.snap[l.J]
		r.inop, r.g, r.holds, r.fetch = true, r.snapG[l.J], false, true
		src := make([]seq.IDSource, len(l.IDs))
		for i, id := range l.IDs {
			src[i] = seq.IDSource{ID: seq.ID{MID: seq.MID(id[0]), RID: seq.RID(id[1])}}
		}
		go func() {
			defer e.recoverOp()
			docs, err := fracmanager.NewFetcher(1).FetchDocs(context.Background(), fracmanager.List{f}, src)
			e.ev <- event{done: true, res: docs, err: err}
		}()
		if e.noWait {
			return Obs{}
		}
		return e.readerWait(r)
	case "R":
		r := e.rs[l.T]
		close(r.park)
		return e.readerWait(r)
	case "Rot":
		g := e.nfr - 1
		e.seals[g] = &sealer{h: e.fm.VerifC07Rotate()}
		e.nfr++
		e.noteNewFraction()
		return Obs{K: "unit"}
	case "M":
		s := e.seals[l.T]
		if s.state == 0 {
			s.state = 1
			h := s.h
			go func() {
				e.fm.VerifC07Seal(h)
				e.ev <- event{done: true}
			}()
		} else {
			close(s.park)
		}
		x, ok := e.wait()
		if !ok {
			return Obs{K: "err", Msg: "hang in seal"}
		}
		if x.done {
			s.state = 2
			return Obs{K: "done"}
		}
		s.at, s.park = x.hook, x.park
		return hookObs(x.hook)
	case "Sui":
		e.fm.VerifC07SuicideFirst()
		e.shift++
		return Obs{K: "unit"}
	}
	return Obs{K: "disabled"}
}

// recoverOp turns a panic in the calling request goroutine (outside the per-fraction recover of the
// store code) into an error observation instead of killing the driver.
func (e *Exec) recoverOp() {
	if p := recover(); p != nil {
		e.ev <- event{done: true, err: fmt.Errorf("panic in request goroutine: %v", p)}
	}
}

func (e *Exec) readerWait(r *reader) Obs {
	x, ok := e.wait()
	if !ok {
		return Obs{K: "err", Msg: "hang in reader"}
	}
	return e.readerObs(r, x)
}

// StepPair runs the next step of readers a and b (both parked at search.leaf of a search on the same active
// fraction) with an overlap forced inside TokenLIDs.GetLIDs: the MID table's lock is held by the driver, so a
// GetLIDs call that has queued LIDs to merge stalls at mids.GetVals() after it has detached the queue; the second
// reader is started while the first is stalled, then the lock is released. In the code as it is the first reader
// stalls INSIDE the merge mutex, the second waits for that mutex, and both answers are those of the two steps
// executed one after the other - which is what the model computes for the labels [R a; R b].
func (e *Exec) StepPair(a, b int) (Obs, Obs) {
	oa, ob := e.stepPair0(a, b)
	if e.in.Opts != nil && !e.hang { // reader steps do not touch files: both observations carry the same state
		oa.Files = e.fileObs()
		ob.Files = oa.Files
		oa.Offs = e.offsObs()
		ob.Offs = oa.Offs
	}
	return oa, ob
}

func (e *Exec) stepPair0(a, b int) (Obs, Obs) {
	ra, rb := e.rs[a], e.rs[b]
	ok := a != b && ra.inop && rb.inop && !ra.fetch && !rb.fetch && ra.at == 23 && rb.at == 23
	var active *frac.Active
	if ok {
		active = fracmanager.VerifC07Active(ra.f)
	}
	if active == nil {
		oa := e.step0(Label{K: "R", T: a})
		return oa, e.step0(Label{K: "R", T: b})
	}
	unlock := active.VerifC07LockIDs()
	short := func() (event, bool) {
		select {
		case x := <-e.ev:
			return x, true
		case <-time.After(40 * time.Millisecond):
			return event{}, false
		}
	}
	var oa, ob Obs
	pendA, pendB := false, false
	close(ra.park)
	if x, got := short(); got {
		oa = e.readerObs(ra, x)
	} else {
		pendA = true
	}
	close(rb.park)
	if x, got := short(); got {
		if x.done && x.tid == a+1 {
			oa, pendA = e.readerObs(ra, x), false
			pendB = true
		} else {
			ob = e.readerObs(rb, x)
		}
	} else {
		pendB = true
	}
	unlock()
	e.counts = append(e.counts, fmt.Sprintf("getlids-overlap:stalled=%v,%v", pendA, pendB))
	for pendA || pendB {
		x, got := e.wait()
		if !got {
			return Obs{K: "err", Msg: "hang in GetLIDs overlap"}, Obs{K: "err", Msg: "hang in GetLIDs overlap"}
		}
		switch {
		case x.done && x.tid == a+1 && pendA:
			oa, pendA = e.readerObs(ra, x), false
		case x.done && x.tid == b+1 && pendB:
			ob, pendB = e.readerObs(rb, x), false
		case pendA && !pendB:
			oa, pendA = e.readerObs(ra, x), false
		case pendB && !pendA:
			ob, pendB = e.readerObs(rb, x), false
		default: // a schedule point reached while both are outstanding cannot be attributed
			close(x.park)
			return Obs{K: "err", Msg: "GetLIDs overlap: ambiguous schedule point " + x.hook}, Obs{K: "err", Msg: "ambiguous"}
		}
	}
	return oa, ob
}

func (e *Exec) readerObs(r *reader, x event) Obs {
	if !x.done {
		r.at = hookCode[x.hook]
		if !r.holds {
			r.holds = true
			e.rl[r.g]++
		}
		r.park = x.park
		return hookObs(x.hook)
	}
	r.inop = false
	r.at = 0
	if r.holds {
		e.rl[r.g]--
		r.holds = false
	}
	if x.err != nil {
		return Obs{K: "err", Msg: x.err.Error()}
	}
	if r.fetch {
		docs := x.res.([][]byte)
		o := Obs{K: "fetch", Docs: []int{}}
		for _, d := range docs {
			o.Docs = append(o.Docs, bodyNum(d))
		}
		return o
	}
	qpr := x.res.(*seq.QPR)
	o := Obs{K: "res", IDs: [][2]uint64{}}
	for _, id := range qpr.IDs {
		o.IDs = append(o.IDs, [2]uint64{uint64(id.ID.MID), uint64(id.ID.RID)})
	}
	sort.Slice(o.IDs, func(i, j int) bool {
		if o.IDs[i][0] != o.IDs[j][0] {
			return o.IDs[i][0] < o.IDs[j][0]
		}
		return o.IDs[i][1] < o.IDs[j][1]
	})
	return o
}

func (e *Exec) stepW(t int) Obs {
	w := e.ws[t]
	switch w.state {
	case 0:
		docs, metas := encodeBulk(e.in.Bulks[t][w.cur])
		go func() {
			err := e.fm.Append(context.Background(), docs, metas)
			e.ev <- event{done: true, err: err}
		}()
		x, ok := e.wait()
		if !ok || x.done || x.hook != "proxy.append.start" {
			return Obs{K: "err", Msg: fmt.Sprintf("append did not reach its first schedule point: %+v", x)}
		}
		w.state, w.park, w.picked = 1, x.park, e.nfr-1
		return hookObs(x.hook)
	case 1:
		close(w.park)
		x, ok := e.wait()
		if !ok {
			return Obs{K: "err", Msg: "hang in append"}
		}
		if !x.done && x.hook == "proxy.append.start" { // refused by a read-only fraction, retried on the current writer
			w.park, w.picked = x.park, e.nfr-1
			return hookObs(x.hook)
		}
		y, ok := e.wait()
		if !ok {
			return Obs{K: "err", Msg: "hang in append (index task not picked up)"}
		}
		if y.done {
			x, y = y, x
		}
		if !x.done || x.err != nil || y.done || y.hook != "append.start" {
			return Obs{K: "err", Msg: fmt.Sprintf("append: unexpected events %+v %+v", x, y)}
		}
		w.state, w.park, w.g = 2, y.park, w.picked
		e.wg[w.g]++
		e.subs[w.g]++
		return hookObs(y.hook)
	default:
		close(w.park)
		x, ok := e.wait()
		if !ok || x.done {
			return Obs{K: "err", Msg: "hang in index worker"}
		}
		w.at = hookCode[x.hook]
		if x.hook == "append.done" {
			close(x.park)
			w.state = 0
			w.cur++
			e.wg[w.g]--
		} else {
			w.park = x.park
		}
		return hookObs(x.hook)
	}
}

// Candidates lists the labels (without reader-begin operations) that are enabled now.
func (e *Exec) Idle() bool {
	for t, w := range e.ws {
		if w.state != 0 || w.cur < len(e.in.Bulks[t]) {
			return false
		}
	}
	for _, r := range e.rs {
		if r.inop {
			return false
		}
	}
	for _, s := range e.seals {
		if s.state != 2 {
			return false
		}
	}
	return true
}

// StepFetchDuringRelease runs the fetch l (an idle reader, a list entry of fraction g that is served by the SEALED
// provider) and the release step of fraction g's seal thread (parked at seal.swapped, no reader lock held: the step is
// Active.Release) TRULY concurrently: the fetch goroutine is started, then the seal thread is resumed, then both are
// awaited. In the code as it is both orders give the same two observations - those of the labels [FB; M g] executed
// one after the other, which is what the model computes (C07_release_closes_only_unshared: the release touches nothing
// the sealed provider reads). Falls back to the two sequential steps when the situation is not the one described.
func (e *Exec) StepFetchDuringRelease(l Label, g int) (Obs, Obs) {
	m := Label{K: "M", T: g}
	s := e.seals[g]
	ok := l.K == "FB" && e.Enabled(l) && s != nil && s.state == 1 && s.at == "seal.swapped" && e.rl[g] == 0 &&
		e.rs[l.T].snapG[l.J] == g
	if !ok {
		oa := e.Step(l)
		return oa, e.Step(m)
	}
	var before []int
	if e.in.Opts != nil {
		before = e.fileObs()
	}
	r := e.rs[l.T]
	e.noWait = true
	e.step0(l)
	e.noWait = false
	close(s.park)
	var of, om Obs
	gotF, gotM := false, false
	for !gotF || !gotM {
		x, got := e.wait()
		switch {
		case !got:
			return Obs{K: "err", Msg: "hang in fetch overlapping release"}, Obs{K: "err", Msg: "hang in fetch overlapping release"}
		case x.done && !gotF:
			of, gotF = e.readerObs(r, x), true
		case !x.done && !gotM && (x.hook == "seal.released"):
			s.at, s.park = x.hook, x.park
			om, gotM = hookObs(x.hook), true
		default: // the fetch reached a schedule point of an active provider, or the seal finished: not attributable
			if !x.done {
				close(x.park)
			}
			return Obs{K: "err", Msg: "fetch overlapping release: unexpected event " + x.hook}, Obs{K: "err", Msg: "unexpected"}
		}
	}
	e.counts = append(e.counts, "gadget:fetch-overlaps-release")
	if e.in.Opts != nil && !e.hang {
		of.Files = before // a fetch does not touch files: the state the model has after [FB]
		om.Files = e.fileObs()
		om.Offs = e.offsObs()
		of.Offs = om.Offs // neither step builds a sealed fraction
	}
	return of, om
}

// ---------------------------------------------------------------- file / descriptor layer

// noteNewFraction records the list entry, base path and active object of the fraction that has just been created
// (the last entry of the list).
func (e *Exec) noteNewFraction() {
	all := e.fm.GetAllFracs()
	f := all[len(all)-1]
	e.entries = append(e.entries, f)
	e.bases = append(e.bases, f.Info().Path)
	e.actives = append(e.actives, fracmanager.VerifC07Active(f))
	e.sealeds = append(e.sealeds, nil)
}

var fileSuffixes = []string{consts.DocsFileSuffix, consts.MetaFileSuffix, consts.SdocsFileSuffix, consts.IndexFileSuffix}

// fileObs observes the REAL state: which of the fraction's files this process holds a descriptor on
// (/proc/self/fd), which files exist (stat), and which document descriptor the sealed fraction installed in the
// proxy reads from.
func (e *Exec) fileObs() []int {
	open := map[string]bool{}
	if ents, err := os.ReadDir("/proc/self/fd"); err == nil {
		for _, de := range ents {
			t, err := os.Readlink("/proc/self/fd/" + de.Name())
			if err != nil {
				continue
			}
			// a descriptor keeps its file: Sealed.Suicide renames <file> to <file>.del before it removes it
			open[strings.TrimSuffix(strings.TrimSuffix(t, " (deleted)"), ".del")] = true
		}
	}
	out := make([]int, 0, len(e.bases))
	for g, base := range e.bases {
		m := 0
		for k, suf := range fileSuffixes {
			if open[base+suf] {
				m |= 1 << k
			}
			if _, err := os.Stat(base + suf); err == nil {
				m |= 16 << k
			}
		}
		if e.sealeds[g] == nil {
			e.sealeds[g] = fracmanager.VerifC07Sealed(e.entries[g])
		}
		if s := e.sealeds[g]; s != nil {
			switch src := s.VerifC07DocsSource(e.actives[g]); {
			case src == "active":
				m |= 256
			case strings.HasSuffix(src, consts.SdocsFileSuffix):
				m |= 512
			default:
				m |= 768 // neither the active fraction's descriptor nor the sorted copy
			}
		}
		out = append(out, m)
	}
	return out
}

// offsObs copies Sealed.BlocksOffsets of every installed sealed fraction (fileObs has captured the objects).
func (e *Exec) offsObs() [][]uint64 {
	out := make([][]uint64, len(e.sealeds))
	for g, s := range e.sealeds {
		if s != nil {
			out[g] = append([]uint64{}, s.BlocksOffsets...)
		}
	}
	return out
}
