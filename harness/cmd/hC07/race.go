package main

// Race search (a TEST, not part of the proof): two index workers finish bulks of the same fraction together. Both
// are parked at the schedule point before Active.UpdateStats, released at the same instant, and run UpdateStats
// for real in parallel. After every round (a quiescent point: indexWg.Wait returned) the published borders must
// cover every acknowledged document; periodically every acknowledged document must be found by a full-range search
// and by fetch. The atomic step is what the theorem C07_reader_safe_range_only_widens is about; this run looks for
// an implementation whose UpdateStats is not atomic (check-then-act on From/To).

import (
	"context"
	"fmt"
	"os"
	"sync/atomic"
	"time"

	"github.com/ozontech/seq-db/fracmanager"
	"github.com/ozontech/seq-db/seq"
	"github.com/ozontech/seq-db/verifhook"

	"verif/harness/internal/fracbuild"
	"verif/harness/internal/rng"
)

type RaceResult struct {
	Rounds     int               `json:"rounds"`
	Docs       int               `json:"docs"`
	Violations []StressViolation `json:"violations"`
}

func runRaceStats(seed uint64, rounds int) *RaceResult {
	res := &RaceResult{}
	viol := func(kind, what, detail string) {
		if len(res.Violations) < 5 {
			res.Violations = append(res.Violations, StressViolation{kind, what, detail})
		}
	}
	dir, _ := os.MkdirTemp("", "verif-c07r-")
	defer os.RemoveAll(dir)
	fm, err := fracbuild.NewFM(dir, nil)
	if err != nil {
		panic(err)
	}
	hits := make(chan struct{}, 8)
	var gate atomic.Pointer[atomic.Bool]
	verifhook.Set(func(name string) {
		if name != "append.after-queue" {
			return
		}
		g := gate.Load()
		hits <- struct{}{}
		for !g.Load() { // spin: both workers are on a CPU when the gate opens
		}
	})
	defer verifhook.Set(nil)
	r := rng.New(seed)
	mapping := seq.Mapping{"k": seq.NewSingleType(seq.TokenizerTypeKeyword, "", 0)}
	const base = 1 << 30
	minMID, maxMID := uint64(base), uint64(base)
	next := 1
	var all []seq.ID
	bodies := map[[2]uint64]int{}
	mk := func(mid uint64) Doc {
		d := Doc{MID: mid, RID: uint64(next), Toks: []int{1 + next%3}, Body: next}
		next++
		all = append(all, seq.ID{MID: seq.MID(d.MID), RID: seq.RID(d.RID)})
		bodies[[2]uint64{d.MID, d.RID}] = d.Body
		return d
	}
	sweep := func(round int) {
		qpr, err := fracbuild.Search(fm.GetAllFracs(), fracbuild.Query{Text: "k:a or k:b or k:c or not k:a", Mapping: mapping, From: 0, To: 1 << 40, Limit: 1 << 30}, 0)
		if err != nil {
			viol("race-search-error", "full-range search failed", err.Error())
			return
		}
		if len(qpr.IDs) != len(all) {
			viol("stats-borders-lost", "acknowledged documents are missing from a full-range search after two index workers finished bulks of one fraction together",
				fmt.Sprintf("round %d: %d acknowledged, %d found", round, len(all), len(qpr.IDs)))
		}
		docs, err := fracbuild.Fetch(fm.GetAllFracs(), all)
		if err != nil {
			viol("race-fetch-error", "fetch failed", err.Error())
			return
		}
		for i, b := range docs {
			if bodyNum(b) != bodies[[2]uint64{uint64(all[i].MID), uint64(all[i].RID)}] {
				viol("stats-borders-lost", "an acknowledged document cannot be fetched (its MID is outside the published borders)",
					fmt.Sprintf("round %d: %v -> %q", round, all[i], b))
				return
			}
		}
	}
	for k := 1; k <= rounds && len(res.Violations) == 0; k++ {
		lo := minMID - uint64(r.Range(1, 3))
		hi := maxMID + uint64(r.Range(1, 3))
		bulks := [][]Doc{{mk(lo)}, {mk(hi)}}
		if r.Bool() {
			bulks[0] = append(bulks[0], mk(lo+1))
			bulks[1] = append(bulks[1], mk(hi-1))
		}
		if r.Bool() {
			bulks[0], bulks[1] = bulks[1], bulks[0]
		}
		g := &atomic.Bool{}
		gate.Store(g)
		errs := make(chan error, 2)
		for _, b := range bulks {
			docs, metas := encodeBulk(b)
			go func() { errs <- fm.Append(context.Background(), docs, metas) }()
		}
		ok := true
		for i := 0; i < 2; i++ {
			select {
			case <-hits:
			case <-time.After(20 * time.Second):
				viol("hang", "an index worker did not reach append.after-queue", fmt.Sprint("round ", k))
				ok = false
			}
		}
		for i := 0; i < 2 && ok; i++ {
			if err := <-errs; err != nil {
				viol("append-error", "FracManager.Append returned an error", err.Error())
			}
		}
		time.Sleep(20 * time.Microsecond)
		g.Store(true) // both workers run UpdateStats now
		if !ok {
			break
		}
		fm.WaitIdle()
		minMID, maxMID = lo, hi
		info := fm.Active().Info()
		if uint64(info.From) > minMID || uint64(info.To) < maxMID {
			viol("stats-borders-lost", "after two index workers finished bulks of one fraction together the published borders do not cover every acknowledged document",
				fmt.Sprintf("round %d: acknowledged MIDs [%d;%d], published [From;To] = [%d;%d]", k, minMID, maxMID, uint64(info.From), uint64(info.To)))
			sweep(k)
		}
		if int(info.DocsTotal) != len(all) {
			viol("stats-total-lost", "DocsTotal differs from the number of acknowledged documents", fmt.Sprintf("round %d: %d vs %d", k, info.DocsTotal, len(all)))
		}
		if k%100 == 0 {
			sweep(k)
		}
		res.Rounds = k
	}
	if len(res.Violations) == 0 {
		sweep(rounds)
	}
	res.Docs = len(all)
	for _, f := range fm.GetAllFracs() {
		f.Suicide()
	}
	fm.VerifC07StopWorkers()
	_ = fracmanager.List{}
	return res
}
