package main

import (
	"encoding/json"
	"fmt"
)

// Hand-written schedules: the witnesses of the model's Examples (Props.v) replayed on the real code.

func rep(l Label, n int) []Label {
	out := make([]Label, n)
	for i := range out {
		out[i] = l
	}
	return out
}

func cat(ls ...[]Label) []Label {
	var out []Label
	for _, l := range ls {
		out = append(out, l...)
	}
	return out
}

var stdQueries = []Query{
	{Text: "k:a", From: 0, To: 1000},
	{Text: "k:b", From: 0, To: 1000},
	{Text: "k:a and k:b", From: 0, To: 1000},
	{Text: "k:a or k:c", From: 0, To: 1000},
	{Text: "not k:b", From: 0, To: 1000},
	{Text: "k:a and not k:b", From: 0, To: 1000},
	{Text: "k:a or k:b or k:c or not k:a", From: 0, To: 1000}, // everything
	{Text: "k:b", From: 15, To: 30},
	{Text: "not k:c", From: 5, To: 20},
}

const qAll = 6

func probeNames() []string {
	return []string{"seq", "neg-midbulk", "fetch-stale-blocks", "handover", "retry-append", "range-clamp", "suicided-proxy", "getlids-overlap",
		"handover-files", "handover-skipsort", "handover-keepmeta", "handover-skipsort-keepmeta",
		"suicide-at-swap-files", "suicide-at-swap-skipsort", "suicide-unsealed-files", "suicide-unsealed-skipsort",
		"seal-pool-3", "seal-pool-3-skipsort"}
}

// handoverFiles is the witness schedule of Props.C07_release_misplaced_close_v0_refuted, longer: write, search on the
// active fraction, rotate, seal up to the swap, search + fetch through the sealed provider BEFORE the release, release,
// fetch again through a fresh list and through the older list (proxy entry), finish the seal, fetch through the plain
// sealed entry, second bulk, second rotation + complete seal, fetch from both fractions, retention removes fraction 0.
func handoverFiles(o Opts) *Input {
	w := Label{K: "W", T: 0}
	d1 := Doc{MID: 10, RID: 1, Toks: []int{1}, Body: 1}
	d2 := Doc{MID: 10, RID: 2, Toks: []int{2}, Body: 2}
	d3 := Doc{MID: 40, RID: 3, Toks: []int{1, 2}, Body: 3}
	ids := [][2]uint64{{10, 1}, {40, 3}}
	return &Input{Opts: &o, Bulks: [][][]Doc{{{d1, d3}, {d2}}}, Queries: stdQueries, Labels: cat(rep(w, 12),
		[]Label{{K: "Snap", T: 0}, {K: "SB", T: 0, J: 0, Q: 0}}, rep(Label{K: "R", T: 0}, 4),
		[]Label{{K: "Rot"}}, rep(Label{K: "M", T: 0}, 4),
		[]Label{{K: "Snap", T: 1}, {K: "SB", T: 1, J: 0, Q: qAll}, {K: "FB", T: 1, J: 0, IDs: ids}},
		[]Label{{K: "FB", T: 1, J: 0, IDs: ids, P: 2}, {K: "M", T: 0}}, // a fetch truly concurrent with Active.Release
		[]Label{{K: "FB", T: 1, J: 0, IDs: ids}, {K: "FB", T: 0, J: 0, IDs: ids}, {K: "SB", T: 0, J: 0, Q: qAll}},
		rep(Label{K: "M", T: 0}, 2),
		[]Label{{K: "Snap", T: 2}, {K: "FB", T: 2, J: 0, IDs: ids}, {K: "SB", T: 2, J: 0, Q: 0}},
		rep(w, 11), []Label{{K: "Rot"}}, rep(Label{K: "M", T: 1}, 7),
		[]Label{{K: "Snap", T: 0}, {K: "FB", T: 0, J: 0, IDs: ids}, {K: "FB", T: 0, J: 1, IDs: [][2]uint64{{10, 2}}}, {K: "SB", T: 0, J: 1, Q: qAll},
			{K: "Sui"}, {K: "FB", T: 0, J: 0, IDs: ids}, {K: "FB", T: 0, J: 1, IDs: [][2]uint64{{10, 2}}}, {K: "FB", T: 1, J: 0, IDs: ids}})}
}

// sealPool3: three fractions with 3, 2 and 2 documents - every document a block of sorted docs of its own
// (DocBlockSize 64) - are sealed one after the other in one process; after EVERY seal every document of every sealed
// fraction is fetched (witness of Props.C07_sealed_offsets_noclone_v0_refuted: the second seal reuses the pooled
// docBlocksWriter of the first)
func sealPool3(o Opts) *Input {
	w := Label{K: "W", T: 0}
	o.DocBlockSize = 64
	mk := func(mid, rid uint64) Doc { return Doc{MID: mid, RID: rid, Toks: []int{1}, Body: int(rid)} }
	bulks := [][]Doc{{mk(10, 1), mk(20, 2), mk(30, 3)}, {mk(10, 4), mk(20, 5)}, {mk(30, 6), mk(40, 7)}}
	ids := func(b []Doc) [][2]uint64 {
		var out [][2]uint64
		for _, d := range b {
			out = append(out, [2]uint64{d.MID, d.RID})
		}
		return out
	}
	var ls []Label
	for k := range bulks {
		ls = cat(ls, rep(w, 11), []Label{{K: "Rot"}}, rep(Label{K: "M", T: k}, 7), []Label{{K: "Snap", T: 0}})
		for j := 0; j <= k; j++ {
			ls = append(ls, Label{K: "FB", T: 0, J: j, IDs: ids(bulks[j])}, Label{K: "SB", T: 0, J: j, Q: qAll})
		}
	}
	return &Input{Opts: &o, Bulks: [][][]Doc{bulks}, Queries: stdQueries, Labels: ls}
}

// suicideAtSwap: retention deletes the fraction while its seal thread is parked between the swap and Active.Release
// (Sealed.Suicide closes the sealed fraction's descriptors first, Active.Release runs afterwards)
func suicideAtSwap(o Opts) *Input {
	w := Label{K: "W", T: 0}
	d1 := Doc{MID: 10, RID: 1, Toks: []int{1}, Body: 1}
	ids := [][2]uint64{{10, 1}}
	return &Input{Opts: &o, Bulks: [][][]Doc{{{d1}}}, Queries: stdQueries, Labels: cat(rep(w, 11),
		[]Label{{K: "Rot"}}, rep(Label{K: "M", T: 0}, 4),
		[]Label{{K: "Snap", T: 0}, {K: "FB", T: 0, J: 0, IDs: ids}, {K: "Sui"}, {K: "FB", T: 0, J: 0, IDs: ids}},
		rep(Label{K: "M", T: 0}, 3), []Label{{K: "Snap", T: 1}, {K: "SB", T: 0, J: 0, Q: qAll}})}
}

// suicideUnsealed: retention deletes a rotated-out fraction whose seal has not started (Active.Suicide, not released)
func suicideUnsealed(o Opts) *Input {
	w := Label{K: "W", T: 0}
	d1 := Doc{MID: 10, RID: 1, Toks: []int{1}, Body: 1}
	return &Input{Opts: &o, Bulks: [][][]Doc{{{d1}}}, Queries: stdQueries, Labels: cat(rep(w, 11),
		[]Label{{K: "Rot"}, {K: "Snap", T: 0}, {K: "Sui"}, {K: "FB", T: 0, J: 0, IDs: [][2]uint64{{10, 1}}}, {K: "M", T: 0}, {K: "Snap", T: 1}})}
}

func probeInput(name string) *Input {
	w := Label{K: "W", T: 0}
	d1 := Doc{MID: 10, RID: 1, Toks: []int{1}, Body: 1}
	d2 := Doc{MID: 10, RID: 2, Toks: []int{2}, Body: 2}
	d3 := Doc{MID: 40, RID: 3, Toks: []int{1, 2}, Body: 3}
	switch name {
	case "handover-files":
		return handoverFiles(Opts{})
	case "handover-skipsort":
		return handoverFiles(Opts{SkipSortDocs: true})
	case "handover-keepmeta":
		return handoverFiles(Opts{KeepMetaFile: true})
	case "handover-skipsort-keepmeta":
		return handoverFiles(Opts{SkipSortDocs: true, KeepMetaFile: true})
	case "seal-pool-3":
		return sealPool3(Opts{})
	case "seal-pool-3-skipsort":
		return sealPool3(Opts{SkipSortDocs: true})
	case "suicide-at-swap-files":
		return suicideAtSwap(Opts{})
	case "suicide-at-swap-skipsort":
		return suicideAtSwap(Opts{SkipSortDocs: true})
	case "suicide-unsealed-files":
		return suicideUnsealed(Opts{KeepMetaFile: true})
	case "suicide-unsealed-skipsort":
		return suicideUnsealed(Opts{SkipSortDocs: true})
	case "seq": // one bulk, then search and fetch
		return &Input{Bulks: [][][]Doc{{{d1, d3}}}, Queries: stdQueries, Labels: cat(rep(w, 12),
			[]Label{{K: "Snap", T: 0}, {K: "SB", T: 0, J: 0, Q: 0}}, rep(Label{K: "R", T: 0}, 4),
			[]Label{{K: "FB", T: 0, J: 0, IDs: [][2]uint64{{40, 3}, {10, 1}, {7, 7}}}, {K: "R", T: 0}})}
	case "neg-midbulk":
		// the second bulk's document (token b) is already in the `_all_` posting but not yet in b's
		// posting when the reader evaluates `not k:b`
		return &Input{Bulks: [][][]Doc{{{d1}, {d2}}}, Queries: stdQueries, Labels: cat(rep(w, 11), rep(w, 8),
			[]Label{{K: "Snap", T: 0}, {K: "SB", T: 0, J: 0, Q: 4}}, rep(Label{K: "R", T: 0}, 4))}
	case "fetch-stale-blocks":
		// the fetch's data provider snapshots the block table, then the writer registers a new block and
		// the position of its document, then the fetch looks the position up
		return &Input{Bulks: [][][]Doc{{{d1}, {d2}}}, Queries: stdQueries, Labels: cat(rep(w, 11),
			[]Label{{K: "Snap", T: 0}, {K: "FB", T: 0, J: 0, IDs: [][2]uint64{{10, 2}, {10, 1}}}}, rep(w, 4),
			[]Label{{K: "R", T: 0}})}
	case "handover":
		// reader snapshots the list, rotation + seal run while its search is in flight, then it fetches
		return &Input{Bulks: [][][]Doc{{{d1, d3}, {d2}}}, Queries: stdQueries, Labels: cat(rep(w, 12),
			[]Label{{K: "Snap", T: 0}, {K: "SB", T: 0, J: 0, Q: 0}, {K: "Rot"}, {K: "M", T: 0}, {K: "M", T: 0}, {K: "M", T: 0}, {K: "M", T: 0}},
			rep(w, 11),
			[]Label{{K: "Snap", T: 1}, {K: "SB", T: 1, J: 0, Q: 0}, {K: "SB", T: 1, J: 1, Q: 1}},
			rep(Label{K: "R", T: 1}, 4),
			rep(Label{K: "R", T: 0}, 4), rep(Label{K: "M", T: 0}, 3),
			[]Label{{K: "FB", T: 0, J: 0, IDs: [][2]uint64{{10, 1}, {40, 3}}}, {K: "Snap", T: 2}, {K: "SB", T: 2, J: 0, Q: qAll}, {K: "SB", T: 2, J: 1, Q: qAll}})}
	case "retry-append":
		// writer picks the fraction, rotation + seal make it read-only, the append is refused and retried
		return &Input{Bulks: [][][]Doc{{{d1}}, {{d3}}}, Queries: stdQueries, Labels: cat(rep(w, 11),
			[]Label{{K: "W", T: 1}, {K: "Rot"}, {K: "M", T: 0}, {K: "W", T: 1}, {K: "W", T: 1}},
			rep(Label{K: "M", T: 0}, 6), rep(Label{K: "W", T: 1}, 12),
			[]Label{{K: "Snap", T: 0}, {K: "SB", T: 0, J: 0, Q: qAll}, {K: "SB", T: 0, J: 1, Q: qAll}})}
	case "range-clamp":
		// new MID range not yet published: the search must not return the document (it could not be fetched)
		return &Input{Bulks: [][][]Doc{{{d1}, {d3}}}, Queries: stdQueries, Labels: cat(rep(w, 11), rep(w, 10),
			[]Label{{K: "Snap", T: 0}, {K: "SB", T: 0, J: 0, Q: 0}}, rep(Label{K: "R", T: 0}, 4),
			[]Label{{K: "FB", T: 0, J: 0, IDs: [][2]uint64{{40, 3}}}, {K: "R", T: 0}})}
	case "getlids-overlap":
		// two readers of the same token overlap inside TokenLIDs.GetLIDs while the writer's LIDs are still queued
		// (no writer mid-bulk): both must see every acknowledged document
		return &Input{Bulks: [][][]Doc{{{d1, d3}}}, Queries: stdQueries, Labels: cat(rep(w, 12),
			[]Label{{K: "Snap", T: 0}, {K: "SB", T: 0, J: 0, Q: 0}}, rep(Label{K: "R", T: 0}, 3),
			[]Label{{K: "Snap", T: 1}, {K: "SB", T: 1, J: 0, Q: 0}}, rep(Label{K: "R", T: 1}, 3),
			[]Label{{K: "R", T: 0, P: 1}, {K: "R", T: 1}})}
	case "suicided-proxy":
		// a reader still holds the proxy of a fraction that retention deletes before it was sealed
		return &Input{Bulks: [][][]Doc{{{d1}}}, Queries: stdQueries, Labels: cat(rep(w, 11),
			[]Label{{K: "Rot"}, {K: "Snap", T: 0}, {K: "Sui"}, {K: "SB", T: 0, J: 0, Q: 0}, {K: "FB", T: 0, J: 0, IDs: [][2]uint64{{10, 1}}},
				{K: "M", T: 0}, {K: "Snap", T: 1}})}
	}
	panic("unknown probe " + name)
}

func runProbe(name string) {
	res := runInput(probeInput(name), "fixed-"+name)
	for i, l := range res.Input.Labels {
		lb, _ := json.Marshal(l)
		ob, _ := json.Marshal(res.Obs[i])
		fmt.Printf("%3d %-40s %s\n", i, lb, ob)
	}
	fmt.Println("class:", res.Class, "viol:", res.Viol)
	fmt.Println(res.Coq)
}
