package main

// Free-running stress (supporting TEST, not part of the proof): real goroutines, the real maintenance
// loop with a tiny fraction size (many rotations + seals during the run), per-request assertions in
// the readers and the final quiescent comparison. No schedule-point handler is installed.

import (
	"context"
	"fmt"
	"os"
	"sync"
	"sync/atomic"
	"time"

	"github.com/ozontech/seq-db/fracmanager"
	"github.com/ozontech/seq-db/seq"

	"verif/harness/internal/fracbuild"
	"verif/harness/internal/rng"
)

type StressViolation struct {
	Kind   string `json:"kind"`
	What   string `json:"what"`
	Detail string `json:"detail"`
}

type StressResult struct {
	Requests   int               `json:"requests"`
	Rotations  int               `json:"rotations"`
	Docs       int               `json:"docs"`
	Violations []StressViolation `json:"violations"`
}

func runStress(seed uint64, ms int, opts Opts) *StressResult {
	res := &StressResult{}
	var mu sync.Mutex
	viol := func(kind, what, detail string) {
		mu.Lock()
		defer mu.Unlock()
		if len(res.Violations) < 10 {
			res.Violations = append(res.Violations, StressViolation{kind, what, detail})
		}
	}
	dir, _ := os.MkdirTemp("", "verif-c07s-")
	defer os.RemoveAll(dir)
	fm, err := fracbuild.NewFM(dir, func(c *fracmanager.Config) {
		c.FracSize = 600
		c.MaintenanceDelay = 3 * time.Millisecond
		c.Fraction.SkipSortDocs = opts.SkipSortDocs
		c.Fraction.KeepMetaFile = opts.KeepMetaFile
	})
	if err != nil {
		panic(err)
	}
	fm.Start()
	mapping := seq.Mapping{"k": seq.NewSingleType(seq.TokenizerTypeKeyword, "", 0)}
	type sdoc struct {
		toks map[int]bool
		body int
	}
	var submitted, acked sync.Map // id -> sdoc
	var nextDoc atomic.Int64
	var requests atomic.Int64
	stop := make(chan struct{})
	var wgW, wgR sync.WaitGroup
	for w := 0; w < 3; w++ {
		wgW.Add(1)
		go func(r *rng.R) {
			defer wgW.Done()
			for {
				select {
				case <-stop:
					return
				default:
				}
				var bulk []Doc
				for d := r.Range(1, 4); d > 0; d-- {
					n := int(nextDoc.Add(1))
					var toks []int
					tm := map[int]bool{}
					for t := 1; t <= 3; t++ {
						if r.Chance(2, 5) {
							toks = append(toks, t)
							tm[t] = true
						}
					}
					doc := Doc{MID: uint64(1000 + n/7), RID: uint64(n), Toks: toks, Body: n}
					bulk = append(bulk, doc)
					submitted.Store([2]uint64{doc.MID, doc.RID}, sdoc{tm, n})
				}
				docs, metas := encodeBulk(bulk)
				if err := fm.Append(context.Background(), docs, metas); err != nil {
					viol("append-error", "FracManager.Append returned an error", err.Error())
					return
				}
				requests.Add(1)
				time.Sleep(time.Duration(r.Intn(300)) * time.Microsecond)
			}
		}(rng.New(seed + uint64(w)))
	}
	positive := []struct {
		text string
		ok   func(map[int]bool) bool
	}{
		{"k:a", func(t map[int]bool) bool { return t[1] }},
		{"k:a and k:b", func(t map[int]bool) bool { return t[1] && t[2] }},
		{"k:a or k:c", func(t map[int]bool) bool { return t[1] || t[3] }},
		{"k:b", func(t map[int]bool) bool { return t[2] }},
	}
	for rd := 0; rd < 3; rd++ {
		wgR.Add(1)
		go func(r *rng.R) {
			defer wgR.Done()
			for {
				select {
				case <-stop:
					return
				default:
				}
				q := positive[r.Intn(len(positive))]
				qpr, err := fracbuild.Search(fm.GetAllFracs(), fracbuild.Query{Text: q.text, Mapping: mapping, From: 0, To: 1 << 40, Limit: 50}, 0)
				requests.Add(1)
				if err != nil {
					viol("search-error", "search returned an error", err.Error())
					continue
				}
				var ids []seq.ID
				for _, s := range qpr.IDs {
					id := [2]uint64{uint64(s.ID.MID), uint64(s.ID.RID)}
					v, ok := submitted.Load(id)
					if !ok {
						viol("search-unknown-id", "search returned an ID that was never submitted", fmt.Sprint(id))
						continue
					}
					if !q.ok(v.(sdoc).toks) {
						viol("search-unsatisfied", "search returned a document that does not satisfy the query "+q.text, fmt.Sprint(id))
					}
					ids = append(ids, s.ID)
				}
				if len(ids) == 0 {
					continue
				}
				docs, err := fracbuild.Fetch(fm.GetAllFracs(), ids)
				requests.Add(1)
				if err != nil {
					viol("fetch-error", "fetch of IDs a search just returned failed", err.Error())
					continue
				}
				for i, b := range docs {
					v, _ := submitted.Load([2]uint64{uint64(ids[i].MID), uint64(ids[i].RID)})
					if bodyNum(b) != v.(sdoc).body {
						viol("fetch-wrong-bytes", "fetch of an ID a search just returned gave other bytes", fmt.Sprintf("%v: %q", ids[i], b))
					}
				}
			}
		}(rng.New(seed + 100 + uint64(rd)))
	}
	_ = &acked
	time.Sleep(time.Duration(ms) * time.Millisecond)
	close(stop)
	wgW.Wait()
	wgR.Wait()
	fm.WaitIdle()
	time.Sleep(30 * time.Millisecond)
	// quiescent comparison: every submitted (= acknowledged, all appends returned) document is found and fetched
	qpr, err := fracbuild.Search(fm.GetAllFracs(), fracbuild.Query{Text: "k:a or k:b or k:c or not k:a", Mapping: mapping, From: 0, To: 1 << 40, Limit: 1 << 30}, 0)
	if err != nil {
		viol("search-error", "final search failed", err.Error())
	} else {
		found := map[[2]uint64]bool{}
		for _, s := range qpr.IDs {
			found[[2]uint64{uint64(s.ID.MID), uint64(s.ID.RID)}] = true
		}
		n := 0
		submitted.Range(func(k, v any) bool {
			n++
			if !found[k.([2]uint64)] {
				viol("quiescent-missing", "an acknowledged document is not visible once the writers are idle", fmt.Sprint(k))
			}
			return true
		})
		if len(found) != n {
			viol("quiescent-extra", "the final search returned documents that were not submitted", fmt.Sprintf("%d found, %d submitted", len(found), n))
		}
		res.Docs = n
	}
	res.Rotations = len(fm.GetAllFracs()) - 1
	fm.Stop()
	res.Requests = int(requests.Load())
	return res
}
