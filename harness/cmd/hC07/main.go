// hC07 — correspondence driver of property C07 (concurrent ingest / search / fetch / seal / rotate).
//
// Schedule replay: a schedule is a list of labels (which logical thread makes its next step). The
// executor (exec.go) runs it on the REAL FracManager / proxyFrac / Active / index workers, parking
// every goroutine at verifhook schedule points, and records one observation per label (the schedule
// point reached, or the result of the finished search / fetch). The Coq model (props/C07/coq/Model.v)
// runs the same labels; CaseDefs.v compares observation lists and evaluates the spec checker on the
// implementation's observations.
//
// Because the schedule hook is process-global, schedules run one at a time per process; the parent
// starts several worker processes (-worker) and collects their cases.
package main

import (
	"bufio"
	"encoding/json"
	"flag"
	"fmt"
	"os"
	"os/exec"
	"runtime"
	"strconv"
	"strings"
	"sync"

	"go.uber.org/zap/zapcore"

	"github.com/ozontech/seq-db/logger"

	"verif/harness/internal/casefile"
	"verif/harness/internal/rng"
)

type Result struct {
	Coq        string   `json:"coq"`
	Class      string   `json:"class"`
	Nontrivial bool     `json:"nontrivial"`
	Input      *Input   `json:"input"`
	Obs        []Obs    `json:"obs"`
	Viol       string   `json:"viol,omitempty"`
	ViolWhat   string   `json:"viol_what,omitempty"`
	Counts     []string `json:"counts,omitempty"`
}

func main() {
	seed := flag.Uint64("seed", 1, "seed")
	tier := flag.String("tier", "quick", "quick|thorough")
	out := flag.String("out", "", "output directory")
	replay := flag.String("replay", "", "replay file written by the check")
	worker := flag.Bool("worker", false, "internal: run schedules, print one JSON result per line")
	n := flag.Int("n", 0, "internal: number of schedules of this worker")
	probe := flag.String("probe", "", "run a named hand-written schedule and print the observations")
	probeJSON := flag.String("probe-json", "", "internal: run a named hand-written schedule, print its result as JSON")
	stress := flag.Int("stress", 0, "internal: free-running stress for N milliseconds, print result JSON")
	race := flag.Int("race-stats", 0, "internal: N rounds of the UpdateStats race search, print result JSON")
	skipSort := flag.Bool("skip-sort-docs", false, "internal: stress with frac.Config.SkipSortDocs=true")
	keepMeta := flag.Bool("keep-meta-file", false, "internal: stress with frac.Config.KeepMetaFile=true")
	flag.Parse()
	logger.SetLevel(zapcore.FatalLevel)
	if os.Getenv("VERIF_C07_LOG") != "" { // debugging aid: show what the store logs at Error level during a -probe
		logger.SetLevel(zapcore.ErrorLevel)
	}

	if *stress == 0 && *race == 0 {
		// schedule replay runs one logical thread at a time anyway; one P makes sync.Pool hand the writer a seal has
		// put back to the next seal (the usual case in production, and the one in which a leaked pooled slice shows)
		runtime.GOMAXPROCS(1)
	}
	if *probe != "" {
		runProbe(*probe)
		return
	}
	if *probeJSON != "" {
		b, _ := json.Marshal(runInput(probeInput(*probeJSON), "fixed-"+*probeJSON))
		fmt.Println(string(b))
		return
	}
	if *race > 0 {
		b, _ := json.Marshal(runRaceStats(*seed, *race))
		fmt.Println(string(b))
		return
	}
	if *stress > 0 {
		res := runStress(*seed, *stress, Opts{SkipSortDocs: *skipSort, KeepMetaFile: *keepMeta})
		b, _ := json.Marshal(res)
		fmt.Println(string(b))
		return
	}
	if *worker {
		w := bufio.NewWriterSize(os.Stdout, 1<<20)
		r := rng.New(*seed)
		for i := 0; i < *n; i++ {
			res := runGenerated(r.Fork(), i)
			b, _ := json.Marshal(res)
			w.Write(b)
			w.WriteByte('\n')
			w.Flush()               // the parent counts the finished schedules: the next one is the one that killed the process
			if res.Viol == "hang" { // parked goroutines cannot be recovered: stop this worker
				break
			}
		}
		w.Flush()
		return
	}
	if *out == "" {
		fmt.Fprintln(os.Stderr, "need -out")
		os.Exit(2)
	}
	w, err := casefile.New(*out, "C07", "From VLib Require Import CaseLib.\nFrom C07 Require Import Model CaseDefs.\nLocal Open Scope N_scope.", 60)
	if err != nil {
		panic(err)
	}
	add := func(res *Result) {
		if res.Viol != "" {
			w.Violate(res.Viol, res.ViolWhat, res.Input)
		}
		for _, c := range res.Counts {
			w.Count(c)
		}
		if res.Coq != "" {
			w.Add(res.Coq, res.Class, res.Nontrivial, res.Input, res.Obs)
		}
	}
	if *replay != "" {
		if seed, rounds, ok := raceReplay(*replay); ok { // a finding of the race search: repeat the search
			rr := runRaceStats(seed, rounds)
			w.Evals(rr.Rounds)
			for _, v := range rr.Violations {
				w.Violate(v.Kind, v.What, map[string]any{"race_search": "hC07 -race-stats", "seed": seed, "rounds": rounds, "detail": v.Detail})
			}
			if err := w.Close(); err != nil {
				panic(err)
			}
			return
		}
		in, err := loadReplay(*replay)
		if err != nil {
			panic(err)
		}
		add(runInput(in, "replay"))
		if err := w.Close(); err != nil {
			panic(err)
		}
		return
	}
	// fixed regression schedules first (witnesses of the model's Examples), then random ones
	// each in a process of its own: the real code may kill the process (fatal error, panic in a store goroutine)
	for _, name := range probeNames() {
		var errb tailBuf
		cmd := exec.Command(os.Args[0], "-probe-json", name)
		cmd.Stderr = &errb
		outb, err := cmd.Output()
		var res Result
		if err != nil || json.Unmarshal(outb, &res) != nil {
			w.Violate("crash:fixed-"+name, fmt.Sprintf("the real store code killed the process while this schedule ran (%v): %s", err, errb.head()), probeInput(name))
			continue
		}
		add(&res)
	}
	total, workers, stressMs, stressRuns, raceRounds, raceRuns := 300, 6, 1500, 2, 500, 3
	if *tier == "thorough" {
		total, stressMs, stressRuns, raceRounds, raceRuns = 12000, 15000, 6, 4000, 6
	}
	per := (total + workers - 1) / workers
	r := rng.New(*seed)
	var mu sync.Mutex
	var wgr sync.WaitGroup
	results := make([][]*Result, workers)
	fail := ""
	var failInput any
	// the schedules are split into `workers` shards with fixed seeds (the cases do not depend on the parallelism);
	// at most VERIF_HARNESS_WORKERS (default 4) worker processes run at the same time
	par := 4
	if v, err := strconv.Atoi(os.Getenv("VERIF_HARNESS_WORKERS")); err == nil && v > 0 {
		par = v
	}
	sem := make(chan struct{}, par)
	for k := 0; k < workers; k++ {
		s := r.U64() >> 1
		wgr.Add(1)
		go func(k int, s uint64) {
			defer wgr.Done()
			sem <- struct{}{}
			defer func() { <-sem }()
			var errb tailBuf
			cmd := exec.Command(os.Args[0], "-worker", "-seed", fmt.Sprint(s), "-n", fmt.Sprint(per))
			cmd.Stderr = &errb
			outb, err := cmd.Output()
			mu.Lock()
			defer mu.Unlock()
			if err != nil {
				done := strings.Count(string(outb), "\n")
				fail = fmt.Sprintf("worker %d: %v: %s", k, err, errb.head())
				failInput = map[string]any{"worker_seed": s, "schedule_index": done,
					"rerun": fmt.Sprintf("hC07 -worker -seed %d -n %d   (the last schedule is the one that kills the process)", s, done+1)}
			}
			sc := bufio.NewScanner(strings.NewReader(string(outb)))
			sc.Buffer(make([]byte, 1<<20), 1<<26)
			for sc.Scan() {
				var res Result
				if json.Unmarshal(sc.Bytes(), &res) == nil {
					results[k] = append(results[k], &res)
				}
			}
		}(k, s)
	}
	wgr.Wait()
	for k := range results {
		for _, res := range results[k] {
			add(res)
		}
	}
	if fail != "" {
		// a worker died: the real code crashed the process (e.g. a panic in an index worker goroutine)
		w.Violate("worker-crash", "a schedule crashed the process running the real store code: "+fail, failInput)
	}
	// free-running stress (supporting test): real goroutines, no schedule points taken
	for i := 0; i < stressRuns; i++ {
		// odd runs: SkipSortDocs=true (the sealed fraction reads through the active fraction's descriptor while
		// Active.Release runs concurrently with the readers); every fourth run also KeepMetaFile=true
		args := []string{"-stress", fmt.Sprint(stressMs), "-seed", fmt.Sprint(r.U64() >> 1)}
		if i%2 == 1 {
			args = append(args, "-skip-sort-docs")
			w.Count("stress:skip-sort-docs")
		}
		if i%4 == 3 {
			args = append(args, "-keep-meta-file")
		}
		cmd := exec.Command(os.Args[0], args...)
		cmd.Stderr = os.Stderr
		outb, err := cmd.Output()
		var sr StressResult
		if err != nil || json.Unmarshal(outb, &sr) != nil {
			w.Violate("stress-crash", fmt.Sprintf("free-running stress process died: %v", err), string(outb))
			continue
		}
		w.Evals(sr.Requests)
		w.Count("stress:runs")
		w.Extra["stress_requests"] = sr.Requests
		w.Extra["stress_rotations"] = sr.Rotations
		for _, v := range sr.Violations {
			w.Violate("stress:"+v.Kind, v.What, v.Detail)
		}
	}
	// race search for a non-atomic UpdateStats (supporting test): processes run in parallel
	var rmu sync.Mutex
	var rwg sync.WaitGroup
	for i := 0; i < raceRuns; i++ {
		s := r.U64() >> 1
		rwg.Add(1)
		go func(s uint64) {
			defer rwg.Done()
			cmd := exec.Command(os.Args[0], "-race-stats", fmt.Sprint(raceRounds), "-seed", fmt.Sprint(s))
			cmd.Stderr = os.Stderr
			outb, err := cmd.Output()
			rmu.Lock()
			defer rmu.Unlock()
			var rr RaceResult
			if err != nil || json.Unmarshal(outb, &rr) != nil {
				w.Violate("race-crash", fmt.Sprintf("UpdateStats race search process died: %v", err), string(outb))
				return
			}
			w.Evals(rr.Rounds)
			w.Count("race-stats:runs")
			for _, v := range rr.Violations {
				w.Violate(v.Kind, v.What, map[string]any{"race_search": "hC07 -race-stats", "seed": s, "rounds": raceRounds, "detail": v.Detail})
			}
		}(s)
	}
	rwg.Wait()
	if err := w.Close(); err != nil {
		panic(err)
	}
}

func raceReplay(path string) (uint64, int, bool) {
	b, err := os.ReadFile(path)
	if err != nil {
		return 0, 0, false
	}
	var f struct {
		Replay struct {
			Input struct {
				Race   string `json:"race_search"`
				Seed   uint64 `json:"seed"`
				Rounds int    `json:"rounds"`
			} `json:"input"`
		} `json:"replay"`
	}
	if json.Unmarshal(b, &f) != nil || f.Replay.Input.Race == "" {
		return 0, 0, false
	}
	return f.Replay.Input.Seed, f.Replay.Input.Rounds, true
}

func loadReplay(path string) (*Input, error) {
	b, err := os.ReadFile(path)
	if err != nil {
		return nil, err
	}
	var f struct {
		Replay struct {
			Case  struct{ Input *Input } `json:"case"`
			Input *Input                 `json:"input"`
		} `json:"replay"`
	}
	if err := json.Unmarshal(b, &f); err != nil {
		return nil, err
	}
	if f.Replay.Case.Input != nil {
		return f.Replay.Case.Input, nil
	}
	if f.Replay.Input != nil {
		return f.Replay.Input, nil
	}
	return nil, fmt.Errorf("no input in replay file")
}

// runInput executes the labels of in as they are (disabled ones are recorded as such).
func runInput(in *Input, class string) *Result {
	e, err := NewExec(in)
	if err != nil {
		panic(err)
	}
	var obs []Obs
	for i := 0; i < len(in.Labels) && !e.hang; i++ {
		l := in.Labels[i]
		if l.P == 1 && l.K == "R" && i+1 < len(in.Labels) && in.Labels[i+1].K == "R" && e.Enabled(l) && e.Enabled(in.Labels[i+1]) {
			oa, ob := e.StepPair(l.T, in.Labels[i+1].T)
			obs = append(obs, oa, ob)
			i++
			continue
		}
		if l.P == 2 && l.K == "FB" && i+1 < len(in.Labels) && in.Labels[i+1].K == "M" {
			oa, ob := e.StepFetchDuringRelease(l, in.Labels[i+1].T)
			obs = append(obs, oa, ob)
			i++
			continue
		}
		obs = append(obs, e.Step(l))
	}
	labels := in.Labels[:len(obs)]
	if !e.hang {
		more, mobs := drain(e)
		labels = append(append([]Label{}, labels...), more...)
		obs = append(obs, mobs...)
	}
	full := &Input{Bulks: in.Bulks, Queries: in.Queries, Labels: labels, Opts: in.Opts}
	res := finish(e, full, obs, class)
	return res
}

func finish(e *Exec, in *Input, obs []Obs, class string) *Result {
	res := &Result{Input: in, Obs: obs, Class: class}
	if e.hang {
		res.Viol, res.ViolWhat = "hang", "a step of the schedule did not reach its next schedule point within 20 s (deadlock)"
		// the process still holds parked goroutines: nothing can be cleaned up reliably
		return res
	}
	e.Close()
	curASTs = e.asts
	cls, nontriv, counts := classify(in, obs)
	if class == "" || class == "sched" || !strings.HasPrefix(cls, "sched") {
		res.Class = cls
	}
	res.Nontrivial = nontriv
	res.Counts = append(counts, e.counts...)
	res.Coq = coqCase(e, in, obs)
	return res
}

// drain runs every started operation to its end (writers first, then readers, then seals), so that no
// goroutine stays parked; the labels it issues are part of the case.
func drain(e *Exec) ([]Label, []Obs) {
	var ls []Label
	var os_ []Obs
	do := func(l Label) bool {
		if !e.Enabled(l) {
			return false
		}
		ls = append(ls, l)
		os_ = append(os_, e.Step(l))
		return !e.hang
	}
	for progress := true; progress && !e.hang; {
		progress = false
		for t := range e.ws {
			for e.ws[t].state != 0 {
				if !do(Label{K: "W", T: t}) {
					break
				}
				progress = true
			}
		}
		for t := range e.rs {
			for e.rs[t].inop {
				if !do(Label{K: "R", T: t}) {
					break
				}
				progress = true
			}
		}
		for g := 0; g < e.nfr; g++ {
			for e.seals[g] != nil && e.seals[g].state == 1 {
				if !do(Label{K: "M", T: g}) {
					break
				}
				progress = true
			}
		}
	}
	return ls, os_
}

// tailBuf keeps the beginning of a child's stderr (the first lines of a Go crash say what happened).
type tailBuf struct{ b []byte }

func (t *tailBuf) Write(p []byte) (int, error) {
	if len(t.b) < 4096 {
		t.b = append(t.b, p...)
	}
	return len(p), nil
}

func (t *tailBuf) head() string {
	s := string(t.b)
	if i := strings.Index(s, "fatal error"); i >= 0 {
		s = s[i:]
	} else if i := strings.Index(s, "panic:"); i >= 0 {
		s = s[i:]
	}
	if len(s) > 300 {
		s = s[:300]
	}
	return s
}
