// hC17 — correspondence driver for property C17 (re-delivering a bulk does not duplicate
// documents). Two kinds of cases (props/C17/coq/CaseDefs.v):
//
//	CColl  the real metaDataCollector (one instance reused for every case, as an append worker
//	       does): Init, AppendMeta*, Filter(appended), GroupLIDsByToken
//	CHist  histories of bulks with re-sent subsets through the real FracManager append path,
//	       observed by a copy of the active fraction's index state and by search / histogram /
//	       aggregation / fetch / DocsTotal on the active fraction, after seal and after restart
package main

import (
	"encoding/json"
	"errors"
	"flag"
	"fmt"
	"os"
	"sort"
	"strings"
	"sync"
	"time"

	"github.com/ozontech/seq-db/conf"
	"github.com/ozontech/seq-db/frac"
	"github.com/ozontech/seq-db/fracmanager"
	"github.com/ozontech/seq-db/seq"

	"verif/harness/internal/casefile"
	"verif/harness/internal/fracbuild"
	"verif/harness/internal/rng"
	"verif/harness/internal/storectl"
)

// ---------------------------------------------------------------- Coq rendering

func coqID(mid, rid uint64) string { return fmt.Sprintf("(%d%%N, %d%%N)", mid, rid) }

func coqNList(xs []int) string {
	p := make([]string, len(xs))
	for i, x := range xs {
		p[i] = fmt.Sprintf("%d%%N", x)
	}
	return "[" + strings.Join(p, "; ") + "]"
}

func coqMeta(mid, rid uint64, size int, toks []int) string {
	return fmt.Sprintf("(mkMeta %s %d%%N %s)", coqID(mid, rid), size, coqNList(toks))
}

// metas of a bulk with the body tag of each: list (meta * N)
func coqBulk(docs []Doc) string {
	var p []string
	for _, d := range docs {
		p = append(p, fmt.Sprintf("(%s, %d%%N)", coqMeta(d.MID, d.RID, d.size(), d.Toks), d.tag()))
		for _, n := range d.Nested {
			p = append(p, fmt.Sprintf("(%s, %d%%N)", coqMeta(d.MID, d.RID, 0, n), d.tag()))
		}
	}
	return "[" + strings.Join(p, "; ") + "]"
}

func coqIDs(ids []idPair) string {
	p := make([]string, len(ids))
	for i, x := range ids {
		p[i] = coqID(x[0], x[1])
	}
	return "[" + strings.Join(p, "; ") + "]"
}

func coqPairsNN(xs [][2]uint64) string {
	p := make([]string, len(xs))
	for i, x := range xs {
		p[i] = fmt.Sprintf("(%d%%N, %d%%N)", x[0], x[1])
	}
	return "[" + strings.Join(p, "; ") + "]"
}

func coqPos(p seq.DocPos) string {
	b, o := p.Unpack()
	return fmt.Sprintf("(%d, %d%%N)", b, o)
}

func u32s(xs []uint32) []int {
	out := make([]int, len(xs))
	for i, x := range xs {
		out[i] = int(x)
	}
	return out
}

// ---------------------------------------------------------------- generators

type gen struct{ r *rng.R }

// tokens of one meta: 0..4 tokens of k/g (sometimes the same token twice), then `_all_`;
// sometimes no token at all (only in collector cases: such a meta is invisible to search).
func (g gen) toks(allowBare bool) []int {
	if allowBare && g.r.Chance(1, 10) {
		return []int{}
	}
	var out []int
	kt, gt := []int{1, 2, 3, 4, 8}, []int{5, 6, 7, 9}
	n := g.r.Intn(4)
	for i := 0; i < n; i++ {
		out = append(out, rng.Pick(g.r, kt))
	}
	if len(out) > 0 && g.r.Chance(1, 6) {
		out = append(out, out[g.r.Intn(len(out))]) // a repeated token inside one document
	}
	if g.r.Chance(1, 2) { // at most one value of the group field per meta (a keyword field)
		out = append(out, rng.Pick(g.r, gt))
		if g.r.Chance(1, 8) {
			out = append(out, out[len(out)-1])
		}
	}
	rng.Shuffle(g.r, out)
	return append(out, tokAll)
}

func (g gen) doc(mid, rid uint64, allowBare bool) Doc {
	d := Doc{MID: mid, RID: rid, Var: 0, Pad: g.r.Intn(12), Toks: g.toks(allowBare)}
	if g.r.Chance(1, 4) {
		for i, n := 0, 1+g.r.Intn(2); i < n; i++ {
			d.Nested = append(d.Nested, g.toks(allowBare))
		}
	}
	return d
}

// ---------------------------------------------------------------- collector cases

func collectorCases(w *casefile.Writer, r *rng.R, n int) {
	g := gen{r}
	col := frac.VerifC17NewCollector()
	for k := 0; k < n; k++ {
		nd := 1 + r.Intn(6)
		var docs []Doc
		for i := 0; i < nd; i++ {
			docs = append(docs, g.doc(uint64(midLo+r.Intn(60)), uint64(k*10+i+1), true))
		}
		if r.Chance(1, 8) { // many tokens in one document
			d := &docs[r.Intn(nd)]
			d.Toks = nil
			for i := 0; i < 12; i++ {
				d.Toks = append(d.Toks, rng.Pick(r, []int{1, 2, 3, 4, 8}))
			}
			d.Toks = append(d.Toks, tokAll)
		}
		// which documents stay: chosen positions of the dropped ones
		keep := make([]bool, nd)
		shape := r.Intn(8)
		for i := range keep {
			switch shape {
			case 0:
				keep[i] = true
			case 1:
				keep[i] = false
			case 2:
				keep[i] = i != 0
			case 3:
				keep[i] = i != nd-1
			case 4:
				keep[i] = i == 0 || i == nd-1
			default:
				keep[i] = r.Bool()
			}
		}
		dofilter := shape != 0 || r.Bool()
		metas := metasOf(docs)
		var app []seq.ID
		var appPairs []idPair
		kept := 0
		for i, d := range docs {
			if keep[i] || !dofilter {
				kept++
				for j := 0; j <= len(d.Nested); j++ {
					app = append(app, d.id())
					appPairs = append(appPairs, idPair{d.MID, d.RID})
				}
			}
		}
		blk := r.Intn(6)
		first := 1 + r.Intn(40)
		var out frac.VerifC17Coll
		var perr any
		func() {
			defer func() { perr = recover() }()
			out = col.Run(metas, uint32(blk), dofilter, app, uint32(first))
		}()
		if perr != nil {
			w.Violate("collector-panic", fmt.Sprintf("the bulk collector panicked: %v", perr),
				map[string]any{"docs": docs, "keep": keep, "filter": dofilter, "block": blk, "first_lid": first, "case_number": k})
			col = frac.VerifC17NewCollector()
			continue
		}

		var ms []string
		for _, d := range docs {
			ms = append(ms, coqMeta(d.MID, d.RID, d.size(), d.Toks))
			for _, nn := range d.Nested {
				ms = append(ms, coqMeta(d.MID, d.RID, 0, nn))
			}
		}
		var ids []idPair
		for _, id := range out.IDs {
			ids = append(ids, idPair{uint64(id.MID), uint64(id.RID)})
		}
		var ps []string
		for _, p := range out.Positions {
			ps = append(ps, coqPos(p))
		}
		var tvals []int
		bad := false
		for _, t := range out.TokensValues {
			c := tokenCode(t)
			if c < 0 {
				bad = true
			}
			tvals = append(tvals, c)
		}
		if bad {
			w.Violate("collector-foreign-token", "TokensValues holds a token that was not sent", docs)
			continue
		}
		var groups []string
		for _, gr := range out.Groups {
			groups = append(groups, casefile.NatList(u32s(gr)))
		}
		impl := fmt.Sprintf("(mkOut %s [%s] %s %s %s %d%%N %d%%N %d%%N [%s])", coqIDs(ids), strings.Join(ps, "; "),
			casefile.NatList(u32s(out.TokensInDocs)), casefile.NatList(out.TokensIndex), coqNList(tvals),
			out.DocsCounter, uint64(out.MinMID), uint64(out.MaxMID), strings.Join(groups, "; "))
		term := fmt.Sprintf("CColl %d [%s] %s %s %d %s", blk, strings.Join(ms, "; "), casefile.Bool(dofilter),
			coqIDs(appPairs), first, impl)
		class := "collector-nofilter"
		if dofilter {
			switch {
			case kept == 0:
				class = "collector-filter-all-dropped"
			case kept == nd:
				class = "collector-filter-none-dropped"
			default:
				class = "collector-filter-partial"
			}
		}
		nested := false
		for _, d := range docs {
			nested = nested || len(d.Nested) > 0
		}
		if nested {
			w.Count("collector:with-nested")
		}
		w.Add(term, class, dofilter && kept > 0 && kept < nd,
			map[string]any{"docs": docs, "keep": keep, "filter": dofilter, "block": blk, "first_lid": first},
			map[string]any{"ids": ids, "tokens_in_docs": out.TokensInDocs, "tokens_index": out.TokensIndex,
				"tokens_values": out.TokensValues, "groups": out.Groups, "docs_counter": out.DocsCounter})
	}
}

// ---------------------------------------------------------------- history cases

type Step struct {
	Kind  string  `json:"kind"` // bulk conc seal restart
	Docs  []Doc   `json:"docs,omitempty"`
	Bulks [][]Doc `json:"bulks,omitempty"`
}

type History struct {
	Mode  string `json:"mode"` // seq cross conc scn-*
	Steps []Step `json:"steps"`
	// ObsAt: numbers of executed steps after which the store is observed; DumpsAt: numbers of
	// executed steps after which the tables of every fraction holding documents are copied
	// (active: index state, sealed: tables read through the sealed loaders)
	ObsAt   []int `json:"obs_at"`
	DumpsAt []int `json:"dumps_at,omitempty"`
	// Workers: index workers of the store (0 = the default, one per CPU). With one worker a
	// replay indexes the log in file order, so order-sensitive state (LID table, positions,
	// which bytes win) is compared after a restart; histories with other settings carry
	// identical bytes on every delivery of an ID and are dumped only where the order is fixed.
	Workers   int  `json:"workers"`
	SkipSort  bool `json:"skip_sort"`  // frac.Config.SkipSortDocs
	BlockSize int  `json:"block_size"` // SealParams.DocBlockSize (0 = default 4 MiB)
}

func (h History) exact() bool { return h.Workers == 1 }

func (h History) effBlockSize() int {
	if h.BlockSize <= 0 {
		return 4 << 20
	}
	return h.BlockSize
}

// genHistory builds a history.
//
//	seq    one fraction, sequential bulks, one index worker; a re-sent document carries the same
//	       tokens but often other bytes (first delivery must win: live, after a replay, after
//	       seal and after reload); restarts between bulks (replay of the log with its repeats,
//	       also between a first delivery and its repeat); then seal and restart
//	cross  like seq with a seal in the middle: repeats of documents of the sealed fraction land in
//	       the new fraction with their original bytes, later repeats inside the new fraction vary
//	conc   groups of bulks delivered concurrently (identical content, default workers), restart
//	       before the seal (replay in worker order), then seal and restart
func genHistory(r *rng.R, mode string, nbulks int) History {
	g := gen{r}
	h := History{Mode: mode}
	exact := mode != "conc"
	if exact {
		h.Workers = 1
	}
	switch r.Intn(6) {
	case 0, 1:
		h.SkipSort = exact // positions of the unsorted docs file depend on the arrival order
	case 2, 3:
		h.BlockSize = 40 + r.Intn(200) // several small docs blocks in the sealed form
	}
	var sent [][]Doc              // earlier bulks
	var all []Doc                 // first deliveries
	first := map[idPair]Doc{}     // ID -> first delivery ever (the bytes every fraction must serve)
	cur := map[idPair]bool{}      // IDs held by the current (active) fraction
	nextRID := uint64(1)
	resend := func(d Doc) Doc {
		k := idPair{d.MID, d.RID}
		if !cur[k] {
			return first[k] // first delivery into this fraction: the original bytes
		}
		if exact && r.Chance(2, 3) {
			d.Var++
			d.Pad = r.Intn(12)
		} else {
			d = first[k]
		}
		return d
	}
	mkBulk := func() []Doc {
		var b []Doc
		used := map[idPair]bool{}
		shape := r.Intn(10)
		switch {
		case len(sent) > 0 && shape == 0: // whole-bulk repeat
			for _, d := range sent[r.Intn(len(sent))] {
				b = append(b, resend(d))
			}
			return b
		case len(sent) > 0 && shape == 1: // whole-bulk repeat, other order
			for _, d := range sent[r.Intn(len(sent))] {
				b = append(b, resend(d))
			}
			rng.Shuffle(r, b)
			return b
		}
		nnew := r.Intn(4)
		if (len(all) == 0 || shape == 2) && nnew == 0 {
			nnew = 1
		}
		for i := 0; i < nnew; i++ {
			d := g.doc(uint64(midLo+r.Intn(60)), nextRID, false)
			nextRID++
			b = append(b, d)
			used[idPair{d.MID, d.RID}] = true
		}
		if len(all) > 0 && shape != 2 {
			nold := 1 + r.Intn(3)
			for i := 0; i < nold; i++ {
				d := all[r.Intn(len(all))]
				if used[idPair{d.MID, d.RID}] {
					continue
				}
				used[idPair{d.MID, d.RID}] = true
				b = append(b, resend(d))
			}
		}
		switch r.Intn(4) { // position of the repeats: last, first, shuffled
		case 0:
		case 1:
			for i, j := 0, len(b)-1; i < j; i, j = i+1, j-1 {
				b[i], b[j] = b[j], b[i]
			}
		default:
			rng.Shuffle(r, b)
		}
		return b
	}
	record := func(b []Doc) {
		sent = append(sent, b)
		for _, d := range b {
			k := idPair{d.MID, d.RID}
			if _, known := first[k]; !known {
				first[k] = d
				all = append(all, d)
			}
			cur[k] = true
		}
	}
	mark := func(dump bool) {
		h.ObsAt = append(h.ObsAt, len(h.Steps))
		if dump {
			h.DumpsAt = append(h.DumpsAt, len(h.Steps))
		}
	}
	seal := func() {
		h.Steps = append(h.Steps, Step{Kind: "seal"})
		cur = map[idPair]bool{}
		mark(exact || !h.SkipSort)
	}
	sealAt := -1
	if mode == "cross" {
		sealAt = 1 + r.Intn(nbulks)
	}
	for i := 0; i < nbulks; i++ {
		if mode == "conc" && r.Chance(1, 2) {
			var bs [][]Doc
			for j, n := 0, 2+r.Intn(2); j < n; j++ {
				b := mkBulk()
				if j > 0 && r.Chance(1, 2) { // the retry racing with the original
					b = append([]Doc{}, bs[0]...)
				}
				bs = append(bs, b)
			}
			for _, b := range bs {
				record(b)
			}
			h.Steps = append(h.Steps, Step{Kind: "conc", Bulks: bs})
		} else {
			b := mkBulk()
			record(b)
			h.Steps = append(h.Steps, Step{Kind: "bulk", Docs: b})
		}
		if i+1 == sealAt {
			mark(false)
			seal()
		} else if exact && i+1 < nbulks && r.Chance(1, 3) { // restart between two bulks: replay of the log
			h.Steps = append(h.Steps, Step{Kind: "restart"})
			mark(true)
			if r.Chance(1, 6) { // a second restart changes nothing
				h.Steps = append(h.Steps, Step{Kind: "restart"})
				mark(true)
			}
		}
	}
	mark(exact)
	if mode == "conc" || r.Chance(1, 2) {
		h.Steps = append(h.Steps, Step{Kind: "restart"})
		mark(exact)
	}
	seal()
	h.Steps = append(h.Steps, Step{Kind: "restart"})
	mark(exact || !h.SkipSort)
	return h
}

// genScenario builds the fixed shapes the property names, with random documents: one index
// worker, every repeat with other bytes where its fraction already holds the ID.
//
//	scn-restart-between  first delivery, restart, repeat (other bytes) with a new document,
//	                     restart, seal, restart
//	scn-seal-repeat      first delivery, repeat, seal, repeat in the new fraction (original bytes)
//	                     with a new document, repeat again (other bytes), seal, restart
//	scn-overlap          partial overlaps only: every bulk re-sends a part of the previous one
//	scn-degenerate       boundary shapes: restart of an empty store, seal of an empty fraction,
//	                     double seal, double restart, a bulk made of repeats only
func genScenario(r *rng.R, kind string) History {
	g := gen{r}
	h := History{Mode: kind, Workers: 1}
	switch r.Intn(4) {
	case 0:
		h.SkipSort = true
	case 1:
		h.BlockSize = 30 + r.Intn(120)
	}
	rid := uint64(1)
	fresh := func(n int) []Doc {
		var out []Doc
		for i := 0; i < n; i++ {
			out = append(out, g.doc(uint64(midLo+r.Intn(60)), rid, false))
			rid++
		}
		return out
	}
	vary := func(ds []Doc) []Doc {
		out := append([]Doc{}, ds...)
		for i := range out {
			out[i].Var++
			out[i].Pad = r.Intn(12)
		}
		return out
	}
	mix := func(a, b []Doc) []Doc {
		out := append(append([]Doc{}, a...), b...)
		switch r.Intn(3) {
		case 0:
			rng.Shuffle(r, out)
		case 1:
			out = append(append([]Doc{}, b...), a...)
		}
		return out
	}
	step := func(kind string, docs []Doc) {
		h.Steps = append(h.Steps, Step{Kind: kind, Docs: docs})
		h.ObsAt = append(h.ObsAt, len(h.Steps))
		h.DumpsAt = append(h.DumpsAt, len(h.Steps))
	}
	a := fresh(1 + r.Intn(3))
	switch kind {
	case "scn-restart-between":
		step("bulk", a)
		step("restart", nil)
		step("bulk", mix(vary(a[:1+r.Intn(len(a))]), fresh(r.Intn(3))))
		step("restart", nil)
		step("seal", nil)
		step("restart", nil)
	case "scn-seal-repeat":
		step("bulk", a)
		step("bulk", mix(vary(a[:1+r.Intn(len(a))]), fresh(r.Intn(2))))
		step("seal", nil)
		step("bulk", mix(a, fresh(1+r.Intn(2))))
		if r.Bool() {
			step("restart", nil)
		}
		step("bulk", mix(vary(a), fresh(r.Intn(2))))
		step("seal", nil)
		step("restart", nil)
	case "scn-overlap":
		prev := a
		step("bulk", a)
		for i, n := 0, 2+r.Intn(3); i < n; i++ {
			k := 1 + r.Intn(len(prev))
			b := mix(vary(prev[len(prev)-k:]), fresh(1+r.Intn(2)))
			step("bulk", b)
			prev = b
			if r.Chance(1, 3) {
				step("restart", nil)
			}
		}
		step("seal", nil)
		step("restart", nil)
	default: // scn-degenerate
		step("restart", nil)
		step("seal", nil)
		step("bulk", a)
		step("bulk", vary(a))
		step("restart", nil)
		step("restart", nil)
		step("seal", nil)
		step("seal", nil)
		step("restart", nil)
		step("bulk", a)
		step("restart", nil)
	}
	return h
}

// FracDump is a copy of the tables of one fraction: after At steps, fraction number Frac among
// the fractions holding documents (oldest first).
type FracDump struct {
	At     int                        `json:"at"`
	Frac   int                        `json:"frac"`
	Active *frac.VerifC17State        `json:"active,omitempty"`
	Sealed *frac.VerifC17SealedState  `json:"sealed,omitempty"`
}

type histResult struct {
	h     History
	obs   []Obs
	dumps []FracDump
	err   string
	fatal string // panic in the goroutine applying the history (recovered)
	crash string // the store process died (panic in a background goroutine, logger.Fatal)
}

// wire form of a histResult between the storectl child and the driver
type histWire struct {
	Obs   []Obs      `json:"obs"`
	Dumps []FracDump `json:"dumps,omitempty"`
	Err   string              `json:"err,omitempty"`
	Fatal string              `json:"fatal,omitempty"`
}

const opHistory = "c17-history"

var defaultIndexWorkers = conf.IndexWorkers

func init() {
	// executed in the child: the whole history runs on a real store inside the child process
	storectl.Register(opHistory, func(_ *storectl.Child, r storectl.Req) (storectl.Resp, error) {
		var h History
		if err := json.Unmarshal(r.Extra, &h); err != nil {
			return storectl.Resp{}, err
		}
		res := runHistory(h)
		b, err := json.Marshal(histWire{Obs: res.obs, Dumps: res.dumps, Err: res.err, Fatal: res.fatal})
		if err != nil {
			return storectl.Resp{}, err
		}
		return storectl.Resp{Extra: b}, nil
	})
}

// worker owns one child process; the child is replaced when it died and recycled after a number
// of histories (every restart inside a history leaves the previous manager's files open).
type worker struct {
	st *storectl.Store
	n  int
}

func (wk *worker) stop() {
	if wk.st != nil {
		wk.st.Close()
		wk.st = nil
	}
	wk.n = 0
}

func (wk *worker) run(h History) (res histResult) {
	res.h = h
	if wk.st == nil {
		st, err := storectl.Start("")
		if err != nil {
			panic(err)
		}
		wk.st = st
	}
	hb, _ := json.Marshal(h)
	resp, err := wk.st.Call(storectl.Req{Op: opHistory, Extra: hb})
	if err != nil {
		if errors.Is(err, storectl.ErrDied) {
			res.crash = err.Error()
			wk.st.Kill()
			wk.stop()
			return
		}
		res.err = "driver protocol: " + err.Error()
		return
	}
	var hw histWire
	if err := json.Unmarshal(resp.Extra, &hw); err != nil {
		res.err = "driver protocol: " + err.Error()
		return
	}
	res.obs, res.dumps, res.err, res.fatal = hw.Obs, hw.Dumps, hw.Err, hw.Fatal
	if wk.n++; wk.n >= 150 {
		wk.stop()
	}
	return
}

func runHistory(h History) (res histResult) {
	res.h = h
	defer func() {
		if p := recover(); p != nil {
			res.fatal = fmt.Sprint(p)
		}
	}()
	dir, err := os.MkdirTemp("", "verif-c17-")
	if err != nil {
		panic(err)
	}
	defer os.RemoveAll(dir)
	conf.IndexWorkers = defaultIndexWorkers
	if h.Workers > 0 {
		conf.IndexWorkers = h.Workers
	}
	defer func() { conf.IndexWorkers = defaultIndexWorkers }()
	mod := func(c *fracmanager.Config) {
		c.Fraction.SkipSortDocs = h.SkipSort
		c.SealParams.DocBlockSize = h.BlockSize
	}
	fm, err := fracbuild.NewFM(dir, mod)
	if err != nil {
		res.err = "open: " + err.Error()
		return
	}
	variants := map[idPair][]Doc{}
	var probes []Doc
	addDocs := func(ds []Doc) {
		for _, d := range ds {
			k := idPair{d.MID, d.RID}
			if len(variants[k]) == 0 {
				probes = append(probes, d)
			}
			variants[k] = append(variants[k], d)
		}
	}
	for _, s := range h.Steps {
		addDocs(s.Docs)
		for _, b := range s.Bulks {
			addDocs(b)
		}
	}
	probes = append(probes, Doc{MID: 7, RID: 7})
	obsAt := map[int]bool{}
	for _, k := range h.ObsAt {
		obsAt[k] = true
	}
	dumpsAt := map[int]bool{}
	for _, k := range h.DumpsAt {
		dumpsAt[k] = true
	}
	after := func(k int) bool {
		if dumpsAt[k] {
			for j, f := range fm.VerifC17Fractions() {
				d := FracDump{At: k, Frac: j}
				switch {
				case f.Active != nil:
					st := f.Active.VerifC17State()
					d.Active = &st
				case f.Sealed != nil:
					st, err := f.Sealed.VerifC17SealedState(tokenNames)
					if err != nil {
						res.err = fmt.Sprintf("reading the sealed tables after %d steps: %v", k, err)
						return false
					}
					d.Sealed = &st
				}
				res.dumps = append(res.dumps, d)
			}
		}
		if obsAt[k] {
			o, err := observe(fm, fmt.Sprint(k), probes, variants)
			if err != nil {
				res.err = err.Error()
				return false
			}
			res.obs = append(res.obs, o)
		}
		return true
	}
	if !after(0) {
		return
	}
	for i, s := range h.Steps {
		switch s.Kind {
		case "bulk":
			err = sendBulk(fm, s.Docs)
			fm.WaitIdle()
		case "conc":
			err = sendConcurrently(fm, s.Bulks)
			fm.WaitIdle()
		case "seal":
			fracbuild.Seal(fm)
		case "restart":
			fracbuild.Close(fm)
			var fm2 *fracmanager.FracManager
			fm2, err = fracbuild.NewFM(dir, mod)
			if err == nil {
				fm = fm2
			}
		}
		if err != nil {
			res.err = fmt.Sprintf("step %d (%s): %v", i, s.Kind, err)
			return
		}
		if !after(i + 1) {
			return
		}
	}
	fracbuild.Close(fm)
	release(fm)
	return
}

// release closes the files and stops the goroutines of every fraction of a manager whose data
// directory is about to be removed.
func release(fm *fracmanager.FracManager) {
	defer func() { _ = recover() }()
	for _, f := range fm.GetAllFracs() {
		f.Suicide()
	}
}

func coqStep(s Step) string {
	switch s.Kind {
	case "bulk":
		return "SBulk " + coqBulk(s.Docs)
	case "conc":
		var p []string
		for _, b := range s.Bulks {
			p = append(p, coqBulk(b))
		}
		return "SConc [" + strings.Join(p, "; ") + "]"
	case "seal":
		return "SSeal"
	}
	return "SRestart"
}

func coqQres(q QRes) string {
	return fmt.Sprintf("(%d%%N, mkQres %s %d%%N %s %s %d%%N)", q.Tok, coqIDs(q.IDs), q.Total, coqPairsNN(q.Hist),
		coqPairsNN(q.Agg), q.NotExists)
}

func coqObs(o Obs, probes []idPair) string {
	var qs, fs, ts []string
	for _, q := range o.Queries {
		qs = append(qs, coqQres(q))
	}
	for i, v := range o.Fetch {
		b := "None"
		if v >= 0 {
			b = fmt.Sprintf("(Some %d%%N)", v)
		} else if v == -2 {
			b = "(Some 999999%N)" // bytes of no delivery of this ID
		}
		fs = append(fs, fmt.Sprintf("(%s, %s)", coqID(probes[i][0], probes[i][1]), b))
	}
	for _, t := range o.DocsTotal {
		ts = append(ts, fmt.Sprintf("%d%%N", t))
	}
	return fmt.Sprintf("(mkObs [%s] [%s] [%s])", strings.Join(qs, "; "), strings.Join(fs, "; "), strings.Join(ts, "; "))
}

func coqOptPos(p seq.DocPos) string {
	if p == seq.DocPosNotFound {
		return "None"
	}
	return "(Some " + coqPos(p) + ")"
}

func coqSDump(st *frac.VerifC17SealedState) string {
	var ids []idPair
	for i := range st.MIDs {
		ids = append(ids, idPair{st.MIDs[i], st.RIDs[i]})
	}
	var toks, ps []string
	for c, name := range tokenNames {
		l := u32s(st.Tokens[name])
		sort.Ints(l)
		toks = append(toks, fmt.Sprintf("(%d%%N, %s)", c, casefile.NatList(l)))
	}
	for _, p := range st.Pos {
		ps = append(ps, coqOptPos(p))
	}
	return fmt.Sprintf("(mkSDump %s [%s] [%s] %d %d%%N %d%%N %d%%N)", coqIDs(ids), strings.Join(ps, "; "),
		strings.Join(toks, "; "), st.Blocks, st.DocsTotal, uint64(st.From), uint64(st.To))
}

func coqDump(st *frac.VerifC17State) (string, error) {
	var ids []idPair
	for i := range st.MIDs {
		ids = append(ids, idPair{st.MIDs[i], st.RIDs[i]})
	}
	var toks []string
	for name := range st.Tokens {
		if tokenCode(name) < 0 {
			return "", fmt.Errorf("token %q in the active fraction was never sent", name)
		}
	}
	for c, name := range tokenNames {
		l := u32s(st.Tokens[name])
		sort.Ints(l)
		toks = append(toks, fmt.Sprintf("(%d%%N, %s)", c, casefile.NatList(l)))
	}
	var ps []string
	for i, id := range st.PosIDs {
		ps = append(ps, fmt.Sprintf("(%s, %s)", coqID(uint64(id.MID), uint64(id.RID)), coqPos(st.Pos[i])))
	}
	return fmt.Sprintf("(mkDump %s [%s] [%s] %d %d%%N %d%%N %d%%N)", coqIDs(ids), strings.Join(toks, "; "),
		strings.Join(ps, "; "), st.Blocks, st.DocsTotal, uint64(st.From), uint64(st.To)), nil
}

func emitHistory(w *casefile.Writer, res histResult) {
	h := res.h
	if res.crash != "" {
		w.Violate("history-crash", "the store process died while a history of bulks was applied (panic in a background "+
			"goroutine or Fatal): "+crashLine(res.crash), h)
		return
	}
	if res.fatal != "" {
		w.Violate("history-panic", "the store panicked while a history of bulks was applied: "+res.fatal, h)
		return
	}
	if res.err != "" {
		w.Violate("history-error", "the store returned an error where none is allowed: "+res.err, h)
		return
	}
	var probes []idPair
	seen := map[idPair]bool{}
	add := func(ds []Doc) {
		for _, d := range ds {
			k := idPair{d.MID, d.RID}
			if !seen[k] {
				seen[k] = true
				probes = append(probes, k)
			}
		}
	}
	repeats, total, nested := 0, 0, false
	for _, s := range h.Steps {
		bs := s.Bulks
		if s.Kind == "bulk" {
			bs = [][]Doc{s.Docs}
		}
		for _, b := range bs {
			for _, d := range b {
				total++
				if seen[idPair{d.MID, d.RID}] {
					repeats++
				}
				nested = nested || len(d.Nested) > 0
			}
			add(b)
		}
	}
	probes = append(probes, idPair{7, 7})
	var steps []string
	for _, s := range h.Steps {
		steps = append(steps, coqStep(s))
	}
	var dumps []string
	for _, d := range res.dumps {
		var t string
		switch {
		case d.Active != nil:
			x, err := coqDump(d.Active)
			if err != nil {
				w.Violate("history-foreign-token", err.Error(), h)
				return
			}
			t = "DActive " + x
			w.Count("dump:active")
		case d.Sealed != nil:
			t = "DSealed " + coqSDump(d.Sealed)
			w.Count("dump:sealed")
		default:
			continue
		}
		dumps = append(dumps, fmt.Sprintf("(%d, %d, %s)", d.At, d.Frac, t))
	}
	var obs []string
	for i, o := range res.obs {
		obs = append(obs, fmt.Sprintf("(%d, %s)", h.ObsAt[i], coqObs(o, probes)))
	}
	term := fmt.Sprintf("CHist2 (mkCfg %s %d%%N) [%s]\n     [%s]\n     [%s]", casefile.Bool(h.SkipSort), h.effBlockSize(),
		strings.Join(steps, "; "), strings.Join(dumps, ";\n      "), strings.Join(obs, ";\n      "))
	if nested {
		w.Count("history:with-nested")
	}
	if repeats > 0 {
		w.Count("history:with-repeats")
	}
	restarts, seals := 0, 0
	for _, s := range h.Steps {
		switch s.Kind {
		case "restart":
			restarts++
		case "seal":
			seals++
		}
	}
	if h.SkipSort {
		w.Count("history:skip-sort-docs")
	} else if h.BlockSize > 0 {
		w.Count("history:small-docs-blocks")
	}
	if h.exact() {
		w.Count("history:one-index-worker")
	}
	w.Dist["history:restarts"] += restarts
	w.Dist["history:seals"] += seals
	w.Dist["history:documents-sent"] += total
	w.Dist["history:repeats-sent"] += repeats
	w.Add(term, "history-"+h.Mode, repeats > 0 && repeats < total, h, map[string]any{"obs": res.obs, "dumps": res.dumps})
}

// probeNewToken is one deliberate history outside the property's quantifier (a re-delivery of
// the same bytes carries the same tokens): a known ID arrives again with a token that is new to
// the fraction. The repeat is dropped, but its token is entered into the token list with an
// empty posting list; after seal a search for it panics inside the store (recovered by the
// searcher). Recorded in stats.json only (decision of the lead: not a violation of C17).
func probeNewToken(w *casefile.Writer) {
	a := Doc{MID: 1039, RID: 1, Var: 0, Pad: 4, Toks: []int{tokAll}}
	a2 := a
	a2.Toks = []int{tokenCode("k:a"), tokAll}
	h := History{Mode: "probe-new-token", ObsAt: []int{2, 3},
		Steps: []Step{{Kind: "bulk", Docs: []Doc{a}}, {Kind: "bulk", Docs: []Doc{a2}}, {Kind: "seal"}}}
	wk := &worker{}
	res := wk.run(h)
	wk.stop()
	emitProbe(w, res)
}

// probeSameBulkDuplicate is a second observation outside the quantifier (each bulk carries pairwise
// distinct IDs): ONE bulk holds the same ID twice with different bytes. SetMultiple accepts the
// first and rejects the second, but Filter keeps every meta whose ID was accepted, so both metas
// get LIDs while DocsTotal counts one. Recorded in stats.json only.
func probeSameBulkDuplicate(w *casefile.Writer) {
	a := Doc{MID: 1041, RID: 1, Var: 0, Pad: 2, Toks: []int{tokenCode("k:a"), tokAll}}
	a2 := a
	a2.Var, a2.Pad = 1, 7
	h := History{Mode: "probe-same-bulk-duplicate", Workers: 1, ObsAt: []int{1, 2, 3},
		Steps: []Step{{Kind: "bulk", Docs: []Doc{a, a2}}, {Kind: "restart"}, {Kind: "seal"}}}
	wk := &worker{}
	res := wk.run(h)
	wk.stop()
	key := "observation:same-bulk-duplicate-id"
	w.Count(key)
	var seen []map[string]any
	for _, o := range res.obs {
		m := map[string]any{"stage": o.Stage, "docs_total": o.DocsTotal, "fetched_tag": o.Fetch}
		if len(o.Queries) > 0 {
			m["all_total"], m["all_ids"] = o.Queries[0].Total, len(o.Queries[0].IDs)
		}
		seen = append(seen, m)
	}
	w.Extra[key] = map[string]any{"history": h, "first_tag": a.tag(), "second_tag": a2.tag(), "observed": seen,
		"problem": crashLine(res.crash + res.fatal + res.err)}
}

func emitProbe(w *casefile.Writer, res histResult) {
	// stats-only observation: outside the quantifier (a repeated ID carries the tokens of its first
	// delivery), hence neither a violation nor a case
	if msg := res.crash + res.fatal + res.err; msg != "" {
		if res.crash != "" {
			msg = crashLine(res.crash)
		}
		w.Count("observation:repeat-new-token-empty-posting")
		w.Extra["observation:repeat-new-token-empty-posting"] = map[string]any{"history": res.h, "observed": msg}
		return
	}
	w.Count("observation:repeat-new-token-answers")
}

// crashLine extracts the panic / fatal message and the first frames from a dead child's stderr.
func crashLine(s string) string {
	for _, key := range []string{"panic:", "fatal error:", `"level":"fatal"`, `"level":"panic"`} {
		if i := strings.LastIndex(s, key); i >= 0 {
			s = s[i:]
			break
		}
	}
	if len(s) > 700 {
		s = s[:700]
	}
	return s
}

// ---------------------------------------------------------------- main

func main() {
	storectl.MaybeChild()
	if len(os.Args) > 1 && os.Args[1] == "-explore" {
		explore()
		return
	}
	seed := flag.Uint64("seed", 1, "")
	tier := flag.String("tier", "quick", "")
	out := flag.String("out", "", "")
	replay := flag.String("replay", "", "")
	flag.Parse()
	if *out == "" {
		fmt.Fprintln(os.Stderr, "need -out")
		os.Exit(2)
	}
	w, err := casefile.New(*out, "C17", "From VLib Require Import CaseLib.\nFrom C17 Require Import Model ModelSeal CaseDefs.", 40)
	if err != nil {
		panic(err)
	}
	t0 := time.Now()
	if *replay != "" {
		var rp struct {
			Replay struct {
				Case struct {
					Input json.RawMessage `json:"input"`
				} `json:"case"`
				Input json.RawMessage `json:"input"`
			} `json:"replay"`
		}
		b, err := os.ReadFile(*replay)
		if err != nil {
			panic(err)
		}
		if err := json.Unmarshal(b, &rp); err != nil {
			panic(err)
		}
		raw := rp.Replay.Case.Input
		if len(raw) == 0 {
			raw = rp.Replay.Input
		}
		var probe struct {
			Mode string `json:"mode"`
		}
		_ = json.Unmarshal(raw, &probe)
		switch probe.Mode {
		case "conc-steps":
			var c ConcCase
			if err := json.Unmarshal(raw, &c); err != nil {
				panic(err)
			}
			wk := &worker{}
			emitConc(w, c, wk.run(c.history()))
			wk.stop()
			w.Close()
			return
		case "set-stress", "pipe-stress":
			var sc StressCase
			if err := json.Unmarshal(raw, &sc); err != nil {
				panic(err)
			}
			for i := 0; i < 3; i++ { // a race: the replay repeats the case
				if sc.Mode == "set-stress" {
					setStressCase(w, sc)
				} else {
					pipeStressCase(w, sc)
				}
			}
			w.Close()
			return
		}
		var h History
		if err := json.Unmarshal(raw, &h); err != nil || len(h.Steps) == 0 {
			fmt.Fprintln(os.Stderr, "replay file holds no history (collector cases are replayed by seed)")
			os.Exit(2)
		}
		wk := &worker{}
		if h.Mode == "probe-new-token" {
			emitProbe(w, wk.run(h))
		} else {
			emitHistory(w, wk.run(h))
		}
		wk.stop()
		w.Close()
		return
	}
	nColl, nHist, nConc := 600, 330, 120
	nSet, setDocs, nPipe, pipeDocs, pipeRounds := 4, 60000, 4, 30000, 5
	if *tier == "thorough" {
		nColl, nHist, nConc = 12000, 6000, 2000
		nSet, nPipe, pipeRounds = 12, 10, 6
	}
	only := os.Getenv("HC17_ONLY") // "conc": the concurrent classes only (mutation testing aid)
	if only == "conc" {
		nColl, nHist = 0, 0
	}
	r := rng.New(*seed)
	collectorCases(w, r.Fork(), nColl)

	hr := r.Fork()
	cr := r.Fork()
	sr := r.Fork()
	ccs := make([]ConcCase, nConc)
	for i := range ccs {
		ccs[i] = genConcCase(cr.Fork())
	}
	hs := make([]History, nHist, nHist+nConc)
	for i := range hs {
		switch k := hr.Intn(10); {
		case k < 4:
			hs[i] = genHistory(hr.Fork(), "seq", 2+hr.Intn(5))
		case k < 6:
			hs[i] = genHistory(hr.Fork(), "cross", 2+hr.Intn(5))
		case k < 7:
			hs[i] = genHistory(hr.Fork(), "conc", 2+hr.Intn(5))
		default:
			hs[i] = genScenario(hr.Fork(), []string{"scn-restart-between", "scn-seal-repeat", "scn-overlap", "scn-degenerate"}[hr.Intn(4)])
		}
	}
	for _, c := range ccs {
		hs = append(hs, c.history())
	}
	results := make([]histResult, len(hs))
	var wg sync.WaitGroup
	next := make(chan int)
	for k := 0; k < 4; k++ {
		wg.Add(1)
		go func() {
			defer wg.Done()
			wk := &worker{}
			defer wk.stop()
			for i := range next {
				results[i] = wk.run(hs[i])
			}
		}()
	}
	for i := range hs {
		next <- i
	}
	close(next)
	wg.Wait()
	for _, res := range results[:nHist] {
		emitHistory(w, res)
	}
	for i, c := range ccs {
		emitConc(w, c, results[nHist+i])
	}
	// the stress cases run alone: the overlap of the critical sections needs the CPUs
	for _, sc := range genStress(sr, nSet, setDocs, nPipe, pipeDocs, pipeRounds) {
		if sc.Mode == "set-stress" {
			setStressCase(w, sc)
		} else {
			pipeStressCase(w, sc)
		}
	}
	if only == "" {
		probeNewToken(w)
		probeSameBulkDuplicate(w)
	}
	w.Extra["seconds"] = time.Since(t0).Seconds()
	if err := w.Close(); err != nil {
		panic(err)
	}
}

// ---------------------------------------------------------------- exploration (manual)

func explore() {
	r := rng.New(5)
	h := genHistory(r, "seq", 3)
	res := runHistory(h)
	j, _ := json.MarshalIndent(res.h, "", " ")
	fmt.Println(string(j))
	j, _ = json.Marshal(res.obs)
	fmt.Println(string(j), res.err, res.fatal)
}
