// hC17 — correspondence driver for property C17 (re-delivering a bulk does not duplicate
// documents).
package main

import (
	"encoding/json"
	"fmt"
	"os"

	"verif/harness/internal/fracbuild"
)

func explore() {
	dir, _ := os.MkdirTemp("", "verif-c17-")
	defer os.RemoveAll(dir)
	fm, err := fracbuild.NewFM(dir, nil)
	if err != nil {
		panic(err)
	}
	a := Doc{MID: 1005, RID: 1, Var: 0, Pad: 3, Toks: []int{1, 5, 0}, Nested: [][]int{{2, 0}, {2, 6, 0}}}
	b := Doc{MID: 1015, RID: 2, Var: 0, Pad: 0, Toks: []int{1, 0}}
	c := Doc{MID: 1015, RID: 3, Var: 0, Pad: 9, Toks: []int{2, 6, 0}}
	a2 := a
	a2.Var = 1
	a2.Pad = 7
	variants := map[idPair][]Doc{{1005, 1}: {a, a2}, {1015, 2}: {b}, {1015, 3}: {c}}
	probes := []Doc{a, b, c, {MID: 1, RID: 1}}
	show := func(stage string) {
		o, err := observe(fm, stage, probes, variants)
		if err != nil {
			panic(err)
		}
		j, _ := json.Marshal(o)
		fmt.Println(string(j))
		if act := fm.VerifC17Active(); act != nil {
			j, _ = json.Marshal(act.VerifC17State())
			fmt.Println(string(j))
		}
	}
	must := func(err error) {
		if err != nil {
			panic(err)
		}
	}
	must(sendBulk(fm, []Doc{a, b}))
	fm.WaitIdle()
	show("b1")
	must(sendBulk(fm, []Doc{c, a2}))
	fm.WaitIdle()
	show("b2")
	fracbuild.Seal(fm)
	show("sealed")
	must(sendBulk(fm, []Doc{a2, b}))
	fm.WaitIdle()
	show("cross")
	fm2, err := fracbuild.NewFM(dir, nil)
	must(err)
	fm = fm2
	show("restart")
}

func main() {
	if len(os.Args) > 1 && os.Args[1] == "-explore" {
		explore()
		return
	}
}
