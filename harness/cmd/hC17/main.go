// hC17 — correspondence driver for property C17 (re-delivering a bulk does not duplicate
// documents). Two kinds of cases (props/C17/coq/CaseDefs.v):
//
//	CColl  the real metaDataCollector (one instance reused for every case, as an append worker
//	       does): Init, AppendMeta*, Filter(appended), GroupLIDsByToken
//	CHist  histories of bulks with re-sent subsets through the real FracManager append path,
//	       observed by a copy of the active fraction's index state and by search / histogram /
//	       aggregation / fetch / DocsTotal on the active fraction, after seal and after restart
package main

import (
	"encoding/json"
	"errors"
	"flag"
	"fmt"
	"os"
	"sort"
	"strings"
	"sync"
	"time"

	"github.com/ozontech/seq-db/frac"
	"github.com/ozontech/seq-db/fracmanager"
	"github.com/ozontech/seq-db/seq"

	"verif/harness/internal/casefile"
	"verif/harness/internal/fracbuild"
	"verif/harness/internal/rng"
	"verif/harness/internal/storectl"
)

// ---------------------------------------------------------------- Coq rendering

func coqID(mid, rid uint64) string { return fmt.Sprintf("(%d%%N, %d%%N)", mid, rid) }

func coqNList(xs []int) string {
	p := make([]string, len(xs))
	for i, x := range xs {
		p[i] = fmt.Sprintf("%d%%N", x)
	}
	return "[" + strings.Join(p, "; ") + "]"
}

func coqMeta(mid, rid uint64, size int, toks []int) string {
	return fmt.Sprintf("(mkMeta %s %d%%N %s)", coqID(mid, rid), size, coqNList(toks))
}

// metas of a bulk with the body tag of each: list (meta * N)
func coqBulk(docs []Doc) string {
	var p []string
	for _, d := range docs {
		p = append(p, fmt.Sprintf("(%s, %d%%N)", coqMeta(d.MID, d.RID, d.size(), d.Toks), d.Var))
		for _, n := range d.Nested {
			p = append(p, fmt.Sprintf("(%s, %d%%N)", coqMeta(d.MID, d.RID, 0, n), d.Var))
		}
	}
	return "[" + strings.Join(p, "; ") + "]"
}

func coqIDs(ids []idPair) string {
	p := make([]string, len(ids))
	for i, x := range ids {
		p[i] = coqID(x[0], x[1])
	}
	return "[" + strings.Join(p, "; ") + "]"
}

func coqPairsNN(xs [][2]uint64) string {
	p := make([]string, len(xs))
	for i, x := range xs {
		p[i] = fmt.Sprintf("(%d%%N, %d%%N)", x[0], x[1])
	}
	return "[" + strings.Join(p, "; ") + "]"
}

func coqPos(p seq.DocPos) string {
	b, o := p.Unpack()
	return fmt.Sprintf("(%d, %d%%N)", b, o)
}

func u32s(xs []uint32) []int {
	out := make([]int, len(xs))
	for i, x := range xs {
		out[i] = int(x)
	}
	return out
}

// ---------------------------------------------------------------- generators

type gen struct{ r *rng.R }

// tokens of one meta: 0..4 tokens of k/g (sometimes the same token twice), then `_all_`;
// sometimes no token at all (only in collector cases: such a meta is invisible to search).
func (g gen) toks(allowBare bool) []int {
	if allowBare && g.r.Chance(1, 10) {
		return []int{}
	}
	var out []int
	kt, gt := []int{1, 2, 3, 4, 8}, []int{5, 6, 7, 9}
	n := g.r.Intn(4)
	for i := 0; i < n; i++ {
		out = append(out, rng.Pick(g.r, kt))
	}
	if len(out) > 0 && g.r.Chance(1, 6) {
		out = append(out, out[g.r.Intn(len(out))]) // a repeated token inside one document
	}
	if g.r.Chance(1, 2) { // at most one value of the group field per meta (a keyword field)
		out = append(out, rng.Pick(g.r, gt))
		if g.r.Chance(1, 8) {
			out = append(out, out[len(out)-1])
		}
	}
	rng.Shuffle(g.r, out)
	return append(out, tokAll)
}

func (g gen) doc(mid, rid uint64, allowBare bool) Doc {
	d := Doc{MID: mid, RID: rid, Var: 0, Pad: g.r.Intn(12), Toks: g.toks(allowBare)}
	if g.r.Chance(1, 4) {
		for i, n := 0, 1+g.r.Intn(2); i < n; i++ {
			d.Nested = append(d.Nested, g.toks(allowBare))
		}
	}
	return d
}

// ---------------------------------------------------------------- collector cases

func collectorCases(w *casefile.Writer, r *rng.R, n int) {
	g := gen{r}
	col := frac.VerifC17NewCollector()
	for k := 0; k < n; k++ {
		nd := 1 + r.Intn(6)
		var docs []Doc
		for i := 0; i < nd; i++ {
			docs = append(docs, g.doc(uint64(midLo+r.Intn(60)), uint64(k*10+i+1), true))
		}
		if r.Chance(1, 8) { // many tokens in one document
			d := &docs[r.Intn(nd)]
			d.Toks = nil
			for i := 0; i < 12; i++ {
				d.Toks = append(d.Toks, rng.Pick(r, []int{1, 2, 3, 4, 8}))
			}
			d.Toks = append(d.Toks, tokAll)
		}
		// which documents stay: chosen positions of the dropped ones
		keep := make([]bool, nd)
		shape := r.Intn(8)
		for i := range keep {
			switch shape {
			case 0:
				keep[i] = true
			case 1:
				keep[i] = false
			case 2:
				keep[i] = i != 0
			case 3:
				keep[i] = i != nd-1
			case 4:
				keep[i] = i == 0 || i == nd-1
			default:
				keep[i] = r.Bool()
			}
		}
		dofilter := shape != 0 || r.Bool()
		metas := metasOf(docs)
		var app []seq.ID
		var appPairs []idPair
		kept := 0
		for i, d := range docs {
			if keep[i] || !dofilter {
				kept++
				for j := 0; j <= len(d.Nested); j++ {
					app = append(app, d.id())
					appPairs = append(appPairs, idPair{d.MID, d.RID})
				}
			}
		}
		blk := r.Intn(6)
		first := 1 + r.Intn(40)
		var out frac.VerifC17Coll
		var perr any
		func() {
			defer func() { perr = recover() }()
			out = col.Run(metas, uint32(blk), dofilter, app, uint32(first))
		}()
		if perr != nil {
			w.Violate("collector-panic", fmt.Sprintf("the bulk collector panicked: %v", perr),
				map[string]any{"docs": docs, "keep": keep, "filter": dofilter, "block": blk, "first_lid": first, "case_number": k})
			col = frac.VerifC17NewCollector()
			continue
		}

		var ms []string
		for _, d := range docs {
			ms = append(ms, coqMeta(d.MID, d.RID, d.size(), d.Toks))
			for _, nn := range d.Nested {
				ms = append(ms, coqMeta(d.MID, d.RID, 0, nn))
			}
		}
		var ids []idPair
		for _, id := range out.IDs {
			ids = append(ids, idPair{uint64(id.MID), uint64(id.RID)})
		}
		var ps []string
		for _, p := range out.Positions {
			ps = append(ps, coqPos(p))
		}
		var tvals []int
		bad := false
		for _, t := range out.TokensValues {
			c := tokenCode(t)
			if c < 0 {
				bad = true
			}
			tvals = append(tvals, c)
		}
		if bad {
			w.Violate("collector-foreign-token", "TokensValues holds a token that was not sent", docs)
			continue
		}
		var groups []string
		for _, gr := range out.Groups {
			groups = append(groups, casefile.NatList(u32s(gr)))
		}
		impl := fmt.Sprintf("(mkOut %s [%s] %s %s %s %d%%N %d%%N %d%%N [%s])", coqIDs(ids), strings.Join(ps, "; "),
			casefile.NatList(u32s(out.TokensInDocs)), casefile.NatList(out.TokensIndex), coqNList(tvals),
			out.DocsCounter, uint64(out.MinMID), uint64(out.MaxMID), strings.Join(groups, "; "))
		term := fmt.Sprintf("CColl %d [%s] %s %s %d %s", blk, strings.Join(ms, "; "), casefile.Bool(dofilter),
			coqIDs(appPairs), first, impl)
		class := "collector-nofilter"
		if dofilter {
			switch {
			case kept == 0:
				class = "collector-filter-all-dropped"
			case kept == nd:
				class = "collector-filter-none-dropped"
			default:
				class = "collector-filter-partial"
			}
		}
		nested := false
		for _, d := range docs {
			nested = nested || len(d.Nested) > 0
		}
		if nested {
			w.Count("collector:with-nested")
		}
		w.Add(term, class, dofilter && kept > 0 && kept < nd,
			map[string]any{"docs": docs, "keep": keep, "filter": dofilter, "block": blk, "first_lid": first},
			map[string]any{"ids": ids, "tokens_in_docs": out.TokensInDocs, "tokens_index": out.TokensIndex,
				"tokens_values": out.TokensValues, "groups": out.Groups, "docs_counter": out.DocsCounter})
	}
}

// ---------------------------------------------------------------- history cases

type Step struct {
	Kind  string  `json:"kind"` // bulk conc seal restart
	Docs  []Doc   `json:"docs,omitempty"`
	Bulks [][]Doc `json:"bulks,omitempty"`
}

type History struct {
	Mode  string `json:"mode"` // seq cross conc
	Steps []Step `json:"steps"`
	// ObsAt: numbers of executed steps after which the store is observed; DumpAt: after how many
	// steps the active fraction's state is copied (-1 = never)
	ObsAt  []int `json:"obs_at"`
	DumpAt int   `json:"dump_at"`
}

// genHistory builds a history. mode seq: one fraction, sequential bulks; a re-sent document
// carries the same tokens but sometimes other bytes (a probe: the first delivery must win);
// then seal and restart. mode cross: a seal in the middle, repeats (identical content) land in
// a later fraction. mode conc: groups of bulks delivered concurrently (identical content),
// restart before the seal (replay of the active fraction), then seal and restart.
func genHistory(r *rng.R, mode string, nbulks int) History {
	g := gen{r}
	h := History{Mode: mode, DumpAt: -1}
	var sent [][]Doc // earlier bulks
	var all []Doc    // first deliveries
	nextRID := uint64(1)
	resend := func(d Doc) Doc {
		if mode == "seq" && r.Chance(1, 2) {
			d.Var++
			d.Pad = r.Intn(12)
		}
		return d
	}
	mkBulk := func() []Doc {
		var b []Doc
		used := map[idPair]bool{}
		shape := r.Intn(10)
		switch {
		case len(sent) > 0 && shape == 0: // whole-bulk repeat
			for _, d := range sent[r.Intn(len(sent))] {
				b = append(b, resend(d))
			}
			return b
		case len(sent) > 0 && shape == 1: // whole-bulk repeat, other order
			for _, d := range sent[r.Intn(len(sent))] {
				b = append(b, resend(d))
			}
			rng.Shuffle(r, b)
			return b
		}
		nnew := r.Intn(4)
		if (len(all) == 0 || shape == 2) && nnew == 0 {
			nnew = 1
		}
		for i := 0; i < nnew; i++ {
			d := g.doc(uint64(midLo+r.Intn(60)), nextRID, false)
			nextRID++
			b = append(b, d)
			used[idPair{d.MID, d.RID}] = true
		}
		if len(all) > 0 && shape != 2 {
			nold := 1 + r.Intn(3)
			for i := 0; i < nold; i++ {
				d := all[r.Intn(len(all))]
				if used[idPair{d.MID, d.RID}] {
					continue
				}
				used[idPair{d.MID, d.RID}] = true
				b = append(b, resend(d))
			}
		}
		switch r.Intn(4) { // position of the repeats: last, first, shuffled
		case 0:
		case 1:
			for i, j := 0, len(b)-1; i < j; i, j = i+1, j-1 {
				b[i], b[j] = b[j], b[i]
			}
		default:
			rng.Shuffle(r, b)
		}
		return b
	}
	record := func(b []Doc) {
		sent = append(sent, b)
		for _, d := range b {
			known := false
			for _, a := range all {
				known = known || (a.MID == d.MID && a.RID == d.RID)
			}
			if !known {
				all = append(all, d)
			}
		}
	}
	sealAt := -1
	if mode == "cross" {
		sealAt = 1 + r.Intn(nbulks)
	}
	for i := 0; i < nbulks; i++ {
		if mode == "conc" && r.Chance(1, 2) {
			var bs [][]Doc
			for j, n := 0, 2+r.Intn(2); j < n; j++ {
				b := mkBulk()
				if j > 0 && r.Chance(1, 2) { // the retry racing with the original
					b = append([]Doc{}, bs[0]...)
				}
				bs = append(bs, b)
			}
			for _, b := range bs {
				record(b)
			}
			h.Steps = append(h.Steps, Step{Kind: "conc", Bulks: bs})
		} else {
			b := mkBulk()
			record(b)
			h.Steps = append(h.Steps, Step{Kind: "bulk", Docs: b})
		}
		if i+1 == sealAt {
			h.ObsAt = append(h.ObsAt, len(h.Steps))
			h.Steps = append(h.Steps, Step{Kind: "seal"})
		}
	}
	if mode == "seq" {
		h.DumpAt = len(h.Steps)
	}
	h.ObsAt = append(h.ObsAt, len(h.Steps))
	if mode == "conc" {
		h.Steps = append(h.Steps, Step{Kind: "restart"})
		h.ObsAt = append(h.ObsAt, len(h.Steps))
	}
	h.Steps = append(h.Steps, Step{Kind: "seal"})
	h.ObsAt = append(h.ObsAt, len(h.Steps))
	h.Steps = append(h.Steps, Step{Kind: "restart"})
	h.ObsAt = append(h.ObsAt, len(h.Steps))
	return h
}

type histResult struct {
	h     History
	obs   []Obs
	dump  *frac.VerifC17State
	err   string
	fatal string // panic in the goroutine applying the history (recovered)
	crash string // the store process died (panic in a background goroutine, logger.Fatal)
}

// wire form of a histResult between the storectl child and the driver
type histWire struct {
	Obs   []Obs               `json:"obs"`
	Dump  *frac.VerifC17State `json:"dump,omitempty"`
	Err   string              `json:"err,omitempty"`
	Fatal string              `json:"fatal,omitempty"`
}

const opHistory = "c17-history"

func init() {
	// executed in the child: the whole history runs on a real store inside the child process
	storectl.Register(opHistory, func(_ *storectl.Child, r storectl.Req) (storectl.Resp, error) {
		var h History
		if err := json.Unmarshal(r.Extra, &h); err != nil {
			return storectl.Resp{}, err
		}
		res := runHistory(h)
		b, err := json.Marshal(histWire{Obs: res.obs, Dump: res.dump, Err: res.err, Fatal: res.fatal})
		if err != nil {
			return storectl.Resp{}, err
		}
		return storectl.Resp{Extra: b}, nil
	})
}

// worker owns one child process; the child is replaced when it died and recycled after a number
// of histories (every restart inside a history leaves the previous manager's files open).
type worker struct {
	st *storectl.Store
	n  int
}

func (wk *worker) stop() {
	if wk.st != nil {
		wk.st.Close()
		wk.st = nil
	}
	wk.n = 0
}

func (wk *worker) run(h History) (res histResult) {
	res.h = h
	if wk.st == nil {
		st, err := storectl.Start("")
		if err != nil {
			panic(err)
		}
		wk.st = st
	}
	hb, _ := json.Marshal(h)
	resp, err := wk.st.Call(storectl.Req{Op: opHistory, Extra: hb})
	if err != nil {
		if errors.Is(err, storectl.ErrDied) {
			res.crash = err.Error()
			wk.st.Kill()
			wk.stop()
			return
		}
		res.err = "driver protocol: " + err.Error()
		return
	}
	var hw histWire
	if err := json.Unmarshal(resp.Extra, &hw); err != nil {
		res.err = "driver protocol: " + err.Error()
		return
	}
	res.obs, res.dump, res.err, res.fatal = hw.Obs, hw.Dump, hw.Err, hw.Fatal
	if wk.n++; wk.n >= 150 {
		wk.stop()
	}
	return
}

func runHistory(h History) (res histResult) {
	res.h = h
	defer func() {
		if p := recover(); p != nil {
			res.fatal = fmt.Sprint(p)
		}
	}()
	dir, err := os.MkdirTemp("", "verif-c17-")
	if err != nil {
		panic(err)
	}
	defer os.RemoveAll(dir)
	fm, err := fracbuild.NewFM(dir, nil)
	if err != nil {
		res.err = "open: " + err.Error()
		return
	}
	variants := map[idPair][]Doc{}
	var probes []Doc
	addDocs := func(ds []Doc) {
		for _, d := range ds {
			k := idPair{d.MID, d.RID}
			if len(variants[k]) == 0 {
				probes = append(probes, d)
			}
			variants[k] = append(variants[k], d)
		}
	}
	for _, s := range h.Steps {
		addDocs(s.Docs)
		for _, b := range s.Bulks {
			addDocs(b)
		}
	}
	probes = append(probes, Doc{MID: 7, RID: 7})
	obsAt := map[int]bool{}
	for _, k := range h.ObsAt {
		obsAt[k] = true
	}
	after := func(k int) bool {
		if k == h.DumpAt {
			if act := fm.VerifC17Active(); act != nil {
				st := act.VerifC17State()
				res.dump = &st
			}
		}
		if obsAt[k] {
			o, err := observe(fm, fmt.Sprint(k), probes, variants)
			if err != nil {
				res.err = err.Error()
				return false
			}
			res.obs = append(res.obs, o)
		}
		return true
	}
	if !after(0) {
		return
	}
	for i, s := range h.Steps {
		switch s.Kind {
		case "bulk":
			err = sendBulk(fm, s.Docs)
			fm.WaitIdle()
		case "conc":
			err = sendConcurrently(fm, s.Bulks)
			fm.WaitIdle()
		case "seal":
			fracbuild.Seal(fm)
		case "restart":
			fracbuild.Close(fm)
			var fm2 *fracmanager.FracManager
			fm2, err = fracbuild.NewFM(dir, nil)
			if err == nil {
				fm = fm2
			}
		}
		if err != nil {
			res.err = fmt.Sprintf("step %d (%s): %v", i, s.Kind, err)
			return
		}
		if !after(i + 1) {
			return
		}
	}
	fracbuild.Close(fm)
	release(fm)
	return
}

// release closes the files and stops the goroutines of every fraction of a manager whose data
// directory is about to be removed.
func release(fm *fracmanager.FracManager) {
	defer func() { _ = recover() }()
	for _, f := range fm.GetAllFracs() {
		f.Suicide()
	}
}

func coqStep(s Step) string {
	switch s.Kind {
	case "bulk":
		return "SBulk " + coqBulk(s.Docs)
	case "conc":
		var p []string
		for _, b := range s.Bulks {
			p = append(p, coqBulk(b))
		}
		return "SConc [" + strings.Join(p, "; ") + "]"
	case "seal":
		return "SSeal"
	}
	return "SRestart"
}

func coqQres(q QRes) string {
	return fmt.Sprintf("(%d%%N, mkQres %s %d%%N %s %s %d%%N)", q.Tok, coqIDs(q.IDs), q.Total, coqPairsNN(q.Hist),
		coqPairsNN(q.Agg), q.NotExists)
}

func coqObs(o Obs, probes []idPair) string {
	var qs, fs, ts []string
	for _, q := range o.Queries {
		qs = append(qs, coqQres(q))
	}
	for i, v := range o.Fetch {
		b := "None"
		if v >= 0 {
			b = fmt.Sprintf("(Some %d%%N)", v)
		} else if v == -2 {
			b = "(Some 999999%N)" // bytes of no delivery of this ID
		}
		fs = append(fs, fmt.Sprintf("(%s, %s)", coqID(probes[i][0], probes[i][1]), b))
	}
	for _, t := range o.DocsTotal {
		ts = append(ts, fmt.Sprintf("%d%%N", t))
	}
	return fmt.Sprintf("(mkObs [%s] [%s] [%s])", strings.Join(qs, "; "), strings.Join(fs, "; "), strings.Join(ts, "; "))
}

func coqDump(st *frac.VerifC17State) (string, error) {
	var ids []idPair
	for i := range st.MIDs {
		ids = append(ids, idPair{st.MIDs[i], st.RIDs[i]})
	}
	var toks []string
	for name := range st.Tokens {
		if tokenCode(name) < 0 {
			return "", fmt.Errorf("token %q in the active fraction was never sent", name)
		}
	}
	for c, name := range tokenNames {
		l := u32s(st.Tokens[name])
		sort.Ints(l)
		toks = append(toks, fmt.Sprintf("(%d%%N, %s)", c, casefile.NatList(l)))
	}
	var ps []string
	for i, id := range st.PosIDs {
		ps = append(ps, fmt.Sprintf("(%s, %s)", coqID(uint64(id.MID), uint64(id.RID)), coqPos(st.Pos[i])))
	}
	return fmt.Sprintf("(mkDump %s [%s] [%s] %d %d%%N %d%%N %d%%N)", coqIDs(ids), strings.Join(toks, "; "),
		strings.Join(ps, "; "), st.Blocks, st.DocsTotal, uint64(st.From), uint64(st.To)), nil
}

func emitHistory(w *casefile.Writer, res histResult) {
	h := res.h
	if res.crash != "" {
		w.Violate("history-crash", "the store process died while a history of bulks was applied (panic in a background "+
			"goroutine or Fatal): "+crashLine(res.crash), h)
		return
	}
	if res.fatal != "" {
		w.Violate("history-panic", "the store panicked while a history of bulks was applied: "+res.fatal, h)
		return
	}
	if res.err != "" {
		w.Violate("history-error", "the store returned an error where none is allowed: "+res.err, h)
		return
	}
	var probes []idPair
	seen := map[idPair]bool{}
	add := func(ds []Doc) {
		for _, d := range ds {
			k := idPair{d.MID, d.RID}
			if !seen[k] {
				seen[k] = true
				probes = append(probes, k)
			}
		}
	}
	repeats, total, nested := 0, 0, false
	for _, s := range h.Steps {
		bs := s.Bulks
		if s.Kind == "bulk" {
			bs = [][]Doc{s.Docs}
		}
		for _, b := range bs {
			for _, d := range b {
				total++
				if seen[idPair{d.MID, d.RID}] {
					repeats++
				}
				nested = nested || len(d.Nested) > 0
			}
			add(b)
		}
	}
	probes = append(probes, idPair{7, 7})
	var steps []string
	for _, s := range h.Steps {
		steps = append(steps, coqStep(s))
	}
	dmp := "None"
	if res.dump != nil && h.DumpAt >= 0 {
		d, err := coqDump(res.dump)
		if err != nil {
			w.Violate("history-foreign-token", err.Error(), h)
			return
		}
		dmp = fmt.Sprintf("(Some (%d, %s))", h.DumpAt, d)
	}
	var obs []string
	for i, o := range res.obs {
		obs = append(obs, fmt.Sprintf("(%d, %s)", h.ObsAt[i], coqObs(o, probes)))
	}
	term := fmt.Sprintf("CHist [%s] %s [%s]", strings.Join(steps, "; "), dmp, strings.Join(obs, ";\n      "))
	if nested {
		w.Count("history:with-nested")
	}
	if repeats > 0 {
		w.Count("history:with-repeats")
	}
	w.Dist["history:documents-sent"] += total
	w.Dist["history:repeats-sent"] += repeats
	w.Add(term, "history-"+h.Mode, repeats > 0 && repeats < total, h, map[string]any{"obs": res.obs, "dump": res.dump})
}

// probeNewToken is one deliberate history outside the property's quantifier (a re-delivery of
// the same bytes carries the same tokens): a known ID arrives again with a token that is new to
// the fraction. The repeat is dropped, but its token is entered into the token list with an
// empty posting list; after seal a search for it panics inside the store (recovered by the
// searcher). Recorded in stats.json only (decision of the lead: not a violation of C17).
func probeNewToken(w *casefile.Writer) {
	a := Doc{MID: 1039, RID: 1, Var: 0, Pad: 4, Toks: []int{tokAll}}
	a2 := a
	a2.Toks = []int{tokenCode("k:a"), tokAll}
	h := History{Mode: "probe-new-token", DumpAt: -1, ObsAt: []int{2, 3},
		Steps: []Step{{Kind: "bulk", Docs: []Doc{a}}, {Kind: "bulk", Docs: []Doc{a2}}, {Kind: "seal"}}}
	wk := &worker{}
	res := wk.run(h)
	wk.stop()
	emitProbe(w, res)
}

func emitProbe(w *casefile.Writer, res histResult) {
	// stats-only observation: outside the quantifier (a repeated ID carries the tokens of its first
	// delivery), hence neither a violation nor a case
	if msg := res.crash + res.fatal + res.err; msg != "" {
		if res.crash != "" {
			msg = crashLine(res.crash)
		}
		w.Count("observation:repeat-new-token-empty-posting")
		w.Extra["observation:repeat-new-token-empty-posting"] = map[string]any{"history": res.h, "observed": msg}
		return
	}
	w.Count("observation:repeat-new-token-answers")
}

// crashLine extracts the panic / fatal message and the first frames from a dead child's stderr.
func crashLine(s string) string {
	for _, key := range []string{"panic:", "fatal error:", `"level":"fatal"`, `"level":"panic"`} {
		if i := strings.LastIndex(s, key); i >= 0 {
			s = s[i:]
			break
		}
	}
	if len(s) > 700 {
		s = s[:700]
	}
	return s
}

// ---------------------------------------------------------------- main

func main() {
	storectl.MaybeChild()
	if len(os.Args) > 1 && os.Args[1] == "-explore" {
		explore()
		return
	}
	seed := flag.Uint64("seed", 1, "")
	tier := flag.String("tier", "quick", "")
	out := flag.String("out", "", "")
	replay := flag.String("replay", "", "")
	flag.Parse()
	if *out == "" {
		fmt.Fprintln(os.Stderr, "need -out")
		os.Exit(2)
	}
	w, err := casefile.New(*out, "C17", "From VLib Require Import CaseLib.\nFrom C17 Require Import Model CaseDefs.", 40)
	if err != nil {
		panic(err)
	}
	t0 := time.Now()
	if *replay != "" {
		var rp struct {
			Replay struct {
				Case struct {
					Input json.RawMessage `json:"input"`
				} `json:"case"`
				Input json.RawMessage `json:"input"`
			} `json:"replay"`
		}
		b, err := os.ReadFile(*replay)
		if err != nil {
			panic(err)
		}
		if err := json.Unmarshal(b, &rp); err != nil {
			panic(err)
		}
		raw := rp.Replay.Case.Input
		if len(raw) == 0 {
			raw = rp.Replay.Input
		}
		var h History
		if err := json.Unmarshal(raw, &h); err != nil || len(h.Steps) == 0 {
			fmt.Fprintln(os.Stderr, "replay file holds no history (collector cases are replayed by seed)")
			os.Exit(2)
		}
		wk := &worker{}
		if h.Mode == "probe-new-token" {
			emitProbe(w, wk.run(h))
		} else {
			emitHistory(w, wk.run(h))
		}
		wk.stop()
		w.Close()
		return
	}
	nColl, nHist := 600, 330
	if *tier == "thorough" {
		nColl, nHist = 12000, 6000
	}
	r := rng.New(*seed)
	collectorCases(w, r.Fork(), nColl)

	hr := r.Fork()
	hs := make([]History, nHist)
	for i := range hs {
		mode := []string{"seq", "seq", "seq", "cross", "conc"}[hr.Intn(5)]
		hs[i] = genHistory(hr.Fork(), mode, 2+hr.Intn(5))
	}
	results := make([]histResult, nHist)
	var wg sync.WaitGroup
	next := make(chan int)
	for k := 0; k < 6; k++ {
		wg.Add(1)
		go func() {
			defer wg.Done()
			wk := &worker{}
			defer wk.stop()
			for i := range next {
				results[i] = wk.run(hs[i])
			}
		}()
	}
	for i := range hs {
		next <- i
	}
	close(next)
	wg.Wait()
	for _, res := range results {
		emitHistory(w, res)
	}
	probeNewToken(w)
	w.Extra["seconds"] = time.Since(t0).Seconds()
	if err := w.Close(); err != nil {
		panic(err)
	}
}

// ---------------------------------------------------------------- exploration (manual)

func explore() {
	r := rng.New(5)
	h := genHistory(r, "seq", 3)
	res := runHistory(h)
	j, _ := json.MarshalIndent(res.h, "", " ")
	fmt.Println(string(j))
	j, _ = json.Marshal(res.obs)
	fmt.Println(string(j), res.err, res.fatal)
}
