package main

import (
	"context"
	"fmt"
	"sort"
	"strings"
	"sync"

	"github.com/ozontech/seq-db/frac"
	"github.com/ozontech/seq-db/frac/processor"
	"github.com/ozontech/seq-db/fracmanager"
	"github.com/ozontech/seq-db/parser"
	"github.com/ozontech/seq-db/seq"

	"verif/harness/internal/fracbuild"
)

// ---------------------------------------------------------------- documents

// Token table: code 0 is the `_all_:` token every meta carries (last, as the proxy and
// fracbuild put it); the others are keyword tokens of the fields k (search key) and g (group).
var tokenNames = []string{"_all_:", "k:a", "k:b", "k:c", "k:d", "g:x", "g:y", "g:z", "k:e", "g:w"}

const tokAll = 0

func tokenCode(s string) int {
	for i, n := range tokenNames {
		if n == s {
			return i
		}
	}
	return -1
}

var mapping = seq.Mapping{
	"k": seq.NewSingleType(seq.TokenizerTypeKeyword, "", 0),
	"g": seq.NewSingleType(seq.TokenizerTypeKeyword, "", 0),
}

// Doc is one document of a bulk: ID, body variant (the body bytes are a function of ID,
// variant and pad, so a fetched body identifies the delivery it came from), the tokens of the
// main meta and of every nested meta (nested metas have size 0 and follow their parent).
type Doc struct {
	MID    uint64  `json:"mid"`
	RID    uint64  `json:"rid"`
	Var    int     `json:"var"`
	Pad    int     `json:"pad"`
	Toks   []int   `json:"toks"`
	Nested [][]int `json:"nested,omitempty"`
}

func (d Doc) id() seq.ID { return seq.ID{MID: seq.MID(d.MID), RID: seq.RID(d.RID)} }

func (d Doc) body() []byte {
	return []byte(fmt.Sprintf(`{"i":"%d-%d","v":%d,"p":"%s"}`, d.MID, d.RID, d.Var, strings.Repeat("x", d.Pad)))
}

func (d Doc) size() int { return len(d.body()) }

// tag names the bytes of a delivery in the Coq terms: variant * 4096 + length (ModelSeal.body_len).
func (d Doc) tag() int { return d.Var*4096 + d.size() }

func seqTokens(codes []int) []seq.Token {
	out := make([]seq.Token, 0, len(codes))
	for _, c := range codes {
		n := tokenNames[c]
		i := strings.IndexByte(n, ':')
		out = append(out, seq.Token{Field: []byte(n[:i]), Val: []byte(n[i+1:])})
	}
	return out
}

func metaTokens(codes []int) []frac.MetaToken {
	out := make([]frac.MetaToken, 0, len(codes))
	for _, t := range seqTokens(codes) {
		out = append(out, frac.MetaToken{Key: t.Field, Value: t.Val})
	}
	return out
}

// metasOf lists the metas of a bulk as the proxy sends them.
func metasOf(docs []Doc) []frac.MetaData {
	var out []frac.MetaData
	for _, d := range docs {
		out = append(out, frac.MetaData{ID: d.id(), Size: uint32(d.size()), Tokens: metaTokens(d.Toks)})
		for _, n := range d.Nested {
			out = append(out, frac.MetaData{ID: d.id(), Size: 0, Tokens: metaTokens(n)})
		}
	}
	return out
}

// sendBulk passes the documents as one bulk through the real append path (docs and metas
// blocks built by the real DocProvider).
func sendBulk(fm *fracmanager.FracManager, docs []Doc) error {
	dp := frac.NewDocProvider()
	for _, d := range docs {
		dp.Append(d.body(), nil, d.id(), seqTokens(d.Toks))
		for _, n := range d.Nested {
			dp.VerifC17AppendNested(d.id(), seqTokens(n))
		}
	}
	docsBlock, metas := dp.Provide()
	return fm.Append(context.Background(), docsBlock, metas)
}

// sendConcurrently delivers several bulks at once (proxy retries racing with the original).
func sendConcurrently(fm *fracmanager.FracManager, bulks [][]Doc) error {
	var wg sync.WaitGroup
	errs := make([]error, len(bulks))
	for i := range bulks {
		wg.Add(1)
		go func(i int) {
			defer wg.Done()
			errs[i] = sendBulk(fm, bulks[i])
		}(i)
	}
	wg.Wait()
	for _, e := range errs {
		if e != nil {
			return e
		}
	}
	return nil
}

// ---------------------------------------------------------------- observations

type idPair [2]uint64

func lessID(a, b idPair) bool {
	if a[0] != b[0] {
		return a[0] < b[0]
	}
	return a[1] < b[1]
}

// QRes is the result of one single-token query with total, histogram and a count aggregation
// grouped by field g.
type QRes struct {
	Tok       int         `json:"tok"`
	IDs       []idPair    `json:"ids"`
	Total     uint64      `json:"total"`
	Hist      [][2]uint64 `json:"hist"` // sorted by bucket, zero buckets dropped
	Agg       [][2]uint64 `json:"agg"`  // (token code of g, count), sorted, zero counts dropped
	NotExists int64       `json:"not_exists"`
}

type Obs struct {
	Stage     string   `json:"stage"`
	Queries   []QRes   `json:"queries"`
	Fetch     []int    `json:"fetch"`      // per probed ID: tag of the delivery whose bytes came back, -1 = not found, -2 = foreign bytes
	DocsTotal []uint32 `json:"docs_total"` // Info().DocsTotal of every fraction holding documents, oldest first
}

const (
	histInterval = 10
	midLo        = 1000
	midHi        = 1100
)

func observe(fm *fracmanager.FracManager, stage string, probes []Doc, variants map[idPair][]Doc) (Obs, error) {
	o := Obs{Stage: stage}
	fracs := fracbuild.Fracs(fm)
	for _, f := range fracs {
		o.DocsTotal = append(o.DocsTotal, f.Info().DocsTotal)
	}
	for t := range tokenNames {
		text := tokenNames[t]
		if t == tokAll {
			text = "*"
		} else {
			text = strings.Replace(text, ":", `:"`, 1) + `"`
		}
		q := fracbuild.Query{Text: text, Mapping: mapping, From: 0, To: 1 << 40, Limit: 10000, WithTotal: true,
			Hist: histInterval,
			AggQ: []processor.AggQuery{{
				GroupBy: &parser.Literal{Field: "g", Terms: []parser.Term{{Kind: parser.TermSymbol, Data: "*"}}},
				Func:    seq.AggFuncCount,
			}}}
		qpr, err := fracbuild.Search(fracs, q, 0)
		if err != nil {
			return o, fmt.Errorf("search %q: %w", text, err)
		}
		r := QRes{Tok: t, Total: qpr.Total}
		for _, id := range qpr.IDs {
			r.IDs = append(r.IDs, idPair{uint64(id.ID.MID), uint64(id.ID.RID)})
		}
		for b, c := range qpr.Histogram {
			if c != 0 {
				r.Hist = append(r.Hist, [2]uint64{uint64(b), c})
			}
		}
		sort.Slice(r.Hist, func(i, j int) bool { return r.Hist[i][0] < r.Hist[j][0] })
		if len(qpr.Aggs) == 1 {
			r.NotExists = qpr.Aggs[0].NotExists
			for bin, s := range qpr.Aggs[0].SamplesByBin {
				if bin.Token == "_not_exists" {
					continue // legacy copy of NotExists
				}
				c := tokenCode("g:" + bin.Token)
				if c < 0 {
					return o, fmt.Errorf("aggregation bin %q is no token of the case", bin.Token)
				}
				if s.Total != 0 {
					r.Agg = append(r.Agg, [2]uint64{uint64(c), uint64(s.Total)})
				}
			}
			sort.Slice(r.Agg, func(i, j int) bool { return r.Agg[i][0] < r.Agg[j][0] })
		}
		o.Queries = append(o.Queries, r)
	}
	ids := make([]seq.ID, len(probes))
	for i, p := range probes {
		ids[i] = p.id()
	}
	got, err := fracbuild.Fetch(fracs, ids)
	if err != nil {
		return o, fmt.Errorf("fetch: %w", err)
	}
	for i, p := range probes {
		v := -2
		if len(got[i]) == 0 {
			v = -1
		}
		for _, d := range variants[idPair{p.MID, p.RID}] {
			if string(d.body()) == string(got[i]) {
				v = d.tag()
			}
		}
		o.Fetch = append(o.Fetch, v)
	}
	return o, nil
}
