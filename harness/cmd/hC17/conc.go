// Concurrent deliveries (props/C17/coq/ModelConc.v, CaseDefs.v: CConc, CSetStress, CPipeStress).
//
//	conc-steps   small groups of bulks (copies, reordered copies, partial overlaps with new documents,
//	             nested metas) delivered concurrently to a fraction with 4 index workers; the step
//	             model runs them under a random interleaving of atomic steps drawn here and must
//	             predict the order-insensitive observables of the real store
//	set-stress   g goroutines call the real DocsPositions.SetMultiple at the same moment with
//	             identical / partially overlapping lists of tens of thousands of IDs
//	pipe-stress  the same bulk of tens of thousands of tiny documents released together c times
//	             into FracManager.Append of a store with >= 4 index workers (plus partially
//	             overlapping bulks), several rounds per fraction
package main

import (
	"context"
	"encoding/json"
	"fmt"
	"os"
	"sort"
	"strings"
	"sync"

	"github.com/ozontech/seq-db/conf"
	"github.com/ozontech/seq-db/frac"
	"github.com/ozontech/seq-db/frac/processor"
	"github.com/ozontech/seq-db/seq"

	"verif/harness/internal/casefile"
	"verif/harness/internal/fracbuild"
	"verif/harness/internal/rng"
	"verif/harness/internal/storectl"
)

// ---------------------------------------------------------------- conc-steps

// ConcCase: optional first bulk (indexed before the group starts), a group of bulks delivered
// concurrently, the queues of the model's workers (numbers of bulks: 0 = Pre, k = Group[k-1]) and
// the interleaving of their atomic steps.
type ConcCase struct {
	Mode   string  `json:"mode"`
	Pre    []Doc   `json:"pre,omitempty"`
	Group  [][]Doc `json:"group"`
	Queues [][]int `json:"queues"`
	Sched  []int   `json:"sched"`
}

// atomic steps of the model's worker for one bulk: take, set, ids, one put per distinct token, stats
func stepsOf(b []Doc) int {
	seen := map[int]bool{}
	for _, d := range b {
		for _, t := range d.Toks {
			seen[t] = true
		}
		for _, n := range d.Nested {
			for _, t := range n {
				seen[t] = true
			}
		}
	}
	return 4 + len(seen)
}

func genConcCase(r *rng.R) ConcCase {
	g := gen{r}
	c := ConcCase{Mode: "conc-steps"}
	rid := uint64(1)
	fresh := func(n int) []Doc {
		var out []Doc
		for i := 0; i < n; i++ {
			out = append(out, g.doc(uint64(midLo+r.Intn(60)), rid, false))
			rid++
		}
		return out
	}
	base := fresh(1 + r.Intn(5))
	if r.Chance(1, 3) { // a part of the documents is already indexed when the group arrives
		c.Pre = append(append([]Doc{}, base[:1+r.Intn(len(base))]...), fresh(r.Intn(2))...)
		rng.Shuffle(r, c.Pre)
	}
	for i, n := 0, 2+r.Intn(4); i < n; i++ {
		var b []Doc
		switch r.Intn(5) {
		case 0, 1: // the retry: the same bulk
			b = append(b, base...)
		case 2: // the same documents in another order
			b = append(b, base...)
			rng.Shuffle(r, b)
		case 3: // partial overlap with new documents
			b = append(b, base[r.Intn(len(base)):]...)
			b = append(b, fresh(1+r.Intn(2))...)
			rng.Shuffle(r, b)
		default: // new documents only
			b = fresh(1 + r.Intn(3))
		}
		c.Group = append(c.Group, b)
	}
	nw := 2 + r.Intn(3)
	c.Queues = make([][]int, nw)
	left := make([]int, nw) // steps still to be scheduled per worker
	if c.Pre != nil {
		c.Queues[0] = append(c.Queues[0], 0)
		for i, n := 0, stepsOf(c.Pre); i < n; i++ {
			c.Sched = append(c.Sched, 0)
		}
	}
	for k, b := range c.Group {
		w := r.Intn(nw)
		c.Queues[w] = append(c.Queues[w], k+1)
		left[w] += stepsOf(b)
	}
	for {
		var live []int
		for w, n := range left {
			if n > 0 {
				live = append(live, w)
			}
		}
		if len(live) == 0 {
			break
		}
		w := rng.Pick(r, live)
		burst := 1
		if r.Chance(1, 4) {
			burst = 1 + r.Intn(4)
		}
		for ; burst > 0 && left[w] > 0; burst-- {
			c.Sched = append(c.Sched, w)
			left[w]--
		}
	}
	c.Sched = append(c.Sched, nw) // a number without a worker: nothing happens
	return c
}

func (c ConcCase) history() History {
	h := History{Mode: c.Mode, Workers: 4}
	if c.Pre != nil {
		h.Steps = append(h.Steps, Step{Kind: "bulk", Docs: c.Pre})
	}
	h.Steps = append(h.Steps, Step{Kind: "conc", Bulks: c.Group})
	h.ObsAt = []int{len(h.Steps)}
	return h
}

func emitConc(w *casefile.Writer, c ConcCase, res histResult) {
	if res.crash != "" {
		w.Violate("history-crash", "the store process died while bulks were delivered concurrently: "+crashLine(res.crash), c)
		return
	}
	if res.fatal != "" {
		w.Violate("history-panic", "the store panicked while bulks were delivered concurrently: "+res.fatal, c)
		return
	}
	if res.err != "" || len(res.obs) != 1 {
		w.Violate("history-error", "the store returned an error where none is allowed: "+res.err, c)
		return
	}
	var probes []idPair
	seen := map[idPair]bool{}
	sent, repeats := 0, 0
	add := func(b []Doc) {
		for _, d := range b {
			sent++
			k := idPair{d.MID, d.RID}
			if seen[k] {
				repeats++
				continue
			}
			seen[k] = true
			probes = append(probes, k)
		}
	}
	if c.Pre != nil {
		add(c.Pre)
	}
	for _, b := range c.Group {
		add(b)
	}
	probes = append(probes, idPair{7, 7})
	bulk := func(k int) []Doc {
		if k == 0 {
			return c.Pre
		}
		return c.Group[k-1]
	}
	var qs []string
	for _, q := range c.Queues {
		var bs []string
		for _, k := range q {
			bs = append(bs, coqBulk(bulk(k)))
		}
		qs = append(qs, "["+strings.Join(bs, "; ")+"]")
	}
	term := fmt.Sprintf("CConc [%s]\n     %s\n     %s", strings.Join(qs, ";\n      "), casefile.NatList(c.Sched),
		coqObs(res.obs[0], probes))
	w.Dist["conc:bulks"] += len(c.Group)
	w.Dist["conc:model-steps"] += len(c.Sched)
	w.Dist["conc:repeats-sent"] += repeats
	w.Add(term, "conc-steps", repeats > 0 && repeats < sent, c, map[string]any{"obs": res.obs})
}

// ---------------------------------------------------------------- stress: ranges of documents

// StressRound: every delivery is the range [lo, hi) of document numbers; document x of a round has
// RID Base+x.
type StressRound struct {
	Base   uint64   `json:"base"`
	Ranges [][2]int `json:"ranges"`
}

type StressCase struct {
	Mode    string        `json:"mode"` // set-stress pipe-stress
	Workers int           `json:"workers,omitempty"`
	Rounds  []StressRound `json:"rounds"`
}

func stressID(base uint64, x int) seq.ID {
	n := base + uint64(x)
	return seq.ID{MID: seq.MID(midLo + n%50), RID: seq.RID(n)}
}

func stressBody(base uint64, x int) []byte { return []byte(fmt.Sprintf(`{"n":%d}`, base+uint64(x))) }

// genRanges: c deliveries over [0, n): all identical, or a mix of the whole range, halves that
// overlap, a prefix, a suffix and an empty range.
func genRanges(r *rng.R, n, c int, same bool) [][2]int {
	out := make([][2]int, 0, c)
	for i := 0; i < c; i++ {
		if same {
			out = append(out, [2]int{0, n})
			continue
		}
		switch r.Intn(6) {
		case 0:
			out = append(out, [2]int{0, n})
		case 1:
			out = append(out, [2]int{0, n/2 + r.Intn(n/4)})
		case 2:
			out = append(out, [2]int{n/2 - r.Intn(n/4), n})
		case 3:
			lo := r.Intn(n / 2)
			out = append(out, [2]int{lo, lo + n/2})
		case 4:
			out = append(out, [2]int{n / 4, n/4 + n/2})
		default:
			lo := r.Intn(n)
			out = append(out, [2]int{lo, lo + r.Intn(n-lo+1)})
		}
	}
	return out
}

func coqRanges(rs [][2]int) string {
	p := make([]string, len(rs))
	for i, x := range rs {
		p[i] = fmt.Sprintf("(%d%%N, %d%%N)", x[0], x[1])
	}
	return "[" + strings.Join(p, "; ") + "]"
}

// ---------------------------------------------------------------- set-stress (unit level)

type SObs struct {
	Accepted, Once, Multi, Never, Positions, Bad int
	PerCall                                   []int // scheduling dependent on overlapping ranges: not part of the case
}

func runSetStress(rd StressRound) SObs {
	dp := frac.NewSyncDocsPositions()
	g := len(rd.Ranges)
	ids := make([][]seq.ID, g)
	pos := make([][]seq.DocPos, g)
	top := 0
	for c, rg := range rd.Ranges {
		if rg[1] > top {
			top = rg[1]
		}
		for x := rg[0]; x < rg[1]; x++ {
			ids[c] = append(ids[c], stressID(rd.Base, x))
			pos[c] = append(pos[c], seq.PackDocPos(uint32(c), uint64(x-rg[0])*16)) // block index = the delivery
		}
	}
	got := make([][]seq.ID, g)
	start := make(chan struct{})
	var wg sync.WaitGroup
	for c := 0; c < g; c++ {
		wg.Add(1)
		go func(c int) {
			defer wg.Done()
			<-start
			got[c] = dp.SetMultiple(ids[c], pos[c])
		}(c)
	}
	close(start)
	wg.Wait()
	var o SObs
	times := make(map[seq.ID]int, top)
	by := make(map[seq.ID][]int, top)
	for c := range got {
		o.Accepted += len(got[c])
		o.PerCall = append(o.PerCall, len(got[c]))
		for _, id := range got[c] {
			times[id]++
			by[id] = append(by[id], c)
		}
	}
	covered := make([]bool, top)
	for _, rg := range rd.Ranges {
		for x := rg[0]; x < rg[1]; x++ {
			covered[x] = true
		}
	}
	for x := 0; x < top; x++ {
		if !covered[x] {
			continue
		}
		id := stressID(rd.Base, x)
		switch n := times[id]; {
		case n == 0:
			o.Never++
		case n == 1:
			o.Once++
		default:
			o.Multi++
		}
		p := dp.GetSync(id)
		if p != seq.DocPosNotFound {
			o.Positions++
		}
		ok := false
		for _, c := range by[id] {
			if p == seq.PackDocPos(uint32(c), uint64(x-rd.Ranges[c][0])*16) {
				ok = true
			}
		}
		if !ok {
			o.Bad++
		}
	}
	return o
}

const opSetStress = "c17-setstress"

type setWire struct {
	Obs []SObs `json:"obs"`
	Err string `json:"err,omitempty"`
}

func init() {
	// in a child process: concurrent map writes are a fatal error of the Go runtime, not a panic
	storectl.Register(opSetStress, func(_ *storectl.Child, r storectl.Req) (storectl.Resp, error) {
		var sc StressCase
		if err := json.Unmarshal(r.Extra, &sc); err != nil {
			return storectl.Resp{}, err
		}
		var sw setWire
		func() {
			defer func() {
				if p := recover(); p != nil {
					sw.Err = fmt.Sprint(p)
				}
			}()
			for _, rd := range sc.Rounds {
				sw.Obs = append(sw.Obs, runSetStress(rd))
			}
		}()
		b, _ := json.Marshal(sw)
		return storectl.Resp{Extra: b}, nil
	})
}

func setStressCase(w *casefile.Writer, sc StressCase) {
	st, err := storectl.Start("")
	if err != nil {
		panic(err)
	}
	b, _ := json.Marshal(sc)
	resp, err := st.Call(storectl.Req{Op: opSetStress, Extra: b})
	if err != nil {
		st.Kill()
		st.Close()
		w.Violate("setmultiple-crash", "the process died while DocsPositions.SetMultiple was called concurrently: "+
			crashLine(err.Error()), sc)
		return
	}
	st.Close()
	var sw setWire
	if err := json.Unmarshal(resp.Extra, &sw); err != nil || sw.Err != "" || len(sw.Obs) != len(sc.Rounds) {
		w.Violate("setmultiple-panic", "DocsPositions.SetMultiple panicked under concurrent calls: "+sw.Err, sc)
		return
	}
	var rounds []string
	for i, rd := range sc.Rounds {
		o := sw.Obs[i]
		rounds = append(rounds, fmt.Sprintf("(%s, mkSObs %d%%N %d%%N %d%%N %d%%N %d%%N %d%%N)", coqRanges(rd.Ranges),
			o.Accepted, o.Once, o.Multi, o.Never, o.Positions, o.Bad))
		w.Dist["stress:setmultiple-calls"] += len(rd.Ranges)
	}
	w.Add("CSetStress ["+strings.Join(rounds, ";\n      ")+"]", "set-stress", true, sc, sw.Obs)
}

// ---------------------------------------------------------------- pipe-stress (whole append path)

type PObs struct {
	LIDs, DupLIDs, Positions, DocsTotal, AllLIDs, Search, KA, Probes, Found int
}

type stressWire struct {
	Obs []PObs `json:"obs"`
	Err string `json:"err,omitempty"`
}

const opStress = "c17-stress"

func init() {
	storectl.Register(opStress, func(_ *storectl.Child, r storectl.Req) (storectl.Resp, error) {
		var sc StressCase
		if err := json.Unmarshal(r.Extra, &sc); err != nil {
			return storectl.Resp{}, err
		}
		obs, err := runPipeStress(sc)
		sw := stressWire{Obs: obs}
		if err != nil {
			sw.Err = err.Error()
		}
		b, _ := json.Marshal(sw)
		return storectl.Resp{Extra: b}, nil
	})
}

func runPipeStress(sc StressCase) (obs []PObs, err error) {
	defer func() {
		if p := recover(); p != nil {
			err = fmt.Errorf("panic: %v", p)
		}
	}()
	dir, e := os.MkdirTemp("", "verif-c17s-")
	if e != nil {
		return nil, e
	}
	defer os.RemoveAll(dir)
	conf.IndexWorkers = sc.Workers
	defer func() { conf.IndexWorkers = defaultIndexWorkers }()
	fm, e := fracbuild.NewFM(dir, nil)
	if e != nil {
		return nil, fmt.Errorf("open: %w", e)
	}
	defer release(fm)
	count := func() (frac.VerifC17Counts, *frac.Active) {
		a := fm.VerifC17Active()
		if a == nil {
			return frac.VerifC17Counts{}, nil
		}
		return a.VerifC17Counts(), a
	}
	total := func(text string) (int, error) {
		q := fracbuild.Query{Text: text, Mapping: mapping, From: 0, To: 1 << 40, Limit: 10, WithTotal: true,
			AggQ: []processor.AggQuery{}}
		fr := fracbuild.Fracs(fm)
		if len(fr) == 0 {
			return 0, nil
		}
		qpr, err := fracbuild.Search(fr, q, 0)
		if err != nil {
			return 0, fmt.Errorf("search %q: %w", text, err)
		}
		return int(qpr.Total), nil
	}
	for _, rd := range sc.Rounds {
		before, _ := count()
		sBefore, e := total("*")
		if e != nil {
			return obs, e
		}
		kaBefore, e := total(`k:"a"`)
		if e != nil {
			return obs, e
		}
		// one compressed docs block and metas block per delivery (Append patches the metas header)
		type payload struct{ docs, metas []byte }
		built := map[[2]int]payload{}
		pl := make([]payload, len(rd.Ranges))
		top := 0
		for c, rg := range rd.Ranges {
			if rg[1] > top {
				top = rg[1]
			}
			p, ok := built[rg]
			if !ok {
				dp := frac.NewDocProvider()
				for x := rg[0]; x < rg[1]; x++ {
					toks := []int{tokAll}
					if x%5 == 0 {
						toks = []int{1, tokAll}
					}
					dp.Append(stressBody(rd.Base, x), nil, stressID(rd.Base, x), seqTokens(toks))
				}
				d, m := dp.Provide()
				p = payload{append([]byte{}, d...), append([]byte{}, m...)}
				built[rg] = p
			}
			pl[c] = payload{append([]byte{}, p.docs...), append([]byte{}, p.metas...)}
		}
		start := make(chan struct{})
		errs := make([]error, len(pl))
		var wg sync.WaitGroup
		for c := range pl {
			if rd.Ranges[c][0] >= rd.Ranges[c][1] {
				continue // an empty bulk is never sent
			}
			wg.Add(1)
			go func(c int) {
				defer wg.Done()
				<-start
				errs[c] = fm.Append(context.Background(), pl[c].docs, pl[c].metas)
			}(c)
		}
		close(start)
		wg.Wait()
		fm.WaitIdle()
		for _, e := range errs {
			if e != nil {
				return obs, fmt.Errorf("append: %w", e)
			}
		}
		after, a := count()
		o := PObs{LIDs: after.LIDs - before.LIDs, Positions: after.Positions - before.Positions,
			DocsTotal: int(after.DocsTotal) - int(before.DocsTotal), AllLIDs: after.AllLIDs - before.AllLIDs}
		if a != nil {
			// IDs of the round holding more than one LID, and LIDs holding an ID no delivery of the round carried
			delivered := make(map[seq.ID]bool, top)
			for _, rg := range rd.Ranges {
				for x := rg[0]; x < rg[1]; x++ {
					delivered[stressID(rd.Base, x)] = true
				}
			}
			seen := make(map[seq.ID]int, top)
			for _, id := range a.VerifC17LIDTable(before.LIDs + 1) {
				seen[id]++
				if !delivered[id] || seen[id] == 2 {
					o.DupLIDs++
				}
			}
		}
		s, e := total("*")
		if e != nil {
			return obs, e
		}
		ka, e := total(`k:"a"`)
		if e != nil {
			return obs, e
		}
		o.Search, o.KA = s-sBefore, ka-kaBefore
		// fetch: the borders of every range and a sample of the covered documents
		covered := make([]bool, top+1)
		for _, rg := range rd.Ranges {
			for x := rg[0]; x < rg[1]; x++ {
				covered[x] = true
			}
		}
		pick := map[int]bool{}
		for _, rg := range rd.Ranges {
			if rg[0] < rg[1] {
				pick[rg[0]], pick[rg[1]-1] = true, true
			}
		}
		for x := 0; x < top; x += 1 + top/150 {
			if covered[x] {
				pick[x] = true
			}
		}
		var xs []int
		for x := range pick {
			xs = append(xs, x)
		}
		sort.Ints(xs)
		ids := make([]seq.ID, len(xs))
		for i, x := range xs {
			ids[i] = stressID(rd.Base, x)
		}
		if len(ids) > 0 {
			got, e := fracbuild.Fetch(fracbuild.Fracs(fm), ids)
			if e != nil {
				return obs, fmt.Errorf("fetch: %w", e)
			}
			o.Probes = len(ids)
			for i, x := range xs {
				if string(got[i]) == string(stressBody(rd.Base, x)) {
					o.Found++
				}
			}
		}
		obs = append(obs, o)
	}
	return obs, nil
}

func pipeStressCase(w *casefile.Writer, sc StressCase) {
	st, err := storectl.Start("")
	if err != nil {
		panic(err)
	}
	b, _ := json.Marshal(sc)
	resp, err := st.Call(storectl.Req{Op: opStress, Extra: b})
	if err != nil {
		st.Kill()
		st.Close()
		w.Violate("history-crash", "the store process died while the same bulk was delivered several times at once: "+
			crashLine(err.Error()), sc)
		return
	}
	st.Close()
	var sw stressWire
	if err := json.Unmarshal(resp.Extra, &sw); err != nil {
		w.Violate("history-error", "driver protocol: "+err.Error(), sc)
		return
	}
	if sw.Err != "" || len(sw.Obs) != len(sc.Rounds) {
		w.Violate("history-error", "the store returned an error where none is allowed: "+sw.Err, sc)
		return
	}
	var rounds []string
	for i, rd := range sc.Rounds {
		o := sw.Obs[i]
		rounds = append(rounds, fmt.Sprintf("(%s, mkPObs %d%%N %d%%N %d%%N %d%%N %d%%N %d%%N %d%%N %d%%N %d%%N)", coqRanges(rd.Ranges),
			o.LIDs, o.DupLIDs, o.Positions, o.DocsTotal, o.AllLIDs, o.Search, o.KA, o.Probes, o.Found))
		w.Dist["stress:pipe-deliveries"] += len(rd.Ranges)
	}
	w.Add(fmt.Sprintf("CPipeStress %d [%s]", sc.Workers, strings.Join(rounds, ";\n      ")), "pipe-stress", true, sc, sw.Obs)
}

// genStress draws the stress cases of a run: nSet unit-level cases and nPipe pipeline cases, the
// first round of each with identical ranges, later rounds also with partial overlaps.
func genStress(r *rng.R, nSet, setDocs, nPipe, pipeDocs, pipeRounds int) []StressCase {
	var out []StressCase
	for i := 0; i < nSet; i++ {
		sc := StressCase{Mode: "set-stress"}
		for k := 0; k < 3; k++ {
			sc.Rounds = append(sc.Rounds, StressRound{Base: uint64(1 + (i*3+k)*1000000),
				Ranges: genRanges(r, setDocs+r.Intn(setDocs/4), 2+r.Intn(7), k != 2)})
		}
		out = append(out, sc)
	}
	for i := 0; i < nPipe; i++ {
		sc := StressCase{Mode: "pipe-stress", Workers: 4 + r.Intn(5)}
		for k := 0; k < pipeRounds; k++ {
			sc.Rounds = append(sc.Rounds, StressRound{Base: uint64(1 + k*1000000),
				Ranges: genRanges(r, pipeDocs+r.Intn(pipeDocs/4), 2+r.Intn(7), k%3 != 2)})
		}
		out = append(out, sc)
	}
	return out
}
