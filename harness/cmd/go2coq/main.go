// go2coq translates selected pure Go functions of the repository into Gallina definitions
// (props/Cxx/coq/Gen.v). It works syntactically (go/parser, go/ast) with a small type table in the
// spec file and is STRICT: any construct outside the supported subset makes it exit non-zero with a
// message naming the construct and the function; it never guesses.
//
//	go2coq -repo <dir> -spec props/Cxx/gen.json -out props/Cxx/coq/Gen.v
//
// Semantics of the output: coq/lib/GoSem.v (machine integers as Z with explicit wrap-around,
// Panic for division by zero / index out of range / negative shift count / explicit panics,
// OutOfFuel for loops cut by the fuel). See the header written into every Gen.v.
//
// Round 2 extensions of the subset (each strict, anything else is still rejected):
//   - slices of bool and of spec structs: s[i] is `nth (Z.to_nat i) s <zero value>` under the same index guard;
//   - `nil` where a slice is expected is the empty list;
//   - composite literals `T{f: e, ...}` of spec structs (keyed fields only, missing fields = zero value) and
//     assignment to a field of a LOCAL struct variable (`x.f = e`, `x.f--`, `x.f += e`): the variable is rebuilt
//     with the constructor; a field of a parameter/receiver can not be assigned (it would be visible to the caller);
//   - function values: a parameter of type `func(T1, ..) R` (spec type text `func(T1,..)R`) is a Gallina function
//     `T1 -> .. -> outcome R`; calling it binds its outcome. A function literal is translated to
//     `fun x => <monadic body>`; its body may not contain loops and may not assign a captured variable;
//   - externs with `"monadic": true` in the spec return `outcome T` (e.g. sort.Search -> sort_Search n pred, a
//     model-side binary search in the property's GenPrelude.v that propagates a panic of the predicate).
package main

import (
	"crypto/sha256"
	"encoding/json"
	"flag"
	"fmt"
	"go/ast"
	"go/parser"
	"go/token"
	"math/big"
	"os"
	"path/filepath"
	"sort"
	"strconv"
	"strings"
)

// ----------------------------------------------------------------------------- spec

type ExternSpec struct {
	Coq     string   `json:"coq"`  // name of the definition in the hand-written prelude
	Args    []string `json:"args"` // Go types of the arguments (receiver excluded)
	Ret     string   `json:"ret"`  // Go type of the result
	Note    string   `json:"note"`
	Monadic bool     `json:"monadic"` // the Coq definition returns `outcome <ret>` (it can panic / run out of fuel)
}

type GlobalSpec struct {
	Name string `json:"name"`
	Type string `json:"type"`
}

type StructSpec struct {
	Name   string      `json:"name"`
	Fields [][2]string `json:"fields"`
}

type FuncSpec struct {
	Pkg    string            `json:"pkg"`
	Dir    string            `json:"dir"`
	Recv   string            `json:"recv"`
	Func   string            `json:"func"`
	Params map[string]string `json:"params"` // optional overrides: Go type, or "@ignore"
}

type Spec struct {
	Prop    string                     `json:"prop"`
	Prelude string                     `json:"prelude"` // Coq module of the hand-written extern definitions ("" = none)
	Types   map[string]string          `json:"types"`
	Structs []StructSpec               `json:"structs"`
	Externs map[string]json.RawMessage `json:"externs"`
	Globals map[string]GlobalSpec      `json:"globals"`
	Funcs   []FuncSpec                 `json:"funcs"`
}

// ----------------------------------------------------------------------------- errors

type trErr struct{ msg string }
type needType struct{ msg string }

var fset = token.NewFileSet()
var curFunc string

func failAt(n ast.Node, format string, a ...any) {
	pos := ""
	if n != nil {
		p := fset.Position(n.Pos())
		pos = fmt.Sprintf("%s:%d: ", p.Filename, p.Line)
	}
	panic(trErr{pos + fmt.Sprintf(format, a...)})
}

// ----------------------------------------------------------------------------- types

const (
	KInt = iota
	KBool
	KStruct
	KSlice
	KExtern
	KTuple
	KLens   // element of a [][]byte:lens slice: only len(x) may be taken
	KOpaque // a value that is only moved around, never inspected
	KFunc   // function value: Elems = parameter types, Elem = result type; Gallina `T1 -> .. -> outcome R`
)

type Type struct {
	Kind   int
	Bits   int
	Signed bool
	Name   string // named type (method lookup, identity); "" for plain builtin
	Base   string // builtin name for ints
	Elem   *Type
	Elems  []*Type
	Coq    string
}

var builtinInts = map[string]*Type{
	"int": {Kind: KInt, Bits: 64, Signed: true, Base: "int"}, "int64": {Kind: KInt, Bits: 64, Signed: true, Base: "int64"},
	"int32": {Kind: KInt, Bits: 32, Signed: true, Base: "int32"}, "int16": {Kind: KInt, Bits: 16, Signed: true, Base: "int16"},
	"int8": {Kind: KInt, Bits: 8, Signed: true, Base: "int8"},
	"uint": {Kind: KInt, Bits: 64, Base: "uint"}, "uint64": {Kind: KInt, Bits: 64, Base: "uint64"},
	"uint32": {Kind: KInt, Bits: 32, Base: "uint32"}, "uint16": {Kind: KInt, Bits: 16, Base: "uint16"},
	"uint8": {Kind: KInt, Bits: 8, Base: "uint8"}, "byte": {Kind: KInt, Bits: 8, Base: "uint8"},
}
var boolType = &Type{Kind: KBool}

func (t *Type) key() string {
	if t == nil {
		return "untyped"
	}
	switch t.Kind {
	case KInt:
		if t.Name != "" {
			return t.Name
		}
		return t.Base
	case KBool:
		return "bool"
	case KSlice:
		return "[]" + t.Elem.key()
	case KTuple:
		s := []string{}
		for _, e := range t.Elems {
			s = append(s, e.key())
		}
		return "(" + strings.Join(s, ",") + ")"
	case KFunc:
		s := []string{}
		for _, e := range t.Elems {
			s = append(s, e.key())
		}
		return "func(" + strings.Join(s, ",") + ")" + t.Elem.key()
	}
	return t.Name
}

func (t *Type) coq() string {
	switch t.Kind {
	case KInt, KLens, KOpaque:
		return "Z"
	case KBool:
		return "bool"
	case KStruct:
		return "go_" + t.Name
	case KSlice:
		return "list " + paren(t.Elem.coq())
	case KExtern:
		return t.Coq
	case KTuple:
		s := []string{}
		for _, e := range t.Elems {
			s = append(s, paren(e.coq()))
		}
		if len(s) == 0 {
			return "unit"
		}
		return "(" + strings.Join(s, " * ") + ")%type"
	case KFunc:
		s := ""
		for _, e := range t.Elems {
			s += paren(e.coq()) + " -> "
		}
		return "(" + s + "outcome " + paren(t.Elem.coq()) + ")"
	}
	return "?"
}

func paren(s string) string {
	if !strings.ContainsAny(s, " \n") {
		return s
	}
	if strings.HasPrefix(s, "(") { // already enclosed by one matching pair?
		d := 0
		for i, c := range s {
			if c == '(' {
				d++
			} else if c == ')' {
				d--
				if d == 0 {
					if i == len(s)-1 {
						return s
					}
					break
				}
			}
		}
	}
	return "(" + s + ")"
}

func (t *Type) min() *big.Int {
	if !t.Signed {
		return big.NewInt(0)
	}
	return new(big.Int).Neg(new(big.Int).Lsh(big.NewInt(1), uint(t.Bits-1)))
}
func (t *Type) max() *big.Int {
	b := t.Bits
	if t.Signed {
		b--
	}
	return new(big.Int).Sub(new(big.Int).Lsh(big.NewInt(1), uint(b)), big.NewInt(1))
}
func (t *Type) fits(v *big.Int) bool { return v.Cmp(t.min()) >= 0 && v.Cmp(t.max()) <= 0 }
func (t *Type) wrapName() string {
	if t.Signed {
		return fmt.Sprintf("i%d", t.Bits)
	}
	return fmt.Sprintf("u%d", t.Bits)
}
func (t *Type) wrap(code string) string { return t.wrapName() + " " + paren(code) }

// ----------------------------------------------------------------------------- translator state

type Translated struct {
	Spec    FuncSpec
	CoqName string
	Params  []param // translated parameters (receiver first), ignored ones dropped
	Ret     *Type
	Monadic bool
	Fuel    bool
	Globals []param
	Text    string
	File    string
	Sha     string
	Externs []string
	Skipped []string
}

type param struct {
	Name string
	T    *Type
}

type pkgInfo struct {
	dir    string
	files  map[string]*ast.File
	src    map[string][]byte
	consts map[string]*ast.ValueSpec
	cfile  map[string]*ast.File
}

type G struct {
	repo    string
	module  string
	spec    *Spec
	types   map[string]*Type
	structs map[string]*StructSpec
	pkgs    map[string]*pkgInfo // by dir
	done    []*Translated
}

func (g *G) loadPkg(dir string) *pkgInfo {
	if p, ok := g.pkgs[dir]; ok {
		return p
	}
	p := &pkgInfo{dir: dir, files: map[string]*ast.File{}, src: map[string][]byte{}, consts: map[string]*ast.ValueSpec{}, cfile: map[string]*ast.File{}}
	ents, err := os.ReadDir(filepath.Join(g.repo, dir))
	if err != nil {
		panic(trErr{fmt.Sprintf("package directory %s: %v", dir, err)})
	}
	for _, e := range ents {
		n := e.Name()
		if e.IsDir() || !strings.HasSuffix(n, ".go") || strings.HasSuffix(n, "_test.go") || strings.HasPrefix(n, "export_verif") {
			continue
		}
		full := filepath.Join(g.repo, dir, n)
		b, err := os.ReadFile(full)
		if err != nil {
			panic(trErr{err.Error()})
		}
		f, err := parser.ParseFile(fset, filepath.Join(dir, n), b, parser.SkipObjectResolution)
		if err != nil {
			panic(trErr{fmt.Sprintf("parse %s: %v", full, err)})
		}
		p.files[n] = f
		p.src[n] = b
		for _, d := range f.Decls {
			gd, ok := d.(*ast.GenDecl)
			if !ok || gd.Tok != token.CONST {
				continue
			}
			for _, s := range gd.Specs {
				vs := s.(*ast.ValueSpec)
				for _, nm := range vs.Names {
					p.consts[nm.Name] = vs
					p.cfile[nm.Name] = f
				}
			}
		}
	}
	g.pkgs[dir] = p
	return p
}

func (g *G) resolveType(s string, at ast.Node) *Type {
	s = strings.TrimPrefix(s, "*")
	if t, ok := g.types[s]; ok {
		return t
	}
	if t, ok := builtinInts[s]; ok {
		return t
	}
	if s == "bool" {
		return boolType
	}
	if s == "opaque" {
		return &Type{Kind: KOpaque, Name: "opaque"}
	}
	if s == "[][]byte:lens" {
		return &Type{Kind: KSlice, Elem: &Type{Kind: KLens, Name: "lens"}}
	}
	if strings.HasPrefix(s, "[]") {
		e := g.resolveType(s[2:], at)
		if e.Kind != KInt && e.Kind != KOpaque && e.Kind != KBool && e.Kind != KStruct {
			failAt(at, "unsupported slice element type %s (numeric, bool, spec struct or opaque elements only)", s[2:])
		}
		return &Type{Kind: KSlice, Elem: e}
	}
	if strings.HasPrefix(s, "extern:") {
		return &Type{Kind: KExtern, Coq: s[7:]}
	}
	if strings.HasPrefix(s, "func(") { // func(T1,T2)R
		i := strings.Index(s, ")")
		if i < 0 || i == len(s)-1 {
			failAt(at, "unsupported function type %q (exactly one result is required)", s)
		}
		ft := &Type{Kind: KFunc, Elem: g.resolveType(strings.TrimSpace(s[i+1:]), at)}
		if in := strings.TrimSpace(s[5:i]); in != "" {
			for _, a := range strings.Split(in, ",") {
				ft.Elems = append(ft.Elems, g.resolveType(strings.TrimSpace(a), at))
			}
		}
		for _, e := range append(append([]*Type{}, ft.Elems...), ft.Elem) {
			if e.Kind != KInt && e.Kind != KBool {
				failAt(at, "unsupported function type %q (integer/boolean parameters and result only)", s)
			}
		}
		return ft
	}
	if i := strings.LastIndex(s, "."); i >= 0 { // pkg.Name -> Name
		bare := s[i+1:]
		if t, ok := g.types[bare]; ok {
			return t
		}
		if _, ok := g.structs[bare]; ok {
			return g.resolveType(bare, at)
		}
		if _, ok := g.spec.Types[bare]; ok {
			return g.resolveType(bare, at)
		}
	}
	if _, ok := g.structs[s]; ok {
		t := &Type{Kind: KStruct, Name: s}
		g.types[s] = t
		return t
	}
	if u, ok := g.spec.Types[s]; ok {
		b := g.resolveType(u, at)
		c := *b
		if b.Kind == KExtern {
			c.Name = s
		} else {
			c.Name = s
		}
		g.types[s] = &c
		return &c
	}
	failAt(at, "unknown type %q (not in the spec's types/structs table)", s)
	return nil
}

func typeString(e ast.Expr) string {
	switch t := e.(type) {
	case *ast.Ident:
		return t.Name
	case *ast.SelectorExpr:
		return typeString(t.X) + "." + t.Sel.Name
	case *ast.StarExpr:
		return typeString(t.X)
	case *ast.ArrayType:
		if t.Len != nil {
			failAt(e, "unsupported construct: array type")
		}
		return "[]" + typeString(t.Elt)
	case *ast.ParenExpr:
		return typeString(t.X)
	case *ast.FuncType:
		if t.TypeParams != nil || t.Results == nil || len(t.Results.List) != 1 || len(t.Results.List[0].Names) > 1 {
			failAt(e, "unsupported construct: function type without exactly one result")
		}
		as := []string{}
		for _, f := range t.Params.List {
			n := len(f.Names)
			if n == 0 {
				n = 1
			}
			for i := 0; i < n; i++ {
				as = append(as, typeString(f.Type))
			}
		}
		return "func(" + strings.Join(as, ",") + ")" + typeString(t.Results.List[0].Type)
	}
	failAt(e, "unsupported construct: type expression %T", e)
	return ""
}

// ----------------------------------------------------------------------------- IR

type Term interface{}
type TRet struct{ Val string }
type TLet struct {
	Pat, Val string
	Body     Term
}
type TIf struct {
	Cond       string
	Then, Else Term
}
type TGuard struct {
	Cond, Why string
	Body      Term
}
type TBind struct {
	Pat, M string
	Body   Term
}
type TBindT struct {
	Pat  string
	M    Term
	Body Term
}
type TPanic struct{ Why string }
type TRawM struct{ S string } // a monadic expression in tail position
type TSum struct {
	Scrut, PatL string
	BodyL       Term
	PatR        string
	BodyR       Term
}

func monadic(t Term) bool {
	switch x := t.(type) {
	case TRet:
		return false
	case TLet:
		return monadic(x.Body)
	case TIf:
		return monadic(x.Then) || monadic(x.Else)
	case TBindT:
		return monadic(x.M) || monadic(x.Body)
	case TSum:
		return monadic(x.BodyL) || monadic(x.BodyR)
	}
	return true
}

func indent(n int) string { return strings.Repeat("  ", n) }

func printTerm(t Term, m bool, d int) string {
	in := indent(d)
	switch x := t.(type) {
	case TRet:
		if m {
			return in + "Val " + paren(x.Val)
		}
		return in + x.Val
	case TLet:
		return in + "let " + x.Pat + " := " + x.Val + " in\n" + printTerm(x.Body, m, d)
	case TIf:
		return in + "if " + x.Cond + "\n" + in + "then (\n" + printTerm(x.Then, m, d+1) + ")\n" + in + "else (\n" + printTerm(x.Else, m, d+1) + ")"
	case TGuard:
		return in + "if " + x.Cond + " then Panic (* " + x.Why + " *) else\n" + printTerm(x.Body, m, d)
	case TBind:
		return in + "bind (" + x.M + ") (fun " + x.Pat + " =>\n" + printTerm(x.Body, m, d) + ")"
	case TBindT:
		if monadic(x.M) {
			return in + "bind (\n" + printTerm(x.M, true, d+1) + ") (fun " + x.Pat + " =>\n" + printTerm(x.Body, m, d) + ")"
		}
		return in + "let " + x.Pat + " := (\n" + printTerm(x.M, false, d+1) + ") in\n" + printTerm(x.Body, m, d)
	case TPanic:
		return in + "Panic (* " + x.Why + " *)"
	case TRawM:
		return in + x.S
	case TSum:
		return in + "match " + x.Scrut + " with\n" + in + "| inl " + x.PatL + " =>\n" + printTerm(x.BodyL, m, d+1) + "\n" + in + "| inr " + x.PatR + " =>\n" + printTerm(x.BodyR, m, d+1) + "\n" + in + "end"
	}
	panic("printTerm")
}

// ----------------------------------------------------------------------------- environment

type Env struct {
	vars []param
}

func (e *Env) lookup(n string) *Type {
	for i := len(e.vars) - 1; i >= 0; i-- {
		if e.vars[i].Name == n {
			return e.vars[i].T
		}
	}
	return nil
}
func (e *Env) with(n string, t *Type) *Env {
	v := make([]param, len(e.vars), len(e.vars)+1)
	copy(v, e.vars)
	return &Env{append(v, param{n, t})}
}

var reserved = map[string]bool{}

func init() {
	for _, w := range strings.Fields("at as by do else end exists exists2 fix cofix fun for forall if in let match mod return then using where with " +
		"Prop Set Type SProp IF left right true false nil cons None Some tt pair inl inr O S Z N I fst snd " +
		"fuel fuel0 lr bind Val Panic OutOfFuel idx len slice shl shr u8 u16 u32 u64 i8 i16 i32 i64 negb andb orb length nth " +
		"fold_left firstn skipn go2coq_st min max") {
		reserved[w] = true
	}
}

func cname(n string) string {
	if reserved[n] || strings.HasPrefix(n, "go_") || strings.HasPrefix(n, "mk_go_") {
		return n + "_"
	}
	return n
}

func tuple(names []string) string {
	switch len(names) {
	case 0:
		return "tt"
	case 1:
		return names[0]
	}
	return "(" + strings.Join(names, ", ") + ")"
}
func tuplePat(names []string) string {
	switch len(names) {
	case 0:
		return "_"
	case 1:
		return names[0]
	}
	return "'(" + strings.Join(names, ", ") + ")"
}
func tupleType(ps []param) string {
	if len(ps) == 0 {
		return "unit"
	}
	s := []string{}
	for _, p := range ps {
		s = append(s, paren(p.T.coq()))
	}
	if len(s) == 1 {
		return s[0]
	}
	return "(" + strings.Join(s, " * ") + ")%type"
}

// ----------------------------------------------------------------------------- function translation

type Pre struct {
	guard     bool
	Cond, Why string
	Pat, M    string
}

type Val struct {
	Code  string
	T     *Type    // nil: untyped constant
	Const *big.Int // integer constant value
	BoolC *bool
}

type ctx struct {
	ret  func(v string) Term
	brk  func(*Env) Term
	cont func(*Env) Term
}

type fn struct {
	g       *G
	pkg     *pkgInfo
	file    *ast.File
	imports map[string]string // local name -> import path
	decl    *ast.FuncDecl
	out     *Translated
	pre     []Pre
	tmp     int
	nloop   int
	aux     []string // lifted Fixpoints
	lconsts map[string]Val
	ret     *Type
	rets    []*Type
	externs map[string]bool
	skipped map[string]bool
	params  map[string]bool // names of the parameters and the receiver (their fields can not be assigned)
}

func (fx *fn) fresh(prefix string) string {
	fx.tmp++
	return fmt.Sprintf("%s%d", prefix, fx.tmp)
}

func (fx *fn) takePre() []Pre {
	p := fx.pre
	fx.pre = nil
	return p
}

func wrapPre(pre []Pre, body Term) Term {
	for i := len(pre) - 1; i >= 0; i-- {
		p := pre[i]
		if p.guard {
			body = TGuard{p.Cond, p.Why, body}
		} else {
			body = TBind{p.Pat, p.M, body}
		}
	}
	return body
}

func constCode(v *big.Int) string {
	if v.Sign() < 0 {
		return "(" + v.String() + ")"
	}
	return v.String()
}

func (fx *fn) toType(v Val, t *Type, at ast.Node) Val {
	if v.T != nil {
		if t != nil && v.T.key() != t.key() {
			failAt(at, "type mismatch: %s used where %s is expected", v.T.key(), t.key())
		}
		return v
	}
	if t == nil {
		return v
	}
	if v.BoolC != nil {
		if t.Kind != KBool {
			failAt(at, "boolean constant used as %s", t.key())
		}
		return Val{Code: v.Code, T: boolType, BoolC: v.BoolC}
	}
	if v.Const == nil {
		failAt(at, "internal: untyped non-constant")
	}
	if t.Kind != KInt {
		failAt(at, "integer constant used as %s", t.key())
	}
	if !t.fits(v.Const) {
		failAt(at, "constant %s overflows %s", v.Const, t.key())
	}
	return Val{Code: constCode(v.Const), T: t, Const: v.Const}
}

var stdConsts = map[string]struct {
	v string
	t string
}{
	"math.MaxInt64": {"9223372036854775807", ""}, "math.MinInt64": {"-9223372036854775808", ""},
	"math.MaxInt": {"9223372036854775807", ""}, "math.MinInt": {"-9223372036854775808", ""},
	"math.MaxUint64": {"18446744073709551615", ""}, "math.MaxUint": {"18446744073709551615", ""},
	"math.MaxInt32": {"2147483647", ""}, "math.MinInt32": {"-2147483648", ""}, "math.MaxUint32": {"4294967295", ""},
	"math.MaxInt16": {"32767", ""}, "math.MaxUint16": {"65535", ""}, "math.MaxInt8": {"127", ""}, "math.MaxUint8": {"255", ""},
	"time.Nanosecond": {"1", "time.Duration"}, "time.Microsecond": {"1000", "time.Duration"},
	"time.Millisecond": {"1000000", "time.Duration"}, "time.Second": {"1000000000", "time.Duration"},
	"time.Minute": {"60000000000", "time.Duration"}, "time.Hour": {"3600000000000", "time.Duration"},
}

func (fx *fn) pkgConst(p *pkgInfo, name string, at ast.Node, depth int) (Val, bool) {
	vs, ok := p.consts[name]
	if !ok {
		return Val{}, false
	}
	if depth > 20 {
		failAt(at, "constant %s: definition too deep", name)
	}
	if len(vs.Values) != len(vs.Names) {
		failAt(vs, "unsupported construct: constant %s without its own value (iota / implicit repetition)", name)
	}
	for i, nm := range vs.Names {
		if nm.Name != name {
			continue
		}
		// evaluate in the context of the declaring package/file
		sub := &fn{g: fx.g, pkg: p, file: p.cfile[name], imports: importsOf(p.cfile[name]), lconsts: map[string]Val{}, externs: fx.externs, skipped: fx.skipped}
		v := sub.expr(vs.Values[i], &Env{}, nil)
		if v.Const == nil && v.BoolC == nil {
			failAt(vs, "constant %s is not an integer/boolean constant expression", name)
		}
		if len(sub.pre) != 0 {
			failAt(vs, "constant %s: checked operation in a constant", name)
		}
		if vs.Type != nil {
			v = sub.toType(Val{Code: v.Code, Const: v.Const, BoolC: v.BoolC}, fx.g.resolveType(typeString(vs.Type), vs), vs)
		}
		return v, true
	}
	return Val{}, false
}

func importsOf(f *ast.File) map[string]string {
	m := map[string]string{}
	if f == nil {
		return m
	}
	for _, im := range f.Imports {
		p, _ := strconv.Unquote(im.Path.Value)
		n := p[strings.LastIndex(p, "/")+1:]
		if im.Name != nil {
			n = im.Name.Name
		}
		m[n] = p
	}
	return m
}

func boolVal(b bool) Val {
	if b {
		return Val{Code: "true", BoolC: &b}
	}
	return Val{Code: "false", BoolC: &b}
}

// expr translates e; checked operations are appended to fx.pre. hint: type an untyped constant/shift takes.
func (fx *fn) expr(e ast.Expr, env *Env, hint *Type) Val {
	switch x := e.(type) {
	case *ast.ParenExpr:
		return fx.expr(x.X, env, hint)
	case *ast.BasicLit:
		switch x.Kind {
		case token.INT:
			v, ok := new(big.Int).SetString(strings.ReplaceAll(x.Value, "_", ""), 0)
			if !ok {
				failAt(e, "bad integer literal %s", x.Value)
			}
			return Val{Code: constCode(v), Const: v}
		case token.CHAR:
			s, err := strconv.Unquote(x.Value)
			if err != nil || len([]rune(s)) != 1 {
				failAt(e, "bad rune literal %s", x.Value)
			}
			v := big.NewInt(int64([]rune(s)[0]))
			return Val{Code: constCode(v), Const: v}
		}
		failAt(e, "unsupported construct: literal of kind %s", x.Kind)
	case *ast.Ident:
		if t := env.lookup(x.Name); t != nil {
			return Val{Code: cname(x.Name), T: t}
		}
		if v, ok := fx.lconsts[x.Name]; ok {
			return v
		}
		switch x.Name {
		case "true":
			return boolVal(true)
		case "false":
			return boolVal(false)
		case "nil":
			if hint != nil && hint.Kind == KSlice {
				return Val{Code: "[]", T: hint}
			}
			failAt(e, "unsupported construct: nil (only where a slice is expected)")
		case "iota":
			failAt(e, "unsupported construct: %s", x.Name)
		}
		if v, ok := fx.pkgConst(fx.pkg, x.Name, e, 0); ok {
			return v
		}
		failAt(e, "unknown identifier %s (not a parameter, local, or package constant)", x.Name)
	case *ast.SelectorExpr:
		return fx.selector(x, env)
	case *ast.UnaryExpr:
		return fx.unary(x, env, hint)
	case *ast.BinaryExpr:
		return fx.binary(x, env, hint)
	case *ast.CallExpr:
		return fx.call(x, env, hint)
	case *ast.IndexExpr:
		s := fx.expr(x.X, env, nil)
		if s.T == nil || s.T.Kind != KSlice || (s.T.Elem.Kind != KInt && s.T.Elem.Kind != KBool && s.T.Elem.Kind != KStruct) {
			failAt(e, "unsupported construct: index on %s (only slices of numeric, bool or spec struct type)", s.T.key())
		}
		i := fx.expr(x.Index, env, nil)
		i = fx.toType(i, orInt(i.T), e)
		if i.T.Kind != KInt {
			failAt(e, "non-integer index")
		}
		cond := fmt.Sprintf("(%s <? 0) || (len %s <=? %s)", paren(i.Code), paren(s.Code), paren(i.Code))
		fx.pre = append(fx.pre, Pre{guard: true, Cond: cond, Why: "index out of range"})
		if s.T.Elem.Kind != KInt {
			return Val{Code: fmt.Sprintf("nth (Z.to_nat %s) %s %s", paren(i.Code), paren(s.Code), paren(fx.g.zeroValue(s.T.Elem, e))), T: s.T.Elem}
		}
		return Val{Code: fmt.Sprintf("idx %s %s", paren(s.Code), paren(i.Code)), T: s.T.Elem}
	case *ast.CompositeLit:
		return fx.compositeLit(x, env)
	case *ast.FuncLit:
		return fx.funcLit(x, env)
	case *ast.SliceExpr:
		if x.Slice3 {
			failAt(e, "unsupported construct: 3-index slice")
		}
		s := fx.expr(x.X, env, nil)
		if s.T == nil || s.T.Kind != KSlice {
			failAt(e, "unsupported construct: slice expression on a non-slice")
		}
		lo, hi := "0", "len "+paren(s.Code)
		if x.Low != nil {
			v := fx.expr(x.Low, env, nil)
			v = fx.toType(v, orInt(v.T), e)
			lo = paren(v.Code)
		}
		if x.High != nil {
			v := fx.expr(x.High, env, nil)
			v = fx.toType(v, orInt(v.T), e)
			hi = paren(v.Code)
		}
		cond := fmt.Sprintf("(%s <? 0) || (%s <? %s) || (len %s <? %s)", lo, hi, lo, paren(s.Code), hi)
		fx.pre = append(fx.pre, Pre{guard: true, Cond: cond, Why: "slice bounds out of range (capacity = length assumed)"})
		return Val{Code: fmt.Sprintf("slice %s %s (%s)", paren(s.Code), lo, hi), T: s.T}
	}
	failAt(e, "unsupported construct: expression %T", e)
	return Val{}
}

// zeroValue is the Gallina text of Go's zero value of t
func (g *G) zeroValue(t *Type, at ast.Node) string {
	switch t.Kind {
	case KInt:
		return "0"
	case KBool:
		return "false"
	case KSlice:
		return "[]"
	case KStruct:
		s := "mk_go_" + t.Name
		for _, f := range g.structs[t.Name].Fields {
			s += " " + paren(g.zeroValue(g.resolveType(f[1], at), at))
		}
		return s
	}
	failAt(at, "unsupported construct: zero value of %s", t.key())
	return ""
}

// compositeLit: T{f: e, ...} of a spec struct, keyed fields only; missing fields take the zero value
func (fx *fn) compositeLit(x *ast.CompositeLit, env *Env) Val {
	if x.Type == nil {
		failAt(x, "unsupported construct: composite literal without a type")
	}
	t := fx.g.resolveType(typeString(x.Type), x)
	if t.Kind != KStruct {
		failAt(x, "unsupported construct: composite literal of %s (spec structs only)", t.key())
	}
	st := fx.g.structs[t.Name]
	vals := map[string]string{}
	for _, el := range x.Elts {
		kv, ok := el.(*ast.KeyValueExpr)
		if !ok {
			failAt(el, "unsupported construct: positional field in a composite literal")
		}
		id, ok := kv.Key.(*ast.Ident)
		if !ok {
			failAt(el, "unsupported construct: composite literal key %T", kv.Key)
		}
		var ft *Type
		for _, f := range st.Fields {
			if f[0] == id.Name {
				ft = fx.g.resolveType(f[1], el)
			}
		}
		if ft == nil {
			failAt(el, "field %s.%s is not in the spec's field list", st.Name, id.Name)
		}
		if _, dup := vals[id.Name]; dup {
			failAt(el, "duplicate field %s in a composite literal", id.Name)
		}
		v := fx.expr(kv.Value, env, ft)
		v = fx.toType(v, ft, el)
		vals[id.Name] = v.Code
	}
	code := "mk_go_" + st.Name
	for _, f := range st.Fields {
		if c, ok := vals[f[0]]; ok {
			code += " " + paren(c)
		} else {
			code += " " + paren(fx.g.zeroValue(fx.g.resolveType(f[1], x), x))
		}
	}
	return Val{Code: code, T: t}
}

// funcLit: func(x T, ..) R { body } as `fun x .. => <monadic body>`. No loops, no assignment to a captured variable.
func (fx *fn) funcLit(x *ast.FuncLit, env *Env) Val {
	ft := fx.g.resolveType(typeString(x.Type), x)
	bad := ""
	ast.Inspect(x.Body, func(n ast.Node) bool {
		switch n.(type) {
		case *ast.ForStmt, *ast.RangeStmt:
			bad = "a loop"
		case *ast.FuncLit:
			bad = "a nested function literal"
		case *ast.GoStmt, *ast.DeferStmt:
			bad = "go/defer"
		}
		return bad == ""
	})
	if bad != "" {
		failAt(x, "unsupported construct: %s inside a function literal", bad)
	}
	set := map[string]bool{}
	assigned(x.Body, set)
	for n := range set {
		if env.lookup(n) != nil {
			failAt(x, "unsupported construct: function literal assigns the captured variable %s", n)
		}
	}
	benv := env
	binders := ""
	i := 0
	for _, f := range x.Type.Params.List {
		if len(f.Names) == 0 {
			failAt(x, "unsupported construct: unnamed parameter of a function literal")
		}
		for _, n := range f.Names {
			if n.Name == "_" {
				binders += " _"
			} else {
				benv = fx.define(n.Name, ft.Elems[i], benv, x)
				binders += fmt.Sprintf(" (%s : %s)", cname(n.Name), ft.Elems[i].coq())
			}
			i++
		}
	}
	savePre, saveRet, saveRets := fx.pre, fx.ret, fx.rets
	fx.pre, fx.ret, fx.rets = nil, ft.Elem, []*Type{ft.Elem}
	body := fx.block(x.Body.List, benv, &ctx{ret: func(v string) Term { return TRet{v} }}, func(*Env) Term {
		failAt(x, "unsupported construct: control can reach the end of a function literal without a return")
		return nil
	})
	if len(fx.pre) != 0 {
		failAt(x, "internal: pending checked operations after a function literal")
	}
	fx.pre, fx.ret, fx.rets = savePre, saveRet, saveRets
	return Val{Code: "(fun" + binders + " =>\n" + printTerm(body, true, 4) + ")", T: ft}
}

func orInt(t *Type) *Type {
	if t == nil {
		return builtinInts["int"]
	}
	return t
}

func (fx *fn) selector(x *ast.SelectorExpr, env *Env) Val {
	if id, ok := x.X.(*ast.Ident); ok && env.lookup(id.Name) == nil {
		if _, isPkg := fx.imports[id.Name]; isPkg {
			key := id.Name + "." + x.Sel.Name
			if c, ok := stdConsts[key]; ok {
				v, _ := new(big.Int).SetString(c.v, 10)
				r := Val{Code: constCode(v), Const: v}
				if c.t != "" {
					r.T = fx.g.resolveType(c.t, x)
				}
				return r
			}
			if gl, ok := fx.g.spec.Globals[key]; ok {
				t := env.lookup(gl.Name)
				if t == nil {
					failAt(x, "internal: global %s not in scope", key)
				}
				return Val{Code: cname(gl.Name), T: t}
			}
			// constant of another package of the module
			path := fx.imports[id.Name]
			if strings.HasPrefix(path, fx.g.module+"/") {
				p := fx.g.loadPkg(strings.TrimPrefix(path, fx.g.module+"/"))
				if v, ok := fx.pkgConst(p, x.Sel.Name, x, 0); ok {
					return v
				}
			}
			failAt(x, "unsupported construct: %s (package-level name that is neither a constant nor in the spec's globals/externs)", key)
		}
	}
	v := fx.expr(x.X, env, nil)
	if v.T == nil || v.T.Kind != KStruct {
		failAt(x, "unsupported construct: selector .%s on %s", x.Sel.Name, v.T.key())
	}
	st := fx.g.structs[v.T.Name]
	for _, f := range st.Fields {
		if f[0] == x.Sel.Name {
			return Val{Code: fmt.Sprintf("go_%s_%s %s", st.Name, f[0], paren(v.Code)), T: fx.g.resolveType(f[1], x)}
		}
	}
	failAt(x, "field %s.%s is not in the spec's field list", st.Name, x.Sel.Name)
	return Val{}
}

func (fx *fn) unary(x *ast.UnaryExpr, env *Env, hint *Type) Val {
	v := fx.expr(x.X, env, hint)
	switch x.Op {
	case token.ADD:
		return v
	case token.NOT:
		if v.BoolC != nil {
			return boolVal(!*v.BoolC)
		}
		if v.T == nil || v.T.Kind != KBool {
			failAt(x, "! on a non-boolean")
		}
		return Val{Code: "negb " + paren(v.Code), T: boolType}
	case token.SUB:
		if v.Const != nil {
			n := new(big.Int).Neg(v.Const)
			if v.T != nil && !v.T.fits(n) {
				failAt(x, "constant overflow")
			}
			return Val{Code: constCode(n), T: v.T, Const: n}
		}
		if v.T == nil || v.T.Kind != KInt {
			failAt(x, "unary - on a non-integer")
		}
		return Val{Code: v.T.wrap("- " + paren(v.Code)), T: v.T}
	case token.XOR:
		if v.T == nil || v.T.Kind != KInt {
			failAt(x, "unsupported construct: ^ on an untyped constant or non-integer")
		}
		if v.T.Signed {
			return Val{Code: "(- " + paren(v.Code) + " - 1)", T: v.T}
		}
		return Val{Code: "(" + v.T.max().String() + " - " + paren(v.Code) + ")", T: v.T}
	}
	failAt(x, "unsupported construct: unary operator %s", x.Op)
	return Val{}
}

func (fx *fn) try(e ast.Expr, env *Env, hint *Type) (v Val, nt *needType) {
	savePre, saveTmp := len(fx.pre), fx.tmp
	defer func() {
		if r := recover(); r != nil {
			if n, ok := r.(needType); ok {
				fx.pre = fx.pre[:savePre]
				fx.tmp = saveTmp
				nt = &n
				return
			}
			panic(r)
		}
	}()
	return fx.expr(e, env, hint), nil
}

func constBin(op token.Token, a, b *big.Int, at ast.Node) *big.Int {
	r := new(big.Int)
	switch op {
	case token.ADD:
		return r.Add(a, b)
	case token.SUB:
		return r.Sub(a, b)
	case token.MUL:
		return r.Mul(a, b)
	case token.QUO:
		if b.Sign() == 0 {
			failAt(at, "constant division by zero")
		}
		return r.Quo(a, b)
	case token.REM:
		if b.Sign() == 0 {
			failAt(at, "constant division by zero")
		}
		return r.Rem(a, b)
	case token.AND:
		return r.And(a, b)
	case token.OR:
		return r.Or(a, b)
	case token.XOR:
		return r.Xor(a, b)
	case token.AND_NOT:
		return r.AndNot(a, b)
	case token.SHL:
		if b.Sign() < 0 || b.Cmp(big.NewInt(4096)) > 0 {
			failAt(at, "constant shift count out of range")
		}
		return r.Lsh(a, uint(b.Int64()))
	case token.SHR:
		if b.Sign() < 0 || b.Cmp(big.NewInt(4096)) > 0 {
			failAt(at, "constant shift count out of range")
		}
		return r.Rsh(a, uint(b.Int64()))
	}
	failAt(at, "unsupported construct: constant operator %s", op)
	return nil
}

func (fx *fn) binary(x *ast.BinaryExpr, env *Env, hint *Type) Val {
	switch x.Op {
	case token.LAND, token.LOR:
		a := fx.expr(x.X, env, nil)
		a = fx.toType(a, boolType, x)
		outer := fx.takePre()
		b := fx.expr(x.Y, env, nil)
		b = fx.toType(b, boolType, x)
		inner := fx.takePre()
		fx.pre = outer
		for _, p := range inner {
			if !p.guard {
				failAt(x, "unsupported construct: a call that can panic in the right operand of %s", x.Op)
			}
			c := paren(a.Code)
			if x.Op == token.LOR {
				c = "negb " + c
			}
			fx.pre = append(fx.pre, Pre{guard: true, Cond: c + " && (" + p.Cond + ")", Why: p.Why})
		}
		if a.T.Kind != KBool || b.T.Kind != KBool {
			failAt(x, "%s on non-booleans", x.Op)
		}
		op := " && "
		if x.Op == token.LOR {
			op = " || "
		}
		return Val{Code: "(" + paren(a.Code) + op + paren(b.Code) + ")", T: boolType}
	case token.SHL, token.SHR:
		a := fx.expr(x.X, env, hint)
		n := fx.expr(x.Y, env, nil)
		if a.Const != nil && n.Const != nil {
			r := constBin(x.Op, a.Const, n.Const, x)
			if a.T != nil && !a.T.fits(r) {
				failAt(x, "constant overflow")
			}
			return Val{Code: constCode(r), T: a.T, Const: r}
		}
		if a.T == nil { // untyped constant shifted by a non-constant: takes the type of the context
			if hint == nil || hint.Kind != KInt {
				panic(needType{"untyped constant in a non-constant shift needs a type from its context"})
			}
			a = fx.toType(a, hint, x)
		}
		if a.T.Kind != KInt {
			failAt(x, "shift of a non-integer")
		}
		var cnt string
		small := false
		if n.Const != nil {
			if n.Const.Sign() < 0 {
				failAt(x, "negative constant shift count")
			}
			cnt = constCode(n.Const)
			small = n.Const.Cmp(big.NewInt(64)) < 0
		} else {
			if n.T == nil || n.T.Kind != KInt {
				failAt(x, "non-integer shift count")
			}
			cnt = paren(n.Code)
			if n.T.Signed {
				fx.pre = append(fx.pre, Pre{guard: true, Cond: "(" + cnt + " <? 0)", Why: "negative shift count"})
			}
		}
		if x.Op == token.SHL {
			if small {
				return Val{Code: a.T.wrap("Z.shiftl " + paren(a.Code) + " " + cnt), T: a.T}
			}
			return Val{Code: a.T.wrap("shl " + paren(a.Code) + " " + cnt), T: a.T}
		}
		if small {
			return Val{Code: "Z.shiftr " + paren(a.Code) + " " + cnt, T: a.T}
		}
		return Val{Code: "shr " + paren(a.Code) + " " + cnt, T: a.T}
	}
	cmp := false
	switch x.Op {
	case token.EQL, token.NEQ, token.LSS, token.LEQ, token.GTR, token.GEQ:
		cmp = true
	}
	h := hint
	if cmp {
		h = nil
	}
	var a, b Val
	a0, nt := fx.try(x.X, env, h)
	if nt != nil {
		b = fx.expr(x.Y, env, h)
		if b.T == nil {
			panic(*nt)
		}
		a = fx.expr(x.X, env, b.T)
	} else {
		a = a0
		hb := h
		if a.T != nil {
			hb = a.T
		}
		b = fx.expr(x.Y, env, hb)
	}
	// unify
	if a.T == nil && b.T != nil {
		a = fx.toType(a, b.T, x)
	} else if b.T == nil && a.T != nil {
		b = fx.toType(b, a.T, x)
	} else if a.T != nil && b.T != nil && a.T.key() != b.T.key() {
		failAt(x, "mismatched operand types %s and %s", a.T.key(), b.T.key())
	}
	if cmp {
		if a.Const != nil && b.Const != nil {
			c := a.Const.Cmp(b.Const)
			return boolVal(map[token.Token]bool{token.EQL: c == 0, token.NEQ: c != 0, token.LSS: c < 0, token.LEQ: c <= 0, token.GTR: c > 0, token.GEQ: c >= 0}[x.Op])
		}
		if a.T == nil {
			failAt(x, "unsupported construct: comparison of untyped operands")
		}
		ac, bc := paren(a.Code), paren(b.Code)
		if a.T.Kind == KBool {
			switch x.Op {
			case token.EQL:
				return Val{Code: "Bool.eqb " + ac + " " + bc, T: boolType}
			case token.NEQ:
				return Val{Code: "negb (Bool.eqb " + ac + " " + bc + ")", T: boolType}
			}
			failAt(x, "ordering of booleans")
		}
		if a.T.Kind != KInt {
			failAt(x, "unsupported construct: comparison of %s values", a.T.key())
		}
		switch x.Op {
		case token.EQL:
			return Val{Code: "(" + ac + " =? " + bc + ")", T: boolType}
		case token.NEQ:
			return Val{Code: "negb (" + ac + " =? " + bc + ")", T: boolType}
		case token.LSS:
			return Val{Code: "(" + ac + " <? " + bc + ")", T: boolType}
		case token.LEQ:
			return Val{Code: "(" + ac + " <=? " + bc + ")", T: boolType}
		case token.GTR:
			return Val{Code: "(" + bc + " <? " + ac + ")", T: boolType}
		case token.GEQ:
			return Val{Code: "(" + bc + " <=? " + ac + ")", T: boolType}
		}
	}
	// arithmetic
	if a.Const != nil && b.Const != nil {
		r := constBin(x.Op, a.Const, b.Const, x)
		if a.T != nil && !a.T.fits(r) {
			failAt(x, "constant overflow")
		}
		return Val{Code: constCode(r), T: a.T, Const: r}
	}
	if a.T == nil {
		failAt(x, "internal: untyped non-constant operands")
	}
	t := a.T
	if t.Kind != KInt {
		failAt(x, "unsupported construct: operator %s on %s", x.Op, t.key())
	}
	ac, bc := paren(a.Code), paren(b.Code)
	switch x.Op {
	case token.ADD:
		return Val{Code: t.wrap(ac + " + " + bc), T: t}
	case token.SUB:
		return Val{Code: t.wrap(ac + " - " + bc), T: t}
	case token.MUL:
		return Val{Code: t.wrap(ac + " * " + bc), T: t}
	case token.QUO, token.REM:
		if b.Const == nil {
			fx.pre = append(fx.pre, Pre{guard: true, Cond: "(" + bc + " =? 0)", Why: "integer divide by zero"})
		} else if b.Const.Sign() == 0 {
			failAt(x, "division by constant zero")
		}
		if t.Signed {
			if x.Op == token.QUO {
				return Val{Code: t.wrap("Z.quot " + ac + " " + bc), T: t}
			}
			return Val{Code: "Z.rem " + ac + " " + bc, T: t}
		}
		if x.Op == token.QUO {
			return Val{Code: "(" + ac + " / " + bc + ")", T: t}
		}
		return Val{Code: "(" + ac + " mod " + bc + ")", T: t}
	case token.AND:
		return Val{Code: "Z.land " + ac + " " + bc, T: t}
	case token.OR:
		return Val{Code: "Z.lor " + ac + " " + bc, T: t}
	case token.XOR:
		return Val{Code: "Z.lxor " + ac + " " + bc, T: t}
	case token.AND_NOT:
		return Val{Code: "Z.ldiff " + ac + " " + bc, T: t}
	}
	failAt(x, "unsupported construct: binary operator %s", x.Op)
	return Val{}
}

func (fx *fn) convert(v Val, t *Type, at ast.Node) Val {
	if t.Kind != KInt {
		failAt(at, "unsupported construct: conversion to %s", t.key())
	}
	if v.Const != nil {
		if !t.fits(v.Const) {
			failAt(at, "constant %s overflows %s in a conversion", v.Const, t.key())
		}
		return Val{Code: constCode(v.Const), T: t, Const: v.Const}
	}
	if v.T == nil || v.T.Kind != KInt {
		failAt(at, "unsupported construct: conversion of a non-integer to %s", t.key())
	}
	if v.T.min().Cmp(t.min()) >= 0 && v.T.max().Cmp(t.max()) <= 0 {
		return Val{Code: v.Code, T: t}
	}
	return Val{Code: t.wrap(v.Code), T: t}
}

func (fx *fn) isTypeName(s string) bool {
	if _, ok := builtinInts[s]; ok {
		return true
	}
	if _, ok := fx.g.spec.Types[s]; ok {
		return true
	}
	if i := strings.LastIndex(s, "."); i >= 0 {
		if _, ok := fx.g.spec.Types[s[i+1:]]; ok {
			return true
		}
	}
	return false
}

func (fx *fn) findSpecFunc(pkg, recv, name string) *Translated {
	for _, t := range fx.g.done {
		if t.Spec.Pkg == pkg && t.Spec.Recv == recv && t.Spec.Func == name {
			return t
		}
	}
	return nil
}

func (fx *fn) findMethod(recv, name string) *Translated {
	for _, t := range fx.g.done {
		if t.Spec.Recv == recv && t.Spec.Func == name {
			return t
		}
	}
	return nil
}

func (fx *fn) externOf(key string) (string, *ExternSpec) {
	raw, ok := fx.g.spec.Externs[key]
	if !ok {
		return "", nil
	}
	var s string
	if json.Unmarshal(raw, &s) == nil {
		return s, nil
	}
	var es ExternSpec
	if err := json.Unmarshal(raw, &es); err != nil {
		panic(trErr{"spec: extern " + key + ": " + err.Error()})
	}
	return "", &es
}

func (fx *fn) callSpec(t *Translated, args []Val, env *Env, at ast.Node) Val {
	if len(args) != len(t.Params) {
		failAt(at, "call of %s with %d arguments, translation has %d parameters", t.CoqName, len(args), len(t.Params))
	}
	parts := []string{t.CoqName}
	if t.Fuel {
		parts = append(parts, "fuel")
		fx.out.Fuel = true
	}
	for _, gp := range t.Globals {
		if env.lookup(gp.Name) == nil {
			failAt(at, "callee %s reads global %s which the caller's spec does not declare", t.CoqName, gp.Name)
		}
		parts = append(parts, cname(gp.Name))
	}
	for i, a := range args {
		a = fx.toType(a, t.Params[i].T, at)
		parts = append(parts, paren(a.Code))
	}
	code := strings.Join(parts, " ")
	if t.Monadic {
		tmp := fx.fresh("r")
		fx.pre = append(fx.pre, Pre{Pat: tmp, M: code})
		return Val{Code: tmp, T: t.Ret}
	}
	return Val{Code: code, T: t.Ret}
}

func (fx *fn) callExtern(key string, es *ExternSpec, recv *Val, argExprs []ast.Expr, env *Env, at ast.Node) Val {
	if len(argExprs) != len(es.Args) {
		failAt(at, "extern %s: %d arguments, spec says %d", key, len(argExprs), len(es.Args))
	}
	parts := []string{es.Coq}
	if recv != nil {
		parts = append(parts, paren(recv.Code))
	}
	for i, ae := range argExprs {
		t := fx.g.resolveType(es.Args[i], at)
		v := fx.expr(ae, env, t)
		v = fx.toType(v, t, at)
		parts = append(parts, paren(v.Code))
	}
	fx.externs[key+" -> "+es.Coq] = true
	if es.Monadic {
		tmp := fx.fresh("r")
		fx.pre = append(fx.pre, Pre{Pat: tmp, M: strings.Join(parts, " ")})
		return Val{Code: tmp, T: fx.g.resolveType(es.Ret, at)}
	}
	return Val{Code: strings.Join(parts, " "), T: fx.g.resolveType(es.Ret, at)}
}

func (fx *fn) call(x *ast.CallExpr, env *Env, hint *Type) Val {
	if x.Ellipsis != token.NoPos {
		failAt(x, "unsupported construct: variadic call with ...")
	}
	args := func(hints []*Type) []Val {
		r := []Val{}
		for i, a := range x.Args {
			var h *Type
			if i < len(hints) {
				h = hints[i]
			}
			r = append(r, fx.expr(a, env, h))
		}
		return r
	}
	paramHints := func(t *Translated, skipRecv bool) []*Type {
		h := []*Type{}
		ps := t.Params
		if skipRecv {
			ps = ps[1:]
		}
		for _, p := range ps {
			h = append(h, p.T)
		}
		return h
	}
	switch f := x.Fun.(type) {
	case *ast.ParenExpr:
		failAt(x, "unsupported construct: call of a parenthesised expression")
	case *ast.Ident:
		if ft := env.lookup(f.Name); ft != nil {
			if ft.Kind != KFunc {
				failAt(x, "unsupported construct: call of %s which is not a function value", f.Name)
			}
			if len(x.Args) != len(ft.Elems) {
				failAt(x, "call of %s with %d arguments, its type has %d", f.Name, len(x.Args), len(ft.Elems))
			}
			parts := []string{cname(f.Name)}
			for i, a := range x.Args {
				v := fx.expr(a, env, ft.Elems[i])
				v = fx.toType(v, ft.Elems[i], x)
				parts = append(parts, paren(v.Code))
			}
			tmp := fx.fresh("r")
			fx.pre = append(fx.pre, Pre{Pat: tmp, M: strings.Join(parts, " ")})
			return Val{Code: tmp, T: ft.Elem}
		}
		switch f.Name {
		case "len":
			if len(x.Args) != 1 {
				failAt(x, "len with %d arguments", len(x.Args))
			}
			v := fx.expr(x.Args[0], env, nil)
			if v.T != nil && v.T.Kind == KLens {
				return Val{Code: v.Code, T: builtinInts["int"]}
			}
			if v.T == nil || v.T.Kind != KSlice {
				failAt(x, "unsupported construct: len of %s", v.T.key())
			}
			return Val{Code: "len " + paren(v.Code), T: builtinInts["int"]}
		case "min", "max":
			if len(x.Args) < 2 {
				failAt(x, "unsupported construct: %s with fewer than 2 arguments", f.Name)
			}
			vs := args(nil)
			var t *Type
			for _, v := range vs {
				if v.T != nil {
					if t != nil && t.key() != v.T.key() {
						failAt(x, "%s: mismatched argument types", f.Name)
					}
					t = v.T
				}
			}
			if t == nil {
				t = hint
			}
			if t == nil {
				t = builtinInts["int"]
			}
			if t.Kind != KInt {
				failAt(x, "unsupported construct: %s on %s", f.Name, t.key())
			}
			code := ""
			for i, v := range vs {
				v = fx.toType(v, t, x)
				if i == 0 {
					code = v.Code
				} else {
					code = "Z." + f.Name + " " + paren(code) + " " + paren(v.Code)
				}
			}
			return Val{Code: code, T: t}
		case "panic":
			failAt(x, "unsupported construct: panic() used as an expression")
		}
		if fx.isTypeName(f.Name) {
			if len(x.Args) != 1 {
				failAt(x, "conversion with %d arguments", len(x.Args))
			}
			t := fx.g.resolveType(f.Name, x)
			return fx.convert(fx.expr(x.Args[0], env, t), t, x)
		}
		if t := fx.findSpecFunc(fx.out.Spec.Pkg, "", f.Name); t != nil {
			return fx.callSpec(t, args(paramHints(t, false)), env, x)
		}
		if _, es := fx.externOf(f.Name); es != nil {
			return fx.callExtern(f.Name, es, nil, x.Args, env, x)
		}
		failAt(x, "call of %s: not in the spec (functions must be listed before their callers) and not an extern", f.Name)
	case *ast.SelectorExpr:
		if id, ok := f.X.(*ast.Ident); ok && env.lookup(id.Name) == nil {
			if _, isPkg := fx.imports[id.Name]; isPkg {
				key := id.Name + "." + f.Sel.Name
				if fx.isTypeName(key) {
					if len(x.Args) != 1 {
						failAt(x, "conversion with %d arguments", len(x.Args))
					}
					t := fx.g.resolveType(key, x)
					return fx.convert(fx.expr(x.Args[0], env, t), t, x)
				}
				if s, es := fx.externOf(key); es != nil {
					return fx.callExtern(key, es, nil, x.Args, env, x)
				} else if s != "" {
					failAt(x, "extern %s (%s) used as an expression", key, s)
				}
				if t := fx.findSpecFunc(id.Name, "", f.Sel.Name); t != nil {
					return fx.callSpec(t, args(paramHints(t, false)), env, x)
				}
				failAt(x, "call of %s: not in the spec and not an extern", key)
			}
		}
		recv := fx.expr(f.X, env, nil)
		if recv.T == nil || recv.T.Name == "" {
			failAt(x, "unsupported construct: method call .%s on %s", f.Sel.Name, recv.T.key())
		}
		if t := fx.findMethod(recv.T.Name, f.Sel.Name); t != nil {
			as := append([]Val{recv}, args(paramHints(t, true))...)
			return fx.callSpec(t, as, env, x)
		}
		key := recv.T.Name + "." + f.Sel.Name
		if _, es := fx.externOf(key); es != nil {
			return fx.callExtern(key, es, &recv, x.Args, env, x)
		}
		failAt(x, "method %s: not in the spec (list it before its callers) and not an extern", key)
	}
	failAt(x, "unsupported construct: call of %T", x.Fun)
	return Val{}
}

// ----------------------------------------------------------------------------- statements

func hasEscape(fx *fn, n ast.Node) bool {
	found := false
	ast.Inspect(n, func(m ast.Node) bool {
		switch s := m.(type) {
		case *ast.ReturnStmt, *ast.BranchStmt:
			found = true
		case *ast.FuncLit:
			return false
		case *ast.ExprStmt:
			if c, ok := s.X.(*ast.CallExpr); ok && fx.stmtCallKind(c) == "@panic" {
				found = true
			}
		}
		return !found
	})
	return found
}

func (fx *fn) stmtCallKind(c *ast.CallExpr) string {
	switch f := c.Fun.(type) {
	case *ast.Ident:
		if f.Name == "panic" {
			return "@panic"
		}
		s, _ := fx.externOf(f.Name)
		return s
	case *ast.SelectorExpr:
		key := typeStringSafe(f)
		s, _ := fx.externOf(key)
		if s != "" {
			return s
		}
	}
	return ""
}

func typeStringSafe(e ast.Expr) string {
	switch t := e.(type) {
	case *ast.Ident:
		return t.Name
	case *ast.SelectorExpr:
		return typeStringSafe(t.X) + "." + t.Sel.Name
	}
	return "?"
}

func assigned(n ast.Node, into map[string]bool) {
	ast.Inspect(n, func(m ast.Node) bool {
		switch s := m.(type) {
		case *ast.AssignStmt:
			for _, l := range s.Lhs {
				if id, ok := l.(*ast.Ident); ok {
					into[id.Name] = true
				}
				if se, ok := l.(*ast.SelectorExpr); ok {
					if id, ok := se.X.(*ast.Ident); ok {
						into[id.Name] = true
					}
				}
			}
		case *ast.IncDecStmt:
			if id, ok := s.X.(*ast.Ident); ok {
				into[id.Name] = true
			}
			if se, ok := s.X.(*ast.SelectorExpr); ok {
				if id, ok := se.X.(*ast.Ident); ok {
					into[id.Name] = true
				}
			}
		}
		return true
	})
}

func carriedVars(env *Env, nodes ...ast.Node) []param {
	set := map[string]bool{}
	for _, n := range nodes {
		if n != nil && !isNilNode(n) {
			assigned(n, set)
		}
	}
	r := []param{}
	for _, v := range env.vars {
		if set[v.Name] {
			r = append(r, v)
		}
	}
	return r
}

func isNilNode(n ast.Node) bool {
	switch x := n.(type) {
	case *ast.BlockStmt:
		return x == nil
	case ast.Stmt:
		return x == nil
	}
	return false
}

func names(ps []param) []string {
	r := []string{}
	for _, p := range ps {
		r = append(r, cname(p.Name))
	}
	return r
}

func (fx *fn) block(stmts []ast.Stmt, env *Env, c *ctx, k func(*Env) Term) Term {
	if len(stmts) == 0 {
		return k(env)
	}
	return fx.stmt(stmts[0], env, c, func(e *Env) Term { return fx.block(stmts[1:], e, c, k) })
}

func (fx *fn) define(name string, t *Type, env *Env, at ast.Node) *Env {
	if name == "_" {
		return env
	}
	if env.lookup(name) != nil {
		failAt(at, "unsupported construct: declaration of %s shadows a variable in scope", name)
	}
	if _, ok := fx.lconsts[name]; ok {
		failAt(at, "unsupported construct: declaration of %s shadows a constant", name)
	}
	return env.with(name, t)
}

func (fx *fn) assign(lhs ast.Expr, rhs ast.Expr, def bool, env *Env, at ast.Node, k func(*Env) Term) Term {
	if se, isSel := lhs.(*ast.SelectorExpr); isSel && !def {
		return fx.assignField(se, rhs, env, at, k)
	}
	id, ok := lhs.(*ast.Ident)
	if !ok {
		failAt(at, "unsupported construct: assignment to %T (only local variables can be assigned)", lhs)
	}
	var hint *Type
	if !def {
		hint = env.lookup(id.Name)
		if hint == nil && id.Name != "_" {
			failAt(at, "assignment to %s which is not a local variable", id.Name)
		}
	}
	v := fx.expr(rhs, env, hint)
	if def {
		if v.T == nil {
			if v.BoolC != nil {
				v = fx.toType(v, boolType, at)
			} else {
				v = fx.toType(v, builtinInts["int"], at)
			}
		}
		if v.T.Kind == KTuple {
			failAt(at, "assignment count mismatch")
		}
		if v.T.Kind == KFunc {
			failAt(at, "unsupported construct: function value stored in a variable (function literals only as call arguments)")
		}
		env = fx.define(id.Name, v.T, env, at)
	} else if id.Name != "_" {
		v = fx.toType(v, hint, at)
	}
	pre := fx.takePre()
	if id.Name == "_" {
		return wrapPre(pre, k(env))
	}
	return wrapPre(pre, TLet{cname(id.Name), v.Code, k(env)})
}

// assignField: x.f = e for a LOCAL variable x of a spec struct type: x is rebuilt with the constructor
func (fx *fn) assignField(se *ast.SelectorExpr, rhs ast.Expr, env *Env, at ast.Node, k func(*Env) Term) Term {
	id, ok := se.X.(*ast.Ident)
	if !ok {
		failAt(at, "unsupported construct: assignment to a nested field")
	}
	t := env.lookup(id.Name)
	if t == nil || t.Kind != KStruct {
		failAt(at, "unsupported construct: assignment to a field of %s which is not a local struct variable", id.Name)
	}
	if fx.params[id.Name] {
		failAt(at, "unsupported construct: assignment to a field of the parameter/receiver %s (visible to the caller)", id.Name)
	}
	st := fx.g.structs[t.Name]
	var ft *Type
	for _, f := range st.Fields {
		if f[0] == se.Sel.Name {
			ft = fx.g.resolveType(f[1], at)
		}
	}
	if ft == nil {
		failAt(at, "field %s.%s is not in the spec's field list", st.Name, se.Sel.Name)
	}
	v := fx.expr(rhs, env, ft)
	v = fx.toType(v, ft, at)
	pre := fx.takePre()
	code := "mk_go_" + st.Name
	for _, f := range st.Fields {
		if f[0] == se.Sel.Name {
			code += " " + paren(v.Code)
		} else {
			code += fmt.Sprintf(" (go_%s_%s %s)", st.Name, f[0], cname(id.Name))
		}
	}
	return wrapPre(pre, TLet{cname(id.Name), code, k(env)})
}

var opOfAssign = map[token.Token]token.Token{
	token.ADD_ASSIGN: token.ADD, token.SUB_ASSIGN: token.SUB, token.MUL_ASSIGN: token.MUL, token.QUO_ASSIGN: token.QUO,
	token.REM_ASSIGN: token.REM, token.AND_ASSIGN: token.AND, token.OR_ASSIGN: token.OR, token.XOR_ASSIGN: token.XOR,
	token.SHL_ASSIGN: token.SHL, token.SHR_ASSIGN: token.SHR, token.AND_NOT_ASSIGN: token.AND_NOT,
}

func (fx *fn) stmt(s ast.Stmt, env *Env, c *ctx, k func(*Env) Term) Term {
	switch x := s.(type) {
	case *ast.EmptyStmt:
		return k(env)
	case *ast.BlockStmt:
		outer := env
		return fx.block(x.List, env, c, func(e *Env) Term { return k(restrict(e, outer)) })
	case *ast.AssignStmt:
		if x.Tok == token.DEFINE || x.Tok == token.ASSIGN {
			if len(x.Lhs) == 1 && len(x.Rhs) == 1 {
				return fx.assign(x.Lhs[0], x.Rhs[0], x.Tok == token.DEFINE, env, x, k)
			}
			if len(x.Rhs) == 1 {
				v := fx.expr(x.Rhs[0], env, nil)
				if v.T == nil || v.T.Kind != KTuple || len(v.T.Elems) != len(x.Lhs) {
					failAt(x, "unsupported construct: multiple assignment from a non-tuple")
				}
				ns := []string{}
				for i, l := range x.Lhs {
					id, ok := l.(*ast.Ident)
					if !ok {
						failAt(x, "unsupported construct: assignment to %T", l)
					}
					if id.Name == "_" {
						ns = append(ns, "_")
						continue
					}
					if x.Tok == token.DEFINE {
						env = fx.define(id.Name, v.T.Elems[i], env, x)
					} else {
						t := env.lookup(id.Name)
						if t == nil || t.key() != v.T.Elems[i].key() {
							failAt(x, "assignment to %s: unknown variable or type mismatch", id.Name)
						}
					}
					ns = append(ns, cname(id.Name))
				}
				pre := fx.takePre()
				return wrapPre(pre, TLet{"'(" + strings.Join(ns, ", ") + ")", v.Code, k(env)})
			}
			failAt(x, "unsupported construct: parallel assignment")
		}
		op, ok := opOfAssign[x.Tok]
		if !ok || len(x.Lhs) != 1 || len(x.Rhs) != 1 {
			failAt(x, "unsupported construct: assignment operator %s", x.Tok)
		}
		be := &ast.BinaryExpr{X: x.Lhs[0], OpPos: x.TokPos, Op: op, Y: &ast.ParenExpr{Lparen: x.Rhs[0].Pos(), X: x.Rhs[0]}}
		return fx.assign(x.Lhs[0], be, false, env, x, k)
	case *ast.IncDecStmt:
		op := token.ADD
		if x.Tok == token.DEC {
			op = token.SUB
		}
		be := &ast.BinaryExpr{X: x.X, OpPos: x.TokPos, Op: op, Y: &ast.BasicLit{ValuePos: x.TokPos, Kind: token.INT, Value: "1"}}
		return fx.assign(x.X, be, false, env, x, k)
	case *ast.DeclStmt:
		gd, ok := x.Decl.(*ast.GenDecl)
		if !ok || (gd.Tok != token.VAR && gd.Tok != token.CONST) {
			failAt(x, "unsupported construct: local declaration %s", gd.Tok)
		}
		type bindv struct {
			n, code string
		}
		var lets []bindv
		var pre []Pre
		for _, sp := range gd.Specs {
			vs := sp.(*ast.ValueSpec)
			var t *Type
			if vs.Type != nil {
				t = fx.g.resolveType(typeString(vs.Type), vs)
			}
			for i, nm := range vs.Names {
				if gd.Tok == token.CONST {
					if i >= len(vs.Values) {
						failAt(vs, "unsupported construct: constant without a value")
					}
					v := fx.expr(vs.Values[i], env, t)
					if v.Const == nil && v.BoolC == nil {
						failAt(vs, "constant %s is not a constant expression", nm.Name)
					}
					if t != nil {
						v = fx.toType(Val{Code: v.Code, Const: v.Const, BoolC: v.BoolC}, t, vs)
					}
					if env.lookup(nm.Name) != nil {
						failAt(vs, "unsupported construct: constant %s shadows a variable", nm.Name)
					}
					fx.lconsts[nm.Name] = v
					continue
				}
				var v Val
				if len(vs.Values) == 0 {
					if t == nil {
						failAt(vs, "var without type and value")
					}
					switch t.Kind {
					case KInt:
						v = Val{Code: "0", T: t}
					case KBool:
						v = Val{Code: "false", T: t}
					default:
						failAt(vs, "unsupported construct: zero value of %s", t.key())
					}
				} else {
					if len(vs.Values) != len(vs.Names) {
						failAt(vs, "unsupported construct: var declaration from a tuple")
					}
					v = fx.expr(vs.Values[i], env, t)
					if t != nil {
						v = fx.toType(v, t, vs)
					} else if v.T == nil {
						if v.BoolC != nil {
							v = fx.toType(v, boolType, vs)
						} else {
							v = fx.toType(v, builtinInts["int"], vs)
						}
					}
				}
				env = fx.define(nm.Name, v.T, env, vs)
				lets = append(lets, bindv{cname(nm.Name), v.Code})
			}
			pre = append(pre, fx.takePre()...)
		}
		body := k(env)
		for i := len(lets) - 1; i >= 0; i-- {
			body = TLet{lets[i].n, lets[i].code, body}
		}
		return wrapPre(pre, body)
	case *ast.ExprStmt:
		call, ok := x.X.(*ast.CallExpr)
		if !ok {
			failAt(x, "unsupported construct: expression statement %T", x.X)
		}
		switch fx.stmtCallKind(call) {
		case "@skip":
			fx.skipped[typeStringSafe(call.Fun)] = true
			return k(env)
		case "@panic":
			why := typeStringSafe(call.Fun)
			if why != "panic" {
				fx.skipped[why+" (= panic)"] = true
			}
			return TPanic{why}
		}
		failAt(x, "unsupported construct: call statement %s (only externs marked @skip/@panic)", typeStringSafe(call.Fun))
	case *ast.ReturnStmt:
		if len(x.Results) != len(fx.rets) {
			failAt(x, "unsupported construct: return with %d values in a function with %d results (named results / bare return)", len(x.Results), len(fx.rets))
		}
		codes := []string{}
		for i, r := range x.Results {
			v := fx.expr(r, env, fx.rets[i])
			v = fx.toType(v, fx.rets[i], x)
			codes = append(codes, v.Code)
		}
		pre := fx.takePre()
		return wrapPre(pre, c.ret(tuple(codes)))
	case *ast.BranchStmt:
		if x.Label != nil {
			failAt(x, "unsupported construct: labelled %s", x.Tok)
		}
		switch x.Tok {
		case token.BREAK:
			if c.brk == nil {
				failAt(x, "break outside a translated loop")
			}
			return c.brk(env)
		case token.CONTINUE:
			if c.cont == nil {
				failAt(x, "continue outside a translated loop")
			}
			return c.cont(env)
		}
		failAt(x, "unsupported construct: %s", x.Tok)
	case *ast.IfStmt:
		if x.Init != nil {
			outer := env
			return fx.stmt(x.Init, env, c, func(e *Env) Term {
				y := *x
				y.Init = nil
				return fx.stmt(&y, e, c, func(e2 *Env) Term { return k(restrict(e2, outer)) })
			})
		}
		cond := fx.expr(x.Cond, env, nil)
		cond = fx.toType(cond, boolType, x)
		if cond.T.Kind != KBool {
			failAt(x, "non-boolean condition")
		}
		pre := fx.takePre()
		var elseStmts []ast.Stmt
		if x.Else != nil {
			elseStmts = []ast.Stmt{x.Else}
		}
		esc := hasEscape(fx, x.Body)
		if x.Else != nil && hasEscape(fx, x.Else) {
			esc = true
		}
		if esc {
			kk := func(e *Env) Term { return k(restrict(e, env)) }
			return wrapPre(pre, TIf{cond.Code, fx.block(x.Body.List, env, c, kk), fx.block(elseStmts, env, c, kk)})
		}
		var elseNode ast.Node
		if x.Else != nil {
			elseNode = x.Else
		}
		car := carriedVars(env, x.Body, elseNode)
		kt := func(e *Env) Term { return TRet{tuple(names(car))} }
		noesc := &ctx{ret: func(string) Term { panic("internal: return in a joined branch") }}
		th := fx.block(x.Body.List, env, noesc, kt)
		el := fx.block(elseStmts, env, noesc, kt)
		if len(car) == 0 && !monadic(th) && !monadic(el) {
			return wrapPre(pre, k(env)) // branches without effect on the result (only @skip calls)
		}
		return wrapPre(pre, TBindT{tuplePat(names(car)), TIf{cond.Code, th, el}, k(env)})
	case *ast.ForStmt:
		return fx.forStmt(x, env, c, k)
	case *ast.RangeStmt:
		return fx.rangeStmt(x, env, c, k)
	}
	failAt(s, "unsupported construct: statement %T", s)
	return nil
}

// restrict drops the variables declared in an inner scope
func restrict(e, outer *Env) *Env {
	if len(e.vars) <= len(outer.vars) {
		return e
	}
	return &Env{e.vars[:len(outer.vars)]}
}

func (fx *fn) forStmt(x *ast.ForStmt, env *Env, c *ctx, k func(*Env) Term) Term {
	if x.Init != nil {
		y := *x
		y.Init = nil
		return fx.stmt(x.Init, env, c, func(e *Env) Term {
			return fx.forStmt(&y, e, c, func(e2 *Env) Term { return k(restrict(e2, env)) })
		})
	}
	var postNode ast.Node
	if x.Post != nil {
		postNode = x.Post
	}
	car := carriedVars(env, x.Body, postNode)
	all := env.vars
	fx.nloop++
	name := fmt.Sprintf("%s_loop%d", fx.out.CoqName, fx.nloop)
	fx.out.Fuel = true
	recCall := name + " fuel0"
	call := name + " fuel"
	sig := ""
	for _, v := range all {
		recCall += " " + cname(v.Name)
		call += " " + cname(v.Name)
		sig += fmt.Sprintf(" (%s : %s)", cname(v.Name), v.T.coq())
	}
	exit := func(e *Env) Term { return TRet{"inl " + paren(tuple(names(car)))} }
	lc := &ctx{ret: func(v string) Term { return TRet{"inr " + paren(v)} }, brk: exit}
	next := func(e *Env) Term {
		if x.Post == nil {
			return TRawM{recCall}
		}
		return fx.stmt(x.Post, restrict(e, env), lc, func(*Env) Term { return TRawM{recCall} })
	}
	lc.cont = next
	var body Term
	if x.Cond != nil {
		cond := fx.expr(x.Cond, env, nil)
		cond = fx.toType(cond, boolType, x)
		pre := fx.takePre()
		body = wrapPre(pre, TIf{cond.Code, fx.block(x.Body.List, env, lc, next), exit(env)})
	} else {
		body = fx.block(x.Body.List, env, lc, next)
	}
	rt := fmt.Sprintf("outcome (%s + %s)", tupleType(car), paren(fx.ret.coq()))
	txt := fmt.Sprintf("Fixpoint %s (fuel : nat)%s {struct fuel} : %s :=\n  match fuel with\n  | O => OutOfFuel\n  | S fuel0 =>\n%s\n  end.\n",
		name, sig, rt, printTerm(body, true, 2))
	fx.aux = append(fx.aux, txt)
	pl := tuplePat(names(car))
	if len(car) >= 2 {
		pl = pl[1:] // match patterns need no quote
	}
	return TBind{"lr", call, TSum{"lr", pl, k(env), "r", c.ret("r")}}
}

func (fx *fn) rangeStmt(x *ast.RangeStmt, env *Env, c *ctx, k func(*Env) Term) Term {
	if x.Tok != token.DEFINE || x.Value == nil {
		failAt(x, "unsupported construct: range loop without `_, x :=` form")
	}
	if id, ok := x.Key.(*ast.Ident); !ok || id.Name != "_" {
		failAt(x, "unsupported construct: range loop with an index variable")
	}
	vid, ok := x.Value.(*ast.Ident)
	if !ok {
		failAt(x, "unsupported construct: range value %T", x.Value)
	}
	s := fx.expr(x.X, env, nil)
	if s.T == nil || s.T.Kind != KSlice {
		failAt(x, "unsupported construct: range over %s (slices only)", s.T.key())
	}
	if len(fx.pre) != 0 {
		failAt(x, "unsupported construct: checked operation in a range expression")
	}
	if hasEscape(fx, x.Body) {
		failAt(x, "unsupported construct: return/break/continue/panic inside a range loop")
	}
	car := carriedVars(env, x.Body)
	benv := fx.define(vid.Name, s.T.Elem, env, x)
	noesc := &ctx{ret: func(string) Term { panic("internal") }}
	body := fx.block(x.Body.List, benv, noesc, func(*Env) Term { return TRet{tuple(names(car))} })
	if monadic(body) {
		failAt(x, "unsupported construct: checked operation (division, indexing, call that can panic) inside a range loop")
	}
	var code string
	if len(car) == 1 {
		code = fmt.Sprintf("fold_left (fun %s %s =>\n%s) %s %s", cname(car[0].Name), cname(vid.Name), printTerm(body, false, 3), paren(s.Code), cname(car[0].Name))
	} else {
		code = fmt.Sprintf("fold_left (fun go2coq_st %s => let %s := go2coq_st in\n%s) %s %s", cname(vid.Name), tuplePat(names(car)), printTerm(body, false, 3), paren(s.Code), tuple(names(car)))
	}
	return TLet{tuplePat(names(car)), code, k(env)}
}

// ----------------------------------------------------------------------------- one function

func (g *G) translate(fs FuncSpec) *Translated {
	dir := fs.Dir
	if dir == "" {
		dir = fs.Pkg
	}
	p := g.loadPkg(dir)
	var decl *ast.FuncDecl
	var file *ast.File
	var fname string
	fnames := []string{}
	for n := range p.files {
		fnames = append(fnames, n)
	}
	sort.Strings(fnames)
	for _, n := range fnames {
		for _, d := range p.files[n].Decls {
			fd, ok := d.(*ast.FuncDecl)
			if !ok || fd.Name.Name != fs.Func {
				continue
			}
			recv := ""
			if fd.Recv != nil && len(fd.Recv.List) == 1 {
				recv = typeString(fd.Recv.List[0].Type)
			}
			if recv != fs.Recv {
				continue
			}
			if decl != nil {
				panic(trErr{fmt.Sprintf("function %s.%s found twice in %s", fs.Recv, fs.Func, dir)})
			}
			decl, file, fname = fd, p.files[n], n
		}
	}
	if decl == nil {
		panic(trErr{fmt.Sprintf("function not found: package directory %s, receiver %q, name %s", dir, fs.Recv, fs.Func)})
	}
	if decl.Body == nil {
		panic(trErr{"function without a body"})
	}
	if decl.Type.TypeParams != nil {
		failAt(decl, "unsupported construct: type parameters")
	}
	out := &Translated{Spec: fs, File: filepath.Join(dir, fname)}
	out.CoqName = "go_" + fs.Pkg + "_" + fs.Func
	if fs.Recv != "" {
		out.CoqName = "go_" + fs.Pkg + "_" + fs.Recv + "_" + fs.Func
	}
	src := p.src[fname]
	text := src[fset.Position(decl.Pos()).Offset:fset.Position(decl.End()).Offset]
	out.Sha = fmt.Sprintf("%x", sha256.Sum256(text))
	fx := &fn{g: g, pkg: p, file: file, imports: importsOf(file), decl: decl, out: out, lconsts: map[string]Val{},
		externs: map[string]bool{}, skipped: map[string]bool{}, params: map[string]bool{}}
	env := &Env{}
	// globals read by this function become leading parameters
	gkeys := []string{}
	for k := range g.spec.Globals {
		gkeys = append(gkeys, k)
	}
	sort.Strings(gkeys)
	usesGlobal := func(key string) bool {
		found := false
		ast.Inspect(decl.Body, func(n ast.Node) bool {
			if se, ok := n.(*ast.SelectorExpr); ok && typeStringSafe(se) == key {
				found = true
			}
			if ce, ok := n.(*ast.CallExpr); ok { // globals needed by callees
				var t *Translated
				switch f := ce.Fun.(type) {
				case *ast.Ident:
					t = fx.findSpecFunc(fs.Pkg, "", f.Name)
				case *ast.SelectorExpr:
					t = fx.findMethod("", f.Sel.Name)
					if t == nil {
						for _, d := range g.done {
							if d.Spec.Func == f.Sel.Name {
								t = d
							}
						}
					}
				}
				if t != nil {
					for _, gp := range t.Globals {
						if gp.Name == g.spec.Globals[key].Name {
							found = true
						}
					}
				}
			}
			return true
		})
		return found
	}
	for _, k := range gkeys {
		if usesGlobal(k) {
			gl := g.spec.Globals[k]
			t := g.resolveType(gl.Type, decl)
			env = env.with(gl.Name, t)
			out.Globals = append(out.Globals, param{gl.Name, t})
		}
	}
	addParam := func(name string, te ast.Expr) {
		if name == "_" || name == "" {
			return
		}
		ts := typeString(te)
		if o, ok := fs.Params[name]; ok {
			if o == "@ignore" {
				return
			}
			ts = o
		}
		t := g.resolveType(ts, te)
		if env.lookup(name) != nil {
			failAt(te, "duplicate parameter name %s", name)
		}
		env = env.with(name, t)
		fx.params[name] = true
		out.Params = append(out.Params, param{name, t})
	}
	if decl.Recv != nil {
		for _, f := range decl.Recv.List {
			for _, n := range f.Names {
				if o, ok := fs.Params[n.Name]; ok && o == "@ignore" {
					continue
				}
				addParam(n.Name, f.Type)
			}
		}
	}
	for _, f := range decl.Type.Params.List {
		if _, ok := f.Type.(*ast.Ellipsis); ok {
			failAt(f, "unsupported construct: variadic parameter")
		}
		for _, n := range f.Names {
			addParam(n.Name, f.Type)
		}
	}
	if decl.Type.Results == nil || len(decl.Type.Results.List) == 0 {
		failAt(decl, "unsupported construct: function without a result")
	}
	for _, f := range decl.Type.Results.List {
		n := len(f.Names)
		if n == 0 {
			n = 1
		}
		for i := 0; i < n; i++ {
			rt := g.resolveType(typeString(f.Type), f)
			if rt.Kind == KFunc {
				failAt(f, "unsupported construct: function-typed result")
			}
			fx.rets = append(fx.rets, rt)
		}
	}
	if len(fx.rets) == 1 {
		fx.ret = fx.rets[0]
	} else {
		fx.ret = &Type{Kind: KTuple, Elems: fx.rets}
	}
	out.Ret = fx.ret
	top := &ctx{ret: func(v string) Term { return TRet{v} }}
	body := fx.block(decl.Body.List, env, top, func(*Env) Term {
		failAt(decl, "unsupported construct: control can reach the end of the function without a return")
		return nil
	})
	out.Monadic = monadic(body)
	sig := ""
	if out.Fuel {
		sig += " (fuel : nat)"
	}
	for _, v := range env.vars[:len(out.Globals)+len(out.Params)] {
		sig += fmt.Sprintf(" (%s : %s)", cname(v.Name), v.T.coq())
	}
	rt := fx.ret.coq()
	if out.Monadic {
		rt = "outcome " + paren(rt)
	}
	var sb strings.Builder
	recvs := fs.Pkg + "." + fs.Func
	if fs.Recv != "" {
		recvs = fs.Pkg + "." + fs.Recv + "." + fs.Func
	}
	fmt.Fprintf(&sb, "(* %s\n   source: %s   sha256 of the function's source text: %s", recvs, out.File, out.Sha)
	for _, e := range sortedKeys(fx.externs) {
		fmt.Fprintf(&sb, "\n   extern (trusted, GenPrelude.v): %s", e)
		out.Externs = append(out.Externs, e)
	}
	for _, e := range sortedKeys(fx.skipped) {
		fmt.Fprintf(&sb, "\n   statement without effect on the result (trusted): %s", e)
		out.Skipped = append(out.Skipped, e)
	}
	sb.WriteString(" *)\n")
	for _, a := range fx.aux {
		sb.WriteString(a)
	}
	fmt.Fprintf(&sb, "Definition %s%s : %s :=\n%s.\n", out.CoqName, sig, rt, printTerm(body, out.Monadic, 1))
	// uniform wrapper used by the gen-* correspondence cases
	callArgs := out.CoqName
	if out.Fuel {
		callArgs += " fuel"
	}
	for _, v := range env.vars[:len(out.Globals)+len(out.Params)] {
		callArgs += " " + cname(v.Name)
	}
	if out.Monadic {
		fmt.Fprintf(&sb, "Definition %s_run%s : outcome %s := %s.\n", out.CoqName, sig, paren(fx.ret.coq()), callArgs)
	} else {
		fmt.Fprintf(&sb, "Definition %s_run%s : outcome %s := Val (%s).\n", out.CoqName, sig, paren(fx.ret.coq()), callArgs)
	}
	out.Text = sb.String()
	return out
}

func sortedKeys(m map[string]bool) []string {
	r := []string{}
	for k := range m {
		r = append(r, k)
	}
	sort.Strings(r)
	return r
}

// ----------------------------------------------------------------------------- main

func main() {
	repo := flag.String("repo", "/repo", "repository root")
	specPath := flag.String("spec", "", "spec file (props/Cxx/gen.json)")
	outPath := flag.String("out", "", "output file (default: stdout)")
	flag.Parse()
	code := 0
	defer func() { os.Exit(code) }()
	defer func() {
		if r := recover(); r != nil {
			switch e := r.(type) {
			case trErr:
				fmt.Fprintf(os.Stderr, "go2coq: FAILED func=%s: %s\n", curFunc, e.msg)
			case needType:
				fmt.Fprintf(os.Stderr, "go2coq: FAILED func=%s: %s\n", curFunc, e.msg)
			default:
				panic(r)
			}
			code = 1
		}
	}()
	b, err := os.ReadFile(*specPath)
	if err != nil {
		panic(trErr{"spec: " + err.Error()})
	}
	spec := &Spec{}
	if err := json.Unmarshal(b, spec); err != nil {
		panic(trErr{"spec: " + err.Error()})
	}
	g := &G{repo: *repo, spec: spec, types: map[string]*Type{}, structs: map[string]*StructSpec{}, pkgs: map[string]*pkgInfo{}}
	if gm, err := os.ReadFile(filepath.Join(*repo, "go.mod")); err == nil {
		for _, l := range strings.Split(string(gm), "\n") {
			if strings.HasPrefix(l, "module ") {
				g.module = strings.TrimSpace(strings.TrimPrefix(l, "module "))
			}
		}
	}
	for i := range spec.Structs {
		g.structs[spec.Structs[i].Name] = &spec.Structs[i]
	}
	var sb strings.Builder
	sb.WriteString("(* GENERATED by harness/cmd/go2coq from the Go sources of the repository -- DO NOT EDIT.\n")
	fmt.Fprintf(&sb, "   Regenerated on every check run (lib/vcheck.py, gen=True) from %s.\n", filepath.Base(filepath.Dir(*specPath))+"/"+filepath.Base(*specPath))
	sb.WriteString("   Semantics: coq/lib/GoSem.v. Every machine integer is a Z; +, -, *, <<, unary - and narrowing or\n")
	sb.WriteString("   sign-changing conversions are wrapped explicitly (u64 x = x mod 2^64, i64 x = (x + 2^63) mod 2^64 - 2^63, ...);\n")
	sb.WriteString("   signed / and % are Z.quot / Z.rem; a division by a non-constant, an index, a slice expression and a signed\n")
	sb.WriteString("   shift count are guarded and yield Panic; loops are fuelled Fixpoints yielding OutOfFuel. *)\n")
	sb.WriteString("From Coq Require Import ZArith List Bool.\nFrom VLib Require Import GoSem.\n")
	if spec.Prelude != "" {
		fmt.Fprintf(&sb, "From %s Require Import %s.\n", spec.Prop, spec.Prelude)
	}
	sb.WriteString("Import ListNotations.\nOpen Scope Z_scope.\n\n")
	for _, st := range spec.Structs {
		fmt.Fprintf(&sb, "Record go_%s := mk_go_%s {", st.Name, st.Name)
		for i, f := range st.Fields {
			if i > 0 {
				sb.WriteString(";")
			}
			fmt.Fprintf(&sb, " go_%s_%s : %s", st.Name, f[0], g.resolveType(f[1], nil).coq())
		}
		sb.WriteString(" }.\n")
	}
	sb.WriteString("\n")
	for _, fs := range spec.Funcs {
		curFunc = fs.Func
		t := g.translate(fs)
		g.done = append(g.done, t)
		sb.WriteString(t.Text)
		sb.WriteString("\n")
	}
	if *outPath == "" {
		fmt.Print(sb.String())
		return
	}
	if err := os.WriteFile(*outPath, []byte(sb.String()), 0o644); err != nil {
		panic(trErr{err.Error()})
	}
}
