// Interrupted start-ups of property C01 (model: props/C01/coq/ModelIntr.v, events IStartIntr /
// IMStartIntr).
//
// cmd/seq-db hands signal.NotifyContext(SIGINT, SIGTERM) to storeapi.NewStore -> FracManager.Load ->
// loader.load -> Active.Replay. The child operation `open-interrupted` runs the REAL
// fracmanager.NewFracManager + FracManager.Load on the data directory with a context whose first
// `polls` calls of Done() return a live channel and every later one a closed channel (Err() follows),
// i.e. "SIGTERM arrives while the store is still starting, after `polls` polls". The driver snapshots
// the directory before and after, byte for byte; the child is then killed (the process of an
// interrupted start-up exits) and the history goes on with an ordinary start.
package main

import (
	"bytes"
	"context"
	"encoding/binary"
	"encoding/json"
	"errors"
	"fmt"
	"os"
	"path/filepath"
	"sort"
	"strings"
	"sync/atomic"

	"github.com/ozontech/seq-db/fracmanager"

	"verif/harness/internal/casefile"
	"verif/harness/internal/storectl"
)

// pollCtx: the signal context of a start-up that is interrupted after `left` polls.
type pollCtx struct {
	context.Context
	left   atomic.Int64
	seen   atomic.Int64 // polls made
	open   chan struct{}
	closed chan struct{}
}

func newPollCtx(polls int) *pollCtx {
	c := &pollCtx{Context: context.Background(), open: make(chan struct{}), closed: make(chan struct{})}
	close(c.closed)
	c.left.Store(int64(polls))
	return c
}

func (c *pollCtx) Done() <-chan struct{} {
	c.seen.Add(1)
	if c.left.Add(-1) < 0 {
		return c.closed
	}
	return c.open
}

func (c *pollCtx) Err() error {
	if c.left.Load() < 0 {
		return context.Canceled
	}
	return nil
}

type intrReq struct {
	Polls int `json:"polls"`
}

type intrResp struct {
	Err      string `json:"err,omitempty"`
	Canceled bool   `json:"canceled"`
	Polls    int    `json:"polls_made"`
}

func init() {
	storectl.Register("open-interrupted", func(c *storectl.Child, r storectl.Req) (storectl.Resp, error) {
		var q intrReq
		if err := json.Unmarshal(r.Extra, &q); err != nil {
			return storectl.Resp{}, err
		}
		// the configuration of fracbuild.NewFM (what the plain "open" uses)
		cfg := &fracmanager.Config{DataDir: r.Dir, FracSize: 1 << 40, TotalSize: 1 << 42, CacheSize: 1 << 28, ShouldReplay: true}
		ctx := newPollCtx(q.Polls)
		fm := fracmanager.NewFracManager(cfg)
		err := fm.Load(ctx)
		out := intrResp{Polls: int(ctx.seen.Load())}
		if err != nil {
			out.Err = err.Error()
			out.Canceled = errors.Is(err, context.Canceled)
		} else {
			c.FM, c.Dir = fm, r.Dir // nobody saw the cancellation: an ordinary, running store
		}
		b, _ := json.Marshal(out)
		return storectl.Resp{Extra: b}, nil
	})
}

// ---------------------------------------------------------------------------- directory snapshots

// snapshot reads every fraction file of the data directory.
func snapshot(dir string) (map[string][]byte, error) {
	ents, err := os.ReadDir(dir)
	if err != nil {
		return nil, err
	}
	out := map[string][]byte{}
	for _, e := range ents {
		if e.IsDir() || !strings.HasPrefix(e.Name(), "seq-db-") {
			continue
		}
		b, err := os.ReadFile(filepath.Join(dir, e.Name()))
		if err != nil {
			return nil, err
		}
		out[e.Name()] = b
	}
	return out, nil
}

func sameSnapshot(a, b map[string][]byte) bool {
	if len(a) != len(b) {
		return false
	}
	for n, x := range a {
		y, ok := b[n]
		if !ok || !bytes.Equal(x, y) {
			return false
		}
	}
	return true
}

// completeMeta scans a .meta file as Active.Replay does (33-byte header, little-endian length at 1..9,
// Ext1 at 17..25): number of complete blocks, length of the prefix they form, sum of their Ext1.
func completeMeta(b []byte) (blocks, mlen, dlen int) {
	pos := 0
	for pos+33 <= len(b) {
		l := int(binary.LittleEndian.Uint64(b[pos+1 : pos+9]))
		if l < 0 || pos+33+l > len(b) {
			break
		}
		dlen += int(binary.LittleEndian.Uint64(b[pos+17 : pos+25]))
		pos += 33 + l
		blocks++
	}
	return blocks, pos, dlen
}

// replayPolls: the number of context polls an uninterrupted start-up makes on this directory: every
// fraction that loader.load replays (has .meta, has .docs or .sdocs, not a complete sealed form, no
// .del file) polls once per complete meta block and once more before the read that ends the loop.
func replayPolls(snap map[string][]byte) int {
	type fr struct{ meta, docs, sdocs, index, del bool }
	fs := map[string]*fr{}
	for n := range snap {
		name, suf, ok := fracFile(n)
		if !ok {
			continue
		}
		f := fs[name]
		if f == nil {
			f = &fr{}
			fs[name] = f
		}
		switch suf {
		case ".meta":
			f.meta = true
		case ".docs":
			f.docs = true
		case ".sdocs":
			f.sdocs = true
		case ".index":
			f.index = true
		case ".docs.del", ".sdocs.del", ".index.del":
			f.del = true
		}
	}
	total := 0
	for name, f := range fs {
		if f.del || !f.meta || !(f.docs || f.sdocs) || (f.sdocs && f.index) {
			continue
		}
		n, _, _ := completeMeta(snap[name+".meta"])
		total += n + 1
	}
	return total
}

// FChg: the files of one fraction before and after an interrupted start-up (CaseDefs.fchg).
type FChg struct {
	Ord    int     `json:"ord"`
	B      [4]bool `json:"before"` // .meta .docs .sdocs .index
	BM, BD int
	CM, CD int // complete-block prefix of .meta before, sum of Ext1
	A      [4]bool `json:"after"`
	AM, AD int
	Prefix bool `json:"prefix"`
}

// intrObs is what the driver saw of an interrupted start-up.
type intrObs struct {
	Polls    int    `json:"polls"`
	Made     int    `json:"polls_made"`
	Same     bool   `json:"same"`
	DLen     int    `json:"dlen"`
	MLen     int    `json:"mlen"`
	Changed  string `json:"changed,omitempty"` // first difference, for the reader of a replay
	Files    []FChg `json:"files,omitempty"`
	Complete bool   `json:"completed,omitempty"` // nobody saw the cancellation
}

func firstDiff(a, b map[string][]byte) string {
	var names []string
	for n := range a {
		names = append(names, n)
	}
	for n := range b {
		if _, ok := a[n]; !ok {
			names = append(names, n)
		}
	}
	sort.Strings(names)
	for _, n := range names {
		x, okx := a[n]
		y, oky := b[n]
		switch {
		case !oky:
			return fmt.Sprintf("%s removed (was %d bytes)", n[strings.IndexByte(n, '.'):], len(x))
		case !okx:
			return fmt.Sprintf("%s created (%d bytes)", n[strings.IndexByte(n, '.'):], len(y))
		case !bytes.Equal(x, y):
			return fmt.Sprintf("%s: %d -> %d bytes", n[strings.IndexByte(n, '.'):], len(x), len(y))
		}
	}
	return ""
}

// fracChanges lists every fraction (by creation order number) with its files before and after.
func fracChanges(before, after map[string][]byte, ord func(string) int) []FChg {
	names := map[string]bool{}
	for _, m := range []map[string][]byte{before, after} {
		for n := range m {
			if name, _, ok := fracFile(n); ok {
				names[name] = true
			}
		}
	}
	var sorted []string
	for n := range names {
		sorted = append(sorted, n)
	}
	sort.Strings(sorted)
	var out []FChg
	for _, name := range sorted {
		c := FChg{Ord: ord(name), Prefix: true}
		for i, suf := range []string{".meta", ".docs", ".sdocs", ".index"} {
			x, okx := before[name+suf]
			y, oky := after[name+suf]
			c.B[i], c.A[i] = okx, oky
			if okx && oky {
				if i < 2 {
					if len(y) > len(x) || !bytes.Equal(x[:len(y)], y) {
						c.Prefix = false
					}
				} else if !bytes.Equal(x, y) {
					c.Prefix = false
				}
			}
			if !okx && oky && len(y) > 0 {
				c.Prefix = false
			}
		}
		c.BM, c.BD = len(before[name+".meta"]), len(before[name+".docs"])
		c.AM, c.AD = len(after[name+".meta"]), len(after[name+".docs"])
		_, c.CM, c.CD = completeMeta(before[name+".meta"])
		// temp files must not appear either
		for _, suf := range []string{"._sdocs", "._index"} {
			if _, okx := before[name+suf]; !okx {
				if _, oky := after[name+suf]; oky {
					c.Prefix = false
				}
			}
		}
		out = append(out, c)
	}
	sort.Slice(out, func(i, j int) bool { return out[i].Ord < out[j].Ord })
	return out
}

// startInterrupted performs the event on the current directory (no child running). closeDropped ends the
// child of a cancelled start-up without entering its file operations into the history's log (as for a
// crashed start-up). Complete = the start-up ran to its end: the child stays up, an ordinary start.
func (x *runner) startInterrupted(op *POp, ord func(string) int, closeDropped func() error) (*intrObs, error, error) {
	before, err := snapshot(x.dir)
	if err != nil {
		return nil, fmt.Errorf("%w: snapshot: %v", errHarness, err), nil
	}
	total := replayPolls(before)
	if op.K < 0 { // chosen at run time: it depends on the number of meta blocks in the directory
		switch {
		case total == 0:
			op.K = 0
		case op.K == -2: // before the read that ends the last replay
			op.K = total - 1
		default:
			op.K = x.r.Intn(total)
		}
	}
	if err := x.start(); err != nil {
		return nil, err, nil
	}
	extra, _ := json.Marshal(intrReq{Polls: op.K})
	x.calls = append(x.calls, "open")
	r, cerr := x.child.Call(storectl.Req{Op: "open-interrupted", Dir: x.dir, Extra: extra})
	if cerr != nil {
		return nil, nil, cerr // the store died
	}
	var ir intrResp
	json.Unmarshal(r.Extra, &ir)
	o := &intrObs{Polls: op.K, Made: ir.Polls}
	if ir.Err == "" {
		o.Complete = true
		return o, nil, nil
	}
	if !ir.Canceled {
		return nil, nil, errors.New("interrupted start-up failed with another error: " + ir.Err)
	}
	if err := closeDropped(); err != nil {
		return nil, err, nil
	}
	after, err := snapshot(x.dir)
	if err != nil {
		return nil, fmt.Errorf("%w: snapshot: %v", errHarness, err), nil
	}
	o.Same = sameSnapshot(before, after)
	o.Changed = firstDiff(before, after)
	for n, b := range after {
		switch fileKind(n) {
		case "docs":
			o.DLen = max(o.DLen, len(b))
		case "meta":
			o.MLen = max(o.MLen, len(b))
		}
	}
	if ord != nil {
		o.Files = fracChanges(before, after, ord)
	}
	return o, nil, nil
}

func (c FChg) coq() string {
	bl := func(b [4]bool) string {
		s := make([]string, 4)
		for i, v := range b {
			s[i] = casefile.Bool(v)
		}
		return "[" + strings.Join(s, "; ") + "]"
	}
	return fmt.Sprintf("FChg %d %s %d %d %d %d %s %d %d %s", c.Ord, bl(c.B), c.BM, c.BD, c.CM, c.CD, bl(c.A), c.AM, c.AD, casefile.Bool(c.Prefix))
}
