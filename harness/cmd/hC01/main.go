// hC01 — correspondence driver of property C01 (acknowledged bulks survive any crash/restart
// history). Every history is executed on the REAL store (FracManager level, in child processes
// under strace): bulks, crashes inside a bulk (any operation boundary, torn writes, power loss),
// idle power loss, crashes inside the start-up, restarts with further ingestion. After every
// start each submitted document is fetched by ID and searched by each of its tokens. The history,
// the observations and the projected file operations are written as Coq terms; the model
// (props/C01/coq/Model.v) is run on the same history inside Coq and the property's executable
// statement (CaseDefs.case_spec_ok) is evaluated on the observations.
package main

import (
	"encoding/binary"
	"encoding/hex"
	"encoding/json"
	"errors"
	"flag"
	"fmt"
	"os"
	"path/filepath"
	"sort"
	"strings"
	"sync"
	"time"

	"verif/harness/internal/casefile"
	"verif/harness/internal/crashfs"
	"verif/harness/internal/rng"
	"verif/harness/internal/storectl"
)

// ---------------------------------------------------------------------------- plan

type PDoc struct {
	ID   int    `json:"id"`
	Body string `json:"body"`
	Toks []int  `json:"toks"`
}

type POp struct {
	Kind string `json:"kind"` // bulk | conc | fault | obs | crashin | power | restart | restartcrash | startintr | skip
	// startintr: start-up under a context cancelled after K polls (K = -1: random in [0, polls of the start-up),
	// -2: the last poll; resolved at run time)
	// fault: one write of the bulk fails with EFBIG after Cut bytes (File = docs | meta); Acked = the store's answer
	File  string `json:"file,omitempty"`
	Cut   int    `json:"cut,omitempty"`
	Acked bool   `json:"acked,omitempty"`
	// faultcrash: as fault, but the process dies after the first K file operations of the failed unit
	// (writes, truncates of the rollback); A / C = bytes of the docs / meta block then in the files
	A int `json:"a,omitempty"`
	C int `json:"c,omitempty"`
	// concf: a concurrent group (Group, Stagger) in which bulk FailBulk exceeds a file-size limit in its
	// File write; Units = what happened, in lock order, read from the op log
	FailBulk int     `json:"fail_bulk,omitempty"`
	Units    []CUnit `json:"units,omitempty"`
	Bulk int    `json:"bulk,omitempty"`
	// conc: bulks submitted concurrently (start stagger in microseconds); Order = the order in
	// which they reserved their docs offsets, read from the op log after the run
	Group   []int `json:"group,omitempty"`
	Stagger []int `json:"stagger_us,omitempty"`
	Order   []int `json:"order,omitempty"`
	K    int    `json:"k,omitempty"`
	// crash parameters; -1 = chosen at run time (they depend on the block lengths), then stored
	T  int `json:"t"`
	KD int `json:"kd"`
	KM int `json:"km"`
	// multi-fraction histories (multi.go): rotate | seal | rotatecrash | sealcrash | restartcrash.
	// J = completed model-level operations of the crashed step (-1 = chosen at run time), Torn = the next
	// one (a temp-file write) torn, PL = power loss; CutV = per fraction, completed operations of a crashed
	// start-up without directory fsyncs (filled at run time); Acked (rotate/seal) = the step did something
	J    int   `json:"j,omitempty"`
	Torn bool  `json:"torn,omitempty"`
	PL   bool  `json:"pl,omitempty"`
	CutV []int `json:"cutv,omitempty"`
}

// CUnit is one unit of a concurrent group as it ran under the writer's mutex.
type CUnit struct {
	Bulk  int    `json:"bulk"`
	Ok    bool   `json:"ok"`             // both blocks written
	File  string `json:"file,omitempty"` // failed unit: which write failed
	Cut   int    `json:"cut,omitempty"`  // ... after how many bytes
	Acked bool   `json:"acked"`          // the store's answer for this bulk
}

type Plan struct {
	Class string   `json:"class"`
	Bulks [][]PDoc `json:"bulks"`
	Ops   []POp    `json:"ops"`
	Seed  uint64   `json:"seed"` // run-time choices
	// the operations as generated (Ops is cut at the point where the store died or hung)
	Planned []POp `json:"planned_ops,omitempty"`
	Fault   bool  `json:"fault,omitempty"` // fault history: bulks go through xbulk (no WaitIdle, see fault.go)
	Multi   bool  `json:"multi,omitempty"` // multi-fraction history (multi.go)
}

func (d PDoc) mid() uint64 { return 1000 + uint64(d.ID) }
func (d PDoc) rid() uint64 { return uint64(d.ID) + 1 }

// ---------------------------------------------------------------------------- results

type obs struct {
	Died     bool           `json:"died,omitempty"`
	Why      string         `json:"why,omitempty"`
	Fetches  map[int]string `json:"fetches,omitempty"`  // id -> "absent" | "err:..." | hex body
	Searches map[int][]int  `json:"searches,omitempty"` // token -> ids
	Intr     *intrObs       `json:"interrupted_startup,omitempty"` // an interrupted start-up (intr.go) instead of a start
}

type pop struct {
	Kind string // W F T A
	File string // docs | meta
	Off  int
	Hdr  []byte
	Len  int
}

type bulkBytes struct {
	dpay, mpay []byte
	draw, mraw uint64
	known      bool
}

type result struct {
	plan  Plan
	obs   []obs
	ops   []pop
	bulks []bulkBytes
	exts  [][][2]uint64 // per child process: (Ext1, Ext2) of the blocks of the real .meta file at its end
	err   error // harness-level problem: the history is dropped
	ntriv bool
	nintr int // interrupted start-ups that returned the cancellation
	mobs  []mobs   // multi-fraction histories: observations with the fraction list
	mops  []string // ... and the projected operations, rendered
}

// ---------------------------------------------------------------------------- execution

var errHarness = errors.New("harness")

func fileKind(path string) string {
	switch {
	case strings.HasSuffix(path, ".docs"):
		return "docs"
	case strings.HasSuffix(path, ".meta"):
		return "meta"
	}
	return ""
}

// project keeps the write/fsync/truncate operations on .docs/.meta files and the marks.
type tOp struct {
	idx int // index in tr.Ops
	p   pop
	mk  bool
}

func project(tr *crashfs.Trace) []tOp {
	var out []tOp
	for i, o := range tr.Ops {
		switch o.Kind {
		case crashfs.Mark:
			out = append(out, tOp{idx: i, mk: true})
		case crashfs.Write:
			if k := fileKind(o.Path); k != "" {
				h := o.Data
				if len(h) > 33 {
					h = h[:33]
				}
				out = append(out, tOp{idx: i, p: pop{Kind: "W", File: k, Off: int(o.Off), Hdr: h, Len: len(o.Data)}})
			}
		case crashfs.Fsync:
			if k := fileKind(o.Path); k != "" {
				out = append(out, tOp{idx: i, p: pop{Kind: "F", File: k}})
			}
		case crashfs.Truncate:
			if k := fileKind(o.Path); k != "" {
				out = append(out, tOp{idx: i, p: pop{Kind: "T", File: k, Len: int(o.Off)}})
			}
		}
	}
	return out
}

type runner struct {
	root    string
	nseg    int
	dir     string // current data directory
	child   *storectl.Store
	calls   []string // kind of each call made to the current child: open | bulk:<i> | q
	r       *rng.R
	res     *result
	subm    []int // bulks submitted so far (plan indices, distinct)
	pending *crashfs.State
	cf      map[int]cfResp // answers of cfbulk calls by operation index
}

func (x *runner) newDir(st *crashfs.State) error {
	x.nseg++
	d := filepath.Join(x.root, fmt.Sprintf("s%d", x.nseg), "data")
	if st == nil {
		if err := os.MkdirAll(d, 0o755); err != nil {
			return err
		}
	} else if err := st.Materialize(d); err != nil {
		return err
	}
	x.dir = d
	return nil
}

// closeChild ends the current child and returns its verified trace.
func (x *runner) closeChild() (*crashfs.Trace, []string, error) {
	if x.child == nil {
		return nil, nil, nil
	}
	tr, err := x.child.Close()
	calls := x.calls
	x.child, x.calls = nil, nil
	if err != nil {
		return nil, nil, fmt.Errorf("%w: trace: %v", errHarness, err)
	}
	if err := tr.Verify(); err != nil {
		return nil, nil, fmt.Errorf("%w: %v", errHarness, err)
	}
	fin := tr.StateAt(len(tr.Ops))
	for _, name := range fin.FileNames() {
		if fileKind(name) == "meta" {
			if ex := metaExts(fin.Files()[name]); len(ex) > 0 {
				x.res.exts = append(x.res.exts, ex)
			}
		}
	}
	return tr, calls, nil
}

// windows splits the projected operations of a segment by marks: window j = operations issued
// before the answer to call j.
func windows(ops []tOp, ncalls int) ([][]tOp, error) {
	w := make([][]tOp, 0, ncalls)
	var cur []tOp
	for _, o := range ops {
		if o.mk {
			w = append(w, cur)
			cur = nil
			continue
		}
		cur = append(cur, o)
	}
	if len(w) < ncalls {
		return nil, fmt.Errorf("%w: %d marks for %d calls", errHarness, len(w), ncalls)
	}
	if len(w) > ncalls { // the answer to "exit"
		for _, o := range w[ncalls] {
			_ = o
		}
		if len(w[ncalls]) > 0 || len(w) > ncalls+1 || len(cur) > 0 {
			// operations after the last answer we waited for: keep them visible as a trailing window
			extra := append([]tOp{}, w[ncalls]...)
			extra = append(extra, cur...)
			w = append(w[:ncalls], extra)
			return w, nil
		}
		w = w[:ncalls]
	} else if len(cur) > 0 {
		w = append(w, cur)
	}
	return w, nil
}

// account records the operations of a finished segment. upto = number of calls whose
// operations belong to the history (a crashed bulk's or crashed start-up's are dropped).
func (x *runner) account(tr *crashfs.Trace, calls []string, upto int) ([][]tOp, error) {
	ws, err := windows(project(tr), len(calls))
	if err != nil {
		return nil, err
	}
	for j, c := range calls {
		if strings.HasPrefix(c, "bulk:") {
			var bi int
			fmt.Sscanf(c, "bulk:%d", &bi)
			x.learnBulk(bi, tr, ws[j])
		}
		if strings.HasPrefix(c, "concf:") {
			var oi int
			fmt.Sscanf(c, "concf:%d", &oi)
			if err := x.learnConcF(oi, tr, ws[j]); err != nil {
				return nil, err
			}
		}
		if strings.HasPrefix(c, "conc:") {
			var oi int
			fmt.Sscanf(c, "conc:%d", &oi)
			if err := x.learnConc(oi, tr, ws[j]); err != nil {
				return nil, err
			}
		}
		if j >= upto {
			continue
		}
		for _, o := range ws[j] {
			x.res.ops = append(x.res.ops, o.p)
		}
		if strings.HasPrefix(c, "bulk:") || strings.HasPrefix(c, "conc:") || strings.HasPrefix(c, "concf:") {
			x.res.ops = append(x.res.ops, pop{Kind: "A"})
		}
	}
	if upto >= len(calls) && len(ws) > len(calls) { // trailing operations after the last answer
		for _, o := range ws[len(calls)] {
			x.res.ops = append(x.res.ops, o.p)
		}
	}
	return ws, nil
}

func (x *runner) learnBulk(bi int, tr *crashfs.Trace, w []tOp) {
	bb := &x.res.bulks[bi]
	if bb.known {
		return
	}
	var d, m []byte
	for _, o := range w {
		if o.p.Kind != "W" {
			continue
		}
		data := tr.Ops[o.idx].Data
		if o.p.File == "docs" && d == nil {
			d = data
		}
		if o.p.File == "meta" && m == nil {
			m = data
		}
	}
	if len(d) < 33 || len(m) < 33 {
		return
	}
	bb.dpay, bb.draw = d[33:], binary.LittleEndian.Uint64(d[9:17])
	bb.mpay, bb.mraw = m[33:], binary.LittleEndian.Uint64(m[9:17])
	bb.known = true
}

// learnConc attributes the block writes of a concurrent group to its bulks: a docs block by the raw
// length in its header (the sum of 4+len(body) over the bulk's documents; the generator keeps them
// distinct), a meta block by Ext1 = length of its docs block. Order = docs offsets ascending.
func (x *runner) learnConc(oi int, tr *crashfs.Trace, w []tOp) error {
	op := &x.res.plan.Ops[oi]
	rawOf := map[uint64]int{}
	for _, bi := range op.Group {
		raw := uint64(0)
		for _, d := range x.res.plan.Bulks[bi] {
			raw += 4 + uint64(len(d.Body))
		}
		if _, dup := rawOf[raw]; dup {
			return fmt.Errorf("%w: concurrent bulks with equal raw size", errHarness)
		}
		rawOf[raw] = bi
	}
	type dw struct {
		bi  int
		off int
	}
	byLen := map[int]int{}
	var dws []dw
	for _, o := range w {
		if o.p.Kind == "W" && o.p.File == "docs" {
			data := tr.Ops[o.idx].Data
			if len(data) < 33 {
				continue
			}
			bi, ok := rawOf[binary.LittleEndian.Uint64(data[9:17])]
			if !ok {
				return fmt.Errorf("%w: docs write of unknown bulk in a concurrent group", errHarness)
			}
			bb := &x.res.bulks[bi]
			bb.dpay, bb.draw = data[33:], binary.LittleEndian.Uint64(data[9:17])
			byLen[len(data)] = bi
			dws = append(dws, dw{bi, o.p.Off})
		}
	}
	for _, o := range w {
		if o.p.Kind == "W" && o.p.File == "meta" {
			data := tr.Ops[o.idx].Data
			if len(data) < 33 {
				continue
			}
			bi, ok := byLen[int(binary.LittleEndian.Uint64(data[17:25]))]
			if !ok {
				return fmt.Errorf("%w: meta write that matches no docs block of the concurrent group", errHarness)
			}
			bb := &x.res.bulks[bi]
			bb.mpay, bb.mraw = data[33:], binary.LittleEndian.Uint64(data[9:17])
			bb.known = bb.dpay != nil
		}
	}
	sort.Slice(dws, func(i, j int) bool { return dws[i].off < dws[j].off })
	op.Order = nil
	for _, d := range dws {
		op.Order = append(op.Order, d.bi)
	}
	if len(op.Order) != len(op.Group) {
		return fmt.Errorf("%w: %d docs writes for %d concurrent bulks", errHarness, len(op.Order), len(op.Group))
	}
	return nil
}

// learnConcF splits the operations of a concurrent group with a failing member into units (the
// mutex serialises them: a successful unit ends with the fsync of its meta block, a failed one with
// the second truncate of its rollback) and attributes them to the bulks.
func (x *runner) learnConcF(oi int, tr *crashfs.Trace, w []tOp) error {
	op := &x.res.plan.Ops[oi]
	resp := x.cf[oi]
	rawOf := map[uint64]int{} // raw docs length -> position in the group
	for gi, bi := range op.Group {
		raw := uint64(0)
		for _, d := range x.res.plan.Bulks[bi] {
			raw += 4 + uint64(len(d.Body))
		}
		if _, dup := rawOf[raw]; dup {
			return fmt.Errorf("%w: concurrent bulks with equal raw size", errHarness)
		}
		rawOf[raw] = gi
	}
	failGi := -1
	for gi, bi := range op.Group {
		if bi == op.FailBulk {
			failGi = gi
		}
	}
	op.Units = nil
	var cur []tOp
	flush := func(ok bool) error {
		gi := -1
		var dfull, mdata []byte
		dlen, mlen := -1, -1
		for _, o := range cur {
			if o.p.Kind != "W" {
				continue
			}
			data := tr.Ops[o.idx].Data
			if o.p.File == "docs" {
				dlen = len(data)
				dfull = data
				if len(data) >= 17 {
					if g, found := rawOf[binary.LittleEndian.Uint64(data[9:17])]; found {
						gi = g
					}
				}
			} else {
				mlen = len(data)
				mdata = data
			}
		}
		if gi < 0 {
			if ok {
				return fmt.Errorf("%w: successful unit of an unknown bulk", errHarness)
			}
			gi = failGi
		}
		bi := op.Group[gi]
		u := CUnit{Bulk: bi, Ok: ok, Acked: gi < len(resp.Acked) && resp.Acked[gi]}
		if ok {
			bb := &x.res.bulks[bi]
			if !bb.known && len(dfull) >= 33 && len(mdata) >= 33 {
				bb.dpay, bb.draw = dfull[33:], binary.LittleEndian.Uint64(dfull[9:17])
				bb.mpay, bb.mraw = mdata[33:], binary.LittleEndian.Uint64(mdata[9:17])
				bb.known = true
			}
		} else {
			switch {
			case dlen == resp.LD[gi]: // docs block complete: the meta write failed
				u.File, u.Cut = "meta", max(mlen, 0)
			default:
				u.File, u.Cut = "docs", max(dlen, 0)
			}
		}
		op.Units = append(op.Units, u)
		cur = nil
		return nil
	}
	sawTMeta := false
	for _, o := range w {
		cur = append(cur, o)
		switch {
		case o.p.Kind == "F" && o.p.File == "meta":
			if err := flush(true); err != nil {
				return err
			}
		case o.p.Kind == "T" && o.p.File == "meta":
			sawTMeta = true
		case o.p.Kind == "T" && o.p.File == "docs" && sawTMeta:
			sawTMeta = false
			if err := flush(false); err != nil {
				return err
			}
		}
	}
	if len(cur) > 0 || len(op.Units) != len(op.Group) {
		return fmt.Errorf("%w: %d units recognised for %d concurrent bulks (%d operations left over)", errHarness,
			len(op.Units), len(op.Group), len(cur))
	}
	return nil
}

func (x *runner) start() error {
	st, err := storectl.Start(x.dir)
	if err != nil {
		return fmt.Errorf("%w: start: %v", errHarness, err)
	}
	x.child, x.calls = st, nil
	return nil
}

func (x *runner) open() error {
	x.calls = append(x.calls, "open")
	_, err := x.child.Call(storectl.Req{Op: "open", Dir: x.dir})
	return err
}

func (x *runner) observe() obs {
	o := obs{Fetches: map[int]string{}, Searches: map[int][]int{}}
	toks := map[int]bool{}
	byMID := map[[2]uint64]int{}
	for _, bi := range x.subm {
		for _, d := range x.res.plan.Bulks[bi] {
			byMID[[2]uint64{d.mid(), d.rid()}] = d.ID
			for _, t := range d.Toks {
				toks[t] = true
			}
			if _, done := o.Fetches[d.ID]; done {
				continue
			}
			x.calls = append(x.calls, "q")
			r, err := x.child.Call(storectl.Req{Op: "fetch", IDs: [][2]uint64{{d.mid(), d.rid()}}})
			switch {
			case err != nil:
				o.Fetches[d.ID] = "err:" + short(err.Error())
			case len(r.DocsHex) == 0 || r.DocsHex[0] == "":
				o.Fetches[d.ID] = "absent"
			default:
				o.Fetches[d.ID] = r.DocsHex[0]
			}
			if errors.Is(err, storectl.ErrDied) {
				return obs{Died: true, Why: "died during fetch: " + short(err.Error())}
			}
		}
	}
	for t := range toks {
		x.calls = append(x.calls, "q")
		r, err := x.child.Call(storectl.Req{Op: "search", Text: fmt.Sprintf("k:v%d", t), Fields: []string{"k"},
			From: 0, To: 1 << 40, Limit: 10000})
		if errors.Is(err, storectl.ErrDied) {
			return obs{Died: true, Why: "died during search: " + short(err.Error())}
		}
		ids := []int{}
		if err != nil {
			ids = []int{-1} // an ID no document has: the search failed
		}
		seen := map[int]bool{}
		for _, p := range r.IDs {
			id, ok := byMID[p]
			if !ok {
				id = 1000000 + int(p[1]%1000) // an ID nobody submitted
			}
			if !seen[id] {
				seen[id] = true
				ids = append(ids, id)
			}
		}
		sort.Ints(ids)
		o.Searches[t] = ids
	}
	return o
}

func short(s string) string {
	if i := strings.Index(s, "stderr tail:"); i >= 0 {
		t := s[i:]
		if j := strings.Index(t, "panic"); j >= 0 {
			t = t[j:]
		} else if j := strings.Index(t, "FATAL"); j >= 0 {
			t = t[j:]
		} else if j := strings.Index(t, "fatal"); j >= 0 {
			t = t[j:]
		}
		s = s[:min(i, 80)] + " … " + t
	}
	if len(s) > 400 {
		s = s[:400]
	}
	return s
}

func pickT(r *rng.R, l int) int {
	switch r.Intn(8) {
	case 0:
		return 0
	case 1:
		return min(1, l)
	case 2:
		return min(32, l)
	case 3:
		return min(33, l)
	case 4:
		return min(34, l)
	case 5:
		return max(l-1, 0)
	case 6:
		return l
	}
	return r.Intn(l + 1)
}

func pickKeep(r *rng.R, length int) int {
	switch r.Intn(4) {
	case 0:
		return 0 // down to the durable length
	case 1:
		return length + 5 // everything stays
	}
	return r.Intn(length + 1)
}

func powerLoss(st *crashfs.State, kd, km int) {
	st.PowerLoss(func(path string, synced, length int) int {
		switch fileKind(path) {
		case "docs":
			return kd
		case "meta":
			return km
		}
		return length
	})
}

func fileLen(st *crashfs.State, kind string) int {
	n := 0
	for name, b := range st.Files() {
		if fileKind(name) == kind && len(b) > n {
			n = len(b)
		}
	}
	return n
}

// exec runs the plan; the resolved crash parameters are stored back into the plan.
func exec(plan Plan, tmp string) (res *result) {
	if plan.Multi {
		return execMulti(plan, tmp)
	}
	plan.Planned = nil
	res = &result{plan: plan, bulks: make([]bulkBytes, len(plan.Bulks))}
	res.plan.Ops = append([]POp(nil), plan.Ops...)
	defer func() {
		if len(res.obs) > 0 && res.obs[len(res.obs)-1].Died {
			res.plan.Planned = plan.Ops
		}
	}()
	root, err := os.MkdirTemp(tmp, "hC01-")
	if err != nil {
		res.err = err
		return
	}
	defer os.RemoveAll(root)
	x := &runner{root: root, r: rng.New(plan.Seed), res: res}
	defer func() {
		if x.child != nil {
			x.child.Kill()
			x.child.Close()
		}
	}()
	if err := x.newDir(nil); err != nil {
		res.err = err
		return
	}
	fail := func(e error) *result { res.err = e; return res }
	crashedBefore, ingestAfterCrash := false, false
	submitted := func(bi int) {
		for _, b := range x.subm {
			if b == bi {
				return
			}
		}
		x.subm = append(x.subm, bi)
	}
	sendBulk := func(bi int) error {
		docs := make([]storectl.Doc, 0, len(plan.Bulks[bi]))
		for _, d := range plan.Bulks[bi] {
			toks := make([]string, len(d.Toks))
			for i, t := range d.Toks {
				toks[i] = fmt.Sprintf("k:v%d", t)
			}
			docs = append(docs, storectl.Doc{MID: d.mid(), RID: d.rid(), BodyHex: hex.EncodeToString([]byte(d.Body)), Tokens: toks})
		}
		x.calls = append(x.calls, fmt.Sprintf("bulk:%d", bi))
		if plan.Fault {
			extra, _ := json.Marshal(faultReq{Docs: plan.Bulks[bi]})
			r, err := x.child.Call(storectl.Req{Op: "xbulk", Extra: extra})
			if err != nil {
				return err
			}
			var fr faultResp
			json.Unmarshal(r.Extra, &fr)
			if !fr.Acked {
				return errors.New("append failed without an injected fault: " + fr.Err)
			}
			return nil
		}
		_, err := x.child.Call(storectl.Req{Op: "bulk", Docs: docs})
		return err
	}
	for i := range res.plan.Ops {
		op := &res.plan.Ops[i]
		switch op.Kind {
		case "bulk":
			if x.child == nil {
				continue
			}
			if err := sendBulk(op.Bulk); err != nil {
				// an acknowledgement refused or the store died while ingesting: the store's failure
				res.obs = append(res.obs, obs{Died: true, Why: "bulk failed: " + short(err.Error())})
				res.plan.Ops = res.plan.Ops[:i+1]
				res.plan.Ops[i].Kind = "restart" // reported as a start that did not come up
				return
			}
			submitted(op.Bulk)
			if crashedBefore {
				ingestAfterCrash = true
			}
		case "obs":
			if x.child == nil {
				continue
			}
			o := x.observe()
			res.obs = append(res.obs, o)
			if o.Died {
				res.plan.Ops = res.plan.Ops[:i+1]
				res.plan.Ops[i].Kind = "restart"
				return
			}
		case "fault", "faultcrash":
			if x.child == nil {
				op.Kind = "skip"
				continue
			}
			x.child.Timeout = 12 * time.Second // a hang after a failed append must not take minutes
			extra, _ := json.Marshal(faultReq{Docs: plan.Bulks[op.Bulk]})
			x.calls = append(x.calls, "q")
			r, err := x.child.Call(storectl.Req{Op: "plen", Extra: extra})
			if err != nil {
				return fail(fmt.Errorf("%w: plen: %v", errHarness, err))
			}
			var pl faultResp
			json.Unmarshal(r.Extra, &pl)
			l := pl.LD
			if op.File == "meta" {
				l = pl.LM
			}
			if op.Cut < 0 {
				op.Cut = min(pickT(x.r, l), l-1)
			}
			extra, _ = json.Marshal(faultReq{Docs: plan.Bulks[op.Bulk], File: op.File, Cut: op.Cut})
			x.calls = append(x.calls, fmt.Sprintf("fault:%d", op.Bulk))
			r, err = x.child.Call(storectl.Req{Op: "fbulk", Extra: extra})
			if err != nil {
				res.obs = append(res.obs, obs{Died: true, Why: "store died on a failed write: " + short(err.Error())})
				res.plan.Ops = res.plan.Ops[:i+1]
				res.plan.Ops[i].Kind = "restart"
				return
			}
			var fr faultResp
			json.Unmarshal(r.Extra, &fr)
			if fr.Err == "unplaceable" {
				op.Kind = "skip"
				x.calls[len(x.calls)-1] = "q"
				continue
			}
			if op.File == "meta" {
				op.Cut = int(fr.Limit - fr.OffM)
			} else {
				op.Cut = int(fr.Limit - fr.OffD)
			}
			op.Acked = fr.Acked
			if d, e1 := hex.DecodeString(fr.DHex); e1 == nil && len(d) >= 33 {
				if m, e2 := hex.DecodeString(fr.MHex); e2 == nil && len(m) >= 33 {
					bb := &res.bulks[op.Bulk]
					if !bb.known {
						bb.dpay, bb.draw = d[33:], binary.LittleEndian.Uint64(d[9:17])
						bb.mpay, bb.mraw = m[33:], binary.LittleEndian.Uint64(m[9:17])
						bb.known = true
					}
				}
			}
			submitted(op.Bulk)
			crashedBefore = true
			if op.Kind == "faultcrash" {
				if op.Acked {
					op.Kind = "fault" // nothing failed from the store's point of view: report as such
					continue
				}
				tr, calls, err := x.closeChild()
				if err != nil {
					return fail(err)
				}
				ws, err := x.account(tr, calls, len(calls)-1)
				if err != nil {
					return fail(err)
				}
				w := ws[len(calls)-1]
				if op.K < 0 || op.K > len(w) {
					op.K = x.r.Intn(len(w) + 1)
				}
				cut := len(tr.Ops)
				if op.K < len(w) {
					cut = w[op.K].idx
				} else if len(w) > 0 {
					cut = w[len(w)-1].idx + 1
				}
				st := tr.StateAt(cut)
				if op.K < len(w) && w[op.K].p.Kind == "W" {
					if op.T < 0 {
						op.T = pickT(x.r, w[op.K].p.Len)
					}
					st.ApplyTorn(tr.Ops[w[op.K].idx], op.T)
				} else {
					op.T = 0
				}
				if op.KD < 0 {
					op.KD = pickKeep(x.r, fileLen(st, "docs"))
				}
				if op.KM < 0 {
					op.KM = pickKeep(x.r, fileLen(st, "meta"))
				}
				powerLoss(st, op.KD, op.KM)
				op.A = fileLen(st, "docs") - int(fr.OffD)
				op.C = fileLen(st, "meta") - int(fr.OffM)
				if op.A < 0 || op.C < 0 {
					return fail(fmt.Errorf("%w: crash state shorter than the durable files", errHarness))
				}
				if err := x.newDir(st); err != nil {
					return fail(err)
				}
			}
		case "concf":
			if x.child == nil {
				op.Kind = "skip"
				continue
			}
			x.child.Timeout = 12 * time.Second
			q := cfReq{File: op.File, Cut: op.Cut, StaggerUs: op.Stagger}
			for gi, bi := range op.Group {
				q.Bulks = append(q.Bulks, plan.Bulks[bi])
				if bi == op.FailBulk {
					q.Fail = gi
				}
			}
			extra, _ := json.Marshal(q)
			x.calls = append(x.calls, fmt.Sprintf("concf:%d", i))
			r, err := x.child.Call(storectl.Req{Op: "cfbulk", Extra: extra})
			if err != nil {
				res.obs = append(res.obs, obs{Died: true, Why: "concurrent bulks with a failing write: " + short(err.Error())})
				res.plan.Ops = res.plan.Ops[:i+1]
				res.plan.Ops[i].Kind = "restart"
				return
			}
			var cr cfResp
			json.Unmarshal(r.Extra, &cr)
			if cr.Err == "unplaceable" {
				op.Kind = "skip"
				x.calls[len(x.calls)-1] = "q"
				continue
			}
			op.File = cr.File
			if x.cf == nil {
				x.cf = map[int]cfResp{}
			}
			x.cf[i] = cr
			if d, e1 := hex.DecodeString(cr.DHex); e1 == nil && len(d) >= 33 {
				if m, e2 := hex.DecodeString(cr.MHex); e2 == nil && len(m) >= 33 {
					bb := &res.bulks[op.FailBulk]
					if !bb.known {
						bb.dpay, bb.draw = d[33:], binary.LittleEndian.Uint64(d[9:17])
						bb.mpay, bb.mraw = m[33:], binary.LittleEndian.Uint64(m[9:17])
						bb.known = true
					}
				}
			}
			for _, bi := range op.Group {
				submitted(bi)
			}
			crashedBefore = true
			ingestAfterCrash = true
		case "conc":
			if x.child == nil {
				continue
			}
			q := cbulkReq{StaggerUs: op.Stagger}
			for _, bi := range op.Group {
				q.Bulks = append(q.Bulks, plan.Bulks[bi])
			}
			extra, _ := json.Marshal(q)
			x.calls = append(x.calls, fmt.Sprintf("conc:%d", i))
			if _, err := x.child.Call(storectl.Req{Op: "cbulk", Extra: extra}); err != nil {
				res.obs = append(res.obs, obs{Died: true, Why: "concurrent bulks failed: " + short(err.Error())})
				res.plan.Ops = res.plan.Ops[:i+1]
				res.plan.Ops[i].Kind = "restart"
				return
			}
			for _, bi := range op.Group {
				submitted(bi)
			}
			if crashedBefore {
				ingestAfterCrash = true
			}
		case "crashin":
			if x.child == nil {
				continue
			}
			if err := sendBulk(op.Bulk); err != nil {
				return fail(fmt.Errorf("%w: bulk to be crashed failed: %v", errHarness, err))
			}
			submitted(op.Bulk)
			tr, calls, err := x.closeChild()
			if err != nil {
				return fail(err)
			}
			ws, err := x.account(tr, calls, len(calls)-1)
			if err != nil {
				return fail(err)
			}
			w := ws[len(calls)-1]
			if op.K > len(w) {
				op.K = len(w)
			}
			// state after the first K operations of the bulk
			cut := len(tr.Ops)
			if op.K < len(w) {
				cut = w[op.K].idx
			} else if len(w) > 0 {
				cut = w[len(w)-1].idx + 1
			}
			st := tr.StateAt(cut)
			if op.K < len(w) && w[op.K].p.Kind == "W" {
				if op.T < 0 {
					op.T = pickT(x.r, w[op.K].p.Len)
				}
				st.ApplyTorn(tr.Ops[w[op.K].idx], op.T)
			} else {
				op.T = 0
			}
			if op.KD == -2 { // keep everything that reached the file
				op.KD = fileLen(st, "docs") + 5
			}
			if op.KM == -2 {
				op.KM = fileLen(st, "meta") + 5
			}
			if op.KD < 0 {
				op.KD = pickKeep(x.r, fileLen(st, "docs"))
			}
			if op.KM < 0 {
				op.KM = pickKeep(x.r, fileLen(st, "meta"))
			}
			powerLoss(st, op.KD, op.KM)
			if err := x.newDir(st); err != nil {
				return fail(err)
			}
			crashedBefore = true
		case "power":
			if x.child == nil {
				continue
			}
			tr, calls, err := x.closeChild()
			if err != nil {
				return fail(err)
			}
			if _, err := x.account(tr, calls, len(calls)); err != nil {
				return fail(err)
			}
			st := tr.StateAt(len(tr.Ops))
			powerLoss(st, 0, 0) // everything not durable is lost
			if err := x.newDir(st); err != nil {
				return fail(err)
			}
			crashedBefore = true
		case "startintr":
			if x.child != nil { // kill: everything written so far stays
				tr, calls, err := x.closeChild()
				if err != nil {
					return fail(err)
				}
				if _, err := x.account(tr, calls, len(calls)); err != nil {
					return fail(err)
				}
			}
			io, herr, derr := x.startInterrupted(op, nil, func() error {
				tr, calls, err := x.closeChild()
				if err != nil {
					return err
				}
				_, err = x.account(tr, calls, 0)
				return err
			})
			if herr != nil {
				return fail(herr)
			}
			if derr != nil {
				res.obs = append(res.obs, obs{Died: true, Why: "interrupted start-up: " + short(derr.Error())})
				res.plan.Ops = res.plan.Ops[:i+1]
				return
			}
			if io.Complete { // nobody saw the cancellation: an ordinary start
				o := x.observe()
				res.obs = append(res.obs, o)
				if o.Died {
					res.plan.Ops = res.plan.Ops[:i+1]
					return
				}
				continue
			}
			res.obs = append(res.obs, obs{Intr: io})
			res.nintr++
		case "restart", "restartcrash":
			if x.child != nil { // kill: everything written so far stays
				tr, calls, err := x.closeChild()
				if err != nil {
					return fail(err)
				}
				if _, err := x.account(tr, calls, len(calls)); err != nil {
					return fail(err)
				}
			}
			if err := x.start(); err != nil {
				return fail(err)
			}
			oerr := x.open()
			if op.Kind == "restartcrash" {
				if oerr != nil {
					res.obs = append(res.obs, obs{Died: true, Why: short(oerr.Error())})
					res.plan.Ops = res.plan.Ops[:i+1]
					res.plan.Ops[i].Kind = "restart"
					return
				}
				tr, calls, err := x.closeChild()
				if err != nil {
					return fail(err)
				}
				ws, err := x.account(tr, calls, 0)
				if err != nil {
					return fail(err)
				}
				cut := 0
				for _, o := range ws[0] {
					if o.p.Kind == "T" && o.p.File == "meta" {
						cut = o.idx + 1
						break
					}
				}
				if err := x.newDir(tr.StateAt(cut)); err != nil {
					return fail(err)
				}
				crashedBefore = true
				continue
			}
			if oerr != nil {
				res.obs = append(res.obs, obs{Died: true, Why: short(oerr.Error())})
				res.plan.Ops = res.plan.Ops[:i+1]
				return
			}
			o := x.observe()
			res.obs = append(res.obs, o)
			if o.Died {
				res.plan.Ops = res.plan.Ops[:i+1]
				return
			}
			if ingestAfterCrash {
				res.ntriv = true
			}
		}
	}
	if x.child != nil {
		tr, calls, err := x.closeChild()
		if err != nil {
			return fail(err)
		}
		if _, err := x.account(tr, calls, len(calls)); err != nil {
			return fail(err)
		}
	}
	return res
}

// ---------------------------------------------------------------------------- Coq rendering

func natList(xs []int) string { return casefile.NatList(xs) }

func coqCase(res *result) (string, bool) {
	if res.plan.Multi {
		return coqCaseMulti(res)
	}
	var sb strings.Builder
	kept := res.plan.Ops[:0:0]
	for _, o := range res.plan.Ops {
		if o.Kind != "skip" {
			kept = append(kept, o)
		}
	}
	res.plan.Ops = kept
	sb.WriteString("CHist [")
	for i, b := range res.plan.Bulks {
		if i > 0 {
			sb.WriteString("; ")
		}
		bb := res.bulks[i]
		sb.WriteString("Bulk [")
		for j, d := range b {
			if j > 0 {
				sb.WriteString("; ")
			}
			toks := make([]int, len(d.Toks))
			copy(toks, d.Toks)
			fmt.Fprintf(&sb, "Doc %d %s %s", d.ID, casefile.Bytes([]byte(d.Body)), casefile.NList(toks))
		}
		fmt.Fprintf(&sb, "] %s %d %s %d", casefile.Bytes(bb.dpay), bb.draw, casefile.Bytes(bb.mpay), bb.mraw)
	}
	sb.WriteString("] [")
	for i, o := range res.plan.Ops {
		if i > 0 {
			sb.WriteString("; ")
		}
		switch o.Kind {
		case "bulk":
			fmt.Fprintf(&sb, "IBulk %d", o.Bulk)
		case "fault":
			fmt.Fprintf(&sb, "IFault %d %s %d %s", o.Bulk, casefile.Bool(o.File == "meta"), o.Cut, casefile.Bool(o.Acked))
		case "concf":
			sb.WriteString("IGroupBegin")
			for _, u := range o.Units {
				if u.Ok {
					fmt.Fprintf(&sb, "; IBulk %d", u.Bulk)
				} else {
					fmt.Fprintf(&sb, "; IFault %d %s %d %s", u.Bulk, casefile.Bool(u.File == "meta"), u.Cut, casefile.Bool(u.Acked))
				}
			}
			sb.WriteString("; IGroupEnd")
		case "faultcrash":
			fmt.Fprintf(&sb, "IFaultCrash %d %d %d", o.Bulk, o.A, o.C)
		case "obs":
			sb.WriteString("IObs")
		case "skip":
			sb.WriteString("IPower") // unreachable: skipped operations are removed before rendering
		case "conc":
			ord := o.Order
			if len(ord) == 0 {
				ord = o.Group
			}
			fmt.Fprintf(&sb, "IConc %s", natList(ord))
		case "crashin":
			fmt.Fprintf(&sb, "ICrashIn %d %d %d %d %d", o.Bulk, o.K, o.T, o.KD, o.KM)
		case "power":
			sb.WriteString("IPower")
		case "restart":
			sb.WriteString("IRestart")
		case "restartcrash":
			sb.WriteString("IRestartCrash")
		case "startintr":
			fmt.Fprintf(&sb, "IStartIntr %d", o.K)
		}
	}
	sb.WriteString("] [")
	for i, o := range res.obs {
		if i > 0 {
			sb.WriteString("; ")
		}
		if o.Died {
			sb.WriteString("IDied")
			continue
		}
		if o.Intr != nil {
			fmt.Fprintf(&sb, "IIntr %s %d %d", casefile.Bool(o.Intr.Same), o.Intr.DLen, o.Intr.MLen)
			continue
		}
		sb.WriteString("IUp [")
		ids := make([]int, 0, len(o.Fetches))
		for id := range o.Fetches {
			ids = append(ids, id)
		}
		sort.Ints(ids)
		for j, id := range ids {
			if j > 0 {
				sb.WriteString("; ")
			}
			f := o.Fetches[id]
			switch {
			case f == "absent":
				fmt.Fprintf(&sb, "(%d%%N, Absent)", id)
			case strings.HasPrefix(f, "err:"):
				fmt.Fprintf(&sb, "(%d%%N, FetchErr)", id)
			default:
				b, _ := hex.DecodeString(f)
				fmt.Fprintf(&sb, "(%d%%N, Body %s)", id, casefile.Bytes(b))
			}
		}
		sb.WriteString("] [")
		ts := make([]int, 0, len(o.Searches))
		for t := range o.Searches {
			ts = append(ts, t)
		}
		sort.Ints(ts)
		for j, t := range ts {
			if j > 0 {
				sb.WriteString("; ")
			}
			xs := o.Searches[t]
			pos := make([]int, 0, len(xs))
			for _, v := range xs {
				if v < 0 {
					v = 999999
				}
				pos = append(pos, v)
			}
			sort.Ints(pos)
			fmt.Fprintf(&sb, "(%d%%N, %s)", t, casefile.NList(pos))
		}
		sb.WriteString("]")
	}
	sb.WriteString("] [")
	for i, o := range res.ops {
		if i > 0 {
			sb.WriteString("; ")
		}
		fk := "FDocs"
		if o.File == "meta" {
			fk = "FMeta"
		}
		switch o.Kind {
		case "W":
			fmt.Fprintf(&sb, "PW %s %d %s %d", fk, o.Off, casefile.Bytes(o.Hdr), o.Len)
		case "F":
			fmt.Fprintf(&sb, "PF %s", fk)
		case "T":
			fmt.Fprintf(&sb, "PT %s %d", fk, o.Len)
		case "A":
			sb.WriteString("PAck")
		}
	}
	sb.WriteString("] ")
	sb.WriteString(extsCoq(res.exts))
	for i := range res.bulks {
		if !res.bulks[i].known {
			// a bulk that was never sent (history cut short) is harmless; one that was sent is not
			for _, o := range res.plan.Ops {
				if (o.Kind == "bulk" || o.Kind == "crashin" || o.Kind == "fault" || o.Kind == "faultcrash") && o.Bulk == i {
					return "", false
				}
				if o.Kind == "conc" || o.Kind == "concf" {
					for _, g := range o.Group {
						if g == i {
							return "", false
						}
					}
				}
			}
		}
	}
	return sb.String(), true
}

// ---------------------------------------------------------------------------- generators

type gen struct {
	r      *rng.R
	nextID int
}

func (g *gen) body() string {
	n := g.r.Range(1, 14)
	const al = "abcdefghijklmnopqrstuvwxyz0123456789 "
	b := make([]byte, n)
	for i := range b {
		b[i] = al[g.r.Intn(len(al))]
	}
	return fmt.Sprintf(`{"a":"%s"}`, b)
}

func (g *gen) bulk(maxDocs int) []PDoc {
	n := g.r.Range(1, maxDocs)
	out := make([]PDoc, n)
	for i := range out {
		g.nextID++
		nt := g.r.Range(1, 3)
		seen := map[int]bool{}
		var toks []int
		for len(toks) < nt {
			t := g.r.Range(1, 5)
			if !seen[t] {
				seen[t] = true
				toks = append(toks, t)
			}
		}
		sort.Ints(toks)
		out[i] = PDoc{ID: g.nextID, Body: g.body(), Toks: toks}
	}
	return out
}

// random history: rounds of (bulks, a way to die, maybe a crashed start-up, start)
func (g *gen) history(maxRounds int) Plan {
	p := Plan{Class: "random", Seed: g.r.U64()}
	p.Ops = append(p.Ops, POp{Kind: "restart"})
	rounds := g.r.Range(1, maxRounds)
	var tried []int // interrupted bulks that may be retried
	for rd := 0; rd < rounds; rd++ {
		nb := g.r.Range(0, 2)
		if rd == 0 && nb == 0 {
			nb = 1
		}
		for j := 0; j < nb; j++ {
			bi := -1
			if len(tried) > 0 && g.r.Chance(1, 3) { // the client retries an unacknowledged bulk
				k := g.r.Intn(len(tried))
				bi = tried[k]
				tried = append(tried[:k], tried[k+1:]...)
			} else {
				p.Bulks = append(p.Bulks, g.bulk(3))
				bi = len(p.Bulks) - 1
			}
			p.Ops = append(p.Ops, POp{Kind: "bulk", Bulk: bi})
		}
		switch g.r.Intn(8) {
		case 0: // kill
		case 1:
			p.Ops = append(p.Ops, POp{Kind: "power"})
		default:
			bi := -1
			if len(tried) > 0 && g.r.Chance(1, 4) {
				bi = tried[g.r.Intn(len(tried))]
			} else {
				p.Bulks = append(p.Bulks, g.bulk(3))
				bi = len(p.Bulks) - 1
				tried = append(tried, bi)
			}
			p.Ops = append(p.Ops, POp{Kind: "crashin", Bulk: bi, K: g.r.Intn(5), T: -1, KD: -1, KM: -1})
		}
		if g.r.Chance(1, 5) {
			p.Ops = append(p.Ops, POp{Kind: "restartcrash"})
		}
		if g.r.Chance(1, 4) { // SIGTERM while the store is starting, once or twice, at a random poll
			p.Ops = append(p.Ops, POp{Kind: "startintr", K: -1})
			if g.r.Chance(1, 3) {
				p.Ops = append(p.Ops, POp{Kind: "startintr", K: -1 - g.r.Intn(2)})
			}
		}
		p.Ops = append(p.Ops, POp{Kind: "restart"})
	}
	return p
}

// designed shapes: n acknowledged bulks, a way to stop (0 kill, 1 power loss, 2 crash inside a further bulk with a
// torn meta block), a start-up interrupted after k polls (k = 0 .. n: before the first block ... before the read
// that ends the replay), an ordinary start, a further bulk, a start-up interrupted at its last poll, a start
func (g *gen) intrWitness(n, k, way int) Plan {
	g2 := &gen{r: rng.New(82)}
	p := Plan{Class: fmt.Sprintf("intr-witness-n%d", n), Seed: g.r.U64()}
	for i := 0; i < n+2; i++ {
		p.Bulks = append(p.Bulks, g2.bulk(2))
	}
	p.Ops = []POp{{Kind: "restart"}}
	for i := 0; i < n; i++ {
		p.Ops = append(p.Ops, POp{Kind: "bulk", Bulk: i})
	}
	switch way {
	case 1:
		p.Ops = append(p.Ops, POp{Kind: "power"})
	case 2:
		p.Ops = append(p.Ops, POp{Kind: "crashin", Bulk: n, K: 2, T: -1, KD: -2, KM: -2})
	}
	p.Ops = append(p.Ops, POp{Kind: "startintr", K: k}, POp{Kind: "restart"}, POp{Kind: "bulk", Bulk: n + 1},
		POp{Kind: "startintr", K: -2}, POp{Kind: "restart"})
	return p
}

func intrPlans(g *gen, thorough bool) []Plan {
	var plans []Plan
	if thorough {
		for _, n := range []int{1, 3, 5} {
			for k := 0; k <= n+1; k++ {
				for way := 0; way < 3; way++ {
					plans = append(plans, g.intrWitness(n, k, way))
				}
			}
		}
		return plans
	}
	for _, k := range []int{0, 2, 5, g.r.Intn(6)} {
		plans = append(plans, g.intrWitness(5, k, g.r.Intn(3)))
	}
	plans = append(plans, g.intrWitness(1, g.r.Intn(2), g.r.Intn(3)), g.intrWitness(3, 4, 0))
	return plans
}

// concurrent bulks of very different size, then a way to stop, a start, sometimes more
func (g *gen) concurrent() Plan {
	p := Plan{Class: "concurrent", Seed: g.r.U64()}
	p.Ops = append(p.Ops, POp{Kind: "restart"})
	if g.r.Chance(1, 2) {
		p.Bulks = append(p.Bulks, g.bulk(2))
		p.Ops = append(p.Ops, POp{Kind: "bulk", Bulk: 0})
	}
	rounds := g.r.Range(1, 2)
	for rd := 0; rd < rounds; rd++ {
		// A: many documents with long bodies; B: one short document; sometimes C in between
		spec := GenSpec{Seed: g.r.U64(), N: g.r.Range(8, 20), MinLen: 20, MaxLen: 60, FirstID: g.nextID + 1}
		a := spec.docs()
		g.nextID += len(a)
		group := []int{len(p.Bulks)}
		p.Bulks = append(p.Bulks, a)
		p.Bulks = append(p.Bulks, g.bulk(1))
		group = append(group, len(p.Bulks)-1)
		stagger := []int{0, g.r.Intn(400)}
		if g.r.Chance(1, 3) {
			c := GenSpec{Seed: g.r.U64(), N: g.r.Range(4, 9), MinLen: 10, MaxLen: 40, FirstID: g.nextID + 1}.docs()
			g.nextID += len(c)
			p.Bulks = append(p.Bulks, c)
			group = append(group, len(p.Bulks)-1)
			stagger = append(stagger, g.r.Intn(400))
		}
		p.Ops = append(p.Ops, POp{Kind: "conc", Group: group, Stagger: stagger})
		if g.r.Chance(1, 3) {
			p.Ops = append(p.Ops, POp{Kind: "power"})
		}
		p.Ops = append(p.Ops, POp{Kind: "restart"})
	}
	if g.r.Chance(1, 2) {
		p.Bulks = append(p.Bulks, g.bulk(2))
		p.Ops = append(p.Ops, POp{Kind: "bulk", Bulk: len(p.Bulks) - 1}, POp{Kind: "restart"})
	}
	return p
}

// a concurrent group of small bulks and one big bulk whose docs or meta write exceeds the file-size
// limit, whatever the lock order; then observe, start, sometimes more
func (g *gen) concFault() Plan {
	p := Plan{Class: "conc-fault", Seed: g.r.U64(), Fault: true}
	p.Ops = append(p.Ops, POp{Kind: "restart"})
	nb := g.r.Range(0, 2)
	for j := 0; j < nb; j++ {
		p.Bulks = append(p.Bulks, g.bulk(3))
		p.Ops = append(p.Ops, POp{Kind: "bulk", Bulk: len(p.Bulks) - 1})
	}
	var group, stagger []int
	p.Bulks = append(p.Bulks, g.bulk(1)) // small, first
	group, stagger = append(group, len(p.Bulks)-1), append(stagger, 0)
	file := "docs"
	spec := GenSpec{Seed: g.r.U64(), N: g.r.Range(10, 22), MinLen: 20, MaxLen: 60, FirstID: g.nextID + 1}
	if g.r.Bool() {
		// many documents with tiny bodies: the meta block is much longer than the docs block, so a limit
		// exists that the docs block passes and the meta block exceeds
		file = "meta"
		spec = GenSpec{Seed: g.r.U64(), N: g.r.Range(18, 34), MinLen: 1, MaxLen: 3, FirstID: g.nextID + 1}
	}
	big := spec.docs()
	g.nextID += len(big)
	p.Bulks = append(p.Bulks, big)
	fb := len(p.Bulks) - 1
	group, stagger = append(group, fb), append(stagger, g.r.Intn(250))
	if g.r.Chance(1, 3) {
		p.Bulks = append(p.Bulks, g.bulk(2))
		group, stagger = append(group, len(p.Bulks)-1), append(stagger, g.r.Intn(250))
	}
	p.Ops = append(p.Ops, POp{Kind: "concf", Group: group, Stagger: stagger, FailBulk: fb, File: file, Cut: pickT(g.r, 200)})
	p.Ops = append(p.Ops, POp{Kind: "obs"}, POp{Kind: "restart"})
	if g.r.Chance(1, 3) {
		p.Bulks = append(p.Bulks, g.bulk(2))
		p.Ops = append(p.Ops, POp{Kind: "bulk", Bulk: len(p.Bulks) - 1}, POp{Kind: "restart"})
	}
	return p
}

// one write fails with an I/O error (no crash); then either a stop and a start, or further
// acknowledged bulks first (class fault-ingest)
func (g *gen) faulty() Plan {
	p := Plan{Seed: g.r.U64(), Fault: true}
	p.Ops = append(p.Ops, POp{Kind: "restart"})
	nb := g.r.Range(0, 3)
	for j := 0; j < nb; j++ {
		p.Bulks = append(p.Bulks, g.bulk(3))
		p.Ops = append(p.Ops, POp{Kind: "bulk", Bulk: len(p.Bulks) - 1})
	}
	p.Bulks = append(p.Bulks, g.bulk(3))
	fb := len(p.Bulks) - 1
	file := "docs"
	if g.r.Bool() {
		file = "meta"
	}
	if g.r.Chance(1, 3) {
		// the process dies inside the failed unit or its rollback
		p.Class = "fault-crash"
		p.Ops = append(p.Ops, POp{Kind: "faultcrash", Bulk: fb, File: file, Cut: -1, K: -1, T: -1, KD: -1, KM: -1})
		p.Ops = append(p.Ops, POp{Kind: "restart"})
		n := g.r.Range(0, 2)
		for j := 0; j < n; j++ {
			if j == 0 && g.r.Chance(1, 3) {
				p.Ops = append(p.Ops, POp{Kind: "bulk", Bulk: fb})
				continue
			}
			p.Bulks = append(p.Bulks, g.bulk(3))
			p.Ops = append(p.Ops, POp{Kind: "bulk", Bulk: len(p.Bulks) - 1})
		}
		if n > 0 {
			p.Ops = append(p.Ops, POp{Kind: "restart"})
		}
		return p
	}
	p.Ops = append(p.Ops, POp{Kind: "fault", Bulk: fb, File: file, Cut: -1, T: 0, KD: 0, KM: 0})
	if g.r.Chance(1, 2) {
		p.Class = "fault-ingest"
		n := g.r.Range(1, 2)
		for j := 0; j < n; j++ {
			if j == 0 && g.r.Chance(1, 3) { // the client retries the failed bulk
				p.Ops = append(p.Ops, POp{Kind: "bulk", Bulk: fb})
				continue
			}
			p.Bulks = append(p.Bulks, g.bulk(3))
			p.Ops = append(p.Ops, POp{Kind: "bulk", Bulk: len(p.Bulks) - 1})
		}
	} else {
		p.Class = "fault-restart"
	}
	p.Ops = append(p.Ops, POp{Kind: "obs"}, POp{Kind: "restart"})
	if g.r.Chance(1, 2) {
		p.Bulks = append(p.Bulks, g.bulk(2))
		p.Ops = append(p.Ops, POp{Kind: "bulk", Bulk: len(p.Bulks) - 1}, POp{Kind: "restart"})
	}
	return p
}

// the designed witness shape: bulk, crash inside the next one, start, further bulk, start
func (g *gen) witness(k, t int, retry bool) Plan {
	g2 := &gen{r: rng.New(77), nextID: 0} // fixed documents: block lengths are the same for every t
	p := Plan{Class: fmt.Sprintf("witness-k%d", k), Seed: g.r.U64()}
	b1, b2, b3 := g2.bulk(2), g2.bulk(2), g2.bulk(2)
	p.Bulks = [][]PDoc{b1, b2, b3}
	third := 2
	if retry {
		third = 1
		p.Class += "-retry"
	}
	p.Ops = []POp{{Kind: "restart"}, {Kind: "bulk", Bulk: 0}, {Kind: "crashin", Bulk: 1, K: k, T: t, KD: -2, KM: -2},
		{Kind: "restart"}, {Kind: "bulk", Bulk: third}, {Kind: "restart"}, {Kind: "bulk", Bulk: 0}, {Kind: "power"}, {Kind: "restart"}}
	p.Ops = p.Ops[:6+3*g.r.Intn(2)]
	return p
}

// ---------------------------------------------------------------------------- main

func main() {
	storectl.MaybeChild()
	seed := flag.Uint64("seed", 1, "")
	tier := flag.String("tier", "quick", "")
	out := flag.String("out", "", "")
	replay := flag.String("replay", "", "")
	workers := flag.Int("workers", 4, "")
	probe := flag.String("faultprobe", "", "docs|meta: print what a failed write leaves behind")
	probeCut := flag.Int("cut", 10, "")
	mprobe := flag.Bool("mprobe", false, "print the file operations of a rotation, a seal and a start-up over several fractions")
	flag.Parse()
	if *mprobe {
		multiProbe()
		return
	}
	if *probe != "" {
		faultProbe(*probe, *probeCut)
		return
	}
	if *out == "" {
		fmt.Fprintln(os.Stderr, "usage: hC01 -seed N -tier quick|thorough -out DIR [-replay file]")
		os.Exit(2)
	}
	w, err := casefile.New(*out, "C01", "From VLib Require Import CaseLib.\nFrom C01 Require Import Model ModelMulti ModelIntr CaseDefs.\nOpen Scope nat_scope.", 16)
	if err != nil {
		panic(err)
	}
	tmp := os.Getenv("TMPDIR")
	if tmp == "" {
		tmp = "/tmp"
	}
	var plans []Plan
	var bigs []bigTrial
	if *replay != "" {
		plans = loadReplay(*replay)
	} else {
		g := &gen{r: rng.New(*seed)}
		nRandom, maxRounds := 220, 4 // quick volume reduced when the interrupted start-ups came in (each adds a child process)
		if *tier == "thorough" {
			nRandom, maxRounds = 3000, 8
		}
		// witness family: block lengths learned from a probe run
		probe := exec(g.witness(0, 0, false), tmp)
		ld, lm := 0, 0
		if probe.err == nil && probe.bulks[1].known {
			ld, lm = 33+len(probe.bulks[1].dpay), 33+len(probe.bulks[1].mpay)
		}
		lens := func(l int) []int {
			if *tier == "thorough" {
				all := make([]int, l+1)
				for i := range all {
					all[i] = i
				}
				return all
			}
			set := map[int]bool{0: true, 1: true, 32: true, 33: true, 34: true, l - 1: true, l: true}
			for i := 0; i < 4; i++ {
				set[g.r.Intn(l+1)] = true
			}
			var out []int
			for v := range set {
				if v >= 0 && v <= l {
					out = append(out, v)
				}
			}
			sort.Ints(out)
			return out
		}
		if ld > 0 {
			for _, t := range lens(ld) {
				plans = append(plans, g.witness(0, t, g.r.Chance(1, 4)))
			}
			for _, t := range lens(lm) {
				plans = append(plans, g.witness(2, t, g.r.Chance(1, 4)))
			}
			for _, k := range []int{1, 3, 4} {
				plans = append(plans, g.witness(k, 0, false), g.witness(k, 0, true))
			}
		}
		plans = append(plans, intrPlans(g, *tier == "thorough")...)
		for i := 0; i < nRandom; i++ {
			g.nextID = 0
			plans = append(plans, g.history(maxRounds))
		}
		nConc, nBig := 40, 24
		if *tier == "thorough" {
			nConc, nBig = 300, 150
		}
		for i := 0; i < nConc; i++ {
			g.nextID = 0
			plans = append(plans, g.concurrent())
		}
		nFault := 90
		if *tier == "thorough" {
			nFault = 700
		}
		for i := 0; i < nFault; i++ {
			g.nextID = 0
			plans = append(plans, g.faulty())
		}
		nCF := 60
		if *tier == "thorough" {
			nCF = 500
		}
		for i := 0; i < nCF; i++ {
			g.nextID = 0
			plans = append(plans, g.concFault())
		}
		for i := 0; i < nBig; i++ {
			bigs = append(bigs, genBigTrial(g.r, *tier == "thorough"))
		}
		plans = append(plans, multiPlans(g, *tier == "thorough")...)
	}
	results := make([]*result, len(plans))
	var wg sync.WaitGroup
	ch := make(chan int)
	for k := 0; k < *workers; k++ {
		wg.Add(1)
		go func() {
			defer wg.Done()
			for i := range ch {
				results[i] = exec(plans[i], tmp)
			}
		}()
	}
	for i := range plans {
		ch <- i
	}
	close(ch)
	wg.Wait()
	// big concurrent trials (untraced, real timing), checked directly
	type bigRes struct {
		fp, what string
		detail   any
		err      error
	}
	bres := make([]bigRes, len(bigs))
	bch := make(chan int)
	var bwg sync.WaitGroup
	for k := 0; k < min(*workers, 4); k++ {
		bwg.Add(1)
		go func() {
			defer bwg.Done()
			for i := range bch {
				fp, what, det, err := runBigTrial(bigs[i], tmp)
				bres[i] = bigRes{fp, what, det, err}
			}
		}()
	}
	for i := range bigs {
		bch <- i
	}
	close(bch)
	bwg.Wait()
	for i, b := range bres {
		w.Evals(1)
		w.Count("big-concurrent-trials")
		if b.err != nil {
			w.Count("harness:big-trial-dropped")
			fmt.Fprintln(os.Stderr, "hC01: big trial dropped:", b.err)
			continue
		}
		if b.fp != "" {
			w.Violate(b.fp, b.what, map[string]any{"trial": bigs[i], "meta_blocks_ext1_ext2": b.detail})
		}
	}
	dropped := 0
	for _, res := range results {
		if res.err != nil {
			dropped++
			w.Count("harness:dropped")
			fmt.Fprintln(os.Stderr, "hC01: history dropped:", res.err)
			continue
		}
		term, ok := coqCase(res)
		if res.plan.Multi {
			if !ok && len(res.mobs) > 0 && res.mobs[len(res.mobs)-1].Died {
				w.Violate("c01-store-died-or-hung", "the store died or stopped answering: "+res.mobs[len(res.mobs)-1].Why, res.plan)
				continue
			}
			if !ok {
				w.Violate("c01-bulk-without-block-writes", "a bulk was acknowledged without a docs block and a meta block being written", res.plan)
				continue
			}
			nfr := 0
			for _, o := range res.plan.Ops {
				w.Count("multi-op:" + o.Kind)
				switch o.Kind {
				case "sealcrash":
					if o.Acked {
						w.Count(fmt.Sprintf("seal-crash-after-op:%d", o.J))
					} else {
						w.Count("seal-crash:nothing-to-seal")
					}
				case "rotatecrash":
					w.Count(fmt.Sprintf("rotate-crash-after-op:%d", o.J))
				case "restartcrash":
					w.Count(fmt.Sprintf("startup-crash-after-op:%d", o.J))
				case "startintr":
					w.Count(fmt.Sprintf("multi-startintr-after-polls:%d", min(o.K, 10)))
				}
			}
			for _, o := range res.mobs {
				if o.Intr != nil {
					w.Count("multi-startintr:returned-cancellation")
					if !o.Intr.Same {
						w.Count("multi-startintr:files-changed(clean-up of earlier fractions)")
					}
					w.Count(fmt.Sprintf("multi-startintr:fractions-in-directory:%d", min(len(o.Intr.Files), 6)))
				}
				if !o.Died && len(o.Fracs) > nfr {
					nfr = len(o.Fracs)
				}
				for _, f := range o.Fracs {
					if f.Sealed {
						w.Count("multi-served:sealed-fraction")
					} else {
						w.Count("multi-served:active-fraction")
					}
				}
			}
			w.Count(fmt.Sprintf("multi-max-fractions-served:%d", nfr))
			w.Add(term, res.plan.Class, res.ntriv, res.plan, res.mobs)
			continue
		}
		if !ok && len(res.obs) > 0 && res.obs[len(res.obs)-1].Died {
			w.Violate("c01-store-died-or-hung", "the store died or stopped answering: "+res.obs[len(res.obs)-1].Why, res.plan)
			continue
		}
		if !ok {
			w.Violate("c01-bulk-without-block-writes", "a bulk was acknowledged without a docs block and a meta block being written", res.plan)
			continue
		}
		for _, o := range res.plan.Ops {
			w.Count("op:" + o.Kind)
			if o.Kind == "conc" {
				inv := false
				for k := range o.Order {
					if k < len(o.Group) && o.Order[k] != o.Group[k] {
						inv = true
					}
				}
				if inv {
					w.Count("conc:lock-order-differs-from-submission-order")
				}
			}
			if o.Kind == "crashin" {
				w.Count(fmt.Sprintf("crash-after-op:%d", o.K))
			}
			if o.Kind == "startintr" {
				w.Count(fmt.Sprintf("startintr-after-polls:%d", min(o.K, 8)))
			}
		}
		for _, o := range res.obs {
			if o.Intr != nil {
				w.Count("startintr:returned-cancellation")
				if !o.Intr.Same {
					w.Count("startintr:files-changed")
				}
			}
		}
		w.Count(fmt.Sprintf("restarts:%d", len(res.obs)))
		died := false
		for _, o := range res.obs {
			if o.Died {
				died = true
			}
		}
		if died {
			w.Count("outcome:store-did-not-come-up")
		} else if len(res.obs) > 0 {
			last := res.obs[len(res.obs)-1]
			for _, o := range res.plan.Ops {
				if o.Kind == "crashin" && len(res.plan.Bulks[o.Bulk]) > 0 {
					switch f := last.Fetches[res.plan.Bulks[o.Bulk][0].ID]; {
					case f == "absent":
						w.Count("interrupted-bulk:finally-absent")
					case f != "" && !strings.HasPrefix(f, "err:"):
						w.Count("interrupted-bulk:finally-present")
					}
				}
			}
		}
		w.Add(term, res.plan.Class, res.ntriv, res.plan, res.obs)
	}
	if err := w.Close(); err != nil {
		panic(err)
	}
	if len(plans) > 0 && dropped*5 > len(plans) {
		fmt.Fprintf(os.Stderr, "hC01: %d of %d histories dropped by harness errors\n", dropped, len(plans))
		os.Exit(3)
	}
}

func loadReplay(path string) []Plan {
	b, err := os.ReadFile(path)
	if err != nil {
		panic(err)
	}
	var v struct {
		Replay struct {
			Case struct {
				Input Plan `json:"input"`
			} `json:"case"`
			Input *Plan `json:"input"`
		} `json:"replay"`
		Input *Plan `json:"input"`
	}
	if err := json.Unmarshal(b, &v); err != nil {
		panic(err)
	}
	switch {
	case v.Replay.Input != nil:
		return []Plan{*v.Replay.Input}
	case v.Input != nil:
		return []Plan{*v.Input}
	}
	return []Plan{v.Replay.Case.Input}
}
