// Multi-fraction histories of property C01: rotation, sealing, crashes inside them and inside the
// start-up over several fractions (model: props/C01/coq/ModelMulti.v, case constructor CMulti).
//
// The real store runs in traced child processes (FracManager level). Rotation and sealing are
// driven separately through fracmanager/export_verif_c01.go (FracManager.rotate / FracManager.seal),
// so bulks land in a new active fraction while older ones are still unsealed and the next start has
// to seal them. Crash states are rebuilt from the strace log at operation boundaries INSIDE a
// rotation, a seal (incl. a torn write into ._sdocs/._index and power loss) and a start-up; a fresh
// child is started on them; after every start every submitted document is fetched and every token
// searched, and FracManager.fracs is listed (order, sealed/writable). The file operations of the
// completed steps are projected to (fraction number in creation order, file, operation) and compared
// with the model's programs.
package main

import (
	"encoding/hex"
	"encoding/json"
	"errors"
	"fmt"
	"os"
	"sort"
	"strings"

	"github.com/ozontech/seq-db/fracmanager"

	"verif/harness/internal/casefile"
	"verif/harness/internal/crashfs"
	"verif/harness/internal/rng"
	"verif/harness/internal/storectl"
)

type mResp struct {
	Done  bool                       `json:"done"`
	Fracs []fracmanager.VerifC01Frac `json:"fracs"`
}

func init() {
	storectl.Register("mrotate", func(c *storectl.Child, r storectl.Req) (storectl.Resp, error) {
		ok := c.FM.VerifC01Rotate()
		b, _ := json.Marshal(mResp{Done: ok, Fracs: c.FM.VerifC01Fracs()})
		return storectl.Resp{Extra: b}, nil
	})
	storectl.Register("mseal", func(c *storectl.Child, r storectl.Req) (storectl.Resp, error) {
		ok := c.FM.VerifC01SealOldest()
		b, _ := json.Marshal(mResp{Done: ok, Fracs: c.FM.VerifC01Fracs()})
		return storectl.Resp{Extra: b}, nil
	})
	storectl.Register("mfracs", func(c *storectl.Child, r storectl.Req) (storectl.Resp, error) {
		b, _ := json.Marshal(mResp{Done: true, Fracs: c.FM.VerifC01Fracs()})
		return storectl.Resp{Extra: b}, nil
	})
}

// MFrac is one entry of FracManager.fracs as observed after a start.
type MFrac struct {
	Ord      int  `json:"ord"`
	Sealed   bool `json:"sealed"`
	Writable bool `json:"writable"`
}

type mobs struct {
	obs
	Fracs []MFrac `json:"fracs,omitempty"`
}

// one model-level operation of a trace: a range of tr.Ops and its Coq rendering
type mOp struct {
	start, end int
	coq        string
	frac       int // -1: directory fsync
	sync       bool
	sw         bool
}

type mwin struct {
	start int // index in tr.Ops where the window begins
	ops   []mOp
}

var sufName = map[string]string{".meta": "NMeta", ".docs": "NDocs", "._sdocs": "NSdocsTmp", ".sdocs": "NSdocs",
	"._index": "NIndexTmp", ".index": "NIndex"}

type mrunner struct {
	*runner
	ords    map[string]int
	mops    []string
	mobs    []mobs
	rotated bool
	crashed bool
}

// fracFile splits "seq-db-<id><suffix>".
func fracFile(path string) (name, suffix string, ok bool) {
	if !strings.HasPrefix(path, "seq-db-") {
		return "", "", false
	}
	i := strings.IndexByte(path, '.')
	if i < 0 {
		return "", "", false
	}
	return path[:i], path[i:], true
}

func (x *mrunner) ord(name string) int {
	if o, ok := x.ords[name]; ok {
		return o
	}
	o := len(x.ords)
	x.ords[name] = o
	return o
}

// mproject turns a trace into windows (split at marks) of model-level operations.
func (x *mrunner) mproject(tr *crashfs.Trace) ([]mwin, error) {
	var wins []mwin
	cur := mwin{start: 0}
	for i, o := range tr.Ops {
		if o.Kind == crashfs.Mark {
			wins = append(wins, cur)
			cur = mwin{start: i + 1}
			continue
		}
		if o.Kind == crashfs.FsyncDir {
			cur.ops = append(cur.ops, mOp{start: i, end: i + 1, coq: "MPDirSync", frac: -1, sync: true})
			continue
		}
		name, suf, ok := fracFile(o.Path)
		if !ok {
			continue // .immature, .frac-cache
		}
		fn, known := sufName[suf]
		if !known {
			return nil, fmt.Errorf("%w: operation on unexpected file %s", errHarness, o.Path)
		}
		fi := x.ord(name)
		tmp := suf == "._sdocs" || suf == "._index"
		fk := "FDocs"
		if suf == ".meta" {
			fk = "FMeta"
		}
		switch o.Kind {
		case crashfs.Create:
			cur.ops = append(cur.ops, mOp{start: i, end: i + 1, coq: fmt.Sprintf("MPCreate %d %s", fi, fn), frac: fi})
		case crashfs.Write:
			if suf == ".docs" || suf == ".meta" {
				h := o.Data
				if len(h) > 33 {
					h = h[:33]
				}
				cur.ops = append(cur.ops, mOp{start: i, end: i + 1, frac: fi,
					coq: fmt.Sprintf("MPB %d (PW %s %d %s %d)", fi, fk, o.Off, casefile.Bytes(h), len(o.Data))})
				continue
			}
			if !tmp {
				return nil, fmt.Errorf("%w: write into %s", errHarness, o.Path)
			}
			if n := len(cur.ops); n > 0 && cur.ops[n-1].sw && cur.ops[n-1].frac == fi && cur.ops[n-1].coq == fmt.Sprintf("MPSW %d %s", fi, fn) {
				cur.ops[n-1].end = i + 1
				continue
			}
			cur.ops = append(cur.ops, mOp{start: i, end: i + 1, coq: fmt.Sprintf("MPSW %d %s", fi, fn), frac: fi, sw: true})
		case crashfs.Fsync:
			if suf == ".docs" || suf == ".meta" {
				cur.ops = append(cur.ops, mOp{start: i, end: i + 1, coq: fmt.Sprintf("MPB %d (PF %s)", fi, fk), frac: fi})
			} else {
				cur.ops = append(cur.ops, mOp{start: i, end: i + 1, coq: fmt.Sprintf("MPFs %d %s", fi, fn), frac: fi})
			}
		case crashfs.Truncate:
			if suf != ".docs" && suf != ".meta" {
				return nil, fmt.Errorf("%w: truncate of %s", errHarness, o.Path)
			}
			cur.ops = append(cur.ops, mOp{start: i, end: i + 1, coq: fmt.Sprintf("MPB %d (PT %s %d)", fi, fk, o.Off), frac: fi})
		case crashfs.Rename:
			n2, s2, ok2 := fracFile(o.Path2)
			f2, k2 := sufName[s2]
			if !ok2 || !k2 || n2 != name {
				return nil, fmt.Errorf("%w: rename %s -> %s", errHarness, o.Path, o.Path2)
			}
			cur.ops = append(cur.ops, mOp{start: i, end: i + 1, coq: fmt.Sprintf("MPRen %d %s %s", fi, fn, f2), frac: fi})
		case crashfs.Unlink:
			cur.ops = append(cur.ops, mOp{start: i, end: i + 1, coq: fmt.Sprintf("MPUnl %d %s", fi, fn), frac: fi})
		}
	}
	wins = append(wins, cur)
	return wins, nil
}

// mclose ends the current child; the operations of its first `upto` calls enter the history's log.
func (x *mrunner) mclose(upto int) (*crashfs.Trace, []mwin, error) {
	if x.child == nil {
		return nil, nil, nil
	}
	tr, calls, err := x.closeChild()
	if err != nil {
		return nil, nil, err
	}
	wins, err := x.mproject(tr)
	if err != nil {
		return nil, nil, err
	}
	if len(wins) < len(calls) {
		return nil, nil, fmt.Errorf("%w: %d windows for %d calls", errHarness, len(wins), len(calls))
	}
	ws, err := windows(project(tr), len(calls))
	if err != nil {
		return nil, nil, err
	}
	for j, c := range calls {
		if strings.HasPrefix(c, "bulk:") {
			var bi int
			fmt.Sscanf(c, "bulk:%d", &bi)
			x.learnBulk(bi, tr, ws[j])
		}
		if j >= upto {
			continue
		}
		for _, o := range wins[j].ops {
			x.mops = append(x.mops, o.coq)
		}
		if strings.HasPrefix(c, "bulk:") && len(wins[j].ops) > 0 {
			x.mops = append(x.mops, fmt.Sprintf("MPB %d PAck", wins[j].ops[0].frac))
		}
	}
	if upto >= len(calls) { // anything after the last answer
		for j := len(calls); j < len(wins); j++ {
			for _, o := range wins[j].ops {
				x.mops = append(x.mops, o.coq)
			}
		}
	}
	return tr, wins, nil
}

// crashState: the first j model-level operations of the window completed; the next one (a group of
// writes into a temp file) possibly torn; possibly power loss.
func (x *mrunner) crashState(tr *crashfs.Trace, w mwin, j int, torn, pl bool) *crashfs.State {
	cut := w.start
	if j >= len(w.ops) {
		if len(w.ops) > 0 {
			cut = w.ops[len(w.ops)-1].end
		}
	} else {
		cut = w.ops[j].start
	}
	st := tr.StateAt(cut)
	if torn && j < len(w.ops) && w.ops[j].sw {
		g := w.ops[j]
		var wr []int
		for i := g.start; i < g.end; i++ {
			if tr.Ops[i].Kind == crashfs.Write {
				wr = append(wr, i)
			}
		}
		if len(wr) > 0 {
			m := x.r.Intn(len(wr))
			for i := g.start; i < wr[m]; i++ {
				st.Apply(tr.Ops[i])
			}
			st.ApplyTorn(tr.Ops[wr[m]], x.r.Intn(len(tr.Ops[wr[m]].Data)+1))
		}
	}
	if pl {
		st.PowerLoss(func(path string, synced, length int) int { return 0 })
	}
	return st
}

func (x *mrunner) mobserve() mobs {
	o := mobs{obs: x.observe()}
	if o.Died {
		return o
	}
	x.calls = append(x.calls, "q")
	r, err := x.child.Call(storectl.Req{Op: "mfracs"})
	if err != nil {
		return mobs{obs: obs{Died: true, Why: "died listing fractions: " + short(err.Error())}}
	}
	var mr mResp
	json.Unmarshal(r.Extra, &mr)
	// fractions created by the running child are not in the parsed traces yet: names (ULIDs) sort in
	// creation order
	var fresh []string
	for _, f := range mr.Fracs {
		if _, ok := x.ords[f.Name]; !ok {
			fresh = append(fresh, f.Name)
		}
	}
	sort.Strings(fresh)
	for _, n := range fresh {
		x.ord(n)
	}
	for _, f := range mr.Fracs {
		o.Fracs = append(o.Fracs, MFrac{Ord: x.ords[f.Name], Sealed: f.Sealed, Writable: f.Writable})
	}
	return o
}

func execMulti(plan Plan, tmp string) (res *result) {
	plan.Planned = nil
	res = &result{plan: plan, bulks: make([]bulkBytes, len(plan.Bulks))}
	res.plan.Ops = append([]POp(nil), plan.Ops...)
	root, err := os.MkdirTemp(tmp, "hC01m-")
	if err != nil {
		res.err = err
		return
	}
	defer os.RemoveAll(root)
	x := &mrunner{runner: &runner{root: root, r: rng.New(plan.Seed), res: res}, ords: map[string]int{}}
	defer func() {
		if x.child != nil {
			x.child.Kill()
			x.child.Close()
		}
		res.mops, res.mobs = x.mops, x.mobs
		if len(x.mobs) > 0 && x.mobs[len(x.mobs)-1].Died {
			res.plan.Planned = plan.Ops
		}
	}()
	if err := x.newDir(nil); err != nil {
		res.err = err
		return
	}
	fail := func(e error) *result { res.err = e; return res }
	died := func(i int, why string) *result {
		x.mobs = append(x.mobs, mobs{obs: obs{Died: true, Why: why}})
		res.plan.Ops = res.plan.Ops[:i+1]
		res.plan.Ops[i].Kind = "restart" // reported as a start that did not come up
		return res
	}
	submitted := func(bi int) {
		for _, b := range x.subm {
			if b == bi {
				return
			}
		}
		x.subm = append(x.subm, bi)
	}
	sendBulk := func(bi int) error {
		docs := make([]storectl.Doc, 0, len(plan.Bulks[bi]))
		for _, d := range plan.Bulks[bi] {
			toks := make([]string, len(d.Toks))
			for i, t := range d.Toks {
				toks[i] = fmt.Sprintf("k:v%d", t)
			}
			docs = append(docs, storectl.Doc{MID: d.mid(), RID: d.rid(), BodyHex: hex.EncodeToString([]byte(d.Body)), Tokens: toks})
		}
		x.calls = append(x.calls, fmt.Sprintf("bulk:%d", bi))
		_, err := x.child.Call(storectl.Req{Op: "bulk", Docs: docs})
		return err
	}
	// crash inside the last call of the current child
	crashLast := func(op *POp) error {
		ncalls := len(x.calls)
		tr, wins, err := x.mclose(ncalls - 1)
		if err != nil {
			return err
		}
		w := wins[ncalls-1]
		if op.J < 0 || op.J > len(w.ops) {
			op.J = x.r.Intn(len(w.ops) + 1)
		}
		if !(op.J < len(w.ops) && w.ops[op.J].sw) {
			op.Torn = false
		}
		st := x.crashState(tr, w, op.J, op.Torn, op.PL)
		x.crashed = true
		return x.newDir(st)
	}
	for i := range res.plan.Ops {
		op := &res.plan.Ops[i]
		if x.child == nil && op.Kind != "restart" && op.Kind != "restartcrash" && op.Kind != "startintr" {
			op.Kind = "skip"
			continue
		}
		switch op.Kind {
		case "bulk":
			if err := sendBulk(op.Bulk); err != nil {
				return died(i, "bulk failed: "+short(err.Error()))
			}
			submitted(op.Bulk)
		case "rotate", "seal":
			x.calls = append(x.calls, op.Kind)
			r, err := x.child.Call(storectl.Req{Op: "m" + op.Kind})
			if err != nil {
				return died(i, op.Kind+" failed: "+short(err.Error()))
			}
			var mr mResp
			json.Unmarshal(r.Extra, &mr)
			op.Acked = mr.Done
			if op.Kind == "rotate" && mr.Done {
				x.rotated = true
			}
		case "crashin":
			if err := sendBulk(op.Bulk); err != nil {
				return fail(fmt.Errorf("%w: bulk to be crashed failed: %v", errHarness, err))
			}
			submitted(op.Bulk)
			ncalls := len(x.calls)
			tr, wins, err := x.mclose(ncalls - 1)
			if err != nil {
				return fail(err)
			}
			w := wins[ncalls-1]
			if op.K > len(w.ops) {
				op.K = len(w.ops)
			}
			cut := w.start
			if op.K < len(w.ops) {
				cut = w.ops[op.K].start
			} else if len(w.ops) > 0 {
				cut = w.ops[len(w.ops)-1].end
			}
			st := tr.StateAt(cut)
			if op.K < len(w.ops) && tr.Ops[w.ops[op.K].start].Kind == crashfs.Write {
				o := tr.Ops[w.ops[op.K].start]
				if op.T < 0 {
					op.T = pickT(x.r, len(o.Data))
				}
				st.ApplyTorn(o, op.T)
			} else {
				op.T = 0
			}
			// power-loss cuts apply to the files of the fraction written to; all others are durable
			wname := ""
			if len(w.ops) > 0 {
				wname, _, _ = fracFile(tr.Ops[w.ops[0].start].Path)
			}
			flen := func(suf string) int {
				return len(st.Files()[wname+suf])
			}
			if op.KD < 0 {
				op.KD = pickKeep(x.r, flen(".docs"))
			}
			if op.KM < 0 {
				op.KM = pickKeep(x.r, flen(".meta"))
			}
			st.PowerLoss(func(path string, synced, length int) int {
				switch {
				case path == wname+".docs":
					return op.KD
				case path == wname+".meta":
					return op.KM
				}
				return length
			})
			x.crashed = true
			if err := x.newDir(st); err != nil {
				return fail(err)
			}
		case "power":
			tr, _, err := x.mclose(len(x.calls))
			if err != nil {
				return fail(err)
			}
			st := tr.StateAt(len(tr.Ops))
			st.PowerLoss(func(path string, synced, length int) int { return 0 })
			x.crashed = true
			if err := x.newDir(st); err != nil {
				return fail(err)
			}
		case "rotatecrash", "sealcrash":
			x.calls = append(x.calls, op.Kind)
			r, err := x.child.Call(storectl.Req{Op: "m" + strings.TrimSuffix(op.Kind, "crash")})
			if err != nil {
				return died(i, op.Kind+": the operation to be crashed failed: "+short(err.Error()))
			}
			var mr mResp
			json.Unmarshal(r.Extra, &mr)
			op.Acked = mr.Done
			if op.Kind == "rotatecrash" {
				op.Torn, op.PL = false, false
			}
			if err := crashLast(op); err != nil {
				return fail(err)
			}
		case "startintr":
			if x.child != nil { // kill: everything written so far stays
				if _, _, err := x.mclose(len(x.calls)); err != nil {
					return fail(err)
				}
			}
			io, herr, derr := x.startInterrupted(op, x.ord, func() error {
				_, _, err := x.mclose(0)
				return err
			})
			if herr != nil {
				return fail(herr)
			}
			if derr != nil {
				x.mclose(0)
				x.mobs = append(x.mobs, mobs{obs: obs{Died: true, Why: "interrupted start-up: " + short(derr.Error())}})
				res.plan.Ops = res.plan.Ops[:i+1]
				return res
			}
			if io.Complete { // nobody saw the cancellation: an ordinary start
				o := x.mobserve()
				x.mobs = append(x.mobs, o)
				if o.Died {
					res.plan.Ops = res.plan.Ops[:i+1]
					return
				}
				continue
			}
			x.mobs = append(x.mobs, mobs{obs: obs{Intr: io}})
			res.nintr++
		case "restart", "restartcrash":
			if x.child != nil { // kill: everything written so far stays
				if _, _, err := x.mclose(len(x.calls)); err != nil {
					return fail(err)
				}
			}
			if err := x.start(); err != nil {
				return fail(err)
			}
			oerr := x.open()
			if oerr != nil {
				x.mclose(0)
				return died(i, short(oerr.Error()))
			}
			if op.Kind == "restartcrash" {
				tr, wins, err := x.mclose(0)
				if err != nil {
					return fail(err)
				}
				w := wins[0]
				if op.J < 0 || op.J > len(w.ops) {
					op.J = x.r.Intn(len(w.ops) + 1)
				}
				if !(op.J < len(w.ops) && w.ops[op.J].sw) {
					op.Torn = false
				}
				op.CutV = make([]int, len(x.ords))
				for _, o := range w.ops[:op.J] {
					if !o.sync && o.frac >= 0 {
						op.CutV[o.frac]++
					}
				}
				st := x.crashState(tr, w, op.J, op.Torn, op.PL)
				x.crashed = true
				if err := x.newDir(st); err != nil {
					return fail(err)
				}
				continue
			}
			o := x.mobserve()
			x.mobs = append(x.mobs, o)
			if o.Died {
				res.plan.Ops = res.plan.Ops[:i+1]
				return
			}
			if x.rotated && x.crashed {
				res.ntriv = true
			}
		}
	}
	if x.child != nil {
		if _, _, err := x.mclose(len(x.calls)); err != nil {
			return fail(err)
		}
	}
	return res
}

func coqBulks(sb *strings.Builder, res *result) {
	sb.WriteString("[")
	for i, b := range res.plan.Bulks {
		if i > 0 {
			sb.WriteString("; ")
		}
		bb := res.bulks[i]
		sb.WriteString("Bulk [")
		for j, d := range b {
			if j > 0 {
				sb.WriteString("; ")
			}
			toks := make([]int, len(d.Toks))
			copy(toks, d.Toks)
			fmt.Fprintf(sb, "Doc %d %s %s", d.ID, casefile.Bytes([]byte(d.Body)), casefile.NList(toks))
		}
		fmt.Fprintf(sb, "] %s %d %s %d", casefile.Bytes(bb.dpay), bb.draw, casefile.Bytes(bb.mpay), bb.mraw)
	}
	sb.WriteString("]")
}

func coqCaseMulti(res *result) (string, bool) {
	kept := res.plan.Ops[:0:0]
	for _, o := range res.plan.Ops {
		if o.Kind != "skip" {
			kept = append(kept, o)
		}
	}
	res.plan.Ops = kept
	for _, o := range res.plan.Ops {
		if (o.Kind == "bulk" || o.Kind == "crashin") && !res.bulks[o.Bulk].known {
			return "", false
		}
	}
	var sb strings.Builder
	sb.WriteString("CMulti ")
	coqBulks(&sb, res)
	sb.WriteString(" [")
	for i, o := range res.plan.Ops {
		if i > 0 {
			sb.WriteString("; ")
		}
		switch o.Kind {
		case "bulk":
			fmt.Fprintf(&sb, "IMBulk %d", o.Bulk)
		case "crashin":
			fmt.Fprintf(&sb, "IMCrashIn %d %d %d %d %d", o.Bulk, o.K, o.T, o.KD, o.KM)
		case "power":
			sb.WriteString("IMPower")
		case "rotate":
			sb.WriteString("IMRotate")
		case "seal":
			sb.WriteString("IMSeal")
		case "rotatecrash":
			fmt.Fprintf(&sb, "IMRotateCrash %d", o.J)
		case "sealcrash":
			fmt.Fprintf(&sb, "IMSealCrash %d %s %s", o.J, casefile.Bool(o.Torn), casefile.Bool(o.PL))
		case "restart":
			sb.WriteString("IMRestart")
		case "restartcrash":
			fmt.Fprintf(&sb, "IMRestartCrash %s %s %s", natList(o.CutV), casefile.Bool(o.Torn), casefile.Bool(o.PL))
		case "startintr":
			fmt.Fprintf(&sb, "IMStartIntr %d", o.K)
		}
	}
	sb.WriteString("] [")
	for i, o := range res.mobs {
		if i > 0 {
			sb.WriteString("; ")
		}
		if o.Died {
			sb.WriteString("IMDied")
			continue
		}
		if o.Intr != nil {
			sb.WriteString("IMIntr [")
			for j, c := range o.Intr.Files {
				if j > 0 {
					sb.WriteString("; ")
				}
				sb.WriteString(c.coq())
			}
			sb.WriteString("]")
			continue
		}
		sb.WriteString("IMUp [")
		ids := make([]int, 0, len(o.Fetches))
		for id := range o.Fetches {
			ids = append(ids, id)
		}
		sort.Ints(ids)
		for j, id := range ids {
			if j > 0 {
				sb.WriteString("; ")
			}
			f := o.Fetches[id]
			switch {
			case f == "absent":
				fmt.Fprintf(&sb, "(%d%%N, Absent)", id)
			case strings.HasPrefix(f, "err:"):
				fmt.Fprintf(&sb, "(%d%%N, FetchErr)", id)
			default:
				b, _ := hex.DecodeString(f)
				fmt.Fprintf(&sb, "(%d%%N, Body %s)", id, casefile.Bytes(b))
			}
		}
		sb.WriteString("] [")
		ts := make([]int, 0, len(o.Searches))
		for t := range o.Searches {
			ts = append(ts, t)
		}
		sort.Ints(ts)
		for j, t := range ts {
			if j > 0 {
				sb.WriteString("; ")
			}
			xs := o.Searches[t]
			pos := make([]int, 0, len(xs))
			for _, v := range xs {
				if v < 0 {
					v = 999999
				}
				pos = append(pos, v)
			}
			sort.Ints(pos)
			fmt.Fprintf(&sb, "(%d%%N, %s)", t, casefile.NList(pos))
		}
		sb.WriteString("] [")
		for j, f := range o.Fracs {
			if j > 0 {
				sb.WriteString("; ")
			}
			fmt.Fprintf(&sb, "(%d, (%s, %s))", f.Ord, casefile.Bool(f.Sealed), casefile.Bool(f.Writable))
		}
		sb.WriteString("]")
	}
	sb.WriteString("] [")
	sb.WriteString(strings.Join(res.mops, "; "))
	sb.WriteString("]")
	return sb.String(), true
}

// ---------------------------------------------------------------------------- generators

// random multi-fraction history: rounds of (bulks / rotations / seals, a way to die, maybe a
// crashed start-up, start)
func (g *gen) multiHistory(maxRounds int) Plan {
	p := Plan{Class: "multi-random", Seed: g.r.U64(), Multi: true}
	p.Ops = append(p.Ops, POp{Kind: "restart"})
	rounds := g.r.Range(1, maxRounds)
	var tried []int
	newBulk := func() int {
		p.Bulks = append(p.Bulks, g.bulk(3))
		return len(p.Bulks) - 1
	}
	hasDocs, pending := false, 0
	for rd := 0; rd < rounds; rd++ {
		n := g.r.Range(1, 4)
		for j := 0; j < n; j++ {
			switch c := g.r.Intn(10); {
			case c < 5 || (rd == 0 && j == 0):
				bi := -1
				if len(tried) > 0 && g.r.Chance(1, 3) {
					k := g.r.Intn(len(tried))
					bi = tried[k]
					tried = append(tried[:k], tried[k+1:]...)
				} else {
					bi = newBulk()
				}
				p.Ops = append(p.Ops, POp{Kind: "bulk", Bulk: bi})
				hasDocs = true
			case c < 8:
				p.Ops = append(p.Ops, POp{Kind: "rotate"})
				if hasDocs {
					pending++
				}
				hasDocs = false
			default:
				p.Ops = append(p.Ops, POp{Kind: "seal"})
				if pending > 0 {
					pending--
				}
			}
		}
		switch c := g.r.Intn(20); {
		case c < 2: // kill
		case c < 4:
			p.Ops = append(p.Ops, POp{Kind: "power"})
		case c < 8:
			bi := -1
			if len(tried) > 0 && g.r.Chance(1, 4) {
				bi = tried[g.r.Intn(len(tried))]
			} else {
				bi = newBulk()
				tried = append(tried, bi)
			}
			p.Ops = append(p.Ops, POp{Kind: "crashin", Bulk: bi, K: g.r.Intn(5), T: -1, KD: -1, KM: -1})
		case c < 11:
			if !hasDocs {
				p.Ops = append(p.Ops, POp{Kind: "bulk", Bulk: newBulk()})
			}
			p.Ops = append(p.Ops, POp{Kind: "rotatecrash", J: -1})
		default:
			if pending == 0 {
				if !hasDocs {
					p.Ops = append(p.Ops, POp{Kind: "bulk", Bulk: newBulk()})
				}
				p.Ops = append(p.Ops, POp{Kind: "rotate"})
				if g.r.Bool() {
					p.Ops = append(p.Ops, POp{Kind: "bulk", Bulk: newBulk()})
				}
			}
			p.Ops = append(p.Ops, POp{Kind: "sealcrash", J: -1, Torn: g.r.Bool(), PL: g.r.Bool()})
		}
		if g.r.Chance(1, 3) {
			p.Ops = append(p.Ops, POp{Kind: "restartcrash", J: -1, Torn: g.r.Bool(), PL: g.r.Bool()})
		}
		if g.r.Chance(1, 3) { // SIGTERM while the loader replays the unsealed fractions
			p.Ops = append(p.Ops, POp{Kind: "startintr", K: -1})
			if g.r.Chance(1, 3) {
				p.Ops = append(p.Ops, POp{Kind: "startintr", K: -1 - g.r.Intn(2)})
			}
		}
		p.Ops = append(p.Ops, POp{Kind: "restart"})
		hasDocs, pending = false, 0
	}
	return p
}

// designed shapes: a crash at operation j of a seal (torn write / power loss), start, further
// ingestion, rotation and seal, start
func (g *gen) multiSealWitness(j int, torn, pl bool) Plan {
	g2 := &gen{r: rng.New(78)}
	p := Plan{Class: fmt.Sprintf("multi-seal-crash-j%d", j), Seed: g.r.U64(), Multi: true}
	p.Bulks = [][]PDoc{g2.bulk(2), g2.bulk(2), g2.bulk(2)}
	p.Ops = []POp{{Kind: "restart"}, {Kind: "bulk", Bulk: 0}, {Kind: "rotate"}, {Kind: "bulk", Bulk: 1},
		{Kind: "sealcrash", J: j, Torn: torn, PL: pl}, {Kind: "restart"}, {Kind: "bulk", Bulk: 2}, {Kind: "rotate"},
		{Kind: "seal"}, {Kind: "seal"}, {Kind: "restart"}}
	return p
}

// both forms present (crash between the .index rename and the removal of .meta/.docs), then a crash
// inside the start-up that cleans up, then a start
func (g *gen) multiBothForms(sj, rj int) Plan {
	g2 := &gen{r: rng.New(79)}
	p := Plan{Class: "multi-both-forms", Seed: g.r.U64(), Multi: true}
	p.Bulks = [][]PDoc{g2.bulk(2), g2.bulk(2)}
	p.Ops = []POp{{Kind: "restart"}, {Kind: "bulk", Bulk: 0}, {Kind: "rotate"},
		{Kind: "sealcrash", J: sj, PL: true}, {Kind: "restartcrash", J: rj}, {Kind: "restart"},
		{Kind: "bulk", Bulk: 1}, {Kind: "restart"}}
	return p
}

// two unsealed fractions at a start: the start-up itself seals the older one; crash inside it
func (g *gen) multiStartupSeal(rj int, torn, pl bool) Plan {
	g2 := &gen{r: rng.New(80)}
	p := Plan{Class: "multi-startup-seal", Seed: g.r.U64(), Multi: true}
	p.Bulks = [][]PDoc{g2.bulk(2), g2.bulk(2), g2.bulk(1)}
	p.Ops = []POp{{Kind: "restart"}, {Kind: "bulk", Bulk: 0}, {Kind: "rotate"}, {Kind: "bulk", Bulk: 1}}
	if g.r.Bool() {
		p.Ops = append(p.Ops, POp{Kind: "power"})
	}
	if rj >= 0 {
		p.Ops = append(p.Ops, POp{Kind: "restartcrash", J: rj, Torn: torn, PL: pl})
	}
	p.Ops = append(p.Ops, POp{Kind: "restart"}, POp{Kind: "bulk", Bulk: 2}, POp{Kind: "restart"})
	return p
}

// crash inside a rotation at every operation boundary
func (g *gen) multiRotateWitness(j int) Plan {
	g2 := &gen{r: rng.New(81)}
	p := Plan{Class: "multi-rotate-crash", Seed: g.r.U64(), Multi: true}
	p.Bulks = [][]PDoc{g2.bulk(2), g2.bulk(2)}
	p.Ops = []POp{{Kind: "restart"}, {Kind: "bulk", Bulk: 0}, {Kind: "rotatecrash", J: j}, {Kind: "restart"},
		{Kind: "bulk", Bulk: 1}, {Kind: "rotate"}, {Kind: "seal"}, {Kind: "restart"}}
	return p
}

// two or three unsealed fractions (2 + 1 (+ 1) meta blocks: 3 + 2 (+ 2) polls) at a start-up that is interrupted
// after k polls: before / inside / after the replay of each of them (k = all polls: nobody sees the cancellation);
// variant bit 0: a third fraction, bit 1: power loss instead of a kill; then a start, a bulk, an interrupted
// start-up at a random poll, a start
func (g *gen) multiIntr(k, variant int) Plan {
	g2 := &gen{r: rng.New(83)}
	p := Plan{Class: "multi-intr", Seed: g.r.U64(), Multi: true}
	p.Bulks = [][]PDoc{g2.bulk(2), g2.bulk(2), g2.bulk(2), g2.bulk(2), g2.bulk(1)}
	p.Ops = []POp{{Kind: "restart"}, {Kind: "bulk", Bulk: 0}, {Kind: "bulk", Bulk: 1}, {Kind: "rotate"}, {Kind: "bulk", Bulk: 2}}
	if variant&1 != 0 {
		p.Ops = append(p.Ops, POp{Kind: "rotate"}, POp{Kind: "bulk", Bulk: 3})
	}
	if variant&2 != 0 {
		p.Ops = append(p.Ops, POp{Kind: "power"})
	}
	p.Ops = append(p.Ops, POp{Kind: "startintr", K: k}, POp{Kind: "restart"}, POp{Kind: "bulk", Bulk: 4},
		POp{Kind: "startintr", K: -1}, POp{Kind: "restart"})
	return p
}

// an interrupted start-up that has clean-up to do before it is cancelled: the leftover .meta/.docs of a sealed
// fraction (crash after the .index rename), a rotated-in fraction that holds nothing, a torn meta tail in the
// fraction replayed first
func (g *gen) multiIntrCleanup(k, variant int) Plan {
	g2 := &gen{r: rng.New(84)}
	p := Plan{Class: "multi-intr-cleanup", Seed: g.r.U64(), Multi: true}
	p.Bulks = [][]PDoc{g2.bulk(2), g2.bulk(2), g2.bulk(2), g2.bulk(1)}
	switch variant {
	case 0: // both forms of fraction 0, fraction 1 unsealed
		p.Ops = []POp{{Kind: "restart"}, {Kind: "bulk", Bulk: 0}, {Kind: "rotate"}, {Kind: "bulk", Bulk: 1},
			{Kind: "sealcrash", J: 8, PL: true}}
	case 1: // fraction 0 unsealed, fraction 1 holds nothing
		p.Ops = []POp{{Kind: "restart"}, {Kind: "bulk", Bulk: 0}, {Kind: "rotate"}, {Kind: "power"}}
	default: // torn meta tail in fraction 0 ... cannot be followed by a rotation: a single fraction with a tail
		p.Ops = []POp{{Kind: "restart"}, {Kind: "bulk", Bulk: 0}, {Kind: "crashin", Bulk: 1, K: 2, T: -1, KD: -1, KM: -1}}
	}
	p.Ops = append(p.Ops, POp{Kind: "startintr", K: k}, POp{Kind: "restart"}, POp{Kind: "bulk", Bulk: 2}, POp{Kind: "rotate"},
		POp{Kind: "bulk", Bulk: 3}, POp{Kind: "startintr", K: -1}, POp{Kind: "restart"})
	return p
}

func multiPlans(g *gen, thorough bool) []Plan {
	var plans []Plan
	for variant := 0; variant < 4; variant++ {
		total := 5
		if variant&1 != 0 {
			total = 7
		}
		for k := 0; k <= total; k++ {
			if thorough || g.r.Chance(1, 4) {
				plans = append(plans, g.multiIntr(k, variant))
			}
		}
	}
	for variant := 0; variant < 3; variant++ {
		for k := 0; k <= 3; k++ {
			if thorough || k == variant+1 || g.r.Chance(1, 4) { // k = variant+1: the clean-up has happened when the cancellation is seen
				plans = append(plans, g.multiIntrCleanup(k, variant))
			}
		}
	}
	for j := 0; j <= 11; j++ {
		if thorough {
			for _, pl := range []bool{false, true} {
				plans = append(plans, g.multiSealWitness(j, false, pl))
				if j == 2 || j == 5 {
					plans = append(plans, g.multiSealWitness(j, true, pl))
				}
			}
			continue
		}
		plans = append(plans, g.multiSealWitness(j, false, g.r.Bool()))
		if j == 2 || j == 5 {
			plans = append(plans, g.multiSealWitness(j, true, g.r.Bool()))
		}
	}
	for _, sj := range []int{8, 9, 10} {
		for rj := 0; rj <= 2; rj++ {
			if thorough || g.r.Chance(1, 2) {
				plans = append(plans, g.multiBothForms(sj, rj))
			}
		}
	}
	plans = append(plans, g.multiStartupSeal(-1, false, false))
	for rj := 0; rj <= 17; rj++ {
		if thorough {
			plans = append(plans, g.multiStartupSeal(rj, false, false), g.multiStartupSeal(rj, true, true))
		} else if g.r.Chance(1, 2) {
			plans = append(plans, g.multiStartupSeal(rj, g.r.Bool(), g.r.Bool()))
		}
	}
	for j := 0; j <= 4; j++ {
		plans = append(plans, g.multiRotateWitness(j))
	}
	n, rounds := 36, 3
	if thorough {
		n, rounds = 300, 5
	}
	for i := 0; i < n; i++ {
		g.nextID = 0
		plans = append(plans, g.multiHistory(rounds))
	}
	return plans
}

func multiProbe() {
	dir, _ := os.MkdirTemp("", "hC01-mprobe-")
	defer os.RemoveAll(dir)
	g := &gen{r: rng.New(5)}
	res := execMulti(g.multiSealWitness(9, false, false), dir)
	fmt.Println("err:", res.err)
	term, ok := coqCaseMulti(res)
	fmt.Println(ok, term)
}

var _ = errors.New
