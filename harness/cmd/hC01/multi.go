// Multi-fraction histories of property C01: rotation, sealing, crashes inside them and inside the
// start-up over several fractions. See props/C01/coq/ModelMulti.v.
package main

import (
	"encoding/json"
	"fmt"
	"os"

	"github.com/ozontech/seq-db/fracmanager"

	"verif/harness/internal/storectl"
)

type mResp struct {
	Done  bool                       `json:"done"`
	Fracs []fracmanager.VerifC01Frac `json:"fracs"`
}

func init() {
	storectl.Register("mrotate", func(c *storectl.Child, r storectl.Req) (storectl.Resp, error) {
		ok := c.FM.VerifC01Rotate()
		b, _ := json.Marshal(mResp{Done: ok, Fracs: c.FM.VerifC01Fracs()})
		return storectl.Resp{Extra: b}, nil
	})
	storectl.Register("mseal", func(c *storectl.Child, r storectl.Req) (storectl.Resp, error) {
		ok := c.FM.VerifC01SealOldest()
		b, _ := json.Marshal(mResp{Done: ok, Fracs: c.FM.VerifC01Fracs()})
		return storectl.Resp{Extra: b}, nil
	})
	storectl.Register("mfracs", func(c *storectl.Child, r storectl.Req) (storectl.Resp, error) {
		b, _ := json.Marshal(mResp{Done: true, Fracs: c.FM.VerifC01Fracs()})
		return storectl.Resp{Extra: b}, nil
	})
}

func multiProbe() {
	dir, _ := os.MkdirTemp("", "hC01-mprobe-")
	defer os.RemoveAll(dir)
	data := dir + "/data"
	os.MkdirAll(data, 0o755)
	st, err := storectl.Start(data)
	if err != nil {
		panic(err)
	}
	call := func(r storectl.Req) storectl.Resp {
		x, err := st.Call(r)
		if err != nil {
			panic(err)
		}
		fmt.Println("  ->", r.Op, string(x.Extra))
		return x
	}
	doc := func(id uint64, body string) storectl.Doc {
		return storectl.Doc{MID: 1000 + id, RID: id + 1, BodyHex: fmt.Sprintf("%x", body), Tokens: []string{"k:v1"}}
	}
	call(storectl.Req{Op: "open", Dir: data})
	call(storectl.Req{Op: "bulk", Docs: []storectl.Doc{doc(1, `{"a":"x"}`)}})
	call(storectl.Req{Op: "mrotate"})
	call(storectl.Req{Op: "bulk", Docs: []storectl.Doc{doc(2, `{"a":"y"}`)}})
	call(storectl.Req{Op: "mseal"})
	call(storectl.Req{Op: "mrotate"})
	tr, err := st.Close()
	if err != nil {
		panic(err)
	}
	for i, o := range tr.Ops {
		fmt.Println(i, o)
	}
	fmt.Println("verify:", tr.Verify())
	// restart on the final state (an unsealed fraction + an empty active one)
	st, _ = storectl.Start(data)
	call(storectl.Req{Op: "open", Dir: data})
	call(storectl.Req{Op: "mfracs"})
	tr, _ = st.Close()
	for i, o := range tr.Ops {
		fmt.Println(i, o)
	}
}
