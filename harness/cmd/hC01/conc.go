// Concurrent bulks: the child-side operation "cbulk" (several bulks handed to the real
// FracManager.Append from goroutines, with a start stagger), the (Ext1, Ext2) walk over a real
// .meta file, and the stream of big concurrent trials that is checked directly (the documents are
// far too large for Coq terms).
package main

import (
	"context"
	"encoding/binary"
	"encoding/hex"
	"encoding/json"
	"errors"
	"fmt"
	"os"
	"path/filepath"
	"sync"
	"time"

	"github.com/ozontech/seq-db/frac"
	"github.com/ozontech/seq-db/seq"

	"verif/harness/internal/casefile"
	"verif/harness/internal/fracbuild"
	"verif/harness/internal/rng"
	"verif/harness/internal/storectl"
)

// GenSpec describes documents generated on both sides from a seed (big bulks never travel as JSON).
type GenSpec struct {
	Seed    uint64 `json:"seed"`
	N       int    `json:"n"`
	MinLen  int    `json:"min_len"`
	MaxLen  int    `json:"max_len"`
	FirstID int    `json:"first_id"`
}

func (g GenSpec) docs() []PDoc {
	r := rng.New(g.Seed)
	const al = "abcdefghijklmnopqrstuvwxyzABCDEFGHIJKLMNOPQRSTUVWXYZ0123456789"
	out := make([]PDoc, g.N)
	for i := range out {
		n := r.Range(g.MinLen, g.MaxLen)
		b := make([]byte, n)
		for j := range b {
			b[j] = al[r.Intn(len(al))]
		}
		out[i] = PDoc{ID: g.FirstID + i, Body: fmt.Sprintf(`{"a":"%s"}`, b), Toks: []int{1 + i%5}}
	}
	return out
}

type cbulkReq struct {
	Bulks     [][]PDoc  `json:"bulks,omitempty"`
	Gens      []GenSpec `json:"gens,omitempty"` // used instead of Bulks when set
	StaggerUs []int     `json:"stagger_us"`
}

func init() {
	storectl.Register("cbulk", func(c *storectl.Child, r storectl.Req) (storectl.Resp, error) {
		var q cbulkReq
		if err := json.Unmarshal(r.Extra, &q); err != nil {
			return storectl.Resp{}, err
		}
		bulks := q.Bulks
		if len(q.Gens) > 0 {
			bulks = nil
			for _, g := range q.Gens {
				bulks = append(bulks, g.docs())
			}
		}
		// compress first, so that the goroutines below only run the store's append path
		type blk struct{ docs, metas []byte }
		blks := make([]blk, len(bulks))
		for i, b := range bulks {
			dp := frac.NewDocProvider()
			for _, d := range b {
				toks := make([]string, len(d.Toks))
				for k, t := range d.Toks {
					toks[k] = fmt.Sprintf("k:v%d", t)
				}
				ts := fracbuild.Tokens(toks)
				ts = append(ts, seq.Token{Field: []byte(seq.TokenAll), Val: []byte{}})
				dp.Append([]byte(d.Body), nil, seq.ID{MID: seq.MID(d.mid()), RID: seq.RID(d.rid())}, ts)
			}
			dd, mm := dp.Provide()
			blks[i] = blk{append([]byte(nil), dd...), append([]byte(nil), mm...)}
		}
		errs := make([]error, len(blks))
		var wg sync.WaitGroup
		start := make(chan struct{})
		for i := range blks {
			wg.Add(1)
			go func(i int) {
				defer wg.Done()
				<-start
				if i < len(q.StaggerUs) && q.StaggerUs[i] > 0 {
					t0 := time.Now()
					for time.Since(t0) < time.Duration(q.StaggerUs[i])*time.Microsecond {
					}
				}
				errs[i] = c.FM.Append(context.Background(), blks[i].docs, blks[i].metas)
			}(i)
		}
		close(start)
		wg.Wait()
		c.FM.WaitIdle()
		return storectl.Resp{}, errors.Join(errs...)
	})
}

// metaExts walks a .meta file block by block: (Ext1, Ext2) of every complete block, in file order.
func metaExts(b []byte) [][2]uint64 {
	var out [][2]uint64
	for pos := 0; pos+33 <= len(b); {
		l := binary.LittleEndian.Uint64(b[pos+1:])
		if l > uint64(len(b)) || pos+33+int(l) > len(b) {
			break
		}
		out = append(out, [2]uint64{binary.LittleEndian.Uint64(b[pos+17:]), binary.LittleEndian.Uint64(b[pos+25:])})
		pos += 33 + int(l)
	}
	return out
}

// chainBreak returns the index of the first meta block whose recorded docs offset (Ext2) differs
// from the sum of the Ext1 of the blocks before it, or -1.
func chainBreak(ex [][2]uint64) int {
	sum := uint64(0)
	for i, e := range ex {
		if e[1] != sum {
			return i
		}
		sum += e[0]
	}
	return -1
}

// ---------------------------------------------------------------------------- big trials

type bigTrial struct {
	Gens      []GenSpec `json:"bulks"`
	StaggerUs []int     `json:"stagger_us"`
}

func genBigTrial(r *rng.R, thorough bool) bigTrial {
	maxN := 2500
	if thorough {
		maxN = 6000
	}
	big := GenSpec{Seed: r.U64(), N: r.Range(600, maxN), MinLen: 200, MaxLen: r.Range(400, 1500), FirstID: 1}
	small := GenSpec{Seed: r.U64(), N: 1, MinLen: 1, MaxLen: 8, FirstID: 100001}
	t := bigTrial{Gens: []GenSpec{big, small}, StaggerUs: []int{0, r.Intn(600)}}
	if r.Chance(1, 3) {
		t.Gens = append(t.Gens, GenSpec{Seed: r.U64(), N: r.Range(20, 200), MinLen: 50, MaxLen: 300, FirstID: 200001})
		t.StaggerUs = append(t.StaggerUs, r.Intn(600))
	}
	return t
}

// runBigTrial: fresh store, the bulks concurrently, (Ext1,Ext2) walk over the real .meta file,
// restart, fetch of every acknowledged document. Returns a violation (fingerprint, what) or "".
func runBigTrial(t bigTrial, tmp string) (fp, what string, detail any, herr error) {
	root, err := os.MkdirTemp(tmp, "hC01-big-")
	if err != nil {
		return "", "", nil, err
	}
	defer os.RemoveAll(root)
	dir := filepath.Join(root, "data")
	os.MkdirAll(dir, 0o755)
	st, err := storectl.Start("")
	if err != nil {
		return "", "", nil, err
	}
	kill := func(s *storectl.Store) { s.Kill(); s.Close() }
	if _, err := st.Call(storectl.Req{Op: "open", Dir: dir}); err != nil {
		kill(st)
		return "", "", nil, fmt.Errorf("open of an empty directory failed: %v", err)
	}
	extra, _ := json.Marshal(cbulkReq{Gens: t.Gens, StaggerUs: t.StaggerUs})
	if _, err := st.Call(storectl.Req{Op: "cbulk", Extra: extra}); err != nil {
		kill(st)
		return "c01-concurrent-bulk-failed", "concurrent bulks: the store refused or died: " + short(err.Error()), nil, nil
	}
	var exts [][2]uint64
	ms, _ := filepath.Glob(filepath.Join(dir, "*.meta"))
	for _, m := range ms {
		if b, err := os.ReadFile(m); err == nil {
			exts = append(exts, metaExts(b)...)
		}
	}
	st.Close() // exit without Stop: equivalent to a kill after the acknowledgements
	if len(exts) != len(t.Gens) {
		return "", "", nil, fmt.Errorf("%d meta blocks for %d bulks", len(exts), len(t.Gens))
	}
	if i := chainBreak(exts); i >= 0 {
		fp, what, detail = "c01-concurrent-meta-order", fmt.Sprintf("concurrent bulks: meta block %d records docs offset %d but the "+
			"blocks before it sum to a different offset (meta order differs from docs order): replay will read another bulk's block",
			i, exts[i][1]), exts
	}
	// restart and fetch every acknowledged document
	st2, err := storectl.Start("")
	if err != nil {
		return fp, what, detail, err
	}
	defer st2.Close()
	if _, err := st2.Call(storectl.Req{Op: "open", Dir: dir}); err != nil {
		return "c01-concurrent-restart-died", "after concurrent acknowledged bulks the store does not come back up: " + short(err.Error()), exts, nil
	}
	for _, g := range t.Gens {
		docs := g.docs()
		for lo := 0; lo < len(docs); lo += 400 {
			hi := min(lo+400, len(docs))
			ids := make([][2]uint64, 0, hi-lo)
			for _, d := range docs[lo:hi] {
				ids = append(ids, [2]uint64{d.mid(), d.rid()})
			}
			r, err := st2.Call(storectl.Req{Op: "fetch", IDs: ids})
			if err != nil {
				return "c01-concurrent-acked-unreadable", fmt.Sprintf("after concurrent acknowledged bulks and a restart, fetch of documents %d..%d fails: %s",
					docs[lo].ID, docs[hi-1].ID, short(err.Error())), exts, nil
			}
			for k, d := range docs[lo:hi] {
				got := ""
				if k < len(r.DocsHex) {
					got = r.DocsHex[k]
				}
				if got != hex.EncodeToString([]byte(d.Body)) {
					return "c01-concurrent-acked-corrupt", fmt.Sprintf("after concurrent acknowledged bulks and a restart, document %d is "+
						"returned with %d bytes that are not its own (%d expected)", d.ID, len(got)/2, len(d.Body)), exts, nil
				}
			}
		}
	}
	return fp, what, detail, nil
}

func extsCoq(ex [][][2]uint64) string {
	s := "["
	for i, seg := range ex {
		if i > 0 {
			s += "; "
		}
		s += "["
		for j, e := range seg {
			if j > 0 {
				s += "; "
			}
			s += fmt.Sprintf("(%d%%N, %d%%N)", e[0], e[1])
		}
		s += "]"
	}
	return s + "]"
}

var _ = casefile.Bool
