package main

import (
	"encoding/hex"
	"encoding/json"
	"fmt"
	"os"

	"verif/harness/internal/rng"
	"verif/harness/internal/storectl"
)

// faultProbe: manual exploration of what the real store leaves behind after a failed write.
func faultProbe(file string, cut int) {
	root, _ := os.MkdirTemp("", "hC01-probe-")
	defer os.RemoveAll(root)
	dir := root + "/data"
	os.MkdirAll(dir, 0o755)
	g := &gen{r: rng.New(5)}
	b1, b2, b3 := g.bulk(2), g.bulk(2), g.bulk(2)
	st, _ := storectl.Start(dir)
	call := func(s *storectl.Store, op string, q faultReq) {
		e, _ := json.Marshal(q)
		r, err := s.Call(storectl.Req{Op: op, Extra: e})
		fmt.Println(op, "->", string(r.Extra), err)
	}
	fmt.Println(st.Call(storectl.Req{Op: "open", Dir: dir}))
	call(st, "xbulk", faultReq{Docs: b1})
	call(st, "fbulk", faultReq{Docs: b2, File: file, Cut: cut})
	call(st, "xbulk", faultReq{Docs: b3})
	show := func(s *storectl.Store) {
		for _, b := range [][]PDoc{b1, b2, b3} {
			for _, d := range b {
				r, err := s.Call(storectl.Req{Op: "fetch", IDs: [][2]uint64{{d.mid(), d.rid()}}})
				got := ""
				if len(r.DocsHex) > 0 {
					x, _ := hex.DecodeString(r.DocsHex[0])
					got = string(x)
				}
				fmt.Printf("  doc %d want %q got %q err=%v\n", d.ID, d.Body, got, err)
			}
		}
	}
	show(st)
	tr, err := st.Close()
	fmt.Println("close:", err)
	for _, o := range tr.Ops {
		if fileKind(o.Path) != "" {
			fmt.Println("  ", o)
		}
	}
	st2, _ := storectl.Start("")
	_, err = st2.Call(storectl.Req{Op: "open", Dir: dir})
	fmt.Println("reopen:", err)
	if err == nil {
		show(st2)
	}
	st2.Close()
}
