// I/O faults on the write path: child-side operations that make ONE write of the active
// fraction's .docs or .meta file fail with a real EFBIG from the kernel (RLIMIT_FSIZE, SIGXFSZ
// ignored), through the real FracManager.Append.
//
//	xbulk {docs}                 one bulk, acknowledged, then FracManager.WaitIdle
//	fbulk {docs, file, cut}      one Append ATTEMPT under a file-size limit chosen so that the write
//	                             to `file` (docs|meta) stops after `cut` bytes; answers {acked, err}
//
// The child tracks the writer offsets itself (file sizes right after open; every acknowledged bulk
// advances them, a failed one is rolled back), so that the limit can be placed exactly.
package main

import (
	"context"
	"encoding/hex"
	"encoding/json"
	"fmt"
	"os"
	"os/signal"
	"sync"
	"syscall"
	"time"

	"github.com/ozontech/seq-db/frac"
	"github.com/ozontech/seq-db/seq"

	"verif/harness/internal/fracbuild"
	"verif/harness/internal/storectl"
)

type faultReq struct {
	Docs []PDoc `json:"docs"`
	File string `json:"file,omitempty"` // docs | meta
	Cut  int    `json:"cut,omitempty"`  // bytes of the failing write that still reach the file
}

type faultResp struct {
	Acked bool   `json:"acked"`
	Err   string `json:"err,omitempty"`
	LD    int    `json:"ld"`
	LM    int    `json:"lm"`
	OffD  int64  `json:"off_d"` // writer offsets assumed before the attempt
	OffM  int64  `json:"off_m"`
	Limit int64  `json:"limit,omitempty"`
	DHex  string `json:"d_hex,omitempty"` // the two blocks as handed to Append (fbulk only)
	MHex  string `json:"m_hex,omitempty"`
}

// onceCtx lets FracManager.Append make exactly n attempts: its retry loop asks Done() before each.
type onceCtx struct {
	context.Context
	left   int
	closed chan struct{}
	open   chan struct{}
}

func newOnceCtx(n int) *onceCtx {
	c := &onceCtx{Context: context.Background(), left: n, closed: make(chan struct{}), open: make(chan struct{})}
	close(c.closed)
	return c
}
func (c *onceCtx) Done() <-chan struct{} {
	if c.left > 0 {
		c.left--
		return c.open
	}
	return c.closed
}
func (c *onceCtx) Err() error { return context.Canceled }

var (
	trkInit    bool
	trkD, trkM int64
	trkBase    string
)

func track(c *storectl.Child) {
	base := c.FM.Active().Info().Path
	if trkInit && base == trkBase {
		return
	}
	trkInit, trkBase = true, base
	trkD, trkM = 0, 0
	if fi, err := os.Stat(base + ".docs"); err == nil {
		trkD = fi.Size()
	}
	if fi, err := os.Stat(base + ".meta"); err == nil {
		trkM = fi.Size()
	}
}

func provide(docs []PDoc) ([]byte, []byte) {
	dp := frac.NewDocProvider()
	for _, d := range docs {
		toks := make([]string, len(d.Toks))
		for k, t := range d.Toks {
			toks[k] = fmt.Sprintf("k:v%d", t)
		}
		ts := fracbuild.Tokens(toks)
		ts = append(ts, seq.Token{Field: []byte(seq.TokenAll), Val: []byte{}})
		dp.Append([]byte(d.Body), nil, seq.ID{MID: seq.MID(d.mid()), RID: seq.RID(d.rid())}, ts)
	}
	dd, mm := dp.Provide()
	return append([]byte(nil), dd...), append([]byte(nil), mm...)
}

func waitIndexed(c *storectl.Child, want uint32) error {
	t0 := time.Now()
	for c.FM.Active().Info().DocsTotal < want {
		if time.Since(t0) > 20*time.Second {
			return fmt.Errorf("documents not indexed after 20 s (have %d, want %d)", c.FM.Active().Info().DocsTotal, want)
		}
		time.Sleep(200 * time.Microsecond)
	}
	return nil
}

func init() {
	storectl.Register("xbulk", func(c *storectl.Child, r storectl.Req) (storectl.Resp, error) {
		var q faultReq
		if err := json.Unmarshal(r.Extra, &q); err != nil {
			return storectl.Resp{}, err
		}
		track(c)
		dd, mm := provide(q.Docs)
		out := faultResp{LD: len(dd), LM: len(mm), OffD: trkD, OffM: trkM}
		before := c.FM.Active().Info().DocsTotal
		err := c.FM.Append(newOnceCtx(1), dd, mm)
		if err == nil {
			trkD += int64(len(dd))
			trkM += int64(len(mm))
			out.Acked = true
			_ = before
			c.FM.WaitIdle() // works after a failed append since commit b41979b
		} else {
			out.Err = err.Error()
		}
		b, _ := json.Marshal(out)
		return storectl.Resp{Extra: b}, nil
	})
	storectl.Register("fbulk", func(c *storectl.Child, r storectl.Req) (storectl.Resp, error) {
		var q faultReq
		if err := json.Unmarshal(r.Extra, &q); err != nil {
			return storectl.Resp{}, err
		}
		track(c)
		dd, mm := provide(q.Docs)
		out := faultResp{LD: len(dd), LM: len(mm), OffD: trkD, OffM: trkM}
		var limit int64
		switch q.File {
		case "docs":
			limit = trkD + int64(min(q.Cut, len(dd)-1))
		case "meta":
			limit = trkM + int64(min(q.Cut, len(mm)-1))
			if need := trkD + int64(len(dd)); limit < need && need < trkM+int64(len(mm)) {
				limit = need // smallest limit that lets the docs block through
			}
			if limit < trkD+int64(len(dd)) {
				// the docs write would fail first: not the requested fault
				out.Err = "unplaceable"
				b, _ := json.Marshal(out)
				return storectl.Resp{Extra: b}, nil
			}
		default:
			return storectl.Resp{}, fmt.Errorf("fbulk: file %q", q.File)
		}
		out.Limit = limit
		out.DHex, out.MHex = hex.EncodeToString(dd), hex.EncodeToString(mm)
		signal.Ignore(syscall.SIGXFSZ)
		var old syscall.Rlimit
		if err := syscall.Getrlimit(syscall.RLIMIT_FSIZE, &old); err != nil {
			return storectl.Resp{}, err
		}
		if err := syscall.Setrlimit(syscall.RLIMIT_FSIZE, &syscall.Rlimit{Cur: uint64(limit), Max: old.Max}); err != nil {
			return storectl.Resp{}, err
		}
		before := c.FM.Active().Info().DocsTotal
		err := c.FM.Append(newOnceCtx(1), dd, mm)
		syscall.Setrlimit(syscall.RLIMIT_FSIZE, &old)
		if err == nil {
			out.Acked = true
			trkD += int64(len(dd))
			trkM += int64(len(mm))
		} else {
			out.Err = err.Error() // rolled back: the writers stand where they stood
		}
		_ = before
		// the failed append must have released its slot in the fraction's write wait group
		c.FM.WaitIdle()
		b, _ := json.Marshal(out)
		return storectl.Resp{Extra: b}, nil
	})
}

func init() {
	// plen: lengths of the two blocks a bulk would produce (to place a fault)
	storectl.Register("plen", func(c *storectl.Child, r storectl.Req) (storectl.Resp, error) {
		var q faultReq
		if err := json.Unmarshal(r.Extra, &q); err != nil {
			return storectl.Resp{}, err
		}
		dd, mm := provide(q.Docs)
		b, _ := json.Marshal(faultResp{LD: len(dd), LM: len(mm)})
		return storectl.Resp{Extra: b}, nil
	})
}

// ---------------------------------------------------------------------------- concurrent group with a failing member

type cfReq struct {
	Bulks     [][]PDoc `json:"bulks"`
	Fail      int      `json:"fail"` // index in Bulks of the (big) bulk whose write must fail
	File      string   `json:"file"` // docs | meta (meta falls back to docs when it cannot be placed)
	Cut       int      `json:"cut"`
	StaggerUs []int    `json:"stagger_us"`
}

type cfResp struct {
	Acked []bool `json:"acked"`
	LD    []int  `json:"ld"`
	LM    []int  `json:"lm"`
	OffD  int64  `json:"off_d"`
	OffM  int64  `json:"off_m"`
	Limit int64  `json:"limit"`
	File  string `json:"file"`
	Err   string `json:"err,omitempty"`
	DHex  string `json:"d_hex,omitempty"` // blocks of the failing bulk
	MHex  string `json:"m_hex,omitempty"`
}

func init() {
	// cfbulk: the bulks concurrently (one Append attempt each) under a file-size limit that every
	// small bulk passes in any lock order and the big one exceeds in any lock order
	storectl.Register("cfbulk", func(c *storectl.Child, r storectl.Req) (storectl.Resp, error) {
		var q cfReq
		if err := json.Unmarshal(r.Extra, &q); err != nil {
			return storectl.Resp{}, err
		}
		track(c)
		type blk struct{ d, m []byte }
		blks := make([]blk, len(q.Bulks))
		out := cfResp{Acked: make([]bool, len(q.Bulks)), OffD: trkD, OffM: trkM, File: q.File}
		var sumD, sumM int64
		for i, b := range q.Bulks {
			d, m := provide(b)
			blks[i] = blk{d, m}
			out.LD, out.LM = append(out.LD, len(d)), append(out.LM, len(m))
			if i != q.Fail {
				sumD += int64(len(d))
				sumM += int64(len(m))
			}
		}
		ldB, lmB := int64(len(blks[q.Fail].d)), int64(len(blks[q.Fail].m))
		reply := func() (storectl.Resp, error) {
			b, _ := json.Marshal(out)
			return storectl.Resp{Extra: b}, nil
		}
		var limit int64 = -1
		if q.File == "meta" {
			lo := max(trkD+sumD+ldB, trkM+sumM)
			hi := trkM + lmB
			if hi > lo {
				limit = lo + min(int64(q.Cut), hi-lo-1)
			} else {
				out.File = "docs"
			}
		}
		if limit < 0 {
			if ldB <= sumD || trkD+sumD < trkM+sumM-0 && trkD+ldB <= trkM+sumM {
				out.Err = "unplaceable"
				return reply()
			}
			lo := max(trkD+sumD, trkM+sumM) // every small block passes
			hi := trkD + ldB               // the big docs block fails even when it goes first
			if hi <= lo {
				out.Err = "unplaceable"
				return reply()
			}
			limit = lo + min(int64(q.Cut), hi-lo-1)
		}
		out.Limit = limit
		out.DHex, out.MHex = hex.EncodeToString(blks[q.Fail].d), hex.EncodeToString(blks[q.Fail].m)
		signal.Ignore(syscall.SIGXFSZ)
		var old syscall.Rlimit
		if err := syscall.Getrlimit(syscall.RLIMIT_FSIZE, &old); err != nil {
			return storectl.Resp{}, err
		}
		if err := syscall.Setrlimit(syscall.RLIMIT_FSIZE, &syscall.Rlimit{Cur: uint64(limit), Max: old.Max}); err != nil {
			return storectl.Resp{}, err
		}
		var wg sync.WaitGroup
		start := make(chan struct{})
		for i := range blks {
			wg.Add(1)
			go func(i int) {
				defer wg.Done()
				<-start
				if i < len(q.StaggerUs) && q.StaggerUs[i] > 0 {
					t0 := time.Now()
					for time.Since(t0) < time.Duration(q.StaggerUs[i])*time.Microsecond {
					}
				}
				out.Acked[i] = c.FM.Append(newOnceCtx(1), blks[i].d, blks[i].m) == nil
			}(i)
		}
		close(start)
		wg.Wait()
		syscall.Setrlimit(syscall.RLIMIT_FSIZE, &old)
		c.FM.WaitIdle()
		for i := range blks {
			if out.Acked[i] {
				trkD += int64(len(blks[i].d))
				trkM += int64(len(blks[i].m))
			}
		}
		return reply()
	})
}
