// retain.go — OldestCT after a real size-retention pass (kind "retain").
//
// A real FracManager (harness/internal/fracbuild) gets NFr sealed fractions created a few milliseconds apart
// (plus the trailing active one); the retention limit is set so that one real pass of FracManager.shrinkSizes
// truncates exactly the Trunc oldest ones. Observed: the creation times in list order before the pass, how many
// fractions went away, OldestCT before and after, and the real earlierThanOldestFrac verdict (the hot store's
// wants-old refusal) for `from` values around every creation time. Creation times are wall-clock: all values are
// replaced by their rank (order preserving, 0 stays 0) — the model only compares.
package main

import (
	"fmt"
	"os"
	"sort"
	"strings"
	"time"

	realstore "github.com/ozontech/seq-db/storeapi"

	"verif/harness/internal/casefile"
	"verif/harness/internal/fracbuild"
)

type retainObs struct {
	prev, oldest uint64
	cts          []uint64
	k            int
	probes       [][2]uint64 // from, verdict
	err          string
}

func executeRetain(sc *Script, o *outcome) {
	ob := &retainObs{}
	o.ret = ob
	dir, err := os.MkdirTemp("", "hC16-retain-")
	if err != nil {
		ob.err = err.Error()
		return
	}
	defer os.RemoveAll(dir)
	fm, err := fracbuild.NewFM(dir, nil)
	if err != nil {
		ob.err = err.Error()
		return
	}
	for i := 0; i < sc.NFr; i++ {
		if err := fracbuild.Append(fm, []fracbuild.Doc{{MID: uint64(1000 + i), RID: uint64(i), Body: []byte(`{"m":"x"}`), Tokens: []string{"m:x"}}}); err != nil {
			ob.err = err.Error()
			return
		}
		time.Sleep(5 * time.Millisecond)
		fracbuild.Seal(fm)
	}
	all := fm.GetAllFracs()
	var total uint64
	for i, f := range all {
		ob.cts = append(ob.cts, f.Info().CreationTime)
		if i >= sc.Trunc {
			total += f.Info().FullSize()
		}
	}
	ob.prev = fm.OldestCT.Load()
	fm.VerifC15SetTotalSize(total)
	fm.VerifC15ShrinkSizes()
	ob.k = len(all) - len(fm.GetAllFracs())
	ob.oldest = fm.OldestCT.Load()
	froms := []uint64{0}
	for _, ct := range ob.cts {
		froms = append(froms, ct-1, ct, ct+1)
	}
	for _, f := range froms {
		v := uint64(0)
		if realstore.VerifC16EarlierThanOldestFrac(ob.oldest, f) {
			v = 1
		}
		ob.probes = append(ob.probes, [2]uint64{f, v})
	}
	fracbuild.Close(fm)
}

func recordRetain(w *casefile.Writer, sc *Script, o *outcome, input any) {
	ob := o.ret
	if ob == nil || ob.err != "" {
		fmt.Fprintln(os.Stderr, "hC16: retain script could not be set up:", ob.err)
		w.Count("retain:setup-failed")
		return
	}
	// order-preserving ranks
	vals := map[uint64]bool{}
	add := func(v uint64) {
		if v != 0 {
			vals[v] = true
		}
	}
	add(ob.prev)
	add(ob.oldest)
	for _, c := range ob.cts {
		add(c)
	}
	for _, p := range ob.probes {
		add(p[0])
	}
	var sorted []uint64
	for v := range vals {
		sorted = append(sorted, v)
	}
	sort.Slice(sorted, func(i, j int) bool { return sorted[i] < sorted[j] })
	rank := map[uint64]int{0: 0}
	for i, v := range sorted {
		rank[v] = i + 1
	}
	var cts, probes []string
	for _, c := range ob.cts {
		cts = append(cts, fmt.Sprintf("%d%%N", rank[c]))
	}
	for _, p := range ob.probes {
		probes = append(probes, fmt.Sprintf("(%d%%N, %s)", rank[p[0]], casefile.Bool(p[1] == 1)))
	}
	w.Count(fmt.Sprintf("retain:fractions=%d,truncated=%d", len(ob.cts), ob.k))
	cl := "retention-oldest-ct"
	if ob.k == 0 {
		cl = "retention-oldest-ct-nothing-truncated"
	}
	w.Add(fmt.Sprintf("CRetain %d%%N [%s] %d %d%%N [%s]", rank[ob.prev], strings.Join(cts, "; "), ob.k, rank[ob.oldest], strings.Join(probes, "; ")),
		cl, ob.k >= 1 && len(ob.cts)-ob.k >= 1, input,
		map[string]any{"creation_times_rank": cts, "truncated": ob.k, "oldest_ct_rank": rank[ob.oldest], "prev_oldest_ct_rank": rank[ob.prev]})
}

func genRetain() []*Script {
	var out []*Script
	for n := 3; n <= 5; n++ {
		for k := 0; k <= n; k++ {
			out = append(out, &Script{Kind: "retain", NFr: n, Trunc: k})
		}
	}
	return out
}
