// deadline.go — the request context expires while a search is running (kind "dl").
//
// Every store of a dl script answers its Search call only once it has been RELEASED (logical time Host.T),
// or fails with the context error as soon as its context is done — the way a gRPC client does. The driver
// runs the real entry point (Ingestor.Search with / without fetch, or a proxyapi handler) on a cancellable
// context, releases the stores one logical time step after the other and cancels the context at step D.
// All release times of a script are distinct, so at any moment at most one shard goroutine is making progress
// and the driver waits for quiescence (every running shard blocked in a store that is not released yet, or
// finished) before the next step: the run is deterministic although the code under test is concurrent.
package main

import (
	"context"
	"fmt"
	"sort"
	"sync"
	"time"

	"google.golang.org/grpc"
	"google.golang.org/grpc/status"

	"github.com/ozontech/seq-db/pkg/seqproxyapi/v1"
	"github.com/ozontech/seq-db/pkg/storeapi"

	"verif/harness/internal/casefile"
	"verif/harness/internal/rng"
)

type dlHost struct {
	release  chan struct{}
	released bool
	entered  bool
	waiting  bool
	returned bool
	ctxErr   bool // returned with the context error (did not answer)
}

type dlState struct {
	mu    sync.Mutex
	hosts map[int]*dlHost
}

func newDlState() *dlState { return &dlState{hosts: map[int]*dlHost{}} }

type dlClient struct {
	*fakeClient
	st *dlState
	h  *dlHost
}

func (st *dlState) wrap(f *fakeClient) storeapi.StoreApiClient {
	h := &dlHost{release: make(chan struct{})}
	st.hosts[f.idx] = h
	return &dlClient{fakeClient: f, st: st, h: h}
}

func (c *dlClient) Search(ctx context.Context, in *storeapi.SearchRequest, opts ...grpc.CallOption) (*storeapi.SearchResponse, error) {
	c.st.mu.Lock()
	c.h.entered = true
	if ctx.Err() != nil { // a gRPC call on a done context fails at once
		c.h.returned, c.h.ctxErr = true, true
		c.st.mu.Unlock()
		return nil, status.FromContextError(ctx.Err()).Err()
	}
	c.h.waiting = true
	c.st.mu.Unlock()
	select {
	case <-c.h.release:
	case <-ctx.Done():
		c.st.mu.Lock()
		c.h.waiting, c.h.returned, c.h.ctxErr = false, true, true
		c.st.mu.Unlock()
		return nil, status.FromContextError(ctx.Err()).Err()
	}
	resp, err := c.fakeClient.Search(ctx, in, opts...)
	c.st.mu.Lock()
	c.h.waiting, c.h.returned = false, true
	c.st.mu.Unlock()
	return resp, err
}

// tiers of a dl script as lists of host indices (same numbering as build)
func dlTiers(sc *Script) (hot, cold [][]int, behs map[int]string) {
	behs = map[int]string{}
	n := 0
	idx := func(t [][]Host) [][]int {
		var out [][]int
		for _, s := range t {
			var l []int
			for _, h := range s {
				behs[n] = h.Beh
				l = append(l, n)
				n++
			}
			out = append(out, l)
		}
		return out
	}
	h, hr, c := idx(sc.Hot), idx(sc.HotRead), idx(sc.Cold)
	if len(hr) > 0 {
		h = hr
	}
	return h, c, behs
}

// state of one shard as far as the stores have seen it: settled = blocked in a store that is not released,
// or finished; special = the verdict of a replica that answered with wants-old / too-many-fractions
func (st *dlState) shard(reps []int, behs map[int]string) (settled bool, special string, blocked bool) {
	for _, i := range reps {
		h := st.hosts[i]
		if !h.returned {
			return h.entered && h.waiting && !h.released, "", h.waiting
		}
		if h.ctxErr || behs[i] == "err" {
			continue
		}
		if behs[i] == "wantsold" || behs[i] == "toomanyfrac" {
			return true, behs[i], false
		}
		return true, "", false
	}
	return true, "", false
}

// quiescent: nothing moves any more until the driver's next step. After a special verdict the search must
// first abort the rest of its tier (and start the cold tier, or return).
func (st *dlState) quiescent(hot, cold [][]int, behs map[int]string) (ok bool, anyBlocked bool) {
	st.mu.Lock()
	defer st.mu.Unlock()
	tier := func(t [][]int) (all bool, special string, blocked bool) {
		all = true
		for _, reps := range t {
			s, sp, bl := st.shard(reps, behs)
			all = all && s
			blocked = blocked || bl
			if sp != "" {
				special = sp
			}
		}
		return
	}
	all, sp, bl := tier(hot)
	if sp == "" {
		return all, bl
	}
	if bl {
		return false, true // the deferred cancel has not reached every store of the tier yet
	}
	if sp == "wantsold" && len(cold) > 0 {
		call, csp, cbl := tier(cold)
		if csp == "" {
			return call, cbl
		}
	}
	return false, false // the call is about to return: wait for it
}

func dlAggQueries(n int) []*seqproxyapi.AggQuery {
	var l []*seqproxyapi.AggQuery
	for i := 0; i < n; i++ {
		l = append(l, &seqproxyapi.AggQuery{Field: "f", GroupBy: "g", Func: seqproxyapi.AggFunc_AGG_FUNC_SUM})
	}
	return l
}

func executeDl(sc *Script) *outcome {
	b := build(sc)
	st := b.dl
	hot, cold, behs := dlTiers(sc)
	ctx, cancel := context.WithCancel(context.Background())
	defer cancel()
	o := &outcome{r: b.r, dl: st}
	done := make(chan struct{})
	go func() {
		defer close(done)
		defer func() {
			if p := recover(); p != nil {
				o.panicked = fmt.Sprint(p)
			}
		}()
		cp := *sc
		switch sc.Entry {
		case "search":
			executeSearch(ctx, &cp, b, o)
		default:
			cp.API = sc.Entry[len("api-"):]
			executeAPI(ctx, &cp, b, o)
		}
	}()
	isDone := func() bool {
		select {
		case <-done:
			return true
		default:
			return false
		}
	}
	// wait until the call returned or nothing moves; false = neither within 20 s
	settle := func() (bool, bool) {
		deadline := time.Now().Add(20 * time.Second)
		for {
			if isDone() {
				return true, false
			}
			if ok, bl := st.quiescent(hot, cold, behs); ok {
				return true, bl
			}
			if time.Now().After(deadline) {
				return false, false
			}
			time.Sleep(50 * time.Microsecond)
		}
	}
	hung := func() *outcome {
		cancel()
		return &outcome{hung: true, r: &run{streams: map[int][]sentDoc{}, fetchIDs: map[ID]int{}}}
	}
	waitDone := func() bool {
		select {
		case <-done:
			return true
		case <-time.After(20 * time.Second):
			return false
		}
	}
	var times []int
	at := map[int][]int{}
	for i, h := range allHosts(sc) {
		if h.T > 0 {
			if len(at[h.T]) == 0 {
				times = append(times, h.T)
			}
			at[h.T] = append(at[h.T], i)
		}
	}
	if sc.D > 0 {
		times = append(times, sc.D)
	}
	sort.Ints(times)
	for _, t := range times {
		ok, blocked := settle()
		if !ok {
			return hung()
		}
		if isDone() {
			break
		}
		if t == sc.D && len(at[t]) == 0 {
			if !blocked { // every shard has finished: the call completes before the expiry
				if !waitDone() {
					return hung()
				}
			}
			cancel()
			break
		}
		st.mu.Lock()
		for _, i := range at[t] {
			st.hosts[i].released = true
			close(st.hosts[i].release)
		}
		st.mu.Unlock()
	}
	if !waitDone() {
		return hung()
	}
	return o
}

func optTime(t int) string {
	if t <= 0 {
		return "None"
	}
	return fmt.Sprintf("(Some %d)", t)
}

func dlTierCoq(t [][]Host, base *int) string {
	var sh []string
	for _, s := range t {
		var rs []string
		for _, h := range s {
			var b string
			switch h.Beh {
			case "ok":
				b = "BOk " + idsCoq(h.IDs) + " " + h.X.coq()
			case "err":
				b = "BErr"
			case "wantsold":
				b = "BWantsOld"
			case "toomanyfrac":
				b = "BTooManyFrac"
			case "toomanyuniq":
				b = "BTooManyUniq"
			}
			rs = append(rs, fmt.Sprintf("(%d, %s, %s)", *base, b, optTime(h.T)))
			*base++
		}
		sh = append(sh, "["+joinS(rs)+"]")
	}
	return "[" + joinS(sh) + "]"
}

func joinS(l []string) string {
	out := ""
	for i, x := range l {
		if i > 0 {
			out += "; "
		}
		out += x
	}
	return out
}

func recordDl(w *casefile.Writer, sc *Script, o *outcome, input any) {
	st := o.dl
	var answered []int
	nAns, nBlockedAtExpiry := 0, 0
	if st != nil {
		for i := range allHosts(sc) {
			h := st.hosts[i]
			if h.returned && !h.ctxErr {
				answered = append(answered, i)
			}
		}
	}
	// shards that had delivered / were still running when the context expired (from the script's times)
	hot, _, _ := dlTiers(sc)
	hosts := allHosts(sc)
	isAns := map[int]bool{}
	for _, i := range answered {
		isAns[i] = true
	}
	for _, reps := range hot {
		ans := false
		for _, i := range reps {
			if isAns[i] && hosts[i].Beh == "ok" {
				ans = true
			}
		}
		if ans {
			nAns++
		} else {
			nBlockedAtExpiry++
		}
	}
	base := 0
	hotC := dlTierCoq(sc.Hot, &base)
	hotreadC := dlTierCoq(sc.HotRead, &base)
	coldC := dlTierCoq(sc.Cold, &base)
	w.Count("dl:entry=" + sc.Entry + map[bool]string{true: "-nofetch", false: ""}[sc.Entry == "search" && sc.NoFetch])
	if sc.D > 0 {
		w.Count(fmt.Sprintf("dl:expiry-after-%d-of-%d-hot-shards-answered", nAns, len(hot)))
	} else {
		w.Count("dl:no-expiry")
	}
	if sc.Size == 0 {
		w.Count("dl:size=0")
	}
	for _, h := range hosts {
		if h.T < 0 {
			w.Count("dl:store-never-answers")
			break
		}
	}
	expired := sc.D > 0 && nBlockedAtExpiry > 0
	var cl string
	if sc.Entry == "search" {
		var impl string
		switch {
		case o.errKind != "":
			k := map[string]string{"wantsold": "EWantsOld", "toomanyfrac": "ETooManyFrac", "other": "EOther", "fetch": "EFetch"}[o.errKind]
			impl = "(SErr " + k + ")"
			cl = "error-" + o.errKind
		default:
			impl = fmt.Sprintf("(SOk %s %s %s)", casefile.Bool(o.partial), reqCoq(o.ids), o.obs.coq())
			cl = "complete"
			if o.partial {
				cl = "partial"
			}
		}
		e := "search-fetch"
		if sc.NoFetch {
			e = "search-nofetch"
		}
		cl = "dl-" + e + "-" + cl
		if expired {
			cl += "-expired"
		}
		w.Add(fmt.Sprintf("CDl %s %s %s %s %d %d %s %d%%N %d %s %s %s", optTime(sc.D), hotC, hotreadC, coldC, sc.Off, sc.Size,
			casefile.Bool(sc.Rev), sc.Itv, sc.NAggs, casefile.Bool(!sc.NoFetch), natsCoq(answered), impl),
			cl, expired || hasFailure(sc), input, implJSON(o))
		return
	}
	var impl string
	switch o.api {
	case "grpc:invalid":
		impl, cl = "(AErr GInvalidArgument)", "grpc-invalid"
	case "grpc:internal":
		impl, cl = "(AErr GInternal)", "grpc-internal"
	case "only-error":
		impl, cl = "AOnlyError", "only-error"
	default:
		code := "CNo"
		if o.apiCode == "partial" {
			code = "CPartial"
		}
		impl = fmt.Sprintf("(AResp %s %s %s %s)", casefile.Bool(o.apiFlag), code, reqCoq(o.ids), o.obs.coq())
		cl = "resp-" + o.apiCode
	}
	cl = "dl-" + sc.Entry + "-" + cl
	if expired {
		cl += "-expired"
	}
	hd := map[string]string{"api-search": "HSearch", "api-complex": "HComplex", "api-agg": "HAgg", "api-hist": "HHist"}[sc.Entry]
	w.Add(fmt.Sprintf("CDlApi %s %s %s %s %s %d %d %s %d%%N %d %s %s", hd, optTime(sc.D), hotC, hotreadC, coldC, sc.Off, sc.Size,
		casefile.Bool(sc.Rev), sc.Itv, sc.NAggs, natsCoq(answered), impl),
		cl, expired || hasFailure(sc), input, implJSON(o))
}

// ---------------------------------------------------------------- generators

var dlEntries = []string{"search", "search-nofetch", "api-search", "api-complex", "api-agg", "api-hist"}

func dlSetEntry(sc *Script, e string) {
	sc.Entry = e
	if e == "search-nofetch" {
		sc.Entry, sc.NoFetch = "search", true
	}
	switch sc.Entry {
	case "api-search":
		sc.Itv, sc.NAggs = 0, 0
	case "api-agg":
		sc.Off, sc.Size, sc.Rev, sc.Itv = 0, 0, false, 0
		if sc.NAggs == 0 {
			sc.NAggs = 1
		}
	case "api-hist":
		sc.Off, sc.Size, sc.Rev, sc.NAggs = 0, 0, false, 0
		if sc.Itv == 0 {
			sc.Itv = 2
		}
	}
}

// boundary family: s single-replica shards that all answer, the context expires after j of them answered
// (every j in 0..s, and never), every entry point, with documents asked and with size 0
func genDlBoundary() []*Script {
	var out []*Script
	idsOf := [][]ID{{{9, 0}, {7, 1}, {3, 0}}, {{8, 0}, {7, 1}}, {{9, 0}, {6, 2}, {5, 0}}}
	for s := 1; s <= 3; s++ {
		for j := 0; j <= s+1; j++ {
			for _, e := range dlEntries {
				for _, size := range []int{0, 4} {
					if size == 0 && e == "api-search" {
						continue
					}
					sc := &Script{Kind: "dl", Size: size, Tag: "boundary"}
					for k := 0; k < s; k++ {
						// shard k answers at time 2*(order), the order rotates with j so that every shard is the slow one once
						ord := (k+j)%s + 1
						h := Host{Beh: "ok", IDs: idsOf[k], T: 2 * ord, X: &Extra{Total: uint64(3 + k), Hist: [][2]uint64{{uint64(2 * k), 1}, {6, uint64(k)}}}}
						sc.Hot = append(sc.Hot, []Host{h})
					}
					if j <= s {
						sc.D = 2*j + 1 // after j answers
					}
					if e == "api-complex" && size == 0 {
						if (s+j)%2 == 0 {
							sc.Itv = 2
						} else {
							sc.NAggs = 1
						}
					} else if e == "api-complex" || e == "search" || e == "search-nofetch" {
						sc.Itv = 2
					}
					dlSetEntry(sc, e)
					out = append(out, sc)
				}
			}
		}
	}
	return out
}

func genDl(r *rng.R) *Script {
	sc := &Script{Kind: "dl", Off: r.Range(0, 2), Size: r.Range(1, 8), Rev: r.Chance(1, 4)}
	if r.Chance(1, 3) {
		sc.Size = 0
	}
	if r.Chance(1, 2) {
		sc.Itv = uint64(rng.Pick(r, []int{1, 2, 5}))
	}
	if r.Chance(1, 3) {
		sc.NAggs = r.Range(1, 2)
	}
	disjoint := r.Bool()
	okBias := r.Range(5, 9)
	nrep := 2
	if r.Chance(1, 4) {
		nrep = 3
	}
	hot := genTier(r, r.Range(1, 3), nrep, sc, disjoint, okBias, 0)
	if r.Chance(1, 6) {
		sc.HotRead = hot
		if r.Bool() {
			sc.Hot = genTier(r, 1, 2, sc, disjoint, okBias, 3) // never asked
		}
	} else {
		sc.Hot = hot
	}
	if r.Chance(1, 3) {
		sc.Cold = genTier(r, r.Range(1, 2), 2, sc, disjoint, okBias, 6)
		if r.Chance(2, 3) {
			h := &hot[r.Intn(len(hot))][0]
			h.Beh, h.IDs = "wantsold", nil
		}
	}
	dlSetEntry(sc, rng.Pick(r, dlEntries))
	// totals and histograms of the answering stores
	for _, h := range allHosts(sc) {
		h.Ops, h.FetchKO, h.Legacy = nil, false, r.Bool()
		if h.Beh != "ok" {
			continue
		}
		x := &Extra{Total: uint64(r.Range(0, 12))}
		if sc.Itv > 0 && r.Chance(3, 4) {
			seen := map[uint64]bool{}
			for k := r.Range(0, 3); k > 0; k-- {
				key := uint64(r.Range(0, 5)) * sc.Itv
				if !seen[key] {
					seen[key] = true
					x.Hist = append(x.Hist, [2]uint64{key, uint64(r.Range(0, 4))})
				}
			}
		}
		h.X = x
	}
	// distinct availability times: the asked hot tier first (even numbers), the cold tier after it
	asked := sc.Hot
	if len(sc.HotRead) > 0 {
		asked = sc.HotRead
	}
	t := 0
	assign := func(tier [][]Host) {
		var hs []*Host
		for i := range tier {
			for j := range tier[i] {
				hs = append(hs, &tier[i][j])
			}
		}
		perm := make([]int, len(hs))
		for i := range perm {
			perm[i] = i
		}
		for i := len(perm) - 1; i > 0; i-- {
			k := r.Intn(i + 1)
			perm[i], perm[k] = perm[k], perm[i]
		}
		for _, k := range perm {
			t += 2
			hs[k].T = t
		}
	}
	assign(asked)
	if len(sc.HotRead) > 0 {
		for i := range sc.Hot { // the plain hot tier is not asked when a hot-read tier exists
			for j := range sc.Hot[i] {
				sc.Hot[i][j].T = 2
			}
		}
	}
	assign(sc.Cold)
	if !r.Chance(1, 6) {
		sc.D = 2*r.Intn(t/2+1) + 1 // an odd time between two availabilities, or before / after all of them
		if sc.D > t && r.Bool() {
			sc.D = 2*r.Intn(t/2) + 1
		}
		for _, h := range allHosts(sc) { // with an expiry some stores may never answer at all
			if r.Chance(1, 8) {
				h.T = -1
			}
		}
	}
	return sc
}
