// hC16 — correspondence driver for property C16 (proxy reads degrade honestly).
// Runs the real search.Ingestor (Search, FetchDocsStream) of /repo against scripted fake
// StoreApiClients and writes what it observed as Coq cases (props/C16/coq/CaseDefs.v).
package main

import (
	"context"
	"encoding/json"
	"errors"
	"flag"
	"fmt"
	"io"
	"math"
	"os"
	"sort"
	"strconv"
	"strings"
	"sync"
	"time"

	"go.uber.org/zap/zapcore"
	"google.golang.org/grpc"
	"google.golang.org/grpc/codes"
	"google.golang.org/grpc/status"
	"google.golang.org/protobuf/types/known/timestamppb"

	"github.com/ozontech/seq-db/consts"
	"github.com/ozontech/seq-db/disk"
	"github.com/ozontech/seq-db/logger"
	"github.com/ozontech/seq-db/pkg/seqproxyapi/v1"
	"github.com/ozontech/seq-db/pkg/storeapi"
	"github.com/ozontech/seq-db/proxy/search"
	"github.com/ozontech/seq-db/proxy/stores"
	"github.com/ozontech/seq-db/proxyapi"
	"github.com/ozontech/seq-db/seq"
	realstore "github.com/ozontech/seq-db/storeapi"

	"verif/harness/internal/casefile"
	"verif/harness/internal/rng"
)

// ---------------------------------------------------------------- scripts (JSON = replay format)

type ID struct {
	M uint64 `json:"m"`
	R uint64 `json:"r"`
}

func (i ID) coq() string { return fmt.Sprintf("(%d,%d)%%N", i.M, i.R) }
func (i ID) seq() seq.ID { return seq.ID{MID: seq.MID(i.M), RID: seq.RID(i.R)} }

// one edit of the honest fetch stream (one document per requested ID, in request order)
type StreamOp struct {
	Op  string `json:"op"` // drop blank trunc extra swap dup rev
	I   int    `json:"i,omitempty"`
	Err bool   `json:"err,omitempty"` // trunc: the stream breaks with an error (else plain EOF)
	ID  *ID    `json:"id,omitempty"`  // extra: the unrequested document's ID
}

// one bin of an aggregation answer (integer-valued, exact in float64)
type Bin struct {
	MID     uint64  `json:"mid"`
	Tok     uint64  `json:"tok"`
	Total   int64   `json:"total"`
	Sum     int64   `json:"sum"`
	Min     int64   `json:"min"`
	Max     int64   `json:"max"`
	NE      int64   `json:"ne"`
	Samples []int64 `json:"samples,omitempty"`
}

type Agg struct {
	Bins []Bin `json:"bins,omitempty"`
	NE   int64 `json:"ne"`
}

// the rest of a store answer: total, histogram, aggregations, number of soft errors
type Extra struct {
	Total uint64      `json:"total"`
	Hist  [][2]uint64 `json:"hist,omitempty"`
	Aggs  []Agg       `json:"aggs,omitempty"`
	Errs  int         `json:"errs"`
}

type Host struct {
	X       *Extra     `json:"x,omitempty"`
	Beh     string     `json:"beh"`           // ok err wantsold toomanyfrac toomanyuniq
	Legacy  bool       `json:"legacy"`        // wantsold/toomanyuniq as gRPC error message instead of response code
	IDs     []ID       `json:"ids,omitempty"` // answer of an ok replica
	NoHint  bool       `json:"nohint"`        // answer without hints
	FetchKO bool       `json:"fetchko"`       // the Fetch call itself fails
	Ops     []StreamOp `json:"ops,omitempty"` // edits of the fetch stream
	T       int        `json:"t,omitempty"`   // kind dl: logical time at which the Search answer becomes available (-1 = never)
	// beh err: what the replica's refusal looks like while the request context is alive: 0 = Unavailable / plain error
	// (Legacy), 1 = gRPC status DeadlineExceeded, 2 = gRPC status Canceled (a deadline / cancellation OF THE STORE'S OWN),
	// 3 = the plain value context.DeadlineExceeded, 4 = context.Canceled
	ErrKind int `json:"errkind,omitempty"`
}

type Script struct {
	Kind    string   `json:"kind"` // search | fetch
	Hot     [][]Host `json:"hot,omitempty"`
	HotRead [][]Host `json:"hotread,omitempty"`
	Cold    [][]Host `json:"cold,omitempty"`
	Off     int      `json:"off"`
	Size    int      `json:"size"`
	Rev     bool     `json:"rev"`
	NoFetch bool     `json:"nofetch,omitempty"`
	Itv     uint64   `json:"itv,omitempty"`     // histogram interval in ms (0 = none)
	NAggs   int      `json:"naggs,omitempty"`   // number of aggregation queries
	Shuffle bool     `json:"shuffle,omitempty"` // ShuffleReplicas
	API     string   `json:"api,omitempty"`     // "" = Ingestor.Search, "search" / "complex" = proxyapi handler
	Orig    []ID     `json:"orig,omitempty"`    // kind docs: the IDs passed to Ingestor.Documents
	// kind seq: searches run one after the other on ONE Ingestor (same topology, behaviours change);
	// At = the search a case / violation is about
	Steps []*Script `json:"steps,omitempty"`
	At    int       `json:"at,omitempty"`
	// kind fetch: hosts (only FetchKO/Ops used) and the requested (ID, host) list
	Hosts []Host  `json:"hosts,omitempty"`
	Req   []ReqID `json:"req,omitempty"`
	// extension: Fds = kind fetch recorded with every Fetch call (CFds); Page = API script recorded as
	// the whole response (CPage); Merge/Limit = kind merge (seq.MergeQPRs called directly); Erase = the
	// sample multisets are left out of the case (bins with >= 8096 samples); Tag = class suffix
	Fds     bool      `json:"fds,omitempty"`
	Page    bool      `json:"page,omitempty"`
	Explain bool      `json:"explain,omitempty"`
	NoTotal bool      `json:"nototal,omitempty"`
	Merge   []MergeIn `json:"merge,omitempty"`
	Limit   int       `json:"limit,omitempty"`
	Erase   bool      `json:"erase,omitempty"`
	Tag     string    `json:"tag,omitempty"`
	// kind dl (deadline.go): the request context is cancelled at logical time D (0 = never); Entry = search |
	// api-search | api-complex | api-agg | api-hist
	D     int    `json:"d,omitempty"`
	Entry string `json:"entry,omitempty"`
	// kind retain (retain.go): NFr sealed fractions, one retention pass truncating the Trunc oldest
	NFr   int `json:"nfr,omitempty"`
	Trunc int `json:"trunc,omitempty"`
}

// one QPR handed to seq.MergeQPRs
type MergeIn struct {
	Src     int    `json:"src"`
	IDs     []ID   `json:"ids,omitempty"`
	X       *Extra `json:"x,omitempty"`
	NilHist bool   `json:"nilhist,omitempty"`
}

type ReqID struct {
	ID   ID   `json:"id"`
	Host int  `json:"host"`
	Hint bool `json:"hint"`
}

// ---------------------------------------------------------------- fake stores

type run struct {
	mu        sync.Mutex
	tag       uint64     // fresh payload tag per sent document
	searchSeq []int      // host indices in the order their Search was called
	fetchIDs  map[ID]int // which host each ID was requested from (API level: sources are not visible)
	fetchSeq  []int      // host indices in the order their Fetch was called
	fetchFail []int
	streams   map[int][]sentDoc // what each host's stream delivered before its end
	calls     []callRec         // every Fetch call in call order
}

type callRec struct {
	host   int
	failed bool
	ids    []ID
}

type sentDoc struct {
	id  ID
	tag uint64
}

type fakeClient struct {
	storeapi.StoreApiClient
	idx int
	h   *Host
	r   *run
}

// in a sequence the behaviours and the log of the CURRENT search travel in the context, so that a
// straggling shard goroutine of an earlier search (searchStores returns early on wants-old /
// too-many-fractions) can neither read nor pollute a later search
type stepEnv struct {
	hosts []*Host
	r     *run
}
type stepKey struct{}

func (f *fakeClient) env(ctx context.Context) *fakeClient {
	if e, ok := ctx.Value(stepKey{}).(*stepEnv); ok {
		return &fakeClient{idx: f.idx, h: e.hosts[f.idx], r: e.r}
	}
	return f
}

func (f0 *fakeClient) Search(ctx context.Context, in *storeapi.SearchRequest, opts ...grpc.CallOption) (*storeapi.SearchResponse, error) {
	f := f0.env(ctx)
	f.r.mu.Lock()
	f.r.searchSeq = append(f.r.searchSeq, f.idx)
	f.r.mu.Unlock()
	switch f.h.Beh {
	case "ok":
		resp := &storeapi.SearchResponse{Histogram: map[uint64]uint64{}}
		if x := f.h.X; x != nil {
			resp.Total = x.Total
			for _, kv := range x.Hist {
				resp.Histogram[kv[0]] = kv[1]
			}
			for _, a := range x.Aggs {
				pa := &storeapi.SearchResponse_Agg{NotExists: a.NE}
				for _, b := range a.Bins {
					smp := make([]float64, len(b.Samples))
					for i, v := range b.Samples {
						smp[i] = float64(v)
					}
					pa.Timeseries = append(pa.Timeseries, &storeapi.SearchResponse_Bin{
						Label: fmt.Sprintf("t%d", b.Tok), Ts: timestamppb.New(time.UnixMilli(int64(b.MID))),
						Hist: &storeapi.SearchResponse_Histogram{Min: float64(b.Min), Max: float64(b.Max), Sum: float64(b.Sum),
							Total: b.Total, NotExists: b.NE, Samples: smp}})
				}
				resp.Aggs = append(resp.Aggs, pa)
			}
			for i := 0; i < x.Errs; i++ {
				resp.Errors = append(resp.Errors, fmt.Sprintf("soft error %d of h%d;", i, f.idx))
			}
		}
		for _, id := range f.h.IDs {
			hint := ""
			if !f.h.NoHint {
				hint = fmt.Sprintf("frac-%d", f.idx)
			}
			resp.IdSources = append(resp.IdSources, &storeapi.SearchResponse_IdWithHint{
				Id: &storeapi.SearchResponse_Id{Mid: id.M, Rid: id.R}, Hint: hint})
		}
		return resp, nil
	case "err":
		switch f.h.ErrKind {
		case 1:
			return nil, status.Error(codes.DeadlineExceeded, "store-side deadline exceeded")
		case 2:
			return nil, status.Error(codes.Canceled, "store cancelled the request")
		case 3:
			return nil, context.DeadlineExceeded
		case 4:
			return nil, context.Canceled
		}
		if f.h.Legacy {
			return nil, errors.New("connection refused")
		}
		return nil, status.Error(codes.Unavailable, "store unavailable")
	case "wantsold":
		if f.h.Legacy {
			return nil, status.Error(codes.Internal, consts.ErrIngestorQueryWantsOldData.Error())
		}
		return &storeapi.SearchResponse{Code: storeapi.SearchErrorCode_INGESTOR_QUERY_WANTS_OLD_DATA}, nil
	case "toomanyuniq":
		if f.h.Legacy {
			return nil, status.Error(codes.Internal, consts.ErrTooManyUniqValues.Error())
		}
		return &storeapi.SearchResponse{Code: storeapi.SearchErrorCode_TOO_MANY_UNIQ_VALUES}, nil
	case "toomanyfrac":
		return &storeapi.SearchResponse{Code: storeapi.SearchErrorCode_TOO_MANY_FRACTIONS_HIT}, nil
	}
	panic("bad script behaviour " + f.h.Beh)
}

type fakeStream struct {
	grpc.ClientStream
	docs  []sentDoc
	blank map[int]bool
	i     int
	err   bool
}

func (s *fakeStream) Recv() (*storeapi.BinaryData, error) {
	if s.i >= len(s.docs) {
		if s.err {
			return nil, status.Error(codes.Unavailable, "stream broken")
		}
		return nil, io.EOF
	}
	d := s.docs[s.i]
	s.i++
	var payload []byte
	if d.tag != 0 {
		payload = []byte(strconv.FormatUint(d.tag, 10))
	}
	block := disk.PackDocBlock(payload, nil)
	block.SetExt1(d.id.M)
	block.SetExt2(d.id.R)
	return &storeapi.BinaryData{Data: block}, nil
}

func (f0 *fakeClient) Fetch(ctx context.Context, in *storeapi.FetchRequest, opts ...grpc.CallOption) (storeapi.StoreApi_FetchClient, error) {
	f := f0.env(ctx)
	f.r.mu.Lock()
	defer f.r.mu.Unlock()
	var askedIDs []ID
	for _, s := range in.Ids {
		if id, err := seq.FromString(s); err == nil {
			f.r.fetchIDs[ID{uint64(id.MID), uint64(id.RID)}] = f.idx
			askedIDs = append(askedIDs, ID{uint64(id.MID), uint64(id.RID)})
		}
	}
	f.r.calls = append(f.r.calls, callRec{host: f.idx, failed: f.h.FetchKO, ids: askedIDs})
	if f.h.FetchKO {
		f.r.fetchFail = append(f.r.fetchFail, f.idx)
		return nil, status.Error(codes.Unavailable, "fetch refused")
	}
	f.r.fetchSeq = append(f.r.fetchSeq, f.idx)
	// honest stream: one document per requested ID, in request order
	type d struct {
		id    ID
		blank bool
	}
	var ds []d
	for _, s := range in.Ids {
		id, err := seq.FromString(s)
		if err != nil {
			panic("fake store got unparsable id " + s)
		}
		ds = append(ds, d{id: ID{uint64(id.MID), uint64(id.RID)}})
	}
	breakErr := false
	for _, op := range f.h.Ops {
		n := len(ds)
		switch op.Op {
		case "drop":
			if n > 0 {
				k := op.I % n
				ds = append(ds[:k:k], ds[k+1:]...)
			}
		case "blank":
			if n > 0 {
				ds[op.I%n].blank = true
			}
		case "mask": // the store does not have the documents whose bit is set
			for i := range ds {
				if op.I>>(uint(i)%16)&1 == 1 {
					ds[i].blank = true
				}
			}
		case "trunc":
			ds = ds[:op.I%(n+1)]
			breakErr = op.Err
		case "extra":
			k := op.I % (n + 1)
			nd := append(append(append([]d{}, ds[:k]...), d{id: *op.ID}), ds[k:]...)
			ds = nd
		case "swap":
			if n > 1 {
				k := op.I % (n - 1)
				ds[k], ds[k+1] = ds[k+1], ds[k]
			}
		case "dup":
			if n > 0 {
				k := op.I % n
				nd := append(append(append([]d{}, ds[:k+1]...), ds[k]), ds[k+1:]...)
				ds = nd
			}
		case "rev":
			for i, j := 0, n-1; i < j; i, j = i+1, j-1 {
				ds[i], ds[j] = ds[j], ds[i]
			}
		}
	}
	st := &fakeStream{err: breakErr}
	for _, x := range ds {
		var tag uint64
		if !x.blank {
			f.r.tag++
			tag = f.r.tag
		}
		st.docs = append(st.docs, sentDoc{x.id, tag})
	}
	f.r.streams[f.idx] = st.docs
	return st, nil
}

// ---------------------------------------------------------------- running one script

type outcome struct {
	panicked string
	hung     bool
	// search
	errKind string // "" = response
	partial bool
	ids     []ReqID  // returned IDs, Host = canonical host index
	obs     *obsRest // merged total / histogram / aggregations / number of soft errors
	// API level
	api      string // grpc:invalid grpc:internal only-error resp
	apiFlag  bool
	apiCode  string // no partial
	apiTotal int64
	apiHist  bool // the response carries a histogram
	// fetch
	fetched  bool
	docs     []gotDoc
	r        *run
	weirdErr string
	unmapped bool
	dl       *dlState // kind dl: what the stores saw
	ret      *retainObs
}

type gotDoc struct {
	id   ID
	host int
	tag  uint64
}

func hostName(i int) string { return fmt.Sprintf("h%02d", i) }

type built struct {
	srv    seqproxyapi.SeqProxyApiServer
	si     *search.Ingestor
	r      *run
	hostOf map[uint64]int // source -> host index
	srcOf  map[int]uint64
	nhosts int
	dl     *dlState
}

func build(sc *Script) *built {
	r := &run{streams: map[int][]sentDoc{}, fetchIDs: map[ID]int{}}
	clients := map[string]storeapi.StoreApiClient{}
	n := 0
	var dl *dlState
	if sc.Kind == "dl" {
		dl = newDlState()
	}
	mk := func(tier [][]Host) *stores.Stores {
		st := &stores.Stores{Shards: [][]string{}}
		for si := range tier {
			var names []string
			for ri := range tier[si] {
				h := &tier[si][ri]
				clients[hostName(n)] = &fakeClient{idx: n, h: h, r: r}
				if dl != nil {
					clients[hostName(n)] = dl.wrap(&fakeClient{idx: n, h: h, r: r})
				}
				names = append(names, hostName(n))
				n++
			}
			st.Shards = append(st.Shards, names)
		}
		return st
	}
	cfg := search.Config{ShuffleReplicas: sc.Shuffle}
	if sc.Kind == "fetch" || sc.Kind == "docs" || sc.Kind == "merge" {
		for i := range sc.Hosts {
			clients[hostName(n)] = &fakeClient{idx: n, h: &sc.Hosts[i], r: r}
			n++
		}
		cfg.HotStores = &stores.Stores{Shards: [][]string{}}
		cfg.HotReadStores = &stores.Stores{Shards: [][]string{}}
		cfg.ReadStores = &stores.Stores{Shards: [][]string{}}
	} else {
		cfg.HotStores = mk(sc.Hot)
		cfg.HotReadStores = mk(sc.HotRead)
		cfg.ReadStores = mk(sc.Cold)
	}
	cfg.WriteStores = &stores.Stores{Shards: [][]string{}}
	si := search.NewIngestor(cfg, clients)
	b := &built{si: si, r: r, hostOf: map[uint64]int{}, srcOf: map[int]uint64{}, nhosts: n, dl: dl}
	b.srv = proxyapi.VerifC16NewGrpcV1(si, 30*time.Second)
	for name, s := range si.VerifC16SourceByClient() {
		i, _ := strconv.Atoi(name[1:])
		b.hostOf[s] = i
		b.srcOf[i] = s
	}
	return b
}

func pull(o *outcome, b *built, it search.DocsIterator, n int) {
	o.fetched = true
	for k := 0; k < n+2; k++ {
		d, err := it.Next()
		if err != nil {
			break
		}
		g := gotDoc{id: ID{uint64(d.ID.MID), uint64(d.ID.RID)}}
		h, ok := b.hostOf[d.Source]
		if !ok {
			o.unmapped = true
		}
		g.host = h
		if len(d.Data) > 0 {
			t, err := strconv.ParseUint(string(d.Data), 10, 64)
			if err != nil {
				t = 1 << 40 // foreign bytes: a tag nobody delivered
			}
			g.tag = t
		}
		o.docs = append(o.docs, g)
	}
}

func execute(sc *Script) []*outcome {
	if sc.Kind == "seq" {
		b := build(sc.Steps[0])
		var outs []*outcome
		for _, st := range sc.Steps {
			r := &run{streams: map[int][]sentDoc{}, fetchIDs: map[ID]int{}}
			b.r = r
			ctx := context.WithValue(context.Background(), stepKey{}, &stepEnv{hosts: allHosts(st), r: r})
			outs = append(outs, runOne(ctx, st, b))
		}
		return outs
	}
	if sc.Kind == "dl" {
		return []*outcome{executeDl(sc)}
	}
	if sc.Kind == "retain" {
		o := &outcome{r: &run{streams: map[int][]sentDoc{}, fetchIDs: map[ID]int{}}}
		func() {
			defer func() {
				if p := recover(); p != nil {
					o.panicked = fmt.Sprint(p)
				}
			}()
			executeRetain(sc, o)
		}()
		return []*outcome{o}
	}
	return []*outcome{runOne(context.Background(), sc, build(sc))}
}

func runOne(ctx context.Context, sc *Script, b *built) (o *outcome) {
	o = &outcome{r: b.r}
	done := make(chan struct{})
	go func() {
		defer close(done)
		defer func() {
			if p := recover(); p != nil {
				o.panicked = fmt.Sprint(p)
			}
		}()
		if sc.Kind == "fetch" {
			var ids []seq.IDSource
			for _, q := range sc.Req {
				hint := ""
				if q.Hint {
					hint = fmt.Sprintf("frac-%d", q.Host)
				}
				ids = append(ids, seq.IDSource{ID: q.ID.seq(), Source: b.srcOf[q.Host], Hint: hint})
			}
			it, err := b.si.FetchDocsStream(ctx, ids, false, search.FetchFieldsFilter{})
			if err != nil {
				o.errKind = "fetch"
				return
			}
			pull(o, b, it, len(ids))
			return
		}
		if sc.Kind == "docs" {
			var ids []seq.ID
			for _, q := range sc.Orig {
				ids = append(ids, q.seq())
			}
			it, err := b.si.Documents(ctx, search.FetchRequest{IDs: ids})
			if err != nil {
				o.errKind = "fetch"
				return
			}
			pull(o, b, it, len(ids))
			return
		}
		if sc.Kind == "merge" {
			executeMerge(sc, o)
			return
		}
		if sc.API != "" {
			executeAPI(ctx, sc, b, o)
			return
		}
		executeSearch(ctx, sc, b, o)
	}()
	select {
	case <-done:
	case <-time.After(20 * time.Second):
		return &outcome{hung: true, r: &run{streams: map[int][]sentDoc{}, fetchIDs: map[ID]int{}}}
	}
	return o
}

// executeSearch drives Ingestor.Search directly
func executeSearch(ctx context.Context, sc *Script, b *built, o *outcome) {
	{
		sr := &search.SearchRequest{Q: []byte("message:x"), Offset: sc.Off, Size: sc.Size, From: 0, To: 1 << 40,
			ShouldFetch: !sc.NoFetch, Order: seq.DocsOrderDesc, Interval: seq.MID(sc.Itv), Explain: sc.Explain}
		for i := 0; i < sc.NAggs; i++ {
			sr.AggQ = append(sr.AggQ, search.AggQuery{Field: "f", GroupBy: "g", Func: seq.AggFuncSum})
		}
		if sc.Rev {
			sr.Order = seq.DocsOrderAsc
		}
		qpr, it, _, err := b.si.Search(ctx, sr, nil)
		if qpr == nil {
			switch {
			case err == nil:
				o.weirdErr = "no response and no error"
			case errors.Is(err, consts.ErrIngestorQueryWantsOldData):
				o.errKind = "wantsold"
			case errors.Is(err, consts.ErrTooManyFractionsHit):
				o.errKind = "toomanyfrac"
			case len(b.r.fetchFail) > 0 && len(b.r.fetchSeq) == 0:
				o.errKind = "fetch"
			default:
				o.errKind = "other"
			}
			return
		}
		if err != nil {
			if errors.Is(err, consts.ErrPartialResponse) {
				o.partial = true
			} else {
				o.weirdErr = "response with an error that is not ErrPartialResponse: " + err.Error()
			}
		}
		o.obs = obsFrom(qpr)
		for _, x := range qpr.IDs {
			h, ok := b.hostOf[x.Source]
			if !ok {
				o.unmapped = true
			}
			o.ids = append(o.ids, ReqID{ID: ID{uint64(x.ID.MID), uint64(x.ID.RID)}, Host: h})
		}
		if !sc.NoFetch && len(qpr.IDs) > 0 {
			pull(o, b, it, len(qpr.IDs))
		}
	}
}

// the merged QPR besides IDs, canonicalised (sorted keys)
func f2i(f float64) string {
	if f >= 9.2e18 {
		return "9223372036854775808"
	}
	if f <= -9.2e18 {
		return "-9223372036854775808"
	}
	return strconv.FormatInt(int64(f), 10)
}

type obsBin struct {
	mid, tok      uint64
	total, ne     int64
	sum, min, max string
	samples       []string
}

type obsAgg struct {
	bins []obsBin
	ne   int64
}

type obsRest struct {
	total uint64
	hist  [][2]uint64
	aggs  []obsAgg
	errs  int
}

func obsFrom(qpr *seq.QPR) *obsRest {
	o := &obsRest{total: qpr.Total, errs: len(qpr.Errors)}
	for k, v := range qpr.Histogram {
		o.hist = append(o.hist, [2]uint64{uint64(k), v})
	}
	sort.Slice(o.hist, func(i, j int) bool { return o.hist[i][0] < o.hist[j][0] })
	for _, a := range qpr.Aggs {
		oa := obsAgg{ne: a.NotExists}
		for bin, h := range a.SamplesByBin {
			tok, _ := strconv.ParseUint(strings.TrimPrefix(bin.Token, "t"), 10, 64)
			ob := obsBin{mid: uint64(bin.MID), tok: tok, total: h.Total, ne: h.NotExists, sum: f2i(h.Sum), min: f2i(h.Min), max: f2i(h.Max)}
			smp := append([]float64{}, h.Samples...)
			sort.Float64s(smp)
			for _, v := range smp {
				ob.samples = append(ob.samples, f2i(v))
			}
			oa.bins = append(oa.bins, ob)
		}
		sort.Slice(oa.bins, func(i, j int) bool {
			if oa.bins[i].mid != oa.bins[j].mid {
				return oa.bins[i].mid < oa.bins[j].mid
			}
			return oa.bins[i].tok < oa.bins[j].tok
		})
		o.aggs = append(o.aggs, oa)
	}
	return o
}

func (o *obsRest) coq() string {
	if o == nil || (o.total == 0 && len(o.hist) == 0 && len(o.aggs) == 0 && o.errs == 0) {
		return "X0"
	}
	var hs, as []string
	for _, kv := range o.hist {
		hs = append(hs, fmt.Sprintf("(%d%%N, %d%%Z)", kv[0], kv[1]))
	}
	for _, a := range o.aggs {
		var bs []string
		for _, b := range a.bins {
			smp := make([]string, len(b.samples))
			for i, v := range b.samples {
				smp[i] = "(" + v + ")%Z"
			}
			bs = append(bs, fmt.Sprintf("((%d,%d)%%N, mkSc (%d)%%Z (%s)%%Z (%s)%%Z (%s)%%Z (%d)%%Z [%s])",
				b.mid, b.tok, b.total, b.sum, b.min, b.max, b.ne, strings.Join(smp, "; ")))
		}
		as = append(as, fmt.Sprintf("([%s], (%d)%%Z)", strings.Join(bs, "; "), a.ne))
	}
	return fmt.Sprintf("(mkX %d%%Z [%s] [%s] %d)", o.total, strings.Join(hs, "; "), strings.Join(as, "; "), o.errs)
}

func (x *Extra) coq() string {
	if x == nil {
		return "X0"
	}
	o := &obsRest{total: x.Total, errs: x.Errs}
	o.hist = x.Hist
	for _, a := range x.Aggs {
		oa := obsAgg{ne: a.NE}
		for _, b := range a.Bins {
			ob := obsBin{mid: b.MID, tok: b.Tok, total: b.Total, ne: b.NE, sum: strconv.FormatInt(b.Sum, 10),
				min: strconv.FormatInt(b.Min, 10), max: strconv.FormatInt(b.Max, 10)}
			for _, v := range b.Samples {
				ob.samples = append(ob.samples, strconv.FormatInt(v, 10))
			}
			oa.bins = append(oa.bins, ob)
		}
		o.aggs = append(o.aggs, oa)
	}
	return o.coq()
}

// executeAPI drives the real proxyapi Search / ComplexSearch handler on top of the ingestor
func executeAPI(ctx context.Context, sc *Script, b *built, o *outcome) {
	srv := b.srv
	q := &seqproxyapi.SearchQuery{Query: "message:x", From: timestamppb.New(time.UnixMilli(0)), To: timestamppb.New(time.UnixMilli(1 << 40)), Explain: sc.Explain}
	order := seqproxyapi.Order_ORDER_DESC
	if sc.Rev {
		order = seqproxyapi.Order_ORDER_ASC
	}
	var (
		err   error
		perr  *seqproxyapi.Error
		flag  bool
		total int64
		docs  []*seqproxyapi.Document
		hist  *seqproxyapi.Histogram
	)
	if sc.API == "agg" {
		var resp *seqproxyapi.GetAggregationResponse
		resp, err = srv.GetAggregation(ctx, &seqproxyapi.GetAggregationRequest{Query: q, Aggs: dlAggQueries(sc.NAggs)})
		if resp != nil {
			perr, flag, total = resp.Error, resp.PartialResponse, resp.Total
		}
	} else if sc.API == "hist" {
		req := &seqproxyapi.GetHistogramRequest{Query: q}
		if sc.Itv > 0 {
			req.Hist = &seqproxyapi.HistQuery{Interval: fmt.Sprintf("%dms", sc.Itv)}
		}
		var resp *seqproxyapi.GetHistogramResponse
		resp, err = srv.GetHistogram(ctx, req)
		if resp != nil {
			perr, flag, total, hist = resp.Error, resp.PartialResponse, resp.Total, resp.Hist
		}
	} else if sc.API == "search" {
		var resp *seqproxyapi.SearchResponse
		resp, err = srv.Search(ctx, &seqproxyapi.SearchRequest{Query: q, Size: int64(sc.Size), Offset: int64(sc.Off), WithTotal: !sc.NoTotal, Order: order})
		if resp != nil {
			perr, flag, total, docs = resp.Error, resp.PartialResponse, resp.Total, resp.Docs
		}
	} else {
		req := &seqproxyapi.ComplexSearchRequest{Query: q, Size: int64(sc.Size), Offset: int64(sc.Off), WithTotal: !sc.NoTotal, Order: order}
		if sc.Itv > 0 {
			req.Hist = &seqproxyapi.HistQuery{Interval: fmt.Sprintf("%dms", sc.Itv)}
		}
		req.Aggs = dlAggQueries(sc.NAggs)
		var resp *seqproxyapi.ComplexSearchResponse
		resp, err = srv.ComplexSearch(ctx, req)
		if resp != nil {
			perr, flag, total, docs, hist = resp.Error, resp.PartialResponse, resp.Total, resp.Docs, resp.Hist
		}
	}
	if err != nil {
		switch status.Code(err) {
		case codes.InvalidArgument:
			o.api = "grpc:invalid"
		case codes.Internal:
			o.api = "grpc:internal"
		default:
			o.weirdErr = "API answers with an unexpected gRPC error: " + err.Error()
		}
		return
	}
	if perr == nil {
		o.weirdErr = "API response without an error field"
		return
	}
	switch perr.Code {
	case seqproxyapi.ErrorCode_ERROR_CODE_TOO_MANY_FRACTIONS_HIT:
		if len(docs) > 0 || flag {
			o.weirdErr = "too-many-fractions answer carries documents or the partial flag"
		}
		o.api = "only-error"
		return
	case seqproxyapi.ErrorCode_ERROR_CODE_NO:
		o.apiCode = "no"
	case seqproxyapi.ErrorCode_ERROR_CODE_PARTIAL_RESPONSE:
		o.apiCode = "partial"
	default:
		o.weirdErr = "API response with error code " + perr.Code.String()
		return
	}
	o.api, o.apiFlag, o.partial = "resp", flag, flag
	o.apiTotal, o.apiHist = total, hist != nil
	or := &obsRest{total: uint64(total)}
	if hist != nil {
		for _, bk := range hist.Buckets {
			or.hist = append(or.hist, [2]uint64{uint64(bk.Ts.AsTime().UnixMilli()), bk.DocCount})
		}
		sort.Slice(or.hist, func(i, j int) bool { return or.hist[i][0] < or.hist[j][0] })
	}
	o.obs = or
	o.fetched = len(docs) > 0
	for _, d := range docs {
		id, perr := seq.FromString(d.Id)
		if perr != nil {
			o.weirdErr = "API document with unparsable id " + d.Id
			return
		}
		x := ID{uint64(id.MID), uint64(id.RID)}
		h, ok := b.r.fetchIDs[x]
		if !ok {
			o.unmapped = true
		}
		o.ids = append(o.ids, ReqID{ID: x, Host: h})
		g := gotDoc{id: x, host: h}
		if len(d.Data) > 0 {
			t, err := strconv.ParseUint(string(d.Data), 10, 64)
			if err != nil {
				t = 1 << 40
			}
			g.tag = t
		}
		o.docs = append(o.docs, g)
	}
}

// ---------------------------------------------------------------- Coq rendering

func idsCoq(l []ID) string {
	p := make([]string, len(l))
	for i, x := range l {
		p[i] = x.coq()
	}
	return "[" + strings.Join(p, "; ") + "]"
}

func tierCoq(t [][]Host, base *int, called []int, erase bool) string {
	rank := map[int]int{}
	for i, h := range called {
		if _, ok := rank[h]; !ok {
			rank[h] = i
		}
	}
	var sh []string
	for _, s := range t {
		type rep struct {
			idx int
			h   Host
		}
		var reps []rep
		for _, h := range s {
			reps = append(reps, rep{*base, h})
			*base++
		}
		sort.SliceStable(reps, func(i, j int) bool {
			ri, oki := rank[reps[i].idx]
			rj, okj := rank[reps[j].idx]
			if oki != okj {
				return oki
			}
			return oki && ri < rj
		})
		var rs []string
		for _, rp := range reps {
			var b string
			switch rp.h.Beh {
			case "ok":
				b = "BOk " + idsCoq(rp.h.IDs) + " " + rp.h.X.erased(erase).coq()
			case "err":
				b = "BErr"
			case "wantsold":
				b = "BWantsOld"
			case "toomanyfrac":
				b = "BTooManyFrac"
			case "toomanyuniq":
				b = "BTooManyUniq"
			}
			rs = append(rs, fmt.Sprintf("(%d, %s)", rp.idx, b))
		}
		sh = append(sh, "["+strings.Join(rs, "; ")+"]")
	}
	return "[" + strings.Join(sh, "; ") + "]"
}

func reqCoq(l []ReqID) string {
	p := make([]string, len(l))
	for i, x := range l {
		p[i] = fmt.Sprintf("(%s, %d)", x.ID.coq(), x.Host)
	}
	return "[" + strings.Join(p, "; ") + "]"
}

func natsCoq(l []int) string {
	p := make([]string, len(l))
	for i, x := range l {
		p[i] = strconv.Itoa(x)
	}
	return "[" + strings.Join(p, "; ") + "]"
}

func streamsCoq(r *run) string {
	var p []string
	for _, h := range r.fetchSeq {
		var ds []string
		for _, d := range r.streams[h] {
			ds = append(ds, fmt.Sprintf("(%s, %d%%N)", d.id.coq(), d.tag))
		}
		p = append(p, fmt.Sprintf("(%d, [%s])", h, strings.Join(ds, "; ")))
	}
	return "[" + strings.Join(p, "; ") + "]"
}

func docsCoq(l []gotDoc) string {
	p := make([]string, len(l))
	for i, d := range l {
		p[i] = fmt.Sprintf("((%s, %d), %d%%N)", d.id.coq(), d.host, d.tag)
	}
	return "[" + strings.Join(p, "; ") + "]"
}

func allHosts(sc *Script) []*Host {
	var hs []*Host
	for _, t := range [][][]Host{sc.Hot, sc.HotRead, sc.Cold} {
		for i := range t {
			for j := range t[i] {
				hs = append(hs, &t[i][j])
			}
		}
	}
	for i := range sc.Hosts {
		hs = append(hs, &sc.Hosts[i])
	}
	return hs
}

func implJSON(o *outcome) map[string]any {
	m := map[string]any{}
	if o.api != "" {
		m["api"] = o.api
		m["api_code"] = o.apiCode
		m["api_partial_response"] = o.apiFlag
	}
	if o.obs != nil {
		m["rest"] = o.obs.coq()
	}
	if o.errKind != "" {
		m["error"] = o.errKind
	} else {
		m["partial"] = o.partial
		var ids []string
		for _, x := range o.ids {
			ids = append(ids, fmt.Sprintf("%d.%d@h%d", x.ID.M, x.ID.R, x.Host))
		}
		m["ids"] = ids
	}
	if o.fetched {
		var ds []string
		for _, d := range o.docs {
			ds = append(ds, fmt.Sprintf("%d.%d@h%d=%d", d.id.M, d.id.R, d.host, d.tag))
		}
		m["docs"] = ds
		st := map[string][]string{}
		for h, l := range o.r.streams {
			for _, d := range l {
				st[hostName(h)] = append(st[hostName(h)], fmt.Sprintf("%d.%d=%d", d.id.M, d.id.R, d.tag))
			}
		}
		m["streams_sent"] = st
	}
	return m
}

// record turns one executed script into cases / direct violations
// record turns one executed search / fetch into cases; input = what is stored for the replay (the
// script itself, or the whole sequence with the position of this search)
func record(w *casefile.Writer, sc *Script, o *outcome, input any, suffix string) {
	if o.hung {
		w.Violate("hang:"+sc.Kind, "the proxy read path did not return within 20 s", input)
		return
	}
	if o.panicked != "" {
		w.Violate("panic:"+sc.Kind, "the proxy read path panics: "+o.panicked, input)
		return
	}
	if o.weirdErr != "" {
		w.Violate("unclassified:"+sc.Kind, o.weirdErr, input)
		return
	}
	if o.unmapped {
		w.Violate("unknown-source:"+sc.Kind, "a returned ID or document carries a source number no store has", input)
		return
	}
	streamsMisbehave := false
	for _, h := range allHosts(sc) {
		for _, op := range h.Ops {
			if op.Op == "extra" || op.Op == "swap" || op.Op == "rev" || op.Op == "dup" {
				streamsMisbehave = true
			}
		}
	}
	if sc.Kind == "merge" {
		recordMerge(w, sc, o, input)
		return
	}
	if sc.Kind == "dl" {
		recordDl(w, sc, o, input)
		return
	}
	if sc.Kind == "retain" {
		recordRetain(w, sc, o, input)
		return
	}
	if sc.Kind == "fetch" && sc.Fds {
		recordFds(w, sc, o, input)
		return
	}
	if sc.Kind == "fetch" {
		w.Count("fetch:hosts=" + strconv.Itoa(len(sc.Hosts)))
		if o.errKind == "fetch" {
			// every Fetch call failed: allowed only if there was no working store among the requested ones
			if len(o.r.fetchSeq) > 0 || len(sc.Req) == 0 {
				w.Violate("fetch-error-with-live-store", "FetchDocsStream failed although a store accepted the fetch", input)
			}
			w.Count("fetch:all-calls-failed")
			w.Evals(1)
			return
		}
		cl := "fetch-direct"
		if streamsMisbehave {
			cl = "fetch-direct-misbehaving"
		}
		w.Add(fmt.Sprintf("CFetch %s %s (FOk %s)", reqCoq(sc.Req), streamsCoq(o.r), docsCoq(o.docs)),
			cl, len(sc.Req) >= 2 && len(o.r.fetchSeq) >= 1, input, implJSON(o))
		return
	}
	if sc.Kind == "docs" {
		w.Count("docs:hosts=" + strconv.Itoa(len(sc.Hosts)))
		{
			cl := "documents-decision-ok"
			if o.errKind == "fetch" {
				cl = "documents-decision-all-failed"
			} else if len(o.r.fetchFail) > 0 {
				cl = "documents-decision-some-failed"
			}
			w.Add(fmt.Sprintf("CFdsErr %s %s", callsCoq(o.r, true), casefile.Bool(o.errKind == "fetch")), cl,
				len(o.r.calls) >= 2, input, implJSON(o))
		}
		if o.errKind == "fetch" {
			if len(o.r.fetchSeq) > 0 || len(sc.Orig) == 0 {
				w.Violate("fetch-error-with-live-store", "Documents failed although a store accepted the fetch", input)
			}
			w.Count("docs:all-calls-failed")
			w.Evals(1)
			return
		}
		cl := "documents"
		if streamsMisbehave {
			cl = "documents-misbehaving"
		}
		var srcs []int
		for i := range sc.Hosts {
			srcs = append(srcs, i)
		}
		w.Add(fmt.Sprintf("CDocs %s %s %s (FOk %s)", idsCoq(sc.Orig), natsCoq(srcs), streamsCoq(o.r), docsCoq(o.docs)),
			cl, len(sc.Orig) >= 2 && len(sc.Hosts) >= 2, input, implJSON(o))
		return
	}
	// search
	if sc.Shuffle {
		seen := map[int]bool{}
		for _, h := range o.r.searchSeq {
			if seen[h] {
				w.Violate("replica-called-twice", "a replica was asked twice in one search", input)
				return
			}
			seen[h] = true
		}
	}
	var called []int
	if sc.Shuffle {
		called = o.r.searchSeq
	}
	base := 0
	hot := tierCoq(sc.Hot, &base, called, sc.Erase)
	hotread := tierCoq(sc.HotRead, &base, called, sc.Erase)
	cold := tierCoq(sc.Cold, &base, called, sc.Erase)
	var ffail []int
	for i, h := range allHosts(sc) {
		if h.FetchKO && !sc.NoFetch {
			ffail = append(ffail, i)
		}
	}
	if sc.Page {
		recordPage(w, sc, o, input, hot, hotread, cold)
		return
	}
	var impl, cl string
	switch {
	case sc.API != "":
		cl = "api-" + sc.API + "-" + o.api
		switch o.api {
		case "grpc:invalid":
			impl = "(AErr GInvalidArgument)"
		case "grpc:internal":
			impl = "(AErr GInternal)"
		case "only-error":
			impl = "AOnlyError"
		default:
			code := "CNo"
			if o.apiCode == "partial" {
				code = "CPartial"
			}
			impl = fmt.Sprintf("(AResp %s %s %s %s)", casefile.Bool(o.apiFlag), code, reqCoq(o.ids), o.obs.coq())
			cl = "api-" + sc.API + "-resp-" + o.apiCode
		}
	case o.errKind != "":
		k := map[string]string{"wantsold": "EWantsOld", "toomanyfrac": "ETooManyFrac", "other": "EOther", "fetch": "EFetch"}[o.errKind]
		impl = "(SErr " + k + ")"
		cl = "search-error-" + o.errKind
	default:
		impl = fmt.Sprintf("(SOk %s %s %s)", casefile.Bool(o.partial), reqCoq(o.ids), o.obs.erased(sc.Erase).coq())
		cl = "search-complete"
		if o.partial {
			cl = "search-partial"
		}
	}
	usedCold := false
	for _, h := range o.ids {
		if h.Host >= base-countHosts(sc.Cold) {
			usedCold = true
		}
	}
	if usedCold {
		cl += "-cold"
	}
	w.Count(fmt.Sprintf("topology:hot=%dx%d,cold=%d", len(sc.Hot)+len(sc.HotRead), maxRepl(sc), len(sc.Cold)))
	cl += suffix
	if sc.Tag != "" {
		cl += "-" + sc.Tag
	}
	ctor := "CSearch"
	if sc.API != "" {
		ctor = "CApi"
	}
	if sc.Shuffle {
		cl += "-shuffled"
	}
	if hasExtras(sc) {
		w.Count("search:with-totals-hist-aggs")
	}
	for _, h := range allHosts(sc) {
		if h.Beh == "err" && h.ErrKind > 0 {
			w.Count("search:replica-refuses-with-" + []string{"", "status-DeadlineExceeded", "status-Canceled", "context.DeadlineExceeded", "context.Canceled"}[h.ErrKind] + "-while-request-context-alive")
		}
	}
	w.Add(fmt.Sprintf("%s %s %s %s %d %d %s %d%%N %d %s %s", ctor, hot, hotread, cold, sc.Off, sc.Size, casefile.Bool(sc.Rev),
		sc.Itv, sc.NAggs, natsCoq(ffail), impl),
		cl, hasFailure(sc), input, implJSON(o))
	if o.fetched {
		fc := "fetch-in-search"
		if streamsMisbehave {
			fc = "fetch-in-search-misbehaving"
		}
		fc += suffix
		w.Add(fmt.Sprintf("CFetch %s %s (FOk %s)", reqCoq(o.ids), streamsCoq(o.r), docsCoq(o.docs)),
			fc, len(o.ids) >= 2, input, implJSON(o))
	}
}

func hasExtras(sc *Script) bool {
	for _, h := range allHosts(sc) {
		if h.X != nil {
			return true
		}
	}
	return false
}

func countHosts(t [][]Host) int {
	n := 0
	for _, s := range t {
		n += len(s)
	}
	return n
}

func maxRepl(sc *Script) int {
	m := 0
	for _, t := range [][][]Host{sc.Hot, sc.HotRead, sc.Cold} {
		for _, s := range t {
			if len(s) > m {
				m = len(s)
			}
		}
	}
	return m
}

func hasFailure(sc *Script) bool {
	for _, h := range allHosts(sc) {
		if h.Beh != "ok" {
			return true
		}
	}
	return false
}

// ---------------------------------------------------------------- extension: rendering, merge, page

func (x *Extra) erased(erase bool) *Extra {
	if x == nil || !erase {
		return x
	}
	c := *x
	c.Aggs = nil
	for _, a := range x.Aggs {
		na := Agg{NE: a.NE}
		for _, b := range a.Bins {
			b.Samples = nil
			na.Bins = append(na.Bins, b)
		}
		c.Aggs = append(c.Aggs, na)
	}
	return &c
}

func (o *obsRest) erased(erase bool) *obsRest {
	if o == nil || !erase {
		return o
	}
	c := *o
	c.aggs = nil
	for _, a := range o.aggs {
		na := obsAgg{ne: a.ne}
		for _, b := range a.bins {
			b.samples = nil
			na.bins = append(na.bins, b)
		}
		c.aggs = append(c.aggs, na)
	}
	return &c
}

// the Fetch calls in call order: (host, FFail | FStream docs); bare = without the stream contents
func callsCoq(r *run, bare bool) string {
	var p []string
	for _, c := range r.calls {
		if c.failed {
			p = append(p, fmt.Sprintf("(%d, FFail)", c.host))
			continue
		}
		var ds []string
		if !bare {
			for _, d := range r.streams[c.host] {
				ds = append(ds, fmt.Sprintf("(%s, %d%%N)", d.id.coq(), d.tag))
			}
		}
		p = append(p, fmt.Sprintf("(%d, FStream [%s])", c.host, strings.Join(ds, "; ")))
	}
	return "[" + strings.Join(p, "; ") + "]"
}

func askedCoq(r *run) string {
	var p []string
	for _, c := range r.calls {
		p = append(p, fmt.Sprintf("(%d, %s)", c.host, idsCoq(c.ids)))
	}
	return "[" + strings.Join(p, "; ") + "]"
}

func recordFds(w *casefile.Writer, sc *Script, o *outcome, input any) {
	w.Count("fds:hosts=" + strconv.Itoa(len(sc.Hosts)))
	impl := "FdErr"
	cl := "fds-all-failed"
	if o.errKind != "fetch" {
		impl = "(FdOk " + docsCoq(o.docs) + ")"
		switch {
		case len(sc.Req) == 0:
			cl = "fds-empty-request"
		case len(o.r.fetchFail) > 0:
			cl = "fds-some-failed"
		default:
			cl = "fds-none-failed"
		}
	}
	for _, h := range sc.Hosts {
		for _, op := range h.Ops {
			if op.Op == "trunc" && op.Err {
				w.Count("fds:stream-breaks-after-k-docs")
			}
		}
	}
	w.Add(fmt.Sprintf("CFds %s %s %s %s", reqCoq(sc.Req), callsCoq(o.r, false), askedCoq(o.r), impl),
		cl, len(sc.Req) >= 2 && len(o.r.calls) >= 1, input, implJSON(o))
}

func extraToQPR(m *MergeIn) *seq.QPR {
	q := &seq.QPR{}
	for _, id := range m.IDs {
		q.IDs = append(q.IDs, seq.IDSource{ID: id.seq(), Source: uint64(m.Src), Hint: "f"})
	}
	if !m.NilHist {
		q.Histogram = map[seq.MID]uint64{}
	}
	if x := m.X; x != nil {
		q.Total = x.Total
		if !m.NilHist {
			for _, kv := range x.Hist {
				q.Histogram[seq.MID(kv[0])] = kv[1]
			}
		}
		for _, a := range x.Aggs {
			as := seq.AggregatableSamples{SamplesByBin: map[seq.AggBin]*seq.SamplesContainer{}, NotExists: a.NE}
			for _, b := range a.Bins {
				smp := make([]float64, len(b.Samples))
				for i, v := range b.Samples {
					smp[i] = float64(v)
				}
				as.SamplesByBin[seq.AggBin{MID: seq.MID(b.MID), Token: fmt.Sprintf("t%d", b.Tok)}] = &seq.SamplesContainer{
					Min: float64(b.Min), Max: float64(b.Max), Sum: float64(b.Sum), Total: b.Total, NotExists: b.NE, Samples: smp}
			}
			q.Aggs = append(q.Aggs, as)
		}
		for i := 0; i < x.Errs; i++ {
			q.Errors = append(q.Errors, seq.ErrorSource{ErrStr: "soft;", Source: uint64(m.Src)})
		}
	}
	return q
}

// executeMerge calls seq.MergeQPRs the way Ingestor.Search does
func executeMerge(sc *Script, o *outcome) {
	var qprs []*seq.QPR
	for i := range sc.Merge {
		qprs = append(qprs, extraToQPR(&sc.Merge[i]))
	}
	dst := &seq.QPR{Histogram: make(map[seq.MID]uint64), Aggs: make([]seq.AggregatableSamples, sc.NAggs)}
	order := seq.DocsOrderDesc
	if sc.Rev {
		order = seq.DocsOrderAsc
	}
	seq.MergeQPRs(dst, qprs, sc.Limit, seq.MID(sc.Itv), order)
	o.obs = obsFrom(dst)
	for _, x := range dst.IDs {
		o.ids = append(o.ids, ReqID{ID: ID{uint64(x.ID.MID), uint64(x.ID.RID)}, Host: int(x.Source)})
	}
}

func recordMerge(w *casefile.Writer, sc *Script, o *outcome, input any) {
	var qs, xs []string
	keys := map[uint64]int{}
	for _, m := range sc.Merge {
		qs = append(qs, fmt.Sprintf("(%d, %s)", m.Src, idsCoq(m.IDs)))
		x := m.X
		if x != nil && m.NilHist {
			c := *x
			c.Hist = nil
			x = &c
		}
		xs = append(xs, x.erased(sc.Erase).coq())
		if x != nil {
			for _, kv := range x.Hist {
				keys[kv[0]]++
			}
		}
	}
	cl := "merge-direct"
	if sc.Itv > 0 {
		shared := false
		for _, n := range keys {
			if n > 1 {
				shared = true
			}
		}
		if shared {
			cl = "merge-hist-overlapping-keys"
		} else {
			cl = "merge-hist-disjoint-keys"
		}
	}
	if sc.Erase {
		cl = "merge-agg-unbounded"
		w.Count("agg:bins-with->=8096-samples")
	}
	w.Count(fmt.Sprintf("merge:qprs=%d", len(sc.Merge)))
	w.Add(fmt.Sprintf("CMerge %s %d%%N %d %d [%s] [%s] %s %s", casefile.Bool(sc.Rev), sc.Itv, sc.Limit, sc.NAggs,
		strings.Join(qs, "; "), strings.Join(xs, "; "), reqCoq(o.ids), o.obs.erased(sc.Erase).coq()),
		cl, len(sc.Merge) >= 2, input, implJSON(o))
}

func recordPage(w *casefile.Writer, sc *Script, o *outcome, input any, hot, hotread, cold string) {
	kind := "KSearch"
	if sc.API == "complex" {
		kind = "KComplex"
	}
	hist := "None"
	if sc.API == "complex" && sc.Itv > 0 {
		hist = fmt.Sprintf("(Some %d%%N)", sc.Itv)
	}
	q := fmt.Sprintf("(mkAreq %s (%d)%%Z (%d)%%Z %s %s %s %s)", kind, sc.Off, sc.Size, casefile.Bool(sc.Rev), hist,
		casefile.Bool(sc.Explain), casefile.Bool(!sc.NoTotal))
	var impl, cl string
	switch o.api {
	case "grpc:invalid":
		impl, cl = "(DErr GInvalidArgument)", "page-invalid-argument"
	case "grpc:internal":
		impl, cl = "(DErr GInternal)", "page-internal"
	case "only-error":
		impl, cl = "DOnlyError", "page-only-error"
	default:
		code := "CNo"
		if o.apiCode == "partial" {
			code = "CPartial"
		}
		var ds []string
		for _, d := range o.docs {
			ds = append(ds, fmt.Sprintf("(%s, %d%%N)", d.id.coq(), d.tag))
		}
		h := "None"
		if o.apiHist {
			var hs []string
			for _, kv := range o.obs.hist {
				hs = append(hs, fmt.Sprintf("(%d%%N, %d%%Z)", kv[0], kv[1]))
			}
			h = "(Some [" + strings.Join(hs, "; ") + "])"
		}
		impl = fmt.Sprintf("(DResp %s %s [%s] (%d)%%Z %s)", casefile.Bool(o.apiFlag), code, strings.Join(ds, "; "), o.apiTotal, h)
		cl = "page-resp-" + o.apiCode
		if len(o.docs) == 0 {
			cl += "-no-docs"
		}
	}
	switch {
	case sc.Size <= 0 || sc.Off < 0:
		w.Count("page:size<=0-or-negative")
	case sc.Off >= 5:
		w.Count("page:offset-beyond-result")
	}
	if sc.Explain {
		w.Count("page:explain")
	}
	if len(o.r.fetchFail) > 0 {
		w.Count("page:some-fetch-call-failed")
	}
	w.Add(fmt.Sprintf("CPage %s %s %s %s %s %s %s", q, hot, hotread, cold, callsCoq(o.r, false), askedCoq(o.r), impl),
		cl+"-"+sc.API, hasFailure(sc) || len(o.r.fetchFail) > 0, input, implJSON(o))
}

// ---------------------------------------------------------------- extension: generators

// FetchDocsStream with scripted call failures: all fail / some fail / first fails / rare; streams that
// break with an error after k documents
func genFds(r *rng.R) *Script {
	sc := genFetch(r)
	sc.Fds = true
	mode := r.Intn(5)
	for i := range sc.Hosts {
		h := &sc.Hosts[i]
		switch mode {
		case 0:
			h.FetchKO = true
		case 1:
			h.FetchKO = r.Bool()
		case 2:
			h.FetchKO = i == 0
		default:
			h.FetchKO = r.Chance(1, 6)
		}
		if r.Chance(1, 3) {
			h.Ops = append(h.Ops, StreamOp{Op: "trunc", I: r.Intn(16), Err: true})
		}
	}
	return sc
}

func genBins(r *rng.R, mids []int) Agg {
	ag := Agg{NE: int64(r.Range(0, 2))}
	seen := map[[2]uint64]bool{}
	for k := r.Range(0, 3); k > 0; k-- {
		key := [2]uint64{uint64(rng.Pick(r, mids)), uint64(r.Range(0, 2))}
		if seen[key] {
			continue
		}
		seen[key] = true
		b := Bin{MID: key[0], Tok: key[1], NE: int64(r.Range(0, 2)), Total: int64(r.Range(0, 3))}
		fillBin(r, &b)
		ag.Bins = append(ag.Bins, b)
	}
	return ag
}

// fillBin draws b.Total integer values: Sum/Min/Max exact, three quarters of the values kept as samples
func fillBin(r *rng.R, b *Bin) {
	if b.Total > 0 {
		b.Min, b.Max = math.MaxInt32, math.MinInt32
		for i := int64(0); i < b.Total; i++ {
			v := int64(r.Range(-5, 20))
			b.Sum += v
			if v < b.Min {
				b.Min = v
			}
			if v > b.Max {
				b.Max = v
			}
			if b.Total > 100 || !r.Chance(1, 4) {
				b.Samples = append(b.Samples, v)
			}
		}
	} else if r.Chance(1, 2) {
		b.Min, b.Max, b.Sum = -7, 33, 5
	}
}

// seq.MergeQPRs directly: IDs around bucket borders, duplicates across (and inside) the answers,
// histogram keys shared by the answers or disjoint, zero counts, a nil histogram; big = one bin gets
// >= 8096 samples in total (the sample multiset is then left out of the case)
func genMerge(r *rng.R, big bool) *Script {
	sc := &Script{Kind: "merge", Rev: r.Chance(1, 3), Limit: r.Range(0, 12), NAggs: r.Range(0, 2)}
	sc.Itv = uint64(rng.Pick(r, []int{0, 1, 2, 5, 1000}))
	base := sc.Itv
	if base == 0 {
		base = 10
	}
	n := r.Range(0, 4)
	if big {
		n, sc.NAggs, sc.Erase = r.Range(2, 3), 1, true
	}
	shared := r.Bool()
	for i := 0; i < n; i++ {
		m := MergeIn{Src: i}
		if r.Chance(1, 8) {
			m.Src = r.Intn(n)
		}
		seen := map[ID]bool{}
		for k := r.Range(0, 6); k > 0; k-- {
			mid := uint64(r.Range(1, 3))*base + uint64(r.Range(0, 2)) - 1
			id := ID{mid, uint64(r.Range(0, 1))}
			if seen[id] && !r.Chance(1, 10) {
				continue
			}
			seen[id] = true
			m.IDs = append(m.IDs, id)
		}
		if !r.Chance(1, 8) {
			sort.Slice(m.IDs, func(a, b int) bool {
				x, y := m.IDs[a], m.IDs[b]
				if sc.Rev {
					x, y = y, x
				}
				return x.M > y.M || (x.M == y.M && x.R > y.R)
			})
		}
		if !r.Chance(1, 8) {
			x := &Extra{Total: uint64(r.Range(0, 12))}
			if r.Chance(1, 4) {
				x.Total = 0
			}
			if r.Chance(1, 30) {
				x.Total = 1<<63 + uint64(r.Intn(3))
			}
			hs := map[uint64]bool{}
			for k := r.Range(0, 4); k > 0; k-- {
				key := uint64(r.Range(0, 4)) * base
				if !shared {
					key = uint64(i*5+r.Range(0, 4)) * base
				}
				if hs[key] {
					continue
				}
				hs[key] = true
				x.Hist = append(x.Hist, [2]uint64{key, uint64(r.Range(0, 3))})
			}
			na := sc.NAggs
			if na > 0 && r.Chance(1, 6) {
				na--
			}
			for a := 0; a < na; a++ {
				ag := genBins(r, []int{0, 5})
				if big && a == 0 {
					b := Bin{MID: 0, Tok: 9, NE: int64(r.Range(0, 2)), Total: int64(r.Range(3000, 5000))}
					if i == 0 {
						b.Total += 3000
					}
					fillBin(r, &b)
					ag.Bins = append(ag.Bins, b)
				}
				x.Aggs = append(x.Aggs, ag)
			}
			if r.Chance(1, 8) {
				x.Errs = r.Range(1, 2)
			}
			m.X = x
			m.NilHist = r.Chance(1, 8)
		}
		sc.Merge = append(sc.Merge, m)
	}
	return sc
}

// the whole API response: paging shapes (size 0, negative size / offset, offset beyond the result, small
// pages inside the result), explain, with_total, any pattern of failing fetch calls, totals above 2^63
func genPage(r *rng.R) *Script {
	sc := genSearch(r)
	sc.Page, sc.Shuffle, sc.NoFetch, sc.NAggs, sc.Itv = true, false, false, 0, 0
	sc.API = "search"
	if r.Bool() {
		sc.API = "complex"
	}
	switch r.Intn(8) {
	case 0:
		sc.Size = 0
	case 1:
		sc.Off = r.Range(5, 30)
	case 2:
		if r.Bool() {
			sc.Size = -r.Range(1, 3)
		} else {
			sc.Off = -r.Range(1, 3)
		}
	case 3, 4:
		sc.Off, sc.Size = r.Range(0, 4), r.Range(1, 3)
	default:
		if sc.Size == 0 {
			sc.Size = r.Range(1, 8)
		}
	}
	sc.Explain, sc.NoTotal = r.Chance(1, 4), r.Chance(1, 3)
	limit := sc.Off + sc.Size
	if limit < 0 {
		limit = 0
	}
	disjoint := r.Bool()
	si := 0
	for _, tier := range [][][]Host{sc.Hot, sc.HotRead, sc.Cold} {
		for s := range tier {
			for k := range tier[s] {
				h := &tier[s][k]
				h.X, h.FetchKO = nil, false
				if h.Beh == "ok" {
					h.IDs = genIDs(r, si, disjoint, limit, sc.Rev)
					if sc.Size == 0 && r.Bool() { // stores answering a hist-only query still report IDs sometimes
						h.IDs = genIDs(r, si, disjoint, 6, sc.Rev)
					}
				}
			}
			si++
		}
	}
	genExtras(r, sc)
	if r.Chance(1, 20) {
		for _, h := range allHosts(sc) {
			if h.X != nil {
				h.X.Total = 1<<63 + uint64(r.Intn(4))
				break
			}
		}
	}
	switch r.Intn(6) {
	case 0:
		for _, h := range allHosts(sc) {
			h.FetchKO = true
		}
	case 1, 2:
		for _, h := range allHosts(sc) {
			h.FetchKO = r.Chance(1, 3)
		}
	}
	return sc
}

// aggregation bins that receive >= 8096 samples through Ingestor.Search (reservoir replacement)
func genAggBig(r *rng.R) *Script {
	sc := &Script{Kind: "search", Off: 0, Size: r.Range(1, 4), NAggs: 1, Erase: true, Tag: "agg-unbounded", NoFetch: true}
	n := r.Range(2, 3)
	for s := 0; s < n; s++ {
		h := Host{Beh: "ok", IDs: genIDs(r, s, false, sc.Size, false)}
		ag := genBins(r, []int{0, 5})
		b := Bin{MID: 0, Tok: 9, NE: int64(r.Range(0, 2)), Total: int64(r.Range(3000, 5000))}
		if s == 0 {
			b.Total += 3000
		}
		fillBin(r, &b)
		ag.Bins = append(ag.Bins, b)
		h.X = &Extra{Total: uint64(r.Range(0, 12)), Aggs: []Agg{ag}}
		reps := []Host{h}
		if r.Bool() {
			reps = []Host{{Beh: "err"}, h}
		}
		sc.Hot = append(sc.Hot, reps)
	}
	if r.Chance(1, 3) {
		sc.Hot = append(sc.Hot, []Host{{Beh: "err"}})
	}
	return sc
}

// histogram key sets through Ingestor.Search / ComplexSearch: IDs on bucket borders held by two shards,
// shards reporting disjoint or overlapping (or zero) buckets
func genHist(r *rng.R) *Script {
	sc := &Script{Kind: "search", Off: r.Range(0, 2), Size: r.Range(1, 8), Rev: r.Chance(1, 4), Tag: "histkeys"}
	sc.Itv = uint64(rng.Pick(r, []int{1, 2, 5, 1000}))
	if r.Chance(1, 3) {
		sc.API = "complex"
	}
	shared := r.Bool()
	n := r.Range(2, 3)
	for s := 0; s < n; s++ {
		h := Host{Beh: "ok"}
		seen := map[ID]bool{}
		for k := r.Range(0, 5); k > 0; k-- {
			id := ID{uint64(r.Range(1, 3))*sc.Itv + uint64(r.Range(0, 2)) - 1, uint64(r.Range(0, 1))}
			if !seen[id] {
				seen[id] = true
				h.IDs = append(h.IDs, id)
			}
		}
		sort.Slice(h.IDs, func(a, b int) bool {
			x, y := h.IDs[a], h.IDs[b]
			if sc.Rev {
				x, y = y, x
			}
			return x.M > y.M || (x.M == y.M && x.R > y.R)
		})
		x := &Extra{Total: uint64(r.Range(0, 12))}
		hs := map[uint64]bool{}
		for k := r.Range(0, 4); k > 0; k-- {
			key := uint64(r.Range(0, 4)) * sc.Itv
			if !shared {
				key = uint64(s*5+r.Range(0, 4)) * sc.Itv
			}
			if !hs[key] {
				hs[key] = true
				x.Hist = append(x.Hist, [2]uint64{key, uint64(r.Range(0, 3))})
			}
		}
		h.X = x
		reps := []Host{h}
		if r.Chance(1, 4) {
			reps = []Host{{Beh: "err"}, h}
		}
		sc.Hot = append(sc.Hot, reps)
	}
	if r.Chance(1, 4) {
		sc.Hot = append(sc.Hot, []Host{{Beh: "err"}})
	}
	return sc
}

// ---------------------------------------------------------------- generators

var behs = []string{"ok", "err", "wantsold", "toomanyfrac", "toomanyuniq"}

// answer of a store: IDs from a small pool so that shards overlap (unless disjoint: RID marks the shard)
func genIDs(r *rng.R, shard int, disjoint bool, limit int, rev bool) []ID {
	n := r.Range(0, 7)
	seen := map[ID]bool{}
	var l []ID
	for i := 0; i < n; i++ {
		id := ID{uint64(r.Range(1, 9)), uint64(r.Range(0, 2))}
		if disjoint {
			id.R = uint64(shard*10 + r.Range(0, 2))
		}
		if seen[id] && !r.Chance(1, 10) {
			continue
		}
		seen[id] = true
		l = append(l, id)
	}
	if !r.Chance(1, 8) { // real stores answer sorted and limited
		sort.Slice(l, func(i, j int) bool {
			a, b := l[i], l[j]
			if rev {
				a, b = b, a
			}
			return a.M > b.M || (a.M == b.M && a.R > b.R)
		})
		if len(l) > limit {
			l = l[:limit]
		}
	}
	return l
}

func genOps(r *rng.R) []StreamOp {
	if r.Chance(1, 2) {
		return nil
	}
	var ops []StreamOp
	for k := r.Range(1, 3); k > 0; k-- {
		op := StreamOp{I: r.Intn(16)}
		switch r.Intn(9) {
		case 0, 1:
			op.Op = "drop"
		case 2:
			op.Op = "blank"
		case 3:
			op.Op = "trunc"
			op.Err = r.Bool()
		case 4, 5:
			op.Op = "extra"
			op.ID = &ID{uint64(r.Range(1, 10)), uint64(r.Range(0, 3))}
			if r.Chance(1, 3) {
				op.I = 0 // at the head of the stream
			}
		case 6:
			op.Op = "swap"
		case 7:
			op.Op = "dup"
		case 8:
			op.Op = "rev"
		}
		ops = append(ops, op)
	}
	return ops
}

func genTier(r *rng.R, nsh, nrep int, sc *Script, disjoint bool, okBias int, shardBase int) [][]Host {
	var t [][]Host
	for s := 0; s < nsh; s++ {
		var reps []Host
		for k := r.Range(1, nrep); k > 0; k-- {
			h := Host{Beh: "ok", Legacy: r.Bool(), NoHint: r.Chance(1, 6)}
			if !r.Chance(okBias, 10) {
				h.Beh = rng.Pick(r, behs)
			}
			if h.Beh == "err" {
				h.ErrKind = r.Intn(5)
			}
			if h.Beh == "ok" {
				h.IDs = genIDs(r, shardBase+s, disjoint, sc.Off+sc.Size, sc.Rev)
			}
			h.Ops = genOps(r)
			reps = append(reps, h)
		}
		t = append(t, reps)
	}
	return t
}

func genSearch(r *rng.R) *Script {
	sc := &Script{Kind: "search", Off: r.Range(0, 3), Size: r.Range(0, 8), Rev: r.Chance(1, 4), NoFetch: r.Chance(1, 12)}
	if r.Chance(1, 6) {
		sc.Off = r.Range(0, 9)
	}
	disjoint := r.Bool()
	okBias := r.Range(3, 9)
	hot := genTier(r, r.Range(1, 3), 3, sc, disjoint, okBias, 0)
	if r.Chance(1, 5) {
		sc.HotRead = hot
		if r.Bool() {
			sc.Hot = genTier(r, 1, 2, sc, disjoint, okBias, 3)
		}
	} else {
		sc.Hot = hot
	}
	if r.Chance(2, 3) {
		sc.Cold = genTier(r, r.Range(1, 3), 2, sc, disjoint, okBias, 6)
	}
	if r.Chance(1, 3) { // make the cold fallback likely
		t := hot
		h := &t[r.Intn(len(t))][0]
		h.Beh, h.IDs = "wantsold", nil
	}
	sc.Shuffle = r.Chance(1, 4)
	switch r.Intn(8) {
	case 0, 1:
		sc.API = "search"
	case 2, 3:
		sc.API = "complex"
	}
	if sc.API != "" {
		sc.NoFetch = false
		if sc.Size == 0 {
			sc.Size = r.Range(1, 8)
		}
	}
	if r.Chance(1, 2) {
		genExtras(r, sc)
	}
	// fetch call failures: a strict subset only when no ID can come from two stores
	hs := allHosts(sc)
	switch {
	case r.Chance(1, 25):
		for _, h := range hs {
			h.FetchKO = true
		}
	case disjoint && r.Chance(1, 5):
		for _, h := range hs {
			h.FetchKO = r.Chance(1, 3)
		}
	}
	return sc
}

// totals, histograms, aggregations and soft errors of the ok replicas
func genExtras(r *rng.R, sc *Script) {
	if sc.API != "search" && r.Chance(2, 3) {
		sc.Itv = uint64(rng.Pick(r, []int{1, 2, 5}))
	}
	if sc.API == "" {
		sc.NAggs = r.Range(0, 2)
	}
	withHist := sc.API == "" || (sc.API == "complex" && sc.Itv > 0)
	softErrs := r.Chance(1, 3)
	for _, h := range allHosts(sc) {
		if h.Beh != "ok" {
			continue
		}
		x := &Extra{Total: uint64(r.Range(0, 12))}
		if r.Chance(1, 4) {
			x.Total = 0
		}
		if withHist && r.Chance(3, 4) {
			itv := sc.Itv
			if itv == 0 {
				itv = 2
			}
			seen := map[uint64]bool{}
			for k := r.Range(0, 4); k > 0; k-- {
				key := uint64(r.Range(0, 5)) * itv
				if seen[key] {
					continue
				}
				seen[key] = true
				x.Hist = append(x.Hist, [2]uint64{key, uint64(r.Range(0, 4))})
			}
		}
		na := sc.NAggs
		if na > 0 && r.Chance(1, 6) {
			na--
		}
		for a := 0; a < na; a++ {
			ag := Agg{NE: int64(r.Range(0, 2))}
			seen := map[[2]uint64]bool{}
			for k := r.Range(0, 3); k > 0; k-- {
				key := [2]uint64{uint64(rng.Pick(r, []int{0, 5})), uint64(r.Range(0, 2))}
				if seen[key] {
					continue
				}
				seen[key] = true
				b := Bin{MID: key[0], Tok: key[1], NE: int64(r.Range(0, 2)), Total: int64(r.Range(0, 3))}
				if b.Total > 0 {
					b.Min, b.Max = math.MaxInt32, math.MinInt32
					for i := int64(0); i < b.Total; i++ {
						v := int64(r.Range(-5, 20))
						b.Sum += v
						if v < b.Min {
							b.Min = v
						}
						if v > b.Max {
							b.Max = v
						}
						if !r.Chance(1, 4) {
							b.Samples = append(b.Samples, v)
						}
					}
				} else if r.Chance(1, 2) { // stale fields of an empty container must be ignored
					b.Min, b.Max, b.Sum = -7, 33, 5
				}
				ag.Bins = append(ag.Bins, b)
			}
			x.Aggs = append(x.Aggs, ag)
		}
		if softErrs && r.Chance(1, 3) {
			x.Errs = r.Range(1, 2)
		}
		h.X = x
	}
}

// a sequence of 2-5 searches on one Ingestor: the topology stays, the replicas' behaviours change
// from search to search (rolling restarts: a replica failing in one search answers in the next and
// the other way round, at every position)
func genSeq(r *rng.R) *Script {
	base := genSearch(r)
	sq := &Script{Kind: "seq", Shuffle: r.Chance(1, 3)}
	base.Shuffle = sq.Shuffle
	if r.Chance(1, 2) {
		base.API = ""
	}
	n := r.Range(2, 5)
	prev := base
	down := r.Intn(3) // position of the replica that is down, moves from search to search
	for k := 0; k < n; k++ {
		st := prev
		if k > 0 {
			b, _ := json.Marshal(prev)
			st = &Script{}
			json.Unmarshal(b, st)
			st.Off, st.Size = r.Range(0, 2), r.Range(1, 8)
			mode := r.Intn(3)
			for _, tier := range [][][]Host{st.Hot, st.HotRead, st.Cold} {
				for si := range tier {
					for ri := range tier[si] {
						h := &tier[si][ri]
						switch {
						case mode == 0: // rolling restart: exactly the replica at position `down` fails
							h.Beh = "ok"
							if ri == down%len(tier[si]) {
								h.Beh = "err"
							}
						case mode == 1 && (h.Beh == "ok" || h.Beh == "err"): // flip
							if r.Chance(1, 2) {
								if h.Beh == "ok" {
									h.Beh = "err"
								} else {
									h.Beh = "ok"
								}
							}
						case mode == 2 && r.Chance(1, 3):
							h.Beh = rng.Pick(r, behs)
						}
						h.IDs, h.X, h.ErrKind = nil, nil, 0
						if h.Beh == "ok" {
							h.IDs = genIDs(r, si, false, st.Off+st.Size, st.Rev)
						}
						if h.Beh == "err" {
							h.ErrKind = r.Intn(5)
						}
						h.FetchKO = false
						h.Ops = genOps(r)
					}
				}
			}
			st.Itv, st.NAggs = 0, 0
			if r.Chance(1, 3) {
				genExtras(r, st)
			}
			down++
		}
		sq.Steps = append(sq.Steps, st)
		prev = st
	}
	return sq
}

// Ingestor.Documents: every store is asked for every ID
func genDocs(r *rng.R) *Script {
	sc := &Script{Kind: "docs"}
	nh := r.Range(1, 3)
	allKO := r.Chance(1, 10)
	for i := 0; i < nh; i++ {
		h := Host{FetchKO: r.Chance(1, 12)}
		if allKO {
			h.FetchKO = true
		}
		if !r.Chance(1, 5) {
			h.Ops = append(h.Ops, StreamOp{Op: "mask", I: r.Intn(1 << 16)})
		}
		if r.Chance(1, 3) {
			h.Ops = append(h.Ops, genOps(r)...)
		}
		sc.Hosts = append(sc.Hosts, h)
	}
	seen := map[ID]bool{}
	for k := r.Range(0, 6); k > 0; k-- {
		id := ID{uint64(r.Range(1, 9)), uint64(r.Range(0, 2))}
		if seen[id] && !r.Chance(1, 8) {
			continue
		}
		seen[id] = true
		sc.Orig = append(sc.Orig, id)
		if r.Chance(1, 25) {
			sc.Orig = append(sc.Orig, id) // the same ID twice in a row
		}
	}
	return sc
}

func genFetch(r *rng.R) *Script {
	sc := &Script{Kind: "fetch"}
	nh := r.Range(1, 4)
	for i := 0; i < nh; i++ {
		sc.Hosts = append(sc.Hosts, Host{Ops: genOps(r), FetchKO: r.Chance(1, 10)})
	}
	n := r.Range(0, 10)
	seen := map[string]bool{}
	for i := 0; i < n; i++ {
		q := ReqID{ID: ID{uint64(r.Range(1, 9)), uint64(r.Range(0, 2))}, Host: r.Intn(nh), Hint: !r.Chance(1, 6)}
		k := fmt.Sprint(q.ID, q.Host)
		if seen[k] && !r.Chance(1, 20) {
			continue
		}
		seen[k] = true
		sc.Req = append(sc.Req, q)
	}
	if r.Chance(2, 3) { // the search path requests IDs in response order
		sort.SliceStable(sc.Req, func(i, j int) bool {
			a, b := sc.Req[i].ID, sc.Req[j].ID
			return a.M > b.M || (a.M == b.M && a.R > b.R)
		})
	}
	return sc
}

// exhaustive: 2 shards x 2 replicas, every assignment of the 5 behaviours, with and without a
// cold tier of one store in each of {ok, err, wantsold}
func genExhaustive() []*Script {
	var out []*Script
	idsOf := [][]ID{{{9, 0}, {7, 1}, {3, 0}}, {{8, 0}, {7, 1}}, {{9, 0}, {6, 2}, {5, 0}, {2, 0}}, {{4, 0}}}
	colds := []string{"", "ok", "err", "wantsold"}
	for a := 0; a < 625; a++ {
		for _, c := range colds {
			sc := &Script{Kind: "search", Off: a % 2, Size: 4}
			x := a
			var hosts []Host
			for i := 0; i < 4; i++ {
				h := Host{Beh: behs[x%5], Legacy: (a+i)%2 == 0}
				if h.Beh == "err" {
					h.ErrKind = (a/5 + i) % 5
				}
				x /= 5
				if h.Beh == "ok" {
					h.IDs = idsOf[i]
				}
				hosts = append(hosts, h)
			}
			sc.Hot = [][]Host{{hosts[0], hosts[1]}, {hosts[2], hosts[3]}}
			if c != "" {
				h := Host{Beh: c}
				if c == "ok" {
					h.IDs = []ID{{1, 1}, {1, 0}}
				}
				sc.Cold = [][]Host{{h}}
			}
			out = append(out, sc)
		}
	}
	return out
}

// ---------------------------------------------------------------- main

func runAll(w *casefile.Writer, scripts []*Script) {
	outs := make([][]*outcome, len(scripts))
	var wg sync.WaitGroup
	ch := make(chan int)
	for k := 0; k < 4; k++ {
		wg.Add(1)
		go func() {
			defer wg.Done()
			for i := range ch {
				outs[i] = execute(scripts[i])
			}
		}()
	}
	for i := range scripts {
		ch <- i
	}
	close(ch)
	wg.Wait()
	for i, sc := range scripts {
		recordAll(w, sc, outs[i])
	}
}

func recordAll(w *casefile.Writer, sc *Script, outs []*outcome) {
	if sc.Kind != "seq" {
		record(w, sc, outs[0], sc, "")
		return
	}
	w.Count(fmt.Sprintf("sequence:searches=%d", len(sc.Steps)))
	for k, st := range sc.Steps {
		in := *sc
		in.At = k
		record(w, st, outs[k], &in, "-seq")
	}
}

func refuseCases(w *casefile.Writer, r *rng.R, n int) {
	vals := []uint64{0, 1, 2, 999, 1000, 1001, 1 << 40}
	for i := 0; i < n; i++ {
		o, f := rng.Pick(r, vals), rng.Pick(r, vals)
		if r.Chance(1, 3) {
			o, f = uint64(r.Intn(50)), uint64(r.Intn(50))
		}
		got := realstore.VerifC16EarlierThanOldestFrac(o, f)
		w.Add(fmt.Sprintf("CRefuse %d%%N %d%%N %s", o, f, casefile.Bool(got)), "hot-refusal", o != 0,
			map[string]any{"oldest_ct": o, "from": f}, got)
	}
}

func main() {
	seed := flag.Uint64("seed", 1, "")
	tier := flag.String("tier", "quick", "")
	out := flag.String("out", "", "")
	replay := flag.String("replay", "", "")
	flag.Parse()
	if *out == "" {
		fmt.Fprintln(os.Stderr, "need -out")
		os.Exit(2)
	}
	logger.SetLevel(zapcore.FatalLevel)
	w, err := casefile.New(*out, "C16", "From VLib Require Import CaseLib.\nFrom C16 Require Import Model ModelExt ModelDeadline ModelRetain CaseDefs.", 300)
	if err != nil {
		panic(err)
	}
	if *replay != "" {
		doReplay(w, *replay)
		if err := w.Close(); err != nil {
			panic(err)
		}
		return
	}
	r := rng.New(*seed)
	nSearch, nSeq, nFetch, nDocs := 2500, 1000, 2000, 1200
	nFds, nMerge, nMergeBig, nPage, nAggBig, nHist := 700, 600, 8, 800, 6, 350
	if *tier == "thorough" {
		nSearch, nSeq, nFetch, nDocs = 40000, 15000, 25000, 12000
		nFds, nMerge, nMergeBig, nPage, nAggBig, nHist = 4000, 4000, 40, 5000, 30, 2000
	}
	scripts := genExhaustive()
	w.Exhaust = true
	w.Extra["exhaustive_scope"] = "hot tier of 2 shards x 2 replicas: all 5^4 assignments of {ok, error, wants-old, too-many-fractions, too-many-uniq} x cold tier {none, ok, error, wants-old}"
	for i := 0; i < nSearch; i++ {
		scripts = append(scripts, genSearch(r.Fork()))
	}
	for i := 0; i < nSeq; i++ {
		scripts = append(scripts, genSeq(r.Fork()))
	}
	for i := 0; i < nFetch; i++ {
		scripts = append(scripts, genFetch(r.Fork()))
	}
	for i := 0; i < nDocs; i++ {
		scripts = append(scripts, genDocs(r.Fork()))
	}
	for i := 0; i < nFds; i++ {
		scripts = append(scripts, genFds(r.Fork()))
	}
	for i := 0; i < nMerge; i++ {
		scripts = append(scripts, genMerge(r.Fork(), false))
	}
	for i := 0; i < nMergeBig; i++ {
		scripts = append(scripts, genMerge(r.Fork(), true))
	}
	for i := 0; i < nPage; i++ {
		scripts = append(scripts, genPage(r.Fork()))
	}
	for i := 0; i < nAggBig; i++ {
		scripts = append(scripts, genAggBig(r.Fork()))
	}
	for i := 0; i < nHist; i++ {
		scripts = append(scripts, genHist(r.Fork()))
	}
	nDl := 260
	if *tier == "thorough" {
		nDl = 4000
	}
	scripts = append(scripts, genDlBoundary()...)
	nRetain := 1
	if *tier == "thorough" {
		nRetain = 4
	}
	for i := 0; i < nRetain; i++ {
		scripts = append(scripts, genRetain()...)
	}
	for i := 0; i < nDl; i++ {
		scripts = append(scripts, genDl(r.Fork()))
	}
	runAll(w, scripts)
	refuseCases(w, r, 200)
	if err := w.Close(); err != nil {
		panic(err)
	}
}

// replay: the file is a replay JSON written by the check; re-run the stored script
func doReplay(w *casefile.Writer, path string) {
	b, err := os.ReadFile(path)
	if err != nil {
		panic(err)
	}
	var rp struct {
		Replay struct {
			Case struct {
				Input json.RawMessage `json:"input"`
			} `json:"case"`
			Input json.RawMessage `json:"input"`
		} `json:"replay"`
	}
	if err := json.Unmarshal(b, &rp); err != nil {
		panic(err)
	}
	raw := rp.Replay.Input
	if len(raw) == 0 {
		raw = rp.Replay.Case.Input
	}
	var sc Script
	if err := json.Unmarshal(raw, &sc); err != nil {
		panic(err)
	}
	outs := execute(&sc)
	for k, o := range outs {
		fmt.Printf("replay: search %d: panic=%q hung=%v result=%v\n", k, o.panicked, o.hung, implJSON(o))
	}
	recordAll(w, &sc, outs)
}
