package main

import (
	"encoding/json"
	"fmt"
	"path/filepath"
	"sync/atomic"
	"time"

	"github.com/ozontech/seq-db/verifhook"

	"github.com/ozontech/seq-db/frac"

	"verif/harness/internal/storectl"
)

// Operations executed inside the controlled child process (real FracManager code).

type fracObs struct {
	Name   string `json:"name"`
	Kind   string `json:"kind"` // sealed | active
	Docs   uint32 `json:"docs"`
	From   uint64 `json:"from"`
	To     uint64 `json:"to"`
	DocsOD uint64 `json:"docs_od"`
	IdxOD  uint64 `json:"idx_od"`
	MetaOD uint64 `json:"meta_od"`
	Full   uint64 `json:"full"`
}

type extraReq struct {
	Limit uint64 `json:"limit,omitempty"`
	Park  string `json:"park,omitempty"` // c15.sealrace: schedule point of proxyFrac.Seal at which the seal is parked
	Hold  bool   `json:"hold,omitempty"` // c15.sealrace: keep Release back (at seal.swapped) until the retention pass has finished
}

type extraResp struct {
	Fracs []fracObs `json:"fracs"`
}

func childInfos(c *storectl.Child) storectl.Resp {
	var out extraResp
	if c.FM != nil {
		for _, f := range c.FM.GetAllFracs() {
			i := f.Info()
			kind := "active"
			if _, ok := f.(*frac.Sealed); ok || i.IndexOnDisk > 0 {
				kind = "sealed"
			}
			out.Fracs = append(out.Fracs, fracObs{Name: filepath.Base(i.Path), Kind: kind, Docs: i.DocsTotal,
				From: uint64(i.From), To: uint64(i.To), DocsOD: i.DocsOnDisk, IdxOD: i.IndexOnDisk, MetaOD: i.MetaOnDisk, Full: i.FullSize()})
		}
	}
	b, _ := json.Marshal(out)
	return storectl.Resp{Extra: b}
}

func registerChildOps() {
	storectl.Register("c15.info", func(c *storectl.Child, r storectl.Req) (storectl.Resp, error) {
		return childInfos(c), nil
	})
	storectl.Register("c15.rotate", func(c *storectl.Child, r storectl.Req) (storectl.Resp, error) {
		c.FM.WaitIdle()
		c.FM.VerifC15Rotate()
		return childInfos(c), nil
	})
	storectl.Register("c15.shrink", func(c *storectl.Child, r storectl.Req) (storectl.Resp, error) {
		var e extraReq
		if len(r.Extra) > 0 {
			if err := json.Unmarshal(r.Extra, &e); err != nil {
				return storectl.Resp{}, err
			}
		}
		c.FM.VerifC15SetTotalSize(e.Limit)
		c.FM.VerifC15ShrinkSizes()
		return childInfos(c), nil
	})
	// retention during a seal: rotate, seal the previous active fraction in the background (as the
	// maintenance step does), park the seal at a schedule point, run the real retention pass with a
	// limit that evicts that fraction, let the seal go on, wait for both
	storectl.Register("c15.sealrace", func(c *storectl.Child, r storectl.Req) (storectl.Resp, error) {
		var e extraReq
		if err := json.Unmarshal(r.Extra, &e); err != nil {
			return storectl.Resp{}, err
		}
		parked, release := make(chan struct{}), make(chan struct{})
		release2 := make(chan struct{})
		var stage atomic.Int32
		verifhook.Set(func(name string) { // names of other properties' points are ignored
			switch {
			case name == e.Park && stage.CompareAndSwap(0, 1):
				close(parked)
				<-release
			case e.Hold && name == "seal.swapped" && e.Park != "seal.swapped" && stage.CompareAndSwap(1, 2):
				<-release2
			}
		})
		defer verifhook.Set(nil)
		c.FM.WaitIdle()
		done := c.FM.VerifC15RotateSealAsync()
		select {
		case <-parked:
		case <-done:
			return storectl.Resp{}, fmt.Errorf("seal finished without reaching %s", e.Park)
		case <-time.After(60 * time.Second):
			return storectl.Resp{}, fmt.Errorf("seal did not reach %s", e.Park)
		}
		fr := c.FM.GetAllFracs()
		var limit uint64
		if len(fr) > 0 {
			limit = fr[len(fr)-1].Info().FullSize() // only the new active fraction may stay
		}
		c.FM.VerifC15SetTotalSize(limit)
		shrunk := make(chan struct{})
		go func() {
			defer close(shrunk)
			c.FM.VerifC15ShrinkSizes()
		}()
		// give the pass time to reach the fraction: it blocks in proxyFrac.Suicide while the seal is parked
		// before the swap, and finishes on its own when the seal is parked after it
		select {
		case <-shrunk:
		case <-time.After(40 * time.Millisecond):
		}
		close(release)
		if e.Hold {
			select {
			case <-shrunk:
			case <-time.After(60 * time.Second):
			}
		}
		close(release2)
		<-done
		<-shrunk
		c.FM.VerifC15SetTotalSize(1 << 42)
		return childInfos(c), nil
	})
	storectl.Register("c15.synccache", func(c *storectl.Child, r storectl.Req) (storectl.Resp, error) {
		return childInfos(c), c.FM.VerifC15SyncCache()
	})
}
