package main

import (
	"encoding/json"
	"path/filepath"

	"github.com/ozontech/seq-db/frac"

	"verif/harness/internal/storectl"
)

// Operations executed inside the controlled child process (real FracManager code).

type fracObs struct {
	Name   string `json:"name"`
	Kind   string `json:"kind"` // sealed | active
	Docs   uint32 `json:"docs"`
	From   uint64 `json:"from"`
	To     uint64 `json:"to"`
	DocsOD uint64 `json:"docs_od"`
	IdxOD  uint64 `json:"idx_od"`
	MetaOD uint64 `json:"meta_od"`
	Full   uint64 `json:"full"`
}

type extraReq struct {
	Limit uint64 `json:"limit,omitempty"`
}

type extraResp struct {
	Fracs []fracObs `json:"fracs"`
}

func childInfos(c *storectl.Child) storectl.Resp {
	var out extraResp
	if c.FM != nil {
		for _, f := range c.FM.GetAllFracs() {
			i := f.Info()
			kind := "active"
			if _, ok := f.(*frac.Sealed); ok || i.IndexOnDisk > 0 {
				kind = "sealed"
			}
			out.Fracs = append(out.Fracs, fracObs{Name: filepath.Base(i.Path), Kind: kind, Docs: i.DocsTotal,
				From: uint64(i.From), To: uint64(i.To), DocsOD: i.DocsOnDisk, IdxOD: i.IndexOnDisk, MetaOD: i.MetaOnDisk, Full: i.FullSize()})
		}
	}
	b, _ := json.Marshal(out)
	return storectl.Resp{Extra: b}
}

func registerChildOps() {
	storectl.Register("c15.info", func(c *storectl.Child, r storectl.Req) (storectl.Resp, error) {
		return childInfos(c), nil
	})
	storectl.Register("c15.rotate", func(c *storectl.Child, r storectl.Req) (storectl.Resp, error) {
		c.FM.WaitIdle()
		c.FM.VerifC15Rotate()
		return childInfos(c), nil
	})
	storectl.Register("c15.shrink", func(c *storectl.Child, r storectl.Req) (storectl.Resp, error) {
		var e extraReq
		if len(r.Extra) > 0 {
			if err := json.Unmarshal(r.Extra, &e); err != nil {
				return storectl.Resp{}, err
			}
		}
		c.FM.VerifC15SetTotalSize(e.Limit)
		c.FM.VerifC15ShrinkSizes()
		return childInfos(c), nil
	})
	storectl.Register("c15.synccache", func(c *storectl.Child, r storectl.Req) (storectl.Resp, error) {
		return childInfos(c), c.FM.VerifC15SyncCache()
	})
}
