// hC15 — correspondence driver for property C15 (start-up, retention and deletion are crash-safe
// and only drop the oldest data).
//
// The real FracManager runs in a child process under strace (harness/internal/storectl + crashfs).
// A generated history (bulk / rotate+seal / rotate / retention pass / cache save) is executed, the
// file operations it issued are projected per fraction and compared with the model's programs
// (COps), every crash point at a create/rename/unlink boundary is materialised and a fresh child is
// started on it (CLoad: exit status, fractions served, documents fetched, files left), selected
// crash states are continued by a second traced history (restart + rotate + retention) whose crash
// points are explored in the same way. Retention passes give CShrink cases, restarts with
// absent / stale / truncated / foreign / tampered .frac-cache give CCache cases, and all 2^7 file
// sets of one fraction built from real files give CSweep cases.
package main

import (
	"flag"
	"fmt"
	"os"
	"time"

	"verif/harness/internal/casefile"
	"verif/harness/internal/rng"
	"verif/harness/internal/storectl"
)

func main() {
	registerChildOps()
	registerChildOpsExt()
	storectl.MaybeChild()

	seed := flag.Uint64("seed", 1, "seed")
	tier := flag.String("tier", "quick", "quick|thorough")
	out := flag.String("out", "", "output directory")
	replay := flag.String("replay", "", "replay file (unused: replays are self-describing)")
	explore := flag.Bool("explore", false, "print the trace of one history and exit")
	only := flag.String("only", "", "development: run only one group of classes (proxy)")
	flag.Parse()
	_ = replay

	if *explore {
		exploreMain(*seed)
		return
	}
	if *out == "" {
		fmt.Fprintln(os.Stderr, "-out required")
		os.Exit(2)
	}
	w, err := casefile.New(*out, "C15", "From VLib Require Import CaseLib.\nFrom C15 Require Import Model ModelPar ModelPL ModelUse ModelProxy CaseDefs.", 150)
	if err != nil {
		panic(err)
	}
	t0 := time.Now()
	d := newDriver(w, rng.New(*seed), *tier)
	defer d.cleanup()
	if *only == "proxy" {
		for _, sorted := range []bool{true, false} {
			d.proxyScripts(0, sorted)
		}
	} else {
		d.run()
	}
	w.Extra["harness_wall_s"] = time.Since(t0).Seconds()
	if err := w.Close(); err != nil {
		panic(err)
	}
	d.cleanup()
}
