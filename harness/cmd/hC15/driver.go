package main

import (
	"bytes"
	"encoding/hex"
	"encoding/json"
	"errors"
	"fmt"
	"os"
	"path/filepath"
	"sort"
	"strings"
	"sync"

	"verif/harness/internal/casefile"
	"verif/harness/internal/crashfs"
	"verif/harness/internal/rng"
	"verif/harness/internal/storectl"
)

const workers = 6

// ------------------------------------------------------------------------------- file kinds

// suffix -> Coq constructor of Model.kind
var kindOf = map[string]string{
	".docs": "KDocs", ".docs.del": "KDocsDel", ".sdocs": "KSdocs", "._sdocs": "KSdocsTmp", ".sdocs.del": "KSdocsDel",
	".index": "KIndex", "._index": "KIndexTmp", ".index.del": "KIndexDel", ".meta": "KMeta",
}
var kindOrder = []string{".docs", ".docs.del", ".sdocs", "._sdocs", ".sdocs.del", ".index", "._index", ".index.del", ".meta"}

const fracPrefix = "seq-db-"

// splitName returns (fraction id, suffix) for a fraction file, ok=false for anything else.
func splitName(p string) (string, string, bool) {
	if strings.Contains(p, "/") || !strings.HasPrefix(p, fracPrefix) {
		return "", "", false
	}
	i := strings.IndexByte(p, '.')
	if i < 0 {
		return "", "", false
	}
	if _, ok := kindOf[p[i:]]; !ok {
		return "", "", false
	}
	return p[:i], p[i:], true
}

// fileSets groups the fraction files of a state: fraction -> sorted suffix list.
func fileSets(names []string) map[string][]string {
	out := map[string][]string{}
	for _, n := range names {
		if f, s, ok := splitName(n); ok {
			out[f] = append(out[f], s)
		}
	}
	for f := range out {
		out[f] = canon(out[f])
	}
	return out
}

func canon(sufs []string) []string {
	var out []string
	for _, k := range kindOrder {
		for _, s := range sufs {
			if s == k {
				out = append(out, k)
				break
			}
		}
	}
	return out
}

func coqKinds(sufs []string) string {
	parts := make([]string, len(sufs))
	for i, s := range sufs {
		parts[i] = kindOf[s]
	}
	return "[" + strings.Join(parts, "; ") + "]"
}

// xop: one effective (successful) create / rename / unlink on a file of one fraction.
type xop struct {
	K, A, B string
}

func (x xop) coq() string {
	switch x.K {
	case "create":
		return "XCreate " + kindOf[x.A]
	case "rename":
		return "XRename " + kindOf[x.A] + " " + kindOf[x.B]
	}
	return "XRemove " + kindOf[x.A]
}

func (x xop) String() string {
	if x.K == "rename" {
		return "rename " + x.A + " " + x.B
	}
	return x.K + " " + x.A
}

func coqXops(xs []xop) string {
	parts := make([]string, len(xs))
	for i, x := range xs {
		parts[i] = x.coq()
	}
	return "[" + strings.Join(parts, "; ") + "]"
}

func xopStrings(xs []xop) []string {
	out := make([]string, len(xs))
	for i, x := range xs {
		out[i] = x.String()
	}
	return out
}

// project maps a traced operation to (fraction, xop).
func project(o crashfs.Op) (string, xop, bool) {
	switch o.Kind {
	case crashfs.Create:
		if f, s, ok := splitName(o.Path); ok {
			return f, xop{K: "create", A: s}, true
		}
	case crashfs.Unlink:
		if f, s, ok := splitName(o.Path); ok {
			return f, xop{K: "remove", A: s}, true
		}
	case crashfs.Rename:
		f1, s1, ok1 := splitName(o.Path)
		f2, s2, ok2 := splitName(o.Path2)
		if ok1 && ok2 && f1 == f2 {
			return f1, xop{K: "rename", A: s1, B: s2}, true
		}
	}
	return "", xop{}, false
}

func isNameOp(o crashfs.Op) bool {
	return o.Kind == crashfs.Create || o.Kind == crashfs.Unlink || o.Kind == crashfs.Rename
}

// ------------------------------------------------------------------------------- histories

type doc struct {
	MID, RID uint64
	Body     []byte
	Frac     string // fraction that received it
}

type step struct {
	Op    string `json:"op"`              // bulk seal rotate shrink synccache
	N     int    `json:"n,omitempty"`     // bulk: number of documents
	Drop  int    `json:"drop,omitempty"`  // shrink: limit = total size of all but the Drop oldest fractions ...
	Delta int    `json:"delta,omitempty"` // ... plus Delta bytes
	Park  string `json:"park,omitempty"`  // sealrace: schedule point of proxyFrac.Seal where the seal waits for the retention pass to start
	Hold  bool   `json:"hold,omitempty"`  // sealrace: Release is kept back until the retention pass has finished
	AddFirst bool `json:"add_first,omitempty"` // shrink: the limit additionally leaves room for the oldest fraction
}

type callRec struct {
	Step    step
	Docs    []doc
	Before  []fracObs
	After   []fracObs
	Limit   uint64
	MarkIdx int
	Err     string
}

// lineage information carried from a parent crash state into a continued history
type baseInfo struct {
	State   *crashfs.State
	Docs    []doc           // documents expected to be durable in the base state
	Doomed  map[string]bool // fractions whose deletion was seen on disk earlier in the lineage
	Created []string        // fractions in creation order
	Desc    any             // replay description of how the base state was reached
}

type history struct {
	ID     string
	Sorted bool
	Base   *baseInfo
	Steps  []step

	Dir    string
	Calls  []callRec
	Trace  *crashfs.Trace
	OpenOK bool
}

func (h *history) desc() map[string]any {
	m := map[string]any{"history": h.ID, "sort_docs": h.Sorted, "steps": h.Steps}
	if h.Base != nil {
		m["continues"] = h.Base.Desc
	}
	return m
}

type driver struct {
	w      *casefile.Writer
	r      *rng.R
	tier   string
	root   string
	ndir   int
	mu     sync.Mutex
	nextID uint64
}

func newDriver(w *casefile.Writer, r *rng.R, tier string) *driver {
	root, err := os.MkdirTemp("", "verif-c15-")
	if err != nil {
		panic(err)
	}
	return &driver{w: w, r: r, tier: tier, root: root, nextID: 1}
}

func (d *driver) cleanup() { os.RemoveAll(d.root) }

func (d *driver) newDir() string {
	d.mu.Lock()
	defer d.mu.Unlock()
	d.ndir++
	p := filepath.Join(d.root, fmt.Sprintf("d%06d", d.ndir))
	return p
}

func (d *driver) genDocs(n int) []doc {
	out := make([]doc, n)
	for i := range out {
		id := d.nextID
		d.nextID++
		// ascending MIDs: the sorted docs file (descending IDs) differs from the ingestion order
		body := fmt.Sprintf(`{"n":%d,"pad":"%s"}`, id, strings.Repeat("x", int(id%7)*5))
		out[i] = doc{MID: 1000 + id*10, RID: id, Body: []byte(body)}
	}
	return out
}

func extraInfos(r storectl.Resp) []fracObs {
	var e extraResp
	if len(r.Extra) > 0 {
		json.Unmarshal(r.Extra, &e)
	}
	return e.Fracs
}

func openReq(dir string, sorted bool) storectl.Req {
	return storectl.Req{Op: "open", Dir: dir, FracSize: 1 << 40, TotalSize: 1 << 42, CacheSize: 1 << 26, SkipSortDocs: !sorted}
}

// runHistory executes the history in a traced child. It returns an error only for harness problems.
func (d *driver) runHistory(h *history) error {
	h.Dir = d.newDir()
	if h.Base != nil {
		if err := h.Base.State.Materialize(h.Dir); err != nil {
			return err
		}
	} else if err := os.MkdirAll(h.Dir, 0o755); err != nil {
		return err
	}
	st, err := storectl.Start(h.Dir)
	if err != nil {
		return err
	}
	st.Timeout = 60 * 1e9
	nmarks := 0
	call := func(s step, req storectl.Req, docs []doc, before []fracObs, limit uint64) ([]fracObs, error) {
		resp, err := st.Call(req)
		rec := callRec{Step: s, Docs: docs, Before: before, Limit: limit, MarkIdx: nmarks}
		nmarks++
		if err != nil {
			rec.Err = err.Error()
			h.Calls = append(h.Calls, rec)
			return nil, err
		}
		if req.Op != "c15.info" {
			// built-in operations answer without the detailed infos
			if len(resp.Extra) == 0 {
				r2, err2 := st.Call(storectl.Req{Op: "c15.info"})
				nmarks++
				if err2 != nil {
					rec.Err = err2.Error()
					h.Calls = append(h.Calls, rec)
					return nil, err2
				}
				resp = r2
			}
		}
		rec.After = extraInfos(resp)
		h.Calls = append(h.Calls, rec)
		return rec.After, nil
	}
	cur, err := call(step{Op: "open"}, openReq(h.Dir, h.Sorted), nil, nil, 0)
	if err == nil {
		h.OpenOK = true
		for _, s := range h.Steps {
			var e error
			switch s.Op {
			case "bulk":
				docs := d.genDocs(s.N)
				req := storectl.Req{Op: "bulk"}
				for _, x := range docs {
					req.Docs = append(req.Docs, storectl.Doc{MID: x.MID, RID: x.RID, BodyHex: hex.EncodeToString(x.Body), Tokens: []string{fmt.Sprintf("k:v%d", x.RID%3)}})
				}
				var after []fracObs
				after, e = call(s, req, docs, cur, 0)
				if e == nil && len(after) > 0 {
					for i := range docs {
						docs[i].Frac = after[len(after)-1].Name
					}
					h.Calls[len(h.Calls)-1].Docs = docs
					cur = after
				}
			case "seal":
				var after []fracObs
				if after, e = call(s, storectl.Req{Op: "seal"}, nil, cur, 0); e == nil {
					cur = after
				}
			case "rotate":
				var after []fracObs
				if after, e = call(s, storectl.Req{Op: "c15.rotate"}, nil, cur, 0); e == nil {
					cur = after
				}
			case "sealrace":
				ex, _ := json.Marshal(extraReq{Park: s.Park, Hold: s.Hold})
				var after []fracObs
				if after, e = call(s, storectl.Req{Op: "c15.sealrace", Extra: ex}, nil, cur, 0); e == nil {
					cur = after
				}
			case "synccache":
				var after []fracObs
				if after, e = call(s, storectl.Req{Op: "c15.synccache"}, nil, cur, 0); e == nil {
					cur = after
				}
			case "shrink":
				drop := s.Drop
				if drop > len(cur) {
					drop = len(cur)
				}
				var limit uint64
				for _, f := range cur[drop:] {
					limit += f.Full
				}
				if s.Delta < 0 && limit >= uint64(-s.Delta) {
					limit -= uint64(-s.Delta)
				} else if s.Delta > 0 {
					limit += uint64(s.Delta)
				}
				if s.AddFirst && len(cur) > 0 {
					limit += cur[0].Full
				}
				// never push out the fraction that is being written to
				simulate := func(lim uint64) int {
					var size uint64
					for _, f := range cur {
						size += f.Full
					}
					k := 0
					for size > lim && k < len(cur) {
						size -= cur[k].Full
						k++
					}
					return k
				}
				if len(cur) > 0 && simulate(limit) >= len(cur) {
					limit = cur[len(cur)-1].Full
				}
				ex, _ := json.Marshal(extraReq{Limit: limit})
				var after []fracObs
				if after, e = call(s, storectl.Req{Op: "c15.shrink", Extra: ex}, nil, cur, limit); e == nil {
					cur = after
				}
			default:
				panic("unknown step " + s.Op)
			}
			if e != nil {
				break
			}
		}
	}
	tr, terr := st.Close()
	if terr != nil {
		return fmt.Errorf("trace: %w", terr)
	}
	h.Trace = tr
	// answers are marks, in call order (c15.info follow-ups give an extra mark each): ordinal -> op index
	var markPos []int
	for i, o := range tr.Ops {
		if o.Kind == crashfs.Mark {
			markPos = append(markPos, i)
		}
	}
	for i := range h.Calls {
		if h.Calls[i].Err == "" {
			if h.Calls[i].MarkIdx >= len(markPos) {
				return fmt.Errorf("trace holds %d marks, call %d expects mark %d", len(markPos), i, h.Calls[i].MarkIdx)
			}
			h.Calls[i].MarkIdx = markPos[h.Calls[i].MarkIdx]
		} else {
			h.Calls[i].MarkIdx = len(tr.Ops)
		}
	}
	return nil
}

// ------------------------------------------------------------------------------- observation of a restart

type docStat struct {
	Expected, OK, Missing, Wrong int
}

type loadObs struct {
	Died   bool
	Err    string
	Fracs  []fracObs
	Stats  map[string]*docStat // per fraction
	After  map[string][]string // fraction -> files left after the child exited
	Others []string            // other files left in the directory
}

func readDirNames(dir string) []string {
	es, _ := os.ReadDir(dir)
	var out []string
	for _, e := range es {
		out = append(out, e.Name())
	}
	sort.Strings(out)
	return out
}

// observe materialises the state, starts a fresh (untraced) child on it and records what it serves.
func (d *driver) observe(st *crashfs.State, sorted bool, docs []doc, known []string) (loadObs, error) {
	dir := d.newDir()
	defer os.RemoveAll(dir)
	if err := st.Materialize(dir); err != nil {
		return loadObs{}, err
	}
	return d.observeDir(dir, sorted, docs, known)
}

func (d *driver) observeDir(dir string, sorted bool, docs []doc, known []string) (loadObs, error) {
	obs := loadObs{Stats: map[string]*docStat{}, After: map[string][]string{}}
	for _, f := range known {
		obs.Stats[f] = &docStat{}
	}
	for _, x := range docs {
		if obs.Stats[x.Frac] == nil {
			obs.Stats[x.Frac] = &docStat{}
		}
		obs.Stats[x.Frac].Expected++
	}
	c, err := storectl.Start("")
	if err != nil {
		return obs, err
	}
	c.Timeout = 60 * 1e9
	fail := func(e error) {
		obs.Died = true
		obs.Err = e.Error()
		if len(obs.Err) > 600 {
			obs.Err = obs.Err[:200] + " ... " + obs.Err[len(obs.Err)-380:]
		}
	}
	if _, e := c.Call(openReq(dir, sorted)); e != nil {
		fail(e)
	} else if r, e := c.Call(storectl.Req{Op: "c15.info"}); e != nil {
		fail(e)
	} else {
		obs.Fracs = extraInfos(r)
		if len(docs) > 0 {
			req := storectl.Req{Op: "fetch"}
			for _, x := range docs {
				req.IDs = append(req.IDs, [2]uint64{x.MID, x.RID})
			}
			fr, e := c.Call(req)
			switch {
			case e != nil && errors.Is(e, storectl.ErrDied):
				fail(e)
			case e != nil:
				// a fetch error: every requested document counts as wrongly served
				for _, x := range docs {
					obs.Stats[x.Frac].Wrong++
				}
				obs.Err = "fetch: " + e.Error()
			default:
				// the same documents through the search path (every document carries k:v0, k:v1 or k:v2)
				found := map[[2]uint64]bool{}
				sr, se := c.Call(storectl.Req{Op: "search", Text: "k:v0 or k:v1 or k:v2", Fields: []string{"k"}, From: 0, To: 1 << 40,
					Limit: len(docs) + 10, WithTotal: true})
				if se != nil && errors.Is(se, storectl.ErrDied) {
					fail(se)
					break
				}
				if se != nil {
					obs.Err = "search: " + se.Error()
				}
				for _, id := range sr.IDs {
					found[id] = true
				}
				for i, x := range docs {
					var got []byte
					if i < len(fr.DocsHex) {
						got, _ = hex.DecodeString(fr.DocsHex[i])
					}
					hit := found[[2]uint64{x.MID, x.RID}]
					switch {
					case len(got) == 0 && !hit && se == nil:
						obs.Stats[x.Frac].Missing++
					case bytes.Equal(got, x.Body) && hit:
						obs.Stats[x.Frac].OK++
					default:
						// wrong bytes, or served by only one of fetch and search
						obs.Stats[x.Frac].Wrong++
					}
				}
			}
		}
	}
	c.Close()
	names := readDirNames(dir)
	obs.After = fileSets(names)
	for _, n := range names {
		if _, _, ok := splitName(n); !ok {
			obs.Others = append(obs.Others, n)
		}
	}
	return obs, nil
}
