package main

// Readers against deletion: the use lock of the oldest fraction (frac/sealed.go DataProvider / Suicide,
// frac/active.go DataProvider / Suicide, fracmanager/proxy_frac.go DataProvider / Suicide). In a real
// child, readers take data providers through Fraction.DataProvider, the real retention pass
// (FracManager.shrinkSizes -> go outsider.Suicide()) is started on that fraction, providers are released
// one by one; after every action the files of the fraction are listed. The observations are compared
// with the model's schedule semantics (CUse).

import (
	"context"
	"encoding/json"
	"fmt"
	"os"
	"path/filepath"
	"strings"
	"time"

	"github.com/ozontech/seq-db/frac"

	"verif/harness/internal/storectl"
)

type useReq struct {
	Acts []string `json:"acts"`
}

type useObs struct {
	Got   bool     `json:"got"`
	Files []string `json:"files"`
}

type useResp struct {
	Name  string   `json:"name"`
	Kind  string   `json:"kind"`
	Files []string `json:"files0"`
	Obs   []useObs `json:"obs"`
}

func fracFiles(dir, name string) []string {
	var sufs []string
	for _, n := range readDirNames(dir) {
		if f, s, ok := splitName(n); ok && f == name {
			sufs = append(sufs, s)
		}
	}
	return canon(sufs)
}

func registerChildOpsExt() {
	storectl.Register("c15.uselock", func(c *storectl.Child, r storectl.Req) (storectl.Resp, error) {
		var q useReq
		if err := json.Unmarshal(r.Extra, &q); err != nil {
			return storectl.Resp{}, err
		}
		c.FM.WaitIdle()
		frs := c.FM.GetAllFracs()
		if len(frs) < 2 {
			return storectl.Resp{}, fmt.Errorf("need two fractions, have %d", len(frs))
		}
		f := frs[0]
		info := f.Info()
		name := filepath.Base(info.Path)
		var limit uint64
		for _, g := range frs[1:] {
			limit += g.Info().FullSize()
		}
		out := useResp{Name: name, Kind: "active", Files: fracFiles(c.Dir, name)}
		if _, ok := f.(*frac.Sealed); ok || info.IndexOnDisk > 0 {
			out.Kind = "sealed"
		}
		var rels []func()
		called := false
		done := make(chan struct{})
		for _, a := range q.Acts {
			o := useObs{}
			switch a {
			case "acq":
				dp, rel := f.DataProvider(context.Background())
				if _, empty := dp.(frac.EmptyDataProvider); empty {
					rel()
				} else {
					o.Got = true
					rels = append(rels, rel)
				}
			case "rel":
				if len(rels) == 0 {
					return storectl.Resp{}, fmt.Errorf("release without a provider")
				}
				rels[0]()
				rels = rels[1:]
			case "suicide":
				called = true
				c.FM.VerifC15SetTotalSize(limit)
				go func() {
					defer close(done)
					c.FM.VerifC15ShrinkSizes()
				}()
			default:
				return storectl.Resp{}, fmt.Errorf("unknown action %q", a)
			}
			if called {
				if len(rels) == 0 {
					select {
					case <-done:
					case <-time.After(20 * time.Second):
						return storectl.Resp{}, fmt.Errorf("the deletion did not finish although no provider is out")
					}
				} else {
					time.Sleep(40 * time.Millisecond) // the deletion must be waiting for the readers: nothing may change
				}
			}
			o.Files = fracFiles(c.Dir, name)
			out.Obs = append(out.Obs, o)
		}
		for _, rel := range rels {
			rel()
		}
		if called {
			select {
			case <-done:
			case <-time.After(20 * time.Second):
			}
		}
		c.FM.VerifC15SetTotalSize(1 << 42)
		b, _ := json.Marshal(out)
		return storectl.Resp{Extra: b}, nil
	})
}

type overlapResp struct {
	Older      string   `json:"older"`
	Newer      string   `json:"newer"`
	Active     string   `json:"active"`
	OlderFiles []string `json:"older_files"`
	NewerFiles []string `json:"newer_files"`
	Blocked    bool     `json:"second_pass_blocked"`
}

func init() {
	// two retention passes in flight (C15_parallel_retention_overlapping_passes_refuted): a reader holds a provider of
	// the oldest fraction, the first pass pushes that fraction out (its goroutine waits in Suicide for the reader), a
	// second pass (next maintenance step, lower limit / more data) pushes out and deletes the next fraction
	storectl.Register("c15.overlap", func(c *storectl.Child, r storectl.Req) (storectl.Resp, error) {
		c.FM.WaitIdle()
		frs := c.FM.GetAllFracs()
		if len(frs) < 3 {
			return storectl.Resp{}, fmt.Errorf("need three fractions, have %d", len(frs))
		}
		out := overlapResp{Older: filepath.Base(frs[0].Info().Path), Newer: filepath.Base(frs[1].Info().Path), Active: filepath.Base(frs[2].Info().Path)}
		dp, rel := frs[0].DataProvider(context.Background())
		if _, empty := dp.(frac.EmptyDataProvider); empty {
			rel()
			return storectl.Resp{}, fmt.Errorf("no provider for the oldest fraction")
		}
		var l1, l2 uint64
		for i, g := range frs {
			if i >= 1 {
				l1 += g.Info().FullSize()
			}
			if i >= 2 {
				l2 += g.Info().FullSize()
			}
		}
		c.FM.VerifC15SetTotalSize(l1)
		go c.FM.VerifC15ShrinkSizes() // never returns while the provider is out
		time.Sleep(60 * time.Millisecond)
		c.FM.VerifC15SetTotalSize(l2)
		done := make(chan struct{})
		go func() {
			defer close(done)
			c.FM.VerifC15ShrinkSizes()
		}()
		select {
		case <-done:
		case <-time.After(1500 * time.Millisecond):
			out.Blocked = true // the second pass waits for the first one (fix bd65f76)
		}
		out.OlderFiles, out.NewerFiles = fracFiles(c.Dir, out.Older), fracFiles(c.Dir, out.Newer)
		b, _ := json.Marshal(out)
		return storectl.Resp{Extra: b}, nil // the provider is never released: the parent kills the process (crash)
	})
}

// overlapRegress: permanent regression class retention-overlap-older-served-newer-gone (fix bd65f76): the real
// scenario above, the process killed while the first pass still waits for the reader, a real restart; the
// fractions listed then must be what the model predicts and the gone ones a prefix of the creation order.
func (d *driver) overlapRegress(sorted bool) {
	dir := d.newDir()
	os.MkdirAll(dir, 0o755)
	defer os.RemoveAll(dir)
	desc := map[string]any{"sort_docs": sorted, "scenario": "bulk+seal, bulk+seal, bulk; reader holds the oldest fraction; pass 1 (limit = size of the 2 younger) ; pass 2 (limit = size of the active one); kill; restart"}
	ch, err := storectl.Start("")
	if err != nil {
		d.w.Count("harness_errors")
		return
	}
	ch.Timeout = 60 * 1e9
	killed := false
	defer func() {
		if !killed {
			ch.Close()
		}
	}()
	fail := func(what string, e error) { d.w.Violate("overlap-regress:run-failed", what+": "+e.Error(), desc) }
	if _, e := ch.Call(openReq(dir, sorted)); e != nil {
		fail("open", e)
		return
	}
	for i := 0; i < 3; i++ {
		docs := d.genDocs(2)
		req := storectl.Req{Op: "bulk"}
		for _, x := range docs {
			req.Docs = append(req.Docs, storectl.Doc{MID: x.MID, RID: x.RID, BodyHex: fmt.Sprintf("%x", x.Body), Tokens: []string{fmt.Sprintf("k:v%d", x.RID%3)}})
		}
		if _, e := ch.Call(req); e != nil {
			fail("bulk", e)
			return
		}
		if i < 2 {
			if _, e := ch.Call(storectl.Req{Op: "seal"}); e != nil {
				fail("seal", e)
				return
			}
		}
	}
	r, e := ch.Call(storectl.Req{Op: "c15.overlap"})
	if e != nil {
		fail("two passes with a reader on the oldest fraction", e)
		return
	}
	var out overlapResp
	json.Unmarshal(r.Extra, &out)
	ch.Kill() // crash while the first pass is still waiting for the reader
	killed = true
	ch.Close()
	if out.Blocked {
		d.w.Count("overlap_second_pass_waited_for_first")
	} else {
		d.w.Count("overlap_second_pass_ran_at_once")
	}
	ch2, err := storectl.Start("")
	if err != nil {
		d.w.Count("harness_errors")
		return
	}
	defer ch2.Close()
	ch2.Timeout = 60 * 1e9
	if _, e := ch2.Call(openReq(dir, sorted)); e != nil {
		d.w.Violate("overlap-regress:restart-died", "restart after the crash failed: "+e.Error(), desc)
		return
	}
	r2, e := ch2.Call(storectl.Req{Op: "c15.info"})
	if e != nil {
		fail("info", e)
		return
	}
	listed := map[string]bool{}
	for _, f := range extraInfos(r2) {
		listed[f.Name] = true
	}
	served := []bool{listed[out.Older], listed[out.Newer], listed[out.Active]}
	term := fmt.Sprintf("COverlap %v [%v; %v; %v]", sorted, served[0], served[1], served[2])
	d.w.Add(term, "retention-overlap-older-served-newer-gone", true, desc,
		map[string]any{"fractions": []string{out.Older, out.Newer, out.Active}, "files_of_oldest_at_crash": out.OlderFiles,
			"files_of_second_at_crash": out.NewerFiles, "second_pass_waited_for_first": out.Blocked, "listed_after_restart": served})
}

var useSchedules = [][]string{
	{"acq", "suicide", "rel", "acq"},
	{"acq", "acq", "suicide", "rel", "rel", "acq"},
	{"suicide", "acq"},
	{"acq", "rel", "suicide", "acq", "acq"},
	{"acq", "acq", "rel", "suicide", "rel", "acq"},
	{"acq", "acq", "acq", "suicide", "rel", "rel", "rel"},
}

func uactCoq(a string) string {
	switch a {
	case "acq":
		return "AAcq"
	case "rel":
		return "ARel"
	}
	return "ASuicide"
}

// useLock: kind = "proxy-sealed" (sealed in this process), "loaded-sealed" (sealed, loaded by a restart),
// "proxy-active" (rotated, not sealed)
func (d *driver) useLock(sorted bool) {
	kinds := []string{"proxy-sealed", "loaded-sealed", "proxy-active"}
	for _, kind := range kinds {
		for si, acts := range useSchedules {
			if d.tier == "quick" && (si+len(kind))%2 == 1 {
				continue
			}
			dir := d.newDir()
			os.MkdirAll(dir, 0o755)
			err := d.useOne(dir, sorted, kind, acts)
			os.RemoveAll(dir)
			if err != nil {
				fmt.Fprintln(os.Stderr, "hC15: use-lock run:", err)
			}
		}
	}
}

func (d *driver) useOne(dir string, sorted bool, kind string, acts []string) error {
	desc := map[string]any{"sort_docs": sorted, "fraction": kind, "actions": acts}
	ch, err := storectl.Start("")
	if err != nil {
		d.w.Count("harness_errors")
		return err
	}
	ch.Timeout = 60 * 1e9
	closed := false
	defer func() {
		if !closed {
			ch.Close()
		}
	}()
	fail := func(what string, e error) error {
		d.w.Violate("uselock:call-failed", what+": "+e.Error(), desc)
		return nil
	}
	if _, e := ch.Call(openReq(dir, sorted)); e != nil {
		return fail("open", e)
	}
	bulk := func(n int) error {
		docs := d.genDocs(n)
		req := storectl.Req{Op: "bulk"}
		for _, x := range docs {
			req.Docs = append(req.Docs, storectl.Doc{MID: x.MID, RID: x.RID, BodyHex: fmt.Sprintf("%x", x.Body), Tokens: []string{fmt.Sprintf("k:v%d", x.RID%3)}})
		}
		_, e := ch.Call(req)
		return e
	}
	if e := bulk(3); e != nil {
		return fail("bulk", e)
	}
	switch kind {
	case "proxy-active":
		if _, e := ch.Call(storectl.Req{Op: "c15.rotate"}); e != nil {
			return fail("rotate", e)
		}
	default:
		if _, e := ch.Call(storectl.Req{Op: "seal"}); e != nil {
			return fail("seal", e)
		}
	}
	if e := bulk(2); e != nil {
		return fail("bulk", e)
	}
	if kind == "loaded-sealed" {
		ch.Close()
		closed = true
		ch, err = storectl.Start("")
		if err != nil {
			d.w.Count("harness_errors")
			return err
		}
		closed = false
		ch.Timeout = 60 * 1e9
		if _, e := ch.Call(openReq(dir, sorted)); e != nil {
			return fail("reopen", e)
		}
	}
	ex, _ := json.Marshal(useReq{Acts: acts})
	r, e := ch.Call(storectl.Req{Op: "c15.uselock", Extra: ex})
	if e != nil {
		// a reader that opens files of a deleted fraction makes the process die (logger.Fatal in openIndex/openDocs)
		d.w.Violate("uselock:run-failed", "readers against the deletion of the oldest fraction: "+e.Error(), desc)
		return nil
	}
	var out useResp
	if err := json.Unmarshal(r.Extra, &out); err != nil {
		d.w.Count("harness_errors")
		return err
	}
	var actC, obsC []string
	for _, a := range acts {
		actC = append(actC, uactCoq(a))
	}
	for _, o := range out.Obs {
		obsC = append(obsC, fmt.Sprintf("(%v, %s)", o.Got, coqKinds(o.Files)))
	}
	active := out.Kind == "active"
	term := fmt.Sprintf("CUse %v %s [%s] [%s]", active, coqKinds(out.Files), strings.Join(actC, "; "), strings.Join(obsC, "; "))
	nontrivial := false
	held := 0
	for i, a := range acts {
		if a == "acq" && out.Obs[i].Got {
			held++
		}
		if a == "rel" {
			held--
		}
		if a == "suicide" && held > 0 {
			nontrivial = true // the deletion is requested while a provider is out
		}
	}
	d.w.Add(term, "use:"+kind, nontrivial, desc, out)
	return nil
}
