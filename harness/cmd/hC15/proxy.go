package main

// The proxyFrac state machine against retention (fracmanager/proxy_frac.go Seal / trySetSuicided / Suicide / is*State,
// fracmanager/fracmanager.go seal / rotate / shrinkSizes / Stop): on the real FracManager in a child process the steps
// of a script are executed one after another - rotate, the seal goroutine of a rotated fraction up to the schedule
// points seal.readonly / seal.swapped / its end, real retention passes (shrinkSizes) that push out the fraction a
// pending or running seal works on, Stop() with seal-on-exit - and after every step the three fields of every proxy
// and the manager's list are recorded. A logger.Fatal in FracManager.seal is the death of the child. Afterwards the
// directory is restarted in a fresh child: every fraction must be completely served or completely gone (CProxy).

import (
	"encoding/json"
	"errors"
	"fmt"
	"os"
	"path/filepath"
	"strings"
	"sync/atomic"
	"time"

	"github.com/ozontech/seq-db/frac"
	"github.com/ozontech/seq-db/fracmanager"
	"github.com/ozontech/seq-db/verifhook"

	"verif/harness/internal/storectl"
)

type pxStep struct {
	Op string `json:"op"` // bulk rotate seal-enter seal-swap seal-install pass stop
	I  int    `json:"i"`
	K  int    `json:"k,omitempty"`
	N  int    `json:"n,omitempty"`
}

type pxFrac struct {
	Name   string `json:"name"`
	Listed bool   `json:"listed"`
	A      bool   `json:"active"`
	S      bool   `json:"sealed"`
	RO     bool   `json:"readonly"`
	Proxy  bool   `json:"proxy"`
}

type pxResp struct {
	Fracs  []pxFrac `json:"fracs"`
	Pushed int      `json:"pushed"`
	Cur    string   `json:"cur"`
}

// ------------------------------------------------------------------------------- child side

type pxOut struct {
	idx      int
	viaProxy bool
}

var pxc struct {
	entries []frac.Fraction
	names   []string
	refs    map[int]fracmanager.VerifC07Ref
	queue   []pxOut
	passes  []<-chan struct{}

	sealIdx  int
	stage    atomic.Int32
	park1    chan struct{}
	rel1     chan struct{}
	park2    chan struct{}
	rel2     chan struct{}
	sealDone chan struct{}
}

const pxWait = 60 * time.Second

func pxName(f frac.Fraction) string { return filepath.Base(f.Info().Path) }

func pxObs(c *storectl.Child, pushed int) storectl.Resp {
	listed := map[string]bool{}
	for _, f := range c.FM.GetAllFracs() {
		listed[pxName(f)] = true
	}
	out := pxResp{Pushed: pushed, Cur: pxName(c.FM.Active())}
	for i, f := range pxc.entries {
		a, s, ro, proxy := fracmanager.VerifC07State(f)
		out.Fracs = append(out.Fracs, pxFrac{Name: pxc.names[i], Listed: listed[pxc.names[i]], A: a, S: s, RO: ro, Proxy: proxy})
	}
	b, _ := json.Marshal(out)
	return storectl.Resp{Extra: b}
}

// pxSettle lets the pass goroutines run until they have finished or wait for the parked seal: all of them together
// delete in FIFO order (one goroutine per pass, outsiders one after another, a pass waits for the previous one).
func pxSettle() error {
	for len(pxc.queue) > 0 {
		h := pxc.queue[0]
		if h.idx == pxc.sealIdx && pxc.stage.Load() == 1 {
			return nil // proxyFrac.Suicide waits in sealWg.Wait()
		}
		if h.viaProxy {
			deadline := time.Now().Add(pxWait)
			for {
				a, s, _, _ := fracmanager.VerifC07State(pxc.entries[h.idx])
				if !a && !s {
					break
				}
				if time.Now().After(deadline) {
					return fmt.Errorf("the Suicide of pushed-out fraction %d did not take place", h.idx)
				}
				time.Sleep(200 * time.Microsecond)
			}
		}
		pxc.queue = pxc.queue[1:]
	}
	for _, p := range pxc.passes {
		select {
		case <-p:
		case <-time.After(pxWait):
			return errors.New("a retention pass did not finish although no seal is in its way")
		}
	}
	pxc.passes = nil
	return nil
}

func init() {
	storectl.Register("c15.proxy", func(c *storectl.Child, r storectl.Req) (storectl.Resp, error) {
		var q pxStep
		if err := json.Unmarshal(r.Extra, &q); err != nil {
			return storectl.Resp{}, err
		}
		fm := c.FM
		pushed := 0
		switch q.Op {
		case "init":
			pxc.entries, pxc.names, pxc.refs, pxc.queue, pxc.passes, pxc.sealIdx = nil, nil, map[int]fracmanager.VerifC07Ref{}, nil, nil, -1
			for _, f := range fm.GetAllFracs() {
				pxc.entries = append(pxc.entries, f)
				pxc.names = append(pxc.names, pxName(f))
			}
		case "rotate":
			cur := len(pxc.entries) - 1
			pxc.refs[cur] = fm.VerifC07Rotate()
			fr := fm.GetAllFracs()
			if len(fr) == 0 {
				return storectl.Resp{}, errors.New("empty list after rotate")
			}
			pxc.entries = append(pxc.entries, fr[len(fr)-1])
			pxc.names = append(pxc.names, pxName(fr[len(fr)-1]))
		case "seal-enter":
			ref, ok := pxc.refs[q.I]
			if !ok || pxc.sealIdx >= 0 {
				return storectl.Resp{}, fmt.Errorf("seal-enter %d: no handle or another seal in flight", q.I)
			}
			pxc.stage.Store(0)
			pxc.park1, pxc.rel1, pxc.park2, pxc.rel2 = make(chan struct{}), make(chan struct{}), make(chan struct{}), make(chan struct{})
			done := make(chan struct{})
			pxc.sealDone = done
			p1, r1, p2, r2 := pxc.park1, pxc.rel1, pxc.park2, pxc.rel2
			verifhook.Set(func(name string) { // schedule points of other properties are passed through
				switch name {
				case "seal.readonly":
					if pxc.stage.CompareAndSwap(0, 1) {
						close(p1)
						<-r1
					}
				case "seal.swapped":
					if pxc.stage.CompareAndSwap(1, 2) {
						close(p2)
						<-r2
					}
				}
			})
			go func() {
				defer close(done)
				fm.VerifC07Seal(ref) // FracManager.seal: a Fatal ends the process
			}()
			select {
			case <-p1:
				pxc.sealIdx = q.I
			case <-done: // ErrSealingFractionSuicided: skipped
				verifhook.Set(nil)
			case <-time.After(pxWait):
				return storectl.Resp{}, errors.New("seal goroutine neither parked nor returned")
			}
		case "seal-swap":
			if pxc.sealIdx == q.I && pxc.stage.Load() == 1 {
				close(pxc.rel1)
				select {
				case <-pxc.park2:
				case <-time.After(pxWait):
					return storectl.Resp{}, errors.New("seal did not reach seal.swapped")
				}
				if err := pxSettle(); err != nil {
					return storectl.Resp{}, err
				}
			}
		case "seal-install":
			if pxc.sealIdx == q.I && pxc.stage.Load() == 2 {
				close(pxc.rel2)
				select {
				case <-pxc.sealDone:
				case <-time.After(pxWait):
					return storectl.Resp{}, errors.New("fm.seal did not return")
				}
				verifhook.Set(nil)
				pxc.sealIdx = -1
			}
		case "pass":
			before := fm.GetAllFracs()
			k := q.K
			if k > len(before) {
				k = len(before)
			}
			var limit uint64
			for _, f := range before[k:] {
				limit += f.Info().FullSize()
			}
			idx := map[string]int{}
			for i, n := range pxc.names {
				idx[n] = i
			}
			var outs []pxOut
			for _, f := range before[:k] {
				_, _, _, proxy := fracmanager.VerifC07State(f)
				outs = append(outs, pxOut{idx: idx[pxName(f)], viaProxy: proxy})
			}
			fm.VerifC15SetTotalSize(limit)
			done := fm.VerifC15ShrinkSizesStart()
			fm.VerifC15SetTotalSize(1 << 42)
			pushed = len(before) - len(fm.GetAllFracs())
			if pushed < 0 || pushed > k {
				return storectl.Resp{}, fmt.Errorf("pass: %d fractions asked for, %d pushed out", k, pushed)
			}
			pxc.queue = append(pxc.queue, outs[:pushed]...)
			pxc.passes = append(pxc.passes, done)
			if err := pxSettle(); err != nil {
				return storectl.Resp{}, err
			}
		case "stop":
			// graceful shutdown of a started manager: Start() (first maintenance step at once: nothing to rotate, nothing
			// to push out), then Stop() = stop the loops, wait for them, seal the current fraction on exit
			if pxc.sealIdx >= 0 || len(pxc.queue) > 0 {
				return storectl.Resp{}, errors.New("stop while goroutines of the script are in flight")
			}
			if q.K == 1 {
				fm.WaitIdle() // storeapi.Store.Stop(): FracManager.WaitIdle() before FracManager.Stop()
			}
			fm.VerifC15SetFracSize(fm.Active().Info().DocsOnDisk)
			fm.VerifC15SetTotalSize(1 << 42)
			fm.Start()
			fm.Stop()
		default:
			return storectl.Resp{}, fmt.Errorf("unknown step %q", q.Op)
		}
		return pxObs(c, pushed), nil
	})
}

// ------------------------------------------------------------------------------- parent side

func (s pxStep) coq(pushed int) string {
	switch s.Op {
	case "rotate":
		return "SRotate"
	case "seal-enter":
		return fmt.Sprintf("SSealEnter %d", s.I)
	case "seal-swap":
		return fmt.Sprintf("SSealSwap %d", s.I)
	case "seal-install":
		return fmt.Sprintf("SSealInstall %d", s.I)
	case "pass":
		return fmt.Sprintf("SPass %d", pushed)
	}
	return "SStop"
}

type pxScript struct {
	Class   string
	NSealed int
	Steps   []pxStep
}

// the orders of {rotate, suicide, seal-start, seal-swap, seal-finish, stop} the code allows, on one or two rotated fractions
func pxFixedScripts() []pxScript {
	b := pxStep{Op: "bulk", N: 2}
	rot := pxStep{Op: "rotate"}
	enter := func(i int) pxStep { return pxStep{Op: "seal-enter", I: i} }
	swap := func(i int) pxStep { return pxStep{Op: "seal-swap", I: i} }
	inst := func(i int) pxStep { return pxStep{Op: "seal-install", I: i} }
	pass := func(k int) pxStep { return pxStep{Op: "pass", K: k} }
	stop := pxStep{Op: "stop"}
	return []pxScript{
		// retention deletes the rotated fraction while it is Active & Writable, then its seal goroutine starts
		{"proxy:suicide-before-seal-start", 0, []pxStep{b, rot, b, pass(1), enter(0), swap(0), inst(0), b}},
		{"proxy:suicide-before-seal-start", 1, []pxStep{b, rot, b, pass(2), enter(1), swap(1), inst(1), stop}},
		// the seal has taken the lock first: Suicide waits, then deletes the sealed instance
		{"proxy:suicide-while-sealing", 0, []pxStep{b, rot, b, enter(0), pass(1), swap(0), inst(0), b, stop}},
		{"proxy:suicide-after-swap", 0, []pxStep{b, rot, b, enter(0), swap(0), pass(1), inst(0)}},
		{"proxy:suicide-after-install", 0, []pxStep{b, rot, b, enter(0), swap(0), inst(0), pass(1), stop}},
		// retention pushes out the CURRENT fraction, then Stop() seals on exit
		{"proxy:stop-after-retention", 0, []pxStep{b, pass(1), stop}},
		{"proxy:stop-after-retention", 2, []pxStep{b, pass(3), stop}},
		// ... or the next maintenance step rotates and starts the seal of the deleted fraction
		{"proxy:suicide-before-rotate", 0, []pxStep{b, pass(1), rot, enter(0), b, stop}},
		{"proxy:suicide-before-rotate", 1, []pxStep{b, pass(2), rot, enter(1), swap(1), inst(1), b, rot, b, enter(2), swap(2), inst(2)}},
		// two outsiders, the second one is being sealed; a second pass queues up behind the first
		{"proxy:pass-blocked-by-seal", 0, []pxStep{b, rot, b, rot, b, enter(1), pass(2), swap(1), inst(1), enter(0), stop}},
		{"proxy:pass-blocked-by-seal", 1, []pxStep{b, rot, b, rot, b, enter(1), pass(2), pass(1), swap(1), inst(1), enter(2), stop}},
	}
}

// pxRandomScript: a random script that ends with every goroutine finished
func (d *driver) pxRandomScript() pxScript {
	m := d.r.Intn(3)
	n := m + 1             // fractions so far
	listedFrom := 0        // fractions before it are pushed out
	stage := map[int]int{} // seal goroutine: 0 none, 1 entered, 2 swapped, 3 returned
	inflight := -1
	curDocs := false
	var steps []pxStep
	nsteps := d.r.Range(6, 12)
	for len(steps) < nsteps {
		cur := n - 1
		curListed := listedFrom <= cur
		switch d.r.Intn(7) {
		case 0, 1:
			if curListed {
				steps = append(steps, pxStep{Op: "bulk", N: d.r.Range(1, 3)})
				curDocs = true
			}
		case 2:
			if curDocs && n < 6 {
				steps = append(steps, pxStep{Op: "rotate"})
				n++
				curDocs = false
			}
		case 3:
			if inflight < 0 {
				var cands []int
				for i := m; i < n-1; i++ {
					if stage[i] == 0 {
						cands = append(cands, i)
					}
				}
				if len(cands) > 0 {
					i := cands[d.r.Intn(len(cands))]
					steps = append(steps, pxStep{Op: "seal-enter", I: i})
					stage[i], inflight = 1, i
				}
			}
		case 4:
			if inflight >= 0 {
				if stage[inflight] == 1 {
					steps = append(steps, pxStep{Op: "seal-swap", I: inflight})
					stage[inflight] = 2
				} else {
					steps = append(steps, pxStep{Op: "seal-install", I: inflight})
					stage[inflight] = 3
					inflight = -1
				}
			}
		default:
			// a pass; the current fraction can only go when it holds documents
			max := n - listedFrom
			if !curDocs && curListed {
				max--
			}
			if max > 0 {
				k := d.r.Range(1, max)
				steps = append(steps, pxStep{Op: "pass", K: k})
				listedFrom += k
				if listedFrom > cur {
					curDocs = true // its last Info still says so: Stop() will seal on exit
				}
			}
		}
	}
	if inflight >= 0 {
		if stage[inflight] == 1 {
			steps = append(steps, pxStep{Op: "seal-swap", I: inflight})
		}
		steps = append(steps, pxStep{Op: "seal-install", I: inflight})
	}
	if curDocs && d.r.Intn(3) > 0 {
		steps = append(steps, pxStep{Op: "stop"})
	}
	return pxScript{"proxy:random", m, steps}
}

func (d *driver) proxyScripts(round int, sorted bool) {
	scripts := pxFixedScripts()
	if os.Getenv("VERIF_C15_STORE_STOP") != "" {
		// NOT part of the registered check: storeapi.Store.Stop() calls FracManager.WaitIdle() first, and
		// proxyFrac.WaitWriteIdle dereferences f.active, which is nil once retention has pushed out the current fraction
		// (nil pointer panic on graceful shutdown; reported, see the report of the C15 extension s6). Enable to replay it.
		scripts = append(scripts, pxScript{"proxy:store-stop-after-retention", 0, []pxStep{{Op: "bulk", N: 2}, {Op: "pass", K: 1}, {Op: "stop", K: 1}}})
	}
	nrand := 4
	if d.tier != "quick" {
		nrand = 20
	}
	for i := 0; i < nrand; i++ {
		scripts = append(scripts, d.pxRandomScript())
	}
	for _, sc := range scripts {
		d.proxyOne(sorted, sc)
	}
}

func pxCoq(b bool) string {
	if b {
		return "true"
	}
	return "false"
}

func (d *driver) proxyOne(sorted bool, sc pxScript) {
	dir := d.newDir()
	os.MkdirAll(dir, 0o755)
	defer os.RemoveAll(dir)
	desc := map[string]any{"sort_docs": sorted, "sealed_fractions_loaded_at_start": sc.NSealed, "script": sc.Steps, "class": sc.Class}
	ch, err := storectl.Start("")
	if err != nil {
		d.w.Count("harness_errors")
		return
	}
	ch.Timeout = 150 * 1e9
	closed := false
	defer func() {
		if !closed {
			ch.Close()
		}
	}()
	fail := func(what string, e error) {
		d.w.Violate("proxy:step-failed", what+": "+e.Error(), desc)
	}
	if _, e := ch.Call(openReq(dir, sorted)); e != nil {
		fail("open", e)
		return
	}
	var docs []doc
	bulk := func(n int, fr string) error {
		ds := d.genDocs(n)
		req := storectl.Req{Op: "bulk"}
		for i, x := range ds {
			ds[i].Frac = fr
			req.Docs = append(req.Docs, storectl.Doc{MID: x.MID, RID: x.RID, BodyHex: fmt.Sprintf("%x", x.Body), Tokens: []string{fmt.Sprintf("k:v%d", x.RID%3)}})
		}
		if _, e := ch.Call(req); e != nil {
			return e
		}
		docs = append(docs, ds...)
		return nil
	}
	step := func(s pxStep) (pxResp, error) {
		ex, _ := json.Marshal(s)
		r, e := ch.Call(storectl.Req{Op: "c15.proxy", Extra: ex})
		var out pxResp
		if e == nil {
			e = json.Unmarshal(r.Extra, &out)
		}
		return out, e
	}
	if sc.NSealed > 0 {
		for j := 0; j < sc.NSealed; j++ {
			r, e := ch.Call(storectl.Req{Op: "fracs"})
			if e != nil || len(r.Fracs) == 0 {
				fail("fracs", fmt.Errorf("%v", e))
				return
			}
			if e := bulk(2, r.Fracs[len(r.Fracs)-1].Name); e != nil {
				fail("bulk", e)
				return
			}
			if _, e := ch.Call(storectl.Req{Op: "seal"}); e != nil {
				fail("seal", e)
				return
			}
		}
		ch.Close()
		closed = true
		if ch, err = storectl.Start(""); err != nil {
			d.w.Count("harness_errors")
			return
		}
		closed = false
		ch.Timeout = 150 * 1e9
		if _, e := ch.Call(openReq(dir, sorted)); e != nil {
			fail("reopen", e)
			return
		}
	}
	cur, e := step(pxStep{Op: "init"})
	if e != nil {
		fail("init", e)
		return
	}
	if len(cur.Fracs) != sc.NSealed+1 {
		d.w.Count("harness_errors")
		fmt.Fprintf(os.Stderr, "hC15: proxy script: %d fractions at start, expected %d\n", len(cur.Fracs), sc.NSealed+1)
		return
	}
	var stepsC, obsC []string
	died := false
	var last pxResp = cur
	sealTouched := map[int]bool{}
	for _, s := range sc.Steps {
		if s.Op == "bulk" {
			if e := bulk(s.N, last.Cur); e != nil {
				fail("bulk", e)
				return
			}
			continue
		}
		out, e := step(s)
		if e != nil && errors.Is(e, storectl.ErrDied) {
			// the store process died in this step (logger.Fatal / panic)
			died = true
			msg := e.Error()
			if len(msg) > 500 {
				msg = msg[:150] + " ... " + msg[len(msg)-330:]
			}
			desc["died_in_step"] = s
			desc["death"] = msg
			stepsC = append(stepsC, s.coq(s.K))
			obsC = append(obsC, "mkpobs false []")
			break
		}
		if e != nil {
			fail(fmt.Sprintf("step %+v", s), e)
			return
		}
		switch s.Op {
		case "seal-enter":
			sealTouched[s.I] = true
		case "stop":
			sealTouched[len(out.Fracs)-1] = true
		}
		stepsC = append(stepsC, s.coq(out.Pushed))
		var fr []string
		for _, f := range out.Fracs {
			fr = append(fr, fmt.Sprintf("(%s, mkpx %s %s %s)", pxCoq(f.Listed), pxCoq(f.A), pxCoq(f.S), pxCoq(f.RO)))
		}
		obsC = append(obsC, "mkpobs true ["+strings.Join(fr, "; ")+"]")
		last = out
	}
	ch.Close()
	closed = true
	var finC []string
	nontrivial := died
	impl := map[string]any{"last_observation": last, "died": died}
	if !died {
		var names []string
		for _, f := range last.Fracs {
			names = append(names, f.Name)
		}
		lo, err := d.observeDir(dir, sorted, docs, names)
		if err != nil {
			d.w.Count("harness_errors")
			return
		}
		impl["restart"] = lo
		if !lo.Died {
			kind := map[string]string{}
			for _, f := range lo.Fracs {
				kind[f.Name] = f.Kind
			}
			for i, f := range last.Fracs {
				st := lo.Stats[f.Name]
				if st == nil {
					st = &docStat{}
				}
				finC = append(finC, fmt.Sprintf("mkpfin %s %d %d %d %s %s", pxCoq(!f.Listed), st.Expected, st.OK, st.Wrong,
					coqKinds(canon(lo.After[f.Name])), lkindCoq(kind[f.Name])))
				if !f.Listed && f.Proxy && sealTouched[i] {
					nontrivial = true // retention and a seal goroutine met on the same fraction
				}
			}
		} else {
			desc["restart_died"] = lo.Err
		}
	}
	term := fmt.Sprintf("CProxy %d [%s] [%s] [%s]", sc.NSealed, strings.Join(stepsC, "; "), strings.Join(obsC, "; "), strings.Join(finC, "; "))
	d.w.Add(term, sc.Class, nontrivial, desc, impl)
	d.w.Count("proxy_scripts")
	if died {
		d.w.Count("proxy_scripts_process_died")
	}
}
