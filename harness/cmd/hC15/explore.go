package main

import (
	"fmt"
	"os"

	"verif/harness/internal/casefile"
	"verif/harness/internal/rng"
)

func exploreMain(seed uint64) {
	out, _ := os.MkdirTemp("", "verif-c15-explore-")
	defer os.RemoveAll(out)
	w, _ := casefile.New(out, "C15", "", 100)
	d := newDriver(w, rng.New(seed), "quick")
	defer d.cleanup()
	for _, sorted := range []bool{true, false} {
		h := &history{ID: "x", Sorted: sorted, Steps: []step{{Op: "bulk", N: 3}, {Op: "seal"}, {Op: "bulk", N: 2}, {Op: "synccache"}, {Op: "seal"}, {Op: "bulk", N: 2}, {Op: "rotate"},
			{Op: "shrink", Drop: 1}, {Op: "synccache"}, {Op: "shrink", Drop: 2}}}
		if err := d.runHistory(h); err != nil {
			panic(err)
		}
		fmt.Println("verify:", h.Trace.Verify())
		for i, o := range h.Trace.Ops {
			if isNameOp(o) || o.Kind == 8 || o.Kind == 2 || o.Kind == 6 {
				s := o.String()
				if len(s) > 150 {
					s = s[:150]
				}
				fmt.Println(i, s)
			}
		}
		for _, c := range h.Calls {
			fmt.Printf("%+v mark=%d err=%s\n   after=%+v\n", c.Step, c.MarkIdx, c.Err, c.After)
		}
	}
}
