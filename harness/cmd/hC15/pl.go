package main

// Power loss around SaveCacheToDisk (fracmanager/sealed_frac_cache.go). The traced operations of every
// save are compared with the model's list (CSaveOps: create temp, write, rename; fsyncs are reported);
// at every operation boundary of the save the directory is rebuilt, .frac-cache and its temp file are cut
// back to lengths between their fsynced length (the code never fsyncs them: 0) and what was written
// (crashfs PowerLoss), a real child is started on it and compared with a start on the same directory
// without any cache file (CCachePL).

import (
	"encoding/hex"
	"encoding/json"
	"fmt"
	"os"
	"strings"
	"sync"

	"verif/harness/internal/casefile"
	"verif/harness/internal/crashfs"
)

const cacheName = ".frac-cache"

func isCachePath(p string) bool { return p == cacheName || strings.HasPrefix(p, cacheName+".") }

func (d *driver) cachePowerLoss(h *history) {
	for ci, c := range h.Calls {
		if c.Step.Op != "synccache" || c.Err != "" {
			continue
		}
		lo, hi := h.window(ci)
		if hi > len(h.Trace.Ops) {
			hi = len(h.Trace.Ops)
		}
		var sops []string
		var points []int
		for k := lo; k < hi; k++ {
			o := h.Trace.Ops[k]
			switch {
			case o.Kind == crashfs.Create && isCachePath(o.Path):
				sops = append(sops, "SCreateTmp")
			case o.Kind == crashfs.Write && isCachePath(o.Path):
				sops = append(sops, "SWriteTmp")
			case o.Kind == crashfs.Rename && o.Path2 == cacheName:
				sops = append(sops, "SRenameTmp")
			case o.Kind == crashfs.Fsync && isCachePath(o.Path):
				sops = append(sops, "SFsyncFile")
				d.w.Count("cache_file_fsyncs_observed")
			case o.Kind == crashfs.FsyncDir:
				sops = append(sops, "SFsyncDir")
				d.w.Count("cache_dir_fsyncs_observed")
			default:
				continue
			}
			points = append(points, k+1)
		}
		if len(sops) == 0 {
			continue // nothing had changed: no save
		}
		d.w.Add("CSaveOps ["+strings.Join(sops, "; ")+"]", "cache:save-ops", true, map[string]any{"history": h.desc(), "call": ci}, sops)
		points = append([]int{lo}, points...)
		known := h.created(lo)
		docs := h.docsAt(lo)
		type job struct {
			k, cut   int
			full     int
			content  []byte
			present  bool
			baseline bool
			obs      loadObs
			err      error
		}
		var jobs []*job
		for _, k := range points {
			st := h.Trace.StateAt(k)
			cur, present := st.Files()[cacheName]
			jobs = append(jobs, &job{k: k, baseline: true})
			if !present {
				continue
			}
			full := len(cur)
			cuts := []int{0, 1, full / 2, full - 1, full}
			if d.tier != "quick" {
				for n := 0; n < full; n += 1 + full/24 {
					cuts = append(cuts, n)
				}
			}
			seen := map[int]bool{}
			for _, n := range cuts {
				if n < 0 || n > full || seen[n] {
					continue
				}
				seen[n] = true
				jobs = append(jobs, &job{k: k, cut: n, full: full, content: cur[:n], present: true})
			}
		}
		var wg sync.WaitGroup
		sem := make(chan struct{}, extWorkers)
		for _, j := range jobs {
			wg.Add(1)
			sem <- struct{}{}
			go func(j *job) {
				defer wg.Done()
				defer func() { <-sem }()
				st := h.Trace.StateAt(j.k)
				if j.baseline {
					for _, n := range st.FileNames() {
						if isCachePath(n) {
							st.Apply(crashfs.Op{Kind: crashfs.Unlink, Path: n})
						}
					}
				} else {
					// power loss: the cache file keeps j.cut bytes, its temp file (if any) as much, everything else is property C01's subject
					st.PowerLoss(func(path string, synced, length int) int {
						if isCachePath(path) {
							if j.cut < length {
								return j.cut
							}
							return length
						}
						return length
					})
				}
				j.obs, j.err = d.observe(st, h.Sorted, docs, known)
			}(j)
		}
		wg.Wait()
		base := map[int]*job{}
		for _, j := range jobs {
			if j.baseline {
				base[j.k] = j
			}
		}
		for _, j := range jobs {
			if j.baseline {
				continue
			}
			b := base[j.k]
			if j.err != nil || b == nil || b.err != nil || b.obs.Died {
				d.w.Count("harness_errors")
				continue
			}
			if j.obs.Died {
				d.w.Violate("cache:restart-died", fmt.Sprintf("restart after a power loss that left %d of %d bytes of .frac-cache died", j.cut, j.full),
					map[string]any{"history": h.desc(), "state_after_op": j.k, "content_hex": hex.EncodeToString(j.content), "stderr_tail": j.obs.Err})
				continue
			}
			hdr := map[string]fracObs{}
			var sealedNames []string
			for _, f := range b.obs.Fracs {
				if f.Kind == "sealed" {
					hdr[f.Name] = f
					sealedNames = append(sealedNames, f.Name)
				}
			}
			parsedMap := map[string]*cacheInfo{}
			parsed := json.Unmarshal(j.content, &parsedMap) == nil
			impl := map[string]fracObs{}
			for _, f := range j.obs.Fracs {
				impl[f.Name] = f
			}
			var items []string
			for _, n := range sealedNames {
				hd, im := hdr[n], impl[n]
				ent := "None"
				if e, ok := parsedMap[n]; ok && parsed && e != nil {
					ent = "(Some " + infoCoq(e.DocsTotal, e.From, e.To, e.DocsOnDisk, e.IndexOnDisk, e.MetaOnDisk) + ")"
				}
				items = append(items, fmt.Sprintf("mkcinfo %s %s %s", ent, infoCoq(hd.Docs, hd.From, hd.To, hd.DocsOD, hd.IdxOD, hd.MetaOD),
					infoCoq(im.Docs, im.From, im.To, im.DocsOD, im.IdxOD, im.MetaOD)))
			}
			var expected, okN, wrongN int
			for _, st := range b.obs.Stats {
				expected += st.OK
			}
			for _, st := range j.obs.Stats {
				okN += st.OK
				wrongN += st.Wrong
			}
			term := fmt.Sprintf("CCachePL %d%%N %d%%N %s [%s] %d%%N %d%%N %d%%N", j.full, j.cut, casefile.Bool(parsed), strings.Join(items, "; "), expected, okN, wrongN)
			d.w.Add(term, "cache:powerloss", len(items) > 0 && j.cut < j.full,
				map[string]any{"history": h.desc(), "state_after_op": j.k, "cache_bytes_written": j.full, "cache_bytes_kept": j.cut, "kept_content": string(j.content)},
				map[string]any{"json_accepts_kept_content": parsed, "fracs": j.obs.Fracs, "docs_expected": expected, "docs_served_by_fetch_and_search": okN, "docs_wrong_or_half_served": wrongN})
		}
	}
	_ = os.Stderr
}
