package main

// Parallel deletions inside one retention pass (fracmanager.go shrinkSizes starts one goroutine per
// outsider): the interleaved operation log of a real pass over 2-4 outsiders is compared with the
// model's per-fraction programs (CParLog); every crash point of the observed interleaving and of
// re-orderings of it (operations of different fractions are independent; the per-fraction order is
// kept) is rebuilt with crashfs, a real child is started on it, and what it serves is compared with
// the model's loader and the specification (CPar). The refutation of "oldest first right after a
// restart" (C15_parallel_retention_prefix_at_restart_refuted / _prefix_eventually_refuted) is
// replayed on the real code: gapWitness.

import (
	"fmt"
	"os"
	"sort"
	"strings"
	"sync"

	"verif/harness/internal/casefile"
	"verif/harness/internal/crashfs"
	"verif/harness/internal/storectl"
)

const extWorkers = 4

type logEntry struct {
	Frac int
	X    xop
	Op   crashfs.Op
}

func (d *driver) parPasses(round int, sorted bool) {
	outs := []int{2, 3}
	if d.tier != "quick" {
		outs = []int{2, 3, 4}
	}
	for _, n := range outs {
		var steps []step
		for i := 0; i < n; i++ {
			steps = append(steps, step{Op: "bulk", N: d.r.Range(1, 3)})
			if i == n-1 && d.r.Chance(1, 2) {
				steps = append(steps, step{Op: "rotate"}) // the youngest outsider is still an (unsealed) active fraction
			} else {
				steps = append(steps, step{Op: "seal"})
			}
		}
		steps = append(steps, step{Op: "bulk", N: 2}, step{Op: "seal"}, step{Op: "bulk", N: 2}, step{Op: "shrink", Drop: n})
		h := &history{ID: fmt.Sprintf("P%d-%v-%d", round, sorted, n), Sorted: sorted, Steps: steps}
		if !d.execHistory(h) {
			continue
		}
		d.w.Count("parallel_pass_histories")
		bad := false
		for _, c := range h.Calls {
			if c.Err != "" {
				bad = true
				d.w.Violate("parallel-pass:call-failed", "a call of the parallel-retention history failed: "+c.Err, h.desc())
			}
		}
		if !bad {
			d.parExplore(h)
		}
		d.emitShrinks(h)
		os.RemoveAll(h.Dir)
	}
}

func lkindOfObs(kind string) string { return lkindCoq(kind) }

func coqLog(log []logEntry) string {
	parts := make([]string, len(log))
	for i, e := range log {
		parts[i] = fmt.Sprintf("(%d, %s)", e.Frac, e.X.coq())
	}
	return "[" + strings.Join(parts, "; ") + "]"
}

func logStrings(log []logEntry, names []string) []string {
	out := make([]string, len(log))
	for i, e := range log {
		out[i] = fmt.Sprintf("%s: %s", names[e.Frac], e.X.String())
	}
	return out
}

// merge orders: every result keeps the per-fraction order of the observed log
func (d *driver) reorderings(log []logEntry, nfr int) map[string][]logEntry {
	per := make([][]logEntry, nfr)
	for _, e := range log {
		per[e.Frac] = append(per[e.Frac], e)
	}
	out := map[string][]logEntry{}
	var seq, rev, rr []logEntry
	for i := 0; i < nfr; i++ {
		seq = append(seq, per[i]...)
	}
	for i := nfr - 1; i >= 0; i-- {
		rev = append(rev, per[i]...)
	}
	for j := 0; ; j++ {
		any := false
		for i := nfr - 1; i >= 0; i-- {
			if j < len(per[i]) {
				rr = append(rr, per[i][j])
				any = true
			}
		}
		if !any {
			break
		}
	}
	out["oldest-first"], out["newest-first"], out["round-robin"] = seq, rev, rr
	nr := 1
	if d.tier != "quick" {
		nr = 3
	}
	for r := 0; r < nr; r++ {
		pos := make([]int, nfr)
		var m []logEntry
		for len(m) < len(log) {
			var live []int
			for i := range per {
				if pos[i] < len(per[i]) {
					live = append(live, i)
				}
			}
			i := live[d.r.Intn(len(live))]
			m = append(m, per[i][pos[i]])
			pos[i]++
		}
		out[fmt.Sprintf("random-%d", r)] = m
	}
	return out
}

type parJob struct {
	order string
	log   []logEntry
	n     int
	state *crashfs.State
	obs   loadObs
	err   error
}

func (d *driver) parExplore(h *history) {
	ci := -1
	for i, c := range h.Calls {
		if c.Step.Op == "shrink" && c.Err == "" {
			ci = i
		}
	}
	if ci < 0 {
		return
	}
	c := h.Calls[ci]
	lo, hi := h.window(ci)
	if hi > len(h.Trace.Ops) {
		hi = len(h.Trace.Ops)
	}
	created := h.created(lo)
	idx := map[string]int{}
	for i, f := range created {
		idx[f] = i
	}
	base := h.Trace.StateAt(lo)
	before := fileSets(base.FileNames())
	docs := h.docsAt(lo)
	nExp := map[string]int{}
	for _, x := range docs {
		nExp[x.Frac]++
	}
	doomed := h.doomedAt(lo)
	var log []logEntry
	var others []crashfs.Op
	for k := lo; k < hi; k++ {
		o := h.Trace.Ops[k]
		if f, x, ok := project(o); ok {
			if i, known := idx[f]; known {
				log = append(log, logEntry{Frac: i, X: x, Op: o})
				continue
			}
		}
		if o.Kind != crashfs.Mark {
			others = append(others, o)
		}
	}
	kindOfFrac := map[string]string{}
	for _, o := range c.Before {
		kindOfFrac[o.Name] = o.Kind
	}
	k := len(c.Before) - len(c.After)
	var dirC, kindsC []string
	var dirJ []map[string]any
	for _, f := range created {
		dirC = append(dirC, d.fracstCoq(before[f], nExp[f] > 0, doomed[f]))
		kindsC = append(kindsC, lkindCoq(kindOfFrac[f]))
		dirJ = append(dirJ, map[string]any{"name": f, "files": before[f], "docs": nExp[f], "listed": kindOfFrac[f], "deletion_seen": doomed[f]})
	}
	dirS, kindsS := "["+strings.Join(dirC, "; ")+"]", "["+strings.Join(kindsC, "; ")+"]"
	input := func(order string, lg []logEntry, n int) map[string]any {
		return map[string]any{"history": h.desc(), "fractions": dirJ, "pushed_out": k, "order": order, "log": logStrings(lg, created), "crash_after_ops": n}
	}
	touched := map[int]bool{}
	for _, e := range log {
		touched[e.Frac] = true
	}
	d.w.Add(fmt.Sprintf("CParLog %s %s %s %d %s", casefile.Bool(h.Sorted), dirS, kindsS, k, coqLog(log)), "par:log",
		len(touched) > 1, input("observed", log, len(log)), logStrings(log, created))
	d.w.Count(fmt.Sprintf("par_outsiders_%d", k))
	// is the observed log a true interleaving (not one goroutine after the other)?
	switches := 0
	for i := 1; i < len(log); i++ {
		if log[i].Frac != log[i-1].Frac {
			switches++
		}
	}
	if switches >= len(touched) {
		d.w.Count("par_observed_logs_interleaved")
	}
	if len(log) > 0 && len(touched) > 1 && log[0].Frac != 0 {
		d.w.Count("par_observed_newer_goroutine_first")
	}
	orders := d.reorderings(log, len(created))
	names := []string{"observed"}
	for n := range orders {
		names = append(names, n)
	}
	sort.Strings(names[1:])
	orders["observed"] = log
	seen := map[string]bool{}
	var jobs []*parJob
	for _, on := range names {
		lg := orders[on]
		for n := 0; n <= len(lg); n++ {
			cnt := make([]int, len(created))
			for _, e := range lg[:n] {
				cnt[e.Frac]++
			}
			key := fmt.Sprint(cnt)
			if seen[key] {
				continue
			}
			seen[key] = true
			st := base.Clone()
			for _, o := range others {
				st.Apply(o)
			}
			for _, e := range lg[:n] {
				st.Apply(e.Op)
			}
			jobs = append(jobs, &parJob{order: on, log: lg, n: n, state: st})
		}
	}
	var wg sync.WaitGroup
	ch := make(chan *parJob)
	for i := 0; i < extWorkers; i++ {
		wg.Add(1)
		go func() {
			defer wg.Done()
			for j := range ch {
				j.obs, j.err = d.observe(j.state, h.Sorted, docs, created)
			}
		}()
	}
	for _, j := range jobs {
		ch <- j
	}
	close(ch)
	wg.Wait()
	for _, j := range jobs {
		if j.err != nil {
			fmt.Fprintln(os.Stderr, "hC15: harness error while observing a parallel-pass crash state:", j.err)
			d.w.Count("harness_errors")
			continue
		}
		sets := fileSets(j.state.FileNames())
		var stC, obsC []string
		served := make([]bool, len(created))
		for i, f := range created {
			stC = append(stC, coqKinds(sets[f]))
			if !j.obs.Died {
				kind := ""
				for _, o := range j.obs.Fracs {
					if o.Name == f {
						kind = o.Kind
					}
				}
				served[i] = kind != ""
				st := j.obs.Stats[f]
				if st == nil {
					st = &docStat{}
				}
				obsC = append(obsC, fmt.Sprintf("mkobs %s %d%%N %d%%N %d%%N %s", lkindCoq(kind), st.Expected, st.OK, st.Wrong, coqKinds(j.obs.After[f])))
			}
		}
		impl := "None"
		var implJ any = map[string]any{"died": true, "stderr_tail": j.obs.Err}
		if !j.obs.Died {
			impl = "(Some [" + strings.Join(obsC, "; ") + "])"
			implJ = map[string]any{"fracs": j.obs.Fracs, "docs": j.obs.Stats, "files_after": j.obs.After, "err": j.obs.Err}
			// shape of the refutation: an older fraction with documents served, a newer one gone
			gap, seenServed := false, false
			for i, f := range created {
				if nExp[f] == 0 || kindOfFrac[f] == "" {
					continue
				}
				if served[i] {
					seenServed = true
				} else if seenServed {
					gap = true
				}
			}
			if gap {
				d.w.Count("par_restarts_older_served_newer_gone")
			}
		} else {
			d.w.Count("restart_died")
		}
		class := "par:crash-observed-order"
		if j.order != "observed" {
			class = "par:crash-reordered"
		}
		term := fmt.Sprintf("CPar %s %s %s %d %s %d [%s] %s", casefile.Bool(h.Sorted), dirS, kindsS, k, coqLog(j.log), j.n, strings.Join(stC, "; "), impl)
		d.w.Add(term, class, j.n > 0 && j.n < len(j.log), input(j.order, j.log, j.n), implJ)
	}
}

// gapWitness replays the model's refutation on the real code: three fractions of sizes a < b and c, limit
// a + c: the real pass pushes out the two oldest; the crash state "the newer outsider has renamed its first
// file to .del, the older one has not started" is rebuilt from the traced operations; a real process is
// started on it and runs the next real retention pass with the same limit.
func (d *driver) gapWitness(sorted bool) {
	h := &history{ID: fmt.Sprintf("G-%v", sorted), Sorted: sorted, Steps: []step{{Op: "bulk", N: 1}, {Op: "seal"}, {Op: "bulk", N: 14}, {Op: "seal"},
		{Op: "bulk", N: 2}, {Op: "shrink", Drop: 2, AddFirst: true}}}
	if !d.execHistory(h) {
		return
	}
	defer os.RemoveAll(h.Dir)
	ci := len(h.Calls) - 1
	c := h.Calls[ci]
	if c.Err != "" || c.Step.Op != "shrink" || len(c.Before) != 3 || len(c.After) != 1 {
		d.w.Count("gap_witness_not_applicable")
		return
	}
	lo, hi := h.window(ci)
	created := h.created(lo)
	if len(created) != 3 {
		d.w.Count("gap_witness_not_applicable")
		return
	}
	st := h.Trace.StateAt(lo)
	var applied []string
	for k := lo; k < hi && k < len(h.Trace.Ops); k++ {
		o := h.Trace.Ops[k]
		f, x, ok := project(o)
		if !ok {
			if o.Kind != crashfs.Mark {
				st.Apply(o)
			}
			continue
		}
		if f != created[1] {
			continue
		}
		st.Apply(o)
		applied = append(applied, x.String())
		if x.K == "rename" {
			break
		}
	}
	docs := h.docsAt(lo)
	dir := d.newDir()
	defer os.RemoveAll(dir)
	if err := st.Materialize(dir); err != nil {
		d.w.Count("harness_errors")
		return
	}
	ch, err := storectl.Start("")
	if err != nil {
		d.w.Count("harness_errors")
		return
	}
	defer ch.Close()
	ch.Timeout = 60 * 1e9
	if _, e := ch.Call(openReq(dir, sorted)); e != nil {
		d.w.Violate("gap-witness:restart-died", "restart on the witness crash state failed: "+e.Error(), h.desc())
		return
	}
	ex := fmt.Sprintf(`{"limit":%d}`, c.Limit)
	r, e := ch.Call(storectl.Req{Op: "c15.shrink", Extra: []byte(ex)})
	if e != nil {
		d.w.Violate("gap-witness:pass-failed", "the retention pass after the restart failed: "+e.Error(), h.desc())
		return
	}
	after := extraInfos(r)
	listed := map[string]bool{}
	for _, f := range after {
		listed[f.Name] = true
	}
	// documents of the older fraction still answered?
	req := storectl.Req{Op: "fetch"}
	var want []doc
	for _, x := range docs {
		if x.Frac == created[0] || x.Frac == created[1] {
			req.IDs = append(req.IDs, [2]uint64{x.MID, x.RID})
			want = append(want, x)
		}
	}
	fr, e := ch.Call(req)
	servedOld, servedNew := 0, 0
	if e == nil {
		for i, x := range want {
			if i < len(fr.DocsHex) && len(fr.DocsHex[i]) > 0 {
				if x.Frac == created[0] {
					servedOld++
				} else {
					servedNew++
				}
			}
		}
	}
	d.w.Count("gap_witness_replayed")
	if listed[created[0]] && !listed[created[1]] && servedOld > 0 && servedNew == 0 {
		var sizes []uint64
		for _, f := range c.Before {
			sizes = append(sizes, f.Full)
		}
		d.w.Violate("retention-crash-newer-gone-older-served",
			"crash inside a retention pass over two outsiders (the goroutine of the NEWER one had renamed its first file to .del, the older one had not started): "+
				"after the restart AND the next retention pass with the same limit the OLDER fraction is still listed and its documents are served while the NEWER one is gone "+
				"(not oldest-first; Coq: C15_parallel_retention_prefix_at_restart_refuted, C15_parallel_retention_prefix_eventually_refuted)",
			map[string]any{"history": h.desc(), "sizes_before_pass": sizes, "limit": c.Limit, "fractions": created,
				"operations_applied_before_crash": applied, "listed_after_restart_and_next_pass": after,
				"documents_served_older": servedOld, "documents_served_newer": servedNew})
	} else {
		d.w.Count("gap_witness_not_reproduced")
	}
}
