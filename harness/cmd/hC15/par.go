package main

// Deletions of one retention pass over several outsiders (fracmanager.go shrinkSizes; since fix 14be38b ONE
// goroutine deletes the outsiders one after another, oldest first; before it one goroutine per outsider).
// The operation log of a real pass over 2-4 outsiders is compared with the model's per-fraction programs
// and must be sequential: an operation of an older outsider after one of a newer outsider is a violation
// (CParLog). Every crash point of the observed log is rebuilt with crashfs, a real child is started on it,
// and what it serves is compared with the model's loader and the specification, "the fractions gone are a
// prefix of the creation order" included (CPar). Re-orderings of the log are NOT explored: the repaired code
// cannot produce them (the model of the old code, drun_v0, could: C15_..._v0_refuted).
// Regression class retention-crash-newer-gone-older-served (gapRegress): the witness history of the repaired
// defect (sizes a < b, c and limit a + c), every crash point of its pass, restart AND next real pass.

import (
	"fmt"
	"os"
	"strings"
	"sync"

	"verif/harness/internal/casefile"
	"verif/harness/internal/crashfs"
	"verif/harness/internal/storectl"
)

const extWorkers = 4

type logEntry struct {
	Frac int
	X    xop
	Op   crashfs.Op
}

func (d *driver) parPasses(round int, sorted bool) {
	outs := []int{2, 3}
	if d.tier != "quick" {
		outs = []int{2, 3, 4}
	}
	for _, n := range outs {
		var steps []step
		for i := 0; i < n; i++ {
			steps = append(steps, step{Op: "bulk", N: d.r.Range(1, 3)})
			if i == n-1 && d.r.Chance(1, 2) {
				steps = append(steps, step{Op: "rotate"}) // the youngest outsider is still an (unsealed) active fraction
			} else {
				steps = append(steps, step{Op: "seal"})
			}
		}
		steps = append(steps, step{Op: "bulk", N: 2}, step{Op: "seal"}, step{Op: "bulk", N: 2}, step{Op: "shrink", Drop: n})
		h := &history{ID: fmt.Sprintf("P%d-%v-%d", round, sorted, n), Sorted: sorted, Steps: steps}
		if !d.execHistory(h) {
			continue
		}
		d.w.Count("parallel_pass_histories")
		bad := false
		for _, c := range h.Calls {
			if c.Err != "" {
				bad = true
				d.w.Violate("parallel-pass:call-failed", "a call of the parallel-retention history failed: "+c.Err, h.desc())
			}
		}
		if !bad {
			d.parExplore(h)
		}
		d.emitShrinks(h)
		os.RemoveAll(h.Dir)
	}
}

func lkindOfObs(kind string) string { return lkindCoq(kind) }

func coqLog(log []logEntry) string {
	parts := make([]string, len(log))
	for i, e := range log {
		parts[i] = fmt.Sprintf("(%d, %s)", e.Frac, e.X.coq())
	}
	return "[" + strings.Join(parts, "; ") + "]"
}

func logStrings(log []logEntry, names []string) []string {
	out := make([]string, len(log))
	for i, e := range log {
		out[i] = fmt.Sprintf("%s: %s", names[e.Frac], e.X.String())
	}
	return out
}

type parJob struct {
	order string
	log   []logEntry
	n     int
	state *crashfs.State
	obs   loadObs
	err   error
}

func (d *driver) parExplore(h *history) {
	ci := -1
	for i, c := range h.Calls {
		if c.Step.Op == "shrink" && c.Err == "" {
			ci = i
		}
	}
	if ci < 0 {
		return
	}
	c := h.Calls[ci]
	lo, hi := h.window(ci)
	if hi > len(h.Trace.Ops) {
		hi = len(h.Trace.Ops)
	}
	created := h.created(lo)
	idx := map[string]int{}
	for i, f := range created {
		idx[f] = i
	}
	base := h.Trace.StateAt(lo)
	before := fileSets(base.FileNames())
	docs := h.docsAt(lo)
	nExp := map[string]int{}
	for _, x := range docs {
		nExp[x.Frac]++
	}
	doomed := h.doomedAt(lo)
	var log []logEntry
	var others []crashfs.Op
	for k := lo; k < hi; k++ {
		o := h.Trace.Ops[k]
		if f, x, ok := project(o); ok {
			if i, known := idx[f]; known {
				log = append(log, logEntry{Frac: i, X: x, Op: o})
				continue
			}
		}
		if o.Kind != crashfs.Mark {
			others = append(others, o)
		}
	}
	kindOfFrac := map[string]string{}
	for _, o := range c.Before {
		kindOfFrac[o.Name] = o.Kind
	}
	k := len(c.Before) - len(c.After)
	var dirC, kindsC []string
	var dirJ []map[string]any
	for _, f := range created {
		dirC = append(dirC, d.fracstCoq(before[f], nExp[f] > 0, doomed[f]))
		kindsC = append(kindsC, lkindCoq(kindOfFrac[f]))
		dirJ = append(dirJ, map[string]any{"name": f, "files": before[f], "docs": nExp[f], "listed": kindOfFrac[f], "deletion_seen": doomed[f]})
	}
	dirS, kindsS := "["+strings.Join(dirC, "; ")+"]", "["+strings.Join(kindsC, "; ")+"]"
	input := func(order string, lg []logEntry, n int) map[string]any {
		return map[string]any{"history": h.desc(), "fractions": dirJ, "pushed_out": k, "order": order, "log": logStrings(lg, created), "crash_after_ops": n}
	}
	touched := map[int]bool{}
	for _, e := range log {
		touched[e.Frac] = true
	}
	d.w.Add(fmt.Sprintf("CParLog %s %s %s %d %s", casefile.Bool(h.Sorted), dirS, kindsS, k, coqLog(log)), "par:log",
		len(touched) > 1, input("observed", log, len(log)), logStrings(log, created))
	d.w.Count(fmt.Sprintf("par_outsiders_%d", k))
	// is the observed log a true interleaving (not one goroutine after the other)?
	switches := 0
	for i := 1; i < len(log); i++ {
		if log[i].Frac != log[i-1].Frac {
			switches++
		}
	}
	if switches >= len(touched) {
		d.w.Count("par_observed_logs_not_sequential")
	}
	if len(log) > 0 && len(touched) > 1 && log[0].Frac != 0 {
		d.w.Count("par_observed_newer_goroutine_first")
	}
	orders := map[string][]logEntry{"observed": log}
	names := []string{"observed"}
	seen := map[string]bool{}
	var jobs []*parJob
	for _, on := range names {
		lg := orders[on]
		for n := 0; n <= len(lg); n++ {
			cnt := make([]int, len(created))
			for _, e := range lg[:n] {
				cnt[e.Frac]++
			}
			key := fmt.Sprint(cnt)
			if seen[key] {
				continue
			}
			seen[key] = true
			st := base.Clone()
			for _, o := range others {
				st.Apply(o)
			}
			for _, e := range lg[:n] {
				st.Apply(e.Op)
			}
			jobs = append(jobs, &parJob{order: on, log: lg, n: n, state: st})
		}
	}
	var wg sync.WaitGroup
	ch := make(chan *parJob)
	for i := 0; i < extWorkers; i++ {
		wg.Add(1)
		go func() {
			defer wg.Done()
			for j := range ch {
				j.obs, j.err = d.observe(j.state, h.Sorted, docs, created)
			}
		}()
	}
	for _, j := range jobs {
		ch <- j
	}
	close(ch)
	wg.Wait()
	for _, j := range jobs {
		if j.err != nil {
			fmt.Fprintln(os.Stderr, "hC15: harness error while observing a parallel-pass crash state:", j.err)
			d.w.Count("harness_errors")
			continue
		}
		sets := fileSets(j.state.FileNames())
		var stC, obsC []string
		served := make([]bool, len(created))
		for i, f := range created {
			stC = append(stC, coqKinds(sets[f]))
			if !j.obs.Died {
				kind := ""
				for _, o := range j.obs.Fracs {
					if o.Name == f {
						kind = o.Kind
					}
				}
				served[i] = kind != ""
				st := j.obs.Stats[f]
				if st == nil {
					st = &docStat{}
				}
				obsC = append(obsC, fmt.Sprintf("mkobs %s %d%%N %d%%N %d%%N %s", lkindCoq(kind), st.Expected, st.OK, st.Wrong, coqKinds(j.obs.After[f])))
			}
		}
		impl := "None"
		var implJ any = map[string]any{"died": true, "stderr_tail": j.obs.Err}
		if !j.obs.Died {
			impl = "(Some [" + strings.Join(obsC, "; ") + "])"
			implJ = map[string]any{"fracs": j.obs.Fracs, "docs": j.obs.Stats, "files_after": j.obs.After, "err": j.obs.Err}
			// shape of the refutation: an older fraction with documents served, a newer one gone
			gap, seenServed := false, false
			for i, f := range created {
				if nExp[f] == 0 || kindOfFrac[f] == "" {
					continue
				}
				if served[i] {
					seenServed = true
				} else if seenServed {
					gap = true
				}
			}
			if gap {
				d.w.Count("par_restarts_older_served_newer_gone")
			}
		} else {
			d.w.Count("restart_died")
		}
		class := "par:crash-in-pass"
		term := fmt.Sprintf("CPar %s %s %s %d %s %d [%s] %s", casefile.Bool(h.Sorted), dirS, kindsS, k, coqLog(j.log), j.n, strings.Join(stC, "; "), impl)
		d.w.Add(term, class, j.n > 0 && j.n < len(j.log), input(j.order, j.log, j.n), implJ)
	}
}

// gapRegress: permanent regression class of fix 14be38b. Three fractions of sizes a < b and c, limit a + c:
// the real pass pushes out the two oldest. For every crash point of the traced pass the directory is
// rebuilt, a real process is started on it, reports its fractions and sizes, runs the next real retention
// pass with the same limit and reports what it lists then. Before the fix the goroutine of the newer
// outsider could run first: the older fraction stayed served next to the deleted newer one and the next
// pass did not remove it (sizes [1309 1509 196], limit 1505).
func (d *driver) gapRegress(sorted bool, rep int) {
	h := &history{ID: fmt.Sprintf("G%d-%v", rep, sorted), Sorted: sorted, Steps: []step{{Op: "bulk", N: 1}, {Op: "seal"}, {Op: "bulk", N: 14}, {Op: "seal"},
		{Op: "bulk", N: 2}, {Op: "shrink", Drop: 2, AddFirst: true}}}
	if !d.execHistory(h) {
		return
	}
	defer os.RemoveAll(h.Dir)
	ci := len(h.Calls) - 1
	c := h.Calls[ci]
	if c.Err != "" || c.Step.Op != "shrink" || len(c.Before) != 3 || len(c.After) != 1 {
		d.w.Count("gap_regress_not_applicable")
		return
	}
	lo, hi := h.window(ci)
	if hi > len(h.Trace.Ops) {
		hi = len(h.Trace.Ops)
	}
	created := h.created(lo)
	if len(created) != 3 {
		d.w.Count("gap_regress_not_applicable")
		return
	}
	idx := map[string]int{}
	for i, f := range created {
		idx[f] = i
	}
	base := h.Trace.StateAt(lo)
	before := fileSets(base.FileNames())
	docs := h.docsAt(lo)
	nExp := map[string]int{}
	for _, x := range docs {
		nExp[x.Frac]++
	}
	doomed := h.doomedAt(lo)
	var log []logEntry
	var others []crashfs.Op
	for k := lo; k < hi; k++ {
		o := h.Trace.Ops[k]
		if f, x, ok := project(o); ok {
			if i, known := idx[f]; known {
				log = append(log, logEntry{Frac: i, X: x, Op: o})
				continue
			}
		}
		if o.Kind != crashfs.Mark {
			others = append(others, o)
		}
	}
	kindOfFrac := map[string]string{}
	for _, o := range c.Before {
		kindOfFrac[o.Name] = o.Kind
	}
	var dirC, kindsC []string
	var dirJ []map[string]any
	for _, f := range created {
		dirC = append(dirC, d.fracstCoq(before[f], nExp[f] > 0, doomed[f]))
		kindsC = append(kindsC, lkindCoq(kindOfFrac[f]))
		dirJ = append(dirJ, map[string]any{"name": f, "files": before[f], "docs": nExp[f], "listed": kindOfFrac[f]})
	}
	dirS, kindsS := "["+strings.Join(dirC, "; ")+"]", "["+strings.Join(kindsC, "; ")+"]"
	var sizesBefore []uint64
	for _, f := range c.Before {
		sizesBefore = append(sizesBefore, f.Full)
	}
	type job struct {
		n      int
		state  *crashfs.State
		sizes  []uint64
		served []bool
		after  []fracObs
		err    string
		harn   error
	}
	var jobs []*job
	for n := 0; n <= len(log); n++ {
		st := base.Clone()
		for _, o := range others {
			st.Apply(o)
		}
		for _, e := range log[:n] {
			st.Apply(e.Op)
		}
		jobs = append(jobs, &job{n: n, state: st})
	}
	var wg sync.WaitGroup
	sem := make(chan struct{}, extWorkers)
	for _, j := range jobs {
		wg.Add(1)
		sem <- struct{}{}
		go func(j *job) {
			defer wg.Done()
			defer func() { <-sem }()
			dir := d.newDir()
			defer os.RemoveAll(dir)
			if err := j.state.Materialize(dir); err != nil {
				j.harn = err
				return
			}
			ch, err := storectl.Start("")
			if err != nil {
				j.harn = err
				return
			}
			defer ch.Close()
			ch.Timeout = 60 * 1e9
			if _, e := ch.Call(openReq(dir, sorted)); e != nil {
				j.err = "restart: " + e.Error()
				return
			}
			r0, e := ch.Call(storectl.Req{Op: "c15.info"})
			if e != nil {
				j.err = "info: " + e.Error()
				return
			}
			size := map[string]uint64{}
			for _, f := range extraInfos(r0) {
				size[f.Name] = f.Full
			}
			r, e := ch.Call(storectl.Req{Op: "c15.shrink", Extra: []byte(fmt.Sprintf(`{"limit":%d}`, c.Limit))})
			if e != nil {
				j.err = "retention pass after the restart: " + e.Error()
				return
			}
			j.after = extraInfos(r)
			listed := map[string]bool{}
			for _, f := range j.after {
				listed[f.Name] = true
			}
			for _, f := range created {
				j.sizes = append(j.sizes, size[f])
				j.served = append(j.served, listed[f])
			}
		}(j)
	}
	wg.Wait()
	for _, j := range jobs {
		in := map[string]any{"history": h.desc(), "fractions": dirJ, "sizes_before_pass": sizesBefore, "limit": c.Limit,
			"log": logStrings(log, created), "crash_after_ops": j.n}
		if j.harn != nil {
			d.w.Count("harness_errors")
			continue
		}
		if j.err != "" {
			d.w.Violate("gap-regress:run-failed", j.err, in)
			continue
		}
		sets := fileSets(j.state.FileNames())
		var stC, srv []string
		for i, f := range created {
			stC = append(stC, coqKinds(sets[f]))
			srv = append(srv, casefile.Bool(j.served[i]))
		}
		term := fmt.Sprintf("CGap %s %s %s %d %s %d [%s] %s %d%%N [%s]", casefile.Bool(sorted), dirS, kindsS, 2, coqLog(log), j.n,
			strings.Join(stC, "; "), casefile.NList(j.sizes), c.Limit, strings.Join(srv, "; "))
		d.w.Add(term, "retention-crash-newer-gone-older-served", j.n > 0 && j.n < len(log), in,
			map[string]any{"sizes_reported_after_restart": j.sizes, "listed_after_restart_and_next_pass": j.after, "served": j.served})
	}
	d.w.Count("gap_regress_histories")
}
