package main

import (
	"crypto/sha1"
	"encoding/hex"
	"encoding/json"
	"fmt"
	"os"
	"path/filepath"
	"strings"
	"sync"

	"verif/harness/internal/casefile"
	"verif/harness/internal/crashfs"
)

func has(sufs []string, s string) bool {
	for _, x := range sufs {
		if x == s {
			return true
		}
	}
	return false
}

// the loader's classification, only as far as the driver needs it to label windows
func isActiveClass(sufs []string) bool {
	if has(sufs, ".docs.del") || has(sufs, ".sdocs.del") || has(sufs, ".index.del") {
		return false
	}
	if !has(sufs, ".docs") && !has(sufs, ".sdocs") {
		return false
	}
	if has(sufs, ".sdocs") && has(sufs, ".index") {
		return false
	}
	return has(sufs, ".meta")
}

func lkindCoq(k string) string {
	switch k {
	case "sealed":
		return "LSealed"
	case "active":
		return "LActive"
	}
	return "LNone"
}

// ------------------------------------------------------------------------------- lineage bookkeeping

type point struct {
	h *history
	k int // crash before operation k of the trace (k = len(ops): after everything)
}

func (p point) desc() map[string]any {
	m := p.h.desc()
	m["crash_before_op"] = p.k
	if p.k < len(p.h.Trace.Ops) {
		m["crash_before"] = p.h.Trace.Ops[p.k].String()
	} else {
		m["crash_before"] = "(end of history)"
	}
	return m
}

// created returns the fractions in creation order known at point k.
func (h *history) created(k int) []string {
	var out []string
	seen := map[string]bool{}
	if h.Base != nil {
		for _, f := range h.Base.Created {
			out = append(out, f)
			seen[f] = true
		}
	}
	for i := 0; i < k && i < len(h.Trace.Ops); i++ {
		if f, x, ok := project(h.Trace.Ops[i]); ok && x.K == "create" && !seen[f] {
			seen[f] = true
			out = append(out, f)
		}
	}
	return out
}

func (h *history) docsAt(k int) []doc {
	var out []doc
	if h.Base != nil {
		out = append(out, h.Base.Docs...)
	}
	for _, c := range h.Calls {
		if c.Step.Op == "bulk" && c.Err == "" && c.MarkIdx < k {
			out = append(out, c.Docs...)
		}
	}
	return out
}

func (h *history) doomedAt(k int) map[string]bool {
	out := map[string]bool{}
	if h.Base != nil {
		for f, v := range h.Base.Doomed {
			out[f] = v
		}
	}
	for i := 0; i < k && i < len(h.Trace.Ops); i++ {
		if f, x, ok := project(h.Trace.Ops[i]); ok && x.K == "rename" && strings.HasSuffix(x.B, ".del") {
			out[f] = true
		}
	}
	// fractions a finished retention pass has pushed out
	for _, c := range h.Calls {
		if (c.Step.Op == "shrink" || c.Step.Op == "sealrace") && c.Err == "" && c.MarkIdx < k {
			left := map[string]bool{}
			for _, f := range c.After {
				left[f.Name] = true
			}
			for _, f := range c.Before {
				if !left[f.Name] {
					out[f.Name] = true
				}
			}
		}
	}
	// fractions of the base state that the restart at the head of this history did not serve
	if h.Base != nil && len(h.Calls) > 0 && h.Calls[0].Err == "" && h.Calls[0].MarkIdx < k {
		listed := map[string]bool{}
		for _, f := range h.Calls[0].After {
			listed[f.Name] = true
		}
		for _, f := range h.Base.Created {
			if !listed[f] {
				out[f] = true
			}
		}
	}
	return out
}

// inMultiDrop: k lies strictly inside a retention pass that pushed out more than one fraction (the
// deletions run in parallel goroutines there, so the order of operations is not reproducible)
func (h *history) inMultiDrop(k int) bool {
	prev := -1
	for _, c := range h.Calls {
		if c.Step.Op == "shrink" && c.Err == "" && len(c.Before)-len(c.After) > 1 && k > prev+1 && k <= c.MarkIdx {
			return true
		}
		prev = c.MarkIdx
	}
	return false
}

// ------------------------------------------------------------------------------- cases

func (d *driver) fracstCoq(files []string, hasdata, doomed bool) string {
	return fmt.Sprintf("mkst %s %s %s", coqKinds(files), casefile.Bool(hasdata), casefile.Bool(doomed))
}

type loadJob struct {
	p      point
	state  *crashfs.State
	class  string
	obs    loadObs
	err    error
	docs   []doc
	known  []string
	doomed map[string]bool
}

func (d *driver) runLoads(jobs []*loadJob, sorted bool) {
	var wg sync.WaitGroup
	ch := make(chan *loadJob)
	for i := 0; i < workers; i++ {
		wg.Add(1)
		go func() {
			defer wg.Done()
			for j := range ch {
				j.obs, j.err = d.observe(j.state, sorted, j.docs, j.known)
			}
		}()
	}
	for _, j := range jobs {
		ch <- j
	}
	close(ch)
	wg.Wait()
}

func (d *driver) emitLoad(j *loadJob, sorted bool) {
	if j.err != nil {
		fmt.Fprintln(os.Stderr, "hC15: harness error while observing a crash state:", j.err)
		d.w.Count("harness_errors")
		return
	}
	sets := fileSets(j.state.FileNames())
	nExp := map[string]int{}
	for _, x := range j.docs {
		nExp[x.Frac]++
	}
	var dir, obsC []string
	var in []map[string]any
	class := j.class
	for _, f := range j.known {
		files := sets[f]
		dir = append(dir, d.fracstCoq(files, nExp[f] > 0, j.doomed[f]))
		in = append(in, map[string]any{"files": files, "docs": nExp[f], "deletion_seen": j.doomed[f]})
		if !j.obs.Died {
			kind := ""
			for _, o := range j.obs.Fracs {
				if o.Name == f {
					kind = o.Kind
				}
			}
			st := j.obs.Stats[f]
			if st == nil {
				st = &docStat{}
			}
			after := j.obs.After[f]
			obsC = append(obsC, fmt.Sprintf("mkobs %s %d%%N %d%%N %d%%N %s", lkindCoq(kind), st.Expected, st.OK, st.Wrong, coqKinds(after)))
		}
	}
	impl := "None"
	var implJ any = map[string]any{"died": true, "stderr_tail": j.obs.Err}
	if !j.obs.Died {
		impl = "(Some [" + strings.Join(obsC, "; ") + "])"
		implJ = map[string]any{"fracs": j.obs.Fracs, "docs": j.obs.Stats, "files_after": j.obs.After, "err": j.obs.Err}
	} else {
		d.w.Count("restart_died")
	}
	term := fmt.Sprintf("CLoad %s [%s] %s", casefile.Bool(sorted), strings.Join(dir, "; "), impl)
	nontrivial := false
	for _, f := range j.known {
		fs := sets[f]
		if len(fs) > 0 && !(len(fs) == 2 && has(fs, ".sdocs") && has(fs, ".index")) && !(len(fs) == 2 && has(fs, ".docs") && has(fs, ".meta")) {
			nontrivial = true // some fraction is in an intermediate file set
		}
	}
	d.w.Add(term, class, nontrivial, map[string]any{"at": j.p.desc(), "dir": in}, implJ)
}

// window returns for call i the half-open range of trace operations it issued.
func (h *history) window(i int) (int, int) {
	lo := 0
	if i > 0 {
		lo = h.Calls[i-1].MarkIdx + 1
		// skip the follow-up info mark
		for lo < len(h.Trace.Ops) && h.Trace.Ops[lo].Kind == crashfs.Mark {
			lo++
		}
	}
	return lo, h.Calls[i].MarkIdx
}

func (d *driver) emitOps(h *history) {
	for i, c := range h.Calls {
		if c.Err != "" {
			continue
		}
		lo, hi := h.window(i)
		if hi > len(h.Trace.Ops) {
			hi = len(h.Trace.Ops)
		}
		per := map[string][]xop{}
		var order []string
		for k := lo; k < hi; k++ {
			if f, x, ok := project(h.Trace.Ops[k]); ok {
				if _, seen := per[f]; !seen {
					order = append(order, f)
				}
				per[f] = append(per[f], x)
			}
		}
		if len(order) == 0 {
			continue
		}
		before := fileSets(h.Trace.StateAt(lo).FileNames())
		docs := h.docsAt(lo)
		nExp := map[string]int{}
		for _, x := range docs {
			nExp[x.Frac]++
		}
		doomed := h.doomedAt(lo)
		created := h.created(lo)
		for _, f := range order {
			bf := before[f]
			ev, class := "", ""
			switch c.Step.Op {
			case "open":
				known := false
				for _, x := range created {
					if x == f {
						known = true
					}
				}
				if !known {
					ev, class = "EvCreate", "ops:create"
				} else {
					nonlast := false
					after := false
					for _, x := range created {
						if after && isActiveClass(before[x]) && nExp[x] > 0 {
							nonlast = true
						}
						if x == f {
							after = true
						}
					}
					ev, class = "(EvLoad "+casefile.Bool(nonlast)+")", "ops:load"
				}
			case "seal", "rotate":
				if len(bf) == 0 {
					ev, class = "EvCreate", "ops:create"
				} else {
					ev, class = "EvSeal", "ops:seal"
				}
			case "sealrace":
				if len(bf) == 0 {
					ev, class = "EvCreate", "ops:create"
				} else if racySeal(c.Step) {
					d.w.Count("racy_seal_windows_not_compared")
					continue
				} else {
					ev, class = "EvSealEvict", "ops:seal-evicted"
				}
			case "shrink":
				kind := "active"
				for _, o := range c.Before {
					if o.Name == f {
						kind = o.Kind
					}
				}
				if kind == "sealed" {
					ev, class = "EvSealedSuicide", "ops:delete-sealed"
				} else {
					ev, class = "EvActiveSuicide", "ops:delete-active"
					if has(bf, ".index") || has(bf, ".sdocs") {
						// regression class of fixes 0dd016e / 30ce157: a fraction replayed after an interrupted seal is deleted while active
						class = "ops:delete-active-after-interrupted-seal"
					}
				}
			default:
				d.w.Count("ops_in_unexpected_window")
				continue
			}
			term := fmt.Sprintf("COps %s %s %s %s %s %s", ev, casefile.Bool(h.Sorted), casefile.Bool(nExp[f] > 0), casefile.Bool(doomed[f]),
				coqKinds(bf), coqXops(per[f]))
			d.w.Add(term, class, len(per[f]) > 1, map[string]any{"history": h.desc(), "call": i, "step": c.Step, "files_before": bf, "docs": nExp[f]},
				xopStrings(per[f]))
		}
	}
}

func (d *driver) emitShrinks(h *history) {
	for _, c := range h.Calls {
		if c.Step.Op != "shrink" || c.Err != "" {
			continue
		}
		var sizes []uint64
		var removed []int
		left := map[string]bool{}
		for _, f := range c.After {
			left[f.Name] = true
		}
		for i, f := range c.Before {
			sizes = append(sizes, f.Full)
			if !left[f.Name] {
				removed = append(removed, i)
			}
		}
		term := fmt.Sprintf("CShrink %d%%N %s %s", c.Limit, casefile.NList(sizes), casefile.NatList(removed))
		d.w.Add(term, "retention", len(removed) > 0 && len(removed) < len(sizes), map[string]any{"history": h.desc(), "limit": c.Limit, "sizes": sizes},
			map[string]any{"removed_positions": removed})
		d.w.Count(fmt.Sprintf("retention_removed_%d", len(removed)))
	}
}

// racySeal: the call lets Active.Release and the deletion run in two threads at once. strace logs system
// calls of different threads in the order it sees them return, which need not be the order in which the
// kernel applied them, so states rebuilt from inside that stretch may never have existed: they are not
// used (the deterministic schedules cover both orders; the end state of the racy ones is checked).
func racySeal(s step) bool {
	return s.Op == "sealrace" && !s.Hold && s.Park != "seal.swapped" && s.Park != "seal.released"
}

func (h *history) inRace(k int) bool {
	for i, c := range h.Calls {
		if !racySeal(c.Step) || c.Err != "" {
			continue
		}
		lo, hi := h.window(i)
		pub := -1
		for j := lo; j < hi && j < len(h.Trace.Ops); j++ {
			if o := h.Trace.Ops[j]; o.Kind == crashfs.Rename && strings.HasSuffix(o.Path2, ".index") {
				pub = j
			}
		}
		if pub >= 0 && k > pub+1 && k <= hi {
			return true
		}
	}
	return false
}

// crashPoints: before every create/rename/unlink, and the end.
func (h *history) crashPoints() []int {
	var out []int
	for k, o := range h.Trace.Ops {
		if isNameOp(o) && !h.inMultiDrop(k) && !h.inRace(k) {
			out = append(out, k)
		}
	}
	return append(out, len(h.Trace.Ops))
}

func (d *driver) exploreCrashes(h *history, class string, pts []int) []*loadJob {
	var jobs []*loadJob
	for _, k := range pts {
		j := &loadJob{p: point{h, k}, state: h.Trace.StateAt(k), class: class, docs: h.docsAt(k), known: h.created(k), doomed: h.doomedAt(k)}
		jobs = append(jobs, j)
	}
	d.runLoads(jobs, h.Sorted)
	for _, j := range jobs {
		d.emitLoad(j, h.Sorted)
	}
	return jobs
}

func (d *driver) genSteps(n int) []step {
	steps := []step{{Op: "bulk", N: d.r.Range(2, 4)}, {Op: "seal"}}
	for len(steps) < n {
		switch d.r.Intn(10) {
		case 0, 1, 2:
			steps = append(steps, step{Op: "bulk", N: d.r.Range(1, 4)})
		case 3, 4:
			steps = append(steps, step{Op: "bulk", N: d.r.Range(1, 3)}, step{Op: "seal"})
		case 5:
			steps = append(steps, step{Op: "bulk", N: d.r.Range(1, 3)}, step{Op: "rotate"})
		case 6, 7:
			delta := 0
			if d.r.Chance(1, 3) {
				delta = -1
			} else if d.r.Chance(1, 3) {
				delta = 1
			}
			steps = append(steps, step{Op: "shrink", Drop: 1, Delta: delta})
		case 8:
			steps = append(steps, step{Op: "synccache"})
		case 9:
			steps = append(steps, step{Op: "shrink", Drop: d.r.Range(0, 2), Delta: d.r.Range(-1, 1)})
		}
	}
	steps = append(steps, step{Op: "synccache"}, step{Op: "bulk", N: 2}, step{Op: "seal"}, step{Op: "shrink", Drop: 1}, step{Op: "synccache"})
	return steps
}

func (d *driver) contSteps(variant int) []step {
	switch variant % 3 {
	case 0:
		return []step{{Op: "rotate"}, {Op: "shrink", Drop: 1}, {Op: "shrink", Drop: 1}, {Op: "synccache"}, {Op: "shrink", Drop: 1}}
	case 1:
		return []step{{Op: "bulk", N: 2}, {Op: "seal"}, {Op: "shrink", Drop: 1}, {Op: "synccache"}}
	}
	return []step{{Op: "shrink", Drop: 1}, {Op: "bulk", N: 1}, {Op: "rotate"}, {Op: "shrink", Drop: 1}, {Op: "shrink", Drop: 1}}
}

func (d *driver) execHistory(h *history) bool {
	for attempt := 0; attempt < 2; attempt++ {
		h.Calls = nil
		err := d.runHistory(h)
		if err == nil {
			err = h.Trace.Verify()
		}
		if err == nil {
			return true
		}
		fmt.Fprintln(os.Stderr, "hC15: trace not usable:", err)
		d.w.Count("trace_unusable")
	}
	return false
}

func (d *driver) run() {
	quick := d.tier == "quick"
	nSteps, nCont, rounds := 10, 28, 1
	if !quick {
		nSteps, nCont, rounds = 12, 40, 3
	}
	for round := 0; round < rounds; round++ {
		for _, sorted := range []bool{true, false} {
			h := &history{ID: fmt.Sprintf("H%d-%v", round, sorted), Sorted: sorted, Steps: d.genSteps(nSteps)}
			if !d.execHistory(h) {
				continue
			}
			d.w.Count("histories")
			d.afterHistory(h)
			jobs := d.exploreCrashes(h, "load:crash-state", h.crashPoints())
			// continue selected crash states with a second history
			var cands []*loadJob
			var forced []*loadJob
			firstSeal := true
			for i, c := range h.Calls {
				if c.Step.Op != "seal" && c.Step.Op != "shrink" && c.Step.Op != "rotate" {
					continue
				}
				lo, hi := h.window(i)
				for _, j := range jobs {
					if j.p.k > lo && j.p.k <= hi && !j.obs.Died && j.err == nil {
						if c.Step.Op == "seal" && firstSeal {
							forced = append(forced, j)
						} else {
							cands = append(cands, j)
						}
					}
				}
				if c.Step.Op == "seal" {
					firstSeal = false
				}
			}
			for i := len(cands) - 1; i > 0; i-- {
				k := d.r.Intn(i + 1)
				cands[i], cands[k] = cands[k], cands[i]
			}
			if len(cands) > nCont {
				cands = cands[:nCont]
			}
			for n, j := range append(forced, cands...) {
				variant := n
				if n < len(forced) {
					variant = 0 // rotate + retention: deletes the replayed fraction while it is still active
				}
				h2 := &history{ID: fmt.Sprintf("%s/c%d", h.ID, j.p.k), Sorted: sorted, Steps: d.contSteps(variant),
					Base: &baseInfo{State: j.state, Docs: j.docs, Doomed: j.doomed, Created: j.known, Desc: j.p.desc()}}
				if !d.execHistory(h2) {
					continue
				}
				d.w.Count("continued_histories")
				if !h2.OpenOK {
					continue
				}
				d.afterHistory(h2)
				cls := "load:crash-state-2"
				if n < len(forced) {
					// permanent regression class (fixes 0dd016e, 30ce157): every crash point of the first seal, restart,
					// rotate, retention deletes the replayed fraction while it is still active
					cls = "load:regress-interrupted-seal-then-delete"
				}
				d.exploreCrashes(h2, cls, h2.crashPoints())
			}
			d.sweep(h)
			d.cacheCases(h)
			d.cachePowerLoss(h)
			d.sealRaces(round, sorted)
			d.parPasses(round, sorted)
			d.useLock(sorted)
			d.overlapRegress(sorted)
			nrep := 2
			if !quick {
				nrep = 3
			}
			for rep := 0; rep < nrep; rep++ {
				d.gapRegress(sorted, round*nrep+rep)
			}
		}
	}
	// last, so that the inputs of the classes above do not depend on it
	for round := 0; round < rounds; round++ {
		for _, sorted := range []bool{true, false} {
			d.proxyScripts(round, sorted)
		}
	}
}

// sealRaces: retention evicts a fraction at every stage of its seal (proxyFrac states Sealing / sealed but
// not yet released / released), with Release before, overlapped with, or after the deletion; every crash
// point of the combined sequence is restarted, and so is the state after the pass (the fraction must be gone).
func (d *driver) sealRaces(round int, sorted bool) {
	type sched struct {
		park string
		hold bool
	}
	scheds := []sched{{"seal.readonly", false}, {"seal.idle", false}, {"seal.built", false}, {"seal.swapped", false}, {"seal.released", false},
		{"seal.readonly", true}, {"seal.idle", true}, {"seal.built", true}}
	for _, sc := range scheds {
		h := &history{ID: fmt.Sprintf("R%d-%v-%s-%v", round, sorted, sc.park, sc.hold), Sorted: sorted,
			Steps: []step{{Op: "bulk", N: d.r.Range(2, 4)}, {Op: "sealrace", Park: sc.park, Hold: sc.hold}, {Op: "bulk", N: 2}, {Op: "seal"}, {Op: "synccache"}}}
		if !d.execHistory(h) {
			continue
		}
		d.w.Count("sealrace_histories")
		bad := false
		for _, c := range h.Calls {
			if c.Err != "" {
				bad = true
				d.w.Violate("sealrace:call-failed", "a call of the retention-during-seal history failed: "+c.Err, h.desc())
			}
		}
		d.afterHistory(h)
		if !bad {
			d.exploreCrashes(h, "load:evicted-while-sealing", h.crashPoints())
		}
	}
}

func (d *driver) afterHistory(h *history) {
	d.emitOps(h)
	d.emitShrinks(h)
	os.RemoveAll(h.Dir)
}

// ------------------------------------------------------------------------------- 2^7 file sets

var sweepKinds = []string{".docs", ".docs.del", ".sdocs", ".sdocs.del", ".index", ".index.del", ".meta"}

// sweep builds every subset of the seven loader-visible files of ONE fraction from real file
// contents (active form before its seal, sealed form after it) and restarts on it.
func (d *driver) sweep(h *history) {
	// first fraction that was sealed in this history
	var name string
	var sealCall int
	for i, c := range h.Calls {
		if c.Step.Op == "seal" && c.Err == "" && len(c.Before) > 0 && c.Before[len(c.Before)-1].Docs > 0 {
			name, sealCall = c.Before[len(c.Before)-1].Name, i
			break
		}
	}
	if name == "" {
		return
	}
	lo, hi := h.window(sealCall)
	pre := h.Trace.StateAt(lo).Files()
	post := h.Trace.StateAt(hi).Files()
	content := map[string][]byte{".docs": pre[name+".docs"], ".meta": pre[name+".meta"], ".index": post[name+".index"]}
	if h.Sorted {
		content[".sdocs"] = post[name+".sdocs"]
	} else {
		// no sorted file exists in this configuration: a copy with other bytes stands in for it
		b := append([]byte(nil), pre[name+".docs"]...)
		for i := range b {
			b[i] ^= 0x5a
		}
		content[".sdocs"] = b
	}
	content[".docs.del"], content[".sdocs.del"], content[".index.del"] = content[".docs"], content[".sdocs"], content[".index"]
	var docs []doc
	for _, x := range h.docsAt(lo) {
		if x.Frac == name {
			docs = append(docs, x)
		}
	}
	type job struct {
		files []string
		hd    bool
		obs   loadObs
		err   error
	}
	var jobs []*job
	for mask := 0; mask < 1<<len(sweepKinds); mask++ {
		var files []string
		for b, k := range sweepKinds {
			if mask&(1<<b) != 0 {
				files = append(files, k)
			}
		}
		jobs = append(jobs, &job{files: canon(files), hd: true})
	}
	// empty-fraction variants (nothing to replay)
	for _, fs := range [][]string{{".docs", ".meta"}, {".meta"}, {".docs"}, {".docs", ".meta", ".index.del"}} {
		jobs = append(jobs, &job{files: canon(fs), hd: false})
	}
	var wg sync.WaitGroup
	ch := make(chan *job)
	for i := 0; i < workers; i++ {
		wg.Add(1)
		go func() {
			defer wg.Done()
			for j := range ch {
				dir := d.newDir()
				os.MkdirAll(dir, 0o755)
				for _, k := range j.files {
					var b []byte
					if j.hd {
						b = content[k]
					}
					os.WriteFile(filepath.Join(dir, name+k), b, 0o644)
				}
				var dd []doc
				if j.hd {
					dd = docs
				}
				j.obs, j.err = d.observeDir(dir, h.Sorted, dd, []string{name})
				os.RemoveAll(dir)
			}
		}()
	}
	for _, j := range jobs {
		ch <- j
	}
	close(ch)
	wg.Wait()
	for _, j := range jobs {
		if j.err != nil {
			d.w.Count("harness_errors")
			continue
		}
		impl := "None"
		var implJ any = map[string]any{"died": true, "stderr_tail": j.obs.Err}
		class := "sweep:file-set"
		if !j.obs.Died {
			kind := ""
			for _, o := range j.obs.Fracs {
				if o.Name == name {
					kind = o.Kind
				}
			}
			st := j.obs.Stats[name]
			after := j.obs.After[name]
			impl = fmt.Sprintf("(Some (mkobs %s %d%%N %d%%N %d%%N %s))", lkindCoq(kind), st.Expected, st.OK, st.Wrong, coqKinds(after))
			implJ = map[string]any{"listed": kind, "docs": st, "files_after": after}
		}
		term := fmt.Sprintf("CSweep %s %s %s %s", casefile.Bool(h.Sorted), casefile.Bool(j.hd), coqKinds(j.files), impl)
		d.w.Add(term, class, len(j.files) > 0, map[string]any{"sort_docs": h.Sorted, "files": j.files, "has_documents": j.hd}, implJ)
	}
	d.w.Exhaust = true
}

// ------------------------------------------------------------------------------- .frac-cache variants

type cacheInfo struct {
	Name        string `json:"name"`
	DocsTotal   uint32 `json:"docs_total"`
	DocsOnDisk  uint64 `json:"docs_on_disk"`
	MetaOnDisk  uint64 `json:"meta_on_disk"`
	IndexOnDisk uint64 `json:"index_on_disk"`
	From        uint64 `json:"from"`
	To          uint64 `json:"to"`
}

func infoCoq(docs uint32, from, to, dod, iod, mod uint64) string {
	return fmt.Sprintf("(mkinfo %d%%N %d%%N %d%%N %d%%N %d%%N %d%%N)", docs, from, to, dod, iod, mod)
}

func (d *driver) cacheCases(h *history) {
	// every version of .frac-cache the history wrote, and the final directory
	final := h.Trace.StateAt(len(h.Trace.Ops))
	var versions [][]byte
	for k, o := range h.Trace.Ops {
		if o.Kind == crashfs.Rename && o.Path2 == ".frac-cache" {
			versions = append(versions, h.Trace.StateAt(k + 1).Files()[".frac-cache"])
		}
	}
	if len(versions) == 0 {
		return
	}
	known := h.created(len(h.Trace.Ops))
	docs := h.docsAt(len(h.Trace.Ops))
	type variant struct {
		name    string
		content []byte // nil = no file
		genuine bool // strict: the restart must behave exactly as without the file
	}
	last := versions[len(versions)-1]
	vs := []variant{{"absent", nil, true}, {"current", last, true}}
	for i, v := range versions[:len(versions)-1] {
		vs = append(vs, variant{fmt.Sprintf("stale-%d", i), v, true})
	}
	cuts := []int{0, 1, len(last) / 3, len(last) / 2, len(last) - 1}
	if d.tier != "quick" {
		cuts = nil
		for n := 0; n < len(last); n += 1 + len(last)/120 {
			cuts = append(cuts, n)
		}
	}
	for _, n := range cuts {
		if n >= 0 && n < len(last) {
			vs = append(vs, variant{fmt.Sprintf("truncated-%d", n), last[:n], true})
		}
	}
	vs = append(vs, variant{"garbage", []byte("\x00\x01 not json"), true})
	// damaged but parsable entries. strict = the loader can tell the entry is unusable (no positive index size):
	// everything must be as without the file. Entries with a positive index size and wrong other numbers are
	// taken at face value by the fast path (agreement with the model only, see the report).
	tamper := func(f func(e map[string]any) map[string]any) []byte {
		var m map[string]map[string]any
		if json.Unmarshal(last, &m) != nil || len(m) == 0 {
			return nil
		}
		for n, e := range m {
			m[n] = f(e)
		}
		b, _ := json.Marshal(m)
		return b
	}
	addT := func(name string, strict bool, f func(e map[string]any) map[string]any) {
		if b := tamper(f); b != nil {
			vs = append(vs, variant{name, b, strict})
		}
	}
	addT("tampered-name-only", true, func(e map[string]any) map[string]any { return map[string]any{"name": e["name"]} })
	addT("tampered-empty-entry", true, func(e map[string]any) map[string]any { return map[string]any{} })
	addT("tampered-zero-index", true, func(e map[string]any) map[string]any { e["index_on_disk"] = 0; return e })
	addT("tampered-no-index-field", true, func(e map[string]any) map[string]any { delete(e, "index_on_disk"); return e })
	addT("tampered-zero-sizes", true, func(e map[string]any) map[string]any {
		e["index_on_disk"], e["docs_on_disk"], e["meta_on_disk"] = 0, 0, 0
		return e
	})
	addT("tampered-partial", true, func(e map[string]any) map[string]any {
		return map[string]any{"name": e["name"], "ver": e["ver"], "docs_total": e["docs_total"]}
	})
	addT("tampered-zero-index-wrong-range", true, func(e map[string]any) map[string]any {
		e["index_on_disk"], e["docs_total"], e["from"], e["to"] = 0, 0, 0, 0
		return e
	})
	addT("tampered-null-entry", true, func(e map[string]any) map[string]any { return nil })
	addT("trusted-wrong-size", false, func(e map[string]any) map[string]any { e["docs_on_disk"] = 123456; return e })
	addT("trusted-wrong-range", false, func(e map[string]any) map[string]any { e["docs_total"], e["from"], e["to"] = 0, 0, 0; return e })
	type res struct {
		obs loadObs
		err error
	}
	results := make([]res, len(vs))
	var wg sync.WaitGroup
	sem := make(chan struct{}, workers)
	for i, v := range vs {
		wg.Add(1)
		sem <- struct{}{}
		go func(i int, v variant) {
			defer wg.Done()
			defer func() { <-sem }()
			dir := d.newDir()
			defer os.RemoveAll(dir)
			if err := final.Materialize(dir); err != nil {
				results[i].err = err
				return
			}
			os.Remove(filepath.Join(dir, ".frac-cache"))
			if v.content != nil {
				os.WriteFile(filepath.Join(dir, ".frac-cache"), v.content, 0o644)
			}
			results[i].obs, results[i].err = d.observeDir(dir, h.Sorted, docs, known)
		}(i, v)
	}
	wg.Wait()
	if results[0].err != nil || results[0].obs.Died {
		d.w.Count("harness_errors")
		return
	}
	hdr := map[string]fracObs{}
	var sealedNames []string
	// only fractions that are sealed ON DISK in the final state: a rotated, not yet sealed fraction is sealed anew by
	// every restart (FracManager.Load), its Info never comes from the cache file and the size of the fresh index
	// differs by a few bytes from restart to restart (false alarm cache:tampered-no-index-field, seed 2, noted in the
	// report of extension s6)
	onDisk := fileSets(final.FileNames())
	for _, f := range results[0].obs.Fracs {
		if f.Kind == "sealed" && has(onDisk[f.Name], ".index") {
			hdr[f.Name] = f
			sealedNames = append(sealedNames, f.Name)
		}
	}
	for i, v := range vs {
		r := results[i]
		if r.err != nil {
			d.w.Count("harness_errors")
			continue
		}
		if r.obs.Died {
			d.w.Violate("cache:restart-died", "restart with a "+v.name+" .frac-cache died", map[string]any{"history": h.desc(), "variant": v.name,
				"content_hex": hex.EncodeToString(v.content), "stderr_tail": r.obs.Err})
			continue
		}
		// the entries as the same JSON library parses them
		entries := map[string]cacheInfo{}
		parsed := map[string]*cacheInfo{}
		if v.content != nil && json.Unmarshal(v.content, &parsed) == nil {
			for n, e := range parsed {
				if e != nil {
					entries[n] = *e
				}
			}
		}
		impl := map[string]fracObs{}
		for _, f := range r.obs.Fracs {
			impl[f.Name] = f
		}
		var items []string
		for _, n := range sealedNames {
			hd := hdr[n]
			im := impl[n] // a sealed fraction that is not listed any more counts with an all-zero Info
			ent := "None"
			if e, ok := entries[n]; ok {
				ent = "(Some " + infoCoq(e.DocsTotal, e.From, e.To, e.DocsOnDisk, e.IndexOnDisk, e.MetaOnDisk) + ")"
			}
			items = append(items, fmt.Sprintf("mkcinfo %s %s %s", ent, infoCoq(hd.Docs, hd.From, hd.To, hd.DocsOD, hd.IdxOD, hd.MetaOD),
				infoCoq(im.Docs, im.From, im.To, im.DocsOD, im.IdxOD, im.MetaOD)))
		}
		// documents served by fetch AND search: baseline = restart without the file
		var expected, okN, wrongN int
		for _, st := range results[0].obs.Stats {
			expected += st.OK
		}
		for _, st := range r.obs.Stats {
			okN += st.OK
			wrongN += st.Wrong
		}
		sum := sha1.Sum(v.content)
		term := fmt.Sprintf("CCache %s [%s] %d%%N %d%%N %d%%N", casefile.Bool(v.genuine), strings.Join(items, "; "), expected, okN, wrongN)
		kind := v.name
		if i := strings.IndexByte(kind, '-'); i > 0 && (strings.HasPrefix(kind, "truncated") || strings.HasPrefix(kind, "stale")) {
			kind = kind[:i]
		}
		d.w.Add(term, "cache:"+kind, len(items) > 0 && v.content != nil, map[string]any{"history": h.desc(), "variant": v.name, "frac_cache_content": string(v.content), "frac_cache_present": v.content != nil,
				"content_sha1": hex.EncodeToString(sum[:6]), "entries": len(entries)},
			map[string]any{"fracs": r.obs.Fracs, "docs_expected": expected, "docs_served_by_fetch_and_search": okN, "docs_wrong_or_half_served": wrongN, "err": r.obs.Err})
	}
}
