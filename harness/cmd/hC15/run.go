package main

func (d *driver) run() {}
