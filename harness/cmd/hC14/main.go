// hC14 — correspondence driver for property C14 (time-range pruning never hides a document that
// lies in the requested range). Drives the REAL util.Bitmask, seq.MIDsDistribution (+ JSON),
// frac.Info (BuildDistribution / IsIntersecting / Save / Load), processor.getLIDsBorders and real
// fractions (active, sealed, restored from the index header and from .frac-cache) through
// fracmanager.Searcher / Fetcher, and writes the observations as Coq cases
// (props/C14/coq/CaseDefs.v).
package main

import (
	"context"
	"encoding/json"
	"flag"
	"fmt"
	"math"
	"os"
	"sort"
	"strings"
	"time"

	"github.com/ozontech/seq-db/frac"
	"github.com/ozontech/seq-db/frac/processor"
	"github.com/ozontech/seq-db/fracmanager"
	"github.com/ozontech/seq-db/seq"
	"github.com/ozontech/seq-db/util"

	"verif/harness/internal/casefile"
	"verif/harness/internal/fracbuild"
	"verif/harness/internal/rng"
)

const header = "From Coq Require Import ZArith List Bool Uint63.\nImport ListNotations.\n" +
	"From C14 Require Import Model CaseDefs.\nOpen Scope uint63_scope."

const (
	minuteMs = 60000
	tenMinMs = 600000
	dayMs    = 86400000
	two63    = uint64(1) << 63
	baseMs   = uint64(1750000000000) // 2025-06-15
)

// ------------------------------------------------------------------ Coq rendering

// Numbers travel as primitive 63-bit literals (CaseDefs.v: wz): [0,2^61) as is,
// [2^63-2^60, 2^63+2^60) and [2^64-2^62, 2^64) shifted into [2^61,2^62) and [2^62,2^63).
const (
	p60   = uint64(1) << 60
	p61   = uint64(1) << 61
	p62   = uint64(1) << 62
	top62 = uint64(3) << 62 // 2^64 - 2^62
)

func fits(v uint64) bool {
	return v < p61 || (v >= two63-p60 && v < two63+p60) || v >= top62
}

// fit maps an arbitrary random value to a representable one
func fit(v uint64) uint64 {
	if fits(v) {
		return v
	}
	return v >> 3
}

func zu(v uint64) string {
	switch {
	case v < p61:
		return fmt.Sprint(v)
	case v >= two63-p60 && v < two63+p60:
		return fmt.Sprint(v - (two63 - p60) + p61)
	case v >= top62:
		return fmt.Sprint(v - (top62) + p62)
	}
	panic(fmt.Sprintf("hC14: value %d is outside the wire zones", v))
}

func zi(x int64) string {
	if x < 0 {
		panic("hC14: negative number on the wire")
	}
	return zu(uint64(x))
}

// randRID: 64-bit random part of an ID inside the wire zones (all three zones)
func randRID(r *rng.R) uint64 {
	switch r.Intn(3) {
	case 0:
		return r.U64() >> 3
	case 1:
		return two63 - p60 + r.U64()>>3
	}
	return top62 + r.U64()>>2
}

func zb(b bool) string { return casefile.Bool(b) }

// nest renders a monomorphic wire list (see CaseDefs.v): (cons item1 (cons item2 ... nil))
func nest(cons, nilName string, items []string) string {
	if len(items) == 0 {
		return nilName
	}
	var sb strings.Builder
	for _, it := range items {
		sb.WriteString("(")
		sb.WriteString(cons)
		sb.WriteString(" ")
		sb.WriteString(it)
		sb.WriteString(" ")
	}
	sb.WriteString(nilName)
	sb.WriteString(strings.Repeat(")", len(items)))
	return sb.String()
}

func listU(xs []uint64) string {
	p := make([]string, len(xs))
	for i, x := range xs {
		p[i] = zu(x)
	}
	return nest("zc", "zn", p)
}
func listI(xs []int) string {
	p := make([]string, len(xs))
	for i, x := range xs {
		p[i] = zi(int64(x))
	}
	return nest("zc", "zn", p)
}
func listB(xs []byte) string {
	p := make([]string, len(xs))
	for i, x := range xs {
		p[i] = zu(uint64(x))
	}
	return nest("zc", "zn", p)
}
func idCoq(id seq.ID) string { return zu(uint64(id.MID)) + " " + zu(uint64(id.RID)) }
func listID(ids []seq.ID) string {
	p := make([]string, len(ids))
	for i, x := range ids {
		p[i] = idCoq(x)
	}
	// long lists: chain of chunks joined by idj (keeps the literal's nesting depth small)
	const chunk = 200
	if len(p) <= chunk {
		return nest("idc", "idn", p)
	}
	var sb strings.Builder
	n := 0
	for i := 0; i < len(p); i += chunk {
		j := min(i+chunk, len(p))
		if j < len(p) {
			sb.WriteString("(idj ")
			n++
		}
		sb.WriteString(nest("idc", "idn", p[i:j]))
		sb.WriteString(" ")
	}
	sb.WriteString(strings.Repeat(")", n))
	return sb.String()
}

// distribution state -> (from, to, bucket, size, bin); reports sub-millisecond ends
func dstate(w *casefile.Writer, d *seq.MIDsDistribution, input any) string {
	f, t, sub, b, size, bin := d.VerifC14State()
	if sub != 0 {
		w.Violate("dist:sub-ms-ends", "distribution window ends are not whole milliseconds", input)
	}
	return fmt.Sprintf("(WDist %s %s %s %d %s)", zi(f), zi(t), zi(b), size, listB(bin))
}
func ostate(w *casefile.Writer, d *seq.MIDsDistribution, input any) string {
	if d == nil {
		return "WNone"
	}
	return dstate(w, d, input)
}

func try(f func()) (p any) {
	defer func() { p = recover() }()
	f()
	return nil
}

// ------------------------------------------------------------------ (A) util.Bitmask

type bitsIn struct {
	Kind string   `json:"kind"`
	Size int      `json:"size"`
	Sets []int    `json:"sets"`
	Qs   [][2]int `json:"qs"`
}

func allIntervals(size int) [][2]int {
	var qs [][2]int
	for l := 0; l < size; l++ {
		for r := l; r < size; r++ {
			qs = append(qs, [2]int{l, r})
		}
	}
	return qs
}

func runBits(w *casefile.Writer, in bitsIn, class string) {
	in.Kind = "bits"
	var bin []byte
	res := make([]string, 0, len(in.Qs))
	nontrivial := false
	p := try(func() {
		b := util.NewBitmask(in.Size)
		for _, s := range in.Sets {
			b.Set(s, true)
		}
		bin = append([]byte(nil), b.GetBitmaskBinary()...)
		for _, q := range in.Qs {
			r := b.HasBitsIn(q[0], q[1])
			if q[0]/8 != q[1]/8 && len(in.Sets) > 0 {
				nontrivial = true
			}
			res = append(res, fmt.Sprintf("%d %d %s", q[0], q[1], zb(r)))
		}
	})
	if p != nil {
		w.Violate("panic:bitmask", fmt.Sprintf("util.Bitmask panics on in-range positions: %v", p), in)
		return
	}
	w.Add(fmt.Sprintf("WBits %d %s %s %s", in.Size, listI(in.Sets), listB(bin), nest("q3c", "q3n", res)),
		class, nontrivial, in, map[string]any{"bin": fmt.Sprint(bin)})
}

func genBits(w *casefile.Writer, r *rng.R, thorough bool) {
	maxAll, maxPairs, nRand := 8, 18, 60
	if thorough {
		maxAll, maxPairs, nRand = 11, 26, 600
	}
	for size := 1; size <= maxAll; size++ {
		qs := allIntervals(size)
		for m := 0; m < 1<<size; m++ {
			var sets []int
			for i := 0; i < size; i++ {
				if m>>i&1 == 1 {
					sets = append(sets, i)
				}
			}
			runBits(w, bitsIn{Size: size, Sets: sets, Qs: qs}, "bits-exhaustive")
		}
	}
	for size := maxAll + 1; size <= maxPairs; size++ {
		qs := allIntervals(size)
		for a := 0; a < size; a++ {
			runBits(w, bitsIn{Size: size, Sets: []int{a}, Qs: qs}, "bits-single")
			for b := a + 1; b < size; b += 3 {
				runBits(w, bitsIn{Size: size, Sets: []int{b, a}, Qs: qs}, "bits-pair")
			}
		}
	}
	for i := 0; i < nRand; i++ {
		size := r.Range(17, 48)
		var sets []int
		for k := r.Intn(5); k > 0; k-- {
			sets = append(sets, r.Intn(size))
		}
		runBits(w, bitsIn{Size: size, Sets: sets, Qs: allIntervals(size)}, "bits-random")
	}
}

// ------------------------------------------------------------------ (B) seq.MIDsDistribution

type distIn struct {
	Kind   string      `json:"kind"`
	From   int64       `json:"from_ms"`
	To     int64       `json:"to_ms"`
	Bucket int64       `json:"bucket_ns"`
	Adds   []uint64    `json:"adds"`
	Idx    []uint64    `json:"idx"`
	Qs     [][2]uint64 `json:"qs"`
}

func runDist(w *casefile.Writer, in distIn, class string) {
	in.Kind = "dist"
	var st, rt string
	var idx, qs []string
	nontrivial := false
	p := try(func() {
		d := seq.NewMIDsDistribution(time.UnixMilli(in.From), time.UnixMilli(in.To), time.Duration(in.Bucket))
		for _, m := range in.Adds {
			d.Add(seq.MID(m))
		}
		st = dstate(w, d, in)
		var restored *seq.MIDsDistribution
		rtPanic := try(func() {
			data, err := json.Marshal(d)
			if err != nil {
				panic(err)
			}
			if err := json.Unmarshal(data, &restored); err != nil {
				panic(err)
			}
		})
		if rtPanic != nil {
			rt = "WPanic"
			restored = nil
		} else {
			rt = ostate(w, restored, in)
		}
		for _, m := range in.Idx {
			idx = append(idx, fmt.Sprintf("%s %d", zu(m), d.VerifC14MidToIndex(seq.MID(m))))
		}
		for _, q := range in.Qs {
			r1 := d.IsIntersecting(seq.MID(q[0]), seq.MID(q[1]))
			r2 := true
			if restored != nil {
				r2 = restored.IsIntersecting(seq.MID(q[0]), seq.MID(q[1]))
			}
			if !r1 || !r2 {
				nontrivial = true // the distribution really prunes something
			}
			qs = append(qs, fmt.Sprintf("%s %s %s %s", zu(q[0]), zu(q[1]), zb(r1), zb(r2)))
		}
	})
	if p != nil {
		w.Violate("panic:distribution", fmt.Sprintf("seq.MIDsDistribution panics: %v", p), in)
		return
	}
	w.Add(fmt.Sprintf("WDistC %s %s %s %s %s %s %s %s", zi(in.From), zi(in.To), zi(in.Bucket), listU(in.Adds),
		st, rt, nest("idc", "idn", idx), nest("q4c", "q4n", qs)), class, nontrivial && len(in.Adds) > 0, in, map[string]any{"state": st, "restored": rt})
}

func genDistGrid(w *casefile.Writer, thorough bool) {
	type grid struct {
		buckets []int64 // ms
		wstep   int64
		wmax    int64
		pstep   int64
		pext    int64
	}
	grids := []grid{
		{[]int64{1000, 2000, 3000}, 1000, 4000, 500, 1500}, // whole seconds: survives the JSON round trip
		{[]int64{1, 2, 3}, 1, 5, 1, 2},                     // milliseconds: restored as undefined
	}
	if thorough {
		grids[0].wstep = 500
		grids[0].wmax = 5000
		grids[1].wmax = 7
	}
	for _, g := range grids {
		for _, b := range g.buckets {
			for wd := int64(0); wd <= g.wmax; wd += g.wstep {
				from := int64(baseMs)
				to := from + wd
				var pts []uint64
				for p := from - g.pext; p <= to+g.pext; p += g.pstep {
					pts = append(pts, uint64(p))
				}
				var qs [][2]uint64
				for i := range pts {
					for j := i; j < len(pts); j++ {
						qs = append(qs, [2]uint64{pts[i], pts[j]})
					}
				}
				mk := func(adds []uint64) {
					runDist(w, distIn{From: from, To: to, Bucket: b * 1000000, Adds: adds, Idx: pts, Qs: qs}, "dist-grid")
				}
				mk(nil)
				for i := range pts {
					mk([]uint64{pts[i]})
					for j := i + 1; j < len(pts); j++ {
						if thorough || (i+j)%2 == 0 {
							mk([]uint64{pts[j], pts[i]})
						}
					}
				}
			}
		}
	}
}

func satAdd(x uint64, d int64) uint64 {
	if d < 0 {
		if uint64(-d) > x {
			return 0
		}
		return x - uint64(-d)
	}
	if x+uint64(d) < x {
		return math.MaxUint64
	}
	return x + uint64(d)
}

// ------------------------------------------------------------------ document / query generators

// genDocs returns a creation time and document MIDs of one fraction. Spread classes follow the
// property text: > 10 minutes .. > 24 hours before creation, far past / far future.
func genDocs(r *rng.R, nmax int, allowHuge bool) (creation uint64, mids []uint64, class string) {
	creation = baseMs + uint64(r.Intn(1000*dayMs/1000))*1000 + uint64(r.Intn(1000))
	n := r.Range(1, nmax)
	var oldest uint64
	k := r.Intn(8)
	switch k {
	case 0:
		class = "spread<10min"
		oldest = creation - uint64(r.Intn(tenMinMs-1))
	case 1:
		class = "spread=10min+-1ms"
		oldest = creation - tenMinMs + uint64(r.Range(0, 2)) - 1
	case 2, 3:
		class = "spread-10min..24h"
		oldest = creation - uint64(r.Range(tenMinMs, dayMs))
	case 4:
		class = "spread=24h+-1ms"
		oldest = creation - dayMs + uint64(r.Range(0, 2)) - 1
	case 5:
		class = "spread>24h"
		oldest = creation - dayMs - uint64(r.Intn(30*dayMs))
	case 6:
		class = "far-past-and-future"
		oldest = uint64(r.Intn(3))
	default:
		class = "future-only"
		oldest = creation + uint64(r.Intn(dayMs))
	}
	mids = append(mids, oldest)
	dfrom := oldest
	if creation > oldest && creation-oldest > dayMs {
		dfrom = creation - dayMs
	}
	for len(mids) < n {
		var m uint64
		switch r.Intn(10) {
		case 0, 1, 2, 3: // anywhere between the oldest and creation
			if creation > oldest {
				m = oldest + r.U64()%(creation-oldest+1)
			} else {
				m = oldest + uint64(r.Intn(5000))
			}
		case 4, 5: // on / next to a bucket border of the future distribution window
			m = satAdd(dfrom+uint64(r.Intn(1441))*minuteMs, int64(r.Range(-1, 1)))
		case 6: // same minute as an existing document
			m = satAdd(rng.Pick(r, mids), int64(r.Range(-30000, 30000)))
		case 7: // around creation
			m = satAdd(creation, int64(r.Range(-2, 2)))
		case 8: // future relative to creation
			m = creation + uint64(r.Intn(3*dayMs))
		default:
			if k == 6 {
				m = rng.Pick(r, []uint64{0, 1, 1000, 7258118400000, two63 - 1, two63 - 2, creation + 400*dayMs})
			} else {
				m = satAdd(oldest, int64(r.Intn(120000)))
			}
		}
		if m < oldest && k != 6 {
			m = oldest
		}
		mids = append(mids, m)
	}
	if allowHuge && r.Chance(1, 25) {
		class = "mid>=2^63"
		mids = append(mids, rng.Pick(r, []uint64{two63, two63 + 5, math.MaxUint64 - 1}))
	}
	return
}

// genQueries picks query intervals whose ends fall on / next to document times, bucket borders,
// the fraction borders and the creation time.
func genQueries(r *rng.R, creation uint64, mids []uint64, n int, allowHuge bool) [][2]uint64 {
	mn, mx := mids[0], mids[0]
	for _, m := range mids {
		mn, mx = min(mn, m), max(mx, m)
	}
	dfrom := mn
	if creation > mn && creation-mn > dayMs {
		dfrom = creation - dayMs
	}
	point := func() uint64 {
		switch r.Intn(12) {
		case 0, 1, 2:
			return satAdd(rng.Pick(r, mids), int64(r.Range(-1, 1)))
		case 3, 4:
			return satAdd(dfrom+uint64(r.Intn(1442))*minuteMs, int64(r.Range(-1, 1)))
		case 5:
			return satAdd(rng.Pick(r, []uint64{mn, mx, creation, dfrom}), int64(r.Range(-1, 1)))
		case 6:
			return satAdd(creation, -int64(rng.Pick(r, []int{tenMinMs, dayMs, dayMs + minuteMs}))+int64(r.Range(-1, 1)))
		case 7:
			return rng.Pick(r, []uint64{0, 1, two63 - 1, mn / 2, mx + 1000*dayMs})
		case 8:
			if allowHuge && r.Chance(1, 2) {
				return rng.Pick(r, []uint64{two63, math.MaxUint64})
			}
			return satAdd(rng.Pick(r, mids), int64(r.Range(-minuteMs, minuteMs)))
		default:
			lo := satAdd(min(mn, dfrom), -2*3600000)
			hi := satAdd(max(mx, creation), 2*3600000)
			if hi-lo == math.MaxUint64 {
				return fit(r.U64())
			}
			return fit(lo + r.U64()%(hi-lo+1))
		}
	}
	qs := make([][2]uint64, 0, n)
	for len(qs) < n {
		a, b := point(), point()
		if r.Chance(1, 6) {
			b = a
		}
		if a > b && !r.Chance(1, 10) {
			a, b = b, a
		}
		qs = append(qs, [2]uint64{a, b})
	}
	return qs
}

// ------------------------------------------------------------------ (C) frac.Info

type infoIn struct {
	Kind     string      `json:"kind"`
	Creation uint64      `json:"creation_ms"`
	Docs     []uint64    `json:"docs"`
	Stub     bool        `json:"with_stub"`
	Qs       [][2]uint64 `json:"qs"`
}

func runInfo(w *casefile.Writer, in infoIn, class string) {
	in.Kind = "info"
	mn, mx := uint64(math.MaxUint64), uint64(0)
	for _, m := range in.Docs {
		mn, mx = min(mn, m), max(mx, m)
	}
	var st, rt string
	var qs []string
	nontrivial := false
	p := try(func() {
		info := &frac.Info{DocsTotal: uint32(len(in.Docs)), From: seq.MID(mn), To: seq.MID(mx), CreationTime: in.Creation}
		var ids []seq.ID
		if in.Stub {
			ids = append(ids, seq.ID{MID: math.MaxUint64, RID: math.MaxUint64})
		}
		for i, m := range in.Docs {
			ids = append(ids, seq.ID{MID: seq.MID(m), RID: seq.RID(i)})
		}
		info.BuildDistribution(ids)
		st = ostate(w, info.Distribution, in)
		var back frac.Info
		rtPanic := try(func() { back.Load(info.Save()) })
		if rtPanic != nil {
			rt = "WPanic"
		} else {
			rt = ostate(w, back.Distribution, in)
			if back.From != info.From || back.To != info.To || back.DocsTotal != info.DocsTotal || back.CreationTime != info.CreationTime {
				w.Violate("info:roundtrip-fields", "Info.Save/Load changes From/To/DocsTotal/CreationTime", in)
			}
		}
		for _, q := range in.Qs {
			r1 := info.IsIntersecting(seq.MID(q[0]), seq.MID(q[1]))
			r2 := false
			if rtPanic == nil {
				r2 = back.IsIntersecting(seq.MID(q[0]), seq.MID(q[1]))
			}
			if !r1 && info.Distribution != nil && q[0] <= q[1] && q[1] >= mn && q[0] <= mx {
				nontrivial = true // pruned by the occupancy map, not by the borders
			}
			qs = append(qs, fmt.Sprintf("%s %s %s %s", zu(q[0]), zu(q[1]), zb(r1), zb(r2)))
		}
	})
	if p != nil {
		w.Violate("panic:info", fmt.Sprintf("frac.Info distribution code panics: %v", p), in)
		return
	}
	w.Add(fmt.Sprintf("WInfo %s %s %s %s %s %s %s %s", zu(in.Creation), listU(in.Docs), zb(in.Stub), zu(mn), zu(mx), st, rt, nest("q4c", "q4n", qs)),
		"info-"+class, nontrivial, in, map[string]any{"dist": st, "restored": rt})
}

// ------------------------------------------------------------------ (E) getLIDsBorders on a plain index

type plainIndex []seq.ID // position 0 = stub

func (p plainIndex) LessOrEqual(lid seq.LID, id seq.ID) bool { return seq.LessOrEqual(p[lid], id) }
func (p plainIndex) GetMID(lid seq.LID) seq.MID              { return p[lid].MID }
func (p plainIndex) GetRID(lid seq.LID) seq.RID              { return p[lid].RID }
func (p plainIndex) Len() int                                { return len(p) }

type bordersIn struct {
	Kind string      `json:"kind"`
	IDs  [][2]uint64 `json:"ids"` // descending
	Qs   [][2]uint64 `json:"qs"`
}

func toIDs(x [][2]uint64) []seq.ID {
	out := make([]seq.ID, len(x))
	for i, p := range x {
		out[i] = seq.ID{MID: seq.MID(p[0]), RID: seq.RID(p[1])}
	}
	return out
}

func sortDesc(ids []seq.ID) {
	sort.SliceStable(ids, func(i, j int) bool { return seq.Less(ids[j], ids[i]) })
}

func runBorders(w *casefile.Writer, in bordersIn, class string) {
	in.Kind = "borders"
	ids := toIDs(in.IDs)
	tbl := append(plainIndex{{MID: math.MaxUint64, RID: math.MaxUint64}}, ids...)
	var qs []string
	nontrivial := false
	p := try(func() {
		for _, q := range in.Qs {
			lo, hi := processor.VerifC14LIDsBorders(seq.MID(q[0]), seq.MID(q[1]), tbl)
			if int(lo) > 1 && int(hi) < len(ids) && lo <= hi {
				nontrivial = true // narrowed on both sides and non-empty
			}
			qs = append(qs, fmt.Sprintf("%s %s %d %d", zu(q[0]), zu(q[1]), lo, hi))
		}
	})
	if p != nil {
		w.Violate("panic:lids-borders", fmt.Sprintf("getLIDsBorders panics: %v", p), in)
		return
	}
	w.Add(fmt.Sprintf("WBorders %s %s", listID(ids), nest("b4c", "b4n", qs)), class, nontrivial, in, nil)
}

func genBorders(w *casefile.Writer, r *rng.R, thorough bool) {
	universe := [][2]uint64{{0, 0}, {0, 1}, {1, 0}, {1, math.MaxUint64}, {2, 7}, {3, 0}, {3, 5}, {5, 1}}
	if thorough {
		universe = append(universe, [2]uint64{2, 7}, [2]uint64{4, math.MaxUint64})
	}
	var qs [][2]uint64
	for a := uint64(0); a <= 6; a++ {
		for b := uint64(0); b <= 6; b++ {
			qs = append(qs, [2]uint64{a, b})
		}
	}
	for m := 0; m < 1<<len(universe); m++ {
		var ids []seq.ID
		for i := range universe {
			if m>>i&1 == 1 {
				ids = append(ids, seq.ID{MID: seq.MID(universe[i][0]), RID: seq.RID(universe[i][1])})
			}
		}
		sortDesc(ids)
		in := bordersIn{Qs: qs}
		for _, x := range ids {
			in.IDs = append(in.IDs, [2]uint64{uint64(x.MID), uint64(x.RID)})
		}
		runBorders(w, in, "borders-exhaustive")
	}
	n := 150
	if thorough {
		n = 2000
	}
	for i := 0; i < n; i++ {
		creation, mids, _ := genDocs(r, 40, true)
		var ids []seq.ID
		for _, m := range mids {
			ids = append(ids, seq.ID{MID: seq.MID(m), RID: seq.RID(rng.Pick(r, []uint64{0, 1, randRID(r), math.MaxUint64}))})
			if r.Chance(1, 8) { // duplicates and same-MID neighbours
				ids = append(ids, ids[len(ids)-1], seq.ID{MID: seq.MID(m), RID: seq.RID(randRID(r))})
			}
		}
		sortDesc(ids)
		in := bordersIn{Qs: genQueries(r, creation, mids, 30, true)}
		for _, x := range ids {
			in.IDs = append(in.IDs, [2]uint64{uint64(x.MID), uint64(x.RID)})
		}
		runBorders(w, in, "borders-random")
	}
}

// ------------------------------------------------------------------ (D) real fractions

type fracIn struct {
	Creation uint64      `json:"creation_ms"`
	Docs     [][2]uint64 `json:"docs"` // (MID, RID), unique
	Class    string      `json:"class"`
}

type storeIn struct {
	Kind     string      `json:"kind"`
	Fracs    []fracIn    `json:"fracs"`
	SealLast bool        `json:"seal_last"`
	Restart  string      `json:"restart"` // none | header | cache
	Qs       [][2]uint64 `json:"qs"`
	// absent IDs (MID >= 2^63, incl. MaxUint64) requested together with every stored ID
	FetchExtra [][2]uint64 `json:"fetch_extra,omitempty"`
	Seed       uint64      `json:"gen_seed,omitempty"` // big stores are replayed from their generator seed
	Big        int         `json:"big,omitempty"`
}

var mapping = seq.Mapping{"k": seq.NewSingleType(seq.TokenizerTypeKeyword, "", 0)}

func searchIDs(fracs fracmanager.List, qf, qt uint64, limit int) ([]seq.ID, error) {
	qpr, err := fracbuild.Search(fracs, fracbuild.Query{Text: "k:a", Mapping: mapping, From: qf, To: qt, Limit: limit}, 0)
	if err != nil {
		return nil, err
	}
	out := make([]seq.ID, len(qpr.IDs))
	for i, x := range qpr.IDs {
		out[i] = x.ID
	}
	return out, nil
}

// compact JSON form of a store input: big stores keep only the generator seed
func (in storeIn) replayInput() any {
	if in.Big > 0 {
		return map[string]any{"kind": "store", "gen_seed": in.Seed, "big": in.Big}
	}
	return in
}

func observeFrac(w *casefile.Writer, in storeIn, k int, f frac.Fraction, sealed, restored bool, phase string) {
	fr := in.Fracs[k]
	ids := toIDs(fr.Docs)
	sortDesc(ids)
	input := map[string]any{"store": in.replayInput(), "fraction": k, "phase": phase}
	var term string
	nontrivial := false
	p := try(func() {
		info := f.Info()
		st := ostate(w, info.Distribution, input)
		dp, release := f.DataProvider(context.Background())
		defer release()
		idx := frac.VerifC14IDsIndex(dp)
		if idx == nil {
			panic("no IDs index for data provider")
		}
		mins := frac.VerifC14MinBlockIDs(dp)
		tblOK := idx.Len() == len(ids)+1
		for i := 0; tblOK && i < len(ids); i++ {
			if idx.GetMID(seq.LID(i+1)) != ids[i].MID || idx.GetRID(seq.LID(i+1)) != ids[i].RID {
				tblOK = false
			}
		}
		var qs []string
		for _, q := range in.Qs {
			r := f.IsIntersecting(seq.MID(q[0]), seq.MID(q[1]))
			lo, hi := processor.VerifC14LIDsBorders(seq.MID(q[0]), seq.MID(q[1]), idx)
			var res []seq.ID
			if q[0] <= q[1] {
				var err error
				res, err = searchIDs(fracmanager.List{f}, q[0], q[1], len(ids)+10)
				if err != nil {
					w.Violate("error:frac-search", "search over one fraction fails: "+err.Error(), input)
				}
			}
			if !r && info.Distribution != nil && q[0] <= q[1] && q[1] >= uint64(info.From) && q[0] <= uint64(info.To) {
				nontrivial = true
			}
			if len(res) > 0 && len(res) < len(ids) {
				nontrivial = true
			}
			qs = append(qs, fmt.Sprintf("%s %s %s %d %d %s", zu(q[0]), zu(q[1]), zb(r), lo, hi, listID(res)))
		}
		term = fmt.Sprintf("WFrac %s %s %s %s %d %s %s %s %s %s %s", zu(fr.Creation), listID(ids), zb(sealed), zb(restored),
			info.DocsTotal, zu(uint64(info.From)), zu(uint64(info.To)), st, listID(mins), zb(tblOK), nest("fqc", "fqn", qs))
	})
	if p != nil {
		w.Violate("panic:fraction", fmt.Sprintf("real fraction (%s) panics: %v", phase, p), input)
		return
	}
	class := "frac-" + phase
	if in.Big > 0 {
		class += "-multiblock"
	}
	w.Count("spread:" + fr.Class)
	w.Add(term, class, nontrivial, input, nil)
}

func observeStore(w *casefile.Writer, in storeIn, fracs fracmanager.List, phase string) {
	input := map[string]any{"store": in.replayInput(), "phase": phase}
	var all []seq.ID
	for _, fr := range in.Fracs {
		all = append(all, toIDs(fr.Docs)...)
	}
	sortDesc(all)
	var qs []string
	nontrivial := false
	p := try(func() {
		for _, q := range in.Qs {
			if q[0] > q[1] {
				continue
			}
			res, err := searchIDs(fracs, q[0], q[1], len(all)+10)
			if err != nil {
				w.Violate("error:store-search", "search over the store fails: "+err.Error(), input)
				continue
			}
			if len(res) > 0 && len(res) < len(all) {
				nontrivial = true
			}
			qs = append(qs, fmt.Sprintf("%s %s %s", zu(q[0]), zu(q[1]), listID(res)))
		}
	})
	if p != nil {
		w.Violate("panic:store-search", fmt.Sprintf("store search panics: %v", p), input)
		return
	}
	var fetched []string
	if in.Big == 0 {
		req := append(append([]seq.ID{}, all...), toIDs(in.FetchExtra)...)
		if len(in.FetchExtra) > 0 {
			w.Count("fetch:with-ids>=2^63")
		}
		docs, err := fracbuild.Fetch(fracs, req)
		if err != nil {
			w.Violate("error:store-fetch", "fetch over the store fails: "+err.Error(), input)
			return
		}
		for i, id := range all {
			fetched = append(fetched, fmt.Sprintf("%s %s", idCoq(id), zb(len(docs[i]) > 0)))
		}
	}
	w.Add(fmt.Sprintf("WStore %s %s %s", listID(all), nest("sqc", "sqn", qs), nest("fuc", "fun_", fetched)), "store-"+phase, nontrivial, input, nil)
}

func runStore(w *casefile.Writer, in storeIn) {
	in.Kind = "store"
	dir, err := os.MkdirTemp("", "verif-c14-")
	if err != nil {
		panic(err)
	}
	defer os.RemoveAll(dir)
	fm, err := fracbuild.NewFM(dir, nil)
	if err != nil {
		panic(err)
	}
	names := map[string]int{}
	sealedK := map[int]bool{}
	for k, fr := range in.Fracs {
		a := fm.VerifC14Active()
		if a == nil {
			panic("no active fraction")
		}
		a.VerifC14SetCreationTime(fr.Creation)
		docs := make([]fracbuild.Doc, len(fr.Docs))
		for i, d := range fr.Docs {
			docs[i] = fracbuild.Doc{MID: d[0], RID: d[1], Body: []byte(fmt.Sprintf(`{"k":"a","n":%d}`, i)), Tokens: []string{"k:a"}}
		}
		// two bulks when there are enough documents (UpdateStats runs per bulk)
		cut := len(docs)
		if len(docs) > 3 {
			cut = len(docs) / 2
		}
		if err := fracbuild.Append(fm, docs[:cut]); err != nil {
			panic(err)
		}
		if err := fracbuild.Append(fm, docs[cut:]); err != nil {
			panic(err)
		}
		fracs := fracbuild.Fracs(fm)
		f := fracs[len(fracs)-1]
		names[f.Info().Name()] = k
		if in.Big == 0 {
			observeFrac(w, in, k, f, false, false, "active")
		}
		if k < len(in.Fracs)-1 || in.SealLast {
			fracbuild.Seal(fm)
			sealedK[k] = true
			observeFrac(w, in, k, fracbuild.Fracs(fm)[k], true, false, "sealed")
		}
	}
	observeStore(w, in, fracbuild.Fracs(fm), "live")
	if in.Restart == "none" {
		fracbuild.Close(fm)
		return
	}
	if in.Restart == "cache" {
		if err := fm.VerifC14SyncFracCache(); err != nil {
			panic(err)
		}
	}
	fracbuild.Close(fm)
	fm2, err := fracbuild.NewFM(dir, nil)
	if err != nil {
		w.Violate("error:restart", "restart fails: "+err.Error(), in.replayInput())
		return
	}
	fracs := fracbuild.Fracs(fm2)
	if len(fracs) != len(in.Fracs) {
		w.Violate("restart:fraction-count", fmt.Sprintf("%d fractions before restart, %d after", len(in.Fracs), len(fracs)), in.replayInput())
		fracbuild.Close(fm2)
		return
	}
	for _, f := range fracs {
		k, ok := names[f.Info().Name()]
		if !ok {
			w.Violate("restart:unknown-fraction", "unknown fraction after restart: "+f.Info().Name(), in.replayInput())
			continue
		}
		if sealedK[k] {
			observeFrac(w, in, k, f, true, true, "restored-"+in.Restart)
		} else {
			observeFrac(w, in, k, f, false, true, "replayed-active")
		}
	}
	observeStore(w, in, fracs, "restarted-"+in.Restart)
	fracbuild.Close(fm2)
}

func genFracIn(r *rng.R, nmax int) (fracIn, uint64, []uint64) {
	creation, mids, class := genDocs(r, nmax, false)
	seen := map[[2]uint64]bool{}
	var docs [][2]uint64
	for _, m := range mids {
		d := [2]uint64{m, rng.Pick(r, []uint64{0, 1, 2, randRID(r), randRID(r), math.MaxUint64})}
		if d[0] == 0 { // frac.DocProvider treats MID 0 as "no ID" (test helper): not storable
			d[0] = 1
		}
		if seen[d] {
			continue
		}
		seen[d] = true
		docs = append(docs, d)
	}
	rng.Shuffle(r, docs)
	return fracIn{Creation: creation, Docs: docs, Class: class}, creation, mids
}

func genStore(r *rng.R) storeIn {
	in := storeIn{SealLast: r.Bool(), Restart: rng.Pick(r, []string{"none", "header", "cache", "cache"})}
	seen := map[[2]uint64]bool{}
	for k := r.Range(1, 3); k > 0; k-- {
		fr, creation, mids := genFracIn(r, 24)
		var docs [][2]uint64
		for _, d := range fr.Docs { // IDs unique over the whole store (search merges duplicates)
			if !seen[d] {
				seen[d] = true
				docs = append(docs, d)
			}
		}
		fr.Docs = docs
		in.Fracs = append(in.Fracs, fr)
		in.Qs = append(in.Qs, genQueries(r, creation, mids, 8, true)...)
		// every store: one query per fraction with the end beyond int64 and the start at / inside the documents
		in.Qs = append(in.Qs, [2]uint64{rng.Pick(r, mids), rng.Pick(r, []uint64{two63, math.MaxUint64, two63 + 12345})})
	}
	if r.Chance(2, 3) {
		for k := r.Range(1, 2); k > 0; k-- {
			in.FetchExtra = append(in.FetchExtra, [2]uint64{rng.Pick(r, []uint64{two63, math.MaxUint64, math.MaxUint64 - 1, two63 + 777}), randRID(r)})
		}
	}
	return in
}

// genBigStore: one sealed fraction with several ID blocks (IDsPerBlock = 4096), so that the
// block-min shortcuts of sealedIDsIndex.LessOrEqual are exercised.
func genBigStore(seed uint64, n int) storeIn {
	r := rng.New(seed)
	creation := baseMs + uint64(r.Intn(1000))*977
	spread := uint64(rng.Pick(r, []int{3 * 3600000, 20 * 3600000, 30 * 3600000}))
	seen := map[[2]uint64]bool{}
	var docs [][2]uint64
	var mids []uint64
	for len(docs) < n {
		m := creation - r.U64()%spread
		if r.Chance(1, 3) && len(mids) > 0 { // many equal MIDs, also across block borders
			m = rng.Pick(r, mids)
		}
		d := [2]uint64{m, rng.Pick(r, []uint64{0, randRID(r), randRID(r), math.MaxUint64})}
		if seen[d] {
			continue
		}
		seen[d] = true
		docs = append(docs, d)
		mids = append(mids, m)
	}
	in := storeIn{Seed: seed, Big: n, SealLast: true, Restart: "header",
		Fracs: []fracIn{{Creation: creation, Docs: docs, Class: "multiblock"}}}
	in.Qs = genQueries(r, creation, mids, 3, true)
	in.Qs = append(in.Qs, [2]uint64{creation - spread/2, math.MaxUint64})
	// queries aimed at block borders
	ids := toIDs(docs)
	sortDesc(ids)
	for b := 4096; b < len(ids)+1; b += 4096 {
		for _, lid := range []int{b - 1, b, b + 1} {
			if lid >= 1 && lid <= len(ids) {
				m := uint64(ids[lid-1].MID)
				in.Qs = append(in.Qs, [2]uint64{m, m}, [2]uint64{satAdd(m, 1), satAdd(m, 5000)}, [2]uint64{satAdd(m, -5000), satAdd(m, -1)})
			}
		}
	}
	return in
}

// ------------------------------------------------------------------ (F) chunked search, nested fractions

// chunkIn: 3-5 real fractions with NESTED / overlapping time ranges (one wide fraction holding old AND
// new documents over narrow ones), searched with FractionsPerIteration 1 or 2 and small limits in both
// orders: the early stop by time borders (List.Sort + calcEnsuredIDsCount) must not drop documents.
type chunkQ struct {
	From    uint64 `json:"from"`
	To      uint64 `json:"to"`
	Limit   int    `json:"limit"`
	Reverse bool   `json:"reverse"`
	FPI     int    `json:"fpi"`
}

type chunkIn struct {
	Kind     string   `json:"kind"`
	Fracs    []fracIn `json:"fracs"`
	SealLast bool     `json:"seal_last"`
	Qs       []chunkQ `json:"qs"`
}

func runChunk(w *casefile.Writer, in chunkIn) {
	in.Kind = "chunk"
	dir, err := os.MkdirTemp("", "verif-c14-")
	if err != nil {
		panic(err)
	}
	defer os.RemoveAll(dir)
	fm, err := fracbuild.NewFM(dir, nil)
	if err != nil {
		panic(err)
	}
	var all []seq.ID
	for k, fr := range in.Fracs {
		a := fm.VerifC14Active()
		if a == nil {
			panic("no active fraction")
		}
		a.VerifC14SetCreationTime(fr.Creation)
		docs := make([]fracbuild.Doc, len(fr.Docs))
		for i, d := range fr.Docs {
			docs[i] = fracbuild.Doc{MID: d[0], RID: d[1], Body: []byte(fmt.Sprintf(`{"k":"a","n":%d}`, i)), Tokens: []string{"k:a"}}
		}
		if err := fracbuild.Append(fm, docs); err != nil {
			panic(err)
		}
		if k < len(in.Fracs)-1 || in.SealLast {
			fracbuild.Seal(fm)
		}
		all = append(all, toIDs(fr.Docs)...)
	}
	sortDesc(all)
	fracs := fracbuild.Fracs(fm)
	var qs []string
	nontrivial := false
	p := try(func() {
		for _, q := range in.Qs {
			qpr, err := fracbuild.Search(fracs, fracbuild.Query{Text: "k:a", Mapping: mapping, From: q.From, To: q.To,
				Limit: q.Limit, Reverse: q.Reverse}, q.FPI)
			if err != nil {
				w.Violate("error:chunked-search", "chunked search fails: "+err.Error(), in)
				continue
			}
			res := make([]seq.ID, len(qpr.IDs))
			for i, x := range qpr.IDs {
				res[i] = x.ID
			}
			if len(res) == q.Limit && q.FPI < len(fracs) {
				nontrivial = true // the limit is reached, so the early stop decides
			}
			qs = append(qs, fmt.Sprintf("%s %s %d %s %d %s", zu(q.From), zu(q.To), q.Limit, zb(q.Reverse), q.FPI, listID(res)))
		}
	})
	fracbuild.Close(fm)
	if p != nil {
		w.Violate("panic:chunked-search", fmt.Sprintf("chunked search panics: %v", p), in)
		return
	}
	w.Add(fmt.Sprintf("WChunk %s %s", listID(all), nest("cqc", "cqn", qs)), "chunked-nested", nontrivial, in, nil)
}

func genChunk(r *rng.R) chunkIn {
	t0 := baseMs + uint64(r.Intn(1000000))*1000
	unit := uint64(rng.Pick(r, []int{1, 1000, minuteMs}))
	n := r.Range(3, 5)
	seen := map[[2]uint64]bool{}
	mk := func(lo, hi uint64, cnt int) [][2]uint64 {
		var out [][2]uint64
		for len(out) < cnt {
			d := [2]uint64{t0 + (lo+r.U64()%(hi-lo+1))*unit, rng.Pick(r, []uint64{0, 1, randRID(r)})}
			if !seen[d] {
				seen[d] = true
				out = append(out, d)
			}
		}
		return out
	}
	var fracs []fracIn
	// the wide fraction: an old cluster and a new cluster around everything else
	wide := append(mk(0, 100, r.Range(1, 4)), mk(900, 1000, r.Range(1, 4))...)
	fracs = append(fracs, fracIn{Docs: wide, Class: "wide"})
	for i := 1; i < n; i++ {
		switch r.Intn(4) {
		case 0: // second level of nesting: medium fraction around the narrow ones
			fracs = append(fracs, fracIn{Docs: append(mk(150, 250, r.Range(1, 3)), mk(750, 850, r.Range(1, 3))...), Class: "medium"})
		case 1: // overlaps the new cluster of the wide fraction
			fracs = append(fracs, fracIn{Docs: mk(850, 950, r.Range(2, 5)), Class: "overlap-new"})
		default: // narrow, inside
			lo := uint64(r.Range(300, 650))
			fracs = append(fracs, fracIn{Docs: mk(lo, lo+uint64(r.Range(0, 60)), r.Range(2, 5)), Class: "narrow"})
		}
	}
	rng.Shuffle(r, fracs) // creation order is independent of the time ranges
	for i := range fracs {
		mx := uint64(0)
		for _, d := range fracs[i].Docs {
			mx = max(mx, d[0])
		}
		fracs[i].Creation = mx + uint64(rng.Pick(r, []int{1000, 20 * minuteMs}))
		rng.Shuffle(r, fracs[i].Docs)
	}
	in := chunkIn{Fracs: fracs, SealLast: r.Bool()}
	pt := func() uint64 { return t0 + uint64(r.Intn(1100))*unit }
	for i := 0; i < 14; i++ {
		q := chunkQ{From: t0 - 1, To: t0 + 2000*unit, Limit: r.Range(1, 6), Reverse: r.Bool(), FPI: r.Range(1, 2)}
		if r.Chance(1, 3) {
			a, b := pt(), pt()
			q.From, q.To = min(a, b), max(a, b)
		}
		if r.Chance(1, 8) {
			q.To = math.MaxUint64
		}
		in.Qs = append(in.Qs, q)
	}
	return in
}

// ------------------------------------------------------------------ main / replay

func doReplay(w *casefile.Writer, path string) {
	b, err := os.ReadFile(path)
	if err != nil {
		panic(err)
	}
	var rp struct {
		Replay struct {
			Case  *struct{ Input json.RawMessage } `json:"case"`
			Input json.RawMessage                  `json:"input"`
		} `json:"replay"`
	}
	if err := json.Unmarshal(b, &rp); err != nil {
		panic(err)
	}
	raw := rp.Replay.Input
	if rp.Replay.Case != nil {
		raw = rp.Replay.Case.Input
	}
	var probe struct {
		Kind  string          `json:"kind"`
		Store json.RawMessage `json:"store"`
	}
	if err := json.Unmarshal(raw, &probe); err != nil {
		panic(err)
	}
	if probe.Store != nil {
		raw = probe.Store
		probe.Kind = "store"
	}
	switch probe.Kind {
	case "bits":
		var in bitsIn
		json.Unmarshal(raw, &in)
		runBits(w, in, "replay")
	case "dist":
		var in distIn
		json.Unmarshal(raw, &in)
		runDist(w, in, "replay")
	case "info":
		var in infoIn
		json.Unmarshal(raw, &in)
		runInfo(w, in, "replay")
	case "borders":
		var in bordersIn
		json.Unmarshal(raw, &in)
		runBorders(w, in, "replay")
	case "chunk":
		var in chunkIn
		json.Unmarshal(raw, &in)
		runChunk(w, in)
	case "store":
		var in storeIn
		json.Unmarshal(raw, &in)
		if in.Big > 0 {
			in = genBigStore(in.Seed, in.Big)
		}
		runStore(w, in)
	default:
		panic("unknown replay kind " + probe.Kind)
	}
}

func main() {
	seed := flag.Uint64("seed", 1, "")
	tier := flag.String("tier", "quick", "")
	out := flag.String("out", "", "")
	replay := flag.String("replay", "", "")
	flag.Parse()
	if *out == "" {
		fmt.Fprintln(os.Stderr, "need -out")
		os.Exit(2)
	}
	w, err := casefile.New(*out, "C14", header, 150)
	if err != nil {
		panic(err)
	}
	if *replay != "" {
		doReplay(w, *replay)
		if err := w.Close(); err != nil {
			panic(err)
		}
		return
	}
	thorough := *tier == "thorough"
	r := rng.New(*seed)
	nInfo, nStores, nBig, nChunk := 500, 40, 2, 40
	if thorough {
		nInfo, nStores, nBig, nChunk = 8000, 400, 8, 500
	}
	genBits(w, r.Fork(), thorough)
	genDistGrid(w, thorough)
	w.Exhaust = true
	w.Extra["exhaustive_scope"] = "util.Bitmask: every subset of set bits x every interval l<=r for small sizes; " +
		"MIDsDistribution: grid of windows/buckets (whole seconds and milliseconds) x every single/pair of added points x every query interval over the grid points; " +
		"getLIDsBorders: every sub-list of a small ID universe x every (from,to) in 0..6"
	// permanent regression (repaired by 6d376ea; Props.v: C14_query_end_above_int63_v0_refuted / _repaired):
	// query end MaxUint64 / 2^63, start inside the window - the spec checker requires `true` now
	runInfo(w, infoIn{Creation: baseMs, Docs: []uint64{baseMs - 3600000}, Stub: true,
		Qs: [][2]uint64{{baseMs - 3600000, math.MaxUint64}, {baseMs - 3600000, two63}, {baseMs - 3600000, two63 - 1},
			{baseMs - 1800000, math.MaxUint64}, {0, math.MaxUint64}}}, "regression-to>=2^63")
	ri := r.Fork()
	for i := 0; i < nInfo; i++ {
		creation, mids, class := genDocs(ri, 30, true)
		runInfo(w, infoIn{Creation: creation, Docs: mids, Stub: !ri.Chance(1, 5), Qs: genQueries(ri, creation, mids, 40, true)}, class)
	}
	genBorders(w, r.Fork(), thorough)
	rs := r.Fork()
	for i := 0; i < nStores; i++ {
		runStore(w, genStore(rs))
	}
	rc := r.Fork()
	for i := 0; i < nChunk; i++ {
		runChunk(w, genChunk(rc))
	}
	for i := 0; i < nBig; i++ {
		runStore(w, genBigStore(rs.U64(), rs.Range(4090, 4100)+4096*rs.Intn(2)))
	}
	runGen(w, rng.New(*seed^0x47454E14), thorough)
	if err := w.Close(); err != nil {
		panic(err)
	}
}
